(* C15: the sparse virtual Read + Seek stream (Adapters.vcursor_seeker) is a lenient seek-style cursor over its
   (virtual) contents, so the adapter theorems apply to streams of up to 2^64-1 bytes, where a skip of more than
   i64::MAX bytes can stay within the stream. *)
From Coq Require Import List NArith ZArith Bool Lia ZifyBool ZifyNat ZifyN.
From MS Require Import Base.Bytes Base.Outcome Base.Cursor Base.Adapters Base.AdaptersSpec Base.AdaptersProofs.
Import ListNotations.
Open Scope N_scope.
Arguments N.add : simpl never.
Arguments N.sub : simpl never.
Arguments N.min : simpl never.
Arguments N.eqb : simpl never.
Arguments N.ltb : simpl never.
Arguments N.leb : simpl never.

Lemma vread_length e : forall n o, length (vread_bytes e o n) = n.
Proof. induction n as [|n IH]; intros o; cbn [vread_bytes length]; [reflexivity|now rewrite IH]. Qed.

Lemma vread_skipn e : forall p n o, skipn p (vread_bytes e o n) = vread_bytes e (o + N.of_nat p) (n - p).
Proof.
  induction p as [|p IH]; intros n o.
  - cbn [skipn]. rewrite N.add_0_r, Nat.sub_0_r. reflexivity.
  - destruct n as [|n]; cbn [vread_bytes skipn Nat.sub]; [reflexivity|].
    rewrite IH. f_equal. lia.
Qed.

Lemma vread_firstn e : forall k n o, firstn k (vread_bytes e o n) = vread_bytes e o (Nat.min k n).
Proof.
  induction k as [|k IH]; intros n o; [reflexivity|].
  destruct n as [|n]; cbn [vread_bytes firstn Nat.min]; [reflexivity|]. now rewrite IH.
Qed.

(* the virtual contents *)
Definition vdata (s : vcur) : bytes := vread_bytes (v_exts s) 0 (N.to_nat (v_len s)).
Definition vabs (s : vcur) : cur := {| cdata := vdata s; cpos := v_pos s |}.
Definition vinv (max_seek : N) (s : vcur) : Prop := v_pos s <= v_len s /\ v_len s < U64 /\ v_len s <= max_seek.

Lemma vdata_len s : blen (vdata s) = v_len s.
Proof. unfold vdata, blen. rewrite vread_length. lia. Qed.

Lemma vslice s p n : p + n <= v_len s -> slice (vdata s) p n = vread_bytes (v_exts s) p (N.to_nat n).
Proof.
  intros H. unfold slice, vdata. rewrite vread_skipn, vread_firstn. rewrite N.add_0_l, N2Nat.id. f_equal. lia.
Qed.

Lemma vmove_abs s p : vabs (vmove s p) = cmove (vabs s) p.
Proof. reflexivity. Qed.

Lemma vcursor_refines max_seek : seeker_refines max_seek (vcursor_seeker max_seek) vabs (vinv max_seek).
Proof.
  assert (Hread : read_ok vabs (vinv max_seek) vcursor_read).
  { intros k s (Hp & Hl & Hm). unfold vcursor_read.
    set (n := N.min k (v_len s - v_pos s)).
    exists (vread_bytes (v_exts s) (v_pos s) (N.to_nat n)), (vmove s (v_pos s + n)).
    assert (Hb : blen (vread_bytes (v_exts s) (v_pos s) (N.to_nat n)) = n) by (unfold blen; rewrite vread_length; lia).
    rewrite Hb. split; [reflexivity|]. cbn [vabs cdata cpos]. split; [|split; [|split; [|split]]].
    - symmetry. apply vslice. subst n. lia.
    - subst n. lia.
    - unfold clen, vabs. cbn [cdata]. rewrite vdata_len. subst n. lia.
    - reflexivity.
    - unfold vinv. cbn [vmove v_pos v_len]. subst n. lia. }
  unfold seeker_refines. cbn [vcursor_seeker sst s_read s_read_exact s_seek s_stream_position].
  split; [|split; [|split; [|split]]].
  - intros s (Hp & Hl & Hm). unfold wf_cur, clen. cbn [vabs cdata cpos]. rewrite vdata_len. lia.
  - intros k s HI. destruct (Hread k s HI) as (l & s' & E & H1 & H2 & H3 & H4 & H5). rewrite E.
    cbn [fst snd rmap rbind accepts advance]. split; [exists l; auto|]. rewrite H4. auto.
  - intros k s HI Hw.
    destruct (read_exact_default_ok vabs (vinv max_seek) true vcursor_read Hread k s HI Hw) as (s' & E & H1 & H2).
    rewrite E. cbn [fst snd]. auto.
  - intros sf s t (Hp & Hl & Hm) Ht Hle. unfold seek_target in Ht. unfold vcursor_seek.
    unfold clen in *. cbn [vabs cdata cpos] in *. rewrite vdata_len in *.
    destruct sf as [n|d|d].
    + destruct ((0 <=? Z.of_N n)%Z && (Z.of_N n <=? Z.of_N max_seek)%Z) eqn:E; [|discriminate].
      injection Ht as <-. rewrite N2Z.id in *. destruct (N.ltb_spec max_seek n); [lia|]. cbn [fst snd].
      split; [reflexivity|]. split; [reflexivity|]. unfold vinv. cbn [vmove v_pos v_len]. lia.
    + destruct ((0 <=? Z.of_N (v_pos s) + d)%Z && (Z.of_N (v_pos s) + d <=? Z.of_N max_seek)%Z) eqn:E; [|discriminate].
      injection Ht as <-.
      assert (Hc : ((0 <=? Z.of_N (v_pos s) + d)%Z && (Z.of_N (v_pos s) + d <? Z.of_N U64)%Z &&
                    (Z.of_N (v_pos s) + d <=? Z.of_N max_seek)%Z) = true) by (unfold U64 in *; lia).
      rewrite Hc. cbn [fst snd]. split; [reflexivity|]. split; [reflexivity|]. unfold vinv. cbn [vmove v_pos v_len]. lia.
    + destruct ((0 <=? Z.of_N (v_len s) + d)%Z && (Z.of_N (v_len s) + d <=? Z.of_N max_seek)%Z) eqn:E; [|discriminate].
      injection Ht as <-.
      assert (Hc : ((0 <=? Z.of_N (v_len s) + d)%Z && (Z.of_N (v_len s) + d <? Z.of_N U64)%Z &&
                    (Z.of_N (v_len s) + d <=? Z.of_N max_seek)%Z) = true) by (unfold U64 in *; lia).
      rewrite Hc. cbn [fst snd]. split; [reflexivity|]. split; [reflexivity|]. unfold vinv. cbn [vmove v_pos v_len]. lia.
  - intros s HI. cbn [fst snd]. auto.
Qed.

(* a skip of 2^63 + 5 bytes from position 3 of a stream of 2^64 - 1 bytes stays within the stream: the hypotheses of
   the seek adapter theorem are satisfiable there, and the model lands where the ideal cursor does *)
Example vcur_huge_skip_example :
  let s := {| v_len := 18446744073709551615; v_exts := [(0, [Byte.x01; Byte.x02; Byte.x03; Byte.x04])]; v_pos := 3 |} in
  vinv U64MAXN s /\ within (OSkip 9223372036854775813) (vabs s) /\
  v_pos (snd (ssa_skip (vcursor_seeker U64MAXN) 9223372036854775813 s)) = 9223372036854775816.
Proof. cbn zeta. split; [unfold vinv, U64, U64MAXN; cbn; lia|]. split; [|reflexivity].
  unfold within, clen. cbn [vabs cdata cpos]. rewrite vdata_len. cbn. lia. Qed.
