(* Finding D11 in its exact shape, for both sanitizers, on the ideal cursor: over the same bytes a reader that can seek as far as
   ms2 (io::Cursor: 2^64-1) and one that can only seek as far as ms1 <= ms2 (a file: 2^63-1 or the file system's limit) return
   the SAME result, or the more limited one returns Io(InvalidInput) / Io(InvalidData) and the other one rejects the input too -
   the verdict accept / reject never depends on the limit.
   On Base/MaxSeekProofs.v (cursor_max_seek_mono), the propagation walks of C13 and the closed forms of C03 / C06. *)
From Coq Require Import List NArith Bool Lia.
From Coq.Strings Require Import Byte.
From MS Require Import Base.Bytes Base.Outcome Base.Prog Base.ProgSpec Base.MaxSeekProofs
  Mp4.Header Mp4.Box Mp4.San Mp4.Spec Mp4.SanProgProofs Mp4.LoopProofs
  Webp.Container Webp.Grammar Webp.ContainerProofsFault Webp.ContainerProofsTop.
Import ListNotations.
Open Scope N_scope.

Theorem mp4_max_seek_shape : forall (cfg : config) (inp : input) (fuel : nat) (ms1 ms2 : N),
  ilen inp <= ms1 -> ms1 <= ms2 -> ms2 <= U64MAX ->
  (forall t, cumulative_mdat_box_size cfg = Some t -> t <= U32MAX) ->
  mp4_sanitize cfg true ms1 inp fuel = mp4_sanitize cfg true ms2 inp fuel \/
  exists e, (e = EInvalidInput \/ e = EInvalidData) /\
            mp4_sanitize cfg true ms1 inp fuel = EIo e /\ is_ok (mp4_sanitize cfg true ms2 inp fuel) = false.
Proof.
  intros cfg inp fuel ms1 ms2 H1 H12 H2 Hc.
  destruct (cursor_max_seek_mono TB (sanitize_prog cfg fuel) (propagating_sanitize cfg fuel) inp ms1 ms2 0 H12) as [E | (e & He & E)].
  - left. exact E.
  - right. exists e. split; [exact He|]. split; [exact E|].
    fold (mp4_sanitize cfg true ms1 inp fuel) in E. fold (mp4_sanitize cfg true ms2 inp fuel).
    assert (H1' : ilen inp <= ms2) by lia. assert (H2' : ms1 <= U64MAX) by lia.
    destruct (tiling (cumulative_mdat_box_size cfg) inp) as [bs|] eqn:Et.
    + destruct (sanitize_tiled inp true ms1 cfg H1 H2' Hc fuel bs Et) as [R1 | [R1 _]]; [|rewrite E in R1; discriminate].
      destruct (sanitize_tiled inp true ms2 cfg H1' H2 Hc fuel bs Et) as [R2 | [R2 _]]; [|rewrite R2; reflexivity].
      rewrite R2, <- R1, E. reflexivity.
    + exact (sanitize_untiled inp true ms2 cfg H1' H2 Hc fuel Et).
Qed.

Theorem webp_max_seek_shape : forall (lossless : N -> N -> bytes -> res unit) (allow : bool) (inp : input) (fuel : nat) (ms1 ms2 : N),
  ilen inp <= ms1 -> ms1 <= ms2 -> (N.to_nat (ilen inp / 8) < fuel)%nat ->
  webp_sanitize lossless allow true ms1 inp fuel = webp_sanitize lossless allow true ms2 inp fuel \/
  exists e, (e = EInvalidInput \/ e = EInvalidData) /\
            webp_sanitize lossless allow true ms1 inp fuel = EIo e /\ is_ok (webp_sanitize lossless allow true ms2 inp fuel) = false.
Proof.
  intros lossless allow inp fuel ms1 ms2 H1 H12 Hf.
  destruct (cursor_max_seek_mono TC (webp_prog lossless allow fuel) (propagating_webp lossless allow fuel) inp ms1 ms2 0 H12)
    as [E | (e & He & E)].
  - left. exact E.
  - right. exists e. split; [exact He|]. split; [exact E|].
    fold (webp_sanitize lossless allow true ms1 inp fuel) in E.
    rewrite (webp_sanitize_iff lossless allow true ms2 inp fuel ltac:(lia) Hf).
    rewrite <- (webp_sanitize_iff lossless allow true ms1 inp fuel H1 Hf). rewrite E. reflexivity.
Qed.
