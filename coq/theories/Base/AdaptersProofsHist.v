(* C15, part 3: forwarding impls, AsyncInputAdapter, ChunkDataReader, histories. *)
From Coq Require Import List NArith ZArith Bool Lia ZifyBool ZifyNat ZifyN.
From MS Require Import Base.Bytes Base.Outcome Base.Cursor Base.Adapters Base.AdaptersSpec Base.AdaptersProofs
     Base.AdaptersProofsBuf.
Import ListNotations.
Open Scope N_scope.
Arguments N.add : simpl never.
Arguments N.sub : simpl never.
Arguments N.mul : simpl never.
Arguments N.eqb : simpl never.
Arguments N.ltb : simpl never.
Arguments N.leb : simpl never.
Arguments N.min : simpl never.
Arguments N.max : simpl never.

(* ------------------------------------------------------------------------------------------------ *)
Section Fwd.
  Context (R : reader) (abs : rst R -> cur) (Inv : rst R -> Prop) (HR : refines R abs Inv).
  Let H := refines_ops R abs Inv HR.

  Lemma fwd_refines : refines (fwd R) abs Inv.
  Proof.
    destruct H as (Hwf & Hr & Hx & Hs & Hp & Hl).
    apply (refines_of_ops (fwd R) abs Inv); cbn [fwd rread rread_exact rskip rpos rlen rst]; auto.
  Qed.

  Lemma async_input_refines : refines (async_input R) abs Inv.
  Proof.
    destruct H as (Hwf & Hr & Hx & Hs & Hp & Hl).
    apply (refines_of_ops (async_input R) abs Inv); cbn [async_input rread rread_exact rskip rpos rlen rst]; auto.
    apply (read_exact_default_ok abs Inv false), Hr.
  Qed.

  Lemma fut_view_refines : refines (fut_view R) abs Inv.
  Proof.
    destruct H as (Hwf & Hr & Hx & Hs & Hp & Hl).
    apply (refines_of_ops (fut_view R) abs Inv); cbn [fut_view rread rread_exact rskip rpos rlen rst]; auto.
    apply (read_exact_default_ok abs Inv false), Hr.
  Qed.

  Lemma forwarding_refines : refines (fwd R) abs Inv /\ refines (async_input R) abs Inv /\ refines (fut_view R) abs Inv.
  Proof. split; [exact fwd_refines|split; [exact async_input_refines|exact fut_view_refines]]. Qed.
End Fwd.

(* ------------------------------------------------------------------------------------------------ *)
(* histories *)
Section Hist.
  Context (R : reader) (abs : rst R -> cur) (Inv : rst R -> Prop) (HR : refines R abs Inv).

  Lemma history_refines : forall (ops : list op) (s : rst R), Inv s ->
    hist_ok ops (abs s) (fst (run_ops R ops s)) /\
    (hist_within ops (abs s) (fst (run_ops R ops s)) ->
       abs (snd (run_ops R ops s)) = hist_end ops (abs s) (fst (run_ops R ops s)) /\ Inv (snd (run_ops R ops s))).
  Proof.
    destruct HR as [_ Hstep].
    induction ops as [|o ops IH]; intros s HI; cbn [run_ops].
    - cbn [fst snd hist_ok hist_within hist_end]. auto.
    - destruct (rstep R o s) as [r s1] eqn:E1. destruct (run_ops R ops s1) as [rs s2] eqn:E2.
      cbn [fst snd hist_ok hist_within hist_end].
      pose proof (Hstep o s HI) as Hs. rewrite E1 in Hs. cbn [fst snd] in Hs.
      split.
      + intros Hw. destruct (Hs Hw) as (Hacc & Habs & HI1). split; [exact Hacc|].
        rewrite <- Habs. specialize (IH s1 HI1). rewrite E2 in IH. apply IH.
      + intros [Hw Hrest]. destruct (Hs Hw) as (Hacc & Habs & HI1).
        specialize (IH s1 HI1). rewrite E2 in IH. cbn [fst snd] in IH. rewrite <- Habs in *. apply IH, Hrest.
  Qed.

  (* stream_len and stream_position return the ideal values and do not move the cursor *)
  Lemma queries_do_not_move : forall s : rst R, Inv s ->
    fst (rstep R OLen s) = Ok (VNum (clen (abs s))) /\ abs (snd (rstep R OLen s)) = abs s /\
    fst (rstep R OPos s) = Ok (VNum (cpos (abs s))) /\ abs (snd (rstep R OPos s)) = abs s.
  Proof.
    destruct HR as [_ Hstep]. intros s HI.
    destruct (Hstep OLen s HI I) as (H1 & H2 & _). destruct (Hstep OPos s HI I) as (H3 & H4 & _).
    cbn [accepts advance] in *. auto.
  Qed.
End Hist.

(* a history that stays within the stream exists and is accepted: the hypotheses are not vacuous *)
Example history_example :
  let R := std_buf 2 (cursor_reader U64MAXN) in
  let s := buf_init (cursor_reader U64MAXN) {| cdata := [Byte.x0a; Byte.x0b; Byte.x0c; Byte.x0d]; cpos := 0 |} in
  fst (run_ops R [ORead 1; OLen; OPos; OSkip 2; OPos; OReadExact 1; OPos] s)
  = [Ok (VBytes [Byte.x0a]); Ok (VNum 4); Ok (VNum 1); Ok VUnit; Ok (VNum 3); Ok (VBytes [Byte.x0d]); Ok (VNum 4)].
Proof. vm_compute. reflexivity. Qed.

(* ------------------------------------------------------------------------------------------------ *)
(* ChunkDataReader *)
Section ChunkData.
  Context (R : reader) (abs : rst R -> cur) (Inv : rst R -> Prop) (HR : refines R abs Inv).

  Let Hwf := proj1 (refines_ops R abs Inv HR).
  Let Hread := proj1 (proj2 (refines_ops R abs Inv HR)).
  Let Hskip := proj1 (proj2 (proj2 (proj2 (refines_ops R abs Inv HR)))).
  Let Hpos := proj1 (proj2 (proj2 (proj2 (proj2 (refines_ops R abs Inv HR))))).
  Let Hlen := proj2 (proj2 (proj2 (proj2 (proj2 (refines_ops R abs Inv HR))))).

  Notation cabs := (cd_abs R abs).
  Notation cinv := (cd_inv R abs Inv).

  (* the window [.. pos + remaining) of the parent's data *)
  Lemma cd_facts s : cinv s ->
    let c := abs (cinner s) in
    Inv (cinner s) /\ cpos c <= clen c /\ clen c < U64 /\ cpos c + cd_remaining s <= clen c /\
    cpos (cabs s) = cpos c /\ clen (cabs s) = cpos c + cd_remaining s.
  Proof.
    intros (HI & Hn1 & Hn2 & Hrem). destruct (Hwf _ HI) as [Hp Hl]. cbn zeta. unfold cd_abs, clen. cbn [cdata cpos].
    rewrite blen_firstn. unfold clen in *. repeat split; auto; lia.
  Qed.

  Lemma slice_window d e p n : p + n <= e -> slice (firstn (N.to_nat e) d) p n = slice d p n.
  Proof.
    intros H. unfold slice. rewrite skipn_firstn_sub, firstn_firstn_min. f_equal. lia.
  Qed.

  Lemma after_body_rem rem n (i : rst R) : n <= rem ->
    cd_remaining {| cstate_of := after_body rem n; cinner := i |} = rem - n /\
    after_body rem n <> CPeeking /\ after_body rem n <> CBody 0.
  Proof.
    intros H. unfold after_body, cd_remaining. cbn [cstate_of].
    destruct (N.eqb_spec (rem - n) 0) as [E|E]; repeat split; try congruence; try lia.
  Qed.

  Lemma cd_read_ok : read_ok cabs cinv (cd_read R).
  Proof.
    intros k s HC. destruct (cd_facts s HC) as (HI & Hp & Hl & Hrem & Hcp & Hcl). cbn zeta in *.
    pose proof HC as (_ & Hn1 & Hn2 & _). unfold cd_read.
    destruct (cstate_of s) as [| |rem] eqn:Est; [|congruence|].
    - (* no body: 0 *)
      assert (Hr0 : cd_remaining s = 0) by (unfold cd_remaining; now rewrite Est).
      exists [], s. rewrite blen_nil, N.add_0_r, cmove_same.
      split; [reflexivity|]. split; [reflexivity|]. split; [lia|]. split; [|split; [reflexivity|exact HC]].
      split; [intros _; right; lia|reflexivity].
    - assert (Hr : cd_remaining s = rem) by (unfold cd_remaining; now rewrite Est).
      assert (Hrem0 : rem <> 0) by (intros ->; apply Hn2; reflexivity).
      destruct (Hread (N.min k rem) (cinner s) HI) as (l & i' & E & H1 & H2 & H3 & H4 & H5). rewrite E.
      destruct (N.ltb_spec rem (blen l)) as [Hlt|_]; [lia|].
      destruct (after_body_rem rem (blen l) i') as (Hr' & Hp1 & Hp2); [lia|].
      exists l, {| cstate_of := after_body rem (blen l); cinner := i' |}.
      split; [reflexivity|]. split; [|split; [lia|split; [|split]]].
      + unfold cd_abs at 1 2. cbn [cdata cpos]. rewrite slice_window by lia. exact H1.
      + rewrite Hcp, Hcl. split.
        * intros Hz. apply H3 in Hz. destruct Hz as [Hz|Hz]; [left; lia|lia].
        * intros [Hz|Hz]; apply H3; [left; lia|lia].
      + unfold cd_abs, cmove. cbn [cinner cdata cpos]. rewrite Hr', H4, cpos_cmove, cdata_cmove, Hr. f_equal. f_equal. lia.
      + unfold cd_inv. cbn [cinner cstate_of]. rewrite Hr', H4, cpos_cmove, clen_cmove. repeat split; auto. lia.
  Qed.

  Lemma cd_skip_ok : skip_ok cabs cinv (cd_skip R).
  Proof.
    intros a s HC Hw. destruct (cd_facts s HC) as (HI & Hp & Hl & Hrem & Hcp & Hcl). cbn zeta in *.
    pose proof HC as (_ & Hn1 & Hn2 & _). unfold cd_skip. rewrite Hcp, Hcl in Hw.
    destruct (cstate_of s) as [| |rem] eqn:Est; [|congruence|].
    - assert (Hr0 : cd_remaining s = 0) by (unfold cd_remaining; now rewrite Est).
      destruct (N.eqb_spec a 0) as [->|Hnz]; [|lia].
      exists s. rewrite N.add_0_r, cmove_same. auto.
    - assert (Hr : cd_remaining s = rem) by (unfold cd_remaining; now rewrite Est).
      destruct (N.ltb_spec rem a) as [Hlt|_]; [lia|].
      destruct (Hskip a (cinner s) HI) as (i' & E & H4 & H5); [lia|]. rewrite E.
      destruct (after_body_rem rem a i') as (Hr' & Hp1 & Hp2); [lia|].
      eexists. split; [reflexivity|]. split.
      + unfold cd_abs, cmove. cbn [cinner cdata cpos]. rewrite Hr', H4, cpos_cmove, cdata_cmove, Hr. f_equal. f_equal. lia.
      + unfold cd_inv. cbn [cinner cstate_of]. rewrite Hr', H4, cpos_cmove, clen_cmove. repeat split; auto. lia.
  Qed.

  Lemma cd_same_abs s i' : cinv s -> abs i' = abs (cinner s) -> Inv i' ->
    cabs {| cstate_of := cstate_of s; cinner := i' |} = cabs s /\ cinv {| cstate_of := cstate_of s; cinner := i' |}.
  Proof.
    intros (HI & H1 & H2 & H3) Ha HI'. unfold cd_abs, cd_inv, cd_remaining. cbn [cstate_of cinner]. rewrite Ha. auto.
  Qed.

  Lemma cd_pos_ok : pos_ok cabs cinv (cd_pos R).
  Proof.
    intros s HC. destruct (cd_facts s HC) as (HI & Hp & Hl & Hrem & Hcp & Hcl). cbn zeta in *.
    unfold cd_pos. destruct (Hpos (cinner s) HI) as (i' & E & Ha & HI'). rewrite E.
    destruct (cd_same_abs s i' HC Ha HI') as [H1 H2]. eexists. split; [rewrite Hcp; reflexivity|]. auto.
  Qed.

  Lemma chunk_data_refines : chunk_refines R abs Inv.
  Proof.
    split.
    - intros s HC. destruct (cd_facts s HC) as (HI & Hp & Hl & Hrem & Hcp & Hcl). cbn zeta in *.
      unfold wf_cur. rewrite Hcp, Hcl. lia.
    - intros o s HC Hw. destruct o as [k|k|a| |]; cbn [rstep chunk_data rread rread_exact rskip rpos rlen].
      + destruct (cd_read_ok k s HC) as (l & s' & E & H1 & H2 & H3 & H4 & H5). rewrite E.
        cbn [fst snd rmap rbind accepts advance]. split; [exists l; auto|]. rewrite H4. auto.
      + destruct (read_exact_default_ok cabs cinv true (cd_read R) cd_read_ok k s HC Hw) as (s' & E & H1 & H2).
        rewrite E. cbn [fst snd rmap rbind accepts advance]. auto.
      + destruct (cd_skip_ok a s HC Hw) as (s' & E & H1 & H2). rewrite E. cbn [fst snd rmap rbind accepts advance]. auto.
      + destruct (cd_pos_ok s HC) as (s' & E & H1 & H2). rewrite E. cbn [fst snd rmap rbind accepts advance]. auto.
      + (* stream_len: the parent's length; the cursor does not move *)
        destruct (cd_facts s HC) as (HI & _). unfold cd_len.
        destruct (Hlen (cinner s) HI) as (i' & E & Ha & HI'). rewrite E. cbn [fst snd rmap rbind advance].
        destruct (cd_same_abs s i' HC Ha HI') as [H1 H2]. auto.
  Qed.
End ChunkData.

(* the invariant of the chunk data reader is satisfiable: a 3-byte body at offset 2 of an 8-byte parent *)
Example chunk_data_example :
  let R := std_buf 8 (cursor_reader U64MAXN) in
  let d := [Byte.x00; Byte.x01; Byte.x02; Byte.x03; Byte.x04; Byte.x05; Byte.x06; Byte.x07] in
  let s := {| cstate_of := CBody 3; cinner := buf_init (cursor_reader U64MAXN) {| cdata := d; cpos := 2 |} |} in
  fst (run_ops (chunk_data R) [ORead 2; OPos; OLen; ORead 5; ORead 1; OSkip 0; OSkip 1] s)
  = [Ok (VBytes [Byte.x02; Byte.x03]); Ok (VNum 4); Ok (VNum 8); Ok (VBytes [Byte.x04]); Ok (VBytes []); Ok VUnit;
     EIo EUnexpectedEof].
Proof. vm_compute. reflexivity. Qed.
