(* Generic lemmas about programmes over an abstract reader (Base/Prog.v), each proved ONCE by induction on [prog]:
     1. fault propagation (C13): [propagating], closure under pbind / the do_* wrappers, [run_fault_spec], [run_err_spec];
     2. traces on the ideal cursor (C10): positions never decrease, intervals of successive operations are disjoint,
        non-interference: two inputs of equal length that agree on every interval read give the same run;
     3. a small programme logic with a MONITOR (a state machine over (operation, response) pairs): [obeys], its bind
        rule, soundness for every reader ([obeys_final], [obeys_steps]).  Used for the C10 trace facts and for
        C13_no_spurious_io. *)
From Coq Require Import List NArith Bool Lia ZifyBool ZifyNat ZifyN.
From Coq.Strings Require Import Byte.
From MS Require Import Base.Bytes Base.Outcome Base.Prog Base.ProgSpec.
Import ListNotations.
Open Scope N_scope.
Arguments N.add : simpl never.
Arguments N.sub : simpl never.
Arguments N.mul : simpl never.
Arguments N.div : simpl never.
Arguments N.modulo : simpl never.
Arguments N.pow : simpl never.
Arguments N.eqb : simpl never.
Arguments N.ltb : simpl never.
Arguments N.leb : simpl never.
Arguments N.min : simpl never.
Arguments N.max : simpl never.

(* ================================================================================================ *)
(* 1. fault propagation *)



Section Propagating.
  Context (T : perr -> Prop).

  Lemma propagating_pbind {A B} (p : prog A) (f : A -> prog B) :
    propagating T p -> (forall a, propagating T (f a)) -> propagating T (pbind p f).
  Proof.
    intros Hp Hf. induction Hp as [r | o k Hio He Hk IH | n k Hc Hk IH].
    - destruct r; cbn [pbind]; try constructor. apply Hf.
    - cbn [pbind]. apply P_io; [exact Hio | | exact IH].
      intros e. destruct (He e) as (r & Hr & Hfr). rewrite Hr.
      destruct Hfr as [-> | (-> & pe & Hpe & ->)]; cbn [pbind].
      + eexists; split; [reflexivity | now left].
      + eexists; split; [reflexivity | right; split; [reflexivity | now exists pe]].
    - cbn [pbind]. apply P_alloc; [|exact IH].
      intros a b. now rewrite (Hc a b).
  Qed.

  Lemma fault_result_io_err {A} (eof : option perr) e :
    (forall pe, eof = Some pe -> T pe) ->
    exists r : res A, io_err eof e = Ret r /\ fault_result T e r.
  Proof.
    intros H. unfold io_err. destruct e; try (eexists; split; [reflexivity | now left]).
    destruct eof as [pe|]; [|eexists; split; [reflexivity | now left]].
    eexists; split; [reflexivity|]. right. split; [reflexivity|]. exists pe. split; [now apply H | reflexivity].
  Qed.

  Lemma propagating_io_err {A} (eof : option perr) e : propagating T (@io_err A eof e).
  Proof. unfold io_err. destruct e, eof; constructor. Qed.

  Lemma none_site pe : @None perr = Some pe -> T pe.
  Proof. discriminate. Qed.

  Lemma propagating_fill_empty : propagating T do_fill_empty.
  Proof.
    apply P_io; [reflexivity | |].
    - intros e. apply fault_result_io_err. exact none_site.
    - intros [b|l| |n|e]; try constructor. apply propagating_io_err.
  Qed.
  Lemma propagating_read_exact n eof :
    (forall pe, eof = Some pe -> T pe) -> propagating T (do_read_exact n eof).
  Proof.
    intros H. apply P_io; [reflexivity | |].
    - intros e. now apply fault_result_io_err.
    - intros [b|l| |m|e]; try constructor. apply propagating_io_err.
  Qed.
  Lemma propagating_read_upto n : propagating T (do_read_upto n).
  Proof.
    apply P_io; [reflexivity | |].
    - intros e. apply fault_result_io_err. exact none_site.
    - intros [b|l| |m|e]; try constructor. apply propagating_io_err.
  Qed.
  Lemma propagating_skip n eof :
    (forall pe, eof = Some pe -> T pe) -> propagating T (do_skip n eof).
  Proof.
    intros H. apply P_io; [reflexivity | |].
    - intros e. now apply fault_result_io_err.
    - intros [b|l| |m|e]; try constructor. apply propagating_io_err.
  Qed.
  Lemma propagating_pos : propagating T do_pos.
  Proof.
    apply P_io; [reflexivity | |].
    - intros e. apply fault_result_io_err. exact none_site.
    - intros [b|l| |m|e]; try constructor. apply propagating_io_err.
  Qed.
  Lemma propagating_len : propagating T do_len.
  Proof.
    apply P_io; [reflexivity | |].
    - intros e. apply fault_result_io_err. exact none_site.
    - intros [b|l| |m|e]; try constructor. apply propagating_io_err.
  Qed.
  Lemma propagating_alloc n : propagating T (do_alloc n).
  Proof. apply P_alloc; [reflexivity | intros; constructor]. Qed.
  Lemma propagating_lift {A} (r : res A) : propagating T (lift r).
  Proof. constructor. Qed.
End Propagating.

(* the side condition of a map_eof site: the parse error it produces is one of the allowed ones *)
Ltac eof_site :=
  let pe := fresh "pe" in let H := fresh "H" in
  intros pe H; first [ discriminate H | injection H as <-; first [ reflexivity | now left | now right | assumption ] ].

(* one tactic that walks the syntax of a programme built from pbind, the wrappers, lift, Ret, if and match *)
Ltac propagating_walk :=
  repeat first
    [ apply P_ret
    | apply propagating_lift
    | apply propagating_fill_empty
    | apply propagating_pos
    | apply propagating_len
    | apply propagating_alloc
    | apply propagating_read_upto
    | apply propagating_read_exact; eof_site
    | apply propagating_skip; eof_site
    | apply propagating_pbind; [|intros]
    | match goal with
      | |- propagating _ (if ?b then _ else _) => destruct b
      | |- propagating _ (match ?x with _ => _ end) => destruct x
      | |- propagating _ (let _ := _ in _) => cbv zeta
      end ].

(* ---- the fault theorem: a fault at I/O operation index k is either never reached (then the run is the fault-free
   run), or the result is Io e / a truncation parse error when e = UnexpectedEof *)
Theorem run_fault_spec {A} T (p : prog A) : propagating T p ->
  forall (R : reader) (s : rst R) (k : nat) (e : ioerr),
    ((op_count R p s <= k)%nat /\ run_fault R p s k e = run R p s)
    \/ ((k < op_count R p s)%nat /\ fault_result T e (fst (run_fault R p s k e))).
Proof.
  intros Hp R. induction Hp as [r | o c Hio He Hk IH | n c Hc Hk IH]; intros s k e.
  - left. cbn. split; [lia | reflexivity].
  - cbn [run_fault op_count run]. rewrite Hio.
    destruct k as [|k'].
    + right. destruct (rstep R o s) as [a s']. split; [lia|].
      destruct (He e) as (r & Hr & Hfr). rewrite Hr. exact Hfr.
    + destruct (rstep R o s) as [a s'].
      destruct (IH a s' k' e) as [(Hle & Heq) | (Hlt & Hfr)].
      * left. split; [lia | exact Heq].
      * right. split; [lia | exact Hfr].
  - cbn [run_fault op_count run is_io].
    destruct (rstep R (OAlloc n) s) as [a s'].
    destruct (IH a s' k e) as [(Hle & Heq) | (Hlt & Hfr)].
    + left. split; [exact Hle | exact Heq].
    + right. split; [exact Hlt | exact Hfr].
Qed.

Lemma fault_result_not_ok {A} T e (r : res A) : fault_result T e r -> is_ok r = false /\ is_panic r = false.
Proof. intros [-> | (_ & pe & _ & ->)]; split; reflexivity. Qed.

(* never success and never a panic once the fault has been reached *)
Corollary run_fault_never_ok {A} T (p : prog A) : propagating T p ->
  forall R s k e, (k < op_count R p s)%nat ->
    is_ok (fst (run_fault R p s k e)) = false /\ is_panic (fst (run_fault R p s k e)) = false.
Proof.
  intros Hp R s k e Hk. destruct (run_fault_spec T p Hp R s k e) as [(Hle & _) | (_ & Hfr)]; [lia|].
  now apply (fault_result_not_ok T e).
Qed.

(* ---- the same for ANY reader that fails by itself (the buffered Level-B reader with a faulty inner stream, the
   ideal cursor at the end of a short file): the first error answer decides the result *)

Theorem run_err_spec {A} T (p : prog A) : propagating T p ->
  forall (R : reader) (s : rst R) o e, first_err R p s = Some (o, e) -> fault_result T e (fst (run R p s)).
Proof.
  intros Hp R. induction Hp as [r | o c Hio He Hk IH | n c Hc Hk IH]; intros s o' e H.
  - discriminate.
  - cbn [first_err run] in *. rewrite Hio in H. destruct (rstep R o s) as [a s'].
    destruct a as [b|l| |m|e']; try (now apply (IH _ s' o' e)).
    injection H as <- <-. destruct (He e') as (r & Hr & Hfr). rewrite Hr. exact Hfr.
  - cbn [first_err run is_io] in *. destruct (rstep R (OAlloc n) s) as [a s'].
    destruct a as [b|l| |m|e']; now apply (IH _ s' o' e).
Qed.

(* ================================================================================================ *)
(* 2. traces on the ideal cursor *)

Lemma run_trace_acc {A} (R : reader) posof (p : prog A) : forall s acc,
  run_trace R posof p s acc =
  let '(r, s', tr) := run_trace R posof p s [] in (r, s', rev acc ++ tr).
Proof.
  induction p as [r | o k IH]; intros s acc.
  - cbn. now rewrite app_nil_r.
  - cbn [run_trace]. destruct (rstep R o s) as [a s'].
    rewrite (IH a s' ((o, posof s) :: acc)), (IH a s' [(o, posof s)]).
    destruct (run_trace R posof (k a) s' []) as [[r s''] tr]. cbn [rev app]. now rewrite <- app_assoc.
Qed.


Lemma trace_of_ret {A} R posof (r : res A) s : trace_of R posof (Ret r) s = [].
Proof. reflexivity. Qed.
Lemma trace_of_do {A} R posof o (k : resp -> prog A) s :
  trace_of R posof (Do o k) s = (o, posof s) :: trace_of R posof (k (fst (rstep R o s))) (snd (rstep R o s)).
Proof.
  unfold trace_of. cbn [run_trace]. destruct (rstep R o s) as [a s']. rewrite run_trace_acc. cbn [fst snd].
  destruct (run_trace R posof (k a) s' []) as [[r s''] tr]. reflexivity.
Qed.
Lemma run_trace_run {A} R posof (p : prog A) : forall s, fst (run_trace R posof p s []) = run R p s.
Proof.
  induction p as [r | o k IH]; intros s; [reflexivity|].
  cbn [run_trace run]. destruct (rstep R o s) as [a s']. rewrite run_trace_acc.
  specialize (IH a s'). destruct (run_trace R posof (k a) s' []) as [[r s''] tr]. exact IH.
Qed.


Lemma length_iread inp : forall n pos, length (iread inp pos n) = n.
Proof. induction n as [|n IH]; intros pos; cbn [iread length]; [reflexivity | now rewrite IH]. Qed.

Lemma iread_ext i1 i2 : forall n pos,
  (forall j, pos <= j < pos + N.of_nat n -> iget i1 j = iget i2 j) -> iread i1 pos n = iread i2 pos n.
Proof.
  induction n as [|n IH]; intros pos H; [reflexivity|].
  cbn [iread]. f_equal; [apply H; lia | apply IH; intros j Hj; apply H; lia].
Qed.


Lemma cursor_step_agree i1 i2 lenient ms o pos :
  ilen i1 = ilen i2 ->
  (forall st n j, read_span i1 o pos = Some (st, n) -> st <= j < st + n -> iget i1 j = iget i2 j) ->
  cursor_step i1 lenient ms o pos = cursor_step i2 lenient ms o pos.
Proof.
  intros Hl H. destruct o as [ |n|n| | |n|n]; cbn [cursor_step read_span] in *; rewrite <- ?Hl; try reflexivity.
  - destruct ((n =? 0) || (pos + n <=? ilen i1)) eqn:E; [|reflexivity].
    f_equal. f_equal. apply iread_ext. intros j Hj. apply (H pos n j eq_refl). lia.
  - f_equal. f_equal. apply iread_ext. intros j Hj. apply (H pos _ j eq_refl). lia.
Qed.

(* NON-INTERFERENCE: inputs of equal length that agree on every interval read by the run on the first give the
   same run (result, final position, trace) *)
Theorem noninterference {A} (p : prog A) : forall i1 i2 lenient ms (pos : N),
  ilen i1 = ilen i2 ->
  agree_on i1 i2 (trace_of (cursor i1 lenient ms) (fun s => s) p pos) ->
  run (cursor i2 lenient ms) p pos = run (cursor i1 lenient ms) p pos.
Proof.
  induction p as [r | o k IH]; intros i1 i2 lenient ms pos Hl Hag; [reflexivity|].
  rewrite trace_of_do in Hag. cbn [run rstep cursor] in *.
  assert (E : cursor_step i1 lenient ms o pos = cursor_step i2 lenient ms o pos).
  { apply cursor_step_agree; [exact Hl|]. intros st n j Hs Hj. apply (Hag o pos st n j); [now left | exact Hs | exact Hj]. }
  rewrite <- E. destruct (cursor_step i1 lenient ms o pos) as [a pos'] eqn:Es.
  apply IH; [exact Hl|]. intros o' p' st n j Hin. apply Hag. right. exact Hin.
Qed.

(* ---- positions never decrease; an operation that succeeds moves past what it covers *)

Lemma cursor_step_covered inp lenient ms o pos :
  pos + covered inp lenient ms o pos <= snd (cursor_step inp lenient ms o pos).
Proof.
  destruct o as [ |n|n| | |n|n]; cbn [cursor_step covered snd]; try lia.
  - destruct ((n =? 0) || (pos + n <=? ilen inp)); cbn [snd]; lia.
  - destruct lenient.
    + destruct (pos + n <=? ms); cbn [snd]; [lia|].
      destruct ((I64MAX' <? n) && (U64MAX' <? pos + n)); cbn [snd]; lia.
    + destruct (pos + n <=? ilen inp); cbn [snd]; lia.
Qed.

Lemma cursor_rstep inp lenient ms o (s : rst (cursor inp lenient ms)) :
  rstep (cursor inp lenient ms) o s = cursor_step inp lenient ms o s.
Proof. reflexivity. Qed.

Lemma trace_positions_ge {A} (p : prog A) : forall inp lenient ms (pos : N) o q,
  In (o, q) (trace_of (cursor inp lenient ms) (fun s => s) p pos) -> pos <= q.
Proof.
  induction p as [r | o k IH]; intros inp lenient ms pos o' q Hin; [destruct Hin|].
  rewrite trace_of_do in Hin. destruct Hin as [[= <- <-] | Hin]; [lia|].
  apply IH in Hin. rewrite cursor_rstep in Hin.
  change (@snd resp (rst (cursor inp lenient ms))) with (@snd resp N) in Hin.
  pose proof (cursor_step_covered inp lenient ms o pos). lia.
Qed.

(* two different entries of a cursor trace: the earlier one's covered interval ends before the later one starts *)
Theorem trace_ordered {A} (p : prog A) : forall inp lenient ms (pos : N) t1 o1 q1 t2 o2 q2 t3,
  trace_of (cursor inp lenient ms) (fun s => s) p pos = t1 ++ (o1, q1) :: t2 ++ (o2, q2) :: t3 ->
  q1 + covered inp lenient ms o1 q1 <= q2.
Proof.
  induction p as [r | o k IH]; intros inp lenient ms pos t1 o1 q1 t2 o2 q2 t3 H.
  - rewrite trace_of_ret in H. destruct t1; discriminate.
  - rewrite trace_of_do in H. destruct t1 as [|x t1]; cbn [app] in H.
    + injection H as <- <- H.
      assert (Hin : In (o2, q2) (t2 ++ (o2, q2) :: t3)) by (apply in_or_app; right; now left).
      rewrite <- H in Hin.
      apply trace_positions_ge in Hin. rewrite ?cursor_rstep in Hin.
      change (rst (cursor inp lenient ms)) with N in *.
      pose proof (cursor_step_covered inp lenient ms o pos). lia.
    + injection H as _ H. now apply (IH _ _ _ _ _ _ _ _ _ _ _ _ H).
Qed.

(* two members of a list are the same entry or one comes before the other *)
Lemma in_two {X} (a b : X) (l : list X) : In a l -> In b l ->
  a = b \/ (exists t1 t2 t3, l = t1 ++ a :: t2 ++ b :: t3) \/ (exists t1 t2 t3, l = t1 ++ b :: t2 ++ a :: t3).
Proof.
  intros Ha Hb. destruct (in_split _ _ Ha) as (l1 & l2 & ->).
  apply in_app_or in Hb. destruct Hb as [Hb | [Hb | Hb]].
  - right. right. destruct (in_split _ _ Hb) as (t1 & t2 & ->). exists t1, t2, l2. now rewrite <- app_assoc.
  - now left.
  - right. left. destruct (in_split _ _ Hb) as (t2 & t3 & ->). now exists l1, t2, t3.
Qed.

(* bytes that a (successful) skip passes over never matter: two inputs of equal length that differ only inside
   intervals skipped by the run on the first give the same run *)
Theorem skipped_noninterference {A} (p : prog A) : forall i1 i2 lenient ms (pos : N),
  ilen i1 = ilen i2 ->
  (forall j, iget i1 j <> iget i2 j ->
     exists n q, In (OSkip n, q) (trace_of (cursor i1 lenient ms) (fun s => s) p pos) /\
                 q <= j < q + covered i1 lenient ms (OSkip n) q) ->
  run (cursor i2 lenient ms) p pos = run (cursor i1 lenient ms) p pos.
Proof.
  intros i1 i2 lenient ms pos Hl H. apply noninterference; [exact Hl|].
  intros o q st n j Hin Hspan Hj.
  destruct (Byte.byte_eq_dec (iget i1 j) (iget i2 j)) as [E|E]; [exact E | exfalso].
  destruct (H j E) as (n' & q' & Hin' & Hq').
  assert (Hcov : st = q /\ n = covered i1 lenient ms o q).
  { destruct o; cbn [read_span covered] in *; try discriminate.
    - destruct ((n0 =? 0) || (q + n0 <=? ilen i1)); [|discriminate]. now injection Hspan as <- <-.
    - now injection Hspan as <- <-. }
  destruct Hcov as (-> & ->).
  destruct (in_two _ _ _ Hin Hin') as [Heq | [(t1 & t2 & t3 & Ht) | (t1 & t2 & t3 & Ht)]].
  - injection Heq as -> ->. discriminate.
  - pose proof (trace_ordered p _ _ _ _ _ _ _ _ _ _ _ Ht). lia.
  - pose proof (trace_ordered p _ _ _ _ _ _ _ _ _ _ _ Ht). lia.
Qed.

(* ================================================================================================ *)
(* 3. programmes that obey a monitor *)
Section Monitor.
  (* V: what is assumed of the reader's answers (fun _ _ => True: nothing) *)
  Context {M : Type} (V : op -> resp -> Prop) (mstep : M -> op -> resp -> option M).
  Notation obeys := (obeys V mstep).
  Notation mon_final := (mon_final mstep).
  Notation all_steps := (all_steps mstep).
  Notation answers_valid := (answers_valid V).
  Notation step_invariant := (step_invariant mstep).

  Definition bindQ {A B} (Q : M -> res B -> Prop) (f : A -> prog B) : M -> res A -> Prop :=
    fun m r => match r with
               | Ok a => obeys Q m (f a)
               | EParse e => Q m (EParse e)
               | EIo e => Q m (EIo e)
               | Panic s => Q m (Panic s)
               | OutOfFuel => Q m OutOfFuel
               end.

  Lemma obeys_bind {A B} (Q : M -> res B -> Prop) (p : prog A) (f : A -> prog B) : forall m,
    obeys (bindQ Q f) m p -> obeys Q m (pbind p f).
  Proof.
    induction p as [r | o k IH]; intros m H.
    - destruct r; cbn [pbind bindQ obeys] in *; exact H.
    - cbn [pbind obeys] in *. intros a Ha. destruct (H a Ha) as (m' & Hm & Hob). exists m'. split; [exact Hm | now apply IH].
  Qed.

  Lemma obeys_weaken {A} (Q Q' : M -> res A -> Prop) (p : prog A) :
    (forall m r, Q m r -> Q' m r) -> forall m, obeys Q m p -> obeys Q' m p.
  Proof.
    intros HQ. induction p as [r | o k IH]; intros m H.
    - now apply HQ.
    - cbn [obeys] in *. intros a Ha. destruct (H a Ha) as (m' & Hm & Hob). exists m'. split; [exact Hm | now apply IH].
  Qed.

  Theorem obeys_final {A} (Q : M -> res A -> Prop) (p : prog A) : forall m, obeys Q m p ->
    forall (R : reader), answers_valid R ->
    forall (s : rst R), exists m', mon_final R p s m = Some m' /\ Q m' (fst (run R p s)).
  Proof.
    induction p as [r | o k IH]; intros m H R HV s.
    - exists m. split; [reflexivity | exact H].
    - cbn [mon_final run obeys] in *. pose proof (HV o s) as Hv. destruct (rstep R o s) as [a s'].
      destruct (H a Hv) as (m' & Hm & Ha). rewrite Hm. now apply IH.
  Qed.

  Theorem obeys_steps {A} (Q : M -> res A -> Prop) (p : prog A) : forall m, obeys Q m p ->
    forall (R : reader), answers_valid R ->
    forall (I : M -> rst R -> Prop) (P : M -> rst R -> op -> resp -> Prop), step_invariant R I P ->
      forall s, I m s -> all_steps R P p s m.
  Proof.
    induction p as [r | o k IH]; intros m H R HV I P Hpres s HI; [exact Logic.I|].
    cbn [all_steps obeys] in *. pose proof (HV o s) as Hv. destruct (rstep R o s) as [a s'] eqn:E.
    destruct (H a Hv) as (m' & Hm & Ha).
    pose proof (Hpres m s o m' HI) as Hp. rewrite E in Hp. cbn [fst snd] in Hp. destruct (Hp Hm) as (HP & HI').
    split; [exact HP|]. rewrite Hm. now apply (IH a m' Ha R HV I P).
  Qed.

  (* ... and the invariant holds of the final states, together with the postcondition *)
  Theorem obeys_final_inv {A} (Q : M -> res A -> Prop) (p : prog A) : forall m, obeys Q m p ->
    forall (R : reader), answers_valid R ->
    forall (I : M -> rst R -> Prop) (P : M -> rst R -> op -> resp -> Prop), step_invariant R I P ->
      forall s, I m s ->
      exists m', mon_final R p s m = Some m' /\ I m' (snd (run R p s)) /\ Q m' (fst (run R p s)).
  Proof.
    induction p as [r | o k IH]; intros m H R HV I P Hpres s HI.
    - exists m. cbn. auto.
    - cbn [mon_final run obeys] in *. pose proof (HV o s) as Hv. destruct (rstep R o s) as [a s'] eqn:E.
      destruct (H a Hv) as (m' & Hm & Ha).
      pose proof (Hpres m s o m' HI) as Hp. rewrite E in Hp. cbn [fst snd] in Hp. destruct (Hp Hm) as (HP & HI').
      rewrite Hm. now apply (IH a m' Ha R HV I P).
  Qed.

  Lemma all_steps_weaken {A} (R : reader) (P P' : M -> rst R -> op -> resp -> Prop) (p : prog A) :
    (forall m s o a, P m s o a -> P' m s o a) -> forall s m, all_steps R P p s m -> all_steps R P' p s m.
  Proof.
    intros HP. induction p as [r | o k IH]; intros s m H; [exact Logic.I|].
    cbn [all_steps] in *. destruct (rstep R o s) as [a s']. destruct H as (H1 & H2). split; [now apply HP|].
    destruct (mstep m o a); [now apply IH | exact H2].
  Qed.
End Monitor.

(* ---- non-vacuity *)
Example propagating_example :
  propagating (eq TruncatedBox) (b <~ do_fill_empty ;; if b then Ret (Ok 0) else l <~ do_read_exact 4 (Some TruncatedBox) ;; Ret (Ok (be2n l))).
Proof. propagating_walk. Qed.

Example run_fault_example :
  let p := (b <~ do_fill_empty ;; if b then Ret (Ok 0) else l <~ do_read_exact 4 (Some TruncatedBox) ;; Ret (Ok (be2n l))) in
  let R := cursor (input_of_bytes [x00; x00; x01; x02]) true U64MAX' in
  fst (run R p 0) = Ok 258 /\ fst (run_fault R p 0 1 EUnexpectedEof) = EParse TruncatedBox /\
  fst (run_fault R p 0 0 EUnexpectedEof) = EIo EUnexpectedEof /\ fst (run_fault R p 0 2 EOther) = Ok 258.
Proof. vm_compute. repeat split. Qed.
