(* Vocabulary of C11 (definitions only): the LENIENT refinement of the seek-style ideal cursor.  Unlike [refines]
   of AdaptersSpec.v (C15: operations that stay within the stream) it speaks about EVERY operation: a skip
   may leave the stream (it succeeds as long as the target does not exceed max_seek, and otherwise fails with the
   error kind SeekSkipAdapter produces, leaving the cursor where it was), reads beyond the end return nothing. *)
From Coq Require Import List NArith ZArith Bool.
From MS Require Import Base.Bytes Base.Outcome Base.Cursor Base.Adapters Base.AdaptersSpec Base.Prog Base.StackReader.
Import ListNotations.
Open Scope N_scope.

(* SeekSkipAdapter::skip on a target above max_seek: amount > i64::MAX and position + amount overflows u64 =>
   InvalidData ("seek past u64::MAX"); otherwise the seek itself is refused: InvalidInput *)
Definition skip_err (a p : N) : ioerr :=
  if (I64MAX <? a) && (U64MAXN <? p + a) then EInvalidData else EInvalidInput.

(* max_seek: 2^64-1 for in-memory cursors, at most 2^63-1 for files (the file system may set a lower limit) *)
Definition ms_ok (data_len ms : N) : Prop := data_len <= ms /\ ms <= U64MAXN.
(* in-memory data is shorter than 2^63 bytes; the cursor never went beyond max_seek *)
Definition lwf (ms : N) (c : cur) : Prop := clen c <= I64MAX /\ clen c <= ms /\ cpos c <= ms /\ ms <= U64MAXN.

Definition lrefines (ms : N) (R : Adapters.reader) (abs : Adapters.rst R -> cur) (Inv : Adapters.rst R -> Prop) : Prop :=
  (forall s, Inv s -> lwf ms (abs s)) /\
  (forall k s, Inv s -> exists l s',
     rread R k s = (Ok l, s') /\ l = slice (cdata (abs s)) (cpos (abs s)) (blen l) /\ blen l <= k /\
     (blen l = 0 <-> (k = 0 \/ clen (abs s) <= cpos (abs s))) /\
     abs s' = cmove (abs s) (cpos (abs s) + blen l) /\ Inv s') /\
  (forall a s, Inv s -> cpos (abs s) + a <= ms -> exists s',
     rskip R a s = (Ok tt, s') /\ abs s' = cmove (abs s) (cpos (abs s) + a) /\ Inv s') /\
  (forall a s, Inv s -> ms < cpos (abs s) + a -> exists s',
     rskip R a s = (EIo (skip_err a (cpos (abs s))), s') /\ abs s' = abs s /\ Inv s') /\
  (forall s, Inv s -> exists s', rpos R s = (Ok (cpos (abs s)), s') /\ abs s' = abs s /\ Inv s') /\
  (forall s, Inv s -> exists s', rlen R s = (Ok (clen (abs s)), s') /\ abs s' = abs s /\ Inv s').

(* the abstract input of Prog.v holds exactly these bytes *)
Definition inp_is (inp : input) (data : bytes) : Prop :=
  ilen inp = blen data /\
  forall p n, p + n <= blen data -> iread inp p (N.to_nat n) = slice data p n.

(* a view (the sanitizer's BufReader over a lenient stack R) stands at position pos of data *)
Definition view_rel (R : Adapters.reader) (abs : Adapters.rst R -> cur) (Inv : Adapters.rst R -> Prop) (data : bytes)
           (s : bst (Adapters.rst R)) (pos : N) : Prop :=
  buf_inv R abs Inv s /\ buf_abs R abs s = {| cdata := data; cpos := pos |}.
