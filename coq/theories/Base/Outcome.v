(* Outcomes shared by the models: Ok / parse error / io error / panic site / out of fuel. *)
From Coq Require Import NArith List.
From MS Require Import Base.Bytes.

Inductive ioerr := EOther | EPermissionDenied | ETimedOut | EWouldBlock
                 | EInvalidData | EUnexpectedEof | EInvalidInput | EInterrupted.

(* mp4san::parse::ParseError and webpsan::parse::ParseError kinds (payloads that matter kept) *)
Inductive perr :=
  | InvalidBoxLayout | InvalidInput | MissingRequiredBox (t : bytes) | TruncatedBox
  | UnsupportedBox (t : bytes) | UnsupportedBoxLayout | UnsupportedFormat (t : bytes)
  | InvalidChunkLayout | MissingRequiredChunk (t : bytes) | TruncatedChunk | UnsupportedChunk (t : bytes)
  | InvalidVp8lPrefixCode | UnsupportedVp8lVersion (v : N) | WInvalidInput.

Inductive res (A : Type) :=
  | Ok (a : A) | EParse (e : perr) | EIo (e : ioerr) | Panic (site : N) | OutOfFuel.
Arguments Ok {A} a.
Arguments EParse {A} e.
Arguments EIo {A} e.
Arguments Panic {A} site.
Arguments OutOfFuel {A}.

Definition rbind {A B} (r : res A) (f : A -> res B) : res B :=
  match r with
  | Ok a => f a | EParse e => EParse e | EIo e => EIo e | Panic s => Panic s | OutOfFuel => OutOfFuel
  end.
Definition rmap {A B} (f : A -> B) (r : res A) : res B := rbind r (fun a => Ok (f a)).
Definition is_ok {A} (r : res A) : bool := match r with Ok _ => true | _ => false end.
Definition is_panic {A} (r : res A) : bool := match r with Panic _ => true | _ => false end.

Notation "x <- e ;; k" := (rbind e (fun x => k)) (at level 61, e at next level, right associativity).
Notation "' p <- e ;; k" := (rbind e (fun p => k)) (at level 61, p pattern, e at next level, right associativity).

Definition ioerr_eqb (a b : ioerr) : bool :=
  match a, b with
  | EOther, EOther | EPermissionDenied, EPermissionDenied | ETimedOut, ETimedOut | EWouldBlock, EWouldBlock
  | EInvalidData, EInvalidData | EUnexpectedEof, EUnexpectedEof | EInvalidInput, EInvalidInput
  | EInterrupted, EInterrupted => true
  | _, _ => false
  end.
