(* C11, part 4: the MP4 sanitizer programme through the views; Cursor versus File (finding D11). *)
From Coq Require Import List NArith ZArith Bool Lia ZifyBool ZifyNat ZifyN.
From Coq.Strings Require Import Byte.
From MS Require Import Base.Bytes Base.Outcome Base.Cursor Base.Adapters Base.AdaptersSpec
     Base.Prog Base.StackReader Base.StackSpec Base.StackProofsTop Mp4.San Gen.Consts.
Import ListNotations.
Open Scope N_scope.

(* the sanitizer's own buffer has the capacity the source says (regenerated constant) *)
Lemma mp4_own_capacity : BOXHEADER_MAX_SIZE = 32.
Proof. reflexivity. Qed.

Lemma view_ok (e : bool) (st : stk) : stk_ok st -> stk_ok (if e then SAin st else st).
Proof. destruct e; auto. Qed.

(* sync or async entry point, any two stacks over the same bytes: the same result of the MP4 sanitizer *)
Lemma mp4_same_result (cfg : config) (fuel : nat) (ms : N) (st1 st2 : stk) (e1 e2 : bool) (data : bytes) :
  stk_ok st1 -> stk_ok st2 -> blen data <= I64MAX -> ms_ok (blen data) ms ->
  fst (Prog.run (mp4_view e1 ms st1) (sanitize_prog cfg fuel) (mp4_view_init e1 ms st1 data)) =
  fst (Prog.run (mp4_view e2 ms st2) (sanitize_prog cfg fuel) (mp4_view_init e2 ms st2 data)).
Proof.
  intros H1 H2 Hd Hms. unfold mp4_view, mp4_view_init.
  apply same_result; auto using view_ok; lia.
Qed.

(* ... and it is Mp4.San.mp4_sanitize over the lenient ideal cursor, the model the other MP4 properties are proved about *)
Lemma mp4_view_is_cursor (cfg : config) (fuel : nat) (ms : N) (st : stk) (e : bool) (data : bytes) (inp : input) :
  stk_ok st -> blen data <= I64MAX -> ms_ok (blen data) ms -> inp_is inp data ->
  fst (Prog.run (mp4_view e ms st) (sanitize_prog cfg fuel) (mp4_view_init e ms st data)) =
  mp4_sanitize cfg true ms inp fuel.
Proof.
  intros H1 Hd Hms Hinp. unfold mp4_view, mp4_view_init.
  unfold mp4_sanitize. apply view_refines_cursor; auto using view_ok; lia.
Qed.

(* finding D11: ftyp, moov, mdat with a 64-bit size of 2^63 + 100.  Through io::Cursor the skip succeeds and the
   end-of-input check reports TruncatedBox; through a File (max_seek <= 2^63-1) the seek is refused: Io(InvalidInput). *)
Definition d11_witness : bytes := [x00; x00; x00; x14; x66; x74; x79; x70; x69; x73; x6f; x6d; x00; x00; x00; x00; x69; x73; x6f; x6d; x00; x00; x00; x40; x6d; x6f; x6f; x76; x00; x00; x00; x38; x74; x72; x61; x6b; x00; x00; x00; x30; x6d; x64; x69; x61; x00; x00; x00; x28; x6d; x69; x6e; x66; x00; x00; x00; x20; x73; x74; x62; x6c; x00; x00; x00; x18; x73; x74; x63; x6f; x00; x00; x00; x00; x00; x00; x00; x02; x00; x00; x00; x14; x00; x00; x00; x1e; x00; x00; x00; x01; x6d; x64; x61; x74; x80; x00; x00; x00; x00; x00; x00; x64; x61; x62; x63].
Definition default_config : config := {| max_metadata_size := 1073741824; cumulative_mdat_box_size := None |}.

Lemma cursor_vs_file_refuted :
  exists (data : bytes) (cfg : config) (fuel : nat) (st : stk),
    stk_ok st /\ blen data <= I64MAX /\ ms_ok (blen data) U64MAXN /\ ms_ok (blen data) I64MAX /\
    fst (Prog.run (mp4_view true U64MAXN st) (sanitize_prog cfg fuel) (mp4_view_init true U64MAXN st data)) = EParse TruncatedBox /\
    fst (Prog.run (mp4_view true I64MAX st) (sanitize_prog cfg fuel) (mp4_view_init true I64MAX st data)) = EIo EInvalidInput.
Proof.
  exists d11_witness, default_config, 20%nat, (SCursor []).
  split; [exact I|]. split; [vm_compute; discriminate|]. split; [split; vm_compute; discriminate|].
  split; [split; vm_compute; discriminate|]. split; vm_compute; reflexivity.
Qed.

(* the theorems are not vacuous: a valid file through two different views *)
Example mp4_views_example :
  let data := firstn 84 d11_witness ++ [x00; x00; x00; x0b; x6d; x64; x61; x74; x61; x62; x63] in
  fst (Prog.run (mp4_view true U64MAXN (SBuf 3 (SFwd (SCursor [2; 1; 5])))) (sanitize_prog default_config 20)
         (mp4_view_init true U64MAXN (SBuf 3 (SFwd (SCursor [2; 1; 5]))) data))
  = Ok {| o_metadata := None; o_data := {| s_off := 84; s_len := 11 |} |}.
Proof. vm_compute. reflexivity. Qed.
