(* C13 at the poll level (C12 + C13): mp4san::sanitize_async over an AsyncSkip-native reader that may answer Pending at every poll
   and whose underlying reader R is ARBITRARY - it may fail by itself at any operation with any error kind.  Under EVERY Pending
   schedule the run completes and the first error answer the sanitizer's buffered reader meets decides the result exactly as in the
   synchronous run: Io e, or TruncatedBox when e = UnexpectedEof at a map_eof site.
     run_san_sched (any schedule) = run_san_sync            (AsyncSanProofs.mp4_sanitizer_native_sched_indep)
                                  = Prog.run over sstep     (AsyncSanLink.run_san_sync_is_run)
     and for Prog.run over ANY reader: SanProgProofs.reader_error_propagates_mp4. *)
From Coq Require Import List NArith ZArith Bool Lia.
From MS Require Import Base.Bytes Base.Outcome Base.Cursor Base.Adapters Base.Async Base.AsyncSpec Base.AsyncProofs
  Base.AsyncSan Base.AsyncSanProofs Base.AsyncSanLink Base.ProgSpec Mp4.San Mp4.SanProgProofs Gen.Consts.
From MS Require Base.Prog.
Import ListNotations.
Open Scope N_scope.

(* the synchronous view of the sanitizer's BufReader(32) over the reader, as a Prog.reader *)
Definition san_reader (R : reader) : Prog.reader :=
  {| Prog.rst := bst (rst (ard (pending_reader R))); Prog.rstep := sstep BOXHEADER_MAX_SIZE (pending_reader R) |}.

Theorem async_reader_error_propagates_mp4 (cfg : config) (fuel : nat) (R : reader)
  (s : bst (rst (ard (pending_reader R)))) (sc : sch) (o : Prog.op) (e : ioerr) :
  first_err (san_reader R) (sanitize_prog cfg fuel) s = Some (o, e) ->
  exists r s' sc',
    run_san_sched BOXHEADER_MAX_SIZE (pending_reader R) (sanitize_prog cfg fuel) s sc = Some (r, s', sc') /\
    (r = EIo e \/ (e = EUnexpectedEof /\ r = EParse TruncatedBox)).
Proof.
  intros H.
  destruct (mp4_sanitizer_native_sched_indep cfg fuel R s sc) as [sc' E].
  exists (fst (run_san_sync BOXHEADER_MAX_SIZE (pending_reader R) (sanitize_prog cfg fuel) s)),
         (snd (run_san_sync BOXHEADER_MAX_SIZE (pending_reader R) (sanitize_prog cfg fuel) s)), sc'.
  split; [exact E|].
  rewrite run_san_sync_is_run.
  exact (reader_error_propagates_mp4 cfg fuel (san_reader R) s o e H).
Qed.

(* ... and when the reader never answers an error the asynchronous result is the synchronous one (no error is invented by a
   schedule): the complement, stated for completeness *)
Theorem async_no_error_same_result (cfg : config) (fuel : nat) (R : reader)
  (s : bst (rst (ard (pending_reader R)))) (sc : sch) :
  exists s' sc',
    run_san_sched BOXHEADER_MAX_SIZE (pending_reader R) (sanitize_prog cfg fuel) s sc =
    Some (fst (Prog.run (san_reader R) (sanitize_prog cfg fuel) s), s', sc').
Proof.
  destruct (mp4_sanitizer_native_sched_indep cfg fuel R s sc) as [sc' E].
  exists (snd (run_san_sync BOXHEADER_MAX_SIZE (pending_reader R) (sanitize_prog cfg fuel) s)), sc'.
  rewrite E. rewrite run_san_sync_is_run. reflexivity.
Qed.
