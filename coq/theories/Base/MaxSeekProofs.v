(* The largest seek target of a seek-style reader (2^64-1 for io::Cursor, 2^63-1 or less for files: finding D11) matters in ONE
   way only.  For every programme that answers an I/O error by returning it (propagating), over the same bytes and from the same
   position, the run under the smaller limit ms1 and the run under the larger limit ms2 return the same result - or the run under
   the smaller limit returns Io(InvalidInput) / Io(InvalidData), the answer of a skip whose target lies beyond ms1. *)
From Coq Require Import List NArith Bool Lia.
From Coq.Strings Require Import Byte.
From MS Require Import Base.Bytes Base.Outcome Base.Prog Base.ProgSpec.
Import ListNotations.
Open Scope N_scope.

Theorem cursor_max_seek_mono {A} (T : perr -> Prop) (p : prog A) : propagating T p ->
  forall (inp : input) (ms1 ms2 pos : N), ms1 <= ms2 ->
  fst (run (cursor inp true ms1) p pos) = fst (run (cursor inp true ms2) p pos) \/
  exists e, (e = EInvalidInput \/ e = EInvalidData) /\ fst (run (cursor inp true ms1) p pos) = EIo e.
Proof.
  intros Hp inp ms1 ms2. induction Hp as [r | o k Hio He Hk IH | n k Hc Hk IH]; intros pos Hle.
  - left. reflexivity.
  - cbn [run cursor rstep rst].
    destruct o as [| n | n | | | n | n]; cbn [cursor_step];
      try (match goal with |- context [let '(a, s') := (?x, ?y) in _] => idtac end);
      try solve [apply IH; exact Hle].
    + (* OReadExact *)
      destruct ((n =? 0) || (pos + n <=? ilen inp)); apply IH; exact Hle.
    + (* OSkip *)
      destruct (N.leb_spec (pos + n) ms1) as [H1|H1].
      * destruct (N.leb_spec (pos + n) ms2) as [H2|H2]; [apply IH; exact Hle | lia].
      * destruct (N.leb_spec (pos + n) ms2) as [H2|H2].
        -- right. destruct ((I64MAX' <? n) && (U64MAX' <? pos + n)).
           ++ destruct (He EInvalidData) as (r & Hr & [-> | (Habs & _)]); [|discriminate].
              exists EInvalidData. split; [right; reflexivity|]. rewrite Hr. reflexivity.
           ++ destruct (He EInvalidInput) as (r & Hr & [-> | (Habs & _)]); [|discriminate].
              exists EInvalidInput. split; [left; reflexivity|]. rewrite Hr. reflexivity.
        -- destruct ((I64MAX' <? n) && (U64MAX' <? pos + n)); apply IH; exact Hle.
  - cbn [run cursor rstep rst cursor_step]. apply IH. exact Hle.
Qed.
