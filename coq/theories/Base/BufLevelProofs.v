(* The Level-B reader (Base/BufLevel.v: futures BufReader of capacity cap with mediasan's AsyncSkip impl, over the ideal
   inner stream, no fault) REFINES the ideal cursor of Base/Prog.v: every operation gives the same answer and keeps the
   relation "the buffer holds the next bytes of the input, the inner stream stands at their end".  By the generic
   simulation lemma the two readers then give the same result for EVERY programme - in particular the MP4 sanitizer:
   the run whose inner-operation trace C10 and C13 compare with the implementation is the run the theorems about the
   abstract programme speak of.
   Hypothesis: ilen <= i64::MAX (in-memory inputs; then the error kind of a refused seek-style skip does not depend on
   how many bytes the buffer still held, see the comment at [skip_kind]). *)
From Coq Require Import List NArith PeanoNat Bool Lia ZifyBool ZifyNat ZifyN.
From Coq.Strings Require Import Byte.
From MS Require Import Base.Bytes Base.Outcome Base.Prog Base.BufLevel Base.StackProofs.
Import ListNotations.
Open Scope N_scope.
Arguments N.add : simpl never.
Arguments N.sub : simpl never.
Arguments N.min : simpl never.
Arguments N.max : simpl never.
Arguments N.eqb : simpl never.
Arguments N.leb : simpl never.
Arguments N.ltb : simpl never.

Section R.
Variables (inp : input) (lenient : bool) (ms cap : N).
Hypothesis Hcap : 1 <= cap.
Hypothesis Hlen : ilen inp <= I64MAX'.

Lemma iread_len : forall n pos, length (iread inp pos n) = n.
Proof. induction n as [|n IH]; intros pos; cbn [iread length]; [reflexivity | now rewrite IH]. Qed.
Lemma iread_app p : forall a b, iread inp p (a + b) = iread inp p a ++ iread inp (p + N.of_nat a) b.
Proof.
  intros a. revert p. induction a as [|a IH]; intros p b.
  - cbn [Nat.add iread app]. f_equal. lia.
  - cbn [Nat.add iread app]. f_equal. rewrite IH. do 2 f_equal. lia.
Qed.
Lemma firstn_app_len {A} (a b : list A) k : length a = k -> firstn k (a ++ b) = a.
Proof. intros <-. rewrite firstn_app, Nat.sub_diag, firstn_all. cbn [firstn]. apply app_nil_r. Qed.
Lemma skipn_app_len {A} (a b : list A) k : length a = k -> skipn k (a ++ b) = b.
Proof. intros <-. rewrite skipn_app, Nat.sub_diag, skipn_all. reflexivity. Qed.
Lemma iread_firstn p n k : (k <= n)%nat -> firstn k (iread inp p n) = iread inp p k.
Proof. intros H. replace n with (k + (n - k))%nat by lia. rewrite iread_app. apply firstn_app_len. apply iread_len. Qed.
Lemma iread_skipn p n k : (k <= n)%nat -> skipn k (iread inp p n) = iread inp (p + N.of_nat k) (n - k).
Proof. intros H. replace n with (k + (n - k))%nat at 1 by lia. rewrite iread_app. apply skipn_app_len. apply iread_len. Qed.
Lemma iread_nil p n : iread inp p n = [] <-> n = 0%nat.
Proof. destruct n; cbn [iread]; split; try reflexivity; try discriminate; lia. Qed.

(* the relation: p = logical position *)
Definition rel (s : lb) (p : N) : Prop :=
  lb_fault s = None /\ lb_buf s = iread inp p (length (lb_buf s)) /\ lb_pos s = p + blen (lb_buf s)
  /\ (lb_buf s <> [] -> p + blen (lb_buf s) <= ilen inp).

Notation LB := (level_b inp lenient ms cap).
Notation CU := (cursor inp lenient ms).

Lemma inner_nofault o s : lb_fault s = None ->
  inner inp lenient ms o s =
  (fst (inner_ideal inp lenient ms o (lb_pos s)),
   {| lb_buf := lb_buf s; lb_pos := snd (inner_ideal inp lenient ms o (lb_pos s)); lb_cnt := lb_cnt s + 1; lb_fault := None;
      lb_trace := {| ie_op := o; ie_off := lb_pos s; ie_ret := ans_ret (fst (inner_ideal inp lenient ms o (lb_pos s)));
                     ie_err := ans_err (fst (inner_ideal inp lenient ms o (lb_pos s))) |} :: lb_trace s |}).
Proof. intros H. unfold inner. rewrite H. destruct (inner_ideal inp lenient ms o (lb_pos s)) as [a p]. reflexivity. Qed.

(* state after consuming everything up to position q with an empty buffer *)
Definition emptied (s : lb) (q : N) : Prop := lb_fault s = None /\ lb_buf s = [] /\ lb_pos s = q.
Lemma emptied_rel s q : emptied s q -> rel s q.
Proof. intros (A & B & C). unfold rel, blen. rewrite A, B, C. cbn. repeat split; try lia. intros H; contradiction. Qed.

(* one inner read of n > 0 bytes from an emptied state *)
Lemma inner_read s q n : emptied s q ->
  exists s', inner inp lenient ms (IRead n) s = (ABytes (iread inp q (N.to_nat (N.min n (ilen inp - q)))), s')
             /\ emptied s' (q + N.min n (ilen inp - q)).
Proof.
  intros (A & B & C). rewrite inner_nofault by exact A. cbn [inner_ideal fst snd]. rewrite C. eexists. split; [reflexivity|].
  unfold emptied. cbn [lb_fault lb_buf lb_pos]. auto.
Qed.

(* ------------------------------------------------------------------ the read loop *)
Lemma loop_unfold exact fuel k acc s :
  lb_read_loop inp lenient ms cap exact (S fuel) k acc s =
  if k =? 0 then (RBytes acc, s) else
  match lb_read inp lenient ms cap k s with
  | (inl l, s') => if blen l =? 0 then (if exact then (RErr EUnexpectedEof, s') else (RBytes acc, s'))
                   else lb_read_loop inp lenient ms cap exact fuel (k - blen l) (acc ++ l) s'
  | (inr e, s') => (RErr e, s')
  end.
Proof. reflexivity. Qed.
Lemma blen_iread p n : blen (iread inp p n) = N.of_nat n.
Proof. unfold blen. now rewrite iread_len. Qed.
Lemma lb_buf_set s b : lb_buf (set_buf s b) = b.
Proof. reflexivity. Qed.
Lemma loop_zero exact fuel acc s : lb_read_loop inp lenient ms cap exact fuel 0 acc s = (RBytes acc, s).
Proof. destruct fuel; reflexivity. Qed.

(* from an emptied state at the end of the input: one round, nothing read *)
Lemma loop_at_eof exact fuel k acc s q : emptied s q -> ilen inp <= q -> 0 < k ->
  exists s', lb_read_loop inp lenient ms cap exact (S fuel) k acc s =
             ((if exact then RErr EUnexpectedEof else RBytes acc), s') /\ emptied s' q.
Proof.
  intros He Hq Hk. pose proof He as (A & B & C). rewrite loop_unfold. replace (k =? 0) with false by lia.
  unfold lb_read. rewrite B. destruct (cap <=? k) eqn:Ec.
  - destruct (inner_read s q k He) as (s' & E & He'). rewrite E.
    replace (N.min k (ilen inp - q)) with 0 in * by lia. cbn [N.to_nat iread blen length N.of_nat]. replace (0 =? 0) with true by lia.
    exists s'. split; [destruct exact; reflexivity|]. now rewrite N.add_0_r in He'.
  - unfold lb_fill. rewrite B. destruct (inner_read s q cap He) as (s' & E & He'). rewrite E.
    replace (N.min cap (ilen inp - q)) with 0 in * by lia. cbn [N.to_nat iread]. rewrite N.add_0_r in He'.
    cbn [lb_buf set_buf blen length N.of_nat N.to_nat firstn]. replace (N.min k 0) with 0 by lia.
    cbn [N.to_nat firstn skipn blen length N.of_nat]. replace (0 =? 0) with true by lia.
    eexists. split; [destruct exact; reflexivity|]. destruct He' as (A' & B' & C'). unfold emptied, set_buf. cbn [lb_fault lb_buf lb_pos]. auto.
Qed.

(* from an emptied state inside the input: at most two rounds *)
Lemma loop_emptied exact fuel k acc s q : emptied s q -> 0 < k ->
  let m := N.min k (ilen inp - q) in
  exists s', lb_read_loop inp lenient ms cap exact (S (S fuel)) k acc s =
             ((if exact && (m <? k) then RErr EUnexpectedEof else RBytes (acc ++ iread inp q (N.to_nat m))), s')
             /\ rel s' (q + m).
Proof.
  intros He Hk m. destruct (N.leb_spec (ilen inp) q) as [Heof | Hin].
  - destruct (loop_at_eof exact (S fuel) k acc s q He Heof Hk) as (s' & E & He'). exists s'.
    assert (Hm : m = 0) by (unfold m; lia). rewrite Hm, N.add_0_r. cbn [N.to_nat iread]. rewrite app_nil_r.
    replace (0 <? k) with true by lia. rewrite andb_true_r. split; [exact E | now apply emptied_rel].
  - pose proof He as (A & B & C). rewrite loop_unfold. replace (k =? 0) with false by lia.
    unfold lb_read at 1. rewrite B. destruct (cap <=? k) eqn:Ec.
    + (* bypass: one inner read of k bytes *)
      destruct (inner_read s q k He) as (s1 & E & He1). rewrite E. fold m in He1 |- *.
      rewrite !blen_iread, !N2Nat.id.
      rewrite (proj2 (N.eqb_neq m 0)) by (unfold m; lia).
      destruct (N.eq_dec m k) as [Em | Em].
      * rewrite Em, N.sub_diag, loop_zero.
        exists s1. replace (k <? k) with false by lia. rewrite andb_false_r. split; [reflexivity | rewrite <- Em; now apply emptied_rel].
      * assert (Heof : ilen inp <= q + m) by (unfold m in *; lia).
        destruct (loop_at_eof exact fuel (k - m) (acc ++ iread inp q (N.to_nat m)) s1 (q + m) He1 Heof ltac:(unfold m in *; lia))
          as (s2 & E2 & He2).
        rewrite E2. exists s2. replace (m <? k) with true by (unfold m in *; lia). rewrite andb_true_r.
        split; [reflexivity | now apply emptied_rel].
    + (* fill the buffer, then serve from it *)
      unfold lb_fill. rewrite B. destruct (inner_read s q cap He) as (s1 & E & He1). rewrite E.
      set (g := N.min cap (ilen inp - q)) in *. destruct He1 as (A1 & B1 & C1).
      rewrite !lb_buf_set, !blen_iread, !N2Nat.id.
      set (t := N.min k g).
      assert (Ht : t = m) by (unfold t, g, m; lia).
      rewrite iread_firstn by lia. rewrite iread_skipn by lia.
      rewrite !blen_iread, !N2Nat.id.
      rewrite (proj2 (N.eqb_neq t 0)) by (unfold t, g; lia).
      destruct (N.eq_dec t k) as [Et | Et].
      * rewrite Et, N.sub_diag, loop_zero.
        eexists. rewrite <- Ht, Et. replace (k <? k) with false by lia. rewrite andb_false_r. split; [reflexivity|].
        unfold rel, set_buf. cbn [lb_fault lb_buf lb_pos]. rewrite blen_iread, iread_len.
        split; [exact A1|]. split; [f_equal; lia|]. split; [unfold t, g in *; lia|]. intros _. unfold t, g in *. lia.
      * (* the buffer held fewer than k bytes: it is empty now and the input is exhausted *)
        assert (Hg : g < k) by (unfold t in *; lia). assert (Htg : t = g) by (unfold t; lia).
        assert (Heof : ilen inp <= q + g) by (unfold g in *; lia).
        rewrite Htg. replace (N.to_nat g - N.to_nat g)%nat with 0%nat by lia. cbn [iread].
        set (s2 := {| lb_buf := []; lb_pos := lb_pos s1; lb_cnt := lb_cnt s1; lb_fault := lb_fault s1; lb_trace := lb_trace s1 |}).
        assert (He2 : emptied s2 (q + g)) by (unfold emptied, s2; cbn [lb_fault lb_buf lb_pos]; auto).
        destruct (loop_at_eof exact fuel (k - g) (acc ++ iread inp q (N.to_nat g)) s2 (q + g) He2 Heof ltac:(lia)) as (s3 & E3 & He3).
        change (set_buf (set_buf s1 (iread inp q (N.to_nat g))) []) with s2. rewrite E3. exists s3. rewrite <- Ht, Htg.
        replace (g <? k) with true by lia. rewrite andb_true_r. split; [reflexivity | now apply emptied_rel].
Qed.

(* from any related state *)
Lemma loop_rel exact fuel k acc s p : rel s p ->
  let m := N.min k (ilen inp - p) in
  exists s', lb_read_loop inp lenient ms cap exact (S (S (S fuel))) k acc s =
             ((if exact && (m <? k) then RErr EUnexpectedEof else RBytes (acc ++ iread inp p (N.to_nat m))), s')
             /\ rel s' (p + m).
Proof.
  intros (A & B & C & D) m. destruct (N.eq_dec k 0) as [-> | Hk].
  - rewrite loop_zero. exists s. assert (m = 0) by (unfold m; lia). subst m. rewrite H.
    cbn [N.to_nat iread]. rewrite app_nil_r, N.add_0_r. replace (0 <? 0) with false by lia. rewrite andb_false_r.
    split; [reflexivity | repeat split; auto].
  - destruct (lb_buf s) as [|b0 br] eqn:Eb.
    + assert (He : emptied s p) by (unfold emptied; rewrite Eb; unfold blen in C; cbn in C; repeat split; auto; lia).
      apply (loop_emptied exact (S fuel) k acc s p He). lia.
    + (* serve from the buffer first *)
      set (bl := blen (b0 :: br)) in *. assert (Hbl : 0 < bl) by (unfold bl, blen; cbn [length]; lia).
      specialize (D ltac:(discriminate)).
      rewrite loop_unfold. replace (k =? 0) with false by lia. unfold lb_read. rewrite Eb. fold bl.
      set (t := N.min k bl).
      assert (Eb' : b0 :: br = iread inp p (N.to_nat bl)) by (rewrite B at 1; f_equal; unfold bl, blen; lia).
      rewrite Eb'. rewrite iread_firstn by lia. rewrite iread_skipn by lia.
      rewrite !blen_iread, !N2Nat.id.
      rewrite (proj2 (N.eqb_neq t 0)) by (unfold t; lia).
      destruct (N.leb_spec k bl) as [Hle | Hgt].
      * (* all of it from the buffer *)
        assert (Et : t = k) by (unfold t; lia). rewrite Et, N.sub_diag, loop_zero.
        assert (Em : m = k) by (unfold m; lia). rewrite Em. replace (k <? k) with false by lia. rewrite andb_false_r.
        eexists. split; [reflexivity|]. unfold rel, set_buf. cbn [lb_fault lb_buf lb_pos]. rewrite blen_iread, iread_len.
        split; [exact A|]. split; [f_equal; lia|]. split; [lia|]. intros _. lia.
      * (* the buffer is used up, the rest comes from the inner stream *)
        assert (Et : t = bl) by (unfold t; lia). rewrite Et. replace (N.to_nat bl - N.to_nat bl)%nat with 0%nat by lia. cbn [iread].
        set (s1 := set_buf s []).
        assert (He1 : emptied s1 (p + bl)) by (unfold emptied, s1, set_buf; cbn [lb_fault lb_buf lb_pos]; repeat split; auto).
        destruct (loop_emptied exact fuel (k - bl) (acc ++ iread inp p (N.to_nat bl)) s1 (p + bl) He1 ltac:(lia)) as (s2 & E2 & R2).
        cbv zeta in E2. rewrite E2. exists s2.
        assert (Em : m = bl + N.min (k - bl) (ilen inp - (p + bl))) by (unfold m; lia).
        split.
        -- f_equal. replace (N.min (k - bl) (ilen inp - (p + bl)) <? k - bl) with (m <? k) by (rewrite Em; lia).
           destruct (exact && (m <? k)); [reflexivity|]. rewrite <- app_assoc. do 2 f_equal.
           rewrite Em. rewrite N2Nat.inj_add, iread_app. do 2 f_equal. lia.
        -- rewrite Em. replace (p + (bl + N.min (k - bl) (ilen inp - (p + bl)))) with (p + bl + N.min (k - bl) (ilen inp - (p + bl))) by lia.
           exact R2.
Qed.

(* ------------------------------------------------------------------ every operation *)
Hypothesis Hms : ilen inp <= ms.

(* positions stay below the seek bound, and inside the input on a strict stream *)
Definition rel2 (s : lb) (p : N) : Prop := rel s p /\ p <= ms /\ (lenient = false -> p <= ilen inp).

Notation LBr := (level_b inp lenient ms cap).
Notation CUr := (cursor inp lenient ms).

Lemma rel_set_cnt s p c tr : rel s p ->
  rel {| lb_buf := lb_buf s; lb_pos := lb_pos s; lb_cnt := c; lb_fault := lb_fault s; lb_trace := tr |} p.
Proof. intros H. exact H. Qed.

(* the error kind of a refused seek-style skip: the buffered reader forwards amount - buffered to the inner stream, whose
   answer InvalidData / InvalidInput depends on whether the amount exceeds i64::MAX.  With bytes still buffered the target
   lies below ilen + i64::MAX < 2^64, so both readers answer InvalidInput; with an empty buffer the amounts are equal *)
Lemma skip_kind bl n p : bl <= n -> (0 < bl -> p + bl <= ilen inp) ->
  (I64MAX' <? n - bl) && (U64MAX' <? p + bl + (n - bl)) = (I64MAX' <? n) && (U64MAX' <? p + n).
Proof.
  intros Hle Hb. replace (p + bl + (n - bl)) with (p + n) by lia.
  destruct (N.eq_dec bl 0) as [-> | Hnz]; [now rewrite N.sub_0_r|].
  specialize (Hb ltac:(lia)). unfold I64MAX', U64MAX' in *.
  destruct (9223372036854775807 <? n - bl) eqn:E1, (9223372036854775807 <? n) eqn:E2; try reflexivity; try lia.
Qed.

Lemma step_sim o s p : rel2 s p ->
  fst (rstep LBr o s) = fst (rstep CUr o p) /\ rel2 (snd (rstep LBr o s)) (snd (rstep CUr o p)).
Proof.
  intros (Hr & Hpm & Hst). pose proof Hr as (A & B & C & D). cbn [rstep level_b cursor].
  destruct o as [| n | n | | | n | n]; cbn [lb_step].
  - (* fill_buf().is_empty() *)
    cbn [cursor_step]. unfold lb_fill. destruct (lb_buf s) as [|b0 br] eqn:Eb.
    + assert (He : emptied s p) by (unfold emptied; rewrite Eb; unfold blen in C; cbn in C; repeat split; auto; lia).
      destruct (inner_read s p cap He) as (s1 & E & (A1 & B1 & C1)). rewrite E. cbn [fst snd]. rewrite lb_buf_set.
      set (g := N.min cap (ilen inp - p)) in *.
      split.
      * f_equal. destruct (iread inp p (N.to_nat g)) eqn:Ei.
        -- apply iread_nil in Ei. lia.
        -- assert (N.to_nat g <> 0%nat) by (intros Z; rewrite Z in Ei; discriminate). lia.
      * split; [|auto]. unfold rel, set_buf. cbn [lb_fault lb_buf lb_pos]. rewrite blen_iread, iread_len, N2Nat.id.
        split; [exact A1|]. split; [reflexivity|]. split; [lia|]. intros Hne.
        assert (g <> 0) by (intros Z; apply Hne; rewrite Z; reflexivity). unfold g in *. lia.
    + cbn [fst snd]. specialize (D ltac:(discriminate)). unfold blen in D. cbn [length] in D.
      split; [f_equal; rewrite Eb; symmetry; apply N.leb_gt; lia|].
      split; [|auto]. rewrite <- Eb in *. exact Hr.
  - (* read_exact n *)
    cbn [cursor_step]. destruct (loop_rel true 5 n [] s p Hr) as (s' & E & R'). cbv zeta in E. rewrite E. cbn [fst snd app].
    set (m := N.min n (ilen inp - p)) in *.
    destruct ((n =? 0) || (p + n <=? ilen inp)) eqn:Ec.
    + assert (Em : m = n) by (unfold m; lia). rewrite Em in *. replace (n <? n) with false by lia. cbn [andb fst snd].
      split; [reflexivity|]. split; [exact R'|]. split; [lia|]. intros Hs. specialize (Hst Hs). lia.
    + assert (Hm : m < n) by (unfold m; lia). replace (m <? n) with true by lia. cbn [andb fst snd]. split; [reflexivity|].
      replace (N.max p (ilen inp)) with (p + m) by (unfold m; lia). split; [exact R'|]. split; [unfold m; lia|].
      intros Hs. specialize (Hst Hs). unfold m. lia.
  - (* skip n *)
    unfold lb_skip. set (bl := blen (lb_buf s)) in *.
    assert (Hb : 0 < bl -> p + bl <= ilen inp).
    { intros Hpos. apply D. intros Z. unfold bl, blen in Hpos. rewrite Z in Hpos. cbn in Hpos. lia. }
    destruct (N.leb_spec bl n) as [Hle | Hgt].
    + destruct (N.eqb_spec (n - bl) 0) as [Ez | Enz].
      * (* exactly the buffered bytes *)
        assert (n = bl) by lia. subst n. cbn [fst snd].
        assert (Hin : p + bl <= ms /\ (lenient = false -> p + bl <= ilen inp)).
        { destruct (N.eq_dec bl 0) as [Z | NZ]; [rewrite Z, N.add_0_r; auto|]. specialize (Hb ltac:(lia)). split; [lia | auto]. }
        destruct Hin as [Hin1 Hin2].
        assert (Ec : cursor_step inp lenient ms (OSkip bl) p = (RUnit, p + bl)).
        { unfold cursor_step. destruct lenient; [replace (p + bl <=? ms) with true by lia | replace (p + bl <=? ilen inp) with true by (specialize (Hin2 eq_refl); lia)]; reflexivity. }
        rewrite Ec. cbn [fst snd]. split; [reflexivity|]. split; [|auto].
        apply emptied_rel. unfold emptied, set_buf. cbn [lb_fault lb_buf lb_pos]. auto.
      * (* the inner stream skips the rest *)
        rewrite inner_nofault by exact A. cbn [inner_ideal fst snd]. rewrite C. fold bl.
        unfold cursor_step.
        destruct lenient eqn:El.
        -- replace (p + bl + (n - bl)) with (p + n) by lia.
           destruct (p + n <=? ms) eqn:Eok.
           ++ cbn. split; [reflexivity|]. split; [|split; [lia | intros X; congruence]].
              apply emptied_rel. unfold emptied, set_buf. cbn [lb_fault lb_buf lb_pos]. repeat split; auto.
           ++ pose proof (skip_kind bl n p Hle Hb) as K. replace (p + bl + (n - bl)) with (p + n) in K by lia. rewrite K.
              destruct ((I64MAX' <? n) && (U64MAX' <? p + n)); cbn; (split; [reflexivity|]);
                (split; [|split; [exact Hpm | intros X; congruence]]);
                unfold rel; cbn [lb_fault lb_buf lb_pos]; repeat split; auto.
        -- replace (p + bl + (n - bl)) with (p + n) by lia.
           destruct (p + n <=? ilen inp) eqn:Eok.
           ++ cbn. split; [reflexivity|]. split; [|split; [lia | intros _; lia]].
              apply emptied_rel. unfold emptied, set_buf. cbn [lb_fault lb_buf lb_pos]. repeat split; auto.
           ++ cbn. split; [reflexivity|]. split; [|split; [exact Hpm | intros _; apply Hst; reflexivity]].
              unfold rel; cbn [lb_fault lb_buf lb_pos]; repeat split; auto.
    + (* inside the buffer *)
      specialize (Hb ltac:(lia)).
      assert (Ec : cursor_step inp lenient ms (OSkip n) p = (RUnit, p + n)).
      { unfold cursor_step. destruct lenient; [replace (p + n <=? ms) with true by lia | replace (p + n <=? ilen inp) with true by lia]; reflexivity. }
      rewrite Ec. cbn [fst snd]. split; [reflexivity|]. split; [|split; [lia | intros _; lia]].
      unfold rel, set_buf. cbn [lb_fault lb_buf lb_pos].
      assert (Eb' : lb_buf s = iread inp p (N.to_nat bl)) by (rewrite B at 1; f_equal; unfold bl, blen; lia).
      rewrite Eb'. rewrite iread_skipn by lia. rewrite blen_iread, iread_len.
      split; [exact A|]. split; [f_equal; lia|]. split; [unfold bl, blen in *; lia|]. intros _. lia.
  - (* stream_position *)
    cbn [cursor_step]. rewrite inner_nofault by exact A. cbn [inner_ideal fst snd lb_buf]. rewrite C. split; [f_equal; lia|]. split; [|auto].
    unfold rel. cbn [lb_fault lb_buf lb_pos]. repeat split; auto.
  - (* stream_len *)
    cbn [cursor_step]. rewrite inner_nofault by exact A. cbn [inner_ideal fst snd]. split; [reflexivity|]. split; [|auto].
    unfold rel. cbn [lb_fault lb_buf lb_pos]. repeat split; auto.
  - (* allocation event *)
    cbn [cursor_step fst snd]. split; [reflexivity|]. split; auto.
  - (* read loop up to n bytes *)
    cbn [cursor_step]. destruct (loop_rel false 5 n [] s p Hr) as (s' & E & R'). cbv zeta in E. rewrite E. cbn [fst snd app andb].
    split; [reflexivity|]. split; [exact R'|]. split; [lia|]. intros Hs. specialize (Hst Hs). lia.
Qed.

(* the two readers give the same result for every programme *)
Theorem level_b_refines_cursor {A} (p : prog A) :
  fst (run LBr p (lb_init None)) = fst (run CUr p 0).
Proof.
  apply (run_sim LBr CUr rel2 step_sim A p (lb_init None) 0).
  split; [|split; [lia | intros _; lia]]. unfold rel, lb_init, blen. cbn. repeat split; auto. intros H; contradiction.
Qed.
End R.
