(* Byte strings and fixed-width big-/little-endian integer codecs (definitions + round-trip lemmas). *)
From Coq Require Import List NArith Lia.
From Coq.Strings Require Import Byte.
Import ListNotations.
Open Scope N_scope.

Definition bytes := list byte.

Definition b2n (b : byte) : N := Byte.to_N b.
Definition n2b (n : N) : byte :=
  match Byte.of_N (n mod 256) with Some b => b | None => x00 end.

(* big-endian: first byte most significant *)
Fixpoint be2n_acc (acc : N) (l : bytes) : N :=
  match l with [] => acc | b :: r => be2n_acc (acc * 256 + b2n b) r end.
Definition be2n (l : bytes) : N := be2n_acc 0 l.
Fixpoint n2le (k : nat) (n : N) : bytes :=
  match k with O => [] | S k' => n2b n :: n2le k' (n / 256) end.
Definition n2be (k : nat) (n : N) : bytes := rev (n2le k n).
(* little-endian: first byte least significant *)
Fixpoint le2n (l : bytes) : N :=
  match l with [] => 0 | b :: r => b2n b + 256 * le2n r end.

Definition zeros (k : nat) : bytes := repeat x00 k.

Lemma b2n_lt b : b2n b < 256.
Proof. unfold b2n. pose proof (Byte.to_N_bounded b). lia. Qed.

Lemma n2b_b2n b : n2b (b2n b) = b.
Proof.
  unfold n2b, b2n. rewrite N.mod_small by (pose proof (Byte.to_N_bounded b); lia).
  rewrite Byte.of_to_N. reflexivity.
Qed.

Lemma b2n_n2b n : b2n (n2b n) = n mod 256.
Proof.
  unfold n2b, b2n. destruct (Byte.of_N (n mod 256)) as [b|] eqn:E.
  - apply Byte.to_of_N in E. exact E.
  - apply Byte.of_N_None_iff in E. pose proof (N.mod_upper_bound n 256). lia.
Qed.

Lemma length_n2le k n : length (n2le k n) = k.
Proof. revert n; induction k as [|k IH]; intros n; simpl; [reflexivity | now rewrite IH]. Qed.
Lemma length_n2be k n : length (n2be k n) = k.
Proof. unfold n2be. rewrite rev_length. apply length_n2le. Qed.

Lemma le2n_n2le k n : n < 256 ^ N.of_nat k -> le2n (n2le k n) = n.
Proof.
  revert n; induction k as [|k IH]; intros n Hn.
  - simpl in *. lia.
  - cbn [n2le le2n]. rewrite b2n_n2b.
    rewrite IH.
    + pose proof (N.div_mod n 256). lia.
    + rewrite Nat2N.inj_succ, N.pow_succ_r' in Hn.
      apply N.div_lt_upper_bound; lia.
Qed.

Lemma le2n_lt l : le2n l < 256 ^ N.of_nat (length l).
Proof.
  induction l as [|b r IH].
  - simpl. lia.
  - cbn [le2n length]. rewrite Nat2N.inj_succ, N.pow_succ_r'. pose proof (b2n_lt b). lia.
Qed.

Lemma n2le_le2n l : n2le (length l) (le2n l) = l.
Proof.
  induction l as [|b r IH]; [reflexivity|].
  cbn [le2n length n2le]. pose proof (b2n_lt b).
  f_equal.
  - assert (E : (b2n b + 256 * le2n r) mod 256 = b2n b).
    { rewrite (N.mul_comm 256), N.mod_add by lia. apply N.mod_small; lia. }
    unfold n2b. rewrite E. unfold b2n. now rewrite Byte.of_to_N.
  - replace ((b2n b + 256 * le2n r) / 256) with (le2n r); [exact IH|].
    symmetry. rewrite (N.mul_comm 256), N.div_add by lia. rewrite (N.div_small (b2n b)) by lia. lia.
Qed.

Lemma be2n_acc_app acc l1 l2 : be2n_acc acc (l1 ++ l2) = be2n_acc (be2n_acc acc l1) l2.
Proof. revert acc; induction l1 as [|b r IH]; intros acc; simpl; [reflexivity | apply IH]. Qed.

Lemma be2n_rev l : be2n (rev l) = le2n l.
Proof.
  induction l as [|b r IH]; [reflexivity|].
  unfold be2n in *. cbn [rev le2n]. rewrite be2n_acc_app, IH. cbn [be2n_acc]. lia.
Qed.

Lemma be2n_n2be k n : n < 256 ^ N.of_nat k -> be2n (n2be k n) = n.
Proof. intros H. unfold n2be. rewrite be2n_rev. now apply le2n_n2le. Qed.

Lemma be2n_lt l : be2n l < 256 ^ N.of_nat (length l).
Proof. rewrite <- (rev_involutive l) at 1. rewrite be2n_rev. rewrite <- (rev_length l). apply le2n_lt. Qed.

Lemma n2be_be2n l : n2be (length l) (be2n l) = l.
Proof.
  unfold n2be. rewrite <- (rev_involutive l) at 2. rewrite be2n_rev.
  rewrite <- (rev_length l). rewrite n2le_le2n. apply rev_involutive.
Qed.

(* splitting a byte string *)
Definition take (k : nat) (l : bytes) : bytes := firstn k l.
Definition drop (k : nat) (l : bytes) : bytes := skipn k l.
