(* C12 at the level of the sanitizer: the programme of Base/Prog.v (fill_buf().is_empty(), read_exact, skip,
   stream_position, stream_len - the operations mp4san::sanitize_async_with_config awaits on its own futures
   BufReader) run over the futures BufReader of capacity [cap] over ANY schedule-independent async reader A, under ANY
   Pending schedule, ends with the result (and reader state) of the synchronous run.
   The BufReader's polls are those of Base/Async.v ([afut_buf]): poll_fill_buf, poll_read (bypass rule), futures'
   ReadExact future (keeps its progress across Pending), mediasan's poll_skip / poll_stream_position / poll_stream_len.
   This is the instantiation of C12's per-poll theorems with the sanitizer's own operation set; the generic programme
   theorem of AsyncProofs.v ([prog_sched_indep]) is over reads / read_exacts / skips / position / length only and does
   not have fill_buf. *)
From Coq Require Import List NArith ZArith Bool Lia.
From MS Require Import Base.Bytes Base.Outcome Base.Cursor Base.Adapters Base.Async Base.AsyncSpec Base.AsyncProofs Base.AsyncSan.
From MS Require Base.Prog.
Import ListNotations.
Open Scope N_scope.

Section San.
  Context (cap : N) (A : areader) (HA : sched_indep_core A).
  Local Notation RI := (ard A).
  Local Notation st := (bst (rst (ard A))).

  Lemma afill_psafe : psafe (afill_empty cap A) (sfill_empty cap A).
  Proof.
    destruct HA as (Hr & _ & _).
    intros [buf i] sc. unfold afill_empty, sfill_empty, ptry, pbind, apoll_fill, buf_fill. cbn [bbuf binner].
    destruct buf as [|x bs].
    - unfold ptry, pbind, lift_inner. cbn [bbuf binner].
      pose proof (Hr cap i sc) as H.
      destruct (a_read A cap i sc) as [[[|r] i'] sc'].
      + destruct H as [Hg Hl]. split; [|exact Hl]. cbn [bbuf binner]. rewrite Hg. reflexivity.
      + destruct H as [E Hl]. rewrite <- E. destruct r; cbn; auto.
    - cbn. split; [reflexivity | lia].
  Qed.

  Lemma astep_san_sync o s sc : (o <> Prog.OLen \/ len_indep A) ->
    exists sc', astep_san cap A o s sc = Some (fst (sstep cap A o s), snd (sstep cap A o s), sc').
  Proof.
    intros Hl. pose proof (afut_buf_core cap A HA) as (Hr & Hs & Hp).
    cbn [afut_buf ard a_read a_skip a_pos fut_buf rread rskip rpos rst] in Hr, Hs, Hp.
    destruct o as [| k | a | | | n | k]; cbn [astep_san sstep].
    - destruct (drive_psafe _ _ afill_psafe s sc) as (sc' & E). rewrite E.
      destruct (sfill_empty cap A s) as [r s']. exists sc'. reflexivity.
    - destruct (drive_psafe_gen _ _ _ (read_exact_future_psafe (apoll_read cap A) (buf_read cap RI) Hr)
                  (S (length (bits sc))) (s, (k, [])) sc) as (r & [s' st'] & sc' & E & Ho & _); [lia|].
      unfold drive_all. rewrite E. cbn [fst snd] in Ho. unfold rx_sync in Ho. unfold read_exact_default. rewrite <- Ho. exists sc'. reflexivity.
    - destruct (drive_psafe _ _ (Hs a) s sc) as (sc' & E). rewrite E.
      destruct (buf_skip RI a s) as [r s']. exists sc'. reflexivity.
    - destruct (drive_psafe _ _ Hp s sc) as (sc' & E). rewrite E.
      destruct (buf_pos RI s) as [r s']. exists sc'. reflexivity.
    - destruct Hl as [Hl | Hl]; [congruence|].
      pose proof (abuf_len_psafe A Hl) as HL.
      destruct (drive_psafe _ _ HL s sc) as (sc' & E). rewrite E.
      destruct (buf_len RI s) as [r s']. exists sc'. reflexivity.
    - exists sc. reflexivity.
    - destruct (drive_psafe _ _ (Hr k) s sc) as (sc' & E). rewrite E.
      destruct (buf_read cap RI k s) as [r s']. exists sc'. reflexivity.
  Qed.

  Theorem run_san_sched_sync {X} (p : Prog.prog X) : (len_indep A \/ no_len_prog p) ->
    forall s sc, exists sc', run_san_sched cap A p s sc = Some (fst (run_san_sync cap A p s), snd (run_san_sync cap A p s), sc').
  Proof.
    induction p as [r | o k IH]; intros Hl s sc; cbn [run_san_sched run_san_sync].
    - exists sc. reflexivity.
    - destruct (astep_san_sync o s sc) as (sc1 & E).
      { destruct Hl as [Hl | [Hl _]]; [right; exact Hl | left; exact Hl]. }
      rewrite E. destruct (sstep cap A o s) as [a s1]. cbn [fst snd].
      apply IH. destruct Hl as [Hl | [_ Hl]]; [left; exact Hl | right; apply Hl].
  Qed.
End San.

From MS Require Import Mp4.San Gen.Consts.
Lemma mp4_sanitizer_native_sched_indep (cfg : config) (fuel : nat) (R : reader)
  (s : bst (rst (ard (pending_reader R)))) (sc : sch) :
    exists sc', run_san_sched BOXHEADER_MAX_SIZE (pending_reader R) (sanitize_prog cfg fuel) s sc =
                Some (fst (run_san_sync BOXHEADER_MAX_SIZE (pending_reader R) (sanitize_prog cfg fuel) s),
                      snd (run_san_sync BOXHEADER_MAX_SIZE (pending_reader R) (sanitize_prog cfg fuel) s), sc').
Proof.
  destruct (pending_reader_core R) as [HC HL].
  exact (run_san_sched_sync BOXHEADER_MAX_SIZE (pending_reader R) HC (sanitize_prog cfg fuel) (or_introl HL) s sc).
Qed.

(* non-vacuity: the sanitizer's programme does ask for the length (until-EOF boxes), so the length clause matters *)
