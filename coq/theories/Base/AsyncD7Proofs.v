(* The exact shape of finding D7 (SeekSkipAdapter::poll_stream_len over a Pending AsyncSeek is not restart-safe), for the in-memory
   cursor and EVERY schedule: the value returned is always the right length; the data is untouched; the cursor is left either where
   it was (the synchronous behaviour) or at the end of the stream - nothing else can happen.  Together with
   C12_poll_stream_len_sched_indep_except_D7 (which schedules give the synchronous state) this is the whole of the defect. *)
From Coq Require Import List NArith ZArith Bool Lia.
From MS Require Import Base.Bytes Base.Outcome Base.Cursor Base.Adapters Base.Async Base.AsyncSpec Base.AsyncProofs.
Import ListNotations.
Open Scope N_scope.

Section D7.
  Let A := pending_seeker (std_cursor U64MAXN).

  Definition small (c : cur) : Prop := cpos c <= U64MAXN /\ clen c <= U64MAXN.

  Lemma seek_cur0 c : small c -> cursor_seek U64MAXN (SCurrent 0%Z) c = (Ok (cpos c), c).
  Proof.
    intros [Hp _]. unfold cursor_seek, U64MAXN, U64 in *.
    replace ((0 <=? Z.of_N (cpos c) + 0)%Z && (Z.of_N (cpos c) + 0 <? Z.of_N 18446744073709551616)%Z &&
             (Z.of_N (cpos c) + 0 <=? Z.of_N 18446744073709551615)%Z) with true
      by (symmetry; rewrite !andb_true_iff; repeat split; [apply Z.leb_le | apply Z.ltb_lt | apply Z.leb_le]; lia).
    replace (Z.to_N (Z.of_N (cpos c) + 0)) with (cpos c) by lia. destruct c; reflexivity.
  Qed.
  Lemma seek_end0 c : small c -> cursor_seek U64MAXN (SEnd 0%Z) c = (Ok (clen c), cmove c (clen c)).
  Proof.
    intros [_ Hl]. unfold cursor_seek, U64MAXN, U64 in *.
    replace ((0 <=? Z.of_N (clen c) + 0)%Z && (Z.of_N (clen c) + 0 <? Z.of_N 18446744073709551616)%Z &&
             (Z.of_N (clen c) + 0 <=? Z.of_N 18446744073709551615)%Z) with true
      by (symmetry; rewrite !andb_true_iff; repeat split; [apply Z.leb_le | apply Z.ltb_lt | apply Z.leb_le]; lia).
    replace (Z.to_N (Z.of_N (clen c) + 0)) with (clen c) by lia. reflexivity.
  Qed.
  Lemma seek_start c p : p <= U64MAXN -> cursor_seek U64MAXN (SStart p) c = (Ok p, cmove c p).
  Proof. intros H. unfold cursor_seek. destruct (N.ltb_spec U64MAXN p); [lia | reflexivity]. Qed.

  Lemma small_at_end c : small c -> small (cmove c (clen c)).
  Proof. intros [_ Hl]. split; exact Hl. Qed.

  Theorem d7_shape : forall n c sc, small c -> (length (bits sc) < n)%nat ->
    exists s' sc', drive n (apoll_len A) c sc = Some (Ok (clen c), s', sc') /\
                   cdata s' = cdata c /\ (cpos s' = cpos c \/ cpos s' = clen c).
  Proof.
    induction n as [|n IH]; intros c sc Hc Hn; [lia|].
    destruct sc as [b np]. cbn [bits] in Hn. cbn [drive].
    unfold apoll_len, apoll_pos, ptry, pbind. cbn [A pending_seeker as_seek as_sync std_cursor s_seek].
    destruct b as [|[|] b].
    - (* no Pending left *)
      rewrite prim_ready by reflexivity. rewrite (seek_cur0 c Hc). cbn [fst snd tl].
      rewrite prim_ready by reflexivity. rewrite (seek_end0 c Hc). cbn [fst snd tl].
      destruct (N.eqb_spec (cpos c) (clen c)) as [E|E]; cbn [pret].
      + do 2 eexists. split; [reflexivity|]. cbn [cmove cdata cpos]. auto.
      + rewrite prim_ready by reflexivity. rewrite seek_start by (destruct Hc; assumption). cbn [fst snd tl pret].
        do 2 eexists. split; [reflexivity|]. cbn [cmove cdata cpos]. auto.
    - (* the position query is suspended: nothing has happened *)
      rewrite prim_pending. cbn [length] in Hn.
      destruct (IH c {| bits := b; npolls := np + 1 |} Hc) as (s' & sc' & E & Hd & Hp); [cbn [bits]; lia|].
      exists s', sc'. auto.
    - rewrite prim_ready by reflexivity. rewrite (seek_cur0 c Hc). cbn [fst snd tl].
      cbn [length] in Hn.
      destruct b as [|[|] b].
      + rewrite prim_ready by reflexivity. rewrite (seek_end0 c Hc). cbn [fst snd tl].
        destruct (N.eqb_spec (cpos c) (clen c)) as [E|E]; cbn [pret].
        * do 2 eexists. split; [reflexivity|]. cbn [cmove cdata cpos]. auto.
        * rewrite prim_ready by reflexivity. rewrite seek_start by (destruct Hc; assumption). cbn [fst snd tl pret].
          do 2 eexists. split; [reflexivity|]. cbn [cmove cdata cpos]. auto.
      + (* the seek to the end is suspended: the cursor has not moved *)
        rewrite prim_pending.
        destruct (IH c {| bits := b; npolls := np + 1 + 1 |} Hc) as (s' & sc' & E & Hd & Hp); [cbn [bits length] in *; lia|].
        exists s', sc'. auto.
      + rewrite prim_ready by reflexivity. rewrite (seek_end0 c Hc). cbn [fst snd tl].
        destruct (N.eqb_spec (cpos c) (clen c)) as [E|E]; cbn [pret].
        * do 2 eexists. split; [reflexivity|]. cbn [cmove cdata cpos]. auto.
        * destruct b as [|[|] b].
          -- rewrite prim_ready by reflexivity. rewrite seek_start by (destruct Hc; assumption). cbn [fst snd tl pret].
             do 2 eexists. split; [reflexivity|]. cbn [cmove cdata cpos]. auto.
          -- (* D7: the restoring seek is suspended; the restart runs from the end of the stream *)
             rewrite prim_pending.
             destruct (IH (cmove c (clen c)) {| bits := b; npolls := np + 1 + 1 + 1 |} (small_at_end c Hc))
               as (s' & sc' & E' & Hd & Hp); [cbn [bits length] in *; lia|].
             exists s', sc'. split; [exact E'|]. cbn [cmove cdata cpos clen] in *. split; [exact Hd|].
             right. destruct Hp as [Hp|Hp]; exact Hp.
          -- rewrite prim_ready by reflexivity. rewrite seek_start by (destruct Hc; assumption). cbn [fst snd tl pret].
             do 2 eexists. split; [reflexivity|]. cbn [cmove cdata cpos]. auto.
  Qed.

  Corollary d7_shape_all c sc : small c ->
    exists s' sc', drive_all (apoll_len A) c sc = Some (Ok (clen c), s', sc') /\
                   cdata s' = cdata c /\ (cpos s' = cpos c \/ cpos s' = clen c).
  Proof. intros Hc. apply d7_shape; [exact Hc | lia]. Qed.
End D7.
