(* What C12 demands of a poll function, and the vocabulary of its theorems (definitions only).
   [psafe f g]: the poll function [f] is safe to re-poll with respect to the synchronous function [g]:
     - if it answers Ready, value and reader state are exactly those of g on the state it was polled in;
     - if it answers Pending, whatever progress it made leaves the outcome of g unchanged (nothing lost,
       nothing duplicated), and at least one schedule bit was consumed.
   Driving such a function under ANY schedule ends with g's value and state (AsyncProofs.drive_psafe). *)
From Coq Require Import List NArith ZArith Bool.
From MS Require Import Base.Bytes Base.Outcome Base.Cursor Base.Adapters Base.Async.
Import ListNotations.
Open Scope N_scope.

Definition psafe_gen {St A B : Type} (f : pf St A) (g : St -> B) (out : A -> St -> B) : Prop :=
  forall s sc,
    match f s sc with
    | (Ready a, s', sc') => out a s' = g s /\ (length (bits sc') <= length (bits sc))%nat
    | (Pending, s', sc') => g s' = g s /\ (length (bits sc') < length (bits sc))%nat
    end.
Definition psafe {St A : Type} (f : pf St A) (g : St -> A * St) : Prop := psafe_gen f g (fun a s => (a, s)).

(* asking an AsyncSeek for its position (seek(Current(0))) does not change it *)
Definition seek_query_pure (S : seeker) : Prop := forall s, snd (s_seek S (SCurrent 0%Z) s) = s.

(* the position query and the seek to the end give the same number: poll_stream_len has no third seek *)
Definition at_end (S : seeker) (s : sst S) : Prop :=
  match s_seek S (SCurrent 0%Z) s with
  | (Ok p, s1) => match s_seek S (SEnd 0%Z) s1 with
                  | (Ok len, _) => p = len
                  | _ => True
                  end
  | _ => True
  end.

(* read / skip / position of an async reader are schedule independent; length separately (finding D7) *)
Definition sched_indep_core (A : areader) : Prop :=
  (forall k, psafe (a_read A k) (rread (ard A) k)) /\
  (forall a, psafe (a_skip A a) (rskip (ard A) a)) /\
  psafe (a_pos A) (rpos (ard A)).
Definition len_indep (A : areader) : Prop := psafe (a_len A) (rlen (ard A)).

(* a client programme that never asks for the stream length *)
Fixpoint no_len {X : Type} (p : prog X) : Prop :=
  match p with
  | PRet _ => True
  | PDo o k => o <> OLen /\ forall r, no_len (k r)
  end.
