(* Finding D11 at the level of adapter stacks: Base/MaxSeekSan.v composed with the view-is-cursor theorem of C11. *)
From Coq Require Import List NArith Bool.
From Coq.Strings Require Import Byte.
From MS Require Import Base.Bytes Base.Outcome Base.Prog Base.MaxSeekSan Base.Cursor Base.Adapters Base.AdaptersSpec Base.StackReader
  Base.StackSpec Base.StackProofsTop Base.StackProofsMp4 Mp4.Header Mp4.Box Mp4.San Mp4.Spec.
Open Scope N_scope.

Theorem mp4_views_differ_only_by_D11 :
  forall (cfg : config) (fuel : nat) (ms1 ms2 : N) (st1 st2 : stk) (e1 e2 : bool) (data : bytes),
  stk_ok st1 -> stk_ok st2 -> blen data <= I64MAX -> ms_ok (blen data) ms1 -> ms_ok (blen data) ms2 -> ms1 <= ms2 ->
  (forall t, cumulative_mdat_box_size cfg = Some t -> t <= U32MAX) ->
  let r1 := fst (Prog.run (mp4_view e1 ms1 st1) (sanitize_prog cfg fuel) (mp4_view_init e1 ms1 st1 data)) in
  let r2 := fst (Prog.run (mp4_view e2 ms2 st2) (sanitize_prog cfg fuel) (mp4_view_init e2 ms2 st2 data)) in
  r1 = r2 \/ exists e, (e = EInvalidInput \/ e = EInvalidData) /\ r1 = EIo e /\ is_ok r2 = false.
Proof.
  intros cfg fuel ms1 ms2 st1 st2 e1 e2 data S1 S2 HL M1 M2 H12 Hc r1 r2. subst r1 r2.
  pose proof (input_of_list_is data) as HI.
  rewrite (mp4_view_is_cursor cfg fuel ms1 st1 e1 data (input_of_list data) S1 HL M1 HI).
  rewrite (mp4_view_is_cursor cfg fuel ms2 st2 e2 data (input_of_list data) S2 HL M2 HI).
  destruct HI as [HIl _]. destruct M1 as [M1a M1b]. destruct M2 as [M2a M2b].
  apply mp4_max_seek_shape; [rewrite HIl; exact M1a | exact H12 | exact M2b | exact Hc].
Qed.
