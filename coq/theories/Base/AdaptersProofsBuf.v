(* C15, part 2: std::io::BufReader / futures BufReader with mediasan's Skip impl refine the ideal cursor,
   over ANY inner reader that does (so for stacks of any depth), for every capacity >= 1.
   Abstraction: inner cursor moved back by the buffered amount; invariant: buffer = data[pos .. inner.pos). *)
From Coq Require Import List NArith ZArith Bool Lia ZifyBool ZifyNat ZifyN.
From MS Require Import Base.Bytes Base.Outcome Base.Cursor Base.Adapters Base.AdaptersSpec Base.AdaptersProofs.
Import ListNotations.
Open Scope N_scope.
Arguments N.add : simpl never.
Arguments N.sub : simpl never.
Arguments N.mul : simpl never.
Arguments N.eqb : simpl never.
Arguments N.ltb : simpl never.
Arguments N.leb : simpl never.
Arguments N.min : simpl never.
Arguments N.max : simpl never.

Section BufProofs.
  Context (cap : N) (R : reader) (abs : rst R -> cur) (Inv : rst R -> Prop).
  Context (Hcap : 1 <= cap) (HR : refines R abs Inv).

  Let Hwf := proj1 (refines_ops R abs Inv HR).
  Let Hread := proj1 (proj2 (refines_ops R abs Inv HR)).
  Let Hskip := proj1 (proj2 (proj2 (proj2 (refines_ops R abs Inv HR)))).
  Let Hpos := proj1 (proj2 (proj2 (proj2 (proj2 (refines_ops R abs Inv HR))))).
  Let Hlen := proj2 (proj2 (proj2 (proj2 (proj2 (refines_ops R abs Inv HR))))).

  Notation babs := (buf_abs R abs).
  Notation binv := (buf_inv R abs Inv).

  Lemma binv_wf s : binv s -> wf_cur (babs s).
  Proof.
    intros (HI & Hb & _). destruct (Hwf _ HI) as [Hp Hl]. unfold wf_cur, buf_abs.
    rewrite cpos_cmove, clen_cmove. lia.
  Qed.

  (* facts available from the invariant, in a form lia can use *)
  Lemma binv_facts s : binv s ->
    let ci := abs (binner s) in
    Inv (binner s) /\ cpos ci <= clen ci /\ clen ci < U64 /\ blen (bbuf s) <= cpos ci /\
    cdata (babs s) = cdata ci /\ cpos (babs s) = cpos ci - blen (bbuf s) /\ clen (babs s) = clen ci /\
    bbuf s = slice (cdata ci) (cpos ci - blen (bbuf s)) (blen (bbuf s)).
  Proof.
    intros (HI & Hb & He). destruct (Hwf _ HI) as [Hp Hl]. cbn zeta. unfold buf_abs.
    rewrite cdata_cmove, cpos_cmove, clen_cmove. auto 10.
  Qed.

  (* an empty buffer: the abstract cursor is the inner one *)
  Lemma babs_empty i : babs {| bbuf := []; binner := i |} = abs i.
  Proof. unfold buf_abs. cbn [bbuf binner]. rewrite blen_nil, N.sub_0_r. apply cmove_same. Qed.
  Lemma binv_empty i : Inv i -> binv {| bbuf := []; binner := i |}.
  Proof.
    intros HI. unfold buf_inv. cbn [bbuf binner]. rewrite blen_nil. split; [exact HI|]. split; [lia|]. reflexivity.
  Qed.

  (* copying n = min k buffered bytes out of the buffer *)
  Lemma buf_copy_ok k s : binv s ->
    let n := N.min k (blen (bbuf s)) in
    exists s', buf_copy R k s = (Ok (slice (cdata (babs s)) (cpos (babs s)) n), s') /\
               blen (slice (cdata (babs s)) (cpos (babs s)) n) = n /\
               babs s' = cmove (babs s) (cpos (babs s) + n) /\ binv s'.
  Proof.
    intros HB. destruct (binv_facts s HB) as (HI & Hp & Hl & Hb & Hd & Hc & Hn & He). cbn zeta in *.
    set (n := N.min k (blen (bbuf s))). unfold buf_copy. fold n.
    eexists. split; [|split; [|split]].
    - f_equal. rewrite He at 1. rewrite firstn_slice, Hd, Hc. do 2 f_equal. subst n. lia.
    - rewrite slice_len. pose proof (slice_full_eq _ _ _ He). unfold clen in *. rewrite Hd, Hc. subst n. lia.
    - unfold buf_abs, buf_consume. cbn [bbuf binner]. rewrite blen_skipn, cmove_cmove, cpos_cmove. f_equal. lia.
    - unfold buf_inv, buf_consume. cbn [bbuf binner]. rewrite blen_skipn. split; [exact HI|]. split; [lia|].
      rewrite He at 1. rewrite skipn_slice. f_equal; lia.
  Qed.

  Lemma buf_read_ok : read_ok babs binv (buf_read cap R).
  Proof.
    intros k s HB. destruct (binv_facts s HB) as (HI & Hp & Hl & Hb & Hd & Hc & Hn & He). cbn zeta in *.
    unfold buf_read. destruct (bbuf s) as [|x bs] eqn:Ebuf.
    - (* empty buffer *)
      assert (Es : s = {| bbuf := []; binner := binner s |}) by (destruct s; cbn in *; now subst).
      assert (Ea : babs s = abs (binner s)) by (rewrite Es; apply babs_empty).
      destruct (N.leb_spec cap k) as [Hbig|Hsmall].
      + (* bypass *)
        destruct (Hread k (binner s) HI) as (l & i' & E & H1 & H2 & H3 & H4 & H5). rewrite E.
        exists l, {| bbuf := []; binner := i' |}. rewrite babs_empty, Ea.
        split; [reflexivity|]. split; [exact H1|]. split; [exact H2|]. split; [exact H3|]. split; [exact H4|].
        apply binv_empty, H5.
      + (* fill, then copy *)
        unfold buf_fill. rewrite Ebuf.
        destruct (Hread cap (binner s) HI) as (l & i' & E & H1 & H2 & H3 & H4 & H5). rewrite E. cbn [sbind].
        set (s1 := {| bbuf := l; binner := i' |}).
        assert (HB1 : binv s1).
        { unfold buf_inv, s1. cbn [bbuf binner]. rewrite H4, cpos_cmove, cdata_cmove.
          split; [exact H5|]. split; [lia|]. rewrite H1 at 1. f_equal. lia. }
        assert (Ea1 : babs s1 = abs (binner s)).
        { unfold buf_abs, s1. cbn [bbuf binner]. rewrite H4, cpos_cmove, cmove_cmove.
          replace (cpos (abs (binner s)) + blen l - blen l) with (cpos (abs (binner s))) by lia. apply cmove_same. }
        destruct (buf_copy_ok k s1 HB1) as (s2 & E2 & Hn2 & Ha2 & HB2). cbn zeta in E2, Hn2, Ha2.
        rewrite Ea1 in E2, Hn2, Ha2. change (bbuf s1) with l in E2, Hn2, Ha2.
        exists (slice (cdata (abs (binner s))) (cpos (abs (binner s))) (N.min k (blen l))), s2.
        rewrite Ea, Hn2.
        split; [exact E2|]. split; [reflexivity|]. split; [lia|]. split; [|split; [exact Ha2|exact HB2]].
        split.
        * intros Hz. assert (blen l = 0 \/ k = 0) as [Hl0|Hk0] by lia; [right|left; exact Hk0].
          apply H3 in Hl0. destruct Hl0; [lia|assumption].
        * intros [Hk0|Hend]; [lia|]. assert (blen l = 0) by (apply H3; right; exact Hend). lia.
    - (* data in the buffer *)
      rewrite <- Ebuf in *. destruct (buf_copy_ok k s HB) as (s2 & E2 & Hn2 & Ha2 & HB2). cbn zeta in E2, Hn2, Ha2.
      assert (Hpos' : 0 < blen (bbuf s)) by (rewrite Ebuf; apply blen_cons_pos).
      exists (slice (cdata (babs s)) (cpos (babs s)) (N.min k (blen (bbuf s)))), s2.
      rewrite Hn2.
      split; [exact E2|]. split; [reflexivity|]. split; [lia|]. split; [|split; [exact Ha2|exact HB2]].
      split.
      + intros Hz. left. lia.
      + intros [Hk0|Hend]; [lia|]. rewrite Hc, Hn in Hend. lia.
  Qed.

  Lemma buf_read_exact_ok : read_exact_ok babs binv (buf_read_exact cap R).
  Proof.
    intros k s HB Hw. destruct (binv_facts s HB) as (HI & Hp & Hl & Hb & Hd & Hc & Hn & He). cbn zeta in *.
    unfold buf_read_exact. destruct (N.leb_spec k (blen (bbuf s))) as [Hin|Hout].
    - (* served from the buffer *)
      eexists. split; [|split].
      + f_equal. rewrite He at 1. rewrite firstn_slice, Hd, Hc. do 2 f_equal. lia.
      + unfold buf_abs, buf_consume. cbn [bbuf binner]. rewrite blen_skipn, cmove_cmove, cpos_cmove. f_equal. lia.
      + unfold buf_inv, buf_consume. cbn [bbuf binner]. rewrite blen_skipn. split; [exact HI|]. split; [lia|].
        rewrite He at 1. rewrite skipn_slice. f_equal; lia.
    - apply (read_exact_default_ok babs binv true (buf_read cap R) buf_read_ok k s HB Hw).
  Qed.

  Lemma fbuf_read_exact_ok : read_exact_ok babs binv (fbuf_read_exact cap R).
  Proof. apply (read_exact_default_ok babs binv false (buf_read cap R) buf_read_ok). Qed.

  Lemma skipn_all_blen (l : bytes) : skipn (N.to_nat (blen l)) l = [].
  Proof. unfold blen. rewrite Nat2N.id. apply skipn_all. Qed.

  (* skip: amount >= buffered: inner skip of the rest (unless 0), then drop the buffer; otherwise consume *)
  Lemma buf_skip_ok : skip_ok babs binv (buf_skip R).
  Proof.
    intros a s HB Hw. destruct (binv_facts s HB) as (HI & Hp & Hl & Hb & Hd & Hc & Hn & He). cbn zeta in *.
    unfold buf_skip. destruct (N.leb_spec (blen (bbuf s)) a) as [Hge|Hlt].
    - rewrite (N.min_l _ _ Hge).
      destruct (N.eqb_spec (a - blen (bbuf s)) 0) as [Hz|Hnz]; cbn [sbind].
      + eexists. split; [reflexivity|]. unfold buf_consume. rewrite skipn_all_blen. split.
        * rewrite babs_empty. unfold buf_abs. rewrite cpos_cmove.
          replace (cpos (abs (binner s)) - blen (bbuf s) + a) with (cpos (abs (binner s))) by lia.
          symmetry. rewrite cmove_cmove. apply cmove_same.
        * apply binv_empty, HI.
      + destruct (Hskip (a - blen (bbuf s)) (binner s) HI) as (i' & E & Ha & HI'); [lia|].
        rewrite E. cbn [sbind]. eexists. split; [reflexivity|]. unfold buf_consume. cbn [bbuf binner].
        rewrite skipn_all_blen. split.
        * rewrite babs_empty, Ha. unfold buf_abs. rewrite cmove_cmove, cpos_cmove. f_equal. lia.
        * apply binv_empty, HI'.
    - rewrite (N.min_r _ _ (N.lt_le_incl _ _ Hlt)). cbn [sbind].
      eexists. split; [reflexivity|]. split.
      + unfold buf_abs, buf_consume. cbn [bbuf binner]. rewrite blen_skipn, cmove_cmove, cpos_cmove. f_equal. lia.
      + unfold buf_inv, buf_consume. cbn [bbuf binner]. rewrite blen_skipn. split; [exact HI|]. split; [lia|].
        rewrite He at 1. rewrite skipn_slice. f_equal; lia.
  Qed.

  (* the inner reader moved, its abstract cursor did not: the buffered view is unchanged *)
  Lemma binv_same_abs s i' : binv s -> abs i' = abs (binner s) -> Inv i' ->
    babs {| bbuf := bbuf s; binner := i' |} = babs s /\ binv {| bbuf := bbuf s; binner := i' |}.
  Proof.
    intros (HI & Hb & He) Ha HI'. unfold buf_abs, buf_inv. cbn [bbuf binner]. rewrite Ha. auto.
  Qed.

  Lemma buf_pos_ok : pos_ok babs binv (buf_pos R).
  Proof.
    intros s HB. destruct (binv_facts s HB) as (HI & Hp & Hl & Hb & Hd & Hc & Hn & He). cbn zeta in *.
    unfold buf_pos. destruct (Hpos (binner s) HI) as (i' & E & Ha & HI'). rewrite E. cbn [sbind bbuf].
    destruct (binv_same_abs s i' HB Ha HI') as [H1 H2].
    eexists. split; [rewrite Hc; reflexivity|]. auto.
  Qed.

  Lemma buf_len_ok : len_ok babs binv (buf_len R).
  Proof.
    intros s HB. destruct (binv_facts s HB) as (HI & Hp & Hl & Hb & Hd & Hc & Hn & He). cbn zeta in *.
    unfold buf_len. destruct (Hlen (binner s) HI) as (i' & E & Ha & HI'). rewrite E.
    destruct (binv_same_abs s i' HB Ha HI') as [H1 H2].
    eexists. split; [rewrite Hn; reflexivity|]. auto.
  Qed.

  Lemma std_buf_refines : refines (std_buf cap R) babs binv.
  Proof.
    apply refines_of_ops; cbn [std_buf rread rread_exact rskip rpos rlen rst].
    - exact binv_wf.
    - exact buf_read_ok.
    - exact buf_read_exact_ok.
    - exact buf_skip_ok.
    - exact buf_pos_ok.
    - exact buf_len_ok.
  Qed.

  Lemma fut_buf_refines : refines (fut_buf cap R) babs binv.
  Proof.
    apply refines_of_ops; cbn [fut_buf rread rread_exact rskip rpos rlen rst].
    - exact binv_wf.
    - exact buf_read_ok.
    - exact fbuf_read_exact_ok.
    - exact buf_skip_ok.
    - exact buf_pos_ok.
    - exact buf_len_ok.
  Qed.

  (* a fresh BufReader satisfies the invariant *)
  Lemma buf_init_inv i : Inv i -> binv (buf_init R i) /\ babs (buf_init R i) = abs i.
  Proof. intros HI. unfold buf_init. split; [apply binv_empty, HI|apply babs_empty]. Qed.
End BufProofs.

(* the hypotheses are satisfiable: BufReader(3) over BufReader(2) over a Cursor *)
Example buf_stack_example :
  let R0 := cursor_reader U64MAXN in
  let R1 := std_buf 2 R0 in
  let R2 := fut_buf 3 R1 in
  refines R2 (buf_abs R1 (buf_abs R0 (fun c => c)))
             (buf_inv R1 (buf_abs R0 (fun c => c)) (buf_inv R0 (fun c => c) (fun c => wf_cur c /\ clen c <= U64MAXN))).
Proof.
  cbn zeta. apply fut_buf_refines; [lia|]. apply std_buf_refines; [lia|]. apply cursor_reader_refines.
Qed.
