(* Poll-level models (definitions only) of the AsyncSkip adapters of mediasan-common (common/src/async_skip.rs)
   and of futures_util::io::BufReader, over an inner AsyncRead/AsyncSeek/AsyncSkip that may answer Pending.

   A SCHEDULE is a list of booleans consumed one per PRIMITIVE poll (a poll of the innermost
   AsyncRead/AsyncSeek/AsyncSkip): true = this poll answers Pending (no progress; the task is woken, so the
   executor polls the future again), false = it answers Ready and performs the operation.  An exhausted
   schedule means Ready.  A composite poll function is an ordinary function that is RE-RUN FROM THE TOP after
   it returned Pending (that is what `ready!` + re-polling a state-less future means); the only state that
   survives is the state of the readers (and, for ReadExact, the future's own slice).  *)
From Coq Require Import List NArith ZArith Bool.
From MS Require Import Base.Bytes Base.Outcome Base.Cursor Base.Adapters.
Import ListNotations.
Open Scope N_scope.

Inductive poll (A : Type) := Pending | Ready (a : A).
Arguments Pending {A}.
Arguments Ready {A} a.

Record sch := { bits : list bool; npolls : N }.
Definition tick (sc : sch) : sch := {| bits := tl (bits sc); npolls := npolls sc + 1 |}.

(* a poll function over reader state St *)
Definition pf (St A : Type) := St -> sch -> poll A * St * sch.

(* primitive poll of an operation whose synchronous effect is g *)
Definition prim {St A : Type} (g : St -> A * St) : pf St A := fun s sc =>
  match bits sc with
  | true :: _ => (Pending, s, tick sc)
  | _ => let (a, s') := g s in (Ready a, s', tick sc)
  end.

Definition pret {St A : Type} (a : A) : pf St A := fun s sc => (Ready a, s, sc).
(* let a = ready!(f); k a *)
Definition pbind {St A B : Type} (f : pf St A) (k : A -> pf St B) : pf St B := fun s sc =>
  match f s sc with
  | (Pending, s', sc') => (Pending, s', sc')
  | (Ready a, s', sc') => k a s' sc'
  end.
(* let a = ready!(f)?; k a *)
Definition ptry {St A B : Type} (f : pf St (res A)) (k : A -> pf St (res B)) : pf St (res B) :=
  pbind f (fun r => match r with
                    | Ok a => k a
                    | EParse e => pret (EParse e) | EIo e => pret (EIo e)
                    | Panic n => pret (Panic n) | OutOfFuel => pret OutOfFuel
                    end).

(* the executor: poll until Ready.  Every Pending consumes a schedule bit, so S (length bits) suffices. *)
Fixpoint drive {St A : Type} (fuel : nat) (f : pf St A) (s : St) (sc : sch) : option (A * St * sch) :=
  match fuel with
  | O => None
  | Datatypes.S n => match f s sc with
                     | (Pending, s', sc') => drive n f s' sc'
                     | (Ready a, s', sc') => Some (a, s', sc')
                     end
  end.
Definition drive_all {St A : Type} (f : pf St A) (s : St) (sc : sch) := drive (Datatypes.S (length (bits sc))) f s sc.

(* ------------------------------------------------------------------------------------------------ *)
(* AsyncRead + AsyncSeek *)
Record aseeker := {
  as_sync : seeker;
  as_read : N -> pf (sst as_sync) (res bytes);
  as_seek : seekfrom -> pf (sst as_sync) (res N)
}.
(* the Pending-injecting wrapper of the harness (PendingCursor) *)
Definition pending_seeker (S : seeker) : aseeker :=
  {| as_sync := S; as_read := fun k => prim (s_read S k); as_seek := fun sf => prim (s_seek S sf) |}.

(* AsyncRead + AsyncSkip; [ard] is the same reader with every poll Ready (its synchronous view) *)
Record areader := {
  ard : reader;
  a_read : N -> pf (rst ard) (res bytes);
  a_skip : N -> pf (rst ard) (res unit);
  a_pos : pf (rst ard) (res N);
  a_len : pf (rst ard) (res N)
}.
(* an AsyncSkip-native reader: every operation is one primitive poll *)
Definition pending_reader (R : reader) : areader :=
  {| ard := fut_view R; a_read := fun k => prim (rread R k); a_skip := fun a => prim (rskip R a);
     a_pos := prim (rpos R); a_len := prim (rlen R) |}.

(* ------------------------------------------------------------------------------------------------ *)
(* impl AsyncSkip for SeekSkipAdapter<R: AsyncSeek> *)
Section ASeekAdapter.
  Context (A : aseeker).
  Let S := as_sync A.

  (* poll_stream_position: reader.poll_seek(cx, Current(0)) *)
  Definition apoll_pos : pf (sst S) (res N) := as_seek A (SCurrent 0%Z).

  (* poll_skip *)
  Definition apoll_skip (amount : N) : pf (sst S) (res unit) :=
    if amount <=? I64MAX then
      if amount =? 0 then pret (Ok tt)
      else ptry (as_seek A (SCurrent (Z.of_N amount))) (fun _ => pret (Ok tt))
    else
      ptry apoll_pos (fun p =>
        if U64 <=? p + amount then pret (EIo EInvalidData)
        else ptry (as_seek A (SStart (p + amount))) (fun _ => pret (Ok tt))).

  (* poll_stream_len: three ready!s in a row; NOT restart-safe (finding D7) *)
  Definition apoll_len : pf (sst S) (res N) :=
    ptry apoll_pos (fun p =>
    ptry (as_seek A (SEnd 0%Z)) (fun len =>
      if p =? len then pret (Ok len)
      else ptry (as_seek A (SStart p)) (fun _ => pret (Ok len)))).

  (* the same three functions with every poll Ready: note the async adapter asks seek(Current(0)) for the position *)
  Definition assa_pos (s : sst S) : res N * sst S := s_seek S (SCurrent 0%Z) s.
  Definition assa_skip (amount : N) (s : sst S) : res unit * sst S :=
    if amount <=? I64MAX then
      if amount =? 0 then (Ok tt, s)
      else sbind (s_seek S (SCurrent (Z.of_N amount)) s) (fun _ s1 => (Ok tt, s1))
    else
      sbind (assa_pos s) (fun p s1 =>
        if U64 <=? p + amount then (EIo EInvalidData, s1)
        else sbind (s_seek S (SStart (p + amount)) s1) (fun _ s2 => (Ok tt, s2))).
  Definition assa_len (s : sst S) : res N * sst S :=
    sbind (assa_pos s) (fun p s1 =>
    sbind (s_seek S (SEnd 0%Z) s1) (fun len s2 =>
      if p =? len then (Ok len, s2)
      else sbind (s_seek S (SStart p) s2) (fun _ s3 => (Ok len, s3)))).

  Definition aseek_sync : reader :=
    {| rst := sst S; rread := s_read S; rread_exact := read_exact_default false (s_read S);
       rskip := assa_skip; rpos := assa_pos; rlen := assa_len |}.

  Definition aseek_adapter : areader :=
    {| ard := aseek_sync; a_read := as_read A; a_skip := apoll_skip; a_pos := apoll_pos; a_len := apoll_len |}.
End ASeekAdapter.

(* ------------------------------------------------------------------------------------------------ *)
(* futures_util::io::BufReader<R> + impl AsyncSkip for BufReader<R: AsyncRead + AsyncSkip> *)
Section ABuf.
  Context (cap : N) (A : areader).
  Let I := rst (ard A).
  Let st := bst I.

  Definition lift_inner {X : Type} (f : pf I X) : pf st X := fun s sc =>
    match f (binner s) sc with
    | (p, i', sc') => (p, {| bbuf := bbuf s; binner := i' |}, sc')
    end.

  (* poll_fill_buf: if pos >= cap { cap = ready!(inner.poll_read(buffer))?; pos = 0 } *)
  Definition apoll_fill : pf st (res unit) := fun s sc =>
    match bbuf s with
    | [] => ptry (lift_inner (a_read A cap))
                 (fun l s1 sc1 => (Ready (Ok tt), {| bbuf := l; binner := binner s1 |}, sc1)) s sc
    | _ :: _ => (Ready (Ok tt), s, sc)
    end.

  Definition apoll_copy (k : N) : pf st (res bytes) := fun s sc =>
    let (r, s') := buf_copy (ard A) k s in (Ready r, s', sc).

  (* poll_read: if pos == cap && buf.len() >= buffer.len() { res = ready!(inner.poll_read(buf)); discard_buffer(); return res }
     rem = ready!(poll_fill_buf)?; nread = rem.read(buf)?; consume(nread) *)
  Definition apoll_read (k : N) : pf st (res bytes) := fun s sc =>
    match bbuf s with
    | [] => if cap <=? k
            then pbind (lift_inner (a_read A k))
                       (fun r s1 sc1 => (Ready r, {| bbuf := []; binner := binner s1 |}, sc1)) s sc
            else ptry apoll_fill (fun _ => apoll_copy k) s sc
    | _ :: _ => apoll_copy k s sc
    end.

  (* poll_skip: buf_len = buffer().len(); if amount >= buf_len && amount - buf_len != 0 { ready!(inner.poll_skip(..))? }
     consume(min(buf_len, amount)) -- the consume comes AFTER the ready!, so a restart repeats nothing *)
  Definition abuf_poll_skip (amount : N) : pf st (res unit) := fun s sc =>
    let buf_len := blen (bbuf s) in
    let inner : pf st (res unit) :=
      if buf_len <=? amount then
        if amount - buf_len =? 0 then pret (Ok tt) else lift_inner (a_skip A (amount - buf_len))
      else pret (Ok tt) in
    ptry inner (fun _ s1 sc1 => (Ready (Ok tt), buf_consume (ard A) (N.min buf_len amount) s1, sc1)) s sc.

  Definition abuf_poll_pos : pf st (res N) :=
    ptry (lift_inner (a_pos A)) (fun p s1 sc1 => (Ready (Ok (p - blen (bbuf s1))), s1, sc1)).

  Definition abuf_poll_len : pf st (res N) := lift_inner (a_len A).

  Definition afut_buf : areader :=
    {| ard := fut_buf cap (ard A); a_read := apoll_read; a_skip := abuf_poll_skip;
       a_pos := abuf_poll_pos; a_len := abuf_poll_len |}.
End ABuf.

(* forwarding: &mut R, Box<R>, Pin<P> *)
Definition afwd (A : areader) : areader :=
  {| ard := fwd (ard A); a_read := fun k s sc => a_read A k s sc; a_skip := fun a s sc => a_skip A a s sc;
     a_pos := fun s sc => a_pos A s sc; a_len := fun s sc => a_len A s sc |}.

(* ------------------------------------------------------------------------------------------------ *)
(* futures_util::io::ReadExact: the future owns the not-yet-filled part of the slice, so its progress
   (k = bytes still wanted, acc = bytes stored) survives a Pending:
     while !buf.is_empty() { n = ready!(poll_read(buf))?; buf = &mut buf[n..]; if n == 0 { return UnexpectedEof } } *)
Fixpoint rx_poll {St : Type} (rd : N -> pf St (res bytes)) (fuel : nat) (k : N) (acc : bytes)
         (s : St) (sc : sch) : poll (res bytes) * (St * (N * bytes)) * sch :=
  if k =? 0 then (Ready (Ok acc), (s, (k, acc)), sc) else
  match fuel with
  | O => (Ready OutOfFuel, (s, (k, acc)), sc)
  | Datatypes.S fuel' =>
    match rd k s sc with
    | (Pending, s', sc') => (Pending, (s', (k, acc)), sc')
    | (Ready (Ok l), s', sc') =>
        if k <? blen l then (Ready (Panic 1), (s', (k, acc)), sc')
        else if blen l =? 0 then (Ready (EIo EUnexpectedEof), (s', (k, acc)), sc')
        else rx_poll rd fuel' (k - blen l) (acc ++ l) s' sc'
    | (Ready e, s', sc') => (Ready e, (s', (k, acc)), sc')
    end
  end.
Definition read_exact_future {St : Type} (rd : N -> pf St (res bytes)) : pf (St * (N * bytes)) (res bytes) :=
  fun st sc => match st with (s, (k, acc)) => rx_poll rd (Datatypes.S (N.to_nat k)) k acc s sc end.

(* one operation of an async reader, driven to completion under a schedule *)
Definition astep (A : areader) (o : op) (s : rst (ard A)) (sc : sch) : option (obs * rst (ard A) * sch) :=
  match o with
  | ORead k => match drive_all (a_read A k) s sc with
               | Some (r, s', sc') => Some (rmap VBytes r, s', sc') | None => None end
  | OReadExact k => match drive_all (read_exact_future (a_read A)) (s, (k, [])) sc with
                    | Some (r, (s', _), sc') => Some (rmap VBytes r, s', sc') | None => None end
  | OSkip a => match drive_all (a_skip A a) s sc with
               | Some (r, s', sc') => Some (rmap (fun _ => VUnit) r, s', sc') | None => None end
  | OPos => match drive_all (a_pos A) s sc with
            | Some (r, s', sc') => Some (rmap VNum r, s', sc') | None => None end
  | OLen => match drive_all (a_len A) s sc with
            | Some (r, s', sc') => Some (rmap VNum r, s', sc') | None => None end
  end.

(* an adaptive client (the sanitizer seen from the reader): which operation comes next depends on the answers *)
Inductive prog (X : Type) := PRet (x : X) | PDo (o : op) (k : obs -> prog X).
Arguments PRet {X} x.
Arguments PDo {X} o k.

Fixpoint run_sync {X : Type} (R : reader) (p : prog X) (s : rst R) : X * rst R :=
  match p with
  | PRet x => (x, s)
  | PDo o k => let (r, s') := rstep R o s in run_sync R (k r) s'
  end.
Fixpoint run_sched {X : Type} (A : areader) (p : prog X) (s : rst (ard A)) (sc : sch) : option (X * rst (ard A) * sch) :=
  match p with
  | PRet x => Some (x, s, sc)
  | PDo o k => match astep A o s sc with
               | Some (r, s', sc') => run_sched A (k r) s' sc'
               | None => None
               end
  end.

(* schedules under which SeekSkipAdapter::poll_stream_len never has its THIRD seek (the one that restores the
   position) answered Pending: the complement of the defect class of finding D7 *)
Fixpoint len_sched_ok (b : list bool) : bool :=
  match b with
  | true :: r => len_sched_ok r                   (* first seek Pending: restart *)
  | false :: r => match r with
                  | true :: r' => len_sched_ok r' (* second seek Pending: restart *)
                  | false :: r' => match r' with
                                   | true :: _ => false   (* restoring seek suspended *)
                                   | _ => true
                                   end
                  | [] => true
                  end
  | [] => true
  end.
