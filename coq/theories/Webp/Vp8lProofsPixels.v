(* C07 / C08 proofs, part 3: the pixel loop.  webpsan's validator only walks the symbols (pixel_idx, and the running maximum
   of the meta prefix image); the specification decodes: it materialises the pixels, copies back references, keeps the
   colour cache.  Invariant of the simulation: every value in the decoded prefix and in the colour cache is 0 or a
   literal pixel seen so far - so it is "good" (predictor image: green <= 13; meta image: group <= the running maximum),
   which is why checking the literals suffices. *)
From Coq Require Import List NArith ZArith PeanoNat Bool Lia ZifyBool ZifyNat ZifyN FMapPositive.
From Coq.Strings Require Import Byte.
From MS Require Import Base.Bytes Base.Outcome Webp.Huffman Webp.HuffmanSpec Webp.HuffmanProofs
  Webp.BitBufSpec Webp.Vp8l Webp.Vp8lSpec Webp.Vp8lProofs Webp.Vp8lProofsCodes.
Import ListNotations.
Open Scope N_scope.
Arguments N.add : simpl never.
Arguments N.sub : simpl never.
Arguments N.mul : simpl never.
Arguments N.div : simpl never.
Arguments N.modulo : simpl never.
Arguments N.pow : simpl never.
Arguments N.eqb : simpl never.
Arguments N.ltb : simpl never.
Arguments N.leb : simpl never.

(* ---------------------------------------------------------------- pixel arrays *)
Lemma succ_pos_inj a b : N.succ_pos a = N.succ_pos b -> a = b.
Proof. intros H. apply (f_equal Npos) in H. rewrite !N.succ_pos_spec in H. lia. Qed.

Lemma pget_pset m i v j : pget (pset m i v) j = if j =? i then v else pget m j.
Proof.
  unfold pget, pset. destruct (N.eqb_spec j i) as [->|Ne].
  - now rewrite PositiveMap.gss.
  - rewrite PositiveMap.gso; [reflexivity|]. intros H. apply succ_pos_inj in H. congruence.
Qed.

Lemma pget_empty i : pget pempty i = 0.
Proof. unfold pget, pempty. now rewrite PositiveMap.gempty. Qed.

Lemma plist_from_in m : forall k i p, In p (plist_from m i k) <-> exists j, i <= j < i + N.of_nat k /\ p = pget m j.
Proof.
  induction k as [|k IH]; intros i p; cbn [plist_from In].
  - split; [contradiction|]. intros (j & Hj & _). lia.
  - rewrite IH. split.
    + intros [<-|(j & Hj & ->)]; [exists i; split; [lia|reflexivity]|exists j; split; [lia|reflexivity]].
    + intros (j & Hj & ->). destruct (N.eq_dec j i) as [->|Ne]; [now left|right]. exists j. split; [lia|reflexivity].
Qed.

Lemma plist_in m n p : In p (plist m n) <-> exists j, j < n /\ p = pget m j.
Proof.
  unfold plist. rewrite plist_from_in. split; intros (j & Hj & E); exists j; split; try exact E; lia.
Qed.

(* ---------------------------------------------------------------- pixel arithmetic *)
Lemma green_of_argb a r g b : g < 256 -> b < 256 -> green_of (argb a r g b) = g.
Proof.
  intros Hg Hb. unfold green_of, argb.
  change (2 ^ 24) with 16777216. change (2 ^ 16) with 65536. change (2 ^ 8) with 256.
  replace (a * 16777216 + r * 65536 + g * 256 + b) with (b + (g + (r + a * 256) * 256) * 256) by lia.
  rewrite N.div_add by lia. rewrite (N.div_small b) by lia. rewrite N.add_0_l.
  rewrite N.mod_add by lia. apply N.mod_small. lia.
Qed.

Lemma group_of_argb a r g b : r < 256 -> g < 256 -> b < 256 -> group_of (argb a r g b) = r * 256 + g.
Proof.
  intros Hr Hg Hb. unfold group_of, argb.
  change (2 ^ 24) with 16777216. change (2 ^ 16) with 65536. change (2 ^ 8) with 256.
  replace (a * 16777216 + r * 65536 + g * 256 + b) with (b + ((g + r * 256) + a * 65536) * 256) by lia.
  rewrite N.div_add by lia. rewrite (N.div_small b) by lia. rewrite N.add_0_l.
  rewrite N.mod_add by lia. rewrite N.mod_small; lia.
Qed.

Lemma lor_shiftl8 r g : g < 256 -> N.lor (N.shiftl r 8) g = r * 256 + g.
Proof.
  intros Hg. rewrite N.shiftl_mul_pow2. change (2 ^ 8) with 256.
  assert (L : N.land (r * 256) g = 0).
  { apply N.bits_inj. intros n. rewrite N.land_spec, N.bits_0.
    destruct (N.ltb_spec n 8) as [Lt|Ge].
    - change 256 with (2 ^ 8). rewrite N.mul_pow2_bits_low by exact Lt. reflexivity.
    - replace (N.testbit g n) with false; [apply andb_false_r|]. symmetry.
      destruct (N.eq_dec g 0) as [->|Nz]; [apply N.bits_0|]. apply N.bits_above_log2.
      apply N.log2_lt_pow2; [lia|]. assert (2 ^ 8 <= 2 ^ n) by (apply N.pow_le_mono_r; lia). change (2 ^ 8) with 256 in H. lia. }
  rewrite <- N.lxor_lor by exact L. symmetry. apply N.add_nocarry_lxor. exact L.
Qed.

Lemma green_of_0 : green_of 0 = 0.
Proof. reflexivity. Qed.
Lemma group_of_0 : group_of 0 = 0.
Proof. reflexivity. Qed.

(* ---------------------------------------------------------------- max_group *)
Lemma max_group_le img acc : (forall p, In p img -> group_of p <= acc) -> max_group img <= acc.
Proof.
  unfold max_group. induction img as [|p img IH]; intros H; cbn [fold_right]; [lia|].
  specialize (IH (fun q Hq => H q (or_intror Hq))). specialize (H p (or_introl eq_refl)). lia.
Qed.
Lemma max_group_ge img p : In p img -> group_of p <= max_group img.
Proof.
  unfold max_group. induction img as [|q img IH]; intros H; [contradiction|]. cbn [fold_right].
  destruct H as [->|H]; [lia|]. specialize (IH H). lia.
Qed.

(* ---------------------------------------------------------------- LZ77 prefix values *)
Lemma lz77_cases c bits : c < 40 ->
  (exists v rest, rd_lz77 c bits = Ok (v, rest) /\ read_lz77 c bits = SOk v rest /\ 1 <= v /\ (length rest <= length bits)%nat) \/
  (rd_lz77 c bits = EParse TruncatedChunk /\ read_lz77 c bits = SFail RTruncated).
Proof.
  intros Hc. unfold rd_lz77, read_lz77. destruct (N.ltb_spec c 4) as [C4|C4].
  - left. exists (c + 1), bits. cbn. repeat split; lia.
  - replace (c <? 40) with true by (symmetry; apply N.ltb_lt; exact Hc).
    assert (Heb : (c - 2) / 2 <= 32) by (apply N.div_le_upper_bound; lia).
    destruct (rd_cases 32 ((c - 2) / 2) bits Heb) as [(e & rest & Em & Es & _ & Hl)|[Em Es]]; unfold sbind; rewrite Em, Es.
    + left. exists ((2 + c mod 2) * 2 ^ ((c - 2) / 2) + e + 1), rest. cbn. repeat split; lia.
    + right. split; reflexivity.
Qed.

(* ---------------------------------------------------------------- the distance map: webpsan's pairs = libwebp's packed table *)
Definition plane_entry_ok (i : nat) : bool :=
  let '(dx, dy) := nth i DISTANCE_MAP (0%Z, 0) in
  let c := nth i code_to_plane 0 in
  (dy =? c / 16) && (Z.eqb dx (8 - Z.of_N (c mod 16))) && (dy <=? 7).

Lemma distance_tables_agree : forallb plane_entry_ok (seq 0 120) = true.
Proof. vm_compute. reflexivity. Qed.

Lemma distance_of_is_plane_code dcode width : 1 <= dcode -> width < 2 ^ 29 ->
  distance_of dcode width = Ok (plane_code_to_distance width dcode).
Proof.
  intros H1 Hw. unfold distance_of, plane_code_to_distance, DISTANCE_MAP_LEN.
  replace (dcode =? 0) with false by (symmetry; apply N.eqb_neq; lia).
  destruct (N.leb_spec dcode 120) as [Le|Gt].
  - replace (120 <? dcode) with false by (symmetry; apply N.ltb_ge; lia).
    pose proof distance_tables_agree as T. rewrite forallb_forall in T.
    specialize (T (N.to_nat (dcode - 1)) ltac:(apply in_seq; lia)). unfold plane_entry_ok in T.
    destruct (nth (N.to_nat (dcode - 1)) DISTANCE_MAP (0%Z, 0)) as [dx dy].
    set (c := nth (N.to_nat (dcode - 1)) code_to_plane 0) in *.
    apply andb_true_iff in T. destruct T as [T T3]. apply andb_true_iff in T. destruct T as [T1 T2].
    apply N.eqb_eq in T1. apply Z.eqb_eq in T2. apply N.leb_le in T3. rewrite <- T1.
    assert (Hm : c mod 16 < 16) by (apply N.mod_lt; lia).
    assert (P32 : 2 ^ 32 = 8 * 2 ^ 29) by reflexivity.
    assert (Hmul : dy * width <= 7 * 2 ^ 29) by (apply N.mul_le_mono; lia).
    replace (2 ^ 32 <=? dy * width) with false by (symmetry; apply N.leb_gt; lia).
    set (s := (Z.of_N (dy * width) + dx)%Z).
    assert (Hs : s = (Z.of_N (dy * width) + 8 - Z.of_N (c mod 16))%Z) by (unfold s; lia).
    replace (2 ^ 32 <=? s)%Z with false by (symmetry; apply Z.leb_gt; change (2 ^ 32)%Z with (Z.of_N (2 ^ 32)); lia).
    rewrite orb_false_r.
    destruct (Z.ltb_spec s 1) as [S1|S1].
    + replace (dy * width + 8 <=? c mod 16) with true by (symmetry; apply N.leb_le; lia). reflexivity.
    + replace (dy * width + 8 <=? c mod 16) with false by (symmetry; apply N.leb_gt; lia). f_equal. lia.
  - replace (120 <? dcode) with true by (symmetry; apply N.ltb_lt; lia). reflexivity.
Qed.

Lemma plane_code_ge1 width dcode : 1 <= dcode -> 1 <= plane_code_to_distance width dcode.
Proof.
  intros H. unfold plane_code_to_distance. destruct (N.ltb_spec 120 dcode); [lia|].
  destruct (N.leb_spec (nth (N.to_nat (dcode - 1)) code_to_plane 0 / 16 * width + 8) (nth (N.to_nat (dcode - 1)) code_to_plane 0 mod 16)); lia.
Qed.

(* ---------------------------------------------------------------- the simulation of one sub-image *)
Section PixelLoop.
Variable pu : purpose.
Variable ro : role.
Hypothesis Hrole : match ro, pu with
                   | RPredictor, PPredictor | RPlain, PData | RMeta, PMeta => True
                   | _, _ => False
                   end.
Variable g : group.
Variable cs : codes.
Variables cache_bits cache_len width total : N.
Hypothesis HG : R_group cache_len g cs.
Hypothesis Hcl : cache_len = cache_size cache_bits.
Hypothesis Hw : width < 2 ^ 29.

Definition good (acc p : N) : Prop :=
  match pu with PPredictor => green_of p <= 13 | PData => True | PMeta => group_of p <= acc end.
Definition Inv (acc : N) (st : dstate) : Prop :=
  (forall i, good acc (pget (d_px st) i)) /\ (forall i, good acc (pget (d_cache st) i)).
Definition Att (acc : N) (st : dstate) : Prop :=
  match pu with
  | PMeta => acc = 0 \/ exists i, i < d_n st /\ group_of (pget (d_px st) i) = acc
  | _ => True
  end.
Definition FinalR (acc : N) (img : list N) : Prop :=
  match pu with PMeta => max_group img = acc | _ => True end.

Notation DP todo st bits := (decode_pixels true todo pu cs cache_bits width total st bits).

Lemma good_mono acc acc' p : acc <= acc' -> good acc p -> good acc' p.
Proof. unfold good. destruct pu; auto. lia. Qed.
Lemma good_0 acc : good acc 0.
Proof. unfold good. destruct pu; [rewrite green_of_0; lia|exact I|rewrite group_of_0; lia]. Qed.
Lemma pixel_ok_good acc p : good acc p -> pixel_ok true pu p = true.
Proof. unfold good, pixel_ok, rule_predictor. destruct pu; auto. intros H. cbn. apply N.leb_le. exact H. Qed.

Lemma Inv_mono acc acc' st : acc <= acc' -> Inv acc st -> Inv acc' st.
Proof. intros H [A B]. split; intros i; eapply good_mono; eauto. Qed.

Lemma Inv_emit acc st p d c : Inv acc st -> good acc p -> Inv acc (emit cache_bits st p d c).
Proof.
  intros [A B] Hp. unfold emit. split; cbn [d_px d_cache]; intros i.
  - rewrite pget_pset. destruct (i =? d_n st); auto.
  - unfold cache_insert. destruct (cache_bits =? 0); [apply B|]. rewrite pget_pset. destruct (i =? _); auto.
Qed.

Lemma emit_px st p d c i : pget (d_px (emit cache_bits st p d c)) i = if i =? d_n st then p else pget (d_px st) i.
Proof. unfold emit. cbn [d_px]. apply pget_pset. Qed.

(* finishing a back reference: the pending copies produce good pixels and read nothing *)
Lemma copy_steps acc : forall c todo st bits, d_copy st = N.of_nat c -> (c <= todo)%nat -> Inv acc st ->
  exists st', DP todo st bits = DP (todo - c) st' bits /\ d_copy st' = 0 /\ d_n st' = d_n st + N.of_nat c /\ Inv acc st' /\
              (forall i, i < d_n st -> pget (d_px st') i = pget (d_px st) i).
Proof.
  induction c as [|c IH]; intros todo st bits Hc Hle HI.
  - exists st. rewrite Nat.sub_0_r. split; [reflexivity|split; [lia|split; [lia|split; [exact HI|auto]]]].
  - destruct todo as [|todo]; [lia|]. cbn [decode_pixels].
    replace (0 <? d_copy st) with true by (symmetry; apply N.ltb_lt; lia).
    set (p := pget (d_px st) (d_n st - d_dist st)).
    assert (Hp : good acc p) by (apply HI).
    unfold require. rewrite (pixel_ok_good acc p Hp). rewrite sbind_ret.
    destruct (IH todo (emit cache_bits st p (d_dist st) (d_copy st - 1)) bits) as (st' & E & C0 & Hn & HI' & Hpre).
    + unfold emit. cbn [d_copy]. lia.
    + lia.
    + apply Inv_emit; assumption.
    + exists st'. split; [exact E|]. split; [exact C0|]. split; [unfold emit in Hn; cbn [d_n] in Hn; lia|]. split; [exact HI'|].
      intros i Hi. rewrite Hpre by (unfold emit; cbn [d_n]; lia). rewrite emit_px.
      replace (i =? d_n st) with false by (symmetry; apply N.eqb_neq; lia). reflexivity.
Qed.

(* all four literal codes are zero-bit codes: the rest of the image is the same literal, read from no bits *)
Lemma fill_literal acc gs rs bs as_ :
  (forall bits, table_decode (c_green cs) bits = Some (gs, bits)) -> (forall bits, table_decode (c_red cs) bits = Some (rs, bits)) ->
  (forall bits, table_decode (c_blue cs) bits = Some (bs, bits)) -> (forall bits, table_decode (c_alpha cs) bits = Some (as_, bits)) ->
  gs < 256 -> good acc (argb as_ rs gs bs) ->
  forall todo st bits, d_copy st = 0 -> Inv acc st ->
  exists st', DP todo st bits = DP 0 st' bits /\ d_copy st' = 0 /\ d_n st' = d_n st + N.of_nat todo /\ Inv acc st' /\
              (forall i, i < d_n st -> pget (d_px st') i = pget (d_px st) i).
Proof.
  intros Tg Tr Tb Ta Hgs Hp. induction todo as [|todo IH]; intros st bits Hc HI.
  - exists st. split; [reflexivity|split; [exact Hc|split; [lia|split; [exact HI|auto]]]].
  - cbn [decode_pixels]. rewrite Hc. change (0 <? 0) with false. cbv iota.
    unfold sbind at 1. unfold read_symbol at 1. rewrite Tg.
    replace (gs <? 256) with true by (symmetry; apply N.ltb_lt; exact Hgs).
    unfold sbind at 1. unfold read_symbol at 1. rewrite Tr.
    unfold sbind at 1. unfold read_symbol at 1. rewrite Tb.
    unfold sbind at 1. unfold read_symbol at 1. rewrite Ta.
    unfold require. rewrite (pixel_ok_good acc _ Hp). rewrite sbind_ret.
    destruct (IH (emit cache_bits st (argb as_ rs gs bs) 0 0) bits) as (st' & E & C0 & Hn & HI' & Hpre).
    + reflexivity.
    + apply Inv_emit; assumption.
    + exists st'. split; [exact E|]. split; [exact C0|]. split; [unfold emit in Hn; cbn [d_n] in Hn; lia|]. split; [exact HI'|].
      intros i Hi. rewrite Hpre by (unfold emit; cbn [d_n]; lia). rewrite emit_px.
      replace (i =? d_n st) with false by (symmetry; apply N.eqb_neq; lia). reflexivity.
Qed.

(* the green code is a zero-bit code naming a colour-cache symbol: the rest of the image are cache look-ups *)
Lemma fill_cache acc gs :
  (forall bits, table_decode (c_green cs) bits = Some (gs, bits)) -> 256 + 24 <= gs ->
  forall todo st bits, d_copy st = 0 -> Inv acc st ->
  exists st', DP todo st bits = DP 0 st' bits /\ d_copy st' = 0 /\ d_n st' = d_n st + N.of_nat todo /\ Inv acc st' /\
              (forall i, i < d_n st -> pget (d_px st') i = pget (d_px st) i).
Proof.
  intros Tg Hgs. induction todo as [|todo IH]; intros st bits Hc HI.
  - exists st. split; [reflexivity|split; [exact Hc|split; [lia|split; [exact HI|auto]]]].
  - cbn [decode_pixels]. rewrite Hc. change (0 <? 0) with false. cbv iota.
    unfold sbind at 1. unfold read_symbol at 1. rewrite Tg.
    replace (gs <? 256) with false by (symmetry; apply N.ltb_ge; lia).
    replace (gs <? 256 + 24) with false by (symmetry; apply N.ltb_ge; lia).
    set (p := pget (d_cache st) (gs - (256 + 24))).
    assert (Hp : good acc p) by (apply HI).
    unfold require. rewrite (pixel_ok_good acc _ Hp). rewrite sbind_ret.
    destruct (IH (emit cache_bits st p 0 0) bits) as (st' & E & C0 & Hn & HI' & Hpre).
    + reflexivity.
    + apply Inv_emit; assumption.
    + exists st'. split; [exact E|]. split; [exact C0|]. split; [unfold emit in Hn; cbn [d_n] in Hn; lia|]. split; [exact HI'|].
      intros i Hi. rewrite Hpre by (unfold emit; cbn [d_n]; lia). rewrite emit_px.
      replace (i =? d_n st) with false by (symmetry; apply N.eqb_neq; lia). reflexivity.
Qed.

(* the end of a sub-image *)
Lemma final_rel acc st : Inv acc st -> Att acc st -> FinalR acc (plist (d_px st) (d_n st)).
Proof.
  intros [A _] At. unfold FinalR, Att, good in *. destruct pu; try exact I.
  apply N.le_antisymm.
  - apply max_group_le. intros p Hp. apply plist_in in Hp. destruct Hp as (j & _ & ->). apply A.
  - destruct At as [->|(i & Hi & <-)]; [lia|]. apply max_group_ge. apply plist_in. exists i. auto.
Qed.

(* a zero-bit code *)
Lemma leaf_table bound t tbl : R_tbl bound t tbl -> ht_longest t = 0 ->
  exists s, ht_tree t = FLeaf s /\ forall bits, table_decode tbl bits = Some (s, bits).
Proof.
  intros (D & L & _) H0. apply L in H0. destruct H0 as [s Hs]. exists s. split; [exact Hs|].
  intros bits. rewrite <- D, Hs. reflexivity.
Qed.

Lemma Att_emit_same acc st p d c : Att acc st -> Att acc (emit cache_bits st p d c).
Proof.
  unfold Att. destruct pu; auto. intros [->|(i & Hi & E)]; [now left|right]. exists i. split; [unfold emit; cbn [d_n]; lia|].
  rewrite emit_px. replace (i =? d_n st) with false by (symmetry; apply N.eqb_neq; lia). exact E.
Qed.

Lemma Att_prefix acc st st' : Att acc st -> d_n st <= d_n st' -> (forall i, i < d_n st -> pget (d_px st') i = pget (d_px st) i) -> Att acc st'.
Proof.
  unfold Att. destruct pu; auto. intros [->|(i & Hi & E)] Hn Hpre; [now left|right]. exists i. split; [lia|]. rewrite Hpre by exact Hi. exact E.
Qed.

Lemma Att_emit_new acc acc' st p d c : Att acc st -> acc' = acc \/ group_of p = acc' -> Att acc' (emit cache_bits st p d c).
Proof.
  intros HA [->|E]; [now apply Att_emit_same|]. unfold Att. destruct pu; auto. right. exists (d_n st).
  split; [unfold emit; cbn [d_n]; lia|]. rewrite emit_px, N.eqb_refl. exact E.
Qed.

(* the closure of EntropyCodedImage::read on a literal = the specification's rule on the materialised pixel *)
Lemma on_pixel_cases acc sym rs bs as_ : sym < 256 -> rs < 256 -> bs < 256 ->
  (exists acc', on_pixel ro acc sym rs = Ok acc' /\ acc <= acc' /\ good acc' (argb as_ rs sym bs) /\
                (acc' = acc \/ group_of (argb as_ rs sym bs) = acc')) \/
  (exists e, on_pixel ro acc sym rs = EParse e /\ pixel_ok true pu (argb as_ rs sym bs) = false).
Proof.
  intros Hs Hr Hb. unfold on_pixel, good, pixel_ok, rule_predictor.
  destruct ro, pu; try contradiction.
  - rewrite (green_of_argb as_ rs sym bs Hs Hb). destruct (N.leb_spec sym 13).
    + left. exists acc. repeat split; auto; lia.
    + right. eexists. split; [reflexivity|]. reflexivity.
  - left. exists acc. repeat split; auto; lia.
  - rewrite (group_of_argb as_ rs sym bs Hr Hs Hb), (lor_shiftl8 rs sym Hs). left. eexists. split; [reflexivity|].
    split; [lia|]. split; [lia|]. lia.
Qed.

Lemma sim_done acc st bits : d_n st = total -> Inv acc st -> Att acc st -> sim FinalR (mret acc bits) (DP 0 st bits).
Proof.
  intros Hn HI HA. cbn. eexists. split; [reflexivity|]. apply final_rel; assumption.
Qed.

Ltac mstep E := unfold mbind at 1; rewrite E; cbv beta match.
Ltac sstep E := unfold sbind at 1; rewrite E; cbv beta match.
Ltac both_fail := cbn; eexists; reflexivity.

Lemma sim_pixel_loop : forall fuel idx acc bits st todo,
  idx <= total -> N.of_nat todo = total - idx -> d_n st = idx -> d_copy st = 0 -> Inv acc st -> Att acc st ->
  sim FinalR (pixel_loop fuel ro g cache_len width total idx acc bits) (DP todo st bits).
Proof.
  destruct HG as (HGg & HGr & HGb & HGa & HGd).
  induction fuel as [|fuel IH]; intros idx acc bits st todo Hidx Htodo Hn Hc HI HA; cbn [pixel_loop];
    (destruct (N.ltb_spec idx total) as [Lt|Ge]; cbn [negb];
     [|assert (todo = 0%nat) by lia; subst todo; apply sim_done; [lia|assumption|assumption]]).
  - exact I.
  - destruct todo as [|todo]; [lia|]. cbn [decode_pixels]. rewrite Hc. change (0 <? 0) with false. cbv beta match.
    destruct (huff_cases _ _ _ bits HGg) as [(sym & b1 & Em & Es & Hsym & _)|[Em Es]]; mstep Em; sstep Es; [|both_fail].
    destruct (N.leb_spec sym 255) as [Lit|NotLit].
    + (* literal *)
      replace (sym <? 256) with true by (symmetry; apply N.ltb_lt; lia).
      destruct (huff_cases _ _ _ b1 HGr) as [(rs & b2 & Em2 & Es2 & Hrs & _)|[Em2 Es2]]; mstep Em2; sstep Es2; [|both_fail].
      destruct (huff_cases _ _ _ b2 HGb) as [(bs & b3 & Em3 & Es3 & Hbs & _)|[Em3 Es3]]; mstep Em3; sstep Es3; [|both_fail].
      destruct (huff_cases _ _ _ b3 HGa) as [(as_ & b4 & Em4 & Es4 & Has & _)|[Em4 Es4]]; mstep Em4; sstep Es4; [|both_fail].
      destruct (on_pixel_cases acc sym rs bs as_ ltac:(lia) Hrs Hbs) as [(acc' & Eo & Hle & Hgood & Hatt)|(e & Eo & Hbad)];
        unfold mbind at 1; unfold mlift; rewrite Eo; cbv beta match; unfold require.
      2:{ rewrite Hbad. both_fail. }
      rewrite (pixel_ok_good acc' _ Hgood). rewrite sbind_ret.
      set (p := argb as_ rs sym bs) in *.
      set (st1 := emit cache_bits st p 0 0).
      assert (HI1 : Inv acc' st1) by (apply Inv_emit; [eapply Inv_mono; eassumption|exact Hgood]).
      assert (HA1 : Att acc' st1) by (apply Att_emit_new with (acc := acc); assumption).
      assert (Hn1 : d_n st1 = idx + 1) by (unfold st1, emit; cbn [d_n]; lia).
      destruct (N.eqb_spec (green_readahead g + arb_readahead g) 0) as [Z|NZ].
      * (* all four codes are zero-bit codes: the literal fills the rest of the image *)
        unfold green_readahead, arb_readahead in Z.
        destruct (leaf_table _ _ _ HGg ltac:(lia)) as (sg & _ & Tg).
        destruct (leaf_table _ _ _ HGr ltac:(lia)) as (sr & _ & Tr).
        destruct (leaf_table _ _ _ HGb ltac:(lia)) as (sb & _ & Tb).
        destruct (leaf_table _ _ _ HGa ltac:(lia)) as (sa & _ & Ta).
        unfold read_symbol in Es, Es2, Es3, Es4. rewrite Tg in Es. rewrite Tr in Es2. rewrite Tb in Es3. rewrite Ta in Es4.
        inversion Es; inversion Es2; inversion Es3; inversion Es4; subst sg sr sb sa.
        destruct (fill_literal acc' sym rs bs as_ Tg Tr Tb Ta ltac:(lia) Hgood todo st1 b4 eq_refl HI1) as (st2 & E2 & C2 & N2 & HI2 & Hpre).
        rewrite E2. apply IH; try assumption; try lia.
        eapply Att_prefix; [exact HA1|lia|exact Hpre].
      * apply IH; try assumption; try lia. reflexivity.
    + replace (sym <? 256) with false by (symmetry; apply N.ltb_ge; lia).
      destruct (N.leb_spec sym 279) as [Back|Cache].
      * (* back reference *)
        replace (sym <? 256 + 24) with true by (symmetry; apply N.ltb_lt; lia).
        unfold read_backref. rewrite !mbind_assoc.
        destruct (lz77_cases (sym - 256) b1 ltac:(lia)) as [(blen & b2 & Em2 & Es2 & Hblen & _)|[Em2 Es2]]; mstep Em2; sstep Es2; [|both_fail].
        rewrite ?mbind_assoc.
        destruct (huff_cases _ _ _ b2 HGd) as [(dsym & b3 & Em3 & Es3 & Hdsym & _)|[Em3 Es3]]; mstep Em3; sstep Es3; [|both_fail].
        rewrite ?mbind_assoc.
        destruct (lz77_cases dsym b3 Hdsym) as [(dcode & b4 & Em4 & Es4 & Hdcode & _)|[Em4 Es4]]; mstep Em4; sstep Es4; [|both_fail].
        rewrite ?mbind_assoc.
        unfold mbind at 1. unfold mlift. rewrite (distance_of_is_plane_code dcode width Hdcode Hw). cbv beta match.
        rewrite mbind_ret. cbv beta match.
        set (dist := plane_code_to_distance width dcode).
        unfold require, rule_backref_start, rule_backref_end. rewrite Hn.
        destruct (N.leb_spec dist idx) as [D1|D1]; cbn [negb]; [|both_fail]. rewrite sbind_ret.
        destruct (N.leb_spec blen (total - idx)) as [D2|D2]; cbn [negb]; [|both_fail]. rewrite sbind_ret.
        set (p := pget (d_px st) (idx - dist)).
        assert (Hp : good acc p) by apply HI.
        rewrite (pixel_ok_good acc p Hp). rewrite sbind_ret.
        set (st1 := emit cache_bits st p dist (blen - 1)).
        assert (HI1 : Inv acc st1) by (apply Inv_emit; assumption).
        assert (HA1 : Att acc st1) by (apply Att_emit_same; assumption).
        destruct (copy_steps acc (N.to_nat (blen - 1)) todo st1 b4) as (st2 & E2 & C2 & N2 & HI2 & Hpre).
        { unfold st1, emit. cbn [d_copy]. lia. }
        { lia. }
        { exact HI1. }
        rewrite E2. unfold st1, emit in N2. cbn [d_n] in N2.
        apply IH; try assumption; try lia.
        eapply Att_prefix; [exact HA1| |exact Hpre]. unfold st1, emit. cbn [d_n]. lia.
      * (* colour-cache symbol *)
        replace (sym <? 256 + 24) with false by (symmetry; apply N.ltb_ge; lia).
        replace (sym - 280 <? cache_len) with true by (symmetry; apply N.ltb_lt; lia). cbn [negb].
        set (p := pget (d_cache st) (sym - (256 + 24))).
        assert (Hp : good acc p) by apply HI.
        unfold require. rewrite (pixel_ok_good acc p Hp). rewrite sbind_ret.
        set (st1 := emit cache_bits st p 0 0).
        assert (HI1 : Inv acc st1) by (apply Inv_emit; assumption).
        assert (HA1 : Att acc st1) by (apply Att_emit_same; assumption).
        assert (Hn1 : d_n st1 = idx + 1) by (unfold st1, emit; cbn [d_n]; lia).
        destruct (N.eqb_spec (green_readahead g) 0) as [Z|NZ].
        -- unfold green_readahead in Z. destruct (leaf_table _ _ _ HGg Z) as (sg & _ & Tg).
           unfold read_symbol in Es. rewrite Tg in Es. inversion Es; subst sg.
           destruct (fill_cache acc sym Tg ltac:(lia) todo st1 b1 eq_refl HI1) as (st2 & E2 & C2 & N2 & HI2 & Hpre).
           rewrite E2. apply IH; try assumption; try lia.
           eapply Att_prefix; [exact HA1|lia|exact Hpre].
        -- apply IH; try assumption; try lia. reflexivity.
Qed.

End PixelLoop.
