(* C06 foundation: the ChunkReader level machinery of Webp/Container.v on the ideal cursor, in closed form.

   A level (cstate, stack) at cursor position p is presented as "a position inside nested regions":
     - the enclosing stack is [mkstack fr p] for a list [fr] of frames (header, absolute end of that body):
       an enclosing body with end e is [Body h (e - p)] while p < e and [Padding h] once p = e;
     - the level's own state is [AIdle], [APeek h] (a header has been read ahead) or [AIn h e] (inside the chunk
       whose body ends at e; Body while p < e, Padding at p = e).
   [L a fr p] is the concrete level.  For every ChunkReader operation the lemmas below say what it returns and how
   far it moves in terms of the bytes of [inp], as a decision: either the stated precondition holds and the run is
   the stated success, or it does not and the run is a parse error (never a panic). *)
From Coq Require Import List NArith Bool Lia ZifyBool ZifyNat ZifyN.
From Coq.Strings Require Import Byte.
From MS Require Import Base.Bytes Base.Outcome Base.Prog Webp.Prim Webp.Chunks Webp.Container.
Import ListNotations.
Open Scope N_scope.
Arguments N.add : simpl never.
Arguments N.sub : simpl never.
Arguments N.mul : simpl never.
Arguments N.div : simpl never.
Arguments N.modulo : simpl never.
Arguments N.pow : simpl never.
Arguments N.eqb : simpl never.
Arguments N.ltb : simpl never.
Arguments N.leb : simpl never.
Arguments N.min : simpl never.
Arguments N.max : simpl never.
Arguments N.odd : simpl never.
Arguments N.land : simpl never.

(* ================================================================================================ *)
(* 1. running a bind *)

Definition ebind {S A B} (x : res A * S) (f : A -> S -> res B * S) : res B * S :=
  match x with
  | (Ok a, s) => f a s
  | (EParse e, s) => (EParse e, s)
  | (EIo e, s) => (EIo e, s)
  | (Panic n, s) => (Panic n, s)
  | (OutOfFuel, s) => (OutOfFuel, s)
  end.

Lemma run_pbind {A B} (R : reader) (p : prog A) (f : A -> prog B) : forall s,
  run R (pbind p f) s = ebind (run R p s) (fun a s' => run R (f a) s').
Proof.
  induction p as [r | o k IH]; intros s.
  - destruct r; reflexivity.
  - cbn [pbind run]. destruct (rstep R o s) as [a s']. apply IH.
Qed.

Lemma run_ret {A} (R : reader) (r : res A) s : run R (Ret r) s = (r, s).
Proof. reflexivity. Qed.
Lemma run_lift {A} (R : reader) (r : res A) s : run R (lift r) s = (r, s).
Proof. reflexivity. Qed.

(* an outcome that is a parse error (somewhere at or after p) *)
Definition perr_at {A} (x : res A * N) : Prop := exists e q, x = (EParse e, q).
(* an outcome that is an error of the reader or of the format, not a panic and not fuel *)
Definition fails {A} (x : res A * N) : Prop := (exists e q, x = (EParse e, q)) \/ (exists e q, x = (EIo e, q)).

Lemma perr_fails {A} (x : res A * N) : perr_at x -> fails x.
Proof. intros H. now left. Qed.
Lemma perr_not_ok {A} (x : res A * N) a q : perr_at x -> x <> (Ok a, q).
Proof. intros (e & q' & ->). discriminate. Qed.
Lemma fails_not_ok {A} (x : res A * N) a q : fails x -> x <> (Ok a, q).
Proof. intros [(e & q' & ->) | (e & q' & ->)]; discriminate. Qed.
Lemma ebind_perr {A B} (x : res A * N) (f : A -> N -> res B * N) : perr_at x -> perr_at (ebind x f).
Proof. intros (e & q & ->). exists e, q. reflexivity. Qed.
Lemma ebind_fails {A B} (x : res A * N) (f : A -> N -> res B * N) : fails x -> fails (ebind x f).
Proof. intros [(e & q & ->) | (e & q & ->)]; [left | right]; exists e, q; reflexivity. Qed.

(* ================================================================================================ *)
(* 2. the frames of a level *)

Definition frame := (chdr * N)%type.          (* header of an enclosing chunk, absolute end of its body *)
Definition mkst (p : N) (f : frame) : cstate :=
  if snd f - p =? 0 then Padding (fst f) else Body (fst f) (snd f - p).
Definition mkstack (fr : list frame) (p : N) : stack := map (mkst p) fr.

Definition fits (fr : list frame) (q : N) : Prop := Forall (fun f : frame => q <= snd f) fr.
Definition fitsb (fr : list frame) (q : N) : bool := forallb (fun f : frame => q <=? snd f) fr.

Lemma fitsb_spec fr q : fitsb fr q = true <-> fits fr q.
Proof.
  unfold fitsb, fits. rewrite forallb_forall, Forall_forall.
  split; intros H f Hf; specialize (H f Hf); lia.
Qed.
Lemma fitsb_false fr q : fitsb fr q = false <-> ~ fits fr q.
Proof. rewrite <- fitsb_spec. destruct (fitsb fr q); split; congruence. Qed.
Lemma fits_le fr q q' : fits fr q -> q' <= q -> fits fr q'.
Proof. unfold fits. rewrite !Forall_forall. intros H Hq f Hf. specialize (H f Hf). lia. Qed.
Lemma fits_nil q : fits [] q.
Proof. constructor. Qed.
Lemma fits_cons f fr q : fits (f :: fr) q <-> q <= snd f /\ fits fr q.
Proof. unfold fits. split; [intros H; inversion H; auto | intros [H1 H2]; constructor; auto]. Qed.
Lemma fits_dec fr q : {fits fr q} + {~ fits fr q}.
Proof. destruct (fitsb fr q) eqn:E; [left; now apply fitsb_spec | right; now apply fitsb_false]. Qed.

(* what the enclosing bodies can still deliver *)
Fixpoint lim (fr : list frame) (p : N) : option N :=
  match fr with
  | [] => None
  | f :: r => Some (match lim r p with Some k => N.min (snd f - p) k | None => snd f - p end)
  end.

Lemma avail_mkstack fr p : avail (mkstack fr p) = Ok (lim fr p).
Proof.
  induction fr as [|f r IH]; [reflexivity|].
  cbn [mkstack map lim]. unfold mkst at 1. destruct (snd f - p =? 0) eqn:E.
  - cbn [avail]. f_equal. f_equal. destruct (lim r p); lia.
  - cbn [avail]. fold (mkstack r p). rewrite IH. cbn [rbind]. reflexivity.
Qed.

Lemma lim_fits fr p n : fits fr p ->
  match lim fr p with None => fr = [] | Some k => (n <= k <-> fits fr (p + n)) end.
Proof.
  induction fr as [|f r IH]; intros H; [reflexivity|].
  apply fits_cons in H. destruct H as [H1 H2]. specialize (IH H2).
  cbn [lim]. rewrite fits_cons. destruct (lim r p) as [k|].
  - split; [intros Hn; split; [lia | apply IH; lia] | intros [Ha Hb]; apply IH in Hb; lia].
  - subst r. split; [intros Hn; split; [lia | apply fits_nil] | intros [Ha _]; lia].
Qed.

Lemma consume_mkstack fr p n : fits fr (p + n) -> consume n (mkstack fr p) = mkstack fr (p + n).
Proof.
  induction fr as [|f r IH]; intros H; [reflexivity|].
  apply fits_cons in H. destruct H as [H1 H2].
  cbn [mkstack map]. unfold mkst at 1. destruct (snd f - p =? 0) eqn:E.
  - assert (n = 0) by lia. subst n. rewrite N.add_0_r. cbn [consume].
    unfold mkst at 2. rewrite E. reflexivity.
  - cbn [consume]. fold (mkstack r p). rewrite (IH H2). fold (mkstack r (p + n)).
    f_equal. unfold mkst. replace (snd f - (p + n)) with (snd f - p - n) by lia. reflexivity.
Qed.

(* ================================================================================================ *)
(* 3. the level states *)

Inductive astate := AIdle (n : bytes) | APeek (h : chdr) | AIn (h : chdr) (e : N).
Definition conc (a : astate) (p : N) : cstate :=
  match a with AIdle n => Idle n | APeek h => Peeking h | AIn h e => mkst p (h, e) end.
Definition L (a : astate) (fr : list frame) (p : N) : lv := (conc a p, mkstack fr p).

Definition pad_of (h : chdr) : N := if N.odd (ch_len h) then 1 else 0.
(* the state and the position after the lazy padding check *)
Definition nst (a : astate) (p : N) : astate :=
  match a with AIn h e => if e <=? p then AIdle (ch_name h) else a | _ => a end.
Definition npos (a : astate) (p : N) : N :=
  match a with AIn h e => if e <=? p then p + pad_of h else p | _ => p end.
Definition settled (a : astate) (p : N) : Prop := match a with AIn _ e => p < e | _ => True end.

Lemma child_L h e fr p : child (L (AIn h e) fr p) = L (AIdle (ch_name h)) ((h, e) :: fr) p.
Proof.
  unfold child, L. cbn [fst snd conc mkstack map]. f_equal.
  unfold mkst. cbn [fst snd]. destruct (e - p =? 0); reflexivity.
Qed.
Lemma parent_L a h e fr p : parent (L a ((h, e) :: fr) p) = Ok (L (AIn h e) fr p).
Proof. reflexivity. Qed.
Lemma parent_L_nil a p : parent (L a [] p) = Panic 24.
Proof. reflexivity. Qed.

Lemma conc_settled_In h e p : p < e -> conc (AIn h e) p = Body h (e - p).
Proof. intros H. cbn [conc]. unfold mkst. cbn [fst snd]. destruct (e - p =? 0) eqn:E; [lia | reflexivity]. Qed.
Lemma conc_done_In h e p : e <= p -> conc (AIn h e) p = Padding h.
Proof. intros H. cbn [conc]. unfold mkst. cbn [fst snd]. destruct (e - p =? 0) eqn:E; [reflexivity | lia]. Qed.

Lemma fst_L a fr p : fst (L a fr p) = conc a p.
Proof. reflexivity. Qed.
Lemma snd_L a fr p : snd (L a fr p) = mkstack fr p.
Proof. reflexivity. Qed.

Section Cur.
Variables (inp : input) (lenient : bool) (ms : N).
Notation R := (cursor inp lenient ms).
Definition exec {A} (p : prog A) (pos : N) : res A * N := run R p pos.

Lemma exec_bind {A B} (p : prog A) (f : A -> prog B) s :
  exec (pbind p f) s = ebind (exec p s) (fun a s' => exec (f a) s').
Proof. apply (run_pbind R). Qed.

(* ------------------------------------------------------------------ the cursor's answers *)
Lemma exec_read_exact n eof p :
  exec (do_read_exact n eof) p =
  if (n =? 0) || (p + n <=? ilen inp) then (Ok (iread inp p (N.to_nat n)), p + n)
  else (match eof with Some pe => EParse pe | None => EIo EUnexpectedEof end, N.max p (ilen inp)).
Proof.
  unfold exec, do_read_exact. cbn [run rstep cursor cursor_step].
  destruct ((n =? 0) || (p + n <=? ilen inp)); [reflexivity|].
  destruct eof; reflexivity.
Qed.

Definition skip_ok (p n : N) : Prop := if lenient then p + n <= ms else p + n <= ilen inp.
Lemma exec_skip n eof p :
  (skip_ok p n /\ exec (do_skip n eof) p = (Ok tt, p + n)) \/
  (~ skip_ok p n /\ fails (exec (do_skip n eof) p)).
Proof.
  unfold skip_ok, exec, do_skip. cbn [run rstep cursor cursor_step]. destruct lenient.
  - destruct (p + n <=? ms) eqn:E; [left; split; [lia | reflexivity]|].
    right. split; [lia|]. right.
    destruct ((I64MAX' <? n) && (U64MAX' <? p + n)); eexists _, _; reflexivity.
  - destruct (p + n <=? ilen inp) eqn:E; [left; split; [lia | reflexivity]|].
    right. split; [lia|]. destruct eof; [left | right]; eexists _, _; reflexivity.
Qed.
Lemma exec_fill_empty p : exec do_fill_empty p = (Ok (ilen inp <=? p), p).
Proof. reflexivity. Qed.
Lemma exec_pos p : exec do_pos p = (Ok p, p).
Proof. reflexivity. Qed.
Lemma exec_len p : exec do_len p = (Ok (ilen inp), p).
Proof. reflexivity. Qed.
Lemma exec_alloc n p : exec (do_alloc n) p = (Ok tt, p).
Proof. reflexivity. Qed.
Lemma exec_read_upto n p :
  exec (do_read_upto n) p =
  (Ok (iread inp p (N.to_nat (N.min n (ilen inp - p)))), p + N.min n (ilen inp - p)).
Proof. reflexivity. Qed.
Lemma exec_ret {A} (r : res A) p : exec (Ret r) p = (r, p).
Proof. reflexivity. Qed.
Lemma exec_lift {A} (r : res A) p : exec (lift r) p = (r, p).
Proof. reflexivity. Qed.

(* the ideal cursor never moves backwards *)
Lemma exec_mono {A} (pr : prog A) : forall s r s', exec pr s = (r, s') -> s <= s'.
Proof.
  induction pr as [r0 | o k IH]; intros s r s' H.
  - unfold exec in H. cbn [run] in H. injection H as _ <-. lia.
  - unfold exec in H. cbn [run] in H. destruct (rstep R o s) as [a s1] eqn:E.
    apply IH in H. cbn [rstep cursor] in E. unfold cursor_step in E.
    destruct o; try (injection E as _ <-; lia).
    + destruct ((n =? 0) || (s + n <=? ilen inp)); injection E as _ <-; lia.
    + destruct lenient.
      * destruct (s + n <=? ms); [injection E as _ <-; lia|].
        destruct ((I64MAX' <? n) && (U64MAX' <? s + n)); injection E as _ <-; lia.
      * destruct (s + n <=? ilen inp); injection E as _ <-; lia.
Qed.

Lemma length_iread' : forall n pos, length (iread inp pos n) = n.
Proof. induction n as [|n IH]; intros pos; cbn [iread length]; [reflexivity | now rewrite IH]. Qed.

(* ------------------------------------------------------------------ the source of a level *)
(* reading n > 0 bytes through the enclosing bodies: inside every body and inside the input *)
Lemma src_read_exact_spec n fr p : 0 < n -> fits fr p ->
  let x := exec (src_read_exact n TRUNC (mkstack fr p)) p in
  (fits fr (p + n) /\ p + n <= ilen inp /\ x = (Ok (iread inp p (N.to_nat n), mkstack fr (p + n)), p + n))
  \/ (~ (fits fr (p + n) /\ p + n <= ilen inp) /\ exists q, x = (EParse TruncatedChunk, q)).
Proof.
  intros Hn Hf x. subst x. unfold src_read_exact.
  rewrite exec_bind, exec_lift, avail_mkstack. cbn [ebind].
  pose proof (lim_fits fr p n Hf) as HL. destruct (lim fr p) as [k|].
  - destruct (n <=? k) eqn:E.
    + assert (Hfit : fits fr (p + n)) by (apply HL; lia).
      rewrite exec_bind, exec_read_exact. replace (n =? 0) with false by lia. cbn [orb].
      destruct (p + n <=? ilen inp) eqn:E2; cbn [ebind].
      * left. split; [exact Hfit|]. split; [lia|]. rewrite exec_ret, consume_mkstack by exact Hfit. reflexivity.
      * right. split; [lia|]. eexists. reflexivity.
    + right. split; [intros [Hc _]; apply HL in Hc; lia|].
      rewrite exec_bind. destruct (k =? 0).
      * rewrite exec_ret. cbn [ebind]. unfold io_err, TRUNC. rewrite exec_ret. eexists. reflexivity.
      * rewrite exec_read_exact. destruct ((k =? 0) || (p + k <=? ilen inp)); cbn [ebind].
        -- unfold io_err, TRUNC. rewrite exec_ret. eexists. reflexivity.
        -- eexists. reflexivity.
  - subst fr. rewrite exec_bind, exec_read_exact. replace (n =? 0) with false by lia. cbn [orb].
    destruct (p + n <=? ilen inp) eqn:E2; cbn [ebind].
    + left. split; [apply fits_nil|]. split; [lia|]. rewrite exec_ret. reflexivity.
    + right. split; [lia|]. eexists. reflexivity.
Qed.

Lemma src_skip_spec n fr p : fits fr p ->
  let x := exec (src_skip n TRUNC (mkstack fr p)) p in
  (fits fr (p + n) /\ skip_ok p n /\ x = (Ok (mkstack fr (p + n)), p + n))
  \/ (~ (fits fr (p + n) /\ skip_ok p n) /\ fails x).
Proof.
  intros Hf x. subst x. unfold src_skip.
  rewrite exec_bind, exec_lift, avail_mkstack. cbn [ebind].
  pose proof (lim_fits fr p n Hf) as HL. destruct (lim fr p) as [k|].
  - destruct (n <=? k) eqn:E.
    + assert (Hfit : fits fr (p + n)) by (apply HL; lia).
      rewrite exec_bind. destruct (exec_skip n TRUNC p) as [(Hs & ->) | (Hs & Hx)].
      * left. cbn [ebind]. rewrite exec_ret, consume_mkstack by exact Hfit. auto.
      * right. split; [tauto|]. now apply ebind_fails.
    + right. split; [intros [Hc _]; apply HL in Hc; lia|].
      left. unfold io_err, TRUNC. rewrite exec_ret. eexists _, _. reflexivity.
  - subst fr. rewrite exec_bind. destruct (exec_skip n TRUNC p) as [(Hs & ->) | (Hs & Hx)].
    + left. cbn [ebind]. rewrite exec_ret. split; [apply fits_nil | auto].
    + right. split; [tauto|]. now apply ebind_fails.
Qed.

(* is there another byte for this level: inside every enclosing body and inside the input *)
Definition more (fr : list frame) (p : N) : bool := fitsb fr (p + 1) && (p <? ilen inp).

Lemma src_nonempty_spec fr p : fits fr p ->
  exec (src_nonempty (mkstack fr p)) p = (Ok (more fr p), p).
Proof.
  intros Hf. unfold src_nonempty, more. rewrite exec_bind, exec_lift, avail_mkstack. cbn [ebind].
  pose proof (lim_fits fr p 1 Hf) as HL. destruct (lim fr p) as [k|].
  - destruct (N.eq_dec k 0) as [->|Hk].
    + rewrite exec_ret. replace (fitsb fr (p + 1)) with false; [reflexivity|].
      symmetry. apply fitsb_false. intros Hc. apply HL in Hc. lia.
    + replace (fitsb fr (p + 1)) with true by (symmetry; apply fitsb_spec, HL; lia).
      destruct k; [lia|]. rewrite exec_bind, exec_fill_empty. cbn [ebind]. rewrite exec_ret.
      f_equal. f_equal. cbn [andb]. lia.
  - subst fr. rewrite exec_bind, exec_fill_empty. cbn [ebind]. rewrite exec_ret.
    f_equal. f_equal. cbn [fitsb forallb andb]. lia.
Qed.

(* everything up to n bytes that is present inside the enclosing bodies *)
Definition upto (fr : list frame) (p n : N) : N :=
  N.min (match lim fr p with Some k => N.min n k | None => n end) (ilen inp - p).

Lemma upto_fits fr p n : fits fr p -> fits fr (p + upto fr p n).
Proof.
  intros Hf. unfold upto. pose proof (lim_fits fr p) as HL.
  destruct (lim fr p) as [k|].
  - apply (HL (N.min (N.min n k) (ilen inp - p)) Hf). lia.
  - rewrite (HL 0 Hf). apply fits_nil.
Qed.
Lemma upto_full fr p n : fits fr (p + n) -> p + n <= ilen inp -> upto fr p n = n.
Proof.
  intros Hf Hl. unfold upto. assert (Hp : fits fr p) by (eapply fits_le; [exact Hf | lia]).
  pose proof (lim_fits fr p n Hp) as HL. destruct (lim fr p) as [k|]; [apply HL in Hf|]; lia.
Qed.
Lemma upto_le fr p n : upto fr p n <= n /\ (p <= ilen inp -> p + upto fr p n <= ilen inp).
Proof. unfold upto. destruct (lim fr p); lia. Qed.

Lemma src_read_upto_spec n fr p : fits fr p ->
  exec (src_read_upto n (mkstack fr p)) p =
  (Ok (iread inp p (N.to_nat (upto fr p n)), mkstack fr (p + upto fr p n)), p + upto fr p n).
Proof.
  intros Hf. pose proof (upto_fits fr p n Hf) as Hu. unfold upto in *. unfold src_read_upto.
  rewrite exec_bind, exec_lift, avail_mkstack. cbn [ebind].
  set (k := match lim fr p with Some k => N.min n k | None => n end) in *.
  destruct (k =? 0) eqn:E.
  - rewrite exec_ret. replace (N.min k (ilen inp - p)) with 0 by lia. rewrite N.add_0_r. reflexivity.
  - rewrite exec_bind, exec_read_upto. cbn [ebind]. rewrite exec_ret, length_iread', N2Nat.id.
    rewrite consume_mkstack by exact Hu. reflexivity.
Qed.


(* ================================================================================================ *)
(* 4. the ChunkReader operations *)

Definition hdr_at (o : N) : chdr := parse_chdr (iread inp o 8).

(* invariant of a level at position p: p is inside every enclosing body; a peeked header is the one 8 bytes back *)
Definition ainv (a : astate) (p : N) : Prop :=
  match a with
  | AIdle _ => True
  | APeek h => 8 <= p /\ p <= ilen inp /\ h = hdr_at (p - 8)
  | AIn h e => p <= e
  end.
Definition linv (a : astate) (fr : list frame) (p : N) : Prop := fits fr p /\ ainv a p.

(* the pending pad byte (if any) is inside every enclosing body, present, and zero *)
Definition padreq (a : astate) (fr : list frame) (p : N) : Prop :=
  npos a p = p + 1 -> fits fr (p + 1) /\ p + 1 <= ilen inp /\ iget inp p = x00.

Lemma padreq_dec a fr p : {padreq a fr p} + {~ padreq a fr p}.
Proof.
  unfold padreq. destruct (N.eq_dec (npos a p) (p + 1)) as [E|E]; [|left; intros; contradiction].
  destruct (fits_dec fr (p + 1)) as [F|F]; [|right; tauto].
  destruct (p + 1 <=? ilen inp) eqn:E2; [|right; intros H; specialize (H E); lia].
  destruct (Byte.byte_eq_dec (iget inp p) x00) as [B|B]; [left; intros _; repeat split; auto; lia | right; tauto].
Qed.

Lemma npos_cases a p : npos a p = p \/ (npos a p = p + 1 /\ exists h e, a = AIn h e /\ e <= p /\ N.odd (ch_len h) = true).
Proof.
  destruct a as [n|h|h e]; cbn [npos]; auto.
  destruct (e <=? p) eqn:E; auto. unfold pad_of. destruct (N.odd (ch_len h)) eqn:O.
  - right. split; [reflexivity|]. exists h, e. repeat split; auto; lia.
  - left. lia.
Qed.

Lemma b2n_zero b : b2n b = 0 <-> b = x00.
Proof. split; [intros H; rewrite <- (n2b_b2n b), H; reflexivity | intros ->; reflexivity]. Qed.

Lemma linv_settle a fr p : linv a fr p -> padreq a fr p ->
  linv (nst a p) fr (npos a p) /\ settled (nst a p) (npos a p) /\ p <= npos a p.
Proof.
  intros [Hf Ha] Hp. unfold linv.
  destruct (npos_cases a p) as [E | (E & h & e & -> & He & Ho)].
  - rewrite E. split; [split; [exact Hf|] | split; [|lia]].
    + destruct a as [n|h|h e]; cbn [nst]; auto. destruct (e <=? p); [exact I | exact Ha].
    + destruct a as [n|h|h e]; cbn [nst settled]; auto. destruct (e <=? p) eqn:E2; cbn [settled]; [exact I | lia].
  - rewrite E. destruct (Hp E) as (H1 & H2 & H3). cbn [nst]. replace (e <=? p) with true by lia.
    cbn [ainv settled]. repeat split; auto. lia.
Qed.

Lemma read_padding_spec a fr p : linv a fr p ->
  let x := exec (read_padding (L a fr p)) p in
  (padreq a fr p /\ x = (Ok (L (nst a p) fr (npos a p)), npos a p))
  \/ (~ padreq a fr p /\ perr_at x).
Proof.
  intros [Hf Ha] x. subst x. destruct a as [n|h|h e].
  - left. split; [intros H; cbn [npos] in H; lia | reflexivity].
  - left. split; [intros H; cbn [npos] in H; lia | reflexivity].
  - cbn [ainv] in Ha. unfold padreq. cbn [npos nst]. destruct (e <=? p) eqn:E.
    + unfold read_padding, L. rewrite (conc_done_In h e p) by lia. unfold pad_of.
      destruct (N.odd (ch_len h)) eqn:O.
      * rewrite exec_bind.
        destruct (src_read_exact_spec 1 fr p ltac:(lia) Hf) as [(H1 & H2 & ->) | (H1 & q & ->)]; cbn [ebind].
        -- change (N.to_nat 1) with 1%nat. cbn [iread]. unfold be2n. cbn [be2n_acc].
           destruct (0 * 256 + b2n (iget inp p) =? 0) eqn:Z.
           ++ left. split; [|reflexivity]. intros _. repeat split; auto. apply b2n_zero. lia.
           ++ right. split; [|eexists _, _; reflexivity]. intros H. destruct (H eq_refl) as (_ & _ & H3).
              apply b2n_zero in H3. lia.
        -- right. split; [|eexists _, _; reflexivity]. intros H. apply H1. destruct (H eq_refl) as (? & ? & _). auto.
      * left. split; [intros H; lia|]. rewrite exec_ret, N.add_0_r. reflexivity.
    + left. split; [intros H; lia | ]. unfold read_padding, L. rewrite (conc_settled_In h e p) by lia. reflexivity.
Qed.

(* on a settled level the padding check does nothing *)
Lemma read_padding_settled a fr p : settled a p -> read_padding (L a fr p) = Ret (Ok (L a fr p)).
Proof.
  destruct a as [n|h|h e]; intros H; try reflexivity.
  cbn [settled] in H. unfold read_padding, L. rewrite (conc_settled_In h e p) by lia. reflexivity.
Qed.

Lemma has_remaining_spec a fr p : linv a fr p ->
  let x := exec (has_remaining (L a fr p)) p in
  (padreq a fr p /\
   x = (Ok (match nst a p with AIdle _ => more fr (npos a p) | _ => true end, L (nst a p) fr (npos a p)), npos a p))
  \/ (~ padreq a fr p /\ perr_at x).
Proof.
  intros Hl x. subst x. unfold has_remaining. rewrite exec_bind.
  destruct (read_padding_spec a fr p Hl) as [(Hp & ->) | (Hp & Hx)]; [|right; split; [exact Hp | now apply ebind_perr]].
  left. split; [exact Hp|]. cbn [ebind]. destruct (linv_settle a fr p Hl Hp) as ([Hf' Ha'] & Hs & _).
  destruct (nst a p) as [n|h|h e]; cbn [L fst snd conc].
  - rewrite exec_bind, src_nonempty_spec by exact Hf'. reflexivity.
  - reflexivity.
  - cbn [settled] in Hs. change (mkst (npos a p) (h, e)) with (conc (AIn h e) (npos a p)).
    rewrite conc_settled_In by lia. reflexivity.
Qed.

(* the logical offset of the next chunk header, and "not in the middle of a body" *)
Definition loff (a : astate) (p : N) : N := match a with APeek _ => p - 8 | _ => npos a p end.
Definition atb (a : astate) (p : N) : Prop := match a with AIn _ e => e <= p | _ => True end.
Definition hdr_ok (fr : list frame) (o : N) : Prop := fits fr (o + 8) /\ o + 8 <= ilen inp.
Definition in_hdr (o : N) : astate := AIn (hdr_at o) (o + 8 + ch_len (hdr_at o)).

Lemma atb_dec a p : {atb a p} + {~ atb a p}.
Proof. destruct a as [n|h|h e]; cbn [atb]; auto. destruct (e <=? p) eqn:E; [left | right]; lia. Qed.
Lemma hdr_ok_dec fr o : {hdr_ok fr o} + {~ hdr_ok fr o}.
Proof.
  unfold hdr_ok. destruct (fits_dec fr (o + 8)); [|right; tauto].
  destruct (o + 8 <=? ilen inp) eqn:E; [left; split; auto; lia | right; intros [_ H]; lia].
Qed.
Lemma hdr_ok_more fr o : hdr_ok fr o -> more fr o = true.
Proof.
  intros [H1 H2]. unfold more. apply andb_true_intro. split; [|lia].
  apply fitsb_spec. eapply fits_le; [exact H1 | lia].
Qed.

Lemma after_header_conc h q : after_header h = conc (AIn h (q + ch_len h)) q.
Proof.
  unfold after_header. cbn [conc]. unfold mkst. cbn [fst snd].
  replace (q + ch_len h - q) with (ch_len h) by lia. reflexivity.
Qed.

(* reading a header from a settled Idle level *)
Lemma idle_header_spec n fr p : fits fr p ->
  let x := exec ('(b, l2) <~ has_remaining (L (AIdle n) fr p) ;;
                 if negb b then Ret (EParse InvalidChunkLayout) else
                 '(hb, outer) <~ src_read_exact 8 TRUNC (snd l2) ;;
                 Ret (Ok (parse_chdr hb, outer))) p in
  (hdr_ok fr p /\ x = (Ok (hdr_at p, mkstack fr (p + 8)), p + 8)) \/ (~ hdr_ok fr p /\ perr_at x).
Proof.
  intros Hf x. subst x. rewrite exec_bind.
  destruct (has_remaining_spec (AIdle n) fr p (conj Hf I)) as [(_ & ->) | (Hp & _)];
    [|exfalso; apply Hp; intros H; cbn [npos] in H; lia].
  cbn [nst npos ebind]. destruct (more fr p) eqn:M; cbn [negb].
  - cbn [L snd]. rewrite exec_bind.
    destruct (src_read_exact_spec 8 fr p ltac:(lia) Hf) as [(H1 & H2 & ->) | (H1 & q & ->)]; cbn [ebind].
    + left. split; [split; assumption | reflexivity].
    + right. split; [unfold hdr_ok; tauto | eexists _, _; reflexivity].
  - right. split; [intros H; apply hdr_ok_more in H; congruence | eexists _, _; reflexivity].
Qed.

Lemma read_any_header_spec a fr p : linv a fr p ->
  let o := loff a p in
  let x := exec (read_any_header (L a fr p)) p in
  (padreq a fr p /\ atb a p /\ hdr_ok fr o /\ x = (Ok (hdr_at o, L (in_hdr o) fr (o + 8)), o + 8))
  \/ (~ (padreq a fr p /\ atb a p /\ hdr_ok fr o) /\ perr_at x).
Proof.
  intros Hl o x. subst x. unfold read_any_header. rewrite exec_bind.
  destruct (read_padding_spec a fr p Hl) as [(Hp & ->) | (Hp & Hx)]; [|right; split; [tauto | now apply ebind_perr]].
  cbn [ebind]. destruct (linv_settle a fr p Hl Hp) as ([Hf' Ha'] & Hs & _).
  destruct a as [n|h|h e].
  - (* Idle *) cbn [nst npos L fst conc] in *. subst o. cbn [loff npos].
    rewrite exec_bind.
    change (mkstack fr p) with (snd (L (AIdle n) fr p)).
    destruct (idle_header_spec n fr p Hf') as [(Hh & E) | (Hh & E)].
    + cbn [L fst snd conc] in E |- *. rewrite E. cbn [ebind].
      rewrite exec_bind, exec_pos. cbn [ebind]. replace (p + 8 <? 8) with false by lia.
      left. split; [exact Hp|]. split; [exact I|]. split; [exact Hh|]. rewrite exec_ret. unfold in_hdr, L.
      rewrite (after_header_conc (hdr_at p) (p + 8)). reflexivity.
    + right. split; [tauto|]. cbn [L fst snd conc] in E |- *. now apply ebind_perr.
  - (* Peeking *) cbn [nst npos L fst conc ainv] in *. subst o. cbn [loff].
    destruct Ha' as (H8 & Hlen & ->). rewrite exec_bind, exec_ret. cbn [ebind snd].
    rewrite exec_bind, exec_pos. cbn [ebind]. replace (p <? 8) with false by lia.
    left. split; [exact Hp|]. split; [exact I|]. replace (p - 8 + 8) with p by lia.
    split; [unfold hdr_ok; replace (p - 8 + 8) with p by lia; split; assumption|].
    rewrite exec_ret. unfold in_hdr, L. cbn [snd].
    rewrite (after_header_conc (hdr_at (p - 8)) p). replace (p - 8 + 8) with p by lia. reflexivity.
  - (* in a chunk *) subst o. cbn [loff]. cbn [nst npos atb] in *. destruct (e <=? p) eqn:E.
    + cbn [L fst conc]. rewrite exec_bind.
      change (mkstack fr (p + pad_of h)) with (snd (L (AIdle (ch_name h)) fr (p + pad_of h))).
      destruct (idle_header_spec (ch_name h) fr (p + pad_of h) Hf') as [(Hh & E') | (Hh & E')].
      * cbn [L fst snd conc] in E' |- *. rewrite E'. cbn [ebind].
        rewrite exec_bind, exec_pos. cbn [ebind]. replace (p + pad_of h + 8 <? 8) with false by lia.
        left. split; [exact Hp|]. split; [lia|]. split; [exact Hh|]. rewrite exec_ret. unfold in_hdr, L.
        rewrite (after_header_conc (hdr_at (p + pad_of h)) (p + pad_of h + 8)). reflexivity.
      * right. split; [tauto|]. cbn [L fst snd conc] in E' |- *. now apply ebind_perr.
    + right. split; [intros (_ & H & _); lia|]. cbn [settled] in Hs. unfold L. cbn [fst].
      rewrite conc_settled_In by lia. rewrite exec_bind, exec_ret. cbn [ebind]. eexists _, _. reflexivity.
Qed.


Lemma settled_padreq a fr p : settled a p -> padreq a fr p.
Proof.
  intros H E. exfalso. destruct a as [n|h|h e]; cbn [npos settled] in *; try lia.
  replace (e <=? p) with false in E by lia. lia.
Qed.
Lemma settled_npos a p : settled a p -> npos a p = p /\ nst a p = a.
Proof.
  destruct a as [n|h|h e]; cbn [npos nst settled]; auto. intros H. replace (e <=? p) with false by lia. auto.
Qed.
Lemma loff_nst a p : loff (nst a p) (npos a p) = loff a p.
Proof.
  destruct a as [n|h|h e]; cbn [nst npos loff]; try reflexivity.
  destruct (e <=? p) eqn:E; cbn [loff npos]; [reflexivity|]. rewrite E. reflexivity.
Qed.
Lemma atb_nst a p : atb (nst a p) (npos a p) <-> atb a p.
Proof.
  destruct a as [n|h|h e]; cbn [nst npos atb]; try tauto.
  destruct (e <=? p) eqn:E; cbn [atb]; lia.
Qed.

Lemma read_header_spec name a fr p : linv a fr p ->
  let o := loff a p in
  let x := exec (read_header name (L a fr p)) p in
  (padreq a fr p /\ atb a p /\ hdr_ok fr o /\ ch_name (hdr_at o) = name
   /\ x = (Ok (hdr_at o, L (in_hdr o) fr (o + 8)), o + 8))
  \/ (~ (padreq a fr p /\ atb a p /\ hdr_ok fr o /\ ch_name (hdr_at o) = name) /\ perr_at x).
Proof.
  intros Hl o x. subst x. unfold read_header. rewrite exec_bind.
  destruct (read_padding_spec a fr p Hl) as [(Hp & ->) | (Hp & Hx)]; [|right; split; [tauto | now apply ebind_perr]].
  cbn [ebind]. destruct (linv_settle a fr p Hl Hp) as (Hl' & Hs & _).
  pose proof (loff_nst a p) as Eo. pose proof (atb_nst a p) as Eb. fold o in Eo.
  pose proof (settled_padreq _ fr _ Hs) as Hp'.
  set (a1 := nst a p) in *. set (p1 := npos a p) in *.
  (* the part after the optional has_remaining *)
  assert (K : let y := exec ('(h, l3) <~ read_any_header (L a1 fr p1) ;;
                             if teq (ch_name h) name then Ret (Ok (h, l3)) else Ret (EParse InvalidChunkLayout)) p1 in
              (atb a p /\ hdr_ok fr o /\ ch_name (hdr_at o) = name /\ y = (Ok (hdr_at o, L (in_hdr o) fr (o + 8)), o + 8))
              \/ (~ (atb a p /\ hdr_ok fr o /\ ch_name (hdr_at o) = name) /\ perr_at y)).
  { intros y. subst y. rewrite exec_bind.
    destruct (read_any_header_spec a1 fr p1 Hl') as [(_ & Hb & Hh & ->) | (Hn & Hx)]; rewrite Eo in *.
    - cbn [ebind]. unfold teq. destruct (list_eq_dec Byte.byte_eq_dec (ch_name (hdr_at o)) name) as [En|En].
      + left. rewrite exec_ret. tauto.
      + right. split; [tauto|]. eexists _, _. reflexivity.
    - right. split; [tauto|]. now apply ebind_perr. }
  cbn zeta in K.
  destruct a1 as [n|h|h e] eqn:Ea1; cbn [L fst conc].
  - rewrite exec_bind, exec_bind.
    destruct (has_remaining_spec (AIdle n) fr p1 Hl') as [(_ & ->) | (Hn & _)]; [|contradiction].
    cbn [nst npos ebind]. destruct (more fr p1) eqn:M.
    + rewrite exec_ret. cbn [ebind]. destruct K as [(K1 & K2 & K3 & ->) | (K1 & K2)]; [left | right]; tauto.
    + right. split; [|eexists _, _; reflexivity]. intros (_ & _ & Hh & _). apply hdr_ok_more in Hh.
      cbn [loff npos] in Eo. congruence.
  - rewrite exec_bind, exec_ret. cbn [ebind].
    destruct K as [(K1 & K2 & K3 & ->) | (K1 & K2)]; [left | right]; tauto.
  - cbn [settled] in Hs. change (mkst p1 (h, e)) with (conc (AIn h e) p1). rewrite conc_settled_In by lia.
    rewrite exec_bind, exec_ret. cbn [ebind].
    destruct K as [(K1 & K2 & K3 & ->) | (K1 & K2)]; [left | right]; tauto.
Qed.

Lemma peek_header_spec a fr p : linv a fr p ->
  let o := loff a p in
  let x := exec (peek_header (L a fr p)) p in
  (padreq a fr p /\ atb a p /\ hdr_ok fr o
   /\ x = (Ok (Some (ch_name (hdr_at o)), L (APeek (hdr_at o)) fr (o + 8)), o + 8))
  \/ (padreq a fr p /\ atb a p /\ more fr o = false /\ exists n, x = (Ok (None, L (AIdle n) fr o), o))
  \/ (~ (padreq a fr p /\ atb a p /\ (hdr_ok fr o \/ more fr o = false)) /\ perr_at x).
Proof.
  intros Hl o x. subst x. unfold peek_header. rewrite exec_bind.
  destruct (read_padding_spec a fr p Hl) as [(Hp & ->) | (Hp & Hx)];
    [|right; right; split; [tauto | now apply ebind_perr]].
  cbn [ebind]. destruct (linv_settle a fr p Hl Hp) as ([Hf' Ha'] & Hs & _).
  destruct a as [n|h|h e].
  - cbn [nst npos L fst conc] in *. subst o. cbn [loff npos]. rewrite exec_bind.
    destruct (has_remaining_spec (AIdle n) fr p (conj Hf' I)) as [(_ & ->) | (Hn & _)]; [|contradiction].
    cbn [nst npos ebind]. destruct (more fr p) eqn:M; cbn [negb].
    + cbn [L snd]. rewrite exec_bind.
      destruct (src_read_exact_spec 8 fr p ltac:(lia) Hf') as [(H1 & H2 & ->) | (H1 & q & ->)]; cbn [ebind].
      * left. repeat (split; [first [exact Hp | exact I | split; assumption]|]). reflexivity.
      * right; right. split; [|eexists _, _; reflexivity]. unfold hdr_ok. intros (_ & _ & [Hc | Hc]); [tauto | congruence].
    + right; left. repeat (split; [first [exact Hp | exact I | reflexivity]|]). exists n. reflexivity.
  - cbn [nst npos L fst conc ainv] in *. subst o. cbn [loff]. destruct Ha' as (H8 & Hlen & ->).
    left. split; [exact Hp|]. split; [exact I|]. unfold hdr_ok. replace (p - 8 + 8) with p by lia.
    split; [split; assumption|]. reflexivity.
  - subst o. cbn [loff]. cbn [nst npos atb] in *. destruct (e <=? p) eqn:E.
    + cbn [L fst conc]. rewrite exec_bind.
      destruct (has_remaining_spec (AIdle (ch_name h)) fr (p + pad_of h) (conj Hf' I)) as [(_ & ->) | (Hn & _)];
        [|exfalso; apply Hn; apply settled_padreq; exact I].
      cbn [nst npos ebind]. destruct (more fr (p + pad_of h)) eqn:M; cbn [negb].
      * cbn [L snd]. rewrite exec_bind.
        destruct (src_read_exact_spec 8 fr (p + pad_of h) ltac:(lia) Hf') as [(H1 & H2 & ->) | (H1 & q & ->)]; cbn [ebind].
        -- left. split; [exact Hp|]. split; [lia|]. split; [split; assumption|]. reflexivity.
        -- right; right. split; [|eexists _, _; reflexivity]. unfold hdr_ok. intros (_ & _ & [Hc | Hc]); [tauto | congruence].
      * right; left. split; [exact Hp|]. split; [lia|]. split; [reflexivity|]. eexists. reflexivity.
    + right; right. split; [intros (_ & H & _); lia|]. cbn [settled] in Hs. unfold L. cbn [fst].
      rewrite conc_settled_In by lia. eexists _, _. reflexivity.
Qed.

(* read_data inside a chunk whose body ends at e *)
Lemma read_data_spec n h e fr p : 0 < n -> linv (AIn h e) fr p ->
  let x := exec (read_data n (L (AIn h e) fr p)) p in
  (p + n <= e /\ fits fr (p + n) /\ p + n <= ilen inp
   /\ x = (Ok (iread inp p (N.to_nat n), L (AIn h e) fr (p + n)), p + n))
  \/ (~ (p + n <= e /\ fits fr (p + n) /\ p + n <= ilen inp) /\ perr_at x).
Proof.
  intros Hn Hl x. subst x. unfold read_data. rewrite exec_bind.
  destruct (read_padding_spec _ fr p Hl) as [(Hp & ->) | (Hp & Hx)].
  2:{ right. split; [|now apply ebind_perr]. intros (Hc & _). apply Hp. apply settled_padreq. cbn [settled]. lia. }
  cbn [ebind]. destruct (linv_settle _ fr p Hl Hp) as ([Hf' Ha'] & Hs & _). cbn [nst npos] in *.
  destruct (e <=? p) eqn:E.
  - right. split; [lia|]. eexists _, _. reflexivity.
  - cbn [settled] in Hs. rewrite fst_L, snd_L, conc_settled_In by lia.
    destruct (e - p <? n) eqn:E2; [right; split; [lia | eexists _, _; reflexivity]|].
    rewrite exec_bind, exec_alloc. cbn [ebind]. rewrite exec_bind.
    destruct (src_read_exact_spec n fr p Hn Hf') as [(H1 & H2 & ->) | (H1 & q & ->)]; cbn [ebind].
    + left. split; [lia|]. split; [exact H1|]. split; [exact H2|]. rewrite exec_ret. unfold L. cbn [conc].
      unfold mkst. cbn [fst snd]. replace (e - (p + n)) with (e - p - n) by lia. reflexivity.
    + right. split; [tauto | eexists _, _; reflexivity].
Qed.

(* skip_data in the middle of a body: skips to its end *)
Lemma skip_data_body h e fr p : fits fr p -> p < e ->
  let x := exec (skip_data (L (AIn h e) fr p)) p in
  (fits fr e /\ skip_ok p (e - p) /\ x = (Ok (L (AIn h e) fr e), e))
  \/ (~ (fits fr e /\ skip_ok p (e - p)) /\ fails x).
Proof.
  intros Hf Hlt x. subst x. unfold skip_data.
  rewrite read_padding_settled by (cbn [settled]; lia). cbn [pbind].
  rewrite fst_L, snd_L, conc_settled_In by lia. rewrite exec_bind.
  destruct (src_skip_spec (e - p) fr p Hf) as [(H1 & H2 & ->) | (H1 & H2)];
    replace (p + (e - p)) with e in * by lia.
  - left. split; [exact H1|]. split; [exact H2|]. cbn [ebind]. rewrite exec_ret. unfold L.
    rewrite conc_done_In by lia. reflexivity.
  - right. split; [exact H1 | now apply ebind_fails].
Qed.

(* skip_data at a chunk boundary: only the padding check *)
Lemma skip_data_boundary a fr p : linv a fr p -> atb a p -> (forall h, a <> APeek h) ->
  let x := exec (skip_data (L a fr p)) p in
  (padreq a fr p /\ x = (Ok (L (nst a p) fr (npos a p)), npos a p))
  \/ (~ padreq a fr p /\ perr_at x).
Proof.
  intros Hl Hb Hnp x. subst x. unfold skip_data. rewrite exec_bind.
  destruct (read_padding_spec a fr p Hl) as [(Hp & ->) | (Hp & Hx)]; [|right; split; [tauto | now apply ebind_perr]].
  left. split; [exact Hp|]. cbn [ebind]. destruct a as [n|h|h e]; [reflexivity | now destruct (Hnp h) |].
  cbn [atb] in Hb. cbn [nst npos]. replace (e <=? p) with true by lia. reflexivity.
Qed.

(* data_reader(): everything present of the rest of the body *)
Lemma read_body_spec h e fr p : linv (AIn h e) fr p ->
  let u := upto fr p (e - p) in
  exec (read_body (L (AIn h e) fr p)) p = (Ok (iread inp p (N.to_nat u), L (AIn h e) fr (p + u)), p + u).
Proof.
  intros [Hf Ha] u. cbn [ainv] in Ha. unfold read_body. destruct (N.eq_dec e p) as [->|Hne].
  - rewrite fst_L, conc_done_In by lia.
    assert (u = 0) by (subst u; pose proof (upto_le fr p (p - p)); lia).
    rewrite H, N.add_0_r, exec_ret. reflexivity.
  - rewrite fst_L, snd_L, conc_settled_In by lia.
    rewrite exec_bind, src_read_upto_spec by exact Hf. cbn [ebind]. fold u.
    rewrite exec_ret, length_iread', N2Nat.id. unfold L. cbn [conc]. unfold mkst. cbn [fst snd].
    replace (e - (p + u)) with (e - p - u) by lia. reflexivity.
Qed.


(* ================================================================================================ *)
(* 5. the same facts as inversions of a successful run *)

Lemma ebind_ok_inv {A B} (x : res A * N) (f : A -> N -> res B * N) b q :
  ebind x f = (Ok b, q) -> exists a s, x = (Ok a, s) /\ f a s = (Ok b, q).
Proof. destruct x as [[a| | | |] s]; cbn [ebind]; try discriminate. intros H. now exists a, s. Qed.

Lemma exec_bind_ok {A B} (pr : prog A) (f : A -> prog B) p b q :
  exec (pbind pr f) p = (Ok b, q) -> exists a s, exec pr p = (Ok a, s) /\ exec (f a) s = (Ok b, q).
Proof. rewrite exec_bind. apply ebind_ok_inv. Qed.

Lemma linv_in_hdr o fr : fits fr (o + 8) -> linv (in_hdr o) fr (o + 8).
Proof. intros H. split; [exact H|]. unfold in_hdr. cbn [ainv]. lia. Qed.

Lemma has_remaining_ok a fr p r q : linv a fr p -> exec (has_remaining (L a fr p)) p = (Ok r, q) ->
  padreq a fr p /\ q = npos a p
  /\ r = (match nst a p with AIdle _ => more fr (npos a p) | _ => true end, L (nst a p) fr (npos a p)).
Proof.
  intros Hl H. destruct (has_remaining_spec a fr p Hl) as [(Hp & E) | (_ & Hx)];
    [|exfalso; eapply perr_not_ok; eauto].
  rewrite E in H. injection H as <- <-. auto.
Qed.

Lemma read_any_header_ok a fr p r q : linv a fr p -> exec (read_any_header (L a fr p)) p = (Ok r, q) ->
  let o := loff a p in
  padreq a fr p /\ atb a p /\ hdr_ok fr o /\ r = (hdr_at o, L (in_hdr o) fr (o + 8)) /\ q = o + 8.
Proof.
  intros Hl H o. destruct (read_any_header_spec a fr p Hl) as [(Hp & Hb & Hh & E) | (_ & Hx)];
    [|exfalso; eapply perr_not_ok; eauto].
  rewrite E in H. injection H as <- <-. auto.
Qed.

Lemma read_header_ok name a fr p r q : linv a fr p -> exec (read_header name (L a fr p)) p = (Ok r, q) ->
  let o := loff a p in
  padreq a fr p /\ atb a p /\ hdr_ok fr o /\ ch_name (hdr_at o) = name
  /\ r = (hdr_at o, L (in_hdr o) fr (o + 8)) /\ q = o + 8.
Proof.
  intros Hl H o. destruct (read_header_spec name a fr p Hl) as [(Hp & Hb & Hh & Hn & E) | (_ & Hx)];
    [|exfalso; eapply perr_not_ok; eauto].
  rewrite E in H. injection H as <- <-. auto 6.
Qed.

Lemma peek_header_ok a fr p r q : linv a fr p -> exec (peek_header (L a fr p)) p = (Ok r, q) ->
  let o := loff a p in
  padreq a fr p /\ atb a p /\
  ((hdr_ok fr o /\ r = (Some (ch_name (hdr_at o)), L (APeek (hdr_at o)) fr (o + 8)) /\ q = o + 8)
   \/ (more fr o = false /\ q = o /\ exists n, r = (None, L (AIdle n) fr o))).
Proof.
  intros Hl H o.
  destruct (peek_header_spec a fr p Hl) as [(Hp & Hb & Hh & E) | [(Hp & Hb & Hm & n & E) | (_ & Hx)]];
    [| |exfalso; eapply perr_not_ok; eauto]; rewrite E in H; injection H as <- <-.
  - split; [exact Hp|]. split; [exact Hb|]. left. auto.
  - split; [exact Hp|]. split; [exact Hb|]. right. split; [exact Hm|]. split; [reflexivity|]. now exists n.
Qed.

Lemma read_data_ok n h e fr p r q : 0 < n -> linv (AIn h e) fr p ->
  exec (read_data n (L (AIn h e) fr p)) p = (Ok r, q) ->
  p + n <= e /\ fits fr (p + n) /\ p + n <= ilen inp
  /\ r = (iread inp p (N.to_nat n), L (AIn h e) fr (p + n)) /\ q = p + n.
Proof.
  intros Hn Hl H. destruct (read_data_spec n h e fr p Hn Hl) as [(H1 & H2 & H3 & E) | (_ & Hx)];
    [|exfalso; eapply perr_not_ok; eauto].
  rewrite E in H. injection H as <- <-. auto 6.
Qed.

(* the state in which a chunk (h, body end e) is left when its body has been dealt with *)
Definition done_he (h : chdr) (e : N) (a' : astate) (p' : N) : Prop :=
  (a' = AIn h e /\ p' = e)
  \/ (exists n, a' = AIdle n /\ p' = e + pad_of h /\ (N.odd (ch_len h) = true -> iget inp e = x00)).

Lemma skip_data_ok h e fr p l' p' : linv (AIn h e) fr p ->
  exec (skip_data (L (AIn h e) fr p)) p = (Ok l', p') ->
  exists a', l' = L a' fr p' /\ linv a' fr p' /\ fits fr e /\ e <= p' /\ done_he h e a' p'.
Proof.
  intros Hl H. pose proof Hl as [Hf Ha]. cbn [ainv] in Ha. destruct (N.eq_dec p e) as [->|Hne].
  - destruct (skip_data_boundary (AIn h e) fr e Hl) as [(Hp & E) | (_ & Hx)];
      [cbn [atb]; lia | discriminate | | exfalso; eapply perr_not_ok; eauto].
    rewrite E in H. injection H as <- <-. destruct (linv_settle _ fr e Hl Hp) as (Hl' & _ & Hle).
    cbn [nst npos] in *. replace (e <=? e) with true in * by lia.
    exists (AIdle (ch_name h)). split; [reflexivity|]. split; [exact Hl'|]. split; [exact Hf|]. split; [exact Hle|].
    right. exists (ch_name h). split; [reflexivity|]. split; [reflexivity|]. intros O.
    apply Hp. cbn [npos]. replace (e <=? e) with true by lia. unfold pad_of. rewrite O. reflexivity.
  - destruct (skip_data_body h e fr p Hf ltac:(lia)) as [(H1 & H2 & E) | (_ & Hx)];
      [|exfalso; eapply fails_not_ok; eauto].
    rewrite E in H. injection H as <- <-.
    exists (AIn h e). split; [reflexivity|]. split; [split; [exact H1 | cbn [ainv]; lia]|].
    split; [exact H1|]. split; [lia|]. left; auto.
Qed.

End Cur.

(* ================================================================================================ *)
(* 6. summary: the reader stack is a cursor over nested regions (C06_reader_refines_region, shared with C15) *)
Theorem reader_refines_region inp lenient ms a fr p : linv inp a fr p ->
  let run {A} (pr : prog A) := exec inp lenient ms pr p in
  let o := loff a p in
  (* the lazy padding check: the pending pad byte must be inside every enclosing body, present and zero *)
  ((padreq inp a fr p /\ run (read_padding (L a fr p)) = (Ok (L (nst a p) fr (npos a p)), npos a p))
   \/ (~ padreq inp a fr p /\ perr_at (run (read_padding (L a fr p)))))
  (* has_remaining: inside a body, or another byte inside every enclosing body and inside the input *)
  /\ ((padreq inp a fr p /\
       run (has_remaining (L a fr p)) =
         (Ok (match nst a p with AIdle _ => more inp fr (npos a p) | _ => true end, L (nst a p) fr (npos a p)), npos a p))
      \/ (~ padreq inp a fr p /\ perr_at (run (has_remaining (L a fr p)))))
  (* read_any_header: the 8 bytes at the logical offset o, which must lie inside every enclosing body and the input *)
  /\ ((padreq inp a fr p /\ atb a p /\ hdr_ok inp fr o /\
       run (read_any_header (L a fr p)) = (Ok (hdr_at inp o, L (in_hdr inp o) fr (o + 8)), o + 8))
      \/ (~ (padreq inp a fr p /\ atb a p /\ hdr_ok inp fr o) /\ perr_at (run (read_any_header (L a fr p)))))
  (* read_header name: the same, and the name must match *)
  /\ (forall name,
      (padreq inp a fr p /\ atb a p /\ hdr_ok inp fr o /\ ch_name (hdr_at inp o) = name /\
       run (read_header name (L a fr p)) = (Ok (hdr_at inp o, L (in_hdr inp o) fr (o + 8)), o + 8))
      \/ (~ (padreq inp a fr p /\ atb a p /\ hdr_ok inp fr o /\ ch_name (hdr_at inp o) = name)
          /\ perr_at (run (read_header name (L a fr p)))))
  (* peek_header: the header is read ahead, or there is nothing left *)
  /\ ((padreq inp a fr p /\ atb a p /\ hdr_ok inp fr o /\
       run (peek_header (L a fr p)) = (Ok (Some (ch_name (hdr_at inp o)), L (APeek (hdr_at inp o)) fr (o + 8)), o + 8))
      \/ (padreq inp a fr p /\ atb a p /\ more inp fr o = false /\
          exists n, run (peek_header (L a fr p)) = (Ok (None, L (AIdle n) fr o), o))
      \/ (~ (padreq inp a fr p /\ atb a p /\ (hdr_ok inp fr o \/ more inp fr o = false))
          /\ perr_at (run (peek_header (L a fr p)))))
  (* inside a chunk whose body ends at e *)
  /\ (forall h e, a = AIn h e ->
      (forall n, 0 < n ->
         (p + n <= e /\ fits fr (p + n) /\ p + n <= ilen inp /\
          run (read_data n (L a fr p)) = (Ok (iread inp p (N.to_nat n), L (AIn h e) fr (p + n)), p + n))
         \/ (~ (p + n <= e /\ fits fr (p + n) /\ p + n <= ilen inp) /\ perr_at (run (read_data n (L a fr p)))))
      /\ (p < e ->
          (fits fr e /\ skip_ok inp lenient ms p (e - p) /\ run (skip_data (L a fr p)) = (Ok (L (AIn h e) fr e), e))
          \/ (~ (fits fr e /\ skip_ok inp lenient ms p (e - p)) /\ fails (run (skip_data (L a fr p)))))
      /\ run (read_body (L a fr p)) =
           (Ok (iread inp p (N.to_nat (upto inp fr p (e - p))), L (AIn h e) fr (p + upto inp fr p (e - p))),
            p + upto inp fr p (e - p)))
  (* a child reader is a level whose innermost enclosing region is this chunk's body *)
  /\ (forall h e, a = AIn h e -> child (L a fr p) = L (AIdle (ch_name h)) ((h, e) :: fr) p).
Proof.
  intros Hl. cbv zeta.
  split; [apply read_padding_spec; exact Hl|].
  split; [apply has_remaining_spec; exact Hl|].
  split; [apply read_any_header_spec; exact Hl|].
  split; [intros name; apply read_header_spec; exact Hl|].
  split; [apply peek_header_spec; exact Hl|].
  split.
  - intros h e ->. split; [intros n Hn; apply read_data_spec; assumption|].
    split; [intros Hlt; apply skip_data_body; [apply Hl | exact Hlt]|].
    apply read_body_spec. exact Hl.
  - intros h e ->. apply child_L.
Qed.
