(* C09 / C13, WebP: the whole modelled webpsan - the container programme WITH the lossless validator Webp/Vp8l.v plugged
   in - on the ideal cursor: Ok, a parse error, or (seek-style cursor with a small seek bound only) an I/O error. *)
From Coq Require Import List NArith Bool Lia.
From Coq.Strings Require Import Byte.
From MS Require Import Base.Bytes Base.Outcome Base.Prog Webp.Container Webp.Vp8l Webp.ContainerProofsTotal Webp.Vp8lProofsTotal.
Open Scope N_scope.

Lemma lossless_read_rgood w h b : ldims w h -> rgood (lossless_read w h b).
Proof. intros Hd. destruct (model_total_wide w h b Hd) as [-> | (e & ->)]; exact I. Qed.
Lemma lossless_read_no_io w h b e : ldims w h -> lossless_read w h b <> EIo e.
Proof. intros Hd. destruct (model_total_wide w h b Hd) as [-> | (e' & ->)]; discriminate. Qed.

Theorem webpsan_no_panic allow lenient ms inp fuel n : webp_sanitize lossless_read allow lenient ms inp fuel <> Panic n.
Proof. apply webp_sanitize_no_panic. exact lossless_read_rgood. Qed.

Theorem webpsan_terminates allow lenient ms inp fuel : (N.to_nat (ilen inp / 8) < fuel)%nat ->
  webp_sanitize lossless_read allow lenient ms inp fuel <> OutOfFuel.
Proof. apply webp_sanitize_terminates. exact lossless_read_rgood. Qed.

Theorem webpsan_no_io allow lenient ms inp fuel e : (lenient = true -> ilen inp + 2 ^ 32 <= ms) ->
  webp_sanitize lossless_read allow lenient ms inp fuel <> EIo e.
Proof. intros H. apply webp_sanitize_no_io; [exact lossless_read_rgood | intros; now apply lossless_read_no_io | exact H]. Qed.

(* all three: with enough fuel the result is Ok or a parse error *)
Theorem webpsan_total allow lenient ms inp fuel : (N.to_nat (ilen inp / 8) < fuel)%nat ->
  (lenient = true -> ilen inp + 2 ^ 32 <= ms) ->
  webp_sanitize lossless_read allow lenient ms inp fuel = Ok tt
  \/ exists e, webp_sanitize lossless_read allow lenient ms inp fuel = EParse e.
Proof.
  intros Hf Hms.
  pose proof (webpsan_terminates allow lenient ms inp fuel Hf) as T.
  destruct (webp_sanitize lossless_read allow lenient ms inp fuel) as [[]|e|e|n|] eqn:E; eauto.
  - exfalso. exact (webpsan_no_io allow lenient ms inp fuel e Hms E).
  - exfalso. exact (webpsan_no_panic allow lenient ms inp fuel n E).
  - now destruct T.
Qed.
