(* Model of webpsan/src/parse/bitstream.rs  BitBufReader<R, LittleEndian>  and of what it stands on:
     bitstream_io 1.10.0  BitQueue<LE,u8> / BitReader<Cursor<Vec<u8>>, LE>  (read, read_bit, skip, position_in_bits,
     read_huffman, into_reader),  std::io::Cursor<Vec<u8>>::read_exact,  Read::take(n).read_to_end(&mut vec).
   Definitions only.  Numbers are N; the bit queue is the pair (value, bits) exactly as in bitstream_io; values are
   combined with lor / shiftl / mod 2^w as the Rust code does.  Proofs: BitBufProofs*.v.  Specification: BitBufSpec.v.

   Not modelled: I/O errors of the underlying reader (the source below never fails; C13 is about those), Interrupted
   retries, the allocator.  Vec capacity: [cap] is the ACTUAL capacity of the buffer (Vec::with_capacity may give more
   than requested; fill_buf uses buf.capacity()); it never changes (drain keeps it, read_to_end with limit
   capacity - len never grows the vector). *)
From Coq Require Import List NArith Bool.
From Coq.Strings Require Import Byte.
From MS Require Import Base.Bytes Base.Outcome.
Import ListNotations.
Open Scope N_scope.

Definition nlen {A} (l : list A) : N := N.of_nat (length l).
Definition ntake {A} (k : N) (l : list A) : list A := firstn (N.to_nat k) l.
Definition ndrop {A} (k : N) (l : list A) : list A := skipn (N.to_nat k) l.

(* the low k bits of v, least significant first *)
Fixpoint qbits (k : nat) (v : N) : list bool :=
  match k with O => [] | S k' => N.odd v :: qbits k' (N.div2 v) end.
Definition mbits (l : bytes) : list bool := flat_map (fun b => qbits 8 (b2n b)) l.

(* ------------------------------------------------------------------------------------------------------------------ *)
(* bitstream_io::BitReader<Cursor<Vec<u8>>, LittleEndian>                                                              *)
(*   rbuf/rpos : the Cursor (vector, position);  qv/qb : BitQueue<LE,u8> { value, bits }                               *)
Record breader := mkbr { rbuf : bytes; rpos : N; qv : N; qb : N }.

Definition set_q (r : breader) (v b : N) : breader := mkbr (rbuf r) (rpos r) v b.
Definition set_pos (r : breader) (p : N) : breader := mkbr (rbuf r) p (qv r) (qb r).

(* LittleEndian::pop(queue, k)  (callers guarantee k <= bits, BitQueue::pop asserts it) *)
Definition q_pop (k v b : N) : N * (N * N) :=
  if k <? b then (v mod 2 ^ k, (N.shiftr v k, b - k)) else (v, (0, 0)).

(* Cursor::read_exact(&mut [u8; k]): Ok moves the position by k; Err(UnexpectedEof) places the cursor at the end. *)
Definition cur_read_exact (k : N) (r : breader) : option bytes * breader :=
  if k <=? nlen (rbuf r) - rpos r
  then (Some (ntake k (ndrop (rpos r) (rbuf r))), set_pos r (rpos r + k))
  else (None, set_pos r (nlen (rbuf r))).

(* value <<= s on a w-bit unsigned *)
Definition shl (w x s : N) : N := N.shiftl x s mod 2 ^ w.

(* read_aligned: for b in bytes { acc.push(8, b) };  push asserts 8 <= w - acc.bits;  LE::push: acc.value |= b << acc.bits *)
Fixpoint push_bytes (w : N) (bs : bytes) (av ab : N) : option (N * N) :=
  match bs with
  | [] => Some (av, ab)
  | b :: t => if w - ab <? 8 then None else push_bytes w t (N.lor av (shl w (b2n b) ab)) (ab + 8)
  end.

(* BitRead::read::<U>(n), U::BITS_SIZE = w *)
Definition br_read (w n : N) (r : breader) : res N * breader :=
  if w <? n then (EIo EInvalidInput, r)
  else if n <=? qb r then
    let '(x, (v', b')) := q_pop n (qv r) (qb r) in (Ok x, set_q r v' b')
  else
    let av := qv r in
    let ab := qb r in
    let r0 := set_q r 0 0 in                                   (* pop_all *)
    if negb (av <? 2 ^ ab) then (Panic 1, r0)                  (* BitQueue::from_value assertion (ab < 8 <= w) *)
    else
      let bits := n - ab in
      match (if 0 <? bits / 8 then cur_read_exact (bits / 8) r0 else (Some [], r0)) with
      | (None, r1) => (EIo EUnexpectedEof, r1)
      | (Some bs, r1) =>
        match push_bytes w bs av ab with
        | None => (Panic 2, r1)                                (* BitQueue::push assertion *)
        | Some (av1, ab1) =>
          let k := bits mod 8 in
          if 0 <? k then                                       (* read_unaligned *)
            match cur_read_exact 1 r1 with
            | (Some (b :: _), r2) =>
              let '(x, (v', b')) := q_pop k (b2n b) 8 in       (* rem.set(byte, 8); rem.pop(k) *)
              if w - ab1 <? k then (Panic 2, set_q r2 v' b')
              else (Ok (N.lor av1 (shl w x ab1)), set_q r2 v' b')
            | (_, r2) => (EIo EUnexpectedEof, r2)
            end
          else (Ok av1, r1)
        end
      end.

(* BitRead::read_bit *)
Definition br_read_bit (r : breader) : res bool * breader :=
  if qb r =? 0 then
    match cur_read_exact 1 r with
    | (Some (b :: _), r1) => let '(x, (v', b')) := q_pop 1 (b2n b) 8 in (Ok (x =? 1), set_q r1 v' b')
    | (_, r1) => (EIo EUnexpectedEof, r1)
    end
  else let '(x, (v', b')) := q_pop 1 (qv r) (qb r) in (Ok (x =? 1), set_q r v' b').

(* BitRead::skip(bits).  skip_aligned reads min(8, left) bytes at a time with read_exact; over a Cursor that is the same
   as one read_exact of bits/8 bytes (success iff that many bytes remain; failure leaves the cursor at the end). *)
Definition br_skip (bits : N) (r : breader) : res unit * breader :=
  let to_drop := N.min (qb r) bits in
  let r1 := if to_drop =? 0 then r
            else if to_drop <? qb r then set_q r (N.shiftr (qv r) to_drop) (qb r - to_drop)   (* LE::drop *)
            else set_q r 0 0 in
  let bits1 := bits - to_drop in
  match (if 0 <? bits1 / 8 then cur_read_exact (bits1 / 8) r1 else (Some [], r1)) with
  | (None, r2) => (EIo EUnexpectedEof, r2)
  | (Some _, r2) =>
    let k := bits1 mod 8 in
    if 0 <? k then                                             (* skip_unaligned *)
      match cur_read_exact 1 r2 with
      | (Some (b :: _), r3) => let '(_, (v', b')) := q_pop k (b2n b) 8 in (Ok tt, set_q r3 v' b')
      | (_, r3) => (EIo EUnexpectedEof, r3)
      end
    else (Ok tt, r2)
  end.

(* BitReader::position_in_bits = stream_position * 8 - bitqueue.len()   (u64; no underflow: BitBufProofs.bitpos_no_underflow) *)
Definition br_position_in_bits (r : breader) : N := rpos r * 8 - qb r.

(* the bits this reader can still deliver without touching anything else: queue, then the bytes after the cursor *)
Definition br_bits (r : breader) : list bool := qbits (N.to_nat (qb r)) (qv r) ++ mbits (ndrop (rpos r) (rbuf r)).

(* A compiled prefix-code reader is a PARAMETER here (the tree model belongs to Webp/Huffman*.v): a function from the
   available bits to (symbol, number of bits consumed), None when the bits run out before a leaf;
   hd_longest = CanonicalHuffmanTree::longest_code_len. *)
Record hdec := mkhdec { hd_dec : list bool -> option (N * N); hd_longest : N }.

(* HuffmanRead::read_huffman walks byte-indexed state tables compiled from the trie; Appendix A of DESIGN.md: equivalent
   to descending the trie one bit at a time.  Consuming k bits one at a time is k x read_bit (same queue and cursor as
   the table walk: a byte is fetched only when the queue is empty and another bit is needed; a code ending on a byte
   boundary leaves the queue empty).  On end of data the queue is untouched and the cursor is at the end. *)
Definition br_read_huffman (d : hdec) (r : breader) : res N * breader :=
  match hd_dec d (br_bits r) with
  | Some (s, k) => (Ok s, Nat.iter (N.to_nat k) (fun r' => snd (br_read_bit r')) r)
  | None => (EIo EUnexpectedEof, set_pos r (nlen (rbuf r)))
  end.

(* ------------------------------------------------------------------------------------------------------------------ *)
(* The underlying reader R: the bytes not yet delivered and a short-read oracle: the i-th call of read(buf) delivers
   min(buf.len(), max(1, schunk i), bytes left) bytes (Ok(0) only at the end of the data, as io::Read requires for a
   non-empty buf). *)
Record source := mksrc { sdata : bytes; schunk : N -> N; sidx : N }.

Definition src_read (k : N) (s : source) : bytes * source :=
  let n := N.min k (N.min (N.max 1 (schunk s (sidx s))) (nlen (sdata s))) in
  (ntake n (sdata s), mksrc (ndrop n (sdata s)) (schunk s) (sidx s + 1)).

(* input.take(limit).read_to_end(&mut buf) with limit = buf.capacity() - buf.len()  (std default_read_to_end over Take):
   while the limit is not used up, one inner read of `limit` bytes (the 32-byte probe and the spare-capacity read both
   come to min(limit, ...) = limit for limit <= 8192); Ok(0) ends it; short reads are absorbed; the vector never grows. *)
Fixpoint read_to_end_take (fuel : nat) (limit : N) (s : source) (buf : bytes) : option (bytes * source) :=
  match fuel with
  | O => None
  | S f =>
    if limit =? 0 then Some (buf, s)
    else let '(chunk, s') := src_read limit s in
         match chunk with
         | [] => Some (buf, s')
         | _ => read_to_end_take f (limit - nlen chunk) s' (buf ++ chunk)
         end
  end.

(* ------------------------------------------------------------------------------------------------------------------ *)
(* BitBufReader { input: Option<R>, reader: BitReader<Cursor<Vec<u8>>, E>, buf_len }   + the Vec's capacity            *)
(* nreads is a ghost: inner read calls issued so far (the real R is dropped when input becomes None).                  *)
Record bbr := mkbbr { input : option source; rd : breader; cap : N; buf_len : N; nreads : N }.

Definition with_capacity (src : source) (capacity : N) : bbr :=
  mkbbr (Some src) (mkbr [] 0 0 0) capacity 0 0.

Definition set_rd (st : bbr) (r : breader) : bbr := mkbbr (input st) r (cap st) (buf_len st) (nreads st).

Definition buf_bit_pos (st : bbr) : N := br_position_in_bits (rd st).
Definition buf_bits (st : bbr) : N := buf_len st * 8 - buf_bit_pos st.

Definition fill_buf (st : bbr) : res unit * bbr :=
  let bit_pos := buf_bit_pos st in
  let byte_pos := bit_pos / 8 in
  match input st with
  | None => (Ok tt, st)
  | Some src =>
    let buf := rbuf (rd st) in                                           (* into_reader().into_inner(): queue discarded *)
    if nlen buf <? byte_pos then (Panic 3, st)                           (* buf.drain(..byte_pos) out of range *)
    else
      let buf1 := ndrop byte_pos buf in
      match read_to_end_take (S (N.to_nat (cap st - nlen buf1))) (cap st - nlen buf1) src buf1 with
      | None => (OutOfFuel, st)
      | Some (buf2, src') =>
        (* `if buf.len() < buf.capacity() { self.input = None; }`: read_to_end stopped before the limit = end of input *)
        let input' := if nlen buf2 <? cap st then None else Some src' in
        let '(sk, r1) := br_skip (bit_pos mod 8) (mkbr buf2 0 0 0) in
        let st' := mkbbr input' r1 (cap st) (nlen buf2) (nreads st + (sidx src' - sidx src)) in
        match sk with
        | Ok _ => (Ok tt, st')
        | EParse e => (EParse e, st') | EIo e => (EIo e, st') | Panic s => (Panic s, st') | OutOfFuel => (OutOfFuel, st')
        end
      end
  end.

(* .map_eof(|_| Error::Parse(TruncatedChunk)) *)
Definition map_eof {A} (r : res A) : res A :=
  match r with EIo EUnexpectedEof => EParse TruncatedChunk | x => x end.

Definition buf_read (w n : N) (st : bbr) : res N * bbr :=
  let '(v, r') := br_read w n (rd st) in (map_eof v, set_rd st r').
Definition buf_read_bit (st : bbr) : res bool * bbr :=
  let '(v, r') := br_read_bit (rd st) in (map_eof v, set_rd st r').
Definition buf_read_huffman (d : hdec) (st : bbr) : res N * bbr :=
  let '(v, r') := br_read_huffman d (rd st) in (map_eof v, set_rd st r').

Definition LZ77_MAX_SYMBOL : N := 39.
Definition LZ77_MAX_LEN : N := (LZ77_MAX_SYMBOL - 2) / 2.

(* NonZeroU32::MIN.saturating_add(x) *)
Definition nz_sat_add1 (x : N) : N := N.min (1 + x) (2 ^ 32 - 1).

Definition buf_read_lz77 (code : N) (st : bbr) : res N * bbr :=
  if code <=? 3 then (Ok (nz_sat_add1 code), st)
  else if code <=? LZ77_MAX_SYMBOL then
    let extra_bits := N.shiftr (code - 2) 1 in
    let offset := N.shiftl (2 + N.land code 1) extra_bits in
    match buf_read 32 extra_bits st with
    | (Ok v, st') => (Ok (nz_sat_add1 (offset + v)), st')
    | (EParse e, st') => (EParse e, st') | (EIo e, st') => (EIo e, st')
    | (Panic s, st') => (Panic s, st') | (OutOfFuel, st') => (OutOfFuel, st')
    end
  else (EParse WInvalidInput, st).

(* `if self.buf_bits() < needed { self.fill_buf()?; }` : head of read / read_bit / read_huffman and of the pixel loop of
   EntropyCodedImage::read (lossless.rs) *)
Definition ensure (needed : N) (st : bbr) : res unit * bbr :=
  if buf_bits st <? needed then fill_buf st else (Ok tt, st).

Definition after_ensure {A} (needed : N) (f : bbr -> res A * bbr) (st : bbr) : res A * bbr :=
  match ensure needed st with
  | (Ok _, st') => f st'
  | (EParse e, st') => (EParse e, st') | (EIo e, st') => (EIo e, st')
  | (Panic s, st') => (Panic s, st') | (OutOfFuel, st') => (OutOfFuel, st')
  end.

Definition read (w n : N) : bbr -> res N * bbr := after_ensure n (buf_read w n).
Definition read_bit : bbr -> res bool * bbr := after_ensure 1 buf_read_bit.
Definition read_huffman (d : hdec) : bbr -> res N * bbr := after_ensure (hd_longest d) (buf_read_huffman d).

(* ------------------------------------------------------------------------------------------------------------------ *)
(* Test glue for the correspondence driver (NOT the Huffman model of the development, which is Webp/Huffman.v):
   CanonicalHuffmanTree::new(code_lengths) as a list of (symbol, code) and a first-match decoder over it. *)
Fixpoint ins_sorted (x : N * N) (l : list (N * N)) : list (N * N) :=       (* key (length, symbol) *)
  match l with
  | [] => [x]
  | y :: t => if (snd x <? snd y) || ((snd x =? snd y) && (fst x <=? fst y)) then x :: l else y :: ins_sorted x t
  end.
Definition sort_lens (l : list (N * N)) : list (N * N) := fold_right ins_sorted [] l.

Fixpoint incr_rev (l : list bool) : list bool :=                            (* +1 on the reversed code, no carry out *)
  match l with [] => [] | false :: t => true :: t | true :: t => false :: incr_rev t end.
Definition code_resize (c : list bool) (k : N) : list bool :=
  ntake k c ++ repeat false (N.to_nat (k - nlen c)).

Fixpoint canon_rest (code : list bool) (l : list (N * N)) : list (N * list bool) :=
  match l with
  | [] => []
  | (s, len) :: t => let c := code_resize (rev (incr_rev (rev code))) len in (s, c) :: canon_rest c t
  end.

Definition canon_codes (lens : list (N * N)) : list (N * list bool) :=
  match filter (fun p => negb (snd p =? 0)) (sort_lens lens) with
  | [] => []
  | [(s, 1)] => [(s, [])]
  | (s, len) :: t => let c := code_resize [] len in (s, c) :: canon_rest c t
  end.

Fixpoint is_prefix (c l : list bool) : bool :=
  match c, l with
  | [], _ => true
  | x :: c', y :: l' => Bool.eqb x y && is_prefix c' l'
  | _ :: _, [] => false
  end.
Fixpoint codes_dec (codes : list (N * list bool)) (l : list bool) : option (N * N) :=
  match codes with
  | [] => None
  | (s, c) :: t => if is_prefix c l then Some (s, nlen c) else codes_dec t l
  end.
Definition codes_hdec (codes : list (N * list bool)) : hdec :=
  mkhdec (codes_dec codes)
         (match codes with [_] => 0 | _ => fold_right (fun p m => N.max (nlen (snd p)) m) 0 codes end).
