(* The "known chunk out of place" test of the two trailing-chunk loops of webpsan (after the image at file level; after the image
   inside an ANMF frame), tied to the source by regeneration: Gen/WebpKnown.v lists the names whose arm is
   `bail_attach!(ParseError::InvalidChunkLayout, ..)` in each of the two `match name` of webpsan/src/lib.rs (any other arm shape
   stops the translator; the catch-all must be the allow_unknown_chunks test).  The model tests
   `known_after_image n || teq n ANMF` at both sites; here: that test IS membership in each regenerated list, so dropping or
   adding a name in either source list (seed C14_2 dropped ANMF from the frame list) breaks these lemmas. *)
From Coq Require Import List NArith Bool.
From Coq.Strings Require Import Byte.
From MS Require Import Base.Bytes Base.Outcome Base.Prog Webp.Container Gen.WebpKnown.
Import ListNotations.

Lemma known_file_is_src (n : bytes) : known_after_image n || teq n ANMF = existsb (teq n) KNOWN_TRAILING_FILE_SRC.
Proof.
  unfold known_after_image, KNOWN_TRAILING_FILE_SRC. cbn [existsb].
  change [x41; x4c; x50; x48] with ALPH. change [x41; x4e; x49; x4d] with ANIM. change [x45; x58; x49; x46] with EXIF.
  change [x49; x43; x43; x50] with ICCP. change [x56; x50; x38; x20] with VP8. change [x56; x50; x38; x4c] with VP8L.
  change [x56; x50; x38; x58] with VP8X. change [x58; x4d; x50; x20] with XMP. change [x41; x4e; x4d; x46] with ANMF.
  destruct (teq n ALPH), (teq n ANIM), (teq n EXIF), (teq n ICCP), (teq n VP8), (teq n VP8L), (teq n VP8X), (teq n XMP), (teq n ANMF);
    reflexivity.
Qed.

Lemma known_frame_is_src (n : bytes) : known_after_image n || teq n ANMF = existsb (teq n) KNOWN_TRAILING_FRAME_SRC.
Proof.
  unfold known_after_image, KNOWN_TRAILING_FRAME_SRC. cbn [existsb].
  change [x41; x4c; x50; x48] with ALPH. change [x41; x4e; x49; x4d] with ANIM. change [x45; x58; x49; x46] with EXIF.
  change [x49; x43; x43; x50] with ICCP. change [x56; x50; x38; x20] with VP8. change [x56; x50; x38; x4c] with VP8L.
  change [x56; x50; x38; x58] with VP8X. change [x58; x4d; x50; x20] with XMP. change [x41; x4e; x4d; x46] with ANMF.
  destruct (teq n ALPH), (teq n ANIM), (teq n EXIF), (teq n ICCP), (teq n VP8), (teq n VP8L), (teq n VP8X), (teq n XMP), (teq n ANMF);
    reflexivity.
Qed.
