(* webpsan/src/parse/{vp8x,anim,anmf,alph,header}.rs: the ParseChunk / ParsedChunk codecs -- executable model.
   VP8X, ANIM, ANMF and ALPH parse their fields one after the other with the WebmPrim codecs (each `?` returns the
   first error); VP8X then checks the canvas pixel count; WebpChunk compares a FourCC with "WEBP". *)
From Coq Require Import List NArith ZArith Bool.
From Coq.Strings Require Import Byte.
From MS Require Import Base.Bytes Base.Outcome Webp.Prim.
Import ListNotations.
Open Scope N_scope.

Inductive chunk := CVp8x | CAnim | CAnmf | CAlph | CWebp.

(* the struct fields in declaration (= parse = put) order *)
Definition chunk_fields (c : chunk) : list prim :=
  match c with
  | CVp8x => [PVp8xFlags; PReserved 3; POB24; POB24]            (* flags, reserved, canvas_width, canvas_height *)
  | CAnim => [PU32; PU16]                                       (* background_color, loop_count *)
  | CAnmf => [PU24; PU24; POB24; POB24; PU24; PAnmfFlags]       (* x, y, width, height, duration, flags *)
  | CAlph => [PAlphFlags]                                       (* flags *)
  | CWebp => []
  end.

Definition WEBP : bytes := [x57; x45; x42; x50].

(* ParseChunk::ENCODED_LEN *)
Definition chunk_len (c : chunk) : nat :=
  match c with CWebp => 4%nat | _ => fold_right (fun p a => (prim_len p + a)%nat) 0%nat (chunk_fields c) end.

Fixpoint fields_parse (t : tbl) (ps : list prim) (l : bytes) : res (list pval * bytes) :=
  match ps with
  | [] => Ok ([], l)
  | p :: ps' =>
      '(v, r) <- prim_parse_t t p l ;;
      '(vs, r') <- fields_parse t ps' r ;;
      Ok (v :: vs, r')
  end.

Fixpoint fields_put (t : tbl) (ps : list prim) (vs : list pval) : bytes :=
  match ps, vs with
  | p :: ps', v :: vs' => prim_put_t t p v ++ fields_put t ps' vs'
  | _, _ => []
  end.

(* canvas_height.get().checked_mul(canvas_width.get()).is_some() on u32 *)
Definition canvas_ok (vs : list pval) : bool :=
  match vs with
  | [_; _; VN w; VN h] => h * w <=? U32MAX
  | _ => true
  end.

Definition chunk_parse_t (t : tbl) (c : chunk) (l : bytes) : res (list pval * bytes) :=
  match c with
  | CWebp =>
      '(name, r) <- fourcc_parse_raw l ;;
      if (if list_eq_dec Byte.byte_eq_dec name WEBP then true else false) then Ok ([], r) else EParse WInvalidInput
  | CVp8x =>
      '(vs, r) <- fields_parse t (chunk_fields c) l ;;
      if canvas_ok vs then Ok (vs, r) else EParse WInvalidInput
  | _ => fields_parse t (chunk_fields c) l
  end.

Definition chunk_put_t (t : tbl) (c : chunk) (vs : list pval) : bytes :=
  match c with
  | CWebp => WEBP
  | _ => fields_put t (chunk_fields c) vs
  end.

(* the values of each chunk struct: one well-formed value per field; VP8X values only come from parse, which
   has checked the canvas product *)
Fixpoint fields_wf (t : tbl) (ps : list prim) (vs : list pval) : bool :=
  match ps, vs with
  | [], [] => true
  | p :: ps', v :: vs' => prim_wf_t t p v && fields_wf t ps' vs'
  | _, _ => false
  end.
Definition chunk_wf_t (t : tbl) (c : chunk) (vs : list pval) : bool :=
  fields_wf t (chunk_fields c) vs && match c with CVp8x => canvas_ok vs | _ => true end.

Fixpoint pvals_eqb (a b : list pval) : bool :=
  match a, b with
  | [], [] => true
  | x :: a', y :: b' => pval_eqb x y && pvals_eqb a' b'
  | _, _ => false
  end.

Definition chunk_parse := chunk_parse_t cur.
Definition chunk_put := chunk_put_t cur.
Definition chunk_wf := chunk_wf_t cur.
