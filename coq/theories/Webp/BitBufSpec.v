(* C19, specification side: reading fields from the WHOLE byte string at once.
   Written from the property text and the WebP lossless bitstream document ("bits are read least-significant bit of
   each byte first; ReadBits(n) returns them as an n-bit number, first bit least significant"; LZ77 prefix coding),
   not from the code.  No buffer, no capacity, no refill, no chunking appears here. *)
From Coq Require Import List NArith Bool.
From Coq.Strings Require Import Byte.
From MS Require Import Base.Outcome.
Import ListNotations.
Open Scope N_scope.

(* the byte string as a list of bits, least significant bit of each byte first (Byte.to_bits is LSB first) *)
Definition bits_of_byte (b : byte) : list bool :=
  let '(b0, (b1, (b2, (b3, (b4, (b5, (b6, b7))))))) := Byte.to_bits b in [b0; b1; b2; b3; b4; b5; b6; b7].
Definition bits_of_bytes (l : list byte) : list bool := flat_map bits_of_byte l.

(* a field of bits as a number: sum of bit_i * 2^i *)
Fixpoint num_of_bits (l : list bool) : N :=
  match l with [] => 0 | b :: t => N.b2n b + 2 * num_of_bits t end.

Definition slen (l : list bool) : N := N.of_nat (length l).

(* fixed-width field of n bits into a w-bit unsigned integer type: a width that does not fit the type is refused;
   otherwise the first n bits; end of data exactly when fewer than n bits are left *)
Definition ideal_read (w n : N) (bits : list bool) : res N * list bool :=
  if w <? n then (EIo EInvalidInput, bits)
  else if n <=? slen bits then (Ok (num_of_bits (firstn (N.to_nat n) bits)), skipn (N.to_nat n) bits)
  else (EParse TruncatedChunk, []).

Definition ideal_read_bit (bits : list bool) : res bool * list bool :=
  match bits with
  | b :: t => (Ok b, t)
  | [] => (EParse TruncatedChunk, [])
  end.

(* a prefix-coded symbol: the decoder (a parameter: bits -> symbol and code length, None if the bits end first) *)
Definition ideal_read_code (dec : list bool -> option (N * N)) (bits : list bool) : res N * list bool :=
  match dec bits with
  | Some (s, k) => (Ok s, skipn (N.to_nat k) bits)
  | None => (EParse TruncatedChunk, [])
  end.

(* LZ77 prefix coding, WebP lossless bitstream specification section 5.2.2:
     if (prefix_code < 4) return prefix_code + 1;
     extra_bits = (prefix_code - 2) >> 1;  offset = (2 + (prefix_code & 1)) << extra_bits;
     return offset + ReadBits(extra_bits) + 1;
   prefix codes run from 0 to 39 (40 distance codes; 24 length codes) *)
Definition ideal_read_lz77 (code : N) (bits : list bool) : res N * list bool :=
  if code <? 4 then (Ok (code + 1), bits)
  else if code <? 40 then
    let extra_bits := (code - 2) / 2 in
    let offset := (2 + code mod 2) * 2 ^ extra_bits in
    if extra_bits <=? slen bits
    then (Ok (offset + num_of_bits (firstn (N.to_nat extra_bits) bits) + 1), skipn (N.to_nat extra_bits) bits)
    else (EParse TruncatedChunk, [])
  else (EParse WInvalidInput, bits).
Definition lz77_extra_bits (code : N) : N := if code <? 4 then 0 else if code <? 40 then (code - 2) / 2 else 0.

(* ------------------------------------------------------------------------------------------------------------------ *)
(* A consumer of the bit stream (e.g. LosslessImage::read) as a decision tree over the values it reads.  Two families
   of accesses, as in the code: the plain ones, and the pixel-loop pattern "announce r bits of read-ahead, then use
   the buffer-only accessors".  For the ideal reader the announcement means nothing and both families are the same. *)
Record decoder := mkdecoder { dc_dec : list bool -> option (N * N); dc_longest : N }.

Inductive cop :=
  | CRead (w n : N) | CReadBit | CHuff (d : decoder)
  | CAhead (r : N)
  | CBRead (w n : N) | CBReadBit | CBHuff (d : decoder) | CBLz77 (code : N).
Inductive cval := VN (n : N) | VB (b : bool) | VU.

Inductive cprog (A : Type) :=
  | CRet (a : A)
  | CFail (e : perr)
  | CDo (o : cop) (k : cval -> cprog A).
Arguments CRet {A} a.
Arguments CFail {A} e.
Arguments CDo {A} o k.

Definition lift {A B} (f : A -> cval) (r : res A * B) : res cval * B :=
  match r with
  | (Ok a, s) => (Ok (f a), s)
  | (EParse e, s) => (EParse e, s) | (EIo e, s) => (EIo e, s) | (Panic p, s) => (Panic p, s) | (OutOfFuel, s) => (OutOfFuel, s)
  end.

Definition ideal_op (o : cop) (bits : list bool) : res cval * list bool :=
  match o with
  | CRead w n | CBRead w n => lift VN (ideal_read w n bits)
  | CReadBit | CBReadBit => lift VB (ideal_read_bit bits)
  | CHuff d | CBHuff d => lift VN (ideal_read_code (dc_dec d) bits)
  | CAhead _ => (Ok VU, bits)
  | CBLz77 c => lift VN (ideal_read_lz77 c bits)
  end.

Fixpoint run_ideal {A} (p : cprog A) (bits : list bool) : res A :=
  match p with
  | CRet a => Ok a
  | CFail e => EParse e
  | CDo o k =>
    match ideal_op o bits with
    | (Ok v, bits') => run_ideal (k v) bits'
    | (EParse e, _) => EParse e | (EIo e, _) => EIo e | (Panic s, _) => Panic s | (OutOfFuel, _) => OutOfFuel
    end
  end.

(* what a prefix-code decoder must satisfy to be a decoder at all: it looks only at the bits it consumes, consumes at
   most its longest code, and cannot run dry when that many bits are available *)
Definition decoder_ok (d : decoder) : Prop :=
  (forall l s k, dc_dec d l = Some (s, k) ->
     k <= slen l /\ k <= dc_longest d /\
     forall l', firstn (N.to_nat k) l' = firstn (N.to_nat k) l -> dc_dec d l' = Some (s, k)) /\
  (forall l, dc_longest d <= slen l -> dc_dec d l <> None).

(* the discipline of the read-ahead pattern: with m the largest amount ever requested of the buffer (m + 7 <= 8 * capacity),
   every buffer-only access stays within what the last announcement left (budget) *)
Definition op_ok (m budget : N) (o : cop) : Prop :=
  match o with
  | CRead w n => w <= m
  | CReadBit => 1 <= m
  | CHuff d => decoder_ok d /\ dc_longest d <= m
  | CAhead r => r <= m
  | CBRead w n => n <= w -> n <= budget
  | CBReadBit => 1 <= budget
  | CBHuff d => decoder_ok d /\ dc_longest d <= budget
  | CBLz77 c => lz77_extra_bits c <= budget
  end.
(* what is still announced after the access *)
Definition op_budget (budget : N) (o : cop) : N :=
  match o with
  | CRead _ _ | CReadBit | CHuff _ => 0
  | CAhead r => r
  | CBRead _ n => budget - n
  | CBReadBit => budget - 1
  | CBHuff d => budget - dc_longest d
  | CBLz77 c => budget - lz77_extra_bits c
  end.
Fixpoint cwf {A} (m budget : N) (p : cprog A) : Prop :=
  match p with
  | CRet _ | CFail _ => True
  | CDo o k => op_ok m budget o /\ forall v, cwf m (op_budget budget o) (k v)
  end.
