(* C09 (WebP lossless validator): totality for ALL dimensions a container can pass, 0 < w, h <= 2^24, with no bound on
   the pixel count w*h (an ANMF frame header declares up to 2^24 x 2^24 pixels; the code saturates the pixel count at
   2^32-1).  [Vp8lProofsTop.model_total] needs w*h < 2^32 because it goes through the equivalence with the materialising
   specification; here only "Ok or a parse error" is shown, reusing the simulations below the dimension arithmetic
   (colour cache, prefix-code groups, the pixel loop for an ARBITRARY pixel count) to exclude Panic / Io outcomes, and
   the fuel lemmas of Vp8lProofsFuel.v to exclude OutOfFuel. *)
From Coq Require Import List NArith ZArith PeanoNat Bool Lia ZifyBool ZifyNat ZifyN.
From Coq.Strings Require Import Byte.
From MS Require Import Base.Bytes Base.Outcome Webp.Huffman Webp.HuffmanSpec Webp.HuffmanProofs
  Webp.BitBufSpec Webp.Vp8l Webp.Vp8lSpec Webp.Vp8lProofs Webp.Vp8lProofsCodes Webp.Vp8lProofsPixels Webp.Vp8lProofsMain
  Webp.Vp8lProofsFuel.
Import ListNotations.
Open Scope N_scope.
Arguments N.add : simpl never.
Arguments N.sub : simpl never.
Arguments N.mul : simpl never.
Arguments N.div : simpl never.
Arguments N.modulo : simpl never.
Arguments N.pow : simpl never.
Arguments N.eqb : simpl never.
Arguments N.ltb : simpl never.
Arguments N.leb : simpl never.
Arguments N.min : simpl never.

(* no Panic / Io outcome, and P holds of an Ok value *)
Definition CLP {A} (P : A -> Prop) (m : M A) : Prop :=
  forall bits, match m bits with Ok (a, _) => P a | EIo _ | Panic _ => False | _ => True end.

Lemma CLP_bind {A B} (P : A -> Prop) (Q : B -> Prop) (m : M A) (f : A -> M B) :
  CLP P m -> (forall a, P a -> CLP Q (f a)) -> CLP Q (mbind m f).
Proof.
  intros Hm Hf bits. unfold mbind. specialize (Hm bits). destruct (m bits) as [[a rest]|e|e|p|]; auto. apply Hf. exact Hm.
Qed.
Lemma CLP_ret {A} (P : A -> Prop) a : P a -> CLP P (mret a).
Proof. intros H bits. exact H. Qed.
Lemma CLP_fail {A} (P : A -> Prop) e : CLP P (@mfail A e).
Proof. intros bits. exact I. Qed.
Lemma CLP_weaken {A} (P Q : A -> Prop) m : (forall a, P a -> Q a) -> CLP P m -> CLP Q m.
Proof. intros H Hm bits. specialize (Hm bits). destruct (m bits) as [[a rest]|e|e|p|]; auto. Qed.
Lemma CLP_of_sim {A B} (R : A -> B -> Prop) (P : A -> Prop) (m : M A) (s : SM B) :
  (forall bits, sim R (m bits) (s bits)) -> (forall a b, R a b -> P a) -> CLP P m.
Proof.
  intros Hs HR bits. specialize (Hs bits). destruct (m bits) as [[a rest]|e|e|p|]; cbn in Hs; auto.
  destruct Hs as (b & _ & Hab). eapply HR; eauto.
Qed.
Lemma CLP_rd w n : n <= w -> CLP (fun v => v < 2 ^ n) (rd w n).
Proof.
  intros H bits. unfold rd. replace (w <? n) with false by lia.
  destruct (take_num (N.to_nat n) bits) as [[v rest]|] eqn:E; [|exact I].
  assert (X : rd w n bits = Ok (v, rest)) by (unfold rd; replace (w <? n) with false by lia; rewrite E; reflexivity).
  apply rd_value in X. apply X.
Qed.
Lemma CLP_rd_bit : CLP (fun _ => True) rd_bit.
Proof. apply (CLP_of_sim (fun a b => a = b) _ rd_bit read_flag); [apply sim_rd_bit | auto]. Qed.
Lemma CLP_color_cache : CLP (fun len => len <= 2048) read_color_cache.
Proof. eapply CLP_of_sim; [apply sim_read_color_cache|]. intros a b (_ & H & _). exact H. Qed.
Lemma CLP_group cache_len : cache_len <= 2048 -> CLP (fun _ => True) (read_group cache_len).
Proof. intros H. eapply CLP_of_sim; [intros bits; apply sim_read_group; exact H | auto]. Qed.
Lemma CLP_groups cache_len : cache_len <= 2048 -> forall n, CLP (fun _ => True) (Vp8l.read_groups n cache_len).
Proof. intros H n. eapply CLP_of_sim; [intros bits; apply sim_read_groups; exact H | auto]. Qed.

(* one entropy-coded sub-image, any height: the pixel loop runs on total = min(w*h, 2^32-1) pixels and is simulated by
   the specification's pixel decoder run on that same count *)
Lemma CLP_entropy_image ro pu w h : role_purpose ro pu -> w < 2 ^ 29 -> CLP (fun _ => True) (read_entropy_image ro w h).
Proof.
  intros Hrole Hw bits. unfold read_entropy_image.
  set (total := sat_mul_u32 w h).
  assert (HS : sim (FinalR pu)
                (mbind read_color_cache (fun cache_len => mbind (read_group cache_len)
                   (fun g s => pixel_loop (S (length s)) ro g cache_len w total 0 0 s)) bits)
                (sbind read_cache_bits (fun cb => sbind (read_codes true (cache_size cb))
                   (fun cs => decode_pixels true (N.to_nat total) pu cs cb w total (mkd pempty 0 pempty 0 0))) bits)).
  { eapply sim_bind; [apply sim_read_color_cache|]. intros cache_len cb b1 (Hcl & Hc2048 & Hcb).
    eapply sim_bind; [rewrite <- Hcl; apply sim_read_group; exact Hc2048|]. intros g cs b2 HG.
    apply (sim_pixel_loop pu ro Hrole g cs cb cache_len w total HG Hcl Hw).
    - lia.
    - lia.
    - reflexivity.
    - reflexivity.
    - split; intros i; cbn [d_px d_cache]; rewrite pget_empty; apply (good_0 pu ro Hrole cb cache_len w Hcl Hw).
    - unfold Att. destruct pu; auto. }
  apply sim_clean in HS. unfold clean in HS.
  match goal with |- match ?x with _ => _ end => change x with
    (mbind read_color_cache (fun cache_len => mbind (read_group cache_len)
       (fun g s => pixel_loop (S (length s)) ro g cache_len w total 0 0 s)) bits) end.
  destruct (mbind _ _ bits) as [[a rest]|e|e|p|]; auto.
Qed.

Lemma len_in_blocks_pow len b : 0 < len -> len_in_blocks len (2 ^ b) = Ok (subsample len b).
Proof. apply len_in_blocks_subsample. Qed.

(* a transform: no Panic / Io, and the new width is in (0, tw] *)
Lemma CLP_transform ty tw h : ty < 4 -> 0 < tw <= 2 ^ 24 -> 0 < h ->
  CLP (fun tw' => 0 < tw' <= tw) (read_transform ty tw h).
Proof.
  intros Hty Hw Hh. unfold read_transform.
  assert (P24 : 2 ^ 24 < 2 ^ 29) by (apply N.pow_lt_mono_r; lia).
  destruct ((ty =? 0) || (ty =? 1)) eqn:E01.
  - eapply CLP_bind; [apply CLP_rd; lia|]. intros order Ho. cbv beta in Ho |- *.
    replace (2 + order) with (order + 2) by lia.
    pose proof (subsample_bounds tw (order + 2) ltac:(lia)) as Bw.
    intros bits. unfold mbind at 1. unfold mlift at 1. rewrite (len_in_blocks_subsample tw (order + 2)) by lia. cbv beta match.
    unfold mbind at 1. unfold mlift at 1. rewrite (len_in_blocks_subsample h (order + 2)) by lia. cbv beta match.
    revert bits. eapply CLP_bind.
    + destruct (ty =? 0); [apply (CLP_entropy_image RPredictor PPredictor) | apply (CLP_entropy_image RPlain PData)]; try exact I; lia.
    + intros _ _. apply CLP_ret. lia.
  - destruct (ty =? 2) eqn:E2; [apply CLP_ret; lia|].
    destruct (ty =? 3) eqn:E3; [|exfalso; lia].
    eapply CLP_bind; [apply CLP_rd; lia|]. intros n Hn. cbv beta in Hn |- *. change (2 ^ 8) with 256 in Hn.
    replace (N.min (1 + n) (2 ^ 32 - 1)) with (n + 1) by (change (2 ^ 32) with 4294967296; lia).
    eapply CLP_bind.
    + apply (CLP_entropy_image RPlain PData); [exact I|]. assert (2 ^ 8 < 2 ^ 29) by (apply N.pow_lt_mono_r; lia).
      change (2 ^ 8) with 256 in *. lia.
    + intros _ _ bits. unfold mlift, color_index_block.
      assert (K : forall b, len_in_blocks tw (2 ^ b) = Ok (subsample tw b)) by (intros b; apply len_in_blocks_subsample; lia).
      destruct (n + 1 <=? 2); [change 8 with (2 ^ 3); rewrite K; apply (subsample_bounds tw 3); lia|].
      destruct (n + 1 <=? 4); [change 4 with (2 ^ 2); rewrite K; apply (subsample_bounds tw 2); lia|].
      destruct (n + 1 <=? 16); [change 2 with (2 ^ 1); rewrite K; apply (subsample_bounds tw 1); lia|].
      change 1 with (2 ^ 0) at 1. rewrite K. apply (subsample_bounds tw 0); lia.
Qed.

Lemma CLP_transform_loop h : 0 < h -> forall fuel tw sn, 0 < tw <= 2 ^ 24 ->
  CLP (fun tw' => 0 < tw' <= tw) (transform_loop fuel tw h sn).
Proof.
  intros Hh. induction fuel as [|fuel IH]; intros tw sn Hw; cbn [transform_loop]; [intros bits; exact I|].
  eapply CLP_bind; [apply CLP_rd_bit|]. intros more _. destruct more; cbn [negb]; [|apply CLP_ret; lia].
  eapply CLP_bind; [apply CLP_rd; lia|]. intros ty Hty. cbv beta in Hty. change (2 ^ 2) with 4 in Hty.
  eapply CLP_bind; [apply CLP_transform; assumption|]. intros tw' Htw'. cbv beta in Htw' |- *.
  destruct (seen_get sn ty); [apply CLP_fail|].
  eapply CLP_weaken; [|apply IH; lia]. intros a Ha. cbv beta in *. lia.
Qed.

Lemma transform_loop_nofuel' h : 0 < h -> forall fuel tw sn bits, 0 < tw <= 2 ^ 24 -> (unseen sn < fuel)%nat ->
  transform_loop fuel tw h sn bits <> OutOfFuel.
Proof.
  intros Hh. induction fuel as [|fuel IH]; intros tw sn bits HD Hf; [lia|]. cbn [transform_loop].
  assert (P24 : 2 ^ 24 < 2 ^ 29) by (apply N.pow_lt_mono_r; lia).
  unfold mbind at 1. pose proof (NF_rd_bit bits) as N0. destruct (rd_bit bits) as [[more b1]|e|e|p|]; try discriminate; [|contradiction].
  destruct more; cbn [negb]; [|discriminate].
  unfold mbind at 1. pose proof (NF_rd 8 2 b1) as N1. pose proof (rd_value 8 2 b1) as V1.
  destruct (rd 8 2 b1) as [[ty b2]|e|e|p|]; try discriminate; [|contradiction].
  destruct (V1 ty b2 eq_refl) as [Hty _]. change (2 ^ 2) with 4 in Hty.
  unfold mbind at 1.
  pose proof (CLP_transform ty tw h Hty HD Hh b2) as C2.
  assert (N2 : read_transform ty tw h b2 <> OutOfFuel).
  { unfold read_transform. destruct ((ty =? 0) || (ty =? 1)).
    - pose proof (NF_rd 32 3 b2) as N3. unfold mbind at 1. destruct (rd 32 3 b2) as [[order b3]|e|e|p|] eqn:Er; try discriminate; [|contradiction].
      apply rd_value in Er. destruct Er as [Ho _]. replace (2 + order) with (order + 2) by lia.
      pose proof (subsample_bounds tw (order + 2) ltac:(lia)) as Bw.
      unfold mbind at 1. unfold mlift at 1. rewrite (len_in_blocks_subsample tw (order + 2)) by lia. cbv beta match.
      unfold mbind at 1. unfold mlift at 1. rewrite (len_in_blocks_subsample h (order + 2)) by lia. cbv beta match.
      apply NF_bind; [apply NF_entropy_image; lia | intros; apply NF_ret].
    - destruct (ty =? 2); [discriminate|]. destruct (ty =? 3); [|discriminate].
      unfold mbind at 1. pose proof (NF_rd 32 8 b2) as N3. destruct (rd 32 8 b2) as [[n b3]|e|e|p|] eqn:Er; try discriminate; [|contradiction].
      apply rd_value in Er. destruct Er as [Hn _]. change (2 ^ 8) with 256 in Hn.
      replace (N.min (1 + n) (2 ^ 32 - 1)) with (n + 1) by (change (2 ^ 32) with 4294967296; lia).
      apply NF_bind.
      + apply NF_entropy_image. assert (2 ^ 8 < 2 ^ 29) by (apply N.pow_lt_mono_r; lia). change (2 ^ 8) with 256 in *. lia.
      + intros. apply NF_lift. apply len_in_blocks_nofuel. }
  destruct (read_transform ty tw h b2) as [[tw' b3]|e|e|p|]; try discriminate; [|contradiction].
  destruct (seen_get sn ty) eqn:Seen; [discriminate|].
  apply IH; [lia|]. pose proof (unseen_set sn ty Hty Seen). lia.
Qed.

(* the whole of LosslessImage::read *)
Definition wdims (w h : N) : Prop := 0 < w <= 2 ^ 24 /\ 0 < h <= 2 ^ 24.

Lemma CLP_read_meta tw h : 0 < tw <= 2 ^ 24 -> 0 < h -> CLP (fun _ => True) (read_meta tw h).
Proof.
  intros Hw Hh. unfold read_meta. assert (P24 : 2 ^ 24 < 2 ^ 29) by (apply N.pow_lt_mono_r; lia).
  eapply CLP_bind; [apply CLP_rd_bit|]. intros meta _. destruct meta; [|apply CLP_ret; exact I].
  eapply CLP_bind; [apply CLP_rd; lia|]. intros order Ho. cbv beta in Ho |- *. replace (2 + order) with (order + 2) by lia.
  pose proof (subsample_bounds tw (order + 2) ltac:(lia)) as Bw.
  intros bits. unfold mbind at 1. unfold mlift at 1. rewrite (len_in_blocks_subsample tw (order + 2)) by lia. cbv beta match.
  unfold mbind at 1. unfold mlift at 1. rewrite (len_in_blocks_subsample h (order + 2)) by lia. cbv beta match.
  revert bits. apply (CLP_entropy_image RMeta PMeta); [exact I | lia].
Qed.

Lemma lossless_image_clean w h : wdims w h -> CLP (fun _ => True) (lossless_image w h).
Proof.
  intros [Hw Hh]. unfold lossless_image.
  eapply CLP_bind; [apply CLP_transform_loop; [lia | exact Hw]|]. intros tw Htw. cbv beta in Htw.
  unfold read_spatial. eapply CLP_bind; [apply CLP_color_cache|]. intros cache_len Hc.
  eapply CLP_bind; [apply CLP_read_meta; lia|]. intros mg _. apply CLP_groups. exact Hc.
Qed.

Lemma lossless_image_nofuel' w h bits : wdims w h -> lossless_image w h bits <> OutOfFuel.
Proof.
  intros [Hw Hh]. unfold lossless_image. unfold mbind at 1.
  pose proof (transform_loop_nofuel' h ltac:(lia) transform_fuel w (false, false, false, false) bits Hw
                ltac:(unfold transform_fuel, unseen; lia)) as N1.
  pose proof (CLP_transform_loop h ltac:(lia) transform_fuel w (false, false, false, false) Hw bits) as C1.
  destruct (transform_loop transform_fuel w h (false, false, false, false) bits) as [[tw b1]|e|e|p|]; try discriminate; [|contradiction].
  cbv beta in C1. assert (P24 : 2 ^ 24 < 2 ^ 29) by (apply N.pow_lt_mono_r; lia).
  unfold read_spatial. apply NF_bind; [apply NF_color_cache|]. intros cache_len.
  apply NF_bind; [|intros mg; apply NF_groups].
  unfold read_meta. apply NF_bind; [apply NF_rd_bit|]. intros meta. destruct meta; [|apply NF_ret].
  intros b2. unfold mbind at 1. pose proof (NF_rd 32 3 b2) as N3.
  destruct (rd 32 3 b2) as [[order b3]|e|e|p|] eqn:Er; try discriminate; [|contradiction].
  apply rd_value in Er. destruct Er as [Ho _]. replace (2 + order) with (order + 2) by lia.
  pose proof (subsample_bounds tw (order + 2) ltac:(lia)) as Bw.
  unfold mbind at 1. unfold mlift at 1. rewrite (len_in_blocks_subsample tw (order + 2)) by lia. cbv beta match.
  unfold mbind at 1. unfold mlift at 1. rewrite (len_in_blocks_subsample h (order + 2)) by lia. cbv beta match.
  apply NF_entropy_image. lia.
Qed.

Theorem model_total_wide w h body : wdims w h ->
  lossless_read w h body = Ok tt \/ exists e, lossless_read w h body = EParse e.
Proof.
  intros HD. unfold lossless_read.
  pose proof (lossless_image_clean w h HD (bits_of_bytes body)) as C.
  pose proof (lossless_image_nofuel' w h (bits_of_bytes body) HD) as F.
  destruct (lossless_image w h (bits_of_bytes body)) as [[[] rest]|e|e|p|]; try contradiction; eauto.
Qed.

Example wdims_example : wdims (2 ^ 24) (2 ^ 24) /\ ~ (2 ^ 24 * 2 ^ 24 < 2 ^ 32).
Proof. unfold wdims. split; [lia|]. vm_compute. discriminate. Qed.
