(* C06_complete: an input that satisfies the grammar is accepted (strict and lenient ideal cursor), given enough
   fuel; [ilen/8 + 1] is enough.  Forward reasoning: each lemma takes a level that is "ready" at a chunk boundary of
   a tiled region and shows that the production runs to Ok and leaves the level ready at the next boundary. *)
From Coq Require Import List NArith Bool Lia ZifyBool ZifyNat ZifyN.
From Coq.Strings Require Import Byte.
From MS Require Import Base.Bytes Base.Outcome Base.Prog Webp.Prim Webp.Chunks Webp.Container Webp.Grammar
  Webp.ContainerProofs Webp.ContainerProofsTiles Webp.ContainerProofsSound Gen.Consts.
Import ListNotations.
Open Scope N_scope.
Arguments N.add : simpl never.
Arguments N.sub : simpl never.
Arguments N.mul : simpl never.
Arguments N.div : simpl never.
Arguments N.modulo : simpl never.
Arguments N.pow : simpl never.
Arguments N.eqb : simpl never.
Arguments N.ltb : simpl never.
Arguments N.leb : simpl never.
Arguments N.min : simpl never.
Arguments N.max : simpl never.
Arguments N.odd : simpl never.
Arguments N.land : simpl never.
Arguments N.testbit : simpl never.

(* lia after dropping hypotheses that are equations between opaque booleans (each one doubles lia's case analysis) *)
Ltac slia :=
  repeat match goal with
         | H : ?b = _ |- _ =>
           match type of b with bool =>
             lazymatch b with
             | N.eqb _ _ => fail | N.leb _ _ => fail | N.ltb _ _ => fail | (if _ then _ else _) => fail
             | _ => clear H
             end end
         end; lia.

Section C.
Variables (inp : input) (lenient : bool) (ms : N).
Variable lossless : N -> N -> bytes -> res unit.
Variable allow : bool.
Hypothesis Hms : ilen inp <= ms.
Notation exec' := (exec inp lenient ms).
Notation padreq' := (padreq inp).
Notation linv' := (linv inp).
Notation hdr_at' := (hdr_at inp).
Notation tiles' := (tiles inp).
Notation chunk_at' := (chunk_at inp).
Notation lok := (lok lossless).

Lemma skip_ok_intro p n : p + n <= ilen inp -> skip_ok inp lenient ms p n.
Proof. unfold skip_ok. destruct lenient; lia. Qed.

(* ------------------------------------------------------------------ the operations, in the success direction *)
Lemma has_remaining_go a fr p : linv' a fr p -> padreq' a fr p ->
  exec' (has_remaining (L a fr p)) p =
  (Ok (match nst a p with AIdle _ => more inp fr (npos a p) | _ => true end, L (nst a p) fr (npos a p)), npos a p).
Proof.
  intros Hl Hp. destruct (has_remaining_spec inp lenient ms a fr p Hl) as [(_ & E) | (Hn & _)]; [exact E | contradiction].
Qed.
Lemma read_any_header_go a fr p : linv' a fr p -> padreq' a fr p -> atb a p -> hdr_ok inp fr (loff a p) ->
  exec' (read_any_header (L a fr p)) p =
  (Ok (hdr_at' (loff a p), L (in_hdr inp (loff a p)) fr (loff a p + 8)), loff a p + 8).
Proof.
  intros Hl Hp Hb Hh. destruct (read_any_header_spec inp lenient ms a fr p Hl) as [(_ & _ & _ & E) | (Hn & _)];
    [exact E | tauto].
Qed.
Lemma read_header_go name a fr p : linv' a fr p -> padreq' a fr p -> atb a p -> hdr_ok inp fr (loff a p) ->
  ch_name (hdr_at' (loff a p)) = name ->
  exec' (read_header name (L a fr p)) p =
  (Ok (hdr_at' (loff a p), L (in_hdr inp (loff a p)) fr (loff a p + 8)), loff a p + 8).
Proof.
  intros Hl Hp Hb Hh Hn. destruct (read_header_spec inp lenient ms name a fr p Hl) as [(_ & _ & _ & _ & E) | (Hc & _)];
    [exact E | tauto].
Qed.
Lemma peek_header_go_some a fr p : linv' a fr p -> padreq' a fr p -> atb a p -> hdr_ok inp fr (loff a p) ->
  exec' (peek_header (L a fr p)) p =
  (Ok (Some (ch_name (hdr_at' (loff a p))), L (APeek (hdr_at' (loff a p))) fr (loff a p + 8)), loff a p + 8).
Proof.
  intros Hl Hp Hb Hh.
  destruct (peek_header_spec inp lenient ms a fr p Hl) as [(_ & _ & _ & E) | [(_ & _ & Hm & _) | (Hc & _)]];
    [exact E | apply hdr_ok_more in Hh; congruence | tauto].
Qed.
Lemma peek_header_go_none a fr p : linv' a fr p -> padreq' a fr p -> atb a p -> more inp fr (loff a p) = false ->
  exists n, exec' (peek_header (L a fr p)) p = (Ok (None, L (AIdle n) fr (loff a p)), loff a p).
Proof.
  intros Hl Hp Hb Hm.
  destruct (peek_header_spec inp lenient ms a fr p Hl) as [(_ & _ & Hh & _) | [(_ & _ & _ & E) | (Hc & _)]];
    [apply hdr_ok_more in Hh; congruence | exact E | tauto].
Qed.
Lemma read_data_go n h e fr p : 0 < n -> linv' (AIn h e) fr p -> p + n <= e -> fits fr (p + n) -> p + n <= ilen inp ->
  exec' (read_data n (L (AIn h e) fr p)) p = (Ok (iread inp p (N.to_nat n), L (AIn h e) fr (p + n)), p + n).
Proof.
  intros Hn Hl H1 H2 H3. destruct (read_data_spec inp lenient ms n h e fr p Hn Hl) as [(_ & _ & _ & E) | (Hc & _)];
    [exact E | tauto].
Qed.

(* the rest of a chunk's body can be skipped and its pad byte is fine *)
Definition body_ok (h : chdr) (e : N) (fr : list frame) : Prop :=
  fits fr (e + pad_of h) /\ e + pad_of h <= ilen inp /\ (N.odd (ch_len h) = true -> iget inp e = x00).

Lemma body_ok_padreq h e fr : body_ok h e fr -> padreq' (AIn h e) fr e.
Proof.
  intros (H1 & H2 & H3) E. cbn [npos] in E. replace (e <=? e) with true in E by lia.
  unfold pad_of in *. destruct (N.odd (ch_len h)); [|lia]. auto.
Qed.

Lemma skip_data_go h e fr p : linv' (AIn h e) fr p -> body_ok h e fr ->
  exists a' p', exec' (skip_data (L (AIn h e) fr p)) p = (Ok (L a' fr p'), p') /\ linv' a' fr p' /\ done_he inp h e a' p'.
Proof.
  intros Hl Hbo. pose proof Hl as [Hf Ha]. cbn [ainv] in Ha. pose proof Hbo as (B1 & B2 & B3).
  destruct (N.eq_dec p e) as [->|Hne].
  - pose proof (body_ok_padreq h e fr Hbo) as Hp.
    destruct (skip_data_boundary inp lenient ms (AIn h e) fr e Hl) as [(_ & E) | (Hn & _)];
      [cbn [atb]; lia | discriminate | | contradiction].
    destruct (linv_settle inp _ fr e Hl Hp) as (Hl' & _ & _). cbn [nst npos] in *.
    replace (e <=? e) with true in * by lia.
    exists (AIdle (ch_name h)), (e + pad_of h). split; [exact E|]. split; [exact Hl'|].
    right. exists (ch_name h). auto.
  - assert (Hfe : fits fr e) by (eapply fits_le; [exact B1 | lia]).
    destruct (skip_data_body inp lenient ms h e fr p Hf ltac:(lia)) as [(_ & _ & E) | (Hn & _)].
    + exists (AIn h e), e. split; [exact E|]. split; [split; [exact Hfe | cbn [ainv]; lia]|]. left. auto.
    + exfalso. apply Hn. split; [exact Hfe|]. apply skip_ok_intro. lia.
Qed.

(* ------------------------------------------------------------------ ready at a boundary of a tiled region *)
Record ready (a : astate) (fr : list frame) (p o stop : N) : Prop := {
  r_linv : linv' a fr p; r_atb : atb a p; r_pad : padreq' a fr p; r_off : loff a p = o;
  r_le : p <= stop; r_fits : fits fr stop; r_stop : stop <= ilen inp }.

Lemma tiles_cfacts fr o stop c cs : tiles' o stop (c :: cs) -> fits fr stop -> stop <= ilen inp ->
  let h := hdr_at' o in let e := o + 8 + ch_len h in
  c = chunk_at' o /\ hdr_ok inp fr o /\ body_ok h e fr /\ e + pad_of h <= stop /\ tiles' (e + pad_of h) stop cs.
Proof.
  intros Ht Hf Hs h e.
  assert (K : c = chunk_at' o /\ cend (chunk_at' o) + wpad (w_len (chunk_at' o)) <= stop
              /\ (N.odd (w_len (chunk_at' o)) = true -> iget inp (cend (chunk_at' o)) = x00)
              /\ tiles' (cend (chunk_at' o) + wpad (w_len (chunk_at' o))) stop cs).
  { inversion Ht; subst. auto. }
  destruct K as (-> & K1 & K2 & K3).
  rewrite cend_chunk_at, wlen_chunk_at, <- pad_of_wpad in *. fold h e in K1, K2, K3.
  split; [reflexivity|]. split; [split; [eapply fits_le; [exact Hf | lia] | lia]|].
  split; [split; [eapply fits_le; [exact Hf | lia] | split; [lia | exact K2]]|]. auto.
Qed.

Lemma done_ready h e a' p' fr stop : done_he inp h e a' p' -> linv' a' fr p' -> body_ok h e fr ->
  e + pad_of h <= stop -> fits fr stop -> stop <= ilen inp -> ready a' fr p' (e + pad_of h) stop.
Proof.
  intros Hd Hl Hbo Hle Hf Hs. destruct Hd as [(-> & ->) | (n & -> & -> & Hz)].
  - constructor; auto.
    + cbn [atb]. lia.
    + apply body_ok_padreq. exact Hbo.
    + cbn [loff npos]. replace (e <=? e) with true by lia. reflexivity.
    + lia.
  - constructor; auto.
    + exact I.
    + apply settled_padreq. exact I.
Qed.

(* ------------------------------------------------------------------ fuel *)
Definition fuel_ok (f : nat) (o stop : N) : Prop := (N.to_nat ((stop - o) / 8) < f)%nat.

Lemma fuel_step f o stop o' stop' : fuel_ok (S f) o stop -> o + 8 <= o' -> o' <= stop' -> stop' <= stop ->
  fuel_ok f o' stop'.
Proof.
  unfold fuel_ok. intros H H1 H2 H3.
  assert ((stop' - o' + 1 * 8) / 8 <= (stop - o) / 8) by (apply N.div_le_mono; lia).
  rewrite N.div_add in H0 by lia. lia.
Qed.
Lemma fuel_weaken f o stop o' stop' : fuel_ok f o stop -> o <= o' -> stop' <= stop -> fuel_ok f o' stop'.
Proof.
  unfold fuel_ok. intros H H1 H3.
  assert ((stop' - o') / 8 <= (stop - o) / 8) by (apply N.div_le_mono; lia). lia.
Qed.

(* ------------------------------------------------------------------ a chunk that is only skipped *)
Lemma skip_named_complete name a fr p o stop c cs : ready a fr p o stop -> tiles' o stop (c :: cs) -> w_name c = name ->
  exists a' p', exec' (skip_named name (L a fr p)) p = (Ok (L a' fr p'), p')
    /\ ready a' fr p' (cend c + wpad (w_len c)) stop.
Proof.
  intros [Hl Hb Hp Ho Hle Hf Hs] Ht Hn. subst o.
  destruct (tiles_cfacts fr _ stop c cs Ht Hf Hs) as (-> & Hh & Hbo & Hes & Ht').
  unfold skip_named. rewrite exec_bind, (read_header_go name a fr p Hl Hp Hb Hh).
  2:{ rewrite <- wname_chunk_at. exact Hn. }
  cbn [ebind]. destruct (skip_data_go _ _ fr _ (linv_in_hdr inp _ fr (proj1 Hh)) Hbo) as (a' & p' & E & Hl' & Hd).
  exists a', p'. split; [exact E|]. rewrite cend_chunk_at, wlen_chunk_at, <- pad_of_wpad.
  eapply done_ready; eauto.
Qed.

(* ------------------------------------------------------------------ trailing chunks *)
Lemma unit_ok (r : res unit) : is_ok r = true -> r = Ok tt.
Proof. destruct r as [[]| | | |]; try discriminate. reflexivity. Qed.

Lemma file_tail_complete fuel : forall a fr p o stop cs, ready a fr p o stop -> tiles' o stop cs ->
  tail_ok allow cs = true -> fuel_ok fuel o stop -> more inp fr stop = false ->
  exists n, exec' (file_tail allow fuel (L a fr p)) p = (Ok (L (AIdle n) fr stop), stop).
Proof.
  induction fuel as [|fuel IH]; intros a fr p o stop cs Hr Ht Hok Hfu Hm; [unfold fuel_ok in Hfu; lia|].
  pose proof Hr as [Hl Hb Hp Ho Hle Hf Hs]. cbn [file_tail].
  rewrite exec_bind, (has_remaining_go a fr p Hl Hp). cbn [ebind].
  destruct (linv_settle inp a fr p Hl Hp) as (Hl1 & Hs1 & _).
  pose proof (settled_padreq inp _ fr _ Hs1) as Hp1.
  destruct cs as [|c cs].
  - assert (Eso : stop = loff a p) by (inversion Ht; congruence). subst o.
    assert (Hst : exists n, nst a p = AIdle n /\ npos a p = stop).
    { rewrite Eso in *. destruct a as [n|h|h e]; cbn [nst npos loff atb] in *.
      - eauto.
      - exfalso. destruct Hl as [_ (H8 & _)]. lia.
      - replace (e <=? p) with true by lia. eauto. }
    destruct Hst as (n & En & Eo). rewrite En, Eo, Hm. cbn [negb]. rewrite exec_ret. eauto.
  - destruct (tiles_cfacts fr o stop c cs Ht Hf Hs) as (-> & Hh & Hbo & Hes & Ht').
    assert (Hmore : match nst a p with AIdle _ => more inp fr (npos a p) | _ => true end = true).
    { destruct (nst a p) eqn:En; auto. assert (npos a p = o).
      { subst o. destruct a as [n0|h0|h0 e0]; cbn [nst npos loff] in *; try discriminate; auto. }
      rewrite H. apply hdr_ok_more. exact Hh. }
    rewrite Hmore. cbn [negb].
    rewrite exec_bind, (read_any_header_go _ fr _ Hl1 Hp1); rewrite ?loff_nst, ?Ho; auto.
    2:{ apply atb_nst. exact Hb. }
    cbn [ebind].
    cbn [tail_ok forallb] in Hok. apply andb_prop in Hok. destruct Hok as [Hal Hok].
    apply andb_prop in Hok. destruct Hok as [Hk Hok]. rewrite wname_chunk_at, known_model in Hk.
    apply negb_true_iff in Hk. rewrite Hk. replace (negb allow) with false by (rewrite Hal; reflexivity).
    destruct (skip_data_go _ _ fr _ (linv_in_hdr inp _ fr (proj1 Hh)) Hbo) as (a' & p' & E & Hl' & Hd).
    rewrite exec_bind. unfold in_hdr. rewrite E. cbn [ebind].
    apply (IH a' fr p' (o + 8 + ch_len (hdr_at' o) + pad_of (hdr_at' o)) stop cs).
    + eapply done_ready; eauto.
    + exact Ht'.
    + destruct cs; [reflexivity|]. cbn [tail_ok]. rewrite Hal. exact Hok.
    + eapply fuel_step; [exact Hfu | | | lia]; [lia | apply (tiles_le _ _ _ _ Ht')].
    + exact Hm.
Qed.


(* ------------------------------------------------------------------ lossless payloads *)
Lemma body_ok_fits h e fr q : body_ok h e fr -> q <= e -> fits fr q /\ q <= ilen inp.
Proof. intros (H1 & H2 & _) Hq. split; [eapply fits_le; [exact H1 | lia] | lia]. Qed.

Lemma do_vp8l_complete dims h e fr p c : linv' (AIn h e) fr p -> body_ok h e fr ->
  w_off c = p -> w_len c = e - p -> vp8l_ok lok inp dims c = true ->
  exists a' p', exec' (do_vp8l lossless dims (L (AIn h e) fr p)) p = (Ok (L a' fr p'), p')
    /\ linv' a' fr p' /\ done_he inp h e a' p'.
Proof.
  intros Hl Hbo Ho Hlen Hok. unfold vp8l_ok, vp8l_dims in Hok. rewrite Ho, Hlen in Hok.
  destruct (e - p <? 5) eqn:E5; [discriminate|].
  destruct (negb (le inp p 1 =? 47)) eqn:Esig; [discriminate|].
  destruct (negb ((le inp (p + 1) 4 / 2 ^ 29) mod 8 =? 0)) eqn:Ever; [discriminate|].
  apply andb_prop in Hok. destruct Hok as [Hdims Hll]. apply unit_ok in Hll.
  destruct (body_ok_fits h e fr (p + 5) Hbo ltac:(lia)) as [Hf5 Hi5].
  destruct (body_ok_fits h e fr e Hbo ltac:(lia)) as [Hfe Hie].
  unfold do_vp8l. rewrite exec_bind, (read_data_go 5 h e fr p ltac:(lia) Hl ltac:(lia) Hf5 Hi5). cbn [ebind].
  change (N.to_nat 5) with 5%nat. rewrite exec_bind, exec_lift, parse_vp8l_spec, Esig. cbv zeta. rewrite Ever.
  cbn [ebind l_w l_h].
  rewrite exec_bind.
  assert (Ed : exec' (match dims with
                      | Some (w, h0) =>
                          if (le inp (p + 1) 4 mod 2 ^ 14 + 1 =? w) && ((le inp (p + 1) 4 / 2 ^ 14) mod 2 ^ 14 + 1 =? h0)
                          then Ret (Ok tt) else Ret (EParse WInvalidInput)
                      | None => Ret (Ok tt) end) (p + 5) = (Ok tt, p + 5)).
  { destruct dims as [[w hh]|]; [rewrite Hdims|]; reflexivity. }
  rewrite Ed. cbn [ebind].
  assert (Hl5 : linv' (AIn h e) fr (p + 5)) by (split; [exact Hf5 | cbn [ainv]; lia]).
  rewrite exec_bind, (read_body_spec inp lenient ms h e fr (p + 5) Hl5).
  rewrite (upto_full inp fr (p + 5) (e - (p + 5))) by (replace (p + 5 + (e - (p + 5))) with e by lia; assumption).
  cbn [ebind]. unfold get in Hll. replace (e - p - 5) with (e - (p + 5)) in Hll by lia.
  rewrite exec_bind, exec_lift, Hll. cbn [ebind].
  apply skip_data_go; [|exact Hbo]. split; [|cbn [ainv]; lia]. replace (p + 5 + (e - (p + 5))) with e by lia. exact Hfe.
Qed.

Lemma do_alph_complete w hh h e fr p c : linv' (AIn h e) fr p -> body_ok h e fr ->
  w_off c = p -> w_len c = e - p -> alph_ok lok inp w hh c = true ->
  exists a' p', exec' (do_alph lossless w hh (L (AIn h e) fr p)) p = (Ok (L a' fr p'), p')
    /\ linv' a' fr p' /\ done_he inp h e a' p'.
Proof.
  intros Hl Hbo Ho Hlen Hok. unfold alph_ok in Hok. rewrite Ho, Hlen in Hok.
  apply andb_prop in Hok. destruct Hok as [E1 Hok]. apply andb_prop in Hok. destruct Hok as [Eres Hll].
  destruct (body_ok_fits h e fr (p + 1) Hbo ltac:(lia)) as [Hf1 Hi1].
  destruct (body_ok_fits h e fr e Hbo ltac:(lia)) as [Hfe Hie].
  unfold do_alph. rewrite exec_bind, (read_data_go 1 h e fr p ltac:(lia) Hl ltac:(lia) Hf1 Hi1). cbn [ebind].
  change (N.to_nat 1) with 1%nat. rewrite exec_bind, exec_lift, parse_alph_spec, Eres. cbn [ebind].
  assert (Hl1 : linv' (AIn h e) fr (p + 1)) by (split; [exact Hf1 | cbn [ainv]; lia]).
  rewrite exec_bind, has_odd. destruct (N.odd (le inp p 1)).
  - apply unit_ok in Hll.
    rewrite exec_bind, (read_body_spec inp lenient ms h e fr (p + 1) Hl1).
    rewrite (upto_full inp fr (p + 1) (e - (p + 1))) by (replace (p + 1 + (e - (p + 1))) with e by lia; assumption).
    cbn [ebind]. unfold get in Hll. replace (e - p - 1) with (e - (p + 1)) in Hll by lia.
    rewrite exec_bind, exec_lift, Hll. cbn [ebind]. rewrite exec_ret. cbn [ebind].
    apply skip_data_go; [|exact Hbo]. split; [|cbn [ainv]; lia]. replace (p + 1 + (e - (p + 1))) with e by lia. exact Hfe.
  - rewrite exec_ret. cbn [ebind]. apply skip_data_go; assumption.
Qed.

(* ------------------------------------------------------------------ image data *)
Notation image_part' := (image_part lossless).

Lemma image_part_complete alph dims fr o stop c cs : tiles' o stop (c :: cs) -> fits fr stop -> stop <= ilen inp ->
  (w_name c = VP8 \/ (w_name c = VP8L /\ alph = false /\ vp8l_ok lok inp (Some dims) c = true)) ->
  exists a' p', exec' (image_part' alph dims (hdr_at' o) (L (in_hdr inp o) fr (o + 8))) (o + 8) = (Ok (L a' fr p'), p')
    /\ ready a' fr p' (cend c + wpad (w_len c)) stop /\ tiles' (cend c + wpad (w_len c)) stop cs.
Proof.
  intros Ht Hf Hs Himg. destruct (tiles_cfacts fr o stop c cs Ht Hf Hs) as (-> & Hh & Hbo & Hes & Ht').
  pose proof (linv_in_hdr inp o fr (proj1 Hh)) as Hl. rewrite wname_chunk_at in Himg.
  rewrite cend_chunk_at, wlen_chunk_at, <- pad_of_wpad.
  assert (K : exists a' p', exec' (image_part' alph dims (hdr_at' o) (L (in_hdr inp o) fr (o + 8))) (o + 8)
                            = (Ok (L a' fr p'), p') /\ linv' a' fr p'
                            /\ done_he inp (hdr_at' o) (o + 8 + ch_len (hdr_at' o)) a' p').
  { unfold image_part. destruct Himg as [Hv | (Hv & -> & Hok)]; rewrite Hv.
    - change (teq VP8 VP8) with true. cbn iota. apply skip_data_go; assumption.
    - destruct names_distinct as (_ & _ & N3). rewrite N3. change (teq VP8L VP8L) with true. cbn iota.
      apply (do_vp8l_complete (Some dims) _ _ fr (o + 8) (chunk_at' o)); auto.
      rewrite wlen_chunk_at. lia. }
  destruct K as (a' & p' & E & Hl' & Hd). exists a', p'. split; [exact E|]. split; [|exact Ht'].
  eapply done_ready; eauto.
Qed.


(* has_remaining then read_any_header when the region has another chunk *)
Lemma next_header_go a fr p o stop c cs : ready a fr p o stop -> tiles' o stop (c :: cs) ->
  exec' (has_remaining (L a fr p)) p = (Ok (true, L (nst a p) fr (npos a p)), npos a p)
  /\ exec' (read_any_header (L (nst a p) fr (npos a p))) (npos a p) = (Ok (hdr_at' o, L (in_hdr inp o) fr (o + 8)), o + 8).
Proof.
  intros [Hl Hb Hp Ho Hle Hf Hs] Ht. destruct (tiles_cfacts fr o stop c cs Ht Hf Hs) as (_ & Hh & _).
  destruct (linv_settle inp a fr p Hl Hp) as (Hl1 & Hs1 & _).
  pose proof (settled_padreq inp _ fr _ Hs1) as Hp1.
  split.
  - rewrite (has_remaining_go a fr p Hl Hp).
    assert (Hmore : match nst a p with AIdle _ => more inp fr (npos a p) | _ => true end = true).
    { destruct (nst a p) eqn:En; auto. assert (npos a p = o).
      { subst o. destruct a as [n0|h0|h0 e0]; cbn [nst npos loff] in *; try discriminate; auto. }
      rewrite H. apply hdr_ok_more. exact Hh. }
    rewrite Hmore. reflexivity.
  - rewrite (read_any_header_go _ fr _ Hl1 Hp1); rewrite ?loff_nst, ?Ho; auto. apply atb_nst. exact Hb.
Qed.

Lemma geq_true a b : geq a b = true <-> a = b.
Proof. apply teq_true. Qed.

(* [ALPH] VP8|VP8L as the grammar reads it, resolved into the facts the programme needs *)
Lemma image_ok_inv (allowed required : bool) w hh cs rest :
  image_ok lok inp allowed required w hh cs = Some rest ->
  (exists a i, cs = a :: i :: rest /\ w_name a = ALPH /\ allowed = true /\ alph_ok lok inp w hh a = true /\ w_name i = VP8)
  \/ (exists i, cs = i :: rest /\ required = false /\ w_name i <> ALPH
      /\ (w_name i = VP8 \/ (w_name i = VP8L /\ vp8l_ok lok inp (Some (w, hh)) i = true))).
Proof.
  unfold image_ok. destruct cs as [|a r]; [discriminate|].
  destruct (geq (w_name a) gALPH) eqn:Ea.
  - destruct (allowed && alph_ok lok inp w hh a) eqn:E1; [|discriminate].
    destruct r as [|i r']; [discriminate|]. destruct (geq (w_name i) gVP8) eqn:Ei; [|discriminate].
    intros H. injection H as <-. left. exists a, i. apply andb_prop in E1. destruct E1 as [-> E1].
    apply geq_true in Ea, Ei. auto 6.
  - destruct required; [discriminate|]. assert (Hna : w_name a <> ALPH) by (apply teq_false; exact Ea).
    destruct (geq (w_name a) gVP8) eqn:E1.
    + intros H. injection H as <-. right. exists a. apply geq_true in E1. auto 6.
    + destruct (geq (w_name a) gVP8L) eqn:E2; [|discriminate].
      destruct (vp8l_ok lok inp (Some (w, hh)) a) eqn:E3; [|discriminate].
      intros H. injection H as <-. right. exists a. apply geq_true in E2. auto 7.
Qed.

Lemma still_complete x a fr p o stop cs rest : ready a fr p o stop -> tiles' o stop cs ->
  image_ok lok inp (has (x_flags x) F_ALPH) (has (x_flags x) F_ALPH) (x_w x) (x_h x) cs = Some rest ->
  exists a' p' o', exec' (sanitize_still lossless x (L a fr p)) p = (Ok (L a' fr p'), p')
    /\ ready a' fr p' o' stop /\ tiles' o' stop rest.
Proof.
  intros Hr Ht Hio. pose proof Hr as [Hl Hb Hp Ho Hle Hf Hs].
  rewrite sanitize_still_unfold.
  apply image_ok_inv in Hio. destruct Hio as [(c0 & i & -> & Hn0 & Ha & Hok & Hni) | (i & -> & Hreq & Hna & Himg)].
  - rewrite Ha. destruct (tiles_cfacts fr o stop _ _ Ht Hf Hs) as (-> & Hh & Hbo & Hes & Ht1).
    rewrite exec_bind, exec_bind, (read_header_go ALPH a fr p Hl Hp Hb); rewrite ?Ho; auto.
    cbn [ebind].
    destruct (do_alph_complete (x_w x) (x_h x) _ _ fr (o + 8) (chunk_at' o) (linv_in_hdr inp o fr (proj1 Hh)) Hbo
                eq_refl ltac:(rewrite wlen_chunk_at; lia) Hok) as (a1 & p1 & E1 & Hl1 & Hd1).
    rewrite exec_bind. unfold in_hdr at 1. rewrite E1. cbn [ebind]. rewrite exec_ret. cbn [ebind].
    assert (Hr1 : ready a1 fr p1 (o + 8 + ch_len (hdr_at' o) + pad_of (hdr_at' o)) stop) by (eapply done_ready; eauto).
    set (o1 := o + 8 + ch_len (hdr_at' o) + pad_of (hdr_at' o)) in *.
    destruct (next_header_go a1 fr p1 o1 stop i rest Hr1 Ht1) as [E2 E3].
    rewrite exec_bind, E2. cbn [ebind negb]. rewrite exec_bind, E3. cbn [ebind].
    destruct (image_part_complete true (x_w x, x_h x) fr o1 stop i rest Ht1 Hf Hs (or_introl Hni))
      as (a' & p' & E4 & Hr' & Ht').
    exists a', p', (cend i + wpad (w_len i)). auto.
  - assert (Ha : has (x_flags x) F_ALPH = false) by exact Hreq. rewrite Ha.
    rewrite exec_bind, exec_ret. cbn [ebind].
    destruct (next_header_go a fr p o stop i rest Hr Ht) as [E2 E3].
    rewrite exec_bind, E2. cbn [ebind negb]. rewrite exec_bind, E3. cbn [ebind].
    assert (Himg' : w_name i = VP8 \/ (w_name i = VP8L /\ false = false /\ vp8l_ok lok inp (Some (x_w x, x_h x)) i = true))
      by (destruct Himg as [?|[? ?]]; auto).
    destruct (image_part_complete false (x_w x, x_h x) fr o stop i rest Ht Hf Hs Himg') as (a' & p' & E4 & Hr' & Ht').
    exists a', p', (cend i + wpad (w_len i)). auto.
Qed.

(* ------------------------------------------------------------------ one ANMF frame *)
Notation alpha_part' := (alpha_part lossless).

Lemma ready_peek fr o stop c cs : tiles' o stop (c :: cs) -> fits fr stop -> stop <= ilen inp ->
  ready (APeek (hdr_at' o)) fr (o + 8) o stop.
Proof.
  intros Ht Hf Hs. destruct (tiles_cfacts fr o stop c cs Ht Hf Hs) as (_ & Hh & _ & Hes & _).
  constructor; auto.
  - apply (linv_peek inp lossless). exact Hh.
  - exact I.
  - apply settled_padreq. exact I.
  - apply (loff_peek lossless).
  - lia.
Qed.

Lemma alpha_part_complete x fw fh n fr p stop cs rest : fits fr stop -> stop <= ilen inp -> tiles' p stop cs ->
  image_ok lok inp (has (x_flags x) F_ALPH) false fw fh cs = Some rest ->
  exists alph a1 p1 o1 c1,
    exec' (alpha_part' x fw fh (L (AIdle n) fr p)) p = (Ok (alph, L a1 fr p1), p1)
    /\ ready a1 fr p1 o1 stop /\ tiles' o1 stop (c1 :: rest) /\ p <= o1
    /\ (w_name c1 = VP8 \/ (w_name c1 = VP8L /\ alph = false /\ vp8l_ok lok inp (Some (fw, fh)) c1 = true)).
Proof.
  intros Hf Hs Ht Hio. pose proof (tiles_le _ _ _ _ Ht) as Hps.
  assert (Hr0 : ready (AIdle n) fr p p stop).
  { constructor; auto; try exact I; try reflexivity.
    - split; [eapply fits_le; [exact Hf | exact Hps] | exact I].
    - apply settled_padreq. exact I. }
  unfold alpha_part.
  apply image_ok_inv in Hio. destruct Hio as [(c0 & i & -> & Hn0 & Ha & Hok & Hni) | (i & -> & _ & Hna & Himg)].
  - rewrite Ha. destruct (tiles_cfacts fr p stop _ _ Ht Hf Hs) as (-> & Hh & Hbo & Hes & Ht1).
    pose proof Hr0 as [Hl0 Hb0 Hp0 _ _ _ _].
    rewrite exec_bind, (peek_header_go_some (AIdle n) fr p Hl0 Hp0 Hb0 Hh). cbn [loff npos ebind].
    rewrite <- wname_chunk_at, Hn0. change (teq ALPH ALPH) with true. cbn iota.
    pose proof (ready_peek fr p stop _ _ Ht Hf Hs) as [Hlp Hbp Hpp Hop _ _ _].
    rewrite exec_bind, (read_header_go ALPH _ fr _ Hlp Hpp Hbp); rewrite ?Hop; auto.
    cbn [ebind].
    destruct (do_alph_complete fw fh _ _ fr (p + 8) (chunk_at' p) (linv_in_hdr inp p fr (proj1 Hh)) Hbo
                eq_refl ltac:(rewrite wlen_chunk_at; lia) Hok) as (a1 & p1 & E1 & Hl1 & Hd1).
    rewrite exec_bind. unfold in_hdr at 1. rewrite E1. cbn [ebind]. rewrite exec_ret.
    exists true, a1, p1, (p + 8 + ch_len (hdr_at' p) + pad_of (hdr_at' p)), i.
    split; [reflexivity|]. split; [eapply done_ready; eauto|]. split; [exact Ht1|]. split; [lia | left; exact Hni].
  - assert (Himg' : forall alph, alph = false ->
              w_name i = VP8 \/ (w_name i = VP8L /\ alph = false /\ vp8l_ok lok inp (Some (fw, fh)) i = true))
      by (intros alph ->; destruct Himg as [?|[? ?]]; auto).
    destruct (has (x_flags x) F_ALPH).
    + destruct (tiles_cfacts fr p stop _ _ Ht Hf Hs) as (Ei & Hh & _).
      pose proof Hr0 as [Hl0 Hb0 Hp0 _ _ _ _].
      rewrite exec_bind, (peek_header_go_some (AIdle n) fr p Hl0 Hp0 Hb0 Hh). cbn [loff npos ebind].
      rewrite <- wname_chunk_at, <- Ei. apply teq_false in Hna. rewrite Hna. rewrite exec_ret.
      exists false, (APeek (hdr_at' p)), (p + 8), p, i. split; [reflexivity|].
      split; [eapply ready_peek; eauto|]. split; [exact Ht|]. split; [lia | auto].
    + rewrite exec_ret. exists false, (AIdle n), p, p, i. split; [reflexivity|]. split; [exact Hr0|].
      split; [exact Ht|]. split; [lia | auto].
Qed.

Lemma more_top h e fr : more inp ((h, e) :: fr) e = false.
Proof. unfold more. cbn [fitsb forallb snd]. replace (e + 1 <=? e) with false by lia. reflexivity. Qed.

Lemma one_frame_complete fuel x a fr p o stop c cs : ready a fr p o stop -> tiles' o stop (c :: cs) ->
  w_name c = ANMF -> frame_ok lok allow inp (has (x_flags x) F_ALPH) c = true -> fuel_ok (S fuel) o stop ->
  let h := hdr_at' o in let e := o + 8 + ch_len h in
  exec' (one_frame lossless allow fuel x (L a fr p)) p = (Ok (L (AIn h e) fr e), e)
  /\ ready (AIn h e) fr e (e + pad_of h) stop /\ tiles' (e + pad_of h) stop cs.
Proof.
  intros Hr Ht Hn Hfo Hfu h e. pose proof Hr as [Hl Hb Hp Ho Hle Hf Hs].
  destruct (tiles_cfacts fr o stop c cs Ht Hf Hs) as (-> & Hh & Hbo & Hes & Ht1). fold h e in Hbo, Hes, Ht1.
  unfold frame_ok in Hfo. rewrite wlen_chunk_at in Hfo. fold h in Hfo. cbn [w_off chunk_at] in Hfo.
  apply andb_prop in Hfo. destruct Hfo as [Hfo Hreg]. apply andb_prop in Hfo. destruct Hfo as [H16 Hflags].
  replace (o + 8 + ch_len h) with e in Hreg by reflexivity.
  destruct (region_chunks inp (o + 8 + 16) e) as [csf|] eqn:Ereg; [|discriminate].
  apply region_chunks_tiles in Ereg.
  destruct (image_ok lok inp (has (x_flags x) F_ALPH) false (le inp (o + 8 + 6) 3 + 1) (le inp (o + 8 + 9) 3 + 1) csf)
    as [rest|] eqn:Eimg; [|discriminate].
  destruct (body_ok_fits h e fr e Hbo ltac:(lia)) as [Hfe Hie].
  destruct (body_ok_fits h e fr (o + 8 + 16) Hbo ltac:(lia)) as [Hf16 Hi16].
  rewrite one_frame_unfold.
  rewrite exec_bind, (read_header_go ANMF a fr p Hl Hp Hb); rewrite ?Ho; auto.
  cbn [ebind]. unfold in_hdr. fold h e.
  rewrite exec_bind, (read_data_go 16 h e fr (o + 8) ltac:(lia)); auto; try lia.
  2:{ apply (linv_in_hdr inp o fr (proj1 Hh)). }
  cbn [ebind]. change (N.to_nat 16) with 16%nat.
  rewrite exec_bind, exec_lift, parse_anmf_spec, Hflags. cbn [ebind].
  rewrite child_L. set (fr' := (h, e) :: fr).
  assert (Hfe' : fits fr' e) by (apply fits_cons; split; [cbn [snd]; lia | exact Hfe]).
  destruct (alpha_part_complete x _ _ (ch_name h) fr' (o + 8 + 16) e csf rest Hfe' Hie Ereg Eimg)
    as (alph & a1 & p1 & o1 & c1 & E1 & Hr1 & Ht2 & Ho1' & Himg).
  rewrite exec_bind, E1. cbn [ebind].
  pose proof Hr1 as [Hl1 Hb1 Hp1 Ho1 _ _ _].
  destruct (tiles_cfacts fr' o1 e c1 rest Ht2 Hfe' Hie) as (Ec1 & Hh1 & _).
  rewrite exec_bind, (read_any_header_go a1 fr' p1 Hl1 Hp1 Hb1); rewrite ?Ho1; auto. cbn [ebind].
  destruct (image_part_complete alph (le inp (o + 8 + 6) 3 + 1, le inp (o + 8 + 9) 3 + 1) fr' o1 e c1 rest Ht2 Hfe' Hie Himg)
    as (a3 & p3 & E3 & Hr3 & Ht3).
  rewrite exec_bind, E3. cbn [ebind].
  rewrite exec_bind, frame_tail_exec.
  assert (Hfu3 : fuel_ok fuel (cend c1 + wpad (w_len c1)) e).
  { eapply fuel_step; [exact Hfu | | apply (tiles_le _ _ _ _ Ht3) | lia].
    subst c1. rewrite cend_chunk_at. lia. }
  destruct (file_tail_complete fuel a3 fr' p3 _ e rest Hr3 Ht3 Hreg Hfu3 (more_top h e fr)) as (n & E4).
  rewrite E4. cbn [ebind]. rewrite exec_lift. unfold fr'. rewrite parent_L.
  split; [reflexivity|]. split; [|exact Ht1].
  apply (done_ready h e (AIn h e) e fr stop); auto.
  - left. auto.
  - split; [exact Hfe | cbn [ainv]; lia].
Qed.


(* ------------------------------------------------------------------ the frame loop *)
Lemma frames_complete fuel x : forall a fr p o stop cs rest, ready a fr p o stop -> tiles' o stop cs ->
  take_frames lok allow inp (has (x_flags x) F_ALPH) cs = Some rest -> fuel_ok fuel o stop ->
  more inp fr stop = false ->
  exists a' p' o', exec' (frames lossless allow fuel x (L a fr p)) p = (Ok (L a' fr p'), p')
    /\ ready a' fr p' o' stop /\ tiles' o' stop rest.
Proof.
  induction fuel as [|fuel IH]; intros a fr p o stop cs rest Hr Ht Htk Hfu Hm; [unfold fuel_ok in Hfu; lia|].
  pose proof Hr as [Hl Hb Hp Ho Hle Hf Hs]. cbn [frames].
  destruct cs as [|c cs].
  - injection Htk as <-. assert (Eso : stop = o) by (inversion Ht; congruence). subst stop.
    destruct (peek_header_go_none a fr p Hl Hp Hb) as (n & E); [rewrite Ho; exact Hm|]. rewrite Ho in E.
    rewrite exec_bind, E. cbn [ebind]. rewrite exec_ret. exists (AIdle n), o, o. split; [reflexivity|].
    split; [|exact Ht]. constructor; auto; try exact I; try reflexivity; try lia.
    + split; [exact Hf | exact I].
    + apply settled_padreq. exact I.
  - destruct (tiles_cfacts fr o stop c cs Ht Hf Hs) as (Ec & Hh & Hbo & Hes & Ht1).
    rewrite exec_bind, (peek_header_go_some a fr p Hl Hp Hb); rewrite ?Ho; auto. cbn [ebind].
    cbn [take_frames] in Htk. rewrite <- wname_chunk_at, <- Ec.
    change (teq (w_name c) ANMF) with (geq (w_name c) gANMF).
    destruct (geq (w_name c) gANMF) eqn:En.
    + destruct (frame_ok lok allow inp (has (x_flags x) F_ALPH) c) eqn:Efo; [|discriminate].
      apply geq_true in En.
      pose proof (ready_peek fr o stop c cs Ht Hf Hs) as Hrp.
      destruct (one_frame_complete fuel x _ fr _ o stop c cs Hrp Ht En Efo Hfu) as (E1 & Hr1 & _).
      rewrite exec_bind, E1. cbn [ebind].
      eapply IH; [exact Hr1 | exact Ht1 | exact Htk | | exact Hm].
      eapply fuel_step; [exact Hfu | | apply (tiles_le _ _ _ _ Ht1) | lia]. lia.
    + injection Htk as <-. rewrite exec_ret. exists (APeek (hdr_at' o)), (o + 8), o.
      split; [reflexivity|]. split; [eapply ready_peek; eauto | exact Ht].
Qed.


(* ------------------------------------------------------------------ ANIM ANMF+ *)
Notation anim_part' := (anim_part inp lossless allow).
Notation ext_seq' := (ext_seq inp lossless allow).

Lemma animated_complete fuel x a fr p o stop cs rest : ready a fr p o stop -> tiles' o stop cs ->
  anim_part' (has (x_flags x) F_ALPH) cs = Some rest -> fuel_ok fuel o stop -> more inp fr stop = false ->
  exists a' p' o', exec' (sanitize_animated lossless allow fuel x (L a fr p)) p = (Ok (L a' fr p'), p')
    /\ ready a' fr p' o' stop /\ tiles' o' stop rest.
Proof.
  intros Hr Ht Han Hfu Hm. pose proof Hr as [Hl Hb Hp Ho Hle Hf Hs].
  unfold anim_part in Han. destruct cs as [|c0 r]; [discriminate|].
  destruct (geq (w_name c0) gANIM && (w_len c0 =? 6)) eqn:E0; [|discriminate].
  apply andb_prop in E0. destruct E0 as [En0 El0]. apply geq_true in En0.
  destruct r as [|f0 r']; [discriminate|]. destruct (geq (w_name f0) gANMF) eqn:Ef0; [|discriminate].
  destruct (tiles_cfacts fr o stop c0 _ Ht Hf Hs) as (-> & Hh & Hbo & Hes & Ht1).
  rewrite wlen_chunk_at in El0. set (h := hdr_at' o) in *. set (e := o + 8 + ch_len h) in *.
  destruct (body_ok_fits h e fr e Hbo ltac:(lia)) as [Hfe Hie].
  unfold sanitize_animated.
  rewrite exec_bind, (read_header_go ANIM a fr p Hl Hp Hb); rewrite ?Ho; auto. cbn [ebind].
  unfold in_hdr. fold h e.
  rewrite exec_bind, (read_data_go 6 h e fr (o + 8) ltac:(lia)); auto; try lia.
  2:{ apply (linv_in_hdr inp o fr (proj1 Hh)). }
  2:{ replace (o + 8 + 6) with e by lia. exact Hfe. }
  cbn [ebind]. change (N.to_nat 6) with 6%nat.
  destruct (parse_anim_ok inp (o + 8)) as (v & Ev). rewrite exec_bind, exec_lift, Ev. cbn [ebind].
  replace (o + 8 + 6) with e by lia.
  assert (Hr1 : ready (AIn h e) fr e (e + pad_of h) stop).
  { apply (done_ready h e (AIn h e) e fr stop); auto; [left; auto | split; [exact Hfe | cbn [ainv]; lia]]. }
  pose proof Hr1 as [Hl1 Hb1 Hp1 Ho1 _ _ _].
  destruct (tiles_cfacts fr _ stop f0 r' Ht1 Hf Hs) as (Ef & Hh1 & _).
  rewrite exec_bind, (peek_header_go_some _ fr e Hl1 Hp1 Hb1); rewrite ?Ho1; auto. cbn [ebind].
  rewrite <- wname_chunk_at, <- Ef. change (teq (w_name f0) ANMF) with (geq (w_name f0) gANMF). rewrite Ef0.
  eapply frames_complete; [eapply ready_peek; eauto | exact Ht1 | exact Han | | exact Hm].
  eapply fuel_weaken; [exact Hfu | lia | lia].
Qed.

(* ------------------------------------------------------------------ an optional named chunk *)
Lemma opt_named_complete (flag : bool) name a fr p o stop cs rest : ready a fr p o stop -> tiles' o stop cs ->
  opt_chunk flag name cs = Some rest ->
  exists a' p' o', exec' (if flag then skip_named name (L a fr p) else Ret (Ok (L a fr p))) p = (Ok (L a' fr p'), p')
    /\ ready a' fr p' o' stop /\ tiles' o' stop rest /\ o <= o'.
Proof.
  intros Hr Ht Hopt. unfold opt_chunk in Hopt. destruct flag.
  - destruct cs as [|c r]; [discriminate|]. destruct (geq (w_name c) name) eqn:En; [|discriminate].
    injection Hopt as <-. apply geq_true in En.
    destruct (skip_named_complete name a fr p o stop c r Hr Ht En) as (a' & p' & E & Hr').
    destruct Hr as [_ _ _ _ _ Hf Hs].
    destruct (tiles_cfacts fr o stop c r Ht Hf Hs) as (-> & _ & _ & _ & Ht').
    exists a', p', (cend (chunk_at' o) + wpad (w_len (chunk_at' o))). split; [exact E|]. split; [exact Hr'|].
    rewrite cend_chunk_at, wlen_chunk_at, <- pad_of_wpad. split; [exact Ht' | lia].
  - injection Hopt as <-. rewrite exec_ret. exists a, p, o. split; [reflexivity|]. split; [exact Hr|]. split; [exact Ht | lia].
Qed.

(* ------------------------------------------------------------------ after VP8X *)
Lemma extended_complete fuel x a fr p o stop cs rest : ready a fr p o stop -> tiles' o stop cs ->
  ext_seq' (has (x_flags x) F_ICCP) (has (x_flags x) F_ALPH) (has (x_flags x) F_EXIF) (has (x_flags x) F_XMP)
           (has (x_flags x) F_ANIM) (x_w x) (x_h x) cs = Some rest ->
  fuel_ok fuel o stop -> more inp fr stop = false ->
  exists a' p' o', exec' (sanitize_extended lossless allow fuel x (L a fr p)) p = (Ok (L a' fr p'), p')
    /\ ready a' fr p' o' stop /\ tiles' o' stop rest.
Proof.
  intros Hr Ht Hseq Hfu Hm. unfold ext_seq in Hseq. unfold sanitize_extended.
  destruct (opt_chunk (has (x_flags x) F_ICCP) gICCP cs) as [cs1|] eqn:E1; [|discriminate].
  destruct (opt_named_complete _ ICCP a fr p o stop cs cs1 Hr Ht E1) as (a1 & p1 & o1 & X1 & Hr1 & Ht1 & Hle1).
  rewrite exec_bind, X1. cbn [ebind].
  match type of Hseq with match ?Y with _ => _ end = _ => destruct Y as [cs2|] eqn:E2; [|discriminate] end.
  assert (K : exists a2 p2 o2,
            exec' (if has (x_flags x) F_ANIM then sanitize_animated lossless allow fuel x (L a1 fr p1)
                   else sanitize_still lossless x (L a1 fr p1)) p1 = (Ok (L a2 fr p2), p2)
            /\ ready a2 fr p2 o2 stop /\ tiles' o2 stop cs2).
  { destruct (has (x_flags x) F_ANIM).
    - eapply animated_complete; eauto. eapply fuel_weaken; [exact Hfu | lia | lia].
    - eapply still_complete; eauto. }
  destruct K as (a2 & p2 & o2 & X2 & Hr2 & Ht2). rewrite exec_bind, X2. cbn [ebind].
  destruct (opt_chunk (has (x_flags x) F_EXIF) gEXIF cs2) as [cs3|] eqn:E3; [|discriminate].
  destruct (opt_named_complete _ EXIF a2 fr p2 o2 stop cs2 cs3 Hr2 Ht2 E3) as (a3 & p3 & o3 & X3 & Hr3 & Ht3 & _).
  rewrite exec_bind, X3. cbn [ebind].
  destruct (opt_named_complete _ XMP a3 fr p3 o3 stop cs3 rest Hr3 Ht3 Hseq) as (a4 & p4 & o4 & X4 & Hr4 & Ht4 & _).
  exists a4, p4, o4. auto.
Qed.

(* ------------------------------------------------------------------ the whole file *)
Lemma webp_prog_complete fuel : webp_spec lok allow inp = true -> (N.to_nat (ilen inp / 8) < fuel)%nat ->
  exists p', exec' (webp_prog lossless allow fuel) 0 = (Ok tt, p').
Proof.
  intros Hspec Hfuel. unfold webp_spec in Hspec. apply andb_prop in Hspec. destruct Hspec as [Hfr Hseq].
  unfold framing_ok in Hfr. cbv zeta in Hfr.
  repeat match goal with H : (_ && _) = true |- _ => apply andb_prop in H; destruct H end.
  assert (Hriff : geq (get inp 0 4) gRIFF = true) by assumption.
  assert (Hwebp : geq (get inp 8 4) gWEBP = true) by assumption.
  assert (Hmax : (le inp 4 4 + 8 <=? 2 ^ 32 - 2) = true) by assumption.
  assert (Hpadz : (if N.odd (le inp 4 4) then le inp (8 + le inp 4 4) 1 =? 0 else true) = true) by assumption.
  assert (Hilen : (ilen inp =? 8 + le inp 4 4 + (if N.odd (le inp 4 4) then 1 else 0)) = true) by assumption.
  assert (Hsize : (4 <=? le inp 4 4) = true) by assumption.
  assert (H12 : (12 <=? ilen inp) = true) by assumption.
  set (h := hdr_at' 0). set (e := 0 + 8 + ch_len h).
  assert (Esize : le inp 4 4 = ch_len h) by (unfold h; rewrite hdr_len; reflexivity).
  rewrite Esize in *.
  assert (Ename : ch_name h = RIFF) by (unfold h; rewrite hdr_name; apply geq_true; exact Hriff).
  assert (Ee : 8 + ch_len h = e) by (unfold e; lia). rewrite Ee in *.
  destruct (region_chunks inp 12 e) as [cs|] eqn:Ereg; [|discriminate]. apply region_chunks_tiles in Ereg.
  assert (Hile : ilen inp = e + pad_of h) by (unfold pad_of; lia).
  assert (Hbo0 : body_ok h e []).
  { split; [apply fits_nil|]. split; [lia|]. intros O. rewrite O in Hpadz. rewrite le1 in Hpadz.
    apply b2n_zero. lia. }
  unfold webp_prog. cbv zeta. change (Idle RIFF, @nil cstate) with (L (AIdle RIFF) [] 0).
  assert (Hl0 : linv' (AIdle RIFF) [] 0) by (split; [apply fits_nil | exact I]).
  assert (Hh0 : hdr_ok inp [] 0) by (split; [apply fits_nil | lia]).
  rewrite exec_bind, (read_header_go RIFF _ [] 0 Hl0); cbn [loff npos]; auto; [|apply settled_padreq; exact I | exact I].
  cbn [ebind]. unfold in_hdr. fold h e.
  rewrite exec_bind, (read_data_go 4 h e [] (0 + 8) ltac:(lia)); try lia; try apply fits_nil.
  2:{ split; [apply fits_nil | cbn [ainv]; lia]. }
  cbn [ebind]. change (N.to_nat 4) with 4%nat.
  rewrite exec_bind, exec_lift, parse_webp_spec. change (0 + 8) with 8. rewrite Hwebp. cbn [ebind].
  replace (WEBP_MAX_FILE_LEN <? ch_len h + 8) with false
    by (unfold WEBP_MAX_FILE_LEN; change (2 ^ 32 - 2) with 4294967294 in Hmax; lia).
  rewrite child_L. change (@cons (chdr * N) (h, e) (@nil frame)) with (@cons frame (h, e) nil).
  set (fr1 := @cons frame (h, e) nil). change (8 + 4) with 12.
  assert (Hfe : fits fr1 e) by (apply fits_cons; split; [cbn [snd]; lia | apply fits_nil]).
  assert (He : e <= ilen inp) by lia.
  assert (Hm1 : more inp fr1 e = false) by apply more_top.
  assert (Hr0 : ready (AIdle (ch_name h)) fr1 12 12 e).
  { constructor; auto; try exact I; try reflexivity.
    - split; [eapply fits_le; [exact Hfe | lia] | exact I].
    - apply settled_padreq. exact I.
    - apply (tiles_le _ _ _ _ Ereg). }
  assert (Hfu0 : fuel_ok fuel 12 e).
  { unfold fuel_ok. assert ((e - 12) / 8 <= ilen inp / 8) by (apply N.div_le_mono; lia). lia. }
  (* the first chunk *)
  unfold sequence_ok in Hseq. destruct cs as [|c r]; [discriminate|].
  destruct (tiles_cfacts fr1 12 e c r Ereg Hfe He) as (-> & Hh1 & Hbo1 & Hes1 & Ht1).
  pose proof Hr0 as [Hl1 Hb1 Hp1 _ _ _ _].
  rewrite exec_bind, (read_any_header_go _ fr1 12 Hl1 Hp1 Hb1); cbn [loff npos]; auto. cbn [ebind].
  set (h1 := hdr_at' 12) in *. set (e1 := 12 + 8 + ch_len h1) in *.
  rewrite wname_chunk_at in Hseq. fold h1 in Hseq.
  pose proof (linv_in_hdr inp 12 fr1 (proj1 Hh1)) as Hlh. unfold in_hdr in Hlh |- *. fold h1 e1 in Hlh |- *.
  destruct names_distinct as (N1 & N2 & N3).
  assert (K : exists a2 p2 o2 rest,
            exec' (if teq (ch_name h1) VP8 then skip_data (L (AIn h1 e1) fr1 (12 + 8))
                   else if teq (ch_name h1) VP8L then do_vp8l lossless None (L (AIn h1 e1) fr1 (12 + 8))
                   else if teq (ch_name h1) VP8X then
                     '(b, r2) <~ read_data 10 (L (AIn h1 e1) fr1 (12 + 8)) ;;
                     x <~ lift (parse_vp8x b) ;; sanitize_extended lossless allow fuel x r2
                   else Ret (EParse InvalidChunkLayout)) (12 + 8) = (Ok (L a2 fr1 p2), p2)
            /\ ready a2 fr1 p2 o2 e /\ tiles' o2 e rest /\ tail_ok allow rest = true).
  { change (geq (ch_name h1) gVP8) with (teq (ch_name h1) VP8) in Hseq.
    change (geq (ch_name h1) gVP8L) with (teq (ch_name h1) VP8L) in Hseq.
    change (geq (ch_name h1) gVP8X) with (teq (ch_name h1) VP8X) in Hseq.
    destruct (teq (ch_name h1) VP8) eqn:E1; [|destruct (teq (ch_name h1) VP8L) eqn:E2;
      [|destruct (teq (ch_name h1) VP8X) eqn:E3; [|discriminate]]].
    - destruct (skip_data_go h1 e1 fr1 (12 + 8) Hlh Hbo1) as (a2 & p2 & X & Hl2 & Hd).
      exists a2, p2, (e1 + pad_of h1), r. split; [exact X|]. split; [eapply done_ready; eauto|].
      split; [exact Ht1|]. exact Hseq.
    - apply andb_prop in Hseq. destruct Hseq as [Hv Hseq].
      destruct (do_vp8l_complete None h1 e1 fr1 (12 + 8) (chunk_at' 12) Hlh Hbo1 eq_refl
                  ltac:(rewrite wlen_chunk_at; fold h1; lia) Hv) as (a2 & p2 & X & Hl2 & Hd).
      exists a2, p2, (e1 + pad_of h1), r. split; [exact X|]. split; [eapply done_ready; eauto|].
      split; [exact Ht1|]. exact Hseq.
    - rewrite extended_ok_alt in Hseq. rewrite wlen_chunk_at in Hseq. fold h1 in Hseq. cbn [w_off chunk_at] in Hseq.
      apply andb_prop in Hseq. destruct Hseq as [Hseq Hext]. apply andb_prop in Hseq. destruct Hseq as [H10 Hcond].
      cbv zeta in Hext.
      destruct (has_flags_testbit (le inp (12 + 8) 1)) as (T5 & T4 & T3 & T2 & T1).
      rewrite <- T5, <- T4, <- T3, <- T2, <- T1 in Hext.
      match type of Hext with match ?Y with _ => _ end = _ => destruct Y as [cs4|] eqn:Eseq; [|discriminate] end.
      assert (Ee1 : e1 = 12 + 8 + 10) by slia.
      destruct (body_ok_fits h1 e1 fr1 e1 Hbo1 ltac:(slia)) as [Hfe1 Hie1].
      rewrite exec_bind, (read_data_go 10 h1 e1 fr1 (12 + 8) ltac:(slia) Hlh); try slia.
      2:{ rewrite <- Ee1. exact Hfe1. }
      cbn [ebind]. change (N.to_nat 10) with 10%nat.
      rewrite exec_bind, exec_lift, parse_vp8x_spec, Hcond. cbn [ebind]. rewrite <- Ee1.
      assert (Hrx : ready (AIn h1 e1) fr1 e1 (e1 + pad_of h1) e).
      { apply (done_ready h1 e1 (AIn h1 e1) e1 fr1 e); auto; [left; auto | split; [exact Hfe1 | cbn [ainv]; slia]]. }
      destruct (extended_complete fuel (vp8x_at inp (12 + 8)) _ fr1 e1 _ e r cs4 Hrx Ht1 Eseq) as (a2 & p2 & o2 & X & Hr2 & Ht2).
      { eapply fuel_weaken; [exact Hfu0 | slia | slia]. }
      { exact Hm1. }
      exists a2, p2, o2, cs4. split; [exact X|]. split; [exact Hr2|]. split; [exact Ht2|]. exact Hext. }
  destruct K as (a2 & p2 & o2 & rest & X & Hr2 & Ht2 & Hok). rewrite exec_bind, X. cbn [ebind].
  destruct (file_tail_complete fuel a2 fr1 p2 o2 e rest Hr2 Ht2 Hok) as (n & X3); [|exact Hm1|].
  { unfold fuel_ok. assert ((e - o2) / 8 <= ilen inp / 8) by (apply N.div_le_mono; lia). lia. }
  rewrite exec_bind, X3. cbn [ebind]. rewrite exec_bind, exec_lift. unfold fr1. rewrite parent_L. cbn [ebind].
  assert (Hl3 : linv' (AIn h e) [] e) by (split; [apply fits_nil | cbn [ainv]; lia]).
  rewrite exec_bind, (has_remaining_go (AIn h e) [] e Hl3 (body_ok_padreq h e [] Hbo0)).
  cbn [nst npos]. replace (e <=? e) with true by lia. cbn [ebind].
  unfold more. cbn [fitsb forallb andb]. replace (e + pad_of h <? ilen inp) with false by lia.
  rewrite exec_bind, exec_pos. cbn [ebind]. rewrite exec_bind, exec_len. cbn [ebind].
  replace (ilen inp <? e + pad_of h) with false by lia. rewrite exec_ret. eauto.
Qed.

End C.
