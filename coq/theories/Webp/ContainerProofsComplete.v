(* C06_complete: an input that satisfies the grammar is accepted (strict and lenient ideal cursor), given enough
   fuel; [ilen/8 + 1] is enough.  Forward reasoning: each lemma takes a level that is "ready" at a chunk boundary of
   a tiled region and shows that the production runs to Ok and leaves the level ready at the next boundary. *)
From Coq Require Import List NArith Bool Lia ZifyBool ZifyNat ZifyN.
From Coq.Strings Require Import Byte.
From MS Require Import Base.Bytes Base.Outcome Base.Prog Webp.Prim Webp.Chunks Webp.Container Webp.Grammar
  Webp.ContainerProofs Webp.ContainerProofsTiles Webp.ContainerProofsSound Gen.Consts.
Import ListNotations.
Open Scope N_scope.
Arguments N.add : simpl never.
Arguments N.sub : simpl never.
Arguments N.mul : simpl never.
Arguments N.div : simpl never.
Arguments N.modulo : simpl never.
Arguments N.pow : simpl never.
Arguments N.eqb : simpl never.
Arguments N.ltb : simpl never.
Arguments N.leb : simpl never.
Arguments N.min : simpl never.
Arguments N.max : simpl never.
Arguments N.odd : simpl never.
Arguments N.land : simpl never.
Arguments N.testbit : simpl never.

Section C.
Variables (inp : input) (lenient : bool) (ms : N).
Variable lossless : N -> N -> bytes -> res unit.
Variable allow : bool.
Hypothesis Hms : ilen inp <= ms.
Notation exec' := (exec inp lenient ms).
Notation padreq' := (padreq inp).
Notation linv' := (linv inp).
Notation hdr_at' := (hdr_at inp).
Notation tiles' := (tiles inp).
Notation chunk_at' := (chunk_at inp).
Notation lok := (lok lossless).

Lemma skip_ok_intro p n : p + n <= ilen inp -> skip_ok inp lenient ms p n.
Proof. unfold skip_ok. destruct lenient; lia. Qed.

(* ------------------------------------------------------------------ the operations, in the success direction *)
Lemma has_remaining_go a fr p : linv' a fr p -> padreq' a fr p ->
  exec' (has_remaining (L a fr p)) p =
  (Ok (match nst a p with AIdle _ => more inp fr (npos a p) | _ => true end, L (nst a p) fr (npos a p)), npos a p).
Proof.
  intros Hl Hp. destruct (has_remaining_spec inp lenient ms a fr p Hl) as [(_ & E) | (Hn & _)]; [exact E | contradiction].
Qed.
Lemma read_any_header_go a fr p : linv' a fr p -> padreq' a fr p -> atb a p -> hdr_ok inp fr (loff a p) ->
  exec' (read_any_header (L a fr p)) p =
  (Ok (hdr_at' (loff a p), L (in_hdr inp (loff a p)) fr (loff a p + 8)), loff a p + 8).
Proof.
  intros Hl Hp Hb Hh. destruct (read_any_header_spec inp lenient ms a fr p Hl) as [(_ & _ & _ & E) | (Hn & _)];
    [exact E | tauto].
Qed.
Lemma read_header_go name a fr p : linv' a fr p -> padreq' a fr p -> atb a p -> hdr_ok inp fr (loff a p) ->
  ch_name (hdr_at' (loff a p)) = name ->
  exec' (read_header name (L a fr p)) p =
  (Ok (hdr_at' (loff a p), L (in_hdr inp (loff a p)) fr (loff a p + 8)), loff a p + 8).
Proof.
  intros Hl Hp Hb Hh Hn. destruct (read_header_spec inp lenient ms name a fr p Hl) as [(_ & _ & _ & _ & E) | (Hc & _)];
    [exact E | tauto].
Qed.
Lemma peek_header_go_some a fr p : linv' a fr p -> padreq' a fr p -> atb a p -> hdr_ok inp fr (loff a p) ->
  exec' (peek_header (L a fr p)) p =
  (Ok (Some (ch_name (hdr_at' (loff a p))), L (APeek (hdr_at' (loff a p))) fr (loff a p + 8)), loff a p + 8).
Proof.
  intros Hl Hp Hb Hh.
  destruct (peek_header_spec inp lenient ms a fr p Hl) as [(_ & _ & _ & E) | [(_ & _ & Hm & _) | (Hc & _)]];
    [exact E | apply hdr_ok_more in Hh; congruence | tauto].
Qed.
Lemma peek_header_go_none a fr p : linv' a fr p -> padreq' a fr p -> atb a p -> more inp fr (loff a p) = false ->
  exists n, exec' (peek_header (L a fr p)) p = (Ok (None, L (AIdle n) fr (loff a p)), loff a p).
Proof.
  intros Hl Hp Hb Hm.
  destruct (peek_header_spec inp lenient ms a fr p Hl) as [(_ & _ & Hh & _) | [(_ & _ & _ & E) | (Hc & _)]];
    [apply hdr_ok_more in Hh; congruence | exact E | tauto].
Qed.
Lemma read_data_go n h e fr p : 0 < n -> linv' (AIn h e) fr p -> p + n <= e -> fits fr (p + n) -> p + n <= ilen inp ->
  exec' (read_data n (L (AIn h e) fr p)) p = (Ok (iread inp p (N.to_nat n), L (AIn h e) fr (p + n)), p + n).
Proof.
  intros Hn Hl H1 H2 H3. destruct (read_data_spec inp lenient ms n h e fr p Hn Hl) as [(_ & _ & _ & E) | (Hc & _)];
    [exact E | tauto].
Qed.

(* the rest of a chunk's body can be skipped and its pad byte is fine *)
Definition body_ok (h : chdr) (e : N) (fr : list frame) : Prop :=
  fits fr (e + pad_of h) /\ e + pad_of h <= ilen inp /\ (N.odd (ch_len h) = true -> iget inp e = x00).

Lemma body_ok_padreq h e fr : body_ok h e fr -> padreq' (AIn h e) fr e.
Proof.
  intros (H1 & H2 & H3) E. cbn [npos] in E. replace (e <=? e) with true in E by lia.
  unfold pad_of in *. destruct (N.odd (ch_len h)); [|lia]. auto.
Qed.

Lemma skip_data_go h e fr p : linv' (AIn h e) fr p -> body_ok h e fr ->
  exists a' p', exec' (skip_data (L (AIn h e) fr p)) p = (Ok (L a' fr p'), p') /\ linv' a' fr p' /\ done_he inp h e a' p'.
Proof.
  intros Hl Hbo. pose proof Hl as [Hf Ha]. cbn [ainv] in Ha. pose proof Hbo as (B1 & B2 & B3).
  destruct (N.eq_dec p e) as [->|Hne].
  - pose proof (body_ok_padreq h e fr Hbo) as Hp.
    destruct (skip_data_boundary inp lenient ms (AIn h e) fr e Hl) as [(_ & E) | (Hn & _)];
      [cbn [atb]; lia | discriminate | | contradiction].
    destruct (linv_settle inp _ fr e Hl Hp) as (Hl' & _ & _). cbn [nst npos] in *.
    replace (e <=? e) with true in * by lia.
    exists (AIdle (ch_name h)), (e + pad_of h). split; [exact E|]. split; [exact Hl'|].
    right. exists (ch_name h). auto.
  - assert (Hfe : fits fr e) by (eapply fits_le; [exact B1 | lia]).
    destruct (skip_data_body inp lenient ms h e fr p Hf ltac:(lia)) as [(_ & _ & E) | (Hn & _)].
    + exists (AIn h e), e. split; [exact E|]. split; [split; [exact Hfe | cbn [ainv]; lia]|]. left. auto.
    + exfalso. apply Hn. split; [exact Hfe|]. apply skip_ok_intro. lia.
Qed.

(* ------------------------------------------------------------------ ready at a boundary of a tiled region *)
Record ready (a : astate) (fr : list frame) (p o stop : N) : Prop := {
  r_linv : linv' a fr p; r_atb : atb a p; r_pad : padreq' a fr p; r_off : loff a p = o;
  r_le : p <= stop; r_fits : fits fr stop; r_stop : stop <= ilen inp }.

Lemma tiles_cfacts fr o stop c cs : tiles' o stop (c :: cs) -> fits fr stop -> stop <= ilen inp ->
  let h := hdr_at' o in let e := o + 8 + ch_len h in
  c = chunk_at' o /\ hdr_ok inp fr o /\ body_ok h e fr /\ e + pad_of h <= stop /\ tiles' (e + pad_of h) stop cs.
Proof.
  intros Ht Hf Hs h e.
  assert (K : c = chunk_at' o /\ cend (chunk_at' o) + wpad (w_len (chunk_at' o)) <= stop
              /\ (N.odd (w_len (chunk_at' o)) = true -> iget inp (cend (chunk_at' o)) = x00)
              /\ tiles' (cend (chunk_at' o) + wpad (w_len (chunk_at' o))) stop cs).
  { inversion Ht; subst. auto. }
  destruct K as (-> & K1 & K2 & K3).
  rewrite cend_chunk_at, wlen_chunk_at, <- pad_of_wpad in *. fold h e in K1, K2, K3.
  split; [reflexivity|]. split; [split; [eapply fits_le; [exact Hf | lia] | lia]|].
  split; [split; [eapply fits_le; [exact Hf | lia] | split; [lia | exact K2]]|]. auto.
Qed.

Lemma done_ready h e a' p' fr stop : done_he inp h e a' p' -> linv' a' fr p' -> body_ok h e fr ->
  e + pad_of h <= stop -> fits fr stop -> stop <= ilen inp -> ready a' fr p' (e + pad_of h) stop.
Proof.
  intros Hd Hl Hbo Hle Hf Hs. destruct Hd as [(-> & ->) | (n & -> & -> & Hz)].
  - constructor; auto.
    + cbn [atb]. lia.
    + apply body_ok_padreq. exact Hbo.
    + cbn [loff npos]. replace (e <=? e) with true by lia. reflexivity.
    + lia.
  - constructor; auto.
    + exact I.
    + apply settled_padreq. exact I.
Qed.

(* ------------------------------------------------------------------ fuel *)
Definition fuel_ok (f : nat) (o stop : N) : Prop := (N.to_nat ((stop - o) / 8) < f)%nat.

Lemma fuel_step f o stop o' stop' : fuel_ok (S f) o stop -> o + 8 <= o' -> o' <= stop' -> stop' <= stop ->
  fuel_ok f o' stop'.
Proof.
  unfold fuel_ok. intros H H1 H2 H3.
  assert ((stop' - o' + 1 * 8) / 8 <= (stop - o) / 8) by (apply N.div_le_mono; lia).
  rewrite N.div_add in H0 by lia. lia.
Qed.
Lemma fuel_weaken f o stop o' stop' : fuel_ok f o stop -> o <= o' -> stop' <= stop -> fuel_ok f o' stop'.
Proof.
  unfold fuel_ok. intros H H1 H3.
  assert ((stop' - o') / 8 <= (stop - o) / 8) by (apply N.div_le_mono; lia). lia.
Qed.

(* ------------------------------------------------------------------ a chunk that is only skipped *)
Lemma skip_named_complete name a fr p o stop c cs : ready a fr p o stop -> tiles' o stop (c :: cs) -> w_name c = name ->
  exists a' p', exec' (skip_named name (L a fr p)) p = (Ok (L a' fr p'), p')
    /\ ready a' fr p' (cend c + wpad (w_len c)) stop.
Proof.
  intros [Hl Hb Hp Ho Hle Hf Hs] Ht Hn. subst o.
  destruct (tiles_cfacts fr _ stop c cs Ht Hf Hs) as (-> & Hh & Hbo & Hes & Ht').
  unfold skip_named. rewrite exec_bind, (read_header_go name a fr p Hl Hp Hb Hh).
  2:{ rewrite <- wname_chunk_at. exact Hn. }
  cbn [ebind]. destruct (skip_data_go _ _ fr _ (linv_in_hdr inp _ fr (proj1 Hh)) Hbo) as (a' & p' & E & Hl' & Hd).
  exists a', p'. split; [exact E|]. rewrite cend_chunk_at, wlen_chunk_at, <- pad_of_wpad.
  eapply done_ready; eauto.
Qed.

(* ------------------------------------------------------------------ trailing chunks *)
Lemma unit_ok (r : res unit) : is_ok r = true -> r = Ok tt.
Proof. destruct r as [[]| | | |]; try discriminate. reflexivity. Qed.

Lemma file_tail_complete fuel : forall a fr p o stop cs, ready a fr p o stop -> tiles' o stop cs ->
  tail_ok allow cs = true -> fuel_ok fuel o stop -> more inp fr stop = false ->
  exists n, exec' (file_tail allow fuel (L a fr p)) p = (Ok (L (AIdle n) fr stop), stop).
Proof.
  induction fuel as [|fuel IH]; intros a fr p o stop cs Hr Ht Hok Hfu Hm; [unfold fuel_ok in Hfu; lia|].
  pose proof Hr as [Hl Hb Hp Ho Hle Hf Hs]. cbn [file_tail].
  rewrite exec_bind, (has_remaining_go a fr p Hl Hp). cbn [ebind].
  destruct (linv_settle inp a fr p Hl Hp) as (Hl1 & Hs1 & _).
  pose proof (settled_padreq inp _ fr _ Hs1) as Hp1.
  destruct cs as [|c cs].
  - assert (Eso : stop = loff a p) by (inversion Ht; congruence). subst o.
    assert (Hst : exists n, nst a p = AIdle n /\ npos a p = stop).
    { rewrite Eso in *. destruct a as [n|h|h e]; cbn [nst npos loff atb] in *.
      - eauto.
      - exfalso. destruct Hl as [_ (H8 & _)]. lia.
      - replace (e <=? p) with true by lia. eauto. }
    destruct Hst as (n & En & Eo). rewrite En, Eo, Hm. cbn [negb]. rewrite exec_ret. eauto.
  - destruct (tiles_cfacts fr o stop c cs Ht Hf Hs) as (-> & Hh & Hbo & Hes & Ht').
    assert (Hmore : match nst a p with AIdle _ => more inp fr (npos a p) | _ => true end = true).
    { destruct (nst a p) eqn:En; auto. assert (npos a p = o).
      { subst o. destruct a as [n0|h0|h0 e0]; cbn [nst npos loff] in *; try discriminate; auto. }
      rewrite H. apply hdr_ok_more. exact Hh. }
    rewrite Hmore. cbn [negb].
    rewrite exec_bind, (read_any_header_go _ fr _ Hl1 Hp1); rewrite ?loff_nst, ?Ho; auto.
    2:{ apply atb_nst. exact Hb. }
    cbn [ebind].
    cbn [tail_ok forallb] in Hok. apply andb_prop in Hok. destruct Hok as [Hal Hok].
    apply andb_prop in Hok. destruct Hok as [Hk Hok]. rewrite wname_chunk_at, known_model in Hk.
    apply negb_true_iff in Hk. rewrite Hk. replace (negb allow) with false by (rewrite Hal; reflexivity).
    destruct (skip_data_go _ _ fr _ (linv_in_hdr inp _ fr (proj1 Hh)) Hbo) as (a' & p' & E & Hl' & Hd).
    rewrite exec_bind. unfold in_hdr. rewrite E. cbn [ebind].
    apply (IH a' fr p' (o + 8 + ch_len (hdr_at' o) + pad_of (hdr_at' o)) stop cs).
    + eapply done_ready; eauto.
    + exact Ht'.
    + destruct cs; [reflexivity|]. cbn [tail_ok]. rewrite Hal. exact Hok.
    + eapply fuel_step; [exact Hfu | | | lia]; [lia | apply (tiles_le _ _ _ _ Ht')].
    + exact Hm.
Qed.


(* ------------------------------------------------------------------ lossless payloads *)
Lemma body_ok_fits h e fr q : body_ok h e fr -> q <= e -> fits fr q /\ q <= ilen inp.
Proof. intros (H1 & H2 & _) Hq. split; [eapply fits_le; [exact H1 | lia] | lia]. Qed.

Lemma do_vp8l_complete dims h e fr p c : linv' (AIn h e) fr p -> body_ok h e fr ->
  w_off c = p -> w_len c = e - p -> vp8l_ok lok inp dims c = true ->
  exists a' p', exec' (do_vp8l lossless dims (L (AIn h e) fr p)) p = (Ok (L a' fr p'), p')
    /\ linv' a' fr p' /\ done_he inp h e a' p'.
Proof.
  intros Hl Hbo Ho Hlen Hok. unfold vp8l_ok, vp8l_dims in Hok. rewrite Ho, Hlen in Hok.
  destruct (e - p <? 5) eqn:E5; [discriminate|].
  destruct (negb (le inp p 1 =? 47)) eqn:Esig; [discriminate|].
  destruct (negb ((le inp (p + 1) 4 / 2 ^ 29) mod 8 =? 0)) eqn:Ever; [discriminate|].
  apply andb_prop in Hok. destruct Hok as [Hdims Hll]. apply unit_ok in Hll.
  destruct (body_ok_fits h e fr (p + 5) Hbo ltac:(lia)) as [Hf5 Hi5].
  destruct (body_ok_fits h e fr e Hbo ltac:(lia)) as [Hfe Hie].
  unfold do_vp8l. rewrite exec_bind, (read_data_go 5 h e fr p ltac:(lia) Hl ltac:(lia) Hf5 Hi5). cbn [ebind].
  change (N.to_nat 5) with 5%nat. rewrite exec_bind, exec_lift, parse_vp8l_spec, Esig. cbv zeta. rewrite Ever.
  cbn [ebind l_w l_h].
  rewrite exec_bind.
  assert (Ed : exec' (match dims with
                      | Some (w, h0) =>
                          if (le inp (p + 1) 4 mod 2 ^ 14 + 1 =? w) && ((le inp (p + 1) 4 / 2 ^ 14) mod 2 ^ 14 + 1 =? h0)
                          then Ret (Ok tt) else Ret (EParse WInvalidInput)
                      | None => Ret (Ok tt) end) (p + 5) = (Ok tt, p + 5)).
  { destruct dims as [[w hh]|]; [rewrite Hdims|]; reflexivity. }
  rewrite Ed. cbn [ebind].
  assert (Hl5 : linv' (AIn h e) fr (p + 5)) by (split; [exact Hf5 | cbn [ainv]; lia]).
  rewrite exec_bind, (read_body_spec inp lenient ms h e fr (p + 5) Hl5).
  rewrite (upto_full inp fr (p + 5) (e - (p + 5))) by (replace (p + 5 + (e - (p + 5))) with e by lia; assumption).
  cbn [ebind]. unfold get in Hll. replace (e - p - 5) with (e - (p + 5)) in Hll by lia.
  rewrite exec_bind, exec_lift, Hll. cbn [ebind].
  apply skip_data_go; [|exact Hbo]. split; [|cbn [ainv]; lia]. replace (p + 5 + (e - (p + 5))) with e by lia. exact Hfe.
Qed.

Lemma do_alph_complete w hh h e fr p c : linv' (AIn h e) fr p -> body_ok h e fr ->
  w_off c = p -> w_len c = e - p -> alph_ok lok inp w hh c = true ->
  exists a' p', exec' (do_alph lossless w hh (L (AIn h e) fr p)) p = (Ok (L a' fr p'), p')
    /\ linv' a' fr p' /\ done_he inp h e a' p'.
Proof.
  intros Hl Hbo Ho Hlen Hok. unfold alph_ok in Hok. rewrite Ho, Hlen in Hok.
  apply andb_prop in Hok. destruct Hok as [E1 Hok]. apply andb_prop in Hok. destruct Hok as [Eres Hll].
  destruct (body_ok_fits h e fr (p + 1) Hbo ltac:(lia)) as [Hf1 Hi1].
  destruct (body_ok_fits h e fr e Hbo ltac:(lia)) as [Hfe Hie].
  unfold do_alph. rewrite exec_bind, (read_data_go 1 h e fr p ltac:(lia) Hl ltac:(lia) Hf1 Hi1). cbn [ebind].
  change (N.to_nat 1) with 1%nat. rewrite exec_bind, exec_lift, parse_alph_spec, Eres. cbn [ebind].
  assert (Hl1 : linv' (AIn h e) fr (p + 1)) by (split; [exact Hf1 | cbn [ainv]; lia]).
  rewrite exec_bind, has_odd. destruct (N.odd (le inp p 1)).
  - apply unit_ok in Hll.
    rewrite exec_bind, (read_body_spec inp lenient ms h e fr (p + 1) Hl1).
    rewrite (upto_full inp fr (p + 1) (e - (p + 1))) by (replace (p + 1 + (e - (p + 1))) with e by lia; assumption).
    cbn [ebind]. unfold get in Hll. replace (e - p - 1) with (e - (p + 1)) in Hll by lia.
    rewrite exec_bind, exec_lift, Hll. cbn [ebind]. rewrite exec_ret. cbn [ebind].
    apply skip_data_go; [|exact Hbo]. split; [|cbn [ainv]; lia]. replace (p + 1 + (e - (p + 1))) with e by lia. exact Hfe.
  - rewrite exec_ret. cbn [ebind]. apply skip_data_go; assumption.
Qed.

(* ------------------------------------------------------------------ image data *)
Notation image_part' := (image_part lossless).

Lemma image_part_complete alph dims fr o stop c cs : tiles' o stop (c :: cs) -> fits fr stop -> stop <= ilen inp ->
  (w_name c = VP8 \/ (w_name c = VP8L /\ alph = false /\ vp8l_ok lok inp (Some dims) c = true)) ->
  exists a' p', exec' (image_part' alph dims (hdr_at' o) (L (in_hdr inp o) fr (o + 8))) (o + 8) = (Ok (L a' fr p'), p')
    /\ ready a' fr p' (cend c + wpad (w_len c)) stop /\ tiles' (cend c + wpad (w_len c)) stop cs.
Proof.
  intros Ht Hf Hs Himg. destruct (tiles_cfacts fr o stop c cs Ht Hf Hs) as (-> & Hh & Hbo & Hes & Ht').
  pose proof (linv_in_hdr inp o fr (proj1 Hh)) as Hl. rewrite wname_chunk_at in Himg.
  rewrite cend_chunk_at, wlen_chunk_at, <- pad_of_wpad.
  assert (K : exists a' p', exec' (image_part' alph dims (hdr_at' o) (L (in_hdr inp o) fr (o + 8))) (o + 8)
                            = (Ok (L a' fr p'), p') /\ linv' a' fr p'
                            /\ done_he inp (hdr_at' o) (o + 8 + ch_len (hdr_at' o)) a' p').
  { unfold image_part. destruct Himg as [Hv | (Hv & -> & Hok)]; rewrite Hv.
    - change (teq VP8 VP8) with true. cbn iota. apply skip_data_go; assumption.
    - destruct names_distinct as (_ & _ & N3). rewrite N3. change (teq VP8L VP8L) with true. cbn iota.
      apply (do_vp8l_complete (Some dims) _ _ fr (o + 8) (chunk_at' o)); auto.
      rewrite wlen_chunk_at. lia. }
  destruct K as (a' & p' & E & Hl' & Hd). exists a', p'. split; [exact E|]. split; [|exact Ht'].
  eapply done_ready; eauto.
Qed.


(* has_remaining then read_any_header when the region has another chunk *)
Lemma next_header_go a fr p o stop c cs : ready a fr p o stop -> tiles' o stop (c :: cs) ->
  exec' (has_remaining (L a fr p)) p = (Ok (true, L (nst a p) fr (npos a p)), npos a p)
  /\ exec' (read_any_header (L (nst a p) fr (npos a p))) (npos a p) = (Ok (hdr_at' o, L (in_hdr inp o) fr (o + 8)), o + 8).
Proof.
  intros [Hl Hb Hp Ho Hle Hf Hs] Ht. destruct (tiles_cfacts fr o stop c cs Ht Hf Hs) as (_ & Hh & _).
  destruct (linv_settle inp a fr p Hl Hp) as (Hl1 & Hs1 & _).
  pose proof (settled_padreq inp _ fr _ Hs1) as Hp1.
  split.
  - rewrite (has_remaining_go a fr p Hl Hp).
    assert (Hmore : match nst a p with AIdle _ => more inp fr (npos a p) | _ => true end = true).
    { destruct (nst a p) eqn:En; auto. assert (npos a p = o).
      { subst o. destruct a as [n0|h0|h0 e0]; cbn [nst npos loff] in *; try discriminate; auto. }
      rewrite H. apply hdr_ok_more. exact Hh. }
    rewrite Hmore. reflexivity.
  - rewrite (read_any_header_go _ fr _ Hl1 Hp1); rewrite ?loff_nst, ?Ho; auto. apply atb_nst. exact Hb.
Qed.

Lemma geq_true a b : geq a b = true <-> a = b.
Proof. apply teq_true. Qed.

(* [ALPH] VP8|VP8L as the grammar reads it, resolved into the facts the programme needs *)
Lemma image_ok_inv (allowed required : bool) w hh cs rest :
  image_ok lok inp allowed required w hh cs = Some rest ->
  (exists a i, cs = a :: i :: rest /\ w_name a = ALPH /\ allowed = true /\ alph_ok lok inp w hh a = true /\ w_name i = VP8)
  \/ (exists i, cs = i :: rest /\ required = false /\ w_name i <> ALPH
      /\ (w_name i = VP8 \/ (w_name i = VP8L /\ vp8l_ok lok inp (Some (w, hh)) i = true))).
Proof.
  unfold image_ok. destruct cs as [|a r]; [discriminate|].
  destruct (geq (w_name a) gALPH) eqn:Ea.
  - destruct (allowed && alph_ok lok inp w hh a) eqn:E1; [|discriminate].
    destruct r as [|i r']; [discriminate|]. destruct (geq (w_name i) gVP8) eqn:Ei; [|discriminate].
    intros H. injection H as <-. left. exists a, i. apply andb_prop in E1. destruct E1 as [-> E1].
    apply geq_true in Ea, Ei. auto 6.
  - destruct required; [discriminate|]. assert (Hna : w_name a <> ALPH) by (apply teq_false; exact Ea).
    destruct (geq (w_name a) gVP8) eqn:E1.
    + intros H. injection H as <-. right. exists a. apply geq_true in E1. auto 6.
    + destruct (geq (w_name a) gVP8L) eqn:E2; [|discriminate].
      destruct (vp8l_ok lok inp (Some (w, hh)) a) eqn:E3; [|discriminate].
      intros H. injection H as <-. right. exists a. apply geq_true in E2. auto 7.
Qed.

Lemma still_complete x a fr p o stop cs rest : ready a fr p o stop -> tiles' o stop cs ->
  image_ok lok inp (has (x_flags x) F_ALPH) (has (x_flags x) F_ALPH) (x_w x) (x_h x) cs = Some rest ->
  exists a' p' o', exec' (sanitize_still lossless x (L a fr p)) p = (Ok (L a' fr p'), p')
    /\ ready a' fr p' o' stop /\ tiles' o' stop rest.
Proof.
  intros Hr Ht Hio. pose proof Hr as [Hl Hb Hp Ho Hle Hf Hs].
  rewrite sanitize_still_unfold.
  apply image_ok_inv in Hio. destruct Hio as [(c0 & i & -> & Hn0 & Ha & Hok & Hni) | (i & -> & Hreq & Hna & Himg)].
  - rewrite Ha. destruct (tiles_cfacts fr o stop _ _ Ht Hf Hs) as (-> & Hh & Hbo & Hes & Ht1).
    rewrite exec_bind, exec_bind, (read_header_go ALPH a fr p Hl Hp Hb); rewrite ?Ho; auto.
    cbn [ebind].
    destruct (do_alph_complete (x_w x) (x_h x) _ _ fr (o + 8) (chunk_at' o) (linv_in_hdr inp o fr (proj1 Hh)) Hbo
                eq_refl ltac:(rewrite wlen_chunk_at; lia) Hok) as (a1 & p1 & E1 & Hl1 & Hd1).
    rewrite exec_bind. unfold in_hdr at 1. rewrite E1. cbn [ebind]. rewrite exec_ret. cbn [ebind].
    assert (Hr1 : ready a1 fr p1 (o + 8 + ch_len (hdr_at' o) + pad_of (hdr_at' o)) stop) by (eapply done_ready; eauto).
    set (o1 := o + 8 + ch_len (hdr_at' o) + pad_of (hdr_at' o)) in *.
    destruct (next_header_go a1 fr p1 o1 stop i rest Hr1 Ht1) as [E2 E3].
    rewrite exec_bind, E2. cbn [ebind negb]. rewrite exec_bind, E3. cbn [ebind].
    destruct (image_part_complete true (x_w x, x_h x) fr o1 stop i rest Ht1 Hf Hs (or_introl Hni))
      as (a' & p' & E4 & Hr' & Ht').
    exists a', p', (cend i + wpad (w_len i)). auto.
  - assert (Ha : has (x_flags x) F_ALPH = false) by exact Hreq. rewrite Ha.
    rewrite exec_bind, exec_ret. cbn [ebind].
    destruct (next_header_go a fr p o stop i rest Hr Ht) as [E2 E3].
    rewrite exec_bind, E2. cbn [ebind negb]. rewrite exec_bind, E3. cbn [ebind].
    assert (Himg' : w_name i = VP8 \/ (w_name i = VP8L /\ false = false /\ vp8l_ok lok inp (Some (x_w x, x_h x)) i = true))
      by (destruct Himg as [?|[? ?]]; auto).
    destruct (image_part_complete false (x_w x, x_h x) fr o stop i rest Ht Hf Hs Himg') as (a' & p' & E4 & Hr' & Ht').
    exists a', p', (cend i + wpad (w_len i)). auto.
Qed.

(* ------------------------------------------------------------------ one ANMF frame *)
Notation alpha_part' := (alpha_part lossless).

Lemma ready_peek fr o stop c cs : tiles' o stop (c :: cs) -> fits fr stop -> stop <= ilen inp ->
  ready (APeek (hdr_at' o)) fr (o + 8) o stop.
Proof.
  intros Ht Hf Hs. destruct (tiles_cfacts fr o stop c cs Ht Hf Hs) as (_ & Hh & _ & Hes & _).
  constructor; auto.
  - apply (linv_peek inp lossless). exact Hh.
  - exact I.
  - apply settled_padreq. exact I.
  - apply (loff_peek lossless).
  - lia.
Qed.

Lemma alpha_part_complete x fw fh n fr p stop cs rest : fits fr stop -> stop <= ilen inp -> tiles' p stop cs ->
  image_ok lok inp (has (x_flags x) F_ALPH) false fw fh cs = Some rest ->
  exists alph a1 p1 o1 c1,
    exec' (alpha_part' x fw fh (L (AIdle n) fr p)) p = (Ok (alph, L a1 fr p1), p1)
    /\ ready a1 fr p1 o1 stop /\ tiles' o1 stop (c1 :: rest) /\ p <= o1
    /\ (w_name c1 = VP8 \/ (w_name c1 = VP8L /\ alph = false /\ vp8l_ok lok inp (Some (fw, fh)) c1 = true)).
Proof.
  intros Hf Hs Ht Hio. pose proof (tiles_le _ _ _ _ Ht) as Hps.
  assert (Hr0 : ready (AIdle n) fr p p stop).
  { constructor; auto; try exact I; try reflexivity.
    - split; [eapply fits_le; [exact Hf | exact Hps] | exact I].
    - apply settled_padreq. exact I. }
  unfold alpha_part.
  apply image_ok_inv in Hio. destruct Hio as [(c0 & i & -> & Hn0 & Ha & Hok & Hni) | (i & -> & _ & Hna & Himg)].
  - rewrite Ha. destruct (tiles_cfacts fr p stop _ _ Ht Hf Hs) as (-> & Hh & Hbo & Hes & Ht1).
    pose proof Hr0 as [Hl0 Hb0 Hp0 _ _ _ _].
    rewrite exec_bind, (peek_header_go_some (AIdle n) fr p Hl0 Hp0 Hb0 Hh). cbn [loff npos ebind].
    rewrite <- wname_chunk_at, Hn0. change (teq ALPH ALPH) with true. cbn iota.
    pose proof (ready_peek fr p stop _ _ Ht Hf Hs) as [Hlp Hbp Hpp Hop _ _ _].
    rewrite exec_bind, (read_header_go ALPH _ fr _ Hlp Hpp Hbp); rewrite ?Hop; auto.
    cbn [ebind].
    destruct (do_alph_complete fw fh _ _ fr (p + 8) (chunk_at' p) (linv_in_hdr inp p fr (proj1 Hh)) Hbo
                eq_refl ltac:(rewrite wlen_chunk_at; lia) Hok) as (a1 & p1 & E1 & Hl1 & Hd1).
    rewrite exec_bind. unfold in_hdr at 1. rewrite E1. cbn [ebind]. rewrite exec_ret.
    exists true, a1, p1, (p + 8 + ch_len (hdr_at' p) + pad_of (hdr_at' p)), i.
    split; [reflexivity|]. split; [eapply done_ready; eauto|]. split; [exact Ht1|]. split; [lia | left; exact Hni].
  - assert (Himg' : forall alph, alph = false ->
              w_name i = VP8 \/ (w_name i = VP8L /\ alph = false /\ vp8l_ok lok inp (Some (fw, fh)) i = true))
      by (intros alph ->; destruct Himg as [?|[? ?]]; auto).
    destruct (has (x_flags x) F_ALPH).
    + destruct (tiles_cfacts fr p stop _ _ Ht Hf Hs) as (Ei & Hh & _).
      pose proof Hr0 as [Hl0 Hb0 Hp0 _ _ _ _].
      rewrite exec_bind, (peek_header_go_some (AIdle n) fr p Hl0 Hp0 Hb0 Hh). cbn [loff npos ebind].
      rewrite <- wname_chunk_at, <- Ei. apply teq_false in Hna. rewrite Hna. rewrite exec_ret.
      exists false, (APeek (hdr_at' p)), (p + 8), p, i. split; [reflexivity|].
      split; [eapply ready_peek; eauto|]. split; [exact Ht|]. split; [lia | auto].
    + rewrite exec_ret. exists false, (AIdle n), p, p, i. split; [reflexivity|]. split; [exact Hr0|].
      split; [exact Ht|]. split; [lia | auto].
Qed.

Lemma more_top h e fr : more inp ((h, e) :: fr) e = false.
Proof. unfold more. cbn [fitsb forallb snd]. replace (e + 1 <=? e) with false by lia. reflexivity. Qed.

Lemma one_frame_complete fuel x a fr p o stop c cs : ready a fr p o stop -> tiles' o stop (c :: cs) ->
  w_name c = ANMF -> frame_ok lok allow inp (has (x_flags x) F_ALPH) c = true -> fuel_ok (S fuel) o stop ->
  let h := hdr_at' o in let e := o + 8 + ch_len h in
  exec' (one_frame lossless allow fuel x (L a fr p)) p = (Ok (L (AIn h e) fr e), e)
  /\ ready (AIn h e) fr e (e + pad_of h) stop /\ tiles' (e + pad_of h) stop cs.
Proof.
  intros Hr Ht Hn Hfo Hfu h e. pose proof Hr as [Hl Hb Hp Ho Hle Hf Hs].
  destruct (tiles_cfacts fr o stop c cs Ht Hf Hs) as (-> & Hh & Hbo & Hes & Ht1). fold h e in Hbo, Hes, Ht1.
  unfold frame_ok in Hfo. rewrite wlen_chunk_at in Hfo. fold h in Hfo. cbn [w_off chunk_at] in Hfo.
  apply andb_prop in Hfo. destruct Hfo as [Hfo Hreg]. apply andb_prop in Hfo. destruct Hfo as [H16 Hflags].
  replace (o + 8 + ch_len h) with e in Hreg by reflexivity.
  destruct (region_chunks inp (o + 8 + 16) e) as [csf|] eqn:Ereg; [|discriminate].
  apply region_chunks_tiles in Ereg.
  destruct (image_ok lok inp (has (x_flags x) F_ALPH) false (le inp (o + 8 + 6) 3 + 1) (le inp (o + 8 + 9) 3 + 1) csf)
    as [rest|] eqn:Eimg; [|discriminate].
  destruct (body_ok_fits h e fr e Hbo ltac:(lia)) as [Hfe Hie].
  destruct (body_ok_fits h e fr (o + 8 + 16) Hbo ltac:(lia)) as [Hf16 Hi16].
  rewrite one_frame_unfold.
  rewrite exec_bind, (read_header_go ANMF a fr p Hl Hp Hb); rewrite ?Ho; auto.
  cbn [ebind]. unfold in_hdr. fold h e.
  rewrite exec_bind, (read_data_go 16 h e fr (o + 8) ltac:(lia)); auto; try lia.
  2:{ apply (linv_in_hdr inp o fr (proj1 Hh)). }
  cbn [ebind]. change (N.to_nat 16) with 16%nat.
  rewrite exec_bind, exec_lift, parse_anmf_spec, Hflags. cbn [ebind].
  rewrite child_L. set (fr' := (h, e) :: fr).
  assert (Hfe' : fits fr' e) by (apply fits_cons; split; [cbn [snd]; lia | exact Hfe]).
  destruct (alpha_part_complete x _ _ (ch_name h) fr' (o + 8 + 16) e csf rest Hfe' Hie Ereg Eimg)
    as (alph & a1 & p1 & o1 & c1 & E1 & Hr1 & Ht2 & Ho1' & Himg).
  rewrite exec_bind, E1. cbn [ebind].
  pose proof Hr1 as [Hl1 Hb1 Hp1 Ho1 _ _ _].
  destruct (tiles_cfacts fr' o1 e c1 rest Ht2 Hfe' Hie) as (Ec1 & Hh1 & _).
  rewrite exec_bind, (read_any_header_go a1 fr' p1 Hl1 Hp1 Hb1); rewrite ?Ho1; auto. cbn [ebind].
  destruct (image_part_complete alph (le inp (o + 8 + 6) 3 + 1, le inp (o + 8 + 9) 3 + 1) fr' o1 e c1 rest Ht2 Hfe' Hie Himg)
    as (a3 & p3 & E3 & Hr3 & Ht3).
  rewrite exec_bind, E3. cbn [ebind].
  rewrite exec_bind, frame_tail_exec.
  assert (Hfu3 : fuel_ok fuel (cend c1 + wpad (w_len c1)) e).
  { eapply fuel_step; [exact Hfu | | apply (tiles_le _ _ _ _ Ht3) | lia].
    subst c1. rewrite cend_chunk_at. lia. }
  destruct (file_tail_complete fuel a3 fr' p3 _ e rest Hr3 Ht3 Hreg Hfu3 (more_top h e fr)) as (n & E4).
  rewrite E4. cbn [ebind]. rewrite exec_lift. unfold fr'. rewrite parent_L.
  split; [reflexivity|]. split; [|exact Ht1].
  apply (done_ready h e (AIn h e) e fr stop); auto.
  - left. auto.
  - split; [exact Hfe | cbn [ainv]; lia].
Qed.


(* ------------------------------------------------------------------ the frame loop *)
Lemma frames_complete fuel x : forall a fr p o stop cs rest, ready a fr p o stop -> tiles' o stop cs ->
  take_frames lok allow inp (has (x_flags x) F_ALPH) cs = Some rest -> fuel_ok fuel o stop ->
  more inp fr stop = false ->
  exists a' p' o', exec' (frames lossless allow fuel x (L a fr p)) p = (Ok (L a' fr p'), p')
    /\ ready a' fr p' o' stop /\ tiles' o' stop rest.
Proof.
  induction fuel as [|fuel IH]; intros a fr p o stop cs rest Hr Ht Htk Hfu Hm; [unfold fuel_ok in Hfu; lia|].
  pose proof Hr as [Hl Hb Hp Ho Hle Hf Hs]. cbn [frames].
  destruct cs as [|c cs].
  - injection Htk as <-. assert (Eso : stop = o) by (inversion Ht; congruence). subst stop.
    destruct (peek_header_go_none a fr p Hl Hp Hb) as (n & E); [rewrite Ho; exact Hm|]. rewrite Ho in E.
    rewrite exec_bind, E. cbn [ebind]. rewrite exec_ret. exists (AIdle n), o, o. split; [reflexivity|].
    split; [|exact Ht]. constructor; auto; try exact I; try reflexivity; try lia.
    + split; [exact Hf | exact I].
    + apply settled_padreq. exact I.
  - destruct (tiles_cfacts fr o stop c cs Ht Hf Hs) as (Ec & Hh & Hbo & Hes & Ht1).
    rewrite exec_bind, (peek_header_go_some a fr p Hl Hp Hb); rewrite ?Ho; auto. cbn [ebind].
    cbn [take_frames] in Htk. rewrite <- wname_chunk_at, <- Ec.
    change (teq (w_name c) ANMF) with (geq (w_name c) gANMF).
    destruct (geq (w_name c) gANMF) eqn:En.
    + destruct (frame_ok lok allow inp (has (x_flags x) F_ALPH) c) eqn:Efo; [|discriminate].
      apply geq_true in En.
      pose proof (ready_peek fr o stop c cs Ht Hf Hs) as Hrp.
      destruct (one_frame_complete fuel x _ fr _ o stop c cs Hrp Ht En Efo Hfu) as (E1 & Hr1 & _).
      rewrite exec_bind, E1. cbn [ebind].
      eapply IH; [exact Hr1 | exact Ht1 | exact Htk | | exact Hm].
      eapply fuel_step; [exact Hfu | | apply (tiles_le _ _ _ _ Ht1) | lia]. lia.
    + injection Htk as <-. rewrite exec_ret. exists (APeek (hdr_at' o)), (o + 8), o.
      split; [reflexivity|]. split; [eapply ready_peek; eauto | exact Ht].
Qed.

End C.
