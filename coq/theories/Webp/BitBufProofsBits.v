(* C19 proofs, layer A: bitstream_io's BitReader<Cursor<Vec<u8>>, LE> (numeric queue, lor/shift accumulation) against
   bit lists: every operation of the reader returns the first bits of [br_bits r] as the number sum bit_i 2^i and
   leaves a reader whose bits are the rest; end of data exactly when [br_bits r] is too short. *)
From Coq Require Import List PeanoNat NArith Bool Lia ZifyBool ZifyNat ZifyN.
From Coq.Strings Require Import Byte.
From MS Require Import Base.Bytes Base.Outcome Webp.BitBuf Webp.BitBufSpec.
Import ListNotations.
Open Scope N_scope.
Arguments N.add : simpl never.
Arguments N.sub : simpl never.
Arguments N.mul : simpl never.
Arguments N.div : simpl never.
Arguments N.modulo : simpl never.
Arguments N.pow : simpl never.
Arguments N.eqb : simpl never.
Arguments N.ltb : simpl never.
Arguments N.leb : simpl never.
Arguments N.shiftr : simpl never.
Arguments N.shiftl : simpl never.
Arguments N.lor : simpl never.
Arguments N.min : simpl never.
Arguments N.max : simpl never.

(* ---------------------------------------------------------------- lists indexed by N *)
Lemma nlen_nil {A} : nlen (@nil A) = 0. Proof. reflexivity. Qed.
Lemma nlen_cons {A} (a : A) l : nlen (a :: l) = 1 + nlen l.
Proof. unfold nlen. cbn [length]. lia. Qed.
Lemma nlen_app {A} (l1 l2 : list A) : nlen (l1 ++ l2) = nlen l1 + nlen l2.
Proof. unfold nlen. rewrite app_length. lia. Qed.
Lemma nlen_ntake {A} k (l : list A) : nlen (ntake k l) = N.min k (nlen l).
Proof. unfold nlen, ntake. rewrite firstn_length. lia. Qed.
Lemma nlen_ndrop {A} k (l : list A) : nlen (ndrop k l) = nlen l - k.
Proof. unfold nlen, ndrop. rewrite skipn_length. lia. Qed.
Lemma ntake_ndrop {A} k (l : list A) : ntake k l ++ ndrop k l = l.
Proof. apply firstn_skipn. Qed.
Lemma skipn_skipn' {A} a b (l : list A) : skipn a (skipn b l) = skipn (b + a) l.
Proof.
  revert l; induction b as [|b IH]; intros l; [reflexivity|].
  destruct l as [|x t]; [now rewrite !skipn_nil|]. cbn [skipn Nat.add]. apply IH.
Qed.
Lemma ndrop_ndrop {A} a b (l : list A) : ndrop a (ndrop b l) = ndrop (b + a) l.
Proof. unfold ndrop. rewrite skipn_skipn'. f_equal. lia. Qed.
Lemma ndrop_0 {A} (l : list A) : ndrop 0 l = l. Proof. reflexivity. Qed.
Lemma ntake_0 {A} (l : list A) : ntake 0 l = []. Proof. reflexivity. Qed.
Lemma ndrop_all {A} k (l : list A) : nlen l <= k -> ndrop k l = [].
Proof. intros H. unfold ndrop, nlen in *. apply skipn_all2. lia. Qed.
Lemma ntake_all {A} k (l : list A) : nlen l <= k -> ntake k l = l.
Proof. intros H. unfold ntake, nlen in *. apply firstn_all2. lia. Qed.
Lemma ntake_app_exact {A} a j (l1 l2 : list A) : nlen l1 = a -> ntake (a + j) (l1 ++ l2) = l1 ++ ntake j l2.
Proof.
  intros H. unfold ntake, nlen in *. replace (N.to_nat (a + j)) with (length l1 + N.to_nat j)%nat by lia.
  apply firstn_app_2.
Qed.
Lemma ndrop_app_exact {A} a j (l1 l2 : list A) : nlen l1 = a -> ndrop (a + j) (l1 ++ l2) = ndrop j l2.
Proof.
  intros H. unfold ndrop, nlen in *. replace (N.to_nat (a + j)) with (length l1 + N.to_nat j)%nat by lia.
  rewrite skipn_app. rewrite skipn_all2 by lia. cbn [app]. f_equal. lia.
Qed.
Lemma ndrop_app_exact0 {A} a (l1 l2 : list A) : nlen l1 = a -> ndrop a (l1 ++ l2) = l2.
Proof. intros H. rewrite <- (N.add_0_r a). rewrite (ndrop_app_exact a 0) by exact H. reflexivity. Qed.
Lemma ntake_app_exact0 {A} a (l1 l2 : list A) : nlen l1 = a -> ntake a (l1 ++ l2) = l1.
Proof. intros H. rewrite <- (N.add_0_r a). rewrite (ntake_app_exact a 0) by exact H. rewrite ntake_0. apply app_nil_r. Qed.
Lemma ntake_app_le {A} k (l1 l2 : list A) : k <= nlen l1 -> ntake k (l1 ++ l2) = ntake k l1.
Proof.
  intros H. unfold ntake, nlen in *. rewrite firstn_app.
  replace (N.to_nat k - length l1)%nat with O by lia. cbn [firstn]. apply app_nil_r.
Qed.
Lemma ndrop_app_le {A} k (l1 l2 : list A) : k <= nlen l1 -> ndrop k (l1 ++ l2) = ndrop k l1 ++ l2.
Proof.
  intros H. unfold ndrop, nlen in *. rewrite skipn_app.
  replace (N.to_nat k - length l1)%nat with O by lia. reflexivity.
Qed.
Lemma ntake_ntake {A} a b (l : list A) : a <= b -> ntake a (ntake b l) = ntake a l.
Proof.
  intros H. unfold ntake. rewrite firstn_firstn.
  replace (Nat.min (N.to_nat a) (N.to_nat b)) with (N.to_nat a) by lia. reflexivity.
Qed.

(* ---------------------------------------------------------------- numbers and bits *)
Lemma num_app l1 l2 : num_of_bits (l1 ++ l2) = num_of_bits l1 + 2 ^ nlen l1 * num_of_bits l2.
Proof.
  induction l1 as [|b t IH]; cbn [app num_of_bits].
  - change (nlen (@nil bool)) with 0. rewrite N.pow_0_r. lia.
  - rewrite IH, nlen_cons, N.add_1_l, N.pow_succ_r'. lia.
Qed.

Lemma num_lt l : num_of_bits l < 2 ^ nlen l.
Proof.
  induction l as [|b t IH]; cbn [num_of_bits].
  - cbn. lia.
  - rewrite nlen_cons, N.add_1_l, N.pow_succ_r'. destruct b; cbn [N.b2n]; lia.
Qed.

Lemma length_qbits k v : length (qbits k v) = k.
Proof. revert v; induction k as [|k IH]; intros v; cbn [qbits length]; [reflexivity | now rewrite IH]. Qed.
Lemma nlen_qbits k v : nlen (qbits k v) = N.of_nat k.
Proof. unfold nlen. now rewrite length_qbits. Qed.

Lemma odd_mod2 v : N.b2n (N.odd v) = v mod 2.
Proof. rewrite <- N.bit0_odd. apply N.bit0_mod. Qed.

Lemma num_qbits k v : num_of_bits (qbits k v) = v mod 2 ^ N.of_nat k.
Proof.
  revert v; induction k as [|k IH]; intros v; cbn [qbits num_of_bits].
  - cbn. now rewrite N.mod_1_r.
  - rewrite IH, Nat2N.inj_succ, N.pow_succ_r', N.div2_div, odd_mod2.
    rewrite N.mod_mul_r by (try apply N.pow_nonzero; lia). reflexivity.
Qed.

Lemma firstn_qbits j k v : (j <= k)%nat -> firstn j (qbits k v) = qbits j v.
Proof.
  revert k v; induction j as [|j IH]; intros k v H; [reflexivity|].
  destruct k as [|k]; [lia|]. cbn [qbits firstn]. f_equal. apply IH. lia.
Qed.

Lemma shiftr_succ v j : N.shiftr v (N.of_nat (S j)) = N.shiftr (N.div2 v) (N.of_nat j).
Proof.
  rewrite !N.shiftr_div_pow2, N.div2_div, Nat2N.inj_succ, N.pow_succ_r', N.div_div;
    try lia; try (apply N.pow_nonzero; lia).
Qed.

Lemma skipn_qbits j k v : skipn j (qbits k v) = qbits (k - j) (N.shiftr v (N.of_nat j)).
Proof.
  revert k v; induction j as [|j IH]; intros k v.
  - cbn [skipn]. rewrite Nat.sub_0_r. now rewrite N.shiftr_0_r.
  - destruct k as [|k]; [reflexivity|]. cbn [qbits skipn]. rewrite IH, shiftr_succ. reflexivity.
Qed.

Lemma ntake_qbits j k v : j <= N.of_nat k -> ntake j (qbits k v) = qbits (N.to_nat j) v.
Proof. intros H. unfold ntake. apply firstn_qbits. lia. Qed.
Lemma ndrop_qbits j k v : ndrop j (qbits k v) = qbits (k - N.to_nat j) (N.shiftr v j).
Proof. unfold ndrop. rewrite skipn_qbits. now rewrite N2Nat.id. Qed.

(* bytes *)
Lemma mbits_nil : mbits [] = []. Proof. reflexivity. Qed.
Lemma mbits_cons b l : mbits (b :: l) = qbits 8 (b2n b) ++ mbits l. Proof. reflexivity. Qed.
Lemma mbits_app l1 l2 : mbits (l1 ++ l2) = mbits l1 ++ mbits l2.
Proof. unfold mbits. apply flat_map_app. Qed.
Lemma nlen_mbits l : nlen (mbits l) = 8 * nlen l.
Proof.
  induction l as [|b t IH]; [reflexivity|].
  rewrite mbits_cons, nlen_app, nlen_qbits, IH, nlen_cons. lia.
Qed.
Lemma num_mbits l : num_of_bits (mbits l) = le2n l.
Proof.
  induction l as [|b t IH]; [reflexivity|].
  rewrite mbits_cons, num_app, nlen_qbits, num_qbits, IH. cbn [le2n].
  pose proof (b2n_lt b). change (N.of_nat 8) with 8. change (2 ^ 8) with 256.
  rewrite N.mod_small by lia. reflexivity.
Qed.
Lemma mbits_ndrop j l : ndrop (8 * j) (mbits l) = mbits (ndrop j l).
Proof.
  revert l. induction j as [|j IH] using N.peano_ind; intros l; [reflexivity|].
  destruct l as [|b t].
  - unfold ndrop. now rewrite !skipn_nil.
  - rewrite mbits_cons. replace (8 * N.succ j) with (8 + 8 * j) by lia.
    rewrite ndrop_app_exact by (now rewrite nlen_qbits). rewrite IH.
    unfold ndrop. rewrite N2Nat.inj_succ. reflexivity.
Qed.
Lemma mbits_ntake j l : ntake (8 * j) (mbits l) = mbits (ntake j l).
Proof.
  revert l. induction j as [|j IH] using N.peano_ind; intros l; [reflexivity|].
  destruct l as [|b t].
  - unfold ntake. now rewrite !firstn_nil.
  - rewrite mbits_cons. replace (8 * N.succ j) with (8 + 8 * j) by lia.
    rewrite ntake_app_exact by (now rewrite nlen_qbits). rewrite IH.
    unfold ntake. rewrite N2Nat.inj_succ. reflexivity.
Qed.

Lemma bits_of_byte_qbits b : bits_of_byte b = qbits 8 (b2n b).
Proof. destruct b; reflexivity. Qed.
Lemma bits_of_bytes_mbits l : bits_of_bytes l = mbits l.
Proof.
  unfold bits_of_bytes, mbits. induction l as [|b t IH]; [reflexivity|].
  cbn [flat_map]. now rewrite IH, bits_of_byte_qbits.
Qed.
Lemma slen_nlen l : slen l = nlen l. Proof. reflexivity. Qed.

(* lor / shift as arithmetic *)
Lemma land_shiftl_0 a b k : a < 2 ^ k -> N.land a (N.shiftl b k) = 0.
Proof.
  intros H. apply N.bits_inj. intros i. rewrite N.land_spec, N.bits_0.
  destruct (N.lt_ge_cases i k) as [Hi|Hi].
  - rewrite N.shiftl_spec_low by exact Hi. apply andb_false_r.
  - rewrite <- (N.mod_small a (2 ^ k)) by exact H. rewrite N.mod_pow2_bits_high by exact Hi. reflexivity.
Qed.
Lemma lor_shiftl_add a b k : a < 2 ^ k -> N.lor a (N.shiftl b k) = a + b * 2 ^ k.
Proof.
  intros H. pose proof (land_shiftl_0 a b k H) as L.
  rewrite <- N.lxor_lor by exact L. rewrite <- N.add_nocarry_lxor by exact L.
  now rewrite N.shiftl_mul_pow2.
Qed.
Lemma shl_small w x s : x * 2 ^ s < 2 ^ w -> shl w x s = x * 2 ^ s.
Proof. intros H. unfold shl. rewrite N.shiftl_mul_pow2. now apply N.mod_small. Qed.

Lemma pow2_pos k : 0 < 2 ^ k.
Proof. apply N.neq_0_lt_0, N.pow_nonzero. lia. Qed.
Lemma pow2_le a b : a <= b -> 2 ^ a <= 2 ^ b.
Proof. intros H. apply N.pow_le_mono_r; lia. Qed.
Lemma pow2_lt a b : a < b -> 2 ^ a < 2 ^ b.
Proof. intros H. apply N.pow_lt_mono_r; lia. Qed.

Lemma lor_shl_add w a x ab k :
  a < 2 ^ ab -> x < 2 ^ k -> ab + k <= w -> N.lor a (shl w x ab) = a + x * 2 ^ ab /\ a + x * 2 ^ ab < 2 ^ (ab + k).
Proof.
  intros Ha Hx Hw.
  assert (E : 2 ^ (ab + k) = 2 ^ ab * 2 ^ k) by apply N.pow_add_r.
  assert (B : a + x * 2 ^ ab < 2 ^ (ab + k)) by (rewrite E; pose proof (pow2_pos ab); nia).
  split; [|exact B].
  unfold shl. rewrite N.mod_small.
  - apply lor_shiftl_add, Ha.
  - rewrite N.shiftl_mul_pow2. pose proof (pow2_le (ab + k) w Hw). lia.
Qed.

Lemma push_bytes_ok w bs : forall av ab,
  av < 2 ^ ab -> ab + 8 * nlen bs <= w ->
  push_bytes w bs av ab = Some (av + 2 ^ ab * le2n bs, ab + 8 * nlen bs).
Proof.
  induction bs as [|b t IH]; intros av ab Ha Hw; cbn [push_bytes le2n].
  - change (nlen (@nil byte)) with 0. f_equal. f_equal; lia.
  - rewrite nlen_cons in Hw.
    destruct (N.ltb_spec (w - ab) 8) as [C|C]; [lia|].
    pose proof (b2n_lt b) as Hb. change 256 with (2 ^ 8) in Hb.
    destruct (lor_shl_add w av (b2n b) ab 8 Ha Hb ltac:(lia)) as [E B].
    rewrite E, IH; [| exact B | lia].
    rewrite nlen_cons. rewrite N.pow_add_r. change (2 ^ 8) with 256. f_equal. f_equal; lia.
Qed.

(* ---------------------------------------------------------------- the reader invariant *)
Definition bitpos (r : breader) : N := rpos r * 8 - qb r.

Definition wfr (r : breader) : Prop :=
  rpos r <= nlen (rbuf r) /\ qb r < 8 /\ qv r < 2 ^ qb r /\ qb r <= 8 * rpos r /\
  br_bits r = ndrop (bitpos r) (mbits (rbuf r)).

Lemma br_position_bitpos r : br_position_in_bits r = bitpos r. Proof. reflexivity. Qed.

Lemma nlen_br_bits r : rpos r <= nlen (rbuf r) -> nlen (br_bits r) = qb r + 8 * (nlen (rbuf r) - rpos r).
Proof.
  intros H. unfold br_bits. rewrite nlen_app, nlen_qbits, nlen_mbits, nlen_ndrop. lia.
Qed.

(* u64 arithmetic in position_in_bits / buf_bits never underflows *)
Lemma bitpos_no_underflow r : wfr r -> qb r <= rpos r * 8 /\ bitpos r <= 8 * nlen (rbuf r).
Proof. intros (H1 & H2 & H3 & H4 & H5). unfold bitpos. lia. Qed.

Lemma wfr_fresh buf : wfr (mkbr buf 0 0 0).
Proof.
  unfold wfr, bitpos, br_bits; cbn [rpos rbuf qb qv]. repeat split; try lia; try reflexivity.
Qed.

Lemma wfr_advance r r' n :
  wfr r -> rbuf r' = rbuf r -> br_bits r' = ndrop n (br_bits r) -> bitpos r' = bitpos r + n ->
  rpos r' <= nlen (rbuf r') -> qb r' < 8 -> qv r' < 2 ^ qb r' -> qb r' <= 8 * rpos r' -> wfr r'.
Proof.
  intros (H1 & H2 & H3 & H4 & H5) Eb El Ep A B C D. unfold wfr. repeat split; try assumption.
  rewrite El, H5, ndrop_ndrop, Eb, Ep. reflexivity.
Qed.

(* ---------------------------------------------------------------- Cursor::read_exact *)
Lemma cur_read_exact_ok k r : k <= nlen (rbuf r) - rpos r ->
  cur_read_exact k r = (Some (ntake k (ndrop (rpos r) (rbuf r))), set_pos r (rpos r + k)).
Proof. intros H. unfold cur_read_exact. destruct (N.leb_spec k (nlen (rbuf r) - rpos r)); [reflexivity|lia]. Qed.
Lemma cur_read_exact_eof k r : nlen (rbuf r) - rpos r < k ->
  cur_read_exact k r = (None, set_pos r (nlen (rbuf r))).
Proof. intros H. unfold cur_read_exact. destruct (N.leb_spec k (nlen (rbuf r) - rpos r)); [lia|reflexivity]. Qed.

Lemma cur_read_opt_ok m r : m <= nlen (rbuf r) - rpos r ->
  (if 0 <? m then cur_read_exact m r else (Some [], r)) = (Some (ntake m (ndrop (rpos r) (rbuf r))), set_pos r (rpos r + m)).
Proof.
  intros H. destruct (N.ltb_spec 0 m) as [C|C].
  - now apply cur_read_exact_ok.
  - assert (m = 0) by lia. subst m. rewrite ntake_0. destruct r; unfold set_pos; cbn. now rewrite N.add_0_r.
Qed.

(* ---------------------------------------------------------------- the queue *)
Lemma q_pop_lt k v b : k < b -> q_pop k v b = (v mod 2 ^ k, (N.shiftr v k, b - k)).
Proof. intros H. unfold q_pop. destruct (N.ltb_spec k b); [reflexivity|lia]. Qed.
Lemma q_pop_all k v b : b <= k -> q_pop k v b = (v, (0, 0)).
Proof. intros H. unfold q_pop. destruct (N.ltb_spec k b); [lia|reflexivity]. Qed.

Lemma shiftr_lt v a k : v < 2 ^ a -> k <= a -> N.shiftr v k < 2 ^ (a - k).
Proof.
  intros H Hk. rewrite N.shiftr_div_pow2. apply N.div_lt_upper_bound.
  - apply N.pow_nonzero; lia.
  - rewrite <- N.pow_add_r. replace (k + (a - k)) with a by lia. exact H.
Qed.

(* ---------------------------------------------------------------- BitRead::read *)
Lemma br_read_invalid w n r : w < n -> br_read w n r = (EIo EInvalidInput, r).
Proof. intros H. unfold br_read. destruct (N.ltb_spec w n); [reflexivity|lia]. Qed.

Lemma mod_pow2_small v k : v < 2 ^ k -> v mod 2 ^ k = v.
Proof. apply N.mod_small. Qed.

Lemma ndrop_cons1 {A} (b : A) t : ndrop 1 (b :: t) = t. Proof. reflexivity. Qed.
Lemma ntake_cons1 {A} (b : A) t : ntake 1 (b :: t) = [b]. Proof. reflexivity. Qed.

Lemma byte_shiftr_lt b k : k <= 8 -> N.shiftr (b2n b) k < 2 ^ (8 - k).
Proof. intros H. apply shiftr_lt; [|exact H]. pose proof (b2n_lt b). change (2 ^ 8) with 256. lia. Qed.

Lemma br_read_ok w n r :
  wfr r -> n <= w -> n <= nlen (br_bits r) ->
  exists r', br_read w n r = (Ok (num_of_bits (ntake n (br_bits r))), r') /\
             rbuf r' = rbuf r /\ br_bits r' = ndrop n (br_bits r) /\ wfr r'.
Proof.
  intros W Hw Hn. pose proof W as (P1 & P2 & P3 & P4 & P5).
  unfold br_read. destruct (N.ltb_spec w n) as [C|_]; [lia|].
  destruct (N.leb_spec n (qb r)) as [C1|C1].
  - (* served by the queue *)
    assert (V : num_of_bits (ntake n (br_bits r)) = qv r mod 2 ^ n).
    { unfold br_bits. rewrite ntake_app_le by (rewrite nlen_qbits; lia).
      rewrite ntake_qbits by lia. rewrite num_qbits. now rewrite N2Nat.id. }
    destruct (N.lt_ge_cases n (qb r)) as [C2|C2].
    + rewrite q_pop_lt by exact C2.
      assert (B : br_bits (set_q r (N.shiftr (qv r) n) (qb r - n)) = ndrop n (br_bits r)).
      { unfold br_bits, set_q; cbn [rbuf rpos qv qb]. rewrite ndrop_app_le by (rewrite nlen_qbits; lia).
        rewrite ndrop_qbits. f_equal. f_equal. lia. }
      eexists; split; [rewrite V; reflexivity|]. split; [reflexivity|]. split; [exact B|].
      apply (wfr_advance r _ n W); try reflexivity; try exact B; unfold bitpos, set_q; cbn [rbuf rpos qv qb]; try lia.
      apply shiftr_lt; [exact P3|lia].
    + rewrite q_pop_all by exact C2. assert (n = qb r) by lia. subst n.
      assert (B : br_bits (set_q r 0 0) = ndrop (qb r) (br_bits r)).
      { unfold br_bits, set_q; cbn [rbuf rpos qv qb].
        rewrite ndrop_app_exact0 by (rewrite nlen_qbits; lia). reflexivity. }
      eexists; split; [rewrite V, mod_pow2_small by exact P3; reflexivity|]. split; [reflexivity|]. split; [exact B|].
      apply (wfr_advance r _ (qb r) W); try reflexivity; try exact B; unfold bitpos, set_q; cbn [rbuf rpos qv qb]; try lia.
  - (* queue, whole bytes, part of one more byte *)
    destruct (N.ltb_spec (qv r) (2 ^ qb r)) as [_|C]; [|lia]. cbn [negb].
    set (bits := n - qb r). set (m := bits / 8). set (k := bits mod 8).
    assert (Ebits : bits = 8 * m + k) by (subst m k; apply N.div_mod; lia).
    assert (Hk : k < 8) by (subst k; apply N.mod_lt; lia).
    rewrite nlen_br_bits in Hn by exact P1.
    set (rest := ndrop (rpos r) (rbuf r)).
    assert (Lrest : nlen rest = nlen (rbuf r) - rpos r) by (subst rest; apply nlen_ndrop).
    assert (Hm : m <= nlen rest) by lia.
    set (r0 := set_q r 0 0).
    assert (E0 : (if 0 <? m then cur_read_exact m r0 else (Some [], r0)) =
                 (Some (ntake m rest), set_pos r0 (rpos r + m))).
    { apply (cur_read_opt_ok m r0). subst r0; unfold set_q; cbn [rbuf rpos]. lia. }
    rewrite E0.
    assert (Lbs : nlen (ntake m rest) = m) by (rewrite nlen_ntake; lia).
    rewrite push_bytes_ok by (try exact P3; rewrite Lbs; lia).
    rewrite Lbs.
    assert (EL : br_bits r = qbits (N.to_nat (qb r)) (qv r) ++ mbits (ntake m rest) ++ mbits (ndrop m rest)).
    { unfold br_bits. fold rest. rewrite <- mbits_app, ntake_ndrop. reflexivity. }
    assert (LQ : nlen (qbits (N.to_nat (qb r)) (qv r)) = qb r) by (rewrite nlen_qbits; lia).
    assert (LM : nlen (mbits (ntake m rest)) = 8 * m) by (rewrite nlen_mbits, Lbs; reflexivity).
    assert (NQ : num_of_bits (qbits (N.to_nat (qb r)) (qv r)) = qv r).
    { rewrite num_qbits, N2Nat.id. apply mod_pow2_small, P3. }
    destruct (N.ltb_spec 0 k) as [Ck|Ck].
    + (* k > 0: one more byte *)
      assert (Hm1 : m < nlen rest) by lia.
      destruct (ndrop m rest) as [|b tl] eqn:Etl.
      { exfalso. assert (Z : nlen (ndrop m rest) = 0) by now rewrite Etl. rewrite nlen_ndrop in Z. lia. }
      assert (Etl' : ndrop (rpos r + m) (rbuf r) = b :: tl).
      { rewrite <- ndrop_ndrop. exact Etl. }
      rewrite cur_read_exact_ok by (subst r0; unfold set_pos, set_q; cbn [rbuf rpos]; lia).
      unfold set_pos at 1 2, set_q at 1 2; cbn [rbuf rpos qv qb]. subst r0; unfold set_q at 1; cbn [rbuf rpos qv qb].
      rewrite Etl', ntake_cons1.
      rewrite q_pop_lt by exact Hk.
      destruct (N.ltb_spec (w - (qb r + 8 * m)) k) as [C|_]; [lia|].
      assert (Hx : b2n b mod 2 ^ k < 2 ^ k) by (apply N.mod_lt, N.pow_nonzero; lia).
      assert (Ha : qv r + 2 ^ qb r * le2n (ntake m rest) < 2 ^ (qb r + 8 * m)).
      { rewrite N.pow_add_r. pose proof (le2n_lt (ntake m rest)) as L.
        replace (256 ^ N.of_nat (length (ntake m rest))) with (2 ^ (8 * m)) in L.
        - pose proof (pow2_pos (qb r)). nia.
        - change 256 with (2 ^ 8). rewrite <- N.pow_mul_r. f_equal. unfold nlen in Lbs. lia. }
      destruct (lor_shl_add w _ _ _ k Ha Hx ltac:(lia)) as [EV _]. rewrite EV.
      assert (ET : ntake n (br_bits r) = qbits (N.to_nat (qb r)) (qv r) ++ mbits (ntake m rest) ++ qbits (N.to_nat k) (b2n b)).
      { rewrite EL. replace n with (qb r + (8 * m + k)) by lia.
        rewrite ntake_app_exact by exact LQ. rewrite ntake_app_exact by exact LM.
        rewrite mbits_cons. rewrite ntake_app_le by (rewrite nlen_qbits; lia).
        rewrite ntake_qbits by lia. reflexivity. }
      assert (B : br_bits (mkbr (rbuf r) (rpos r + m + 1) (N.shiftr (b2n b) k) (8 - k)) = ndrop n (br_bits r)).
      { rewrite EL. replace n with (qb r + (8 * m + k)) by lia.
        rewrite ndrop_app_exact by exact LQ. rewrite ndrop_app_exact by exact LM.
        rewrite mbits_cons. rewrite ndrop_app_le by (rewrite nlen_qbits; lia).
        rewrite ndrop_qbits. unfold br_bits; cbn [rbuf rpos qv qb].
        replace (rpos r + m + 1) with (rpos r + m + 1) by reflexivity.
        rewrite <- (ndrop_ndrop 1 (rpos r + m)), Etl', ndrop_cons1.
        f_equal. f_equal. lia. }
      exists (mkbr (rbuf r) (rpos r + m + 1) (N.shiftr (b2n b) k) (8 - k)).
      split; [|split; [reflexivity|split; [exact B|]]].
      * f_equal. f_equal. rewrite ET, !num_app, LQ, LM, NQ, num_mbits, num_qbits, N2Nat.id.
        rewrite N.pow_add_r. lia.
      * apply (wfr_advance r _ n W); try reflexivity; try exact B; unfold bitpos; cbn [rbuf rpos qv qb]; try lia.
        apply byte_shiftr_lt. lia.
    + (* k = 0 *)
      assert (k = 0) by lia.
      assert (ET : ntake n (br_bits r) = qbits (N.to_nat (qb r)) (qv r) ++ mbits (ntake m rest)).
      { rewrite EL. replace n with (qb r + (8 * m + 0)) by lia.
        rewrite ntake_app_exact by exact LQ. rewrite ntake_app_exact by exact LM.
        rewrite ntake_0, app_nil_r. reflexivity. }
      assert (B : br_bits (set_pos r0 (rpos r + m)) = ndrop n (br_bits r)).
      { rewrite EL. replace n with (qb r + (8 * m + 0)) by lia.
        rewrite ndrop_app_exact by exact LQ. rewrite ndrop_app_exact by exact LM. rewrite ndrop_0.
        subst r0. unfold br_bits, set_pos, set_q; cbn [rbuf rpos qv qb]. cbn [N.to_nat qbits app].
        subst rest. now rewrite ndrop_ndrop. }
      exists (set_pos r0 (rpos r + m)).
      split; [|split; [reflexivity|split; [exact B|]]].
      * f_equal. f_equal. rewrite ET, num_app, LQ, NQ, num_mbits. reflexivity.
      * apply (wfr_advance r _ n W); try reflexivity; try exact B; subst r0;
          unfold bitpos, set_pos, set_q; cbn [rbuf rpos qv qb]; try lia.
Qed.

Lemma br_read_eof w n r :
  wfr r -> n <= w -> nlen (br_bits r) < n ->
  exists r', br_read w n r = (EIo EUnexpectedEof, r') /\ rbuf r' = rbuf r.
Proof.
  intros W Hw Hn. pose proof W as (P1 & P2 & P3 & P4 & P5).
  rewrite nlen_br_bits in Hn by exact P1.
  unfold br_read. destruct (N.ltb_spec w n) as [C|_]; [lia|].
  destruct (N.leb_spec n (qb r)) as [C1|C1]; [lia|].
  destruct (N.ltb_spec (qv r) (2 ^ qb r)) as [_|C]; [|lia]. cbn [negb].
  set (bits := n - qb r). set (m := bits / 8). set (k := bits mod 8).
  assert (Ebits : bits = 8 * m + k) by (subst m k; apply N.div_mod; lia).
  assert (Hk : k < 8) by (subst k; apply N.mod_lt; lia).
  set (r0 := set_q r 0 0).
  destruct (N.le_gt_cases m (nlen (rbuf r) - rpos r)) as [Cm|Cm].
  - (* the whole bytes are there, the partial one is not *)
    assert (E0 : (if 0 <? m then cur_read_exact m r0 else (Some [], r0)) =
                 (Some (ntake m (ndrop (rpos r) (rbuf r))), set_pos r0 (rpos r + m))).
    { apply (cur_read_opt_ok m r0). subst r0; unfold set_q; cbn [rbuf rpos]. lia. }
    rewrite E0.
    assert (Lbs : nlen (ntake m (ndrop (rpos r) (rbuf r))) = m) by (rewrite nlen_ntake, nlen_ndrop; lia).
    rewrite push_bytes_ok by (try exact P3; rewrite Lbs; lia).
    destruct (N.ltb_spec 0 k) as [Ck|Ck]; [|lia].
    rewrite cur_read_exact_eof by (subst r0; unfold set_pos, set_q; cbn [rbuf rpos]; lia).
    eexists; split; reflexivity.
  - destruct (N.ltb_spec 0 m) as [_|C]; [|lia].
    rewrite cur_read_exact_eof by (subst r0; unfold set_q; cbn [rbuf rpos]; lia).
    eexists; split; reflexivity.
Qed.

(* ---------------------------------------------------------------- BitRead::read_bit *)
Lemma bit_of_mod2 v : (v mod 2 =? 1) = N.odd v.
Proof. rewrite <- odd_mod2. destruct (N.odd v); reflexivity. Qed.

Lemma br_read_bit_ok r b t :
  wfr r -> br_bits r = b :: t ->
  exists r', br_read_bit r = (Ok b, r') /\ rbuf r' = rbuf r /\ br_bits r' = t /\ wfr r'.
Proof.
  intros W E. pose proof W as (P1 & P2 & P3 & P4 & P5).
  assert (Et : t = ndrop 1 (br_bits r)) by now rewrite E.
  unfold br_read_bit. destruct (N.eqb_spec (qb r) 0) as [C|C].
  - (* fetch a byte *)
    unfold br_bits in E. rewrite C in E. cbn [N.to_nat qbits app] in E.
    destruct (ndrop (rpos r) (rbuf r)) as [|b0 tl] eqn:Etl; [discriminate|].
    assert (Lr : nlen (ndrop (rpos r) (rbuf r)) = 1 + nlen tl) by (rewrite Etl; apply nlen_cons).
    rewrite nlen_ndrop in Lr.
    rewrite cur_read_exact_ok by lia. rewrite Etl, ntake_cons1.
    rewrite q_pop_lt by lia.
    rewrite mbits_cons in E. change 8%nat with (S 7) in E. cbn [qbits app] in E. injection E as Eb Et'.
    change (2 ^ 1) with 2. rewrite bit_of_mod2, Eb.
    assert (B : br_bits (set_q (set_pos r (rpos r + 1)) (N.shiftr (b2n b0) 1) (8 - 1)) = t).
    { unfold br_bits, set_q, set_pos; cbn [rbuf rpos qv qb]. rewrite <- Et'.
      rewrite <- (ndrop_ndrop 1 (rpos r)), Etl, ndrop_cons1. rewrite <- N.div2_spec. reflexivity. }
    eexists; split; [reflexivity|]. split; [reflexivity|]. split; [exact B|].
    apply (wfr_advance r _ 1 W); try reflexivity; try (rewrite B; exact Et);
      unfold bitpos, set_q, set_pos; cbn [rbuf rpos qv qb]; try lia.
    apply byte_shiftr_lt; lia.
  - assert (V : N.odd (qv r) = b /\ t = qbits (N.to_nat (qb r) - 1) (N.div2 (qv r)) ++ mbits (ndrop (rpos r) (rbuf r))).
    { unfold br_bits in E. destruct (N.to_nat (qb r)) as [|k'] eqn:Ek; [lia|].
      cbn [qbits app] in E. injection E as Eb Et'. split; [exact Eb|]. rewrite <- Et'. f_equal. f_equal. lia. }
    destruct V as [Vb Vt].
    destruct (N.lt_ge_cases 1 (qb r)) as [C2|C2].
    + rewrite q_pop_lt by exact C2. change (2 ^ 1) with 2. rewrite bit_of_mod2, Vb.
      assert (B : br_bits (set_q r (N.shiftr (qv r) 1) (qb r - 1)) = t).
      { unfold br_bits, set_q; cbn [rbuf rpos qv qb]. rewrite Vt, <- N.div2_spec. f_equal. f_equal. lia. }
      eexists; split; [reflexivity|]. split; [reflexivity|]. split; [exact B|].
      apply (wfr_advance r _ 1 W); try reflexivity; try (rewrite B; exact Et);
        unfold bitpos, set_q; cbn [rbuf rpos qv qb]; try lia.
      apply shiftr_lt; [exact P3|lia].
    + rewrite q_pop_all by exact C2. assert (Q1 : qb r = 1) by lia.
      assert (B : br_bits (set_q r 0 0) = t).
      { unfold br_bits, set_q; cbn [rbuf rpos qv qb]. rewrite Vt, Q1. reflexivity. }
      assert (Vq : (qv r =? 1) = b).
      { rewrite <- Vb. rewrite Q1 in P3. change (2 ^ 1) with 2 in P3.
        assert (qv r = 0 \/ qv r = 1) as [Z|Z] by lia; rewrite Z; reflexivity. }
      rewrite Vq.
      eexists; split; [reflexivity|]. split; [reflexivity|]. split; [exact B|].
      apply (wfr_advance r _ 1 W); try reflexivity; try (rewrite B; exact Et);
        unfold bitpos, set_q; cbn [rbuf rpos qv qb]; try lia.
Qed.

Lemma br_read_bit_eof r :
  wfr r -> br_bits r = [] -> exists r', br_read_bit r = (EIo EUnexpectedEof, r') /\ rbuf r' = rbuf r.
Proof.
  intros W E. pose proof W as (P1 & P2 & P3 & P4 & P5).
  assert (L : nlen (br_bits r) = 0) by now rewrite E.
  rewrite nlen_br_bits in L by exact P1.
  unfold br_read_bit. destruct (N.eqb_spec (qb r) 0) as [C|C]; [|lia].
  rewrite cur_read_exact_eof by lia. eexists; split; reflexivity.
Qed.

(* k times read_bit = advance k bits *)
Lemma tl_skipn {A} k (l : list A) : tl (skipn k l) = skipn (S k) l.
Proof.
  revert l; induction k as [|k IH]; intros l; [destruct l; reflexivity|].
  destruct l as [|x t]; [reflexivity|]. cbn [skipn]. rewrite IH. reflexivity.
Qed.

Lemma br_iter_read_bit r k :
  wfr r -> (k <= length (br_bits r))%nat ->
  let r' := Nat.iter k (fun r0 => snd (br_read_bit r0)) r in
  rbuf r' = rbuf r /\ br_bits r' = skipn k (br_bits r) /\ wfr r'.
Proof.
  intros W. induction k as [|k IH]; intros Hk; cbn zeta.
  - cbn [Nat.iter skipn]. auto.
  - change (Nat.iter (S k) (fun r0 => snd (br_read_bit r0)) r)
      with (snd (br_read_bit (Nat.iter k (fun r0 => snd (br_read_bit r0)) r))).
    destruct (IH ltac:(lia)) as (E1 & E2 & W').
    set (rk := Nat.iter k (fun r0 => snd (br_read_bit r0)) r) in *.
    destruct (skipn k (br_bits r)) as [|b t] eqn:Es.
    { exfalso. assert (Z : length (skipn k (br_bits r)) = O) by now rewrite Es. rewrite skipn_length in Z. lia. }
    destruct (br_read_bit_ok rk b t W' E2) as (r' & Er & Eb & Et & Wr).
    cbn beta. rewrite Er. cbn [snd]. split; [congruence|]. split; [|exact Wr].
    rewrite Et, <- tl_skipn, Es. reflexivity.
Qed.

Lemma br_read_huffman_ok d r s k :
  wfr r -> hd_dec d (br_bits r) = Some (s, k) -> k <= nlen (br_bits r) ->
  exists r', br_read_huffman d r = (Ok s, r') /\ rbuf r' = rbuf r /\ br_bits r' = ndrop k (br_bits r) /\ wfr r'.
Proof.
  intros W E Hk. unfold br_read_huffman. rewrite E.
  destruct (br_iter_read_bit r (N.to_nat k) W) as (E1 & E2 & W'); [unfold nlen in Hk; lia|].
  eexists; split; [reflexivity|]. auto.
Qed.

Lemma br_read_huffman_eof d r :
  hd_dec d (br_bits r) = None ->
  exists r', br_read_huffman d r = (EIo EUnexpectedEof, r') /\ rbuf r' = rbuf r.
Proof. intros E. unfold br_read_huffman. rewrite E. eexists; split; reflexivity. Qed.

(* ---------------------------------------------------------------- BitRead::skip on a fresh reader (fill_buf) *)
Lemma br_skip_fresh buf k :
  k < 8 -> (0 < k -> 1 <= nlen buf) ->
  exists r', br_skip k (mkbr buf 0 0 0) = (Ok tt, r') /\ rbuf r' = buf /\
             br_bits r' = ndrop k (mbits buf) /\ wfr r'.
Proof.
  intros Hk Hb. unfold br_skip; cbn [qb qv rbuf rpos].
  replace (N.min 0 k) with 0 by lia. rewrite N.eqb_refl. rewrite N.sub_0_r.
  rewrite N.div_small by exact Hk. change (0 <? 0) with false. cbn iota.
  rewrite N.mod_small by exact Hk.
  destruct (N.ltb_spec 0 k) as [C|C].
  - destruct buf as [|b tl]; [specialize (Hb C); change (nlen (@nil byte)) with 0 in Hb; lia|].
    rewrite cur_read_exact_ok by (cbn [rbuf rpos]; rewrite nlen_cons; lia).
    cbn [rbuf rpos]. rewrite ndrop_0, ntake_cons1. rewrite q_pop_lt by exact Hk.
    assert (B : br_bits (set_q (set_pos (mkbr (b :: tl) 0 0 0) (0 + 1)) (N.shiftr (b2n b) k) (8 - k)) =
                ndrop k (mbits (b :: tl))).
    { unfold br_bits, set_q, set_pos; cbn [rbuf rpos qv qb]. change (0 + 1) with 1. rewrite ndrop_cons1.
      rewrite mbits_cons, ndrop_app_le by (rewrite nlen_qbits; lia). rewrite ndrop_qbits.
      f_equal. f_equal. lia. }
    eexists; split; [reflexivity|]. split; [reflexivity|]. split; [exact B|].
    apply (wfr_advance (mkbr (b :: tl) 0 0 0) _ k (wfr_fresh _)); try reflexivity;
      try (rewrite B; reflexivity); unfold bitpos, set_q, set_pos; cbn [rbuf rpos qv qb]; try lia.
    apply byte_shiftr_lt; lia.
  - assert (k = 0) by lia. subst k. eexists; split; [reflexivity|]. split; [reflexivity|].
    split; [reflexivity|apply wfr_fresh].
Qed.
