(* Independent specification for C18, written from the property text, the WebP lossless bitstream specification
   (section "Decoding of Meta Prefix Codes / canonical prefix codes", which defers to RFC 1951 section 3.2.2) and
   the Kraft equality.  Nothing here mentions sorting, tries or incrementing bit vectors; nothing is imported from
   the model.

   A code-length vector `cl : list N` gives the length of the code of symbol i at position i (0 = symbol unused). *)
From Coq Require Import List NArith Bool.
Import ListNotations.
Open Scope N_scope.

Definition nonzero (l : N) : bool := negb (l =? 0).

(* ---- completeness: Kraft sum -------------------------------------------------------------------------------
   sum over used symbols of 2^-l, as the exact integer  sum 2^(L - l)  at the scale L = the maximal length;
   the sum is 1 iff the scaled sum is 2^L. *)
Definition max_len (cl : list N) : N := fold_right N.max 0 cl.

Fixpoint kraft_at (L : N) (cl : list N) : N :=
  match cl with
  | [] => 0
  | l :: r => (if nonzero l then 2 ^ (L - l) else 0) + kraft_at L r
  end.

Definition kraft_is_one (cl : list N) : bool := kraft_at (max_len cl) cl =? 2 ^ max_len cl.
Definition kraft_le_one (cl : list N) : bool := kraft_at (max_len cl) cl <=? 2 ^ max_len cl.

(* "a single used symbol of length 1" *)
Definition single_len1 (cl : list N) : bool :=
  match filter nonzero cl with
  | [1] => true
  | _ => false
  end.

(* the acceptance rule of the property text *)
Definition spec_accepts (cl : list N) : bool := kraft_is_one cl || single_len1 cl.

(* ---- canonical assignment (RFC 1951, 3.2.2) ---------------------------------------------------------------
   1) bl_count[l] = number of codes of length l (bl_count[0] = 0)
   2) code = 0; for bits = 1..MAX: code = (code + bl_count[bits-1]) << 1; next_code[bits] = code
   3) for n = 0..max_code: len = tree[n].Len; if len != 0 { tree[n].Code = next_code[len]; next_code[len]++ }
   The code of a symbol is the `len` low bits of that number, most significant bit first.
   Step 3 in closed form: symbol n gets next_code[len] + (number of symbols m < n with the same length)
   -- "shorter codes first, ties by symbol value". *)
Definition count (l : N) (cl : list N) : N := N.of_nat (count_occ N.eq_dec cl l).

Definition bl_count (cl : list N) (l : N) : N := if l =? 0 then 0 else count l cl.

Fixpoint next_code (cl : list N) (bits : nat) : N :=
  match bits with
  | O => 0
  | S b => 2 * (next_code cl b + bl_count cl (N.of_nat b))
  end.

Definition canon_value (cl : list N) (n : N) (l : N) : N :=
  next_code cl (N.to_nat l) + count l (firstn (N.to_nat n) cl).

(* the n low bits of v, most significant first *)
Fixpoint bits_msb (n : nat) (v : N) : list bool :=
  match n with
  | O => []
  | S k => N.testbit v (N.of_nat k) :: bits_msb k v
  end.

Fixpoint rfc_from (all : list N) (n : N) (rest : list N) : list (N * list bool) :=
  match rest with
  | [] => []
  | l :: r =>
      (if nonzero l then [(n, bits_msb (N.to_nat l) (canon_value all n l))] else []) ++ rfc_from all (n + 1) r
  end.
Definition rfc_table (cl : list N) : list (N * list bool) := rfc_from cl 0 cl.

(* WebP lossless: a code with a single used symbol (of length 1) is read with zero bits *)
Definition canonical (cl : list N) : list (N * list bool) :=
  if single_len1 cl then map (fun sc => (fst sc, [])) (rfc_table cl) else rfc_table cl.

(* ---- decoding by code table --------------------------------------------------------------------------------*)
Fixpoint strip_prefix (c bits : list bool) : option (list bool) :=
  match c, bits with
  | [], _ => Some bits
  | _ :: _, [] => None
  | a :: c', b :: r => if Bool.eqb a b then strip_prefix c' r else None
  end.

(* the (for a prefix code: unique) table entry whose code is a prefix of the input *)
Fixpoint table_decode (tbl : list (N * list bool)) (bits : list bool) : option (N * list bool) :=
  match tbl with
  | [] => None
  | (s, c) :: r =>
      match strip_prefix c bits with
      | Some rest => Some (s, rest)
      | None => table_decode r bits
      end
  end.

Fixpoint table_decode_many (n : nat) (tbl : list (N * list bool)) (bits : list bool) : list N * list bool :=
  match n with
  | O => ([], bits)
  | S k =>
      match table_decode tbl bits with
      | None => ([], bits)
      | Some (s, rest) => let '(ss, r) := table_decode_many k tbl rest in (s :: ss, r)
      end
  end.

(* ---- what the oracle evaluates on an implementation observation -------------------------------------------
   observation: accepted?, longest_code_len, the decoded symbols of `bits` (up to `n` symbols) and the number of
   bits consumed *)
Definition spec_longest (cl : list N) : N := if single_len1 cl then 0 else max_len cl.

Definition spec_observation (cl : list N) (n : nat) (bits : list bool) : option (N * list N * N) :=
  if spec_accepts cl then
    let '(ss, r) := table_decode_many n (canonical cl) bits in
    Some (spec_longest cl, ss, N.of_nat (length bits - length r))
  else None.
