(* C07 / C08 proofs, part 1: the reader monads, the accessors (model accessors = the ideal accessors of BitBufSpec.v =
   the specification's ReadBits), the simulation relation between a model run and a specification run and its
   composition lemma. *)
From Coq Require Import List NArith ZArith PeanoNat Bool Lia ZifyBool ZifyNat ZifyN.
From Coq.Strings Require Import Byte.
From MS Require Import Base.Bytes Base.Outcome Webp.Huffman Webp.HuffmanSpec Webp.BitBufSpec Webp.Vp8l Webp.Vp8lSpec.
Import ListNotations.
Open Scope N_scope.
Arguments N.add : simpl never.
Arguments N.sub : simpl never.
Arguments N.mul : simpl never.
Arguments N.div : simpl never.
Arguments N.modulo : simpl never.
Arguments N.pow : simpl never.
Arguments N.eqb : simpl never.
Arguments N.ltb : simpl never.
Arguments N.leb : simpl never.

(* ---------------------------------------------------------------- fixed-width reads *)
Lemma take_num_spec n : forall bits,
  take_num n bits = if (n <=? length bits)%nat then Some (num_of_bits (firstn n bits), skipn n bits) else None.
Proof.
  induction n as [|n IH]; intros bits; cbn [take_num].
  - reflexivity.
  - destruct bits as [|b r]; [reflexivity|]. rewrite IH. cbn [length firstn skipn num_of_bits].
    change (S n <=? S (length r))%nat with (n <=? length r)%nat.
    destruct (n <=? length r)%nat; reflexivity.
Qed.

Lemma take_bits_is_take_num n : forall bits, take_bits n bits = take_num n bits.
Proof.
  induction n as [|n IH]; intros bits; cbn [take_bits take_num]; [reflexivity|].
  destruct bits as [|b r]; [reflexivity|]. rewrite IH. destruct (take_num n r) as [[v rest]|]; [|reflexivity].
  destruct b; reflexivity.
Qed.

Lemma take_num_some n : forall bits v rest,
  take_num n bits = Some (v, rest) ->
  v < 2 ^ N.of_nat n /\ length bits = (n + length rest)%nat /\ exists c, bits = c ++ rest /\ length c = n.
Proof.
  induction n as [|n IH]; intros bits v rest H; cbn [take_num] in H.
  - inversion H; subst. split; [cbn; lia|]. split; [reflexivity|]. exists []. split; reflexivity.
  - destruct bits as [|b r]; [discriminate|]. destruct (take_num n r) as [[v' rest']|] eqn:E; [|discriminate].
    inversion H; subst. destruct (IH _ _ _ E) as (Hv & Hl & c & Hc & Hcl).
    split; [|split].
    + rewrite Nat2N.inj_succ, N.pow_succ_r'. destruct b; cbn [N.b2n]; lia.
    + cbn [length]. lia.
    + exists (b :: c). split; [now rewrite Hc|cbn [length]; now rewrite Hcl].
Qed.

(* the model's read is the ideal read of BitBufSpec.v (so C19 applies to it) *)
Lemma rd_is_ideal w n s : rd w n s = of_ideal (ideal_read w n s).
Proof.
  unfold rd, ideal_read. destruct (w <? n); [reflexivity|].
  rewrite take_num_spec. unfold slen.
  destruct (N.leb_spec n (N.of_nat (length s))) as [H|H].
  - replace (N.to_nat n <=? length s)%nat with true by (symmetry; apply Nat.leb_le; lia). reflexivity.
  - replace (N.to_nat n <=? length s)%nat with false by (symmetry; apply Nat.leb_gt; lia). reflexivity.
Qed.

Lemma rd_lz77_is_ideal c s : rd_lz77 c s = of_ideal (ideal_read_lz77 c s).
Proof.
  unfold rd_lz77, ideal_read_lz77. destruct (c <? 4); [reflexivity|]. destruct (c <? 40) eqn:E; [|reflexivity].
  set (eb := (c - 2) / 2). rewrite rd_is_ideal. unfold ideal_read.
  assert (Heb : eb <= 32).
  { unfold eb. apply N.ltb_lt in E. apply N.div_le_upper_bound; lia. }
  replace (32 <? eb) with false by (symmetry; apply N.ltb_ge; exact Heb).
  destruct (eb <=? slen s); reflexivity.
Qed.

(* the specification's ReadBits is the same function *)
Lemma read_bits_is_rd w n s : n <= w ->
  match rd w n s with
  | Ok (v, rest) => read_bits n s = SOk v rest
  | EParse e => e = TruncatedChunk /\ read_bits n s = SFail RTruncated
  | _ => False
  end.
Proof.
  intros H. assert (E : (w <? n) = false) by (apply N.ltb_ge; exact H).
  unfold rd, read_bits. rewrite E. change (take_bits (N.to_nat n) s) with (take_num (N.to_nat n) s).
  destruct (take_num (N.to_nat n) s) as [[v rest]|]; auto.
Qed.

Lemma rd_value w n s v rest : rd w n s = Ok (v, rest) -> v < 2 ^ n /\ (length rest <= length s)%nat.
Proof.
  unfold rd. destruct (w <? n); [discriminate|]. destruct (take_num (N.to_nat n) s) as [[v' r']|] eqn:E; [|discriminate].
  intros H; inversion H; subst. destruct (take_num_some _ _ _ _ E) as (Hv & Hl & _). rewrite N2Nat.id in Hv. split; [exact Hv|lia].
Qed.

(* ---------------------------------------------------------------- the simulation relation *)
(* The model run decides: a value => the specification yields a related value and the same rest; a parse error => the
   specification refuses; running out of fuel is excluded separately (Vp8lProofsFuel.v); panics and I/O errors do
   not occur. *)
Definition sim {A B} (R : A -> B -> Prop) (m : res (A * list bool)) (s : sres B) : Prop :=
  match m with
  | Ok (a, rest) => exists b, s = SOk b rest /\ R a b
  | EParse _ => exists r, s = SFail r
  | OutOfFuel => True
  | EIo _ | Panic _ => False
  end.

Lemma sim_bind {A B A' B'} (R : A -> B -> Prop) (R' : A' -> B' -> Prop)
      (m : M A) (f : A -> M A') (s : SM B) (g : B -> SM B') bits :
  sim R (m bits) (s bits) ->
  (forall a b rest, R a b -> sim R' (f a rest) (g b rest)) ->
  sim R' (mbind m f bits) (sbind s g bits).
Proof.
  intros H K. unfold mbind, sbind. destruct (m bits) as [[a rest]|e|e|p|]; cbn [sim] in *; try contradiction; try exact I.
  - destruct H as (b & -> & HR). apply K. exact HR.
  - destruct H as (r & ->). exists r. reflexivity.
Qed.

Lemma sim_ret {A B} (R : A -> B -> Prop) a b bits : R a b -> sim R (mret a bits) (sret b bits).
Proof. intros H. cbn. exists b. split; [reflexivity|exact H]. Qed.

Lemma sim_fail_fail {A B} (R : A -> B -> Prop) e r bits : sim R (@mfail A e bits) (@sfail B r bits).
Proof. cbn. exists r. reflexivity. Qed.

Lemma sim_weaken {A B} (R R' : A -> B -> Prop) m s : (forall a b, R a b -> R' a b) -> sim R m s -> sim R' m s.
Proof.
  intros K H. destruct m as [[a rest]|e|e|p|]; cbn [sim] in *; auto.
  destruct H as (b & -> & HR). exists b. split; [reflexivity|auto].
Qed.

(* reads *)
Lemma sim_rd w n bits : n <= w -> sim (fun a b => a = b /\ a < 2 ^ n) (rd w n bits) (read_bits n bits).
Proof.
  intros H. pose proof (read_bits_is_rd w n bits H) as K.
  destruct (rd w n bits) as [[v rest]|e|e|p|] eqn:E; cbn [sim]; try contradiction.
  - exists v. split; [exact K|]. split; [reflexivity|]. exact (proj1 (rd_value _ _ _ _ _ E)).
  - exists RTruncated. exact (proj2 K).
Qed.

Lemma sim_rd_bit bits : sim (fun a b => a = b) (rd_bit bits) (read_flag bits).
Proof.
  unfold rd_bit, read_flag, ideal_read_bit, sbind, read_bits. destruct bits as [|b r]; cbn.
  - exists RTruncated. reflexivity.
  - exists b. split; [|reflexivity]. destruct b; reflexivity.
Qed.

(* what a failed model step looks like, for the places where model and specification take different routes *)
Definition clean {A} (m : res (A * list bool)) : Prop :=
  match m with EIo _ | Panic _ => False | _ => True end.
Lemma sim_clean {A B} (R : A -> B -> Prop) m s : sim R m s -> clean m.
Proof. destruct m as [[a rest]|e|e|p|]; cbn; auto. Qed.
