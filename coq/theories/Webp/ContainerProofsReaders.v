(* the verdict of the WebP sanitizer is the grammar's whichever way the reader skips: two readers agree *)
From Coq Require Import List NArith Bool.
From Coq.Strings Require Import Byte.
From MS Require Import Base.Bytes Base.Outcome Base.Prog Webp.Container Webp.Grammar Webp.ContainerProofsTop.
Open Scope N_scope.

Lemma webp_readers_agree (lossless : N -> N -> bytes -> res unit) (allow l1 l2 : bool) (ms1 ms2 : N) (inp : input) (fuel : nat) :
  ilen inp <= ms1 -> ilen inp <= ms2 -> (N.to_nat (ilen inp / 8) < fuel)%nat ->
  is_ok (webp_sanitize lossless allow l1 ms1 inp fuel) = is_ok (webp_sanitize lossless allow l2 ms2 inp fuel).
Proof.
  intros H1 H2 Hf.
  rewrite (webp_sanitize_iff lossless allow l1 ms1 inp fuel H1 Hf), (webp_sanitize_iff lossless allow l2 ms2 inp fuel H2 Hf).
  reflexivity.
Qed.
