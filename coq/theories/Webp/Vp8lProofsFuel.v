(* C07 / C08 proofs, part 5: the fuel [lossless_read] supplies suffices (termination of the two `while` loops of
   lossless.rs): a pixel-loop iteration that reads no bit either finishes the image or fails; a fifth transform is a
   duplicate.  OutOfFuel is never the result. *)
From Coq Require Import List NArith ZArith PeanoNat Bool Lia ZifyBool ZifyNat ZifyN.
From Coq.Strings Require Import Byte.
From MS Require Import Base.Bytes Base.Outcome Webp.Huffman Webp.HuffmanSpec Webp.HuffmanProofs
  Webp.BitBufSpec Webp.Vp8l Webp.Vp8lSpec Webp.Vp8lProofs Webp.Vp8lProofsCodes Webp.Vp8lProofsPixels Webp.Vp8lProofsMain.
Import ListNotations.
Open Scope N_scope.
Arguments N.add : simpl never.
Arguments N.sub : simpl never.
Arguments N.mul : simpl never.
Arguments N.div : simpl never.
Arguments N.modulo : simpl never.
Arguments N.pow : simpl never.
Arguments N.eqb : simpl never.
Arguments N.ltb : simpl never.
Arguments N.leb : simpl never.

Definition NF {A} (m : M A) : Prop := forall bits, m bits <> OutOfFuel.

Lemma NF_bind {A B} (m : M A) (f : A -> M B) : NF m -> (forall a, NF (f a)) -> NF (mbind m f).
Proof.
  intros Hm Hf bits. unfold mbind. specialize (Hm bits). destruct (m bits) as [[a rest]|e|e|p|]; try discriminate; [apply Hf|contradiction].
Qed.
Lemma NF_ret {A} (a : A) : NF (mret a).
Proof. intros bits. discriminate. Qed.
Lemma NF_fail {A} e : NF (@mfail A e).
Proof. intros bits. discriminate. Qed.
Lemma NF_panic {A} p : NF (@mpanic A p).
Proof. intros bits. discriminate. Qed.
Lemma NF_lift {A} (r : res A) : r <> OutOfFuel -> NF (mlift r).
Proof. intros H bits. unfold mlift. destruct r; try discriminate. contradiction. Qed.
Lemma NF_rd w n : NF (rd w n).
Proof. intros bits. unfold rd. destruct (w <? n); [discriminate|]. destruct (take_num _ _) as [[v r]|]; discriminate. Qed.
Lemma NF_rd_bit : NF rd_bit.
Proof. intros bits. unfold rd_bit. destruct bits; discriminate. Qed.
Lemma NF_huff t : NF (rd_huff t).
Proof. intros bits. unfold rd_huff, read_huffman. destruct (decode _ _) as [[s r]|]; discriminate. Qed.
Lemma NF_lz77 c : NF (rd_lz77 c).
Proof.
  intros bits. unfold rd_lz77. destruct (c <? 4); [discriminate|]. destruct (c <? 40); [|discriminate].
  pose proof (NF_rd 32 ((c - 2) / 2) bits). destruct (rd 32 _ bits) as [[e r]|e|e|p|]; try discriminate. contradiction.
Qed.

Lemma new_vec_nofuel cl : new_vec cl <> OutOfFuel.
Proof. unfold new_vec, new, from_symbols. destruct (compile _); discriminate. Qed.
Lemma from_symbols_nofuel syms : from_symbols syms <> OutOfFuel.
Proof. unfold from_symbols. destruct (compile _); discriminate. Qed.
Lemma len_in_blocks_nofuel a b : len_in_blocks a b <> OutOfFuel.
Proof. unfold len_in_blocks. destruct (_ =? 0); discriminate. Qed.
Lemma distance_of_nofuel a b : distance_of a b <> OutOfFuel.
Proof.
  unfold distance_of. destruct (a =? 0); [discriminate|]. destruct (a <=? DISTANCE_MAP_LEN); [|discriminate].
  destruct (nth _ _ _) as [dx dy]. destruct (2 ^ 32 <=? dy * b); [discriminate|]. destruct (_ || _); discriminate.
Qed.
Lemma on_pixel_nofuel r a b c : on_pixel r a b c <> OutOfFuel.
Proof. unfold on_pixel. destruct r; try discriminate. destruct (b <=? 13); discriminate. Qed.

Ltac nf :=
  repeat first
    [ apply NF_ret | apply NF_fail | apply NF_panic | apply NF_rd | apply NF_rd_bit | apply NF_huff | apply NF_lz77
    | apply NF_lift; first [apply new_vec_nofuel | apply from_symbols_nofuel | apply len_in_blocks_nofuel
                           | apply distance_of_nofuel | apply on_pixel_nofuel]
    | apply NF_bind; [|intros ?]
    | match goal with |- NF (if ?c then _ else _) => destruct c end
    | match goal with |- NF (match ?c with Some _ => _ | None => _ end) => destruct c end
    | match goal with |- NF (let '(_, _) := ?c in _) => destruct c end ].

Lemma NF_color_cache : NF read_color_cache.
Proof. unfold read_color_cache. nf. Qed.

Lemma NF_clc_lengths order : forall count cl, NF (read_clc_lengths order count cl).
Proof. induction order as [|i order IH]; intros count cl; destruct count; cbn [read_clc_lengths]; nf. apply IH. Qed.

Lemma NF_code_length_code : NF read_code_length_code.
Proof. unfold read_code_length_code. nf. apply NF_clc_lengths. Qed.

Lemma NF_length_token clc prev : NF (read_length_token clc prev).
Proof. unfold read_length_token. nf. Qed.

Lemma NF_code_lengths max clc : forall reads acc prev, NF (read_code_lengths reads max clc acc prev).
Proof.
  induction reads as [|reads IH]; intros acc prev; cbn [read_code_lengths]; nf; first [apply NF_length_token | apply IH].
Qed.

Lemma NF_prefix_code k cache_len : NF (read_prefix_code k cache_len).
Proof. unfold read_prefix_code. nf; first [apply NF_code_length_code | apply NF_code_lengths | apply NF_clc_lengths]. Qed.

Lemma NF_group cache_len : NF (read_group cache_len).
Proof. unfold read_group. repeat (apply NF_bind; [apply NF_prefix_code|intros ?]). apply NF_ret. Qed.

Lemma NF_backref s g w : NF (read_backref s g w).
Proof. unfold read_backref. nf. Qed.

(* ---------------------------------------------------------------- the pixel loop *)
Definition WF (t : htree) : Prop := ht_longest t = 0 <-> exists s, ht_tree t = FLeaf s.
Definition WFG (g : group) : Prop := WF (g_green g) /\ WF (g_red g) /\ WF (g_blue g) /\ WF (g_alpha g) /\ WF (g_dist g).

Lemma R_group_WFG cache_len g cs : R_group cache_len g cs -> WFG g.
Proof. intros (A & B & C & D & E). unfold WFG, WF. repeat split; try apply A; try apply B; try apply C; try apply D; try apply E. Qed.

Lemma huff_consumes t bits s rest : WF t -> rd_huff t bits = Ok (s, rest) ->
  (length rest <= length bits)%nat /\ (ht_longest t <> 0 -> (length rest < length bits)%nat) /\
  (forall s', ht_tree t = FLeaf s' -> s = s').
Proof.
  intros W H. unfold rd_huff, read_huffman in H. destruct (decode (ht_tree t) bits) as [[s0 r0]|] eqn:E; [|discriminate].
  inversion H; subst. split; [exact (decode_shorter _ _ _ _ E)|]. split.
  - intros NZ. destruct (ht_tree t) as [s'|z o] eqn:T.
    + exfalso. apply NZ. apply W. now exists s'.
    + exact (decode_node_consumes _ _ _ _ _ E).
  - intros s' T. rewrite T in E. cbn in E. now inversion E.
Qed.

Lemma rd_lz77_ge1 c bits v rest : rd_lz77 c bits = Ok (v, rest) -> 1 <= v /\ (length rest <= length bits)%nat.
Proof.
  unfold rd_lz77. destruct (c <? 4); [intros H; inversion H; subst; split; lia|]. destruct (c <? 40); [|discriminate].
  destruct (rd 32 _ bits) as [[e r]|e|e|p|] eqn:E; try discriminate. intros H; inversion H; subst. apply rd_value in E. split; lia.
Qed.

Lemma pixel_loop_done f r g cl w len idx acc bits : len <= idx -> pixel_loop f r g cl w len idx acc bits = Ok (acc, bits).
Proof. intros H. destruct f; cbn [pixel_loop]; replace (idx <? len) with false by (symmetry; apply N.ltb_ge; lia); reflexivity. Qed.

Lemma pixel_loop_nofuel r g cache_len width len : WFG g -> width < 2 ^ 29 ->
  forall fuel idx acc bits, (length bits < fuel)%nat ->
    ((exists s, ht_tree (g_green g) = FLeaf s /\ 256 <= s <= 279) -> idx = 0) ->
    pixel_loop fuel r g cache_len width len idx acc bits <> OutOfFuel.
Proof.
  intros (Wg & Wr & Wb & Wa & Wd) Hw. induction fuel as [|fuel IH]; intros idx acc bits Hlen HLB; [lia|].
  cbn [pixel_loop]. destruct (N.ltb_spec idx len) as [Lt|Ge]; cbn [negb]; [|discriminate].
  unfold mbind at 1. destruct (rd_huff (g_green g) bits) as [[sym b1]|e|e|p|] eqn:Eg; try discriminate;
    [|exfalso; exact (NF_huff _ _ Eg)].
  destruct (huff_consumes _ _ _ _ Wg Eg) as (L1 & C1 & S1).
  destruct (N.leb_spec sym 255) as [Lit|NotLit].
  - unfold mbind at 1. destruct (rd_huff (g_red g) b1) as [[rs b2]|e|e|p|] eqn:Er; try discriminate; [|exfalso; exact (NF_huff _ _ Er)].
    unfold mbind at 1. destruct (rd_huff (g_blue g) b2) as [[bs b3]|e|e|p|] eqn:Eb; try discriminate; [|exfalso; exact (NF_huff _ _ Eb)].
    unfold mbind at 1. destruct (rd_huff (g_alpha g) b3) as [[as_ b4]|e|e|p|] eqn:Ea; try discriminate; [|exfalso; exact (NF_huff _ _ Ea)].
    destruct (huff_consumes _ _ _ _ Wr Er) as (L2 & C2 & _). destruct (huff_consumes _ _ _ _ Wb Eb) as (L3 & C3 & _).
    destruct (huff_consumes _ _ _ _ Wa Ea) as (L4 & C4 & _).
    unfold mbind at 1. unfold mlift. pose proof (on_pixel_nofuel r acc sym rs) as NO.
    destruct (on_pixel r acc sym rs) as [acc'|e|e|p|]; try discriminate; [|contradiction].
    destruct (N.eqb_spec (green_readahead g + arb_readahead g) 0) as [Z|NZ].
    + rewrite pixel_loop_done by lia. discriminate.
    + apply IH.
      * unfold green_readahead, arb_readahead in NZ.
        assert (ht_longest (g_green g) <> 0 \/ ht_longest (g_red g) <> 0 \/ ht_longest (g_blue g) <> 0 \/ ht_longest (g_alpha g) <> 0) by lia.
        destruct H as [H|[H|[H|H]]]; [specialize (C1 H)|specialize (C2 H)|specialize (C3 H)|specialize (C4 H)]; lia.
      * intros (s & Hs & Hr). specialize (S1 s Hs). lia.
  - destruct (N.leb_spec sym 279) as [Back|Cache].
    + unfold mbind at 1. pose proof (NF_backref (sym - 256) g width b1) as NB.
      destruct (read_backref (sym - 256) g width b1) as [[[dist blen] b2]|e|e|p|] eqn:Eb; try discriminate; [|contradiction].
      (* the distance is at least 1 and the reads only shorten the input *)
      assert (Hd : 1 <= dist /\ (length b2 <= length b1)%nat).
      { unfold read_backref in Eb. unfold mbind at 1 in Eb.
        destruct (rd_lz77 (sym - 256) b1) as [[l c1]|e|e|p|] eqn:E1; try discriminate. apply rd_lz77_ge1 in E1.
        unfold mbind at 1 in Eb. destruct (rd_huff (g_dist g) c1) as [[ds c2]|e|e|p|] eqn:E2; try discriminate.
        destruct (huff_consumes _ _ _ _ Wd E2) as (Ld & _ & _).
        unfold mbind at 1 in Eb. destruct (rd_lz77 ds c2) as [[dc c3]|e|e|p|] eqn:E3; try discriminate. apply rd_lz77_ge1 in E3.
        unfold mbind at 1 in Eb. unfold mlift in Eb. rewrite (distance_of_is_plane_code dc width (proj1 E3) Hw) in Eb.
        cbn in Eb. inversion Eb; subst. split; [apply plane_code_ge1; apply E3|lia]. }
      destruct (N.leb_spec dist idx) as [D1|D1]; cbn [negb]; [|discriminate].
      destruct (blen <=? len - idx); cbn [negb]; [|discriminate].
      assert (NLB : ~ exists s, ht_tree (g_green g) = FLeaf s /\ 256 <= s <= 279) by (intros X; specialize (HLB X); lia).
      apply IH.
      * assert (NZ : ht_longest (g_green g) <> 0).
        { intros Z. apply Wg in Z. destruct Z as [s Hs]. apply NLB. exists s. split; [exact Hs|]. specialize (S1 s Hs). lia. }
        specialize (C1 NZ). lia.
      * intros X. contradiction.
    + destruct (sym - 280 <? cache_len); cbn [negb]; [|discriminate].
      destruct (N.eqb_spec (green_readahead g) 0) as [Z|NZ].
      * rewrite pixel_loop_done by lia. discriminate.
      * apply IH.
        -- unfold green_readahead in NZ. specialize (C1 NZ). lia.
        -- intros (s & Hs & Hr). specialize (S1 s Hs). lia.
Qed.

Lemma sim_ok_inv {A B} (R : A -> B -> Prop) a rest s : sim R (Ok (a, rest)) s -> exists b, s = SOk b rest /\ R a b.
Proof. intros H. exact H. Qed.

Lemma NF_entropy_image r w h : w < 2 ^ 29 -> NF (read_entropy_image r w h).
Proof.
  intros Hw bits. unfold read_entropy_image. unfold mbind at 1.
  pose proof (sim_read_color_cache bits) as SC. pose proof (NF_color_cache bits) as NC.
  destruct (read_color_cache bits) as [[cache_len b1]|e|e|p|]; try discriminate; [|contradiction].
  apply sim_ok_inv in SC. destruct SC as (cb & _ & _ & Hc & _).
  unfold mbind at 1. pose proof (sim_read_group cache_len b1 Hc) as SG. pose proof (NF_group cache_len b1) as NG.
  destruct (read_group cache_len b1) as [[g b2]|e|e|p|]; try discriminate; [|contradiction].
  apply sim_ok_inv in SG. destruct SG as (cs & _ & HG).
  apply pixel_loop_nofuel; [exact (R_group_WFG _ _ _ HG)|exact Hw|lia|auto].
Qed.

(* ---------------------------------------------------------------- transforms *)
Lemma NF_transform ty tw h : ty < 4 -> dims_ok tw h -> NF (read_transform ty tw h).
Proof.
  intros Hty (Hw & Hh & Hwh) bits. unfold read_transform.
  assert (P24 : 2 ^ 24 < 2 ^ 29) by (apply N.pow_lt_mono_r; lia).
  destruct ((ty =? 0) || (ty =? 1)).
  - unfold mbind at 1. pose proof (NF_rd 32 3 bits) as N1. destruct (rd 32 3 bits) as [[order b1]|e|e|p|]; try discriminate; [|contradiction].
    replace (2 + order) with (order + 2) by lia.
    pose proof (subsample_bounds tw (order + 2) ltac:(lia)) as Bw.
    unfold mbind at 1. unfold mlift at 1. rewrite (len_in_blocks_subsample tw (order + 2)) by lia. cbv beta match.
    unfold mbind at 1. unfold mlift at 1. rewrite (len_in_blocks_subsample h (order + 2)) by lia. cbv beta match.
    apply NF_bind; [apply NF_entropy_image; lia|intros; apply NF_ret].
  - destruct (ty =? 2); [discriminate|]. destruct (ty =? 3); [|discriminate].
    unfold mbind at 1. pose proof (NF_rd 32 8 bits) as N1. pose proof (rd_value 32 8 bits) as V1.
    destruct (rd 32 8 bits) as [[n b1]|e|e|p|]; try discriminate; [|contradiction].
    destruct (V1 n b1 eq_refl) as [Hn _]. change (2 ^ 8) with 256 in Hn.
    replace (N.min (1 + n) (2 ^ 32 - 1)) with (n + 1) by (change (2 ^ 32) with 4294967296; lia).
    apply NF_bind.
    + apply NF_entropy_image. assert (2 ^ 8 < 2 ^ 29) by (apply N.pow_lt_mono_r; lia). change (2 ^ 8) with 256 in H. lia.
    + intros. apply NF_lift. apply len_in_blocks_nofuel.
Qed.

Definition unseen (sn : seen) : nat :=
  let '(a, b, c, d) := sn in
  ((if a then 0 else 1) + (if b then 0 else 1) + (if c then 0 else 1) + (if d then 0 else 1))%nat.

Lemma unseen_set sn ty : ty < 4 -> seen_get sn ty = false -> (unseen (seen_set sn ty) < unseen sn)%nat.
Proof.
  intros Hty. destruct sn as [[[a b] c] d]. unfold seen_get, seen_set, unseen.
  assert (C : ty = 0 \/ ty = 1 \/ ty = 2 \/ ty = 3) by lia.
  destruct C as [-> | [-> | [-> | ->]]]; destruct a, b, c, d; vm_compute; intros H; try discriminate H; lia.
Qed.

Lemma transform_loop_nofuel h : forall fuel tw sn bits, dims_ok tw h -> (unseen sn < fuel)%nat ->
  transform_loop fuel tw h sn bits <> OutOfFuel.
Proof.
  induction fuel as [|fuel IH]; intros tw sn bits HD Hf; [lia|]. cbn [transform_loop].
  unfold mbind at 1. pose proof (NF_rd_bit bits) as N0. destruct (rd_bit bits) as [[more b1]|e|e|p|]; try discriminate; [|contradiction].
  destruct more; cbn [negb]; [|discriminate].
  unfold mbind at 1. pose proof (NF_rd 8 2 b1) as N1. pose proof (rd_value 8 2 b1) as V1.
  destruct (rd 8 2 b1) as [[ty b2]|e|e|p|]; try discriminate; [|contradiction].
  destruct (V1 ty b2 eq_refl) as [Hty _]. change (2 ^ 2) with 4 in Hty.
  unfold mbind at 1. pose proof (NF_transform ty tw h Hty HD b2) as N2. pose proof (sim_read_transform ty tw h b2 Hty HD) as S2.
  destruct (read_transform ty tw h b2) as [[tw' b3]|e|e|p|]; try discriminate; [|contradiction].
  apply sim_ok_inv in S2. destruct S2 as (? & _ & _ & Htw').
  destruct (seen_get sn ty) eqn:Seen; [discriminate|].
  apply IH.
  - destruct HD as (Hw & Hh & Hwh). split; [lia|]. split; [lia|]. assert (tw' * h <= tw * h) by (apply N.mul_le_mono_r; lia). lia.
  - pose proof (unseen_set sn ty Hty Seen). lia.
Qed.

(* ---------------------------------------------------------------- the whole of LosslessImage::read *)
Lemma NF_groups cache_len : forall n, NF (Vp8l.read_groups n cache_len).
Proof. induction n as [|n IH]; cbn [Vp8l.read_groups]; [apply NF_ret|]. apply NF_bind; [apply NF_group|intros ?; apply IH]. Qed.

Lemma lossless_image_nofuel w h bits : dims_ok w h -> lossless_image w h bits <> OutOfFuel.
Proof.
  intros HD. unfold lossless_image. unfold mbind at 1.
  pose proof (transform_loop_nofuel h transform_fuel w (false, false, false, false) bits HD ltac:(unfold transform_fuel, unseen; lia)) as N1.
  pose proof (sim_transform_loop h transform_fuel 4 w (false, false, false, false) [] bits HD) as S1.
  destruct (transform_loop transform_fuel w h (false, false, false, false) bits) as [[tw b1]|e|e|p|]; try discriminate; [|contradiction].
  assert (Htw : 0 < tw <= w).
  { apply sim_ok_inv in S1; [destruct S1 as (? & _ & _ & H); exact H| |constructor| |reflexivity].
    - intros ty Hty. assert (C : ty = 0 \/ ty = 1 \/ ty = 2 \/ ty = 3) by lia. destruct C as [-> | [-> | [-> | ->]]]; reflexivity.
    - intros x []. }
  destruct HD as (Hw & Hh & Hwh). assert (P24 : 2 ^ 24 < 2 ^ 29) by (apply N.pow_lt_mono_r; lia).
  unfold read_spatial. apply NF_bind; [apply NF_color_cache|]. intros cache_len.
  apply NF_bind; [|intros mg; apply NF_groups].
  unfold read_meta. apply NF_bind; [apply NF_rd_bit|]. intros meta. destruct meta; [|apply NF_ret].
  apply NF_bind; [apply NF_rd|]. intros order. intros bits'.
  destruct (N.ltb_spec order 8) as [Ho|Ho].
  - replace (2 + order) with (order + 2) by lia.
    pose proof (subsample_bounds tw (order + 2) ltac:(lia)) as Bw.
    unfold mbind at 1. unfold mlift at 1. rewrite (len_in_blocks_subsample tw (order + 2)) by lia. cbv beta match.
    unfold mbind at 1. unfold mlift at 1. rewrite (len_in_blocks_subsample h (order + 2)) by lia. cbv beta match.
    apply NF_entropy_image. lia.
  - (* not reachable (order is a 3-bit value); no fuel is involved either way *)
    unfold mbind at 1. unfold mlift at 1. pose proof (len_in_blocks_nofuel tw (2 ^ (2 + order))) as L1.
    destruct (len_in_blocks tw (2 ^ (2 + order))) as [wb|e|e|p|] eqn:E1; try discriminate; [|contradiction].
    unfold mbind at 1. unfold mlift at 1. pose proof (len_in_blocks_nofuel h (2 ^ (2 + order))) as L2.
    destruct (len_in_blocks h (2 ^ (2 + order))) as [hb|e|e|p|] eqn:E2; try discriminate; [|contradiction].
    apply NF_entropy_image.
    rewrite (len_in_blocks_subsample tw (2 + order)) in E1 by lia. inversion E1.
    pose proof (subsample_bounds tw (2 + order) ltac:(lia)). lia.
Qed.
