(* C18 proofs, part 3: the sorted list of used (symbol, length) pairs, the numbers the increment-and-extend loop
   produces (closed form: the code of an entry is the weighted count of the entries before it), and the identity
   "weighted count of the entries before (s, l) in (length, symbol) order = next_code[l] + rank of s among the
   symbols of length l", which is RFC 1951's assignment. *)
From Coq Require Import List NArith PeanoNat Bool Lia ZifyBool ZifyNat ZifyN Sorted Permutation RelationClasses.
From MS Require Import Webp.Huffman Webp.HuffmanSpec Webp.HuffmanProofsBits.
Import ListNotations.
Open Scope N_scope.
Arguments N.add : simpl never.
Arguments N.sub : simpl never.
Arguments N.mul : simpl never.
Arguments N.div : simpl never.
Arguments N.modulo : simpl never.
Arguments N.pow : simpl never.
Arguments N.eqb : simpl never.
Arguments N.ltb : simpl never.
Arguments N.leb : simpl never.

Notation kleb := KeyOrder.leb.
Definition nzp (p : N * N) : bool := nonzero (snd p).

(* ---- the order ---------------------------------------------------------------------------------------------*)
Lemma kleb_spec s1 l1 s2 l2 : kleb (s1, l1) (s2, l2) = true <-> l1 < l2 \/ (l1 = l2 /\ s1 <= s2).
Proof. unfold kleb. lia. Qed.

Lemma kleb_trans : Transitive (fun a b : N * N => is_true (kleb a b)).
Proof. intros [s1 l1] [s2 l2] [s3 l3]. unfold is_true. rewrite !kleb_spec. lia. Qed.

Lemma kleb_antisym (a b : N * N) : kleb a b = true -> kleb b a = true -> a = b.
Proof. destruct a as [s1 l1], b as [s2 l2]. rewrite !kleb_spec. intros. f_equal; lia. Qed.

Lemma kleb_refl (a : N * N) : kleb a a = true.
Proof. destruct a. apply kleb_spec. lia. Qed.

Lemma kleb_len (a b : N * N) : kleb a b = true -> snd a <= snd b.
Proof. destruct a, b. rewrite kleb_spec. cbn [snd]. lia. Qed.

Lemma sort_sorted (l : list (N * N)) : StronglySorted (fun a b : N * N => is_true (kleb a b)) (sort_by_key l).
Proof. apply KeySort.StronglySorted_sort. exact kleb_trans. Qed.

Lemma sort_perm (l : list (N * N)) : Permutation l (sort_by_key l).
Proof. apply KeySort.Permuted_sort. Qed.

(* the sorted permutation is unique (the key is the whole element), so `sort_unstable_by_key` -- whatever algorithm it
   uses -- returns exactly [sort_by_key l] *)
Lemma sorted_perm_unique (l1 : list (N * N)) : forall l2 : list (N * N),
  StronglySorted (fun a b : N * N => is_true (kleb a b)) l1 -> StronglySorted (fun a b : N * N => is_true (kleb a b)) l2 ->
  Permutation l1 l2 -> l1 = l2.
Proof.
  induction l1 as [|x r1 IH]; intros l2 H1 H2 Hp.
  - apply Permutation_nil in Hp. now subst.
  - destruct l2 as [|y r2]; [apply Permutation_sym, Permutation_nil in Hp; discriminate|].
    inversion H1 as [|? ? Hs1 Ha1]; subst. inversion H2 as [|? ? Hs2 Ha2]; subst.
    rewrite Forall_forall in Ha1, Ha2.
    assert (Hxy : x = y).
    { assert (Hx : In x (y :: r2)) by (eapply Permutation_in; [exact Hp|now left]).
      assert (Hy : In y (x :: r1)) by (eapply Permutation_in; [apply Permutation_sym; exact Hp|now left]).
      destruct Hx as [->|Hx]; [reflexivity|]. destruct Hy as [->|Hy]; [reflexivity|].
      apply kleb_antisym; [apply Ha1, Hy|apply Ha2, Hx]. }
    subst y. f_equal. apply IH; try assumption. eapply Permutation_cons_inv; eassumption.
Qed.

Theorem sort_is_the_sorted_permutation : forall l l' : list (N * N),
  (Permutation l l' /\ StronglySorted (fun a b : N * N => is_true (kleb a b)) l') <-> l' = sort_by_key l.
Proof.
  intros l l'. split.
  - intros [Hp Hs]. apply sorted_perm_unique; [assumption|apply sort_sorted|].
    eapply perm_trans; [apply Permutation_sym; exact Hp|apply sort_perm].
  - intros ->. split; [apply sort_perm|apply sort_sorted].
Qed.

(* ---- drop_zeros on a sorted list = filter --------------------------------------------------------------------*)
Lemma drop_zeros_sorted (l : list (N * N)) : StronglySorted (fun a b : N * N => is_true (kleb a b)) l -> drop_zeros l = filter nzp l.
Proof.
  induction 1 as [|[s x] l Hs IH Hall]; [reflexivity|].
  cbn [drop_zeros filter]. unfold nzp at 1, nonzero. cbn [snd].
  destruct x as [|p]; [exact IH|]. cbn [N.eqb negb]. change (N.pos p =? 0) with false. cbn [negb].
  f_equal. symmetry. clear IH Hs. induction l as [|y l IHl]; [reflexivity|].
  inversion Hall as [|? ? Hy Hl]; subst. cbn [filter].
  assert (nzp y = true) as ->.
  { apply kleb_len in Hy. unfold nzp, nonzero. cbn [snd] in Hy. lia. }
  f_equal. auto.
Qed.

Lemma Permutation_filter' {A} (f : A -> bool) l l' : Permutation l l' -> Permutation (filter f l) (filter f l').
Proof.
  induction 1; cbn [filter].
  - constructor.
  - destruct (f x); [now constructor|assumption].
  - destruct (f x), (f y); try reflexivity; now constructor.
  - etransitivity; eassumption.
Qed.

Lemma filter_filter_and {A} (f g : A -> bool) l : filter f (filter g l) = filter (fun x => g x && f x) l.
Proof.
  induction l as [|x l IH]; [reflexivity|]. cbn [filter]. destruct (g x); cbn [andb filter]; [|assumption].
  destruct (f x); now rewrite IH.
Qed.

(* ---- index vectors -------------------------------------------------------------------------------------------*)
Lemma in_index_from cl : forall i s l, In (s, l) (index_from i cl) -> i <= s /\ nth_error cl (N.to_nat (s - i)) = Some l.
Proof.
  induction cl as [|x cl IH]; intros i s l H; cbn [index_from In] in H; [contradiction|].
  destruct H as [H|H].
  - inversion H; subst. rewrite N.sub_diag. split; [lia|reflexivity].
  - apply IH in H. destruct H as [Hi Hn]. split; [lia|].
    replace (N.to_nat (s - i)) with (S (N.to_nat (s - (i + 1)))) by lia. exact Hn.
Qed.

Lemma index_from_snd cl : forall i, map snd (index_from i cl) = cl.
Proof. induction cl as [|x cl IH]; intros i; cbn [index_from map snd]; [reflexivity|]. now rewrite IH. Qed.

Lemma index_from_nodup cl : forall i, NoDup (index_from i cl).
Proof.
  induction cl as [|x cl IH]; intros i; cbn [index_from]; constructor; [|apply IH].
  intros H. apply in_index_from in H. lia.
Qed.

Lemma index_from_fun cl i s l l' : In (s, l) (index_from i cl) -> In (s, l') (index_from i cl) -> l = l'.
Proof. intros H H'. apply in_index_from in H, H'. destruct H as [_ H], H' as [_ H']. congruence. Qed.

Lemma in_index_from_len cl i s l : In (s, l) (index_from i cl) -> In l cl.
Proof. intros H. rewrite <- (index_from_snd cl i). change l with (snd (s, l)). now apply in_map. Qed.

(* the sorted non-zero entries *)
Definition used (cl : list N) : list (N * N) := drop_zeros (sort_by_key (index_from 0 cl)).

Lemma used_filter cl : used cl = filter nzp (sort_by_key (index_from 0 cl)).
Proof. apply drop_zeros_sorted, sort_sorted. Qed.

Lemma used_perm cl : Permutation (filter nzp (index_from 0 cl)) (used cl).
Proof. rewrite used_filter. apply Permutation_filter', sort_perm. Qed.

Lemma used_in cl s l : In (s, l) (used cl) <-> In (s, l) (index_from 0 cl) /\ nonzero l = true.
Proof.
  rewrite <- (Permutation_in' (eq_refl (s, l)) (used_perm cl)) by reflexivity.
  rewrite filter_In. reflexivity.
Qed.

Lemma used_nodup cl : NoDup (used cl).
Proof. eapply Permutation_NoDup; [apply used_perm|]. apply NoDup_filter, index_from_nodup. Qed.

Lemma used_sorted cl : StronglySorted (fun a b : N * N => is_true (kleb a b)) (used cl).
Proof.
  rewrite used_filter. generalize (sort_sorted (index_from 0 cl)).
  generalize (sort_by_key (index_from 0 cl)). intros l H. induction H as [|x l Hs IH Hall]; cbn [filter]; [constructor|].
  destruct (nzp x); [|assumption]. constructor; [assumption|].
  rewrite Forall_forall in *. intros y Hy. apply filter_In in Hy. apply Hall, Hy.
Qed.

Lemma used_len_le cl s l : In (s, l) (used cl) -> l <= max_len cl.
Proof.
  intros H. apply used_in in H. destruct H as [H _]. apply in_index_from_len in H.
  induction cl as [|x cl IH]; [contradiction|]. cbn [max_len fold_right]. fold (max_len cl).
  destruct H as [->|H]; [lia|]. specialize (IH H). lia.
Qed.

(* ---- the entries before a given one ------------------------------------------------------------------------*)
Lemma sorted_split_filter (pre : list (N * N)) (x : N * N) (post : list (N * N)) :
  StronglySorted (fun a b : N * N => is_true (kleb a b)) (pre ++ x :: post) -> NoDup (pre ++ x :: post) ->
  filter (fun y => negb (kleb x y)) (pre ++ x :: post) = pre.
Proof.
  induction pre as [|y pre IH]; intros Hs Hn; cbn [app filter].
  - rewrite kleb_refl. cbn [negb]. inversion Hs as [|? ? _ Hall]; subst.
    clear Hs Hn. induction post as [|z post IHp]; [reflexivity|]. inversion Hall as [|? ? Hz Hp]; subst.
    cbn [filter]. unfold is_true in Hz. rewrite Hz. cbn [negb]. auto.
  - cbn [app] in Hs, Hn. inversion Hs as [|? ? Hs' Hall]; subst. inversion Hn as [|? ? Hnin Hn']; subst.
    assert (Hyx : kleb y x = true). { rewrite Forall_forall in Hall. apply Hall. apply in_or_app. right. now left. }
    assert (Hxy : kleb x y = false).
    { destruct (kleb x y) eqn:E; [|reflexivity]. exfalso. apply Hnin.
      rewrite (kleb_antisym _ _ Hyx E). apply in_or_app. right. now left. }
    rewrite Hxy. cbn [negb]. f_equal. auto.
Qed.

(* ---- weighted counts ---------------------------------------------------------------------------------------*)
Definition wsum (l : N) (ps : list (N * N)) : N := fold_right (fun p acc => 2 ^ (l - snd p) + acc) 0 ps.

Lemma wsum_cons l x a : wsum l (x :: a) = 2 ^ (l - snd x) + wsum l a.
Proof. reflexivity. Qed.

Lemma wsum_nil l : wsum l [] = 0.
Proof. reflexivity. Qed.

Lemma wsum_app l a b : wsum l (a ++ b) = wsum l a + wsum l b.
Proof. induction a as [|x a IH]; cbn [app]; rewrite ?wsum_cons, ?wsum_nil; lia. Qed.

Lemma wsum_perm l a b : Permutation a b -> wsum l a = wsum l b.
Proof. induction 1; rewrite ?wsum_cons; lia. Qed.

Lemma wsum_shift l m ps : (forall p, In p ps -> snd p <= l) -> l <= m -> wsum m ps = wsum l ps * 2 ^ (m - l).
Proof.
  intros Hl Hm. induction ps as [|x ps IH]; [reflexivity|]. rewrite !wsum_cons.
  rewrite IH by (intros; apply Hl; now right).
  assert (snd x <= l) by (apply Hl; now left).
  rewrite N.mul_add_distr_r, <- N.pow_add_r. do 2 f_equal. lia.
Qed.

(* ---- the numbers of the loop --------------------------------------------------------------------------------*)
Fixpoint vals (v lc : N) (rest : list (N * N)) : list (N * N * N) :=
  match rest with
  | [] => []
  | (s, l) :: r => let v' := (v + 1) * 2 ^ (l - lc) in (s, l, v') :: vals v' l r
  end.

Fixpoint expected (pre rest : list (N * N)) : list (N * N * N) :=
  match rest with
  | [] => []
  | x :: r => (x, wsum (snd x) pre) :: expected (pre ++ [x]) r
  end.

Definition code_of (t : N * N * N) : N * code := (fst (fst t), bits_msb (N.to_nat (snd (fst t))) (snd t)).

Definition len_sorted (l : list (N * N)) : Prop := StronglySorted (fun a b => snd a <= snd b) l.

Lemma len_sorted_of_sorted (l : list (N * N)) : StronglySorted (fun a b : N * N => is_true (kleb a b)) l -> len_sorted l.
Proof.
  induction 1 as [|x l Hs IH Hall]; constructor; [assumption|].
  rewrite Forall_forall in *. intros y Hy. apply kleb_len, Hall, Hy.
Qed.

Lemma len_sorted_app_inv a x b : len_sorted (a ++ x :: b) ->
  (forall p, In p a -> snd p <= snd x) /\ (forall p, In p b -> snd x <= snd p) /\ len_sorted (x :: b).
Proof.
  induction a as [|y a IH]; cbn [app]; intros H.
  - inversion H as [|? ? _ Hall]; subst. rewrite Forall_forall in Hall. repeat split; [intros ? []|assumption|assumption].
  - inversion H as [|? ? Hs Hall]; subst. destruct (IH Hs) as [Ha [Hb Hx]]. repeat split; try assumption.
    intros p [->|Hp]; [|auto]. rewrite Forall_forall in Hall. apply Hall. apply in_or_app. right. now left.
Qed.

Lemma assign_vals rest : forall lc v, (forall p, In p rest -> lc <= snd p) -> len_sorted rest ->
  assign (bits_msb (N.to_nat lc) v) rest = map code_of (vals v lc rest).
Proof.
  induction rest as [|[s l] rest IH]; intros lc v Hlc Hs; [reflexivity|].
  cbn [assign vals map]. unfold code_of at 1. cbn [fst snd].
  assert (Hle : lc <= l) by (apply (Hlc (s, l)); now left).
  assert (Hstep : resize (N.to_nat l) (incr (bits_msb (N.to_nat lc) v)) = bits_msb (N.to_nat l) ((v + 1) * 2 ^ (l - lc))).
  { rewrite step_code by lia. f_equal. f_equal. unfold p2. f_equal. lia. }
  rewrite Hstep. f_equal. apply IH.
  - inversion Hs as [|? ? _ Hall]; subst. rewrite Forall_forall in Hall. intros p Hp. apply (Hall p Hp).
  - now inversion Hs.
Qed.

Lemma vals_expected rest : forall pre sc lc, len_sorted (pre ++ (sc, lc) :: rest) ->
  vals (wsum lc pre) lc rest = expected (pre ++ [(sc, lc)]) rest.
Proof.
  induction rest as [|[s l] rest IH]; intros pre sc lc Hs; [reflexivity|].
  cbn [vals expected snd].
  destruct (len_sorted_app_inv _ _ _ Hs) as [Hpre [Hpost _]]. cbn [snd] in Hpre, Hpost.
  assert (Hle : lc <= l) by (apply (Hpost (s, l)); now left).
  assert (Hv : (wsum lc pre + 1) * 2 ^ (l - lc) = wsum l (pre ++ [(sc, lc)])).
  { rewrite wsum_app, wsum_cons. cbn [wsum fold_right snd].
    rewrite (wsum_shift lc l pre Hpre Hle). lia. }
  rewrite Hv. f_equal.
  replace (pre ++ (sc, lc) :: (s, l) :: rest) with ((pre ++ [(sc, lc)]) ++ (s, l) :: rest) in Hs by now rewrite <- app_assoc.
  apply (IH _ s l Hs).
Qed.

Lemma expected_in rest : forall pre x v,
  In (x, v) (expected pre rest) <-> exists a b, rest = a ++ x :: b /\ v = wsum (snd x) (pre ++ a).
Proof.
  induction rest as [|y rest IH]; intros pre x v; cbn [expected In].
  - split; [contradiction|]. intros [a [b [H _]]]. destruct a; discriminate.
  - rewrite IH. split.
    + intros [H|[a [b [-> ->]]]].
      * inversion H; subst. exists [], rest. now rewrite app_nil_r.
      * exists (y :: a), b. now rewrite <- app_assoc.
    + intros [a [b [H ->]]]. destruct a as [|z a]; cbn [app] in H; inversion H; subst.
      * left. now rewrite app_nil_r.
      * right. exists a, b. now rewrite <- app_assoc.
Qed.

Lemma expected_fst rest : forall pre, map fst (expected pre rest) = rest.
Proof. induction rest as [|y rest IH]; intros pre; cbn [expected map fst]; [reflexivity|]. now rewrite IH. Qed.

(* the shape of `symbols` outside the special case *)
Lemma general_symbols s l rest : len_sorted ((s, l) :: rest) ->
  (s, resize (N.to_nat l) []) :: assign (resize (N.to_nat l) []) rest = map code_of (expected [] ((s, l) :: rest)).
Proof.
  intros Hs. cbn [expected map snd app]. unfold code_of at 1. cbn [fst snd wsum fold_right].
  rewrite resize_nil. f_equal.
  inversion Hs as [|? ? Hs' Hall]; subst. rewrite Forall_forall in Hall.
  rewrite assign_vals; [|intros p Hp; apply (Hall p Hp)|assumption].
  f_equal. apply (vals_expected rest [] s l Hs).
Qed.

(* ---- bounds under the Kraft inequality -----------------------------------------------------------------------*)
Lemma split_bound L pre x post :
  len_sorted (pre ++ x :: post) -> (forall p, In p (pre ++ x :: post) -> snd p <= L) ->
  wsum L (pre ++ x :: post) <= 2 ^ L -> wsum (snd x) pre + 1 <= 2 ^ snd x.
Proof.
  intros Hs HL Hk. destruct (len_sorted_app_inv _ _ _ Hs) as [Hpre _].
  assert (HxL : snd x <= L) by (apply HL, in_or_app; right; now left).
  assert (H1 : wsum L (pre ++ [x]) = (wsum (snd x) pre + 1) * 2 ^ (L - snd x)).
  { rewrite wsum_app, wsum_cons. cbn [wsum fold_right]. rewrite (wsum_shift (snd x) L pre Hpre HxL). lia. }
  assert (H2 : wsum L (pre ++ [x]) <= wsum L (pre ++ x :: post)).
  { rewrite !wsum_app, !wsum_cons. cbn [wsum fold_right]. lia. }
  assert (H3 : 2 ^ L = 2 ^ snd x * 2 ^ (L - snd x)) by (rewrite <- N.pow_add_r; f_equal; lia).
  assert (Hq : 0 < 2 ^ (L - snd x)) by (apply N.neq_0_lt_0, N.pow_nonzero; discriminate).
  apply (N.mul_le_mono_pos_r _ _ _ Hq). lia.
Qed.

Lemma expected_incomparable L rest : forall pre,
  len_sorted (pre ++ rest) -> (forall p, In p (pre ++ rest) -> snd p <= L) -> wsum L (pre ++ rest) <= 2 ^ L ->
  ForallOrdPairs (fun a b => incomparable (snd a) (snd b)) (map code_of (expected pre rest)).
Proof.
  induction rest as [|x rest IH]; intros pre Hs HL Hk; cbn [expected map]; constructor.
  - rewrite Forall_forall. intros sc Hin. apply in_map_iff in Hin. destruct Hin as [[y v] [<- Hin]].
    apply expected_in in Hin. destruct Hin as [a [b [-> ->]]].
    unfold code_of. cbn [fst snd].
    destruct (len_sorted_app_inv _ _ _ Hs) as [_ [Hpost _]].
    assert (Hxy : snd x <= snd y) by (apply Hpost, in_or_app; right; now left).
    pose proof (split_bound L pre x (a ++ y :: b) Hs HL Hk) as Hbx.
    assert (Hs2 : len_sorted (((pre ++ [x]) ++ a) ++ y :: b)) by (rewrite <- !app_assoc; exact Hs).
    assert (HL2 : forall p, In p (((pre ++ [x]) ++ a) ++ y :: b) -> snd p <= L) by (rewrite <- !app_assoc; exact HL).
    assert (Hk2 : wsum L (((pre ++ [x]) ++ a) ++ y :: b) <= 2 ^ L) by (rewrite <- !app_assoc; exact Hk).
    pose proof (split_bound L _ y b Hs2 HL2 Hk2) as Hby.
    destruct (len_sorted_app_inv _ _ _ Hs) as [Hpre _].
    apply disjoint_incomparable.
    + lia.
    + rewrite p2_N. lia.
    + rewrite p2_N. lia.
    + replace (p2 (N.to_nat (snd y) - N.to_nat (snd x))) with (2 ^ (snd y - snd x)) by (unfold p2; f_equal; lia).
      rewrite !wsum_app, wsum_cons. cbn [wsum fold_right]. fold (wsum (snd y) pre) (wsum (snd y) a).
      rewrite (wsum_shift (snd x) (snd y) pre Hpre Hxy). lia.
  - replace (pre ++ x :: rest) with ((pre ++ [x]) ++ rest) in * by now rewrite <- app_assoc.
    apply IH; assumption.
Qed.

(* ---- RFC 1951: weighted count of the entries before (s, l) = next_code[l] + rank ----------------------------*)
Lemma count_cons l x r : count l (x :: r) = (if x =? l then 1 else 0) + count l r.
Proof.
  unfold count. cbn [count_occ]. destruct (N.eq_dec x l) as [->|Hne].
  - rewrite N.eqb_refl. lia.
  - apply N.eqb_neq in Hne. rewrite Hne. lia.
Qed.

Definition s1 (l : N) (cl : list N) : N :=
  fold_right (fun x acc => (if (0 <? x) && (x <? l) then 2 ^ (l - x) else 0) + acc) 0 cl.

Lemma s1_succ b cl : s1 (N.succ b) cl = 2 * (s1 b cl + bl_count cl b).
Proof.
  unfold bl_count. induction cl as [|x cl IH]; cbn [s1 fold_right].
  - unfold count. cbn. destruct (b =? 0); reflexivity.
  - fold (s1 (N.succ b) cl) (s1 b cl). rewrite IH, count_cons.
    destruct (N.ltb_spec 0 x) as [Hx|Hx]; cbn [andb].
    + destruct (N.ltb_spec x b) as [Hb|Hb].
      * assert ((x <? N.succ b) = true) as -> by lia. assert ((x =? b) = false) as -> by lia.
        replace (N.succ b - x) with (N.succ (b - x)) by lia. rewrite N.pow_succ_r'.
        destruct (b =? 0); lia.
      * destruct (N.eqb_spec x b) as [->|Hne].
        -- assert ((b <? N.succ b) = true) as -> by lia. assert ((b =? 0) = false) as -> by lia.
           replace (N.succ b - b) with 1 by lia. rewrite N.pow_1_r. lia.
        -- assert ((x <? N.succ b) = false) as -> by lia. destruct (b =? 0); lia.
    + assert (x = 0) by lia. subst x. destruct (N.eqb_spec b 0) as [->|Hne].
      * lia.
      * assert ((0 =? b) = false) as -> by lia. lia.
Qed.

Lemma s1_next_code cl b : s1 (N.of_nat b) cl = next_code cl b.
Proof.
  induction b as [|b IH].
  - cbn [next_code N.of_nat]. induction cl as [|x cl IHc]; [reflexivity|]. cbn [s1 fold_right]. fold (s1 0 cl).
    rewrite IHc. assert ((x <? 0) = false) as -> by lia. rewrite andb_false_r. lia.
  - rewrite Nat2N.inj_succ, s1_succ, IH. reflexivity.
Qed.

Definition s2 (l s : N) (ps : list (N * N)) : N :=
  fold_right (fun p acc => (if (snd p =? l) && (fst p <? s) then 1 else 0) + acc) 0 ps.

Lemma s2_count l s cl : forall i, s2 l s (index_from i cl) = count l (firstn (N.to_nat (s - i)) cl).
Proof.
  induction cl as [|x cl IH]; intros i; cbn [index_from s2 fold_right].
  - rewrite firstn_nil. reflexivity.
  - fold (s2 l s (index_from (i + 1) cl)). rewrite IH. cbn [fst snd].
    destruct (N.ltb_spec i s) as [Hi|Hi].
    + replace (N.to_nat (s - i)) with (S (N.to_nat (s - (i + 1)))) by lia. cbn [firstn]. rewrite count_cons.
      rewrite andb_true_r. reflexivity.
    + replace (N.to_nat (s - i)) with O by lia. replace (N.to_nat (s - (i + 1))) with O by lia.
      cbn [firstn]. rewrite andb_false_r. reflexivity.
Qed.

Definition before (s l : N) (p : N * N) : bool := nzp p && negb (kleb (s, l) p).

Lemma wsum_before_split l s ps : l <> 0 ->
  wsum l (filter (before s l) ps) = s1 l (map snd ps) + s2 l s ps.
Proof.
  intros Hl. induction ps as [|[s' l'] ps IH]; [reflexivity|].
  cbn [filter map s1 s2 fold_right snd fst]. fold (s1 l (map snd ps)) (s2 l s ps).
  unfold before at 1, nzp, nonzero, kleb. cbn [snd].
  destruct (N.eqb_spec l' 0) as [->|Hz]; cbn [negb andb].
  - rewrite IH. assert ((0 <? 0) = false) as -> by lia. assert ((0 =? l) = false) as -> by lia. cbn [andb]. lia.
  - assert ((0 <? l') = true) as -> by lia. cbn [andb].
    destruct (N.ltb_spec l' l) as [Hlt|Hge].
    + assert ((l <? l') = false) as -> by lia. assert ((l =? l') = false) as -> by lia. assert ((l' =? l) = false) as -> by lia.
      cbn [orb andb negb]. rewrite wsum_cons, IH. cbn [snd]. lia.
    + destruct (N.eqb_spec l' l) as [->|Hne].
      * assert ((l <? l) = false) as -> by lia. rewrite N.eqb_refl. cbn [orb andb].
        destruct (N.leb_spec s s') as [Hs|Hs]; cbn [negb].
        -- assert ((s' <? s) = false) as -> by lia. rewrite IH. lia.
        -- assert ((s' <? s) = true) as -> by lia. rewrite wsum_cons, IH. cbn [snd]. rewrite N.sub_diag. cbn. lia.
      * assert ((l <? l') = true) as -> by lia. cbn [orb negb andb]. rewrite IH. lia.
Qed.

(* the closed form for an entry of the sorted used list *)
Lemma used_split_value cl pre s l post : used cl = pre ++ (s, l) :: post -> wsum l pre = canon_value cl s l.
Proof.
  intros Hsplit.
  assert (Hin : In (s, l) (used cl)) by (rewrite Hsplit; apply in_or_app; right; now left).
  apply used_in in Hin. destruct Hin as [_ Hnz].
  assert (Hl : l <> 0) by (unfold nonzero in Hnz; lia).
  pose proof (sorted_split_filter pre (s, l) post) as Hf. rewrite <- Hsplit in Hf.
  specialize (Hf (used_sorted cl) (used_nodup cl)).
  rewrite <- Hf.
  assert (Hp : Permutation (filter (before s l) (index_from 0 cl)) (filter (fun y => negb (kleb (s, l) y)) (used cl))).
  { eapply perm_trans; [|apply Permutation_filter', used_perm].
    rewrite filter_filter_and. apply Permutation_refl. }
  rewrite <- (wsum_perm l _ _ Hp).
  rewrite wsum_before_split by assumption. rewrite index_from_snd, s2_count, N.sub_0_r.
  unfold canon_value. rewrite <- s1_next_code, N2Nat.id. reflexivity.
Qed.
