(* C06 at the level of results: [webp_sanitize] (the model of webpsan::sanitize_with_config run over the ideal
   cursor, strict or seek-style) accepts exactly the inputs of the independent grammar [Grammar.webp_spec]. *)
From Coq Require Import List NArith Bool Lia.
From Coq.Strings Require Import Byte.
From MS Require Import Base.Bytes Base.Outcome Base.Prog Webp.Prim Webp.Chunks Webp.Container Webp.Grammar
  Webp.ContainerProofs Webp.ContainerProofsSound Webp.ContainerProofsComplete Webp.ContainerProofsFuel.
Import ListNotations.
Open Scope N_scope.

Definition lossless_verdict (lossless : N -> N -> bytes -> res unit) (w h : N) (b : bytes) : bool :=
  is_ok (lossless w h b).

Lemma webp_sanitize_complete lossless allow lenient ms inp fuel :
  ilen inp <= ms -> (N.to_nat (ilen inp / 8) < fuel)%nat ->
  webp_spec (lossless_verdict lossless) allow inp = true ->
  webp_sanitize lossless allow lenient ms inp fuel = Ok tt.
Proof.
  intros Hms Hfuel Hspec. unfold webp_sanitize.
  destruct (webp_prog_complete inp lenient ms lossless allow Hms fuel Hspec Hfuel) as (p' & E).
  unfold exec in E. rewrite E. reflexivity.
Qed.

Lemma webp_sanitize_iff lossless allow lenient ms inp fuel :
  ilen inp <= ms -> (N.to_nat (ilen inp / 8) < fuel)%nat ->
  is_ok (webp_sanitize lossless allow lenient ms inp fuel) = webp_spec (lossless_verdict lossless) allow inp.
Proof.
  intros Hms Hfuel.
  destruct (webp_spec (lossless_verdict lossless) allow inp) eqn:Es.
  - rewrite (webp_sanitize_complete _ _ _ _ _ _ Hms Hfuel Es). reflexivity.
  - destruct (webp_sanitize lossless allow lenient ms inp fuel) as [[]| | | |] eqn:E; try reflexivity.
    apply webp_sanitize_sound in E. unfold lossless_verdict in Es. congruence.
Qed.

(* no run of the model with enough fuel ends in OutOfFuel when the grammar holds; and a rejected input is rejected
   whatever the fuel (a run that is not OutOfFuel is the run with any larger fuel) *)
Lemma webp_sanitize_reject_any_fuel lossless allow lenient ms inp fuel :
  webp_spec (lossless_verdict lossless) allow inp = false ->
  is_ok (webp_sanitize lossless allow lenient ms inp fuel) = false.
Proof.
  intros Es. destruct (webp_sanitize lossless allow lenient ms inp fuel) as [[]| | | |] eqn:E; try reflexivity.
  apply webp_sanitize_sound in E. unfold lossless_verdict in Es. congruence.
Qed.

(* non-vacuity: a 26-byte still image RIFF/WEBP/VP8 meets the grammar and is accepted; the same file with a wrong
   RIFF size does not and is not *)
Example c06_sat :
  let f := input_of_bytes ([x52; x49; x46; x46] ++ [x0e; x00; x00; x00] ++ [x57; x45; x42; x50] ++ [x56; x50; x38; x20]
                           ++ [x02; x00; x00; x00; x01; x02]) in
  let g := input_of_bytes ([x52; x49; x46; x46] ++ [x0f; x00; x00; x00] ++ [x57; x45; x42; x50] ++ [x56; x50; x38; x20]
                           ++ [x02; x00; x00; x00; x01; x02]) in
  webp_spec (fun _ _ _ => true) false f = true /\ webp_sanitize (fun _ _ _ => Ok tt) false true U64MAX' f 10 = Ok tt
  /\ webp_spec (fun _ _ _ => true) false g = false /\ is_ok (webp_sanitize (fun _ _ _ => Ok tt) false true U64MAX' g 10) = false.
Proof. vm_compute. repeat split; reflexivity. Qed.
