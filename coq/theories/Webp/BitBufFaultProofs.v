(* C13, streaming part: a failing inner read of the bit reader's source makes the whole consumer programme return Io(e) - never a
   value, never a parse error, never a panic - exactly when the fault-free run would have issued that read; otherwise the run is
   the fault-free run.  For EVERY consumer programme (so for the lossless validator, whatever it reads). *)
From Coq Require Import List NArith Bool Lia.
From MS Require Import Base.Bytes Base.Outcome Webp.BitBuf Webp.BitBufSpec Webp.BitBufRun Webp.BitBufFault.
Import ListNotations.
Open Scope N_scope.

(* the ghost counter never decreases *)
Definition mono_op (o : cop) : Prop := forall st, nreads st <= nreads (snd (buf_op o st)).

Lemma fill_buf_mono st : nreads st <= nreads (snd (fill_buf st)).
Proof.
  unfold fill_buf. destruct (input st) as [src|]; [|cbn; lia].
  destruct (_ <? _); [cbn; lia|].
  destruct (read_to_end_take _ _ src _) as [[buf2 src']|]; [|cbn; lia].
  destruct (br_skip _ _) as [sk r1]. destruct sk; cbn [snd nreads]; lia.
Qed.

Lemma ensure_mono n st : nreads st <= nreads (snd (ensure n st)).
Proof. unfold ensure. destruct (_ <? _); [apply fill_buf_mono | cbn; lia]. Qed.

Lemma set_rd_nreads st r : nreads (set_rd st r) = nreads st.
Proof. reflexivity. Qed.

Lemma buf_read_nreads w n st : nreads (snd (buf_read w n st)) = nreads st.
Proof. unfold buf_read. destruct (br_read w n (rd st)). reflexivity. Qed.
Lemma buf_read_bit_nreads st : nreads (snd (buf_read_bit st)) = nreads st.
Proof. unfold buf_read_bit. destruct (br_read_bit (rd st)). reflexivity. Qed.
Lemma buf_read_huffman_nreads d st : nreads (snd (buf_read_huffman d st)) = nreads st.
Proof. unfold buf_read_huffman. destruct (br_read_huffman d (rd st)). reflexivity. Qed.
Lemma buf_read_lz77_nreads c st : nreads (snd (buf_read_lz77 c st)) = nreads st.
Proof.
  unfold buf_read_lz77. destruct (_ <=? 3); [reflexivity|]. destruct (_ <=? LZ77_MAX_SYMBOL); [|reflexivity].
  pose proof (buf_read_nreads 32 (N.shiftr (c - 2) 1) st) as H.
  destruct (buf_read 32 (N.shiftr (c - 2) 1) st) as [[v|x|x|x|] st']; exact H.
Qed.

Lemma after_ensure_mono {A} n (f : bbr -> res A * bbr) st :
  (forall s, nreads (snd (f s)) = nreads s) -> nreads st <= nreads (snd (after_ensure n f st)).
Proof.
  intros Hf. unfold after_ensure. pose proof (ensure_mono n st) as H.
  destruct (ensure n st) as [[u|x|x|x|] st']; cbn [snd] in *; try exact H. rewrite Hf. exact H.
Qed.

Lemma lift_snd {A} (f : A -> cval) (x : res A * bbr) : snd (lift f x) = snd x.
Proof. destruct x as [[a|e|e|n|] s]; reflexivity. Qed.

Lemma buf_op_mono o : mono_op o.
Proof.
  intros st. destruct o as [w n| |d|r|w n| |d|c]; cbn [buf_op]; rewrite lift_snd.
  - apply after_ensure_mono. intros s. apply buf_read_nreads.
  - apply after_ensure_mono. intros s. apply buf_read_bit_nreads.
  - apply after_ensure_mono. intros s. apply buf_read_huffman_nreads.
  - apply ensure_mono.
  - rewrite buf_read_nreads. lia.
  - rewrite buf_read_bit_nreads. lia.
  - rewrite buf_read_huffman_nreads. lia.
  - rewrite buf_read_lz77_nreads. lia.
Qed.

Lemma reads_of_ge {A} (p : cprog A) : forall st, nreads st <= reads_of p st.
Proof.
  induction p as [a|pe|o c IH]; intros st; cbn [reads_of]; try lia.
  pose proof (buf_op_mono o st) as H. destruct (buf_op o st) as [[v|x|x|x|] st']; cbn [snd] in H; try exact H.
  specialize (IH v st'). lia.
Qed.

(* the theorem: with inner read k failing, the run is Io(e) if the fault-free run reaches that read, and the fault-free run otherwise *)
Theorem fault_in_stream {A} (k : N) (e : ioerr) (p : cprog A) : forall st, nreads st <= k ->
  (k < reads_of p st -> run_buf_f k e p st = EIo e) /\
  (reads_of p st <= k -> run_buf_f k e p st = run_buf p st).
Proof.
  induction p as [a|pe|o c IH]; intros st Hk; cbn [reads_of run_buf_f run_buf].
  - split; [lia | reflexivity].
  - split; [lia | reflexivity].
  - unfold buf_op_f, faulty. pose proof (buf_op_mono o st) as Hm.
    destruct (buf_op o st) as [r st'] eqn:Eo. cbn [snd] in Hm.
    destruct (N.leb_spec (nreads st) k) as [_|]; [|lia]. cbn [andb].
    destruct (N.ltb_spec k (nreads st')) as [Hin|Hout].
    + (* this operation issues read k *)
      split; [reflexivity|]. intros Hle. exfalso.
      destruct r as [v|x|x|x|]; try lia. pose proof (reads_of_ge (c v) st'). lia.
    + destruct r as [v|x|x|x|]; try (split; [lia | reflexivity]).
      apply IH. exact Hout.
Qed.

(* in particular: never a success, a parse error or a panic once the failing read is reached *)
Corollary fault_never_swallowed {A} (k : N) (e : ioerr) (p : cprog A) (src : source) (capacity : N) :
  k < reads_of p (with_capacity src capacity) -> run_buf_f k e p (with_capacity src capacity) = EIo e.
Proof. intros H. apply fault_in_stream; [cbn; lia | exact H]. Qed.

Corollary fault_not_reached {A} (k : N) (e : ioerr) (p : cprog A) (src : source) (capacity : N) :
  reads_of p (with_capacity src capacity) <= k -> run_buf_f k e p (with_capacity src capacity) = run_buf p (with_capacity src capacity).
Proof. intros H. apply fault_in_stream; [cbn; lia | exact H]. Qed.
