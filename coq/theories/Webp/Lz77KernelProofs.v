(* The LZ77 prefix-value arithmetic of the models (Webp/BitBufSpec.v ideal_read_lz77 / lz77_extra_bits, Webp/BitBuf.v, Webp/Vp8l.v
   rd_lz77: ranges 0..3 / 4..39, extra_bits = (c - 2) / 2, offset = (2 + c mod 2) * 2^extra_bits) IS the arithmetic of
   BitBufReader::buf_read_lz77 as the source has it now (Gen/Lz77Kernel.v, regenerated from webpsan/src/parse/bitstream.rs on
   every run: shifts and masks).  The symbol range is finite, so the agreement is a checked sweep lifted to all c. *)
From Coq Require Import List NArith Bool Lia.
From MS Require Import Base.Bytes Base.Outcome Webp.BitBufSpec Gen.Lz77Kernel.
Import ListNotations.
Open Scope N_scope.

Definition lz77_agree (c : N) : bool :=
  (lz77_extra_src c =? (c - 2) / 2) && (lz77_offset_src c =? (2 + c mod 2) * 2 ^ ((c - 2) / 2)).

Lemma lz77_sweep : forallb lz77_agree (map N.of_nat (seq 4 36)) = true.
Proof. vm_compute. reflexivity. Qed.

Theorem lz77_kernel_matches :
  lz77_direct_last_src = 3 /\ lz77_max_symbol_src = 39 /\
  forall c, 4 <= c -> c <= 39 ->
    lz77_extra_src c = (c - 2) / 2 /\ lz77_offset_src c = (2 + c mod 2) * 2 ^ ((c - 2) / 2).
Proof.
  split; [reflexivity|]. split; [reflexivity|]. intros c H4 H39.
  pose proof lz77_sweep as H. rewrite forallb_forall in H.
  assert (Hin : In c (map N.of_nat (seq 4 36))).
  { apply in_map_iff. exists (N.to_nat c). split; [lia|]. apply in_seq. lia. }
  specialize (H c Hin). unfold lz77_agree in H. apply andb_prop in H. destruct H as [H1 H2].
  apply N.eqb_eq in H1. apply N.eqb_eq in H2. split; assumption.
Qed.

(* the models' number of extra bits, in the source's terms *)
Theorem lz77_extra_bits_is_src : forall c,
  lz77_extra_bits c = if c <=? lz77_direct_last_src then 0 else if c <=? lz77_max_symbol_src then lz77_extra_src c else 0.
Proof.
  intros c. unfold lz77_extra_bits. change lz77_direct_last_src with 3. change lz77_max_symbol_src with 39.
  destruct (N.ltb_spec c 4) as [L4|L4]; destruct (N.leb_spec c 3) as [L3|L3]; try lia; try reflexivity.
  destruct (N.ltb_spec c 40) as [L40|L40]; destruct (N.leb_spec c 39) as [L39|L39]; try lia; try reflexivity.
  symmetry. apply lz77_kernel_matches; lia.
Qed.

(* the value the ideal reader returns, in the source's terms *)
Theorem ideal_read_lz77_is_src : forall c bits, 4 <= c -> c <= 39 -> lz77_extra_src c <= slen bits ->
  ideal_read_lz77 c bits =
  (Ok (lz77_offset_src c + num_of_bits (firstn (N.to_nat (lz77_extra_src c)) bits) + 1), skipn (N.to_nat (lz77_extra_src c)) bits).
Proof.
  intros c bits H4 H39 Hs. destruct (lz77_kernel_matches) as (_ & _ & K). destruct (K c H4 H39) as [E1 E2].
  unfold ideal_read_lz77. destruct (N.ltb_spec c 4); [lia|]. destruct (N.ltb_spec c 40); [|lia].
  cbv zeta. rewrite E2. rewrite E1 in *. destruct (N.leb_spec ((c - 2) / 2) (slen bits)); [reflexivity|lia].
Qed.
