(* Fuel of [webp_prog] is only a bound: a run that does not end in OutOfFuel is the run with any larger fuel
   (for every reader). *)
From Coq Require Import List NArith Bool Lia.
From Coq.Strings Require Import Byte.
From MS Require Import Base.Bytes Base.Outcome Base.Prog Webp.Prim Webp.Chunks Webp.Container Webp.ContainerProofs.
Import ListNotations.
Open Scope N_scope.

Section Sim.
Variable R : reader.

(* p runs out of fuel, or p and q run identically *)
Definition fsim {A} (p q : prog A) : Prop :=
  forall s, run R p s = run R q s \/ exists s', run R p s = (OutOfFuel, s').

Lemma fsim_refl {A} (p : prog A) : fsim p p.
Proof. intros s. now left. Qed.

Lemma fsim_bind {A B} (p q : prog A) (f g : A -> prog B) :
  fsim p q -> (forall a, fsim (f a) (g a)) -> fsim (pbind p f) (pbind q g).
Proof.
  intros Hp Hf s. rewrite !run_pbind. destruct (Hp s) as [E | (s' & E)]; rewrite E.
  - destruct (run R q s) as [[a| | | |] s']; cbn [ebind]; try (now left). apply Hf.
  - right. exists s'. reflexivity.
Qed.

Lemma fsim_oof {A} (q : prog A) : fsim (Ret OutOfFuel) q.
Proof. intros s. right. exists s. reflexivity. Qed.

Variable lossless : N -> N -> bytes -> res unit.
Variable allow : bool.

Ltac fsim_walk :=
  cbv zeta;
  repeat match goal with
    | |- fsim ?p ?p => apply fsim_refl
    | |- fsim (Ret OutOfFuel) _ => apply fsim_oof
    | |- fsim (pbind _ _) (pbind _ _) => apply fsim_bind; [|intros ?]
    | |- fsim (if ?b then _ else _) (if ?b then _ else _) => destruct b
    | |- fsim (match ?x with _ => _ end) (match ?x with _ => _ end) => destruct x
    | H : forall _, fsim _ _ |- fsim (?f _ _ _) _ => apply H
    | H : forall _, fsim _ _ |- fsim (?f _ _ _ _) _ => apply H
    | H : forall _, fsim _ _ |- fsim (?f _ _ _ _ _) _ => apply H
    | H : forall _ _, fsim _ _ |- fsim (?f _ _ _ _ _) _ => apply H
    end.

Lemma fsim_file_tail : forall f f' l, (f <= f')%nat -> fsim (file_tail allow f l) (file_tail allow f' l).
Proof.
  induction f as [|f IH]; intros f' l Hle; [apply fsim_oof|].
  destruct f' as [|f']; [lia|]. cbn [file_tail]. assert (H := fun l => IH f' l ltac:(lia)). fsim_walk.
Qed.
Lemma fsim_frame_tail : forall f f' l, (f <= f')%nat -> fsim (frame_tail allow f l) (frame_tail allow f' l).
Proof.
  induction f as [|f IH]; intros f' l Hle; [apply fsim_oof|].
  destruct f' as [|f']; [lia|]. cbn [frame_tail]. assert (H := fun l => IH f' l ltac:(lia)). fsim_walk.
Qed.
Lemma fsim_one_frame f f' x l : (f <= f')%nat ->
  fsim (one_frame lossless allow f x l) (one_frame lossless allow f' x l).
Proof. intros Hle. unfold one_frame. assert (H := fun l => fsim_frame_tail f f' l Hle). fsim_walk. Qed.
Lemma fsim_frames x : forall f f' l, (f <= f')%nat ->
  fsim (frames lossless allow f x l) (frames lossless allow f' x l).
Proof.
  induction f as [|f IH]; intros f' l Hle; [apply fsim_oof|].
  destruct f' as [|f']; [lia|]. cbn [frames].
  assert (H := fun l => IH f' l ltac:(lia)). assert (H1 := fun l => fsim_one_frame f f' x l ltac:(lia)). fsim_walk.
Qed.
Lemma fsim_animated f f' x l : (f <= f')%nat ->
  fsim (sanitize_animated lossless allow f x l) (sanitize_animated lossless allow f' x l).
Proof. intros Hle. unfold sanitize_animated. assert (H := fun l => fsim_frames x f f' l Hle). fsim_walk. Qed.
Lemma fsim_extended f f' x l : (f <= f')%nat ->
  fsim (sanitize_extended lossless allow f x l) (sanitize_extended lossless allow f' x l).
Proof. intros Hle. unfold sanitize_extended. assert (H := fun l => fsim_animated f f' x l Hle). fsim_walk. Qed.
Lemma fsim_webp_prog f f' : (f <= f')%nat -> fsim (webp_prog lossless allow f) (webp_prog lossless allow f').
Proof.
  intros Hle. unfold webp_prog.
  assert (H := fun x l => fsim_extended f f' x l Hle). assert (H0 := fun l => fsim_file_tail f f' l Hle). fsim_walk.
Qed.
End Sim.

Theorem webp_fuel_monotone lossless allow lenient ms inp f f' : (f <= f')%nat ->
  webp_sanitize lossless allow lenient ms inp f <> OutOfFuel ->
  webp_sanitize lossless allow lenient ms inp f' = webp_sanitize lossless allow lenient ms inp f.
Proof.
  unfold webp_sanitize. intros Hle Hne.
  destruct (fsim_webp_prog (cursor inp lenient ms) lossless allow f f' Hle 0) as [E | (s' & E)]; rewrite E in *.
  - reflexivity.
  - exfalso. apply Hne. reflexivity.
Qed.
