(* webpsan/src/parse/integers.rs (+ ChunkHeader of header.rs): the WebmPrim codecs -- executable model, definitions only.
   Every function follows the Rust function it names.  Which bytes::Buf getter / BufMut putter the webm_int! table pairs
   with each integer type, and the declared bits of the three bitflags! types, are NOT written here: they are re-read
   from the source on every run into Gen/WebpPrimGen.v and collected in [cur]. *)
From Coq Require Import List NArith ZArith Bool.
From Coq.Strings Require Import Byte.
From MS Require Import Base.Bytes Base.Outcome Gen.WebpPrimGen.
Import ListNotations.
Open Scope N_scope.

Definition U32MAX : N := 4294967295.
(* bytes::panic_advance: Buf::get_* / copy_to_slice asked for more bytes than remain *)
Definition P_ADVANCE : N := 1701.

(* bytes::Buf::get_uN (big-endian), get_uN_le, get_uint_le(k): k bytes off the front; panics when short *)
Definition buf_get (k : nat) (le : bool) (l : bytes) : res (N * bytes) :=
  if Nat.ltb (length l) k then Panic P_ADVANCE
  else Ok (if le then le2n (firstn k l) else be2n (firstn k l), skipn k l).
(* bytes::BufMut::put_uN (big-endian), put_uN_le, put_uint(n,k), put_uint_le(n,k): the low k bytes of n *)
Definition buf_put (k : nat) (le : bool) (n : N) : bytes := if le then n2le k n else n2be k n.

(* two's complement, w = 8*k bits, half = 2^(w-1) *)
Definition half_of (k : nat) : N := 2 ^ (8 * N.of_nat k - 1).
Definition to_signed (k : nat) (n : N) : Z :=
  if n <? half_of k then Z.of_N n else (Z.of_N n - Z.of_N (2 * half_of k))%Z.
Definition of_signed (k : nat) (z : Z) : N := Z.to_N (z mod Z.of_N (2 * half_of k)).

(* ------------------------------------------------------------------ what is read from the source *)
Record tbl := {
  g16 : bool; p16 : bool; g32 : bool; p32 : bool; g64 : bool; p64 : bool;        (* u16/u32/u64: getter / putter is _le *)
  gi16 : bool; pi16 : bool; gi32 : bool; pi32 : bool; gi64 : bool; pi64 : bool;  (* i16/i32/i64 *)
  m_vp8x : N; m_anmf : N; m_alph : N                                             (* Flags::all().bits() *)
}.
Definition all_bits (l : list N) : N := fold_right N.lor 0 l.
Definition cur : tbl := {|
  g16 := u16_get_le; p16 := u16_put_le; g32 := u32_get_le; p32 := u32_put_le; g64 := u64_get_le; p64 := u64_put_le;
  gi16 := i16_get_le; pi16 := i16_put_le; gi32 := i32_get_le; pi32 := i32_put_le; gi64 := i64_get_le; pi64 := i64_put_le;
  m_vp8x := all_bits VP8X_FLAG_BITS; m_anmf := all_bits ANMF_FLAG_BITS; m_alph := all_bits ALPH_FLAG_BITS |}.

(* ------------------------------------------------------------------ types and values *)
Inductive prim :=
  | PU8 | PU16 | PU32 | PU64 | PI8 | PI16 | PI32 | PI64
  | PFourCC | PU24 | POB24 | PReserved (n : nat)
  | PVp8xFlags | PAnmfFlags | PAlphFlags | PChunkHeader.
(* VN: unsigned / flag bits / NonZeroU32; VZ: signed; VB: FourCC; VU: Reserved(()); VH: ChunkHeader{name,len} *)
Inductive pval := VN (n : N) | VZ (z : Z) | VB (b : bytes) | VU | VH (name : bytes) (len : N).

(* WebmPrim::ENCODED_LEN *)
Definition prim_len (p : prim) : nat :=
  match p with
  | PU8 | PI8 => 1 | PU16 | PI16 => 2 | PU32 | PI32 => 4 | PU64 | PI64 => 8
  | PFourCC => 4 | PU24 | POB24 => 3 | PReserved n => n
  | PVp8xFlags | PAnmfFlags | PAlphFlags => 1 | PChunkHeader => 8
  end%nat.

(* ------------------------------------------------------------------ parse *)
(* webm_int!: ensure remaining >= ENCODED_LEN else TruncatedChunk; then buf.$get_fun() *)
Definition webm_int_parse (k : nat) (get_le : bool) (l : bytes) : res (N * bytes) :=
  if Nat.ltb (length l) k then EParse TruncatedChunk else buf_get k get_le l.

(* mediasan_common FourCC::parse: copy_to_slice of 4 bytes (panics when short) *)
Definition fourcc_parse_raw (l : bytes) : res (bytes * bytes) :=
  if Nat.ltb (length l) 4 then Panic P_ADVANCE else Ok (firstn 4 l, skipn 4 l).

(* impl<T: WebmFlags> WebmPrim for T, Bits = u8: get_uint_le(1), try_into (cannot fail below 256), from_bits *)
Definition flags_parse (mask : N) (l : bytes) : res (pval * bytes) :=
  if Nat.ltb (length l) 1 then EParse TruncatedChunk else
  '(n, r) <- buf_get 1 true l ;;
  if 256 <=? n then Panic 1702 (* unreachable!() *) else
  if N.land n mask =? n then Ok (VN n, r) else EParse WInvalidInput.

(* NonZeroU32::MIN.saturating_add(x) *)
Definition sat_add_u32 (a b : N) : N := N.min (a + b) U32MAX.

(* Reserved<LEN>::parse: LEN times { get_u8() (panics when empty); ensure == 0 else InvalidInput } *)
Fixpoint reserved_parse (n : nat) (l : bytes) : res (unit * bytes) :=
  match n with
  | O => Ok (tt, l)
  | S n' => match l with
            | [] => Panic P_ADVANCE
            | b :: r => if b2n b =? 0 then reserved_parse n' r else EParse WInvalidInput
            end
  end.

Definition flag_mask (t : tbl) (p : prim) : N :=
  match p with PVp8xFlags => m_vp8x t | PAnmfFlags => m_anmf t | PAlphFlags => m_alph t | _ => 0 end.

Definition prim_parse_t (t : tbl) (p : prim) (l : bytes) : res (pval * bytes) :=
  match p with
  | PU8 => '(n, r) <- webm_int_parse 1 true l ;; Ok (VN n, r)
  | PU16 => '(n, r) <- webm_int_parse 2 (g16 t) l ;; Ok (VN n, r)
  | PU32 => '(n, r) <- webm_int_parse 4 (g32 t) l ;; Ok (VN n, r)
  | PU64 => '(n, r) <- webm_int_parse 8 (g64 t) l ;; Ok (VN n, r)
  | PI8 => '(n, r) <- webm_int_parse 1 true l ;; Ok (VZ (to_signed 1 n), r)
  | PI16 => '(n, r) <- webm_int_parse 2 (gi16 t) l ;; Ok (VZ (to_signed 2 n), r)
  | PI32 => '(n, r) <- webm_int_parse 4 (gi32 t) l ;; Ok (VZ (to_signed 4 n), r)
  | PI64 => '(n, r) <- webm_int_parse 8 (gi64 t) l ;; Ok (VZ (to_signed 8 n), r)
  | PFourCC =>
      if Nat.ltb (length l) 4 then EParse TruncatedChunk else
      '(b, r) <- fourcc_parse_raw l ;; Ok (VB b, r)
  | PU24 =>
      if Nat.ltb (length l) 3 then EParse TruncatedChunk else
      '(n, r) <- buf_get 3 true l ;; Ok (VN (n mod 2 ^ 32), r)                       (* as u32 *)
  | POB24 =>
      if Nat.ltb (length l) 3 then EParse TruncatedChunk else
      '(n, r) <- buf_get 3 true l ;; Ok (VN (sat_add_u32 1 (n mod 2 ^ 32)), r)
  | PReserved k => '(_, r) <- reserved_parse k l ;; Ok (VU, r)
  | PVp8xFlags | PAnmfFlags | PAlphFlags => flags_parse (flag_mask t p) l
  | PChunkHeader =>
      if Nat.ltb (length l) 8 then EParse TruncatedChunk else
      '(name, r) <- fourcc_parse_raw l ;;
      '(len, r) <- buf_get 4 true r ;;                                               (* get_u32_le *)
      Ok (VH name len, r)
  end.

(* ------------------------------------------------------------------ put_buf *)
(* a value of the wrong shape for the type cannot be built through the typed Rust API: [] *)
Definition prim_put_t (t : tbl) (p : prim) (v : pval) : bytes :=
  match p, v with
  | PU8, VN n => buf_put 1 true n
  | PU16, VN n => buf_put 2 (p16 t) n
  | PU32, VN n => buf_put 4 (p32 t) n
  | PU64, VN n => buf_put 8 (p64 t) n
  | PI8, VZ z => buf_put 1 true (of_signed 1 z)
  | PI16, VZ z => buf_put 2 (pi16 t) (of_signed 2 z)
  | PI32, VZ z => buf_put 4 (pi32 t) (of_signed 4 z)
  | PI64, VZ z => buf_put 8 (pi64 t) (of_signed 8 z)
  | PFourCC, VB b => b
  | PU24, VN n => buf_put 3 true n                                  (* put_uint_le(self.0.into(), 3) *)
  | POB24, VN n => buf_put 3 true (n - 1)                           (* put_uint_le(u64::from(self.0.get()) - 1, 3) *)
  | PReserved k, VU => zeros k
  | (PVp8xFlags | PAnmfFlags | PAlphFlags), VN n => buf_put 1 false n   (* put_uint(bits, 1) *)
  | PChunkHeader, VH name len => name ++ buf_put 4 true len        (* name.put_buf; put_u32_le *)
  | _, _ => []
  end.

(* ------------------------------------------------------------------ the values of each Rust type *)
Definition prim_wf_t (t : tbl) (p : prim) (v : pval) : bool :=
  match p, v with
  | PU8, VN n => n <? 2 ^ 8
  | PU16, VN n => n <? 2 ^ 16
  | PU32, VN n => n <? 2 ^ 32
  | PU64, VN n => n <? 2 ^ 64
  | PI8, VZ z => (- 2 ^ 7 <=? z)%Z && (z <? 2 ^ 7)%Z
  | PI16, VZ z => (- 2 ^ 15 <=? z)%Z && (z <? 2 ^ 15)%Z
  | PI32, VZ z => (- 2 ^ 31 <=? z)%Z && (z <? 2 ^ 31)%Z
  | PI64, VZ z => (- 2 ^ 63 <=? z)%Z && (z <? 2 ^ 63)%Z
  | PFourCC, VB b => Nat.eqb (length b) 4
  | PU24, VN n => n <? 2 ^ 24                       (* private field, only produced by parse *)
  | POB24, VN n => (1 <=? n) && (n <=? 2 ^ 24)      (* NonZeroU32, private field, only produced by parse *)
  | PReserved _, VU => true
  | (PVp8xFlags | PAnmfFlags | PAlphFlags), VN n => (n <? 2 ^ 8) && (N.land n (flag_mask t p) =? n)   (* no unknown bits *)
  | PChunkHeader, VH name len => Nat.eqb (length name) 4 && (len <? 2 ^ 32)
  | _, _ => false
  end.

Definition pval_eqb (a b : pval) : bool :=
  match a, b with
  | VN x, VN y => x =? y
  | VZ x, VZ y => (x =? y)%Z
  | VB x, VB y => if list_eq_dec Byte.byte_eq_dec x y then true else false
  | VU, VU => true
  | VH n x, VH m y => (if list_eq_dec Byte.byte_eq_dec n m then true else false) && (x =? y)
  | _, _ => false
  end.

(* the code under test *)
Definition prim_parse := prim_parse_t cur.
Definition prim_put := prim_put_t cur.
Definition prim_wf := prim_wf_t cur.
