(* Proofs about Webp/Prim.v and Webp/Chunks.v.  Everything is proved for an arbitrary table [t : tbl] under the
   hypothesis that the table pairs little-endian getters with little-endian putters ([tbl_le t = true]) and, for the
   reserved-bit statements, that no declared flag bit is a reserved bit ([tbl_masks t = true]).  Props/C17.v
   instantiates [t := cur], the table re-read from the source; the two hypotheses are then closed by computation. *)
From Coq Require Import List NArith ZArith Bool Lia Arith.
From Coq.Strings Require Import Byte.
From MS Require Import Base.Bytes Base.Outcome Webp.Prim Webp.Chunks Webp.PrimSpec.
Import ListNotations.
Open Scope N_scope.
Arguments N.add : simpl never.
Arguments N.sub : simpl never.
Arguments N.mul : simpl never.
Arguments N.div : simpl never.
Arguments N.modulo : simpl never.
Arguments N.pow : simpl never.
Arguments N.eqb : simpl never.
Arguments N.ltb : simpl never.
Arguments N.leb : simpl never.
Arguments N.land : simpl never.
Arguments N.min : simpl never.
Arguments Z.add : simpl never.
Arguments Z.sub : simpl never.
Arguments Z.mul : simpl never.
Arguments Z.modulo : simpl never.
Arguments Z.pow : simpl never.
Arguments Z.ltb : simpl never.
Arguments Z.leb : simpl never.

Definition tbl_le (t : tbl) : bool :=
  g16 t && p16 t && g32 t && p32 t && g64 t && p64 t && gi16 t && pi16 t && gi32 t && pi32 t && gi64 t && pi64 t.
Definition tbl_masks (t : tbl) : bool :=
  (N.land (m_vp8x t) (spec_reserved PVp8xFlags) =? 0) && (N.land (m_anmf t) (spec_reserved PAnmfFlags) =? 0)
  && (N.land (m_alph t) (spec_reserved PAlphFlags) =? 0).

(* ------------------------------------------------------------------ list helpers *)
Lemma firstn_app_len {A} (a b : list A) k : length a = k -> firstn k (a ++ b) = a.
Proof. intros <-. rewrite firstn_app, Nat.sub_diag, firstn_all. cbn [firstn]. apply app_nil_r. Qed.
Lemma skipn_app_len {A} (a b : list A) k : length a = k -> skipn k (a ++ b) = b.
Proof. intros <-. rewrite skipn_app, Nat.sub_diag, skipn_all. reflexivity. Qed.
Lemma ltb_len_false {A} (l : list A) k : (k <= length l)%nat -> Nat.ltb (length l) k = false.
Proof. intros H. apply Nat.ltb_ge. exact H. Qed.
Lemma ltb_app_false {A} (a b : list A) k : length a = k -> Nat.ltb (length (a ++ b)) k = false.
Proof. intros H. apply ltb_len_false. rewrite app_length. lia. Qed.

(* ------------------------------------------------------------------ Buf / BufMut accessors *)
Lemma buf_put_length k e n : length (buf_put k e n) = k.
Proof. unfold buf_put. destruct e; [apply length_n2le | apply length_n2be]. Qed.

Lemma buf_get_put k e n r : n < 256 ^ N.of_nat k -> buf_get k e (buf_put k e n ++ r) = Ok (n, r).
Proof.
  intros Hn. unfold buf_get.
  rewrite (ltb_app_false _ r k (buf_put_length k e n)).
  rewrite (firstn_app_len _ r k (buf_put_length k e n)), (skipn_app_len _ r k (buf_put_length k e n)).
  unfold buf_put. destruct e; [rewrite le2n_n2le | rewrite be2n_n2be]; auto.
Qed.

Lemma buf_get_inv k e l x r : buf_get k e l = Ok (x, r) -> x < 256 ^ N.of_nat k /\ l = buf_put k e x ++ r.
Proof.
  unfold buf_get. destruct (Nat.ltb (length l) k) eqn:E; [discriminate|].
  apply Nat.ltb_ge in E. intros H. injection H as Hx Hr.
  assert (L : length (firstn k l) = k) by (apply firstn_length_le; exact E).
  assert (D : l = firstn k l ++ skipn k l) by (symmetry; apply firstn_skipn).
  set (a := firstn k l) in *. set (b := skipn k l) in *. clearbody a b. subst l r.
  unfold buf_put. destruct e; subst x.
  - split; [pose proof (le2n_lt a) as B; rewrite L in B; exact B|].
    f_equal. pose proof (n2le_le2n a) as Q. rewrite L in Q. symmetry. exact Q.
  - split; [pose proof (be2n_lt a) as B; rewrite L in B; exact B|].
    f_equal. pose proof (n2be_be2n a) as Q. rewrite L in Q. symmetry. exact Q.
Qed.

Lemma buf_get_enough k e l : (k <= length l)%nat ->
  exists x r, buf_get k e l = Ok (x, r) /\ length l = (k + length r)%nat /\ x < 256 ^ N.of_nat k.
Proof.
  intros H. unfold buf_get. rewrite (ltb_len_false l k H).
  eexists. eexists. split; [reflexivity|]. split.
  - rewrite skipn_length. lia.
  - assert (L : length (firstn k l) = k) by (apply firstn_length_le; exact H).
    destruct e; [pose proof (le2n_lt (firstn k l)) as B | pose proof (be2n_lt (firstn k l)) as B];
      rewrite L in B; exact B.
Qed.

Lemma p256_1 : 256 ^ N.of_nat 1 = 2 ^ 8. Proof. reflexivity. Qed.
Lemma p256_2 : 256 ^ N.of_nat 2 = 2 ^ 16. Proof. reflexivity. Qed.
Lemma p256_3 : 256 ^ N.of_nat 3 = 2 ^ 24. Proof. reflexivity. Qed.
Lemma p256_4 : 256 ^ N.of_nat 4 = 2 ^ 32. Proof. reflexivity. Qed.
Lemma p256_8 : 256 ^ N.of_nat 8 = 2 ^ 64. Proof. reflexivity. Qed.

(* webm_int! *)
Lemma webm_int_put_get k e n r : n < 256 ^ N.of_nat k -> webm_int_parse k e (buf_put k e n ++ r) = Ok (n, r).
Proof.
  intros Hn. unfold webm_int_parse. rewrite (ltb_app_false _ r k (buf_put_length k e n)).
  apply buf_get_put. exact Hn.
Qed.

Lemma webm_int_inv k e l x r : webm_int_parse k e l = Ok (x, r) -> x < 256 ^ N.of_nat k /\ l = buf_put k e x ++ r.
Proof.
  unfold webm_int_parse. destruct (Nat.ltb (length l) k); [discriminate|]. apply buf_get_inv.
Qed.

Lemma webm_int_enough k e l : (k <= length l)%nat ->
  exists x r, webm_int_parse k e l = Ok (x, r) /\ length l = (k + length r)%nat /\ x < 256 ^ N.of_nat k.
Proof.
  intros H. unfold webm_int_parse. rewrite (ltb_len_false l k H). apply buf_get_enough. exact H.
Qed.

(* ------------------------------------------------------------------ two's complement *)
Section Signed.
  Variable k : nat.
  Let h := half_of k.
  Hypothesis Hpos : 0 < h.

  Lemma to_of_signed z : (- Z.of_N h <= z < Z.of_N h)%Z ->
    to_signed k (of_signed k z) = z /\ of_signed k z < 2 * h.
  Proof.
    intros Hz. unfold to_signed, of_signed. fold h.
    assert (HM : Z.of_N (2 * h) = (2 * Z.of_N h)%Z) by lia. rewrite HM.
    destruct (Z.ltb_spec z 0) as [Hneg|Hnn].
    - assert (E : (z mod (2 * Z.of_N h) = z + 2 * Z.of_N h)%Z).
      { symmetry. apply (Zdiv.Zmod_unique z (2 * Z.of_N h) (-1)); lia. }
      rewrite E. split; [|lia].
      destruct (N.ltb_spec (Z.to_N (z + 2 * Z.of_N h)) h); lia.
    - rewrite Z.mod_small by lia. split; [|lia].
      destruct (N.ltb_spec (Z.to_N z) h); lia.
  Qed.

  Lemma of_to_signed n : n < 2 * h ->
    of_signed k (to_signed k n) = n /\ (- Z.of_N h <= to_signed k n < Z.of_N h)%Z.
  Proof.
    intros Hn. unfold to_signed, of_signed. fold h.
    assert (HM : Z.of_N (2 * h) = (2 * Z.of_N h)%Z) by lia. rewrite HM.
    destruct (N.ltb_spec n h) as [Hlt|Hge].
    - rewrite Z.mod_small by lia. split; lia.
    - assert (E : ((Z.of_N n - 2 * Z.of_N h) mod (2 * Z.of_N h) = Z.of_N n)%Z).
      { symmetry. apply (Zdiv.Zmod_unique (Z.of_N n - 2 * Z.of_N h) (2 * Z.of_N h) (-1)); lia. }
      rewrite E. split; lia.
  Qed.

  Lemma of_signed_twos z : (- Z.of_N h <= z < Z.of_N h)%Z -> Z.of_N (2 * h) = (2 ^ (8 * Z.of_nat k))%Z ->
    of_signed k z = twos k z.
  Proof.
    intros Hz HP. unfold of_signed, twos. fold h. rewrite <- HP.
    assert (HM : Z.of_N (2 * h) = (2 * Z.of_N h)%Z) by lia. rewrite HM.
    destruct (Z.ltb_spec z 0) as [Hneg|Hnn].
    - f_equal. symmetry. rewrite Z.add_comm. apply (Zdiv.Zmod_unique z (2 * Z.of_N h) (-1)); lia.
    - rewrite Z.mod_small by lia. reflexivity.
  Qed.
End Signed.

Lemma half1 : half_of 1 = 2 ^ 7. Proof. reflexivity. Qed.
Lemma half2 : half_of 2 = 2 ^ 15. Proof. reflexivity. Qed.
Lemma half4 : half_of 4 = 2 ^ 31. Proof. reflexivity. Qed.
Lemma half8 : half_of 8 = 2 ^ 63. Proof. reflexivity. Qed.

(* ------------------------------------------------------------------ little-endian, digit by digit *)
Lemma n2le_digits k : forall j n,
  n2le k (n / 256 ^ N.of_nat j) = map (fun i => n2b (n / 256 ^ N.of_nat i)) (seq j k).
Proof.
  induction k as [|k IH]; intros j n; cbn [n2le seq map]; [reflexivity|]. f_equal.
  rewrite N.div_div by (try apply N.pow_nonzero; lia).
  replace (256 ^ N.of_nat j * 256) with (256 ^ N.of_nat (S j)).
  - apply IH.
  - rewrite Nat2N.inj_succ, N.pow_succ_r'. lia.
Qed.

Lemma n2le_le_digits k n : n2le k n = le_digits k n.
Proof.
  unfold le_digits. rewrite <- n2le_digits. f_equal. change (256 ^ N.of_nat 0) with 1. symmetry. apply N.div_1_r.
Qed.

(* ------------------------------------------------------------------ the table *)
Lemma tbl_le_all t : tbl_le t = true ->
  g16 t = true /\ p16 t = true /\ g32 t = true /\ p32 t = true /\ g64 t = true /\ p64 t = true /\
  gi16 t = true /\ pi16 t = true /\ gi32 t = true /\ pi32 t = true /\ gi64 t = true /\ pi64 t = true.
Proof.
  unfold tbl_le. intros H. repeat (apply andb_prop in H; destruct H as [H ?]). repeat split; assumption.
Qed.

Ltac use_le Hle :=
  destruct (tbl_le_all _ Hle) as (Hg16 & Hp16 & Hg32 & Hp32 & Hg64 & Hp64 & Hgi16 & Hpi16 & Hgi32 & Hpi32 & Hgi64 & Hpi64);
  try rewrite Hg16; try rewrite Hp16; try rewrite Hg32; try rewrite Hp32; try rewrite Hg64; try rewrite Hp64;
  try rewrite Hgi16; try rewrite Hpi16; try rewrite Hgi32; try rewrite Hpi32; try rewrite Hgi64; try rewrite Hpi64.

(* ------------------------------------------------------------------ Reserved<N> *)
Lemma reserved_zeros k r : reserved_parse k (zeros k ++ r) = Ok (tt, r).
Proof. induction k as [|k IH]; [reflexivity|]. cbn [zeros repeat app reserved_parse]. exact IH. Qed.

Lemma reserved_spec k : forall l, (k <= length l)%nat ->
  reserved_parse k l =
    if forallb (fun b => b2n b =? 0) (firstn k l) then Ok (tt, skipn k l) else EParse WInvalidInput.
Proof.
  induction k as [|k IH]; intros l H; [reflexivity|].
  destruct l as [|b l]; [cbn [length] in H; lia|].
  cbn [reserved_parse firstn skipn forallb]. cbn [length] in H.
  destruct (b2n b =? 0); cbn [andb]; [apply IH; lia | reflexivity].
Qed.

Lemma reserved_inv k : forall l u r, reserved_parse k l = Ok (u, r) -> l = zeros k ++ r.
Proof.
  induction k as [|k IH]; intros l u r; cbn [reserved_parse].
  - intros H. injection H as _ <-. reflexivity.
  - destruct l as [|b l]; [discriminate|]. destruct (b2n b =? 0) eqn:E; [|discriminate].
    intros H. apply IH in H. subst l. cbn [zeros repeat app]. f_equal.
    apply N.eqb_eq in E. rewrite <- (n2b_b2n b), E. reflexivity.
Qed.

(* ------------------------------------------------------------------ one primitive: parse (put v ++ r) = (v, r) *)
Lemma range_of_wf lo hi z : ((lo <=? z)%Z && (z <? hi)%Z) = true -> (lo <= z < hi)%Z.
Proof. intros H. apply andb_prop in H. destruct H as [A B]. apply Z.leb_le in A. apply Z.ltb_lt in B. lia. Qed.

Lemma flags_put_parse mask n r : (n <? 2 ^ 8) && (N.land n mask =? n) = true ->
  flags_parse mask (buf_put 1 false n ++ r) = Ok (VN n, r).
Proof.
  intros H. apply andb_prop in H. destruct H as [A B]. apply N.ltb_lt in A.
  change (buf_put 1 false n) with (buf_put 1 true n).
  unfold flags_parse. rewrite (ltb_app_false _ r 1%nat (buf_put_length 1 true n)).
  rewrite buf_get_put by (rewrite p256_1; exact A). cbn [rbind].
  replace (256 <=? n) with false by (symmetry; apply N.leb_gt; change (2 ^ 8) with 256 in A; exact A).
  rewrite B. reflexivity.
Qed.

Lemma prim_put_parse t p v r : tbl_le t = true -> prim_wf_t t p v = true ->
  prim_parse_t t p (prim_put_t t p v ++ r) = Ok (v, r).
Proof.
  intros Hle Hwf.
  destruct p; destruct v; try discriminate Hwf; cbn [prim_wf_t prim_put_t prim_parse_t flag_mask] in *; use_le Hle.
  - (* u8 *) apply N.ltb_lt in Hwf. rewrite webm_int_put_get by (rewrite p256_1; exact Hwf). reflexivity.
  - apply N.ltb_lt in Hwf. rewrite webm_int_put_get by (rewrite p256_2; exact Hwf). reflexivity.
  - apply N.ltb_lt in Hwf. rewrite webm_int_put_get by (rewrite p256_4; exact Hwf). reflexivity.
  - apply N.ltb_lt in Hwf. rewrite webm_int_put_get by (rewrite p256_8; exact Hwf). reflexivity.
  - (* i8 *) apply range_of_wf in Hwf.
    destruct (to_of_signed 1 ltac:(rewrite half1; reflexivity) z) as [A B]; [rewrite half1; exact Hwf|].
    rewrite webm_int_put_get by (rewrite p256_1; rewrite half1 in B; exact B). cbn [rbind]. rewrite A. reflexivity.
  - apply range_of_wf in Hwf.
    destruct (to_of_signed 2 ltac:(rewrite half2; reflexivity) z) as [A B]; [rewrite half2; exact Hwf|].
    rewrite webm_int_put_get by (rewrite p256_2; rewrite half2 in B; exact B). cbn [rbind]. rewrite A. reflexivity.
  - apply range_of_wf in Hwf.
    destruct (to_of_signed 4 ltac:(rewrite half4; reflexivity) z) as [A B]; [rewrite half4; exact Hwf|].
    rewrite webm_int_put_get by (rewrite p256_4; rewrite half4 in B; exact B). cbn [rbind]. rewrite A. reflexivity.
  - apply range_of_wf in Hwf.
    destruct (to_of_signed 8 ltac:(rewrite half8; reflexivity) z) as [A B]; [rewrite half8; exact Hwf|].
    rewrite webm_int_put_get by (rewrite p256_8; rewrite half8 in B; exact B). cbn [rbind]. rewrite A. reflexivity.
  - (* FourCC *) apply Nat.eqb_eq in Hwf. rewrite (ltb_app_false b r 4%nat Hwf). unfold fourcc_parse_raw.
    rewrite (ltb_app_false b r 4%nat Hwf), (firstn_app_len b r 4%nat Hwf), (skipn_app_len b r 4%nat Hwf). reflexivity.
  - (* U24 *) apply N.ltb_lt in Hwf. rewrite (ltb_app_false _ r 3%nat (buf_put_length 3 true n)).
    rewrite buf_get_put by (rewrite p256_3; exact Hwf). cbn [rbind].
    rewrite N.mod_small by (change (2 ^ 24) with 16777216 in Hwf; change (2 ^ 32) with 4294967296; lia). reflexivity.
  - (* OneBasedU24 *) apply andb_prop in Hwf. destruct Hwf as [A B]. apply N.leb_le in A. apply N.leb_le in B.
    change (2 ^ 24) with 16777216 in B.
    rewrite (ltb_app_false _ r 3%nat (buf_put_length 3 true (n - 1))).
    rewrite buf_get_put by (rewrite p256_3; change (2 ^ 24) with 16777216; lia). cbn [rbind].
    rewrite N.mod_small by (change (2 ^ 32) with 4294967296; lia).
    unfold sat_add_u32, U32MAX. replace (N.min (1 + (n - 1)) 4294967295) with n by lia. reflexivity.
  - (* Reserved *) rewrite reserved_zeros. reflexivity.
  - apply flags_put_parse. exact Hwf.
  - apply flags_put_parse. exact Hwf.
  - apply flags_put_parse. exact Hwf.
  - (* ChunkHeader *) apply andb_prop in Hwf. destruct Hwf as [A B]. apply Nat.eqb_eq in A. apply N.ltb_lt in B.
    rewrite <- app_assoc.
    rewrite ltb_len_false by (rewrite !app_length, buf_put_length; lia).
    unfold fourcc_parse_raw. rewrite ltb_len_false by (rewrite !app_length, buf_put_length; lia).
    rewrite (firstn_app_len name _ 4%nat A), (skipn_app_len name _ 4%nat A). cbn [rbind].
    rewrite buf_get_put by (rewrite p256_4; exact B). reflexivity.
Qed.

(* ------------------------------------------------------------------ one primitive: parse l = (v, r) -> l = put v ++ r *)
Lemma wf_of_range lo hi z : (lo <= z < hi)%Z -> ((lo <=? z)%Z && (z <? hi)%Z) = true.
Proof. intros H. apply andb_true_intro. split; [apply Z.leb_le | apply Z.ltb_lt]; lia. Qed.

Lemma flags_parse_inv mask l v r : flags_parse mask l = Ok (v, r) ->
  exists n, v = VN n /\ ((n <? 2 ^ 8) && (N.land n mask =? n)) = true /\ l = buf_put 1 false n ++ r.
Proof.
  unfold flags_parse. destruct (Nat.ltb (length l) 1); [discriminate|].
  destruct (buf_get 1 true l) as [[n r0]| | | |] eqn:E; cbn [rbind]; try discriminate.
  apply buf_get_inv in E. destruct E as [A B]. rewrite p256_1 in A.
  destruct (256 <=? n); [discriminate|]. destruct (N.land n mask =? n) eqn:M; [|discriminate].
  intros H. injection H as <- <-. exists n. split; [reflexivity|]. split.
  - apply andb_true_intro. split; [apply N.ltb_lt; exact A | exact M].
  - exact B.
Qed.

Ltac int_inv E lem :=
  apply webm_int_inv in E; destruct E as [A B]; rewrite lem in A.

Lemma prim_parse_inv t p l v r : tbl_le t = true -> prim_parse_t t p l = Ok (v, r) ->
  prim_wf_t t p v = true /\ l = prim_put_t t p v ++ r.
Proof.
  intros Hle. destruct p; cbn [prim_parse_t flag_mask]; use_le Hle.
  - destruct (webm_int_parse 1 true l) as [[n r0]| | | |] eqn:E; cbn [rbind]; try discriminate.
    intros H. injection H as <- <-. int_inv E p256_1. cbn [prim_wf_t prim_put_t].
    split; [apply N.ltb_lt; exact A | exact B].
  - destruct (webm_int_parse 2 true l) as [[n r0]| | | |] eqn:E; cbn [rbind]; try discriminate.
    intros H. injection H as <- <-. int_inv E p256_2. cbn [prim_wf_t prim_put_t]. rewrite Hp16.
    split; [apply N.ltb_lt; exact A | exact B].
  - destruct (webm_int_parse 4 true l) as [[n r0]| | | |] eqn:E; cbn [rbind]; try discriminate.
    intros H. injection H as <- <-. int_inv E p256_4. cbn [prim_wf_t prim_put_t]. rewrite Hp32.
    split; [apply N.ltb_lt; exact A | exact B].
  - destruct (webm_int_parse 8 true l) as [[n r0]| | | |] eqn:E; cbn [rbind]; try discriminate.
    intros H. injection H as <- <-. int_inv E p256_8. cbn [prim_wf_t prim_put_t]. rewrite Hp64.
    split; [apply N.ltb_lt; exact A | exact B].
  - destruct (webm_int_parse 1 true l) as [[n r0]| | | |] eqn:E; cbn [rbind]; try discriminate.
    intros H. injection H as <- <-. int_inv E p256_1. cbn [prim_wf_t prim_put_t].
    destruct (of_to_signed 1 ltac:(rewrite half1; reflexivity) n) as [C D]; [rewrite half1; exact A|].
    rewrite half1 in D. split; [apply wf_of_range; exact D | rewrite C; exact B].
  - destruct (webm_int_parse 2 true l) as [[n r0]| | | |] eqn:E; cbn [rbind]; try discriminate.
    intros H. injection H as <- <-. int_inv E p256_2. cbn [prim_wf_t prim_put_t]. rewrite Hpi16.
    destruct (of_to_signed 2 ltac:(rewrite half2; reflexivity) n) as [C D]; [rewrite half2; exact A|].
    rewrite half2 in D. split; [apply wf_of_range; exact D | rewrite C; exact B].
  - destruct (webm_int_parse 4 true l) as [[n r0]| | | |] eqn:E; cbn [rbind]; try discriminate.
    intros H. injection H as <- <-. int_inv E p256_4. cbn [prim_wf_t prim_put_t]. rewrite Hpi32.
    destruct (of_to_signed 4 ltac:(rewrite half4; reflexivity) n) as [C D]; [rewrite half4; exact A|].
    rewrite half4 in D. split; [apply wf_of_range; exact D | rewrite C; exact B].
  - destruct (webm_int_parse 8 true l) as [[n r0]| | | |] eqn:E; cbn [rbind]; try discriminate.
    intros H. injection H as <- <-. int_inv E p256_8. cbn [prim_wf_t prim_put_t]. rewrite Hpi64.
    destruct (of_to_signed 8 ltac:(rewrite half8; reflexivity) n) as [C D]; [rewrite half8; exact A|].
    rewrite half8 in D. split; [apply wf_of_range; exact D | rewrite C; exact B].
  - (* FourCC *)
    destruct (Nat.ltb (length l) 4) eqn:E; [discriminate|]. unfold fourcc_parse_raw. rewrite E. cbn [rbind].
    apply Nat.ltb_ge in E.
    assert (L : length (firstn 4 l) = 4%nat) by (apply firstn_length_le; exact E).
    pose proof (firstn_skipn 4 l) as FS.
    set (a := firstn 4 l) in *. set (b := skipn 4 l) in *. clearbody a b.
    intros H. injection H as <- <-. cbn [prim_wf_t prim_put_t].
    split; [apply Nat.eqb_eq; exact L | symmetry; exact FS].
  - (* U24 *)
    destruct (Nat.ltb (length l) 3); [discriminate|].
    destruct (buf_get 3 true l) as [[n r0]| | | |] eqn:E; cbn [rbind]; try discriminate.
    apply buf_get_inv in E. destruct E as [A B]. rewrite p256_3 in A. change (2 ^ 24) with 16777216 in A.
    rewrite N.mod_small by (change (2 ^ 32) with 4294967296; lia).
    intros H. injection H as <- <-. cbn [prim_wf_t prim_put_t].
    split; [apply N.ltb_lt; change (2 ^ 24) with 16777216; exact A | exact B].
  - (* OneBasedU24 *)
    destruct (Nat.ltb (length l) 3); [discriminate|].
    destruct (buf_get 3 true l) as [[n r0]| | | |] eqn:E; cbn [rbind]; try discriminate.
    apply buf_get_inv in E. destruct E as [A B]. rewrite p256_3 in A. change (2 ^ 24) with 16777216 in A.
    rewrite N.mod_small by (change (2 ^ 32) with 4294967296; lia).
    unfold sat_add_u32, U32MAX. replace (N.min (1 + n) 4294967295) with (n + 1) by lia.
    intros H. injection H as <- <-. cbn [prim_wf_t prim_put_t].
    replace (n + 1 - 1) with n by lia.
    split; [|exact B]. apply andb_true_intro. change (2 ^ 24) with 16777216.
    split; apply N.leb_le; lia.
  - (* Reserved *)
    destruct (reserved_parse n l) as [[u r0]| | | |] eqn:E; cbn [rbind]; try discriminate.
    intros H. injection H as <- <-. cbn [prim_wf_t prim_put_t]. split; [reflexivity|].
    apply reserved_inv in E. exact E.
  - intros H. apply flags_parse_inv in H. destruct H as (n & -> & A & B). cbn [prim_wf_t prim_put_t flag_mask]. tauto.
  - intros H. apply flags_parse_inv in H. destruct H as (n & -> & A & B). cbn [prim_wf_t prim_put_t flag_mask]. tauto.
  - intros H. apply flags_parse_inv in H. destruct H as (n & -> & A & B). cbn [prim_wf_t prim_put_t flag_mask]. tauto.
  - (* ChunkHeader *)
    destruct (Nat.ltb (length l) 8) eqn:E; [discriminate|]. apply Nat.ltb_ge in E.
    unfold fourcc_parse_raw. rewrite ltb_len_false by lia. cbn [rbind].
    assert (L : length (firstn 4 l) = 4%nat) by (apply firstn_length_le; lia).
    pose proof (firstn_skipn 4 l) as FS.
    set (a := firstn 4 l) in *. set (b := skipn 4 l) in *. clearbody a b.
    destruct (buf_get 4 true b) as [[n r0]| | | |] eqn:G; cbn [rbind]; try discriminate.
    apply buf_get_inv in G. destruct G as [A B]. rewrite p256_4 in A.
    intros H. injection H as <- <-. cbn [prim_wf_t prim_put_t]. split.
    + apply andb_true_intro. split; [apply Nat.eqb_eq; exact L | apply N.ltb_lt; exact A].
    + rewrite <- app_assoc, <- B. symmetry. exact FS.
Qed.

(* ------------------------------------------------------------------ length and little-endian form of what is written *)
Lemma prim_put_length t p v : prim_wf_t t p v = true -> length (prim_put_t t p v) = prim_len p.
Proof.
  intros Hwf. destruct p; destruct v; try discriminate Hwf; cbn [prim_wf_t prim_put_t prim_len] in *;
    try apply buf_put_length.
  - apply Nat.eqb_eq in Hwf. exact Hwf.
  - apply repeat_length.
  - apply andb_prop in Hwf. destruct Hwf as [A _]. apply Nat.eqb_eq in A.
    rewrite app_length, buf_put_length, A. reflexivity.
Qed.

Lemma prim_put_spec t p v : tbl_le t = true -> prim_wf_t t p v = true -> prim_put_t t p v = spec_encode p v.
Proof.
  intros Hle Hwf.
  destruct p; destruct v; try discriminate Hwf; cbn [prim_wf_t prim_put_t spec_encode] in *; use_le Hle;
    unfold buf_put; try (rewrite n2le_le_digits; reflexivity); try reflexivity.
  - apply range_of_wf in Hwf. rewrite n2le_le_digits. f_equal.
    apply of_signed_twos; [rewrite half1; reflexivity | rewrite half1; exact Hwf | reflexivity].
  - apply range_of_wf in Hwf. rewrite n2le_le_digits. f_equal.
    apply of_signed_twos; [rewrite half2; reflexivity | rewrite half2; exact Hwf | reflexivity].
  - apply range_of_wf in Hwf. rewrite n2le_le_digits. f_equal.
    apply of_signed_twos; [rewrite half4; reflexivity | rewrite half4; exact Hwf | reflexivity].
  - apply range_of_wf in Hwf. rewrite n2le_le_digits. f_equal.
    apply of_signed_twos; [rewrite half8; reflexivity | rewrite half8; exact Hwf | reflexivity].
Qed.

(* ------------------------------------------------------------------ enough input: Ok or Err(InvalidInput), never a panic *)
Definition ok_or_invalid {A} (r : res A) : Prop :=
  match r with Ok _ => True | EParse WInvalidInput => True | _ => False end.

Lemma flags_enough mask l : (1 <= length l)%nat ->
  (exists v r, flags_parse mask l = Ok (v, r) /\ length l = (1 + length r)%nat) \/
  flags_parse mask l = EParse WInvalidInput.
Proof.
  intros H. unfold flags_parse. rewrite (ltb_len_false l 1 H).
  destruct (buf_get_enough 1 true l H) as (x & r & E & L & B). rewrite E. cbn [rbind].
  rewrite p256_1 in B. change (2 ^ 8) with 256 in B.
  replace (256 <=? x) with false by (symmetry; apply N.leb_gt; exact B).
  destruct (N.land x mask =? x); [left; eauto | right; reflexivity].
Qed.

Lemma prim_enough t p l : (prim_len p <= length l)%nat ->
  (exists v r, prim_parse_t t p l = Ok (v, r) /\ length l = (prim_len p + length r)%nat) \/
  prim_parse_t t p l = EParse WInvalidInput.
Proof.
  intros H. destruct p; cbn [prim_parse_t prim_len flag_mask] in *;
    try (match goal with |- context [webm_int_parse ?k ?e l] =>
           destruct (webm_int_enough k e l H) as (x & r & E & L & _); rewrite E; cbn [rbind]; left; eauto end).
  - (* FourCC *) rewrite (ltb_len_false l 4 H). unfold fourcc_parse_raw. rewrite (ltb_len_false l 4 H). cbn [rbind].
    left. eexists. eexists. split; [reflexivity|]. rewrite skipn_length. lia.
  - rewrite (ltb_len_false l 3 H). destruct (buf_get_enough 3 true l H) as (x & r & E & L & _). rewrite E. cbn [rbind].
    left; eauto.
  - rewrite (ltb_len_false l 3 H). destruct (buf_get_enough 3 true l H) as (x & r & E & L & _). rewrite E. cbn [rbind].
    left; eauto.
  - (* Reserved *) rewrite (reserved_spec n l H).
    destruct (forallb (fun b => b2n b =? 0) (firstn n l)); cbn [rbind]; [left | right; reflexivity].
    eexists. eexists. split; [reflexivity|]. rewrite skipn_length. lia.
  - apply flags_enough. exact H.
  - apply flags_enough. exact H.
  - apply flags_enough. exact H.
  - (* ChunkHeader *) rewrite (ltb_len_false l 8 H). unfold fourcc_parse_raw. rewrite ltb_len_false by lia. cbn [rbind].
    assert (H4 : (4 <= length (skipn 4 l))%nat) by (rewrite skipn_length; lia).
    destruct (buf_get_enough 4 true (skipn 4 l) H4) as (x & r & E & L & _). rewrite E. cbn [rbind].
    left. eexists. eexists. split; [reflexivity|]. rewrite skipn_length in L. lia.
Qed.

(* ------------------------------------------------------------------ field sequences *)
Definition fields_len (ps : list prim) : nat := fold_right (fun p a => (prim_len p + a)%nat) 0%nat ps.

Lemma fields_put_parse t ps : tbl_le t = true -> forall vs r, fields_wf t ps vs = true ->
  fields_parse t ps (fields_put t ps vs ++ r) = Ok (vs, r).
Proof.
  intros Hle. induction ps as [|p ps IH]; intros vs r Hwf; destruct vs as [|v vs]; try discriminate Hwf.
  - reflexivity.
  - cbn [fields_wf] in Hwf. apply andb_prop in Hwf. destruct Hwf as [A B].
    cbn [fields_put fields_parse]. rewrite <- app_assoc. rewrite (prim_put_parse t p v _ Hle A). cbn [rbind].
    rewrite (IH vs r B). reflexivity.
Qed.

Lemma fields_parse_inv t ps : tbl_le t = true -> forall l vs r, fields_parse t ps l = Ok (vs, r) ->
  fields_wf t ps vs = true /\ l = fields_put t ps vs ++ r.
Proof.
  intros Hle. induction ps as [|p ps IH]; intros l vs r; cbn [fields_parse].
  - intros H. injection H as <- <-. split; reflexivity.
  - destruct (prim_parse_t t p l) as [[v r0]| | | |] eqn:E; cbn [rbind]; try discriminate.
    destruct (fields_parse t ps r0) as [[vs' r1]| | | |] eqn:F; cbn [rbind]; try discriminate.
    intros H. injection H as <- <-.
    destruct (prim_parse_inv t p l v r0 Hle E) as [A B]. destruct (IH r0 vs' r1 F) as [C D].
    cbn [fields_wf fields_put]. rewrite A, C. split; [reflexivity|]. rewrite <- app_assoc, <- D. exact B.
Qed.

Lemma fields_put_length t ps : forall vs, fields_wf t ps vs = true -> length (fields_put t ps vs) = fields_len ps.
Proof.
  induction ps as [|p ps IH]; intros vs Hwf; destruct vs as [|v vs]; try discriminate Hwf; [reflexivity|].
  cbn [fields_wf] in Hwf. apply andb_prop in Hwf. destruct Hwf as [A B].
  cbn [fields_put fields_len fold_right]. rewrite app_length, (prim_put_length t p v A). f_equal. apply IH. exact B.
Qed.

Lemma fields_enough t ps : forall l, (fields_len ps <= length l)%nat ->
  (exists vs r, fields_parse t ps l = Ok (vs, r) /\ length l = (fields_len ps + length r)%nat) \/
  fields_parse t ps l = EParse WInvalidInput.
Proof.
  induction ps as [|p ps IH]; intros l H; cbn [fields_parse].
  - left. exists [], l. split; reflexivity.
  - cbn [fields_len fold_right] in H. fold (fields_len ps) in H.
    destruct (prim_enough t p l ltac:(lia)) as [(v & r0 & E & L)|E]; rewrite E; cbn [rbind]; [|right; reflexivity].
    destruct (IH r0 ltac:(lia)) as [(vs & r1 & F & L1)|F]; rewrite F; cbn [rbind]; [|right; reflexivity].
    left. eexists. eexists. split; [reflexivity|]. cbn [fields_len fold_right]. fold (fields_len ps). lia.
Qed.

(* ------------------------------------------------------------------ chunks *)
Lemma webp_eqb_refl : (if list_eq_dec Byte.byte_eq_dec WEBP WEBP then true else false) = true.
Proof. destruct (list_eq_dec Byte.byte_eq_dec WEBP WEBP); congruence. Qed.

Lemma chunk_len_fields c : c <> CWebp -> chunk_len c = fields_len (chunk_fields c).
Proof. destruct c; try reflexivity. congruence. Qed.

Lemma chunk_put_parse t c vs r : tbl_le t = true -> chunk_wf_t t c vs = true ->
  chunk_parse_t t c (chunk_put_t t c vs ++ r) = Ok (vs, r).
Proof.
  intros Hle Hwf. unfold chunk_wf_t in Hwf. apply andb_prop in Hwf. destruct Hwf as [A B].
  destruct c; cbn [chunk_parse_t chunk_put_t];
    try (apply fields_put_parse; assumption).
  - rewrite (fields_put_parse t _ Hle vs r A). cbn [rbind]. rewrite B. reflexivity.
  - destruct vs; [|discriminate A]. unfold fourcc_parse_raw, WEBP. cbn [app length Nat.ltb Nat.leb firstn skipn rbind].
    fold WEBP. rewrite webp_eqb_refl. reflexivity.
Qed.

Lemma chunk_parse_inv t c l vs r : tbl_le t = true -> chunk_parse_t t c l = Ok (vs, r) ->
  chunk_wf_t t c vs = true /\ l = chunk_put_t t c vs ++ r.
Proof.
  intros Hle. unfold chunk_wf_t.
  destruct c; cbn [chunk_parse_t chunk_put_t];
    try (intros H; destruct (fields_parse_inv t _ Hle l vs r H) as [A B]; rewrite A; split; [reflexivity | exact B]).
  - destruct (fields_parse t (chunk_fields CVp8x) l) as [[vs' r']| | | |] eqn:E; cbn [rbind]; try discriminate.
    destruct (canvas_ok vs') eqn:C; [|discriminate]. intros H. injection H as <- <-.
    destruct (fields_parse_inv t _ Hle l vs' r' E) as [A B]. rewrite A, C. split; [reflexivity | exact B].
  - unfold fourcc_parse_raw. destruct (Nat.ltb (length l) 4) eqn:E; cbn [rbind]; [discriminate|].
    apply Nat.ltb_ge in E. pose proof (firstn_skipn 4 l) as FS.
    set (a := firstn 4 l) in *. set (b := skipn 4 l) in *. clearbody a b.
    destruct (list_eq_dec Byte.byte_eq_dec a WEBP) as [Ea|Ea]; [|discriminate].
    intros H. injection H as <- <-. split; [reflexivity|]. rewrite <- Ea. symmetry. exact FS.
Qed.

Lemma chunk_put_length t c vs : chunk_wf_t t c vs = true -> length (chunk_put_t t c vs) = chunk_len c.
Proof.
  intros Hwf. unfold chunk_wf_t in Hwf. apply andb_prop in Hwf. destruct Hwf as [A _].
  destruct c; cbn [chunk_put_t]; try (rewrite (fields_put_length t _ vs A); reflexivity). reflexivity.
Qed.

Lemma chunk_exact t c l vs r : tbl_le t = true -> length l = chunk_len c -> chunk_parse_t t c l = Ok (vs, r) ->
  r = [] /\ chunk_put_t t c vs = l.
Proof.
  intros Hle HL H. destruct (chunk_parse_inv t c l vs r Hle H) as [A B].
  pose proof (chunk_put_length t c vs A) as L. rewrite B, app_length, L in HL.
  assert (r = []) by (destruct r; [reflexivity | cbn [length] in HL; lia]).
  subst r. split; [reflexivity|]. rewrite app_nil_r in B. symmetry. exact B.
Qed.

Lemma chunk_enough t c l : (chunk_len c <= length l)%nat -> ok_or_invalid (chunk_parse_t t c l).
Proof.
  intros H. destruct c; cbn [chunk_parse_t];
    try (rewrite chunk_len_fields in H by discriminate;
         destruct (fields_enough t _ l H) as [(vs & r & E & _)|E]; rewrite E; exact I).
  - rewrite chunk_len_fields in H by discriminate.
    destruct (fields_enough t _ l H) as [(vs & r & E & _)|E]; rewrite E; cbn [rbind]; [|exact I].
    destruct (canvas_ok vs); exact I.
  - cbn [chunk_len] in H. unfold fourcc_parse_raw. rewrite (ltb_len_false l 4 H). cbn [rbind].
    destruct (list_eq_dec Byte.byte_eq_dec (firstn 4 l) WEBP); exact I.
Qed.

Lemma ok_or_invalid_no_panic {A} (r : res A) : ok_or_invalid r -> is_panic r = false.
Proof. destruct r as [a|e|e|s|]; cbn; try tauto. Qed.

(* ------------------------------------------------------------------ reserved bits *)
(* a byte with a reserved bit set is not a subset of a mask that contains no reserved bit *)
Lemma reserved_bit_rejected mask res x : N.land mask res = 0 -> N.land x res <> 0 -> (N.land x mask =? x) = false.
Proof.
  intros Hm Hx. apply N.eqb_neq. intros E. apply Hx.
  rewrite <- E, <- N.land_assoc, Hm. apply N.land_0_r.
Qed.

Lemma flags_reserved mask res b r : N.land mask res = 0 -> N.land (b2n b) res <> 0 ->
  flags_parse mask (b :: r) = EParse WInvalidInput.
Proof.
  intros Hm Hx. unfold flags_parse, buf_get. cbn [length Nat.ltb Nat.leb firstn skipn le2n rbind].
  replace (b2n b + 256 * 0) with (b2n b) by lia.
  pose proof (b2n_lt b) as B. replace (256 <=? b2n b) with false by (symmetry; apply N.leb_gt; exact B).
  rewrite (reserved_bit_rejected mask res (b2n b) Hm Hx). reflexivity.
Qed.

Lemma tbl_masks_all t : tbl_masks t = true ->
  N.land (m_vp8x t) 193 = 0 /\ N.land (m_anmf t) 252 = 0 /\ N.land (m_alph t) 192 = 0.
Proof.
  unfold tbl_masks, spec_reserved. intros H. apply andb_prop in H. destruct H as [H C]. apply andb_prop in H.
  destruct H as [A B]. apply N.eqb_eq in A. apply N.eqb_eq in B. apply N.eqb_eq in C. tauto.
Qed.

Lemma prim_reserved t p b r : tbl_masks t = true -> N.land (b2n b) (spec_reserved p) <> 0 ->
  prim_parse_t t p (b :: r) = EParse WInvalidInput.
Proof.
  intros Hm Hx. destruct (tbl_masks_all t Hm) as (A & B & C).
  destruct p; cbn [spec_reserved] in Hx; try (exfalso; apply Hx; apply N.land_0_r);
    cbn [prim_parse_t flag_mask]; eapply flags_reserved; eassumption.
Qed.

Lemma flags_cons mask b tl :
  flags_parse mask (b :: tl) =
    if N.land (b2n b) mask =? b2n b then Ok (VN (b2n b), tl) else EParse WInvalidInput.
Proof.
  unfold flags_parse, buf_get. cbn [length Nat.ltb Nat.leb firstn skipn le2n rbind].
  replace (b2n b + 256 * 0) with (b2n b) by lia.
  pose proof (b2n_lt b) as B. replace (256 <=? b2n b) with false by (symmetry; apply N.leb_gt; exact B).
  reflexivity.
Qed.

Lemma u24_cons t a b c tl : prim_parse_t t PU24 (a :: b :: c :: tl) = Ok (VN (le2n [a; b; c] mod 2 ^ 32), tl).
Proof. reflexivity. Qed.
Lemma ob24_cons t a b c tl :
  prim_parse_t t POB24 (a :: b :: c :: tl) = Ok (VN (sat_add_u32 1 (le2n [a; b; c] mod 2 ^ 32)), tl).
Proof. reflexivity. Qed.

Lemma chunk_reserved t c l : tbl_masks t = true -> (chunk_len c <= length l)%nat ->
  reserved_violation c l = true -> chunk_parse_t t c l = EParse WInvalidInput.
Proof.
  intros Hm H V. destruct (tbl_masks_all t Hm) as (MA & MB & MC).
  destruct c; cbn [reserved_violation] in V; try discriminate V.
  - (* VP8X *)
    change (chunk_len CVp8x) with 10%nat in H.
    do 4 (destruct l as [|? l]; [cbn [length] in H; lia|]).
    unfold byte_at in V. cbn [nth] in V.
    unfold chunk_parse_t, chunk_fields. cbn [fields_parse prim_parse_t flag_mask].
    rewrite flags_cons.
    destruct (N.land (b2n b) 193 =? 0) eqn:E0.
    + cbn [negb orb] in V. destruct (N.land (b2n b) (m_vp8x t) =? b2n b); cbn [rbind]; [|reflexivity].
      cbn [reserved_parse].
      destruct (b2n b0 =? 0); [|reflexivity]. destruct (b2n b1 =? 0); [|reflexivity].
      destruct (b2n b2 =? 0); [discriminate V | reflexivity].
    + apply N.eqb_neq in E0. rewrite (reserved_bit_rejected _ _ _ MA E0). reflexivity.
  - (* ANMF *)
    change (chunk_len CAnmf) with 16%nat in H.
    do 16 (destruct l as [|? l]; [cbn [length] in H; lia|]).
    unfold byte_at in V. cbn [nth] in V. apply negb_true_iff in V. apply N.eqb_neq in V.
    unfold chunk_parse_t, chunk_fields. cbn [fields_parse].
    repeat (first [rewrite u24_cons | rewrite ob24_cons]; cbn [rbind]).
    cbn [prim_parse_t flag_mask].
    rewrite (flags_reserved _ _ _ _ MB V). reflexivity.
  - (* ALPH *)
    change (chunk_len CAlph) with 1%nat in H.
    destruct l as [|b l]; [cbn [length] in H; lia|].
    unfold byte_at in V. cbn [nth] in V. apply negb_true_iff in V. apply N.eqb_neq in V.
    unfold chunk_parse_t, chunk_fields. cbn [fields_parse prim_parse_t flag_mask].
    rewrite (flags_reserved _ _ _ _ MC V). reflexivity.
Qed.

(* ------------------------------------------------------------------ the statements of Props/C17.v, for any table *)
Lemma prim_roundtrip_t t : tbl_le t = true ->
  (forall (p : prim) (v : pval) (r : bytes), prim_wf_t t p v = true ->
     prim_parse_t t p (prim_put_t t p v ++ r) = Ok (v, r) /\
     length (prim_put_t t p v) = prim_len p /\
     prim_put_t t p v = spec_encode p v)
  /\ (forall (p : prim) (l : bytes) (v : pval) (r : bytes), prim_parse_t t p l = Ok (v, r) ->
        prim_wf_t t p v = true /\ l = prim_put_t t p v ++ r).
Proof.
  intros Hle. split.
  - intros p v r Hwf. split; [apply prim_put_parse; assumption|].
    split; [apply prim_put_length; assumption | apply prim_put_spec; assumption].
  - intros p l v r. apply prim_parse_inv. exact Hle.
Qed.

Lemma chunk_roundtrip_t t : tbl_le t = true ->
  (forall (c : chunk) (vs : list pval) (r : bytes), chunk_wf_t t c vs = true ->
     chunk_parse_t t c (chunk_put_t t c vs ++ r) = Ok (vs, r) /\ length (chunk_put_t t c vs) = chunk_len c)
  /\ (forall (c : chunk) (l : bytes) (vs : list pval) (r : bytes), chunk_parse_t t c l = Ok (vs, r) ->
        chunk_wf_t t c vs = true /\ l = chunk_put_t t c vs ++ r)
  /\ (forall (c : chunk) (l : bytes) (vs : list pval) (r : bytes), length l = chunk_len c ->
        chunk_parse_t t c l = Ok (vs, r) -> r = [] /\ chunk_put_t t c vs = l).
Proof.
  intros Hle. split; [|split].
  - intros c vs r Hwf. split; [apply chunk_put_parse; assumption | apply chunk_put_length; assumption].
  - intros c l vs r. apply chunk_parse_inv. exact Hle.
  - intros c l vs r. apply chunk_exact. exact Hle.
Qed.

Lemma reserved_is_error_t t : tbl_masks t = true ->
  (forall (k : nat) (l : bytes), (k <= length l)%nat ->
     reserved_parse k l = if forallb (fun b => b2n b =? 0) (firstn k l) then Ok (tt, skipn k l) else EParse WInvalidInput)
  /\ (forall (p : prim) (b : byte) (r : bytes), N.land (b2n b) (spec_reserved p) <> 0 ->
        prim_parse_t t p (b :: r) = EParse WInvalidInput)
  /\ (forall (p : prim) (l : bytes), (prim_len p <= length l)%nat -> is_panic (prim_parse_t t p l) = false)
  /\ (forall (c : chunk) (l : bytes), (chunk_len c <= length l)%nat ->
        is_panic (chunk_parse_t t c l) = false /\
        (reserved_violation c l = true -> chunk_parse_t t c l = EParse WInvalidInput)).
Proof.
  intros Hm. split; [|split; [|split]].
  - apply reserved_spec.
  - intros p b r. apply prim_reserved. exact Hm.
  - intros p l H. destruct (prim_enough t p l H) as [(v & r & E & _)|E]; rewrite E; reflexivity.
  - intros c l H. split; [apply ok_or_invalid_no_panic; apply chunk_enough; exact H|].
    apply chunk_reserved; assumption.
Qed.

(* ------------------------------------------------------------------ non-vacuity *)
Example prim_roundtrip_sat :
  prim_wf_t cur PI64 (VZ (-9223372036854775808)%Z) = true /\ prim_wf_t cur POB24 (VN 16777216) = true /\
  prim_wf_t cur PVp8xFlags (VN 62) = true /\
  prim_parse_t cur PU64 [x01; x02; x03; x04; x05; x06; x07; x08; x09] = Ok (VN 578437695752307201, [x09]).
Proof. vm_compute. repeat split; reflexivity. Qed.

Example chunk_roundtrip_sat :
  chunk_wf_t cur CVp8x [VN 16; VU; VN 65536; VN 65535] = true /\
  chunk_parse_t cur CAnmf [x01;x00;x00; x02;x00;x00; x03;x00;x00; x04;x00;x00; x05;x00;x00; x03] =
    Ok ([VN 1; VN 2; VN 4; VN 5; VN 5; VN 3], []).
Proof. vm_compute. split; reflexivity. Qed.

Example reserved_sat :
  reserved_violation CVp8x [x00; x00; x01; x00; x00; x00; x00; x00; x00; x00] = true /\
  N.land (b2n x40) (spec_reserved PVp8xFlags) <> 0 /\
  reserved_parse 3 [x00; x00] = Panic P_ADVANCE /\                 (* short input: get_u8 panics -- outside the theorem *)
  chunk_parse_t cur CWebp [x57; x45; x42] = Panic P_ADVANCE.
Proof. vm_compute. repeat split; try reflexivity. discriminate. Qed.
