(* C09, WebP container: on the ideal cursor (strict or seek-style) every run of [webp_prog] with enough fuel ends in
   Ok, a parse error or an I/O error - never in a Panic (the protocol assertions of ChunkReader/ChunkDataReader, the
   `stream_position - 8` subtraction, the fixed-size slice accesses of the chunk parsers) and never in OutOfFuel
   (every loop iteration consumes a chunk header of 8 bytes that lies inside the input).
   Forward reasoning with the total characterisations of the reader operations in ContainerProofs.v: each production,
   started on a level that satisfies the level invariant, fails or leaves a level that satisfies it. *)
From Coq Require Import List NArith Bool Lia ZifyBool ZifyNat ZifyN.
From Coq.Strings Require Import Byte.
From MS Require Import Base.Bytes Base.Outcome Base.Prog Webp.Prim Webp.Chunks Webp.Container Webp.Grammar
  Webp.ContainerProofs Webp.ContainerProofsTiles Webp.ContainerProofsSound Webp.ContainerProofsFuel Gen.Consts.
Import ListNotations.
Open Scope N_scope.
Arguments N.add : simpl never.
Arguments N.sub : simpl never.
Arguments N.mul : simpl never.
Arguments N.div : simpl never.
Arguments N.modulo : simpl never.
Arguments N.pow : simpl never.
Arguments N.eqb : simpl never.
Arguments N.ltb : simpl never.
Arguments N.leb : simpl never.
Arguments N.min : simpl never.
Arguments N.max : simpl never.
Arguments N.odd : simpl never.
Arguments N.land : simpl never.
Arguments N.testbit : simpl never.

(* a result that is neither a panic nor fuel exhaustion *)
Definition rgood {A} (r : res A) : Prop := match r with Panic _ | OutOfFuel => False | _ => True end.
(* the dimensions a container can hand to the lossless validator: a canvas, a 14-bit VP8L header or an ANMF frame *)
Definition ldims (w h : N) : Prop := 0 < w <= 2 ^ 24 /\ 0 < h <= 2 ^ 24.

Section T.
Variables (inp : input) (lenient : bool) (ms : N).
Variable lossless : N -> N -> bytes -> res unit.
Variable allow : bool.
Hypothesis Hll : forall w h b, ldims w h -> rgood (lossless w h b).
(* [noio = true]: additionally no I/O error can arise - seek-style skips stay below the seek bound (a chunk ends at most
   2^32 bytes after a header that lies inside the input) and the validator reports none; then failures are parse errors *)
Variable noio : bool.
Hypothesis Hnoio : noio = true -> (lenient = true -> ilen inp + 2 ^ 32 <= ms) /\ (forall w h b e, ldims w h -> lossless w h b <> EIo e).
Notation exec' := (exec inp lenient ms).
Notation padreq' := (padreq inp).
Notation linv' := (linv inp).
Notation hdr_at' := (hdr_at inp).

Definition bad {A} (x : res A * N) : Prop := if noio then perr_at x else fails x.
Lemma bad_perr {A} (x : res A * N) : perr_at x -> bad x.
Proof. unfold bad. destruct noio; [auto | apply perr_fails]. Qed.
Lemma bad_ebind {A B} (x : res A * N) (f : A -> N -> res B * N) : bad x -> bad (ebind x f).
Proof. unfold bad. destruct noio; [apply ebind_perr | apply ebind_fails]. Qed.
Lemma bad_fails {A} (x : res A * N) : bad x -> fails x.
Proof. unfold bad. destruct noio; [apply perr_fails | auto]. Qed.

(* the body of the current chunk ends at most 2^32 bytes beyond the input *)
Definition einv (a : astate) : Prop := match a with AIn _ e => e <= ilen inp + 2 ^ 32 | _ => True end.
Definition rgood2 {A} (r : res A) : Prop := rgood r /\ (noio = true -> forall e, r <> EIo e).
Lemma Hll2 w h b : ldims w h -> rgood2 (lossless w h b).
Proof. intros Hd. split; [now apply Hll|]. intros Hn e. now apply (proj2 (Hnoio Hn)). Qed.

(* the production failed, or it left a level (same enclosing frames) that satisfies the invariants and P *)
Definition good (P : astate -> N -> Prop) (fr : list frame) (x : res lv * N) : Prop :=
  bad x \/ exists a' p', x = (Ok (L a' fr p'), p') /\ linv' a' fr p' /\ einv a' /\ P a' p'.
Definition anyst : astate -> N -> Prop := fun _ _ => True.
Definition nopeek : astate -> N -> Prop := fun a _ => forall h, a <> APeek h.
Definition isidle : astate -> N -> Prop := fun a _ => exists n, a = AIdle n.

Lemma good_perr P fr x : perr_at x -> good P fr x.
Proof. intros H. left. now apply bad_perr. Qed.
Lemma good_weaken (P Q : astate -> N -> Prop) fr x : (forall a p, P a p -> Q a p) -> good P fr x -> good Q fr x.
Proof. intros H [F | (a' & p' & E & Hl & He & HP)]; [now left | right; exists a', p'; auto]. Qed.

(* sequencing: a good first part followed by a continuation that is good from every level the first part can leave *)
Lemma good_bind (P Q : astate -> N -> Prop) fr fr2 (pr : prog lv) (f : lv -> prog lv) p :
  good P fr (exec' pr p) ->
  (forall a' p', linv' a' fr p' -> einv a' -> P a' p' -> p <= p' -> good Q fr2 (exec' (f (L a' fr p')) p')) ->
  good Q fr2 (exec' (pbind pr f) p).
Proof.
  intros [F | (a' & p' & E & Hl & He & HP)] Hf; rewrite exec_bind.
  - left. now apply bad_ebind.
  - rewrite E. cbn [ebind]. apply Hf; auto. eapply exec_mono; exact E.
Qed.

Lemma bad_ret_parse {A} e q : bad (exec' (@Ret A (EParse e)) q).
Proof. apply bad_perr. eexists _, _. apply exec_ret. Qed.
Lemma good_ret_parse P fr e q : good P fr (exec' (Ret (EParse e)) q).
Proof. left. apply bad_ret_parse. Qed.

Lemma good_ret_ok (P : astate -> N -> Prop) fr a p : linv' a fr p -> einv a -> P a p -> good P fr (exec' (Ret (Ok (L a fr p))) p).
Proof. intros Hl He HP. right. exists a, p. rewrite exec_ret. auto. Qed.

(* a chunk whose header lies inside the input ends at most 2^32 bytes beyond it *)
Lemma einv_in_hdr o : o + 8 <= ilen inp -> einv (in_hdr inp o).
Proof.
  intros H. unfold in_hdr. cbn [einv]. rewrite hdr_len. pose proof (le_lt inp (o + 4) 4).
  change (256 ^ 4) with (2 ^ 32) in *. lia.
Qed.
Lemma einv_nst a p : einv a -> einv (nst a p).
Proof. destruct a as [n|h|h e]; cbn [nst]; auto. destruct (e <=? p); [intros _; exact I | auto]. Qed.

(* skipping to the end of the current body: an I/O error arises only when the seek bound is exceeded *)
Lemma skip_data_body_bad h e fr p : fits fr p -> p < e -> e <= ilen inp + 2 ^ 32 ->
  fails (exec' (skip_data (L (AIn h e) fr p)) p) -> bad (exec' (skip_data (L (AIn h e) fr p)) p).
Proof.
  intros Hf Hlt He. unfold bad. destruct noio eqn:En; [|auto]. intros Hfail.
  destruct (Hnoio eq_refl) as [Hms _].
  unfold skip_data. rewrite read_padding_settled by (cbn [settled]; lia). cbn [pbind].
  rewrite fst_L, snd_L, conc_settled_In by lia. rewrite exec_bind.
  assert (K : perr_at (exec' (src_skip (e - p) TRUNC (mkstack fr p)) p)
              \/ exists st, exec' (src_skip (e - p) TRUNC (mkstack fr p)) p = (Ok st, p + (e - p))).
  { unfold src_skip. rewrite exec_bind, exec_lift, avail_mkstack. cbn [ebind].
    assert (S : perr_at (exec' (do_skip (e - p) TRUNC) p) \/ exec' (do_skip (e - p) TRUNC) p = (Ok tt, p + (e - p))).
    { unfold exec, do_skip. cbn [run rstep cursor cursor_step]. destruct lenient eqn:El.
      - specialize (Hms eq_refl). replace (p + (e - p) <=? ms) with true by lia. right. reflexivity.
      - destruct (p + (e - p) <=? ilen inp); [right; reflexivity | left; eexists _, _; reflexivity]. }
    destruct (lim fr p) as [k|].
    - destruct (e - p <=? k).
      + rewrite exec_bind. destruct S as [S | S]; [left; now apply ebind_perr|]. rewrite S. cbn [ebind]. right.
        eexists. apply exec_ret.
      + left. unfold io_err, TRUNC. eexists _, _. apply exec_ret.
    - rewrite exec_bind. destruct S as [S | S]; [left; now apply ebind_perr|]. rewrite S. cbn [ebind]. right.
      eexists. apply exec_ret. }
  destruct K as [K | (st & K)]; [now apply ebind_perr|].
  (* the skip succeeded: then the whole operation succeeded, contradicting the premise; still a goal about perr *)
  rewrite K. cbn [ebind]. exfalso. revert Hfail.
  unfold skip_data. rewrite read_padding_settled by (cbn [settled]; lia). cbn [pbind].
  rewrite fst_L, snd_L, conc_settled_In by lia. rewrite exec_bind, K. cbn [ebind]. rewrite exec_ret.
  intros [(e0 & q & X) | (e0 & q & X)]; discriminate X.
Qed.

(* ------------------------------------------------------------------ reader operations *)
Lemma g_skip_data a fr p : linv' a fr p -> einv a -> (forall h, a <> APeek h) -> good nopeek fr (exec' (skip_data (L a fr p)) p).
Proof.
  intros Hl He Hnp. pose proof Hl as [Hf Ha].
  assert (Hb : atb a p \/ exists h e, a = AIn h e /\ p < e).
  { destruct a as [n|h|h e]; cbn [atb]; auto. destruct (e <=? p) eqn:E; [left; lia | right; exists h, e; split; auto; lia]. }
  destruct Hb as [Hb | (h & e & -> & Hlt)].
  - destruct (skip_data_boundary inp lenient ms a fr p Hl Hb Hnp) as [(Hp & E) | (_ & Hx)]; [|now apply good_perr].
    rewrite E. destruct (linv_settle inp _ fr p Hl Hp) as (Hl' & _ & _).
    right. exists (nst a p), (npos a p). split; [reflexivity|]. split; [exact Hl'|]. split; [now apply einv_nst|].
    intros h0. destruct a as [n|h|h e]; cbn [nst].
    + discriminate.
    + now destruct (Hnp h).
    + destruct (e <=? p); discriminate.
  - destruct (skip_data_body inp lenient ms h e fr p Hf Hlt) as [(H1 & H2 & E) | (_ & Hx)].
    2:{ left. apply skip_data_body_bad; auto. }
    rewrite E. right. exists (AIn h e), e. split; [reflexivity|]. split; [split; [exact H1 | cbn [ainv]; lia]|].
    split; [exact He|]. intros h0. discriminate.
Qed.

Definition inbody : astate -> N -> Prop := fun a _ => exists h e, a = AIn h e.

(* read_any_header / read_header: fail, or leave the level inside the body of the chunk whose header was read *)
Lemma g_read_any_header a fr fr2 p (k : chdr * lv -> prog lv) (Q : astate -> N -> Prop) : linv' a fr p ->
  (forall o, p <= o + 8 -> o + 8 <= ilen inp -> linv' (in_hdr inp o) fr (o + 8) -> einv (in_hdr inp o) ->
             good Q fr2 (exec' (k (hdr_at' o, L (in_hdr inp o) fr (o + 8))) (o + 8))) ->
  good Q fr2 (exec' (pbind (read_any_header (L a fr p)) k) p).
Proof.
  intros Hl Hk. rewrite exec_bind.
  destruct (read_any_header_spec inp lenient ms a fr p Hl) as [(Hp & Hb & Hh & E) | (_ & Hx)].
  - pose proof (exec_mono inp lenient ms _ _ _ _ E) as Hm. rewrite E. cbn [ebind].
    apply Hk; [exact Hm | apply Hh | apply linv_in_hdr; apply Hh | apply einv_in_hdr; apply Hh].
  - left. apply bad_ebind. now apply bad_perr.
Qed.

Lemma g_read_header name a fr fr2 p (k : chdr * lv -> prog lv) (Q : astate -> N -> Prop) : linv' a fr p ->
  (forall o, p <= o + 8 -> o + 8 <= ilen inp -> linv' (in_hdr inp o) fr (o + 8) -> einv (in_hdr inp o) ->
             good Q fr2 (exec' (k (hdr_at' o, L (in_hdr inp o) fr (o + 8))) (o + 8))) ->
  good Q fr2 (exec' (pbind (read_header name (L a fr p)) k) p).
Proof.
  intros Hl Hk. rewrite exec_bind.
  destruct (read_header_spec inp lenient ms name a fr p Hl) as [(Hp & Hb & Hh & Hn & E) | (_ & Hx)].
  - pose proof (exec_mono inp lenient ms _ _ _ _ E) as Hm. rewrite E. cbn [ebind].
    apply Hk; [exact Hm | apply Hh | apply linv_in_hdr; apply Hh | apply einv_in_hdr; apply Hh].
  - left. apply bad_ebind. now apply bad_perr.
Qed.

Lemma g_read_data n h e fr fr2 p (k : bytes * lv -> prog lv) (Q : astate -> N -> Prop) : 0 < n -> linv' (AIn h e) fr p ->
  (linv' (AIn h e) fr (p + n) -> good Q fr2 (exec' (k (iread inp p (N.to_nat n), L (AIn h e) fr (p + n))) (p + n))) ->
  good Q fr2 (exec' (pbind (read_data n (L (AIn h e) fr p)) k) p).
Proof.
  intros Hn Hl Hk. rewrite exec_bind.
  destruct (read_data_spec inp lenient ms n h e fr p Hn Hl) as [(H1 & H2 & H3 & E) | (_ & Hx)].
  - rewrite E. cbn [ebind]. apply Hk. split; [exact H2 | cbn [ainv]; exact H1].
  - left. apply bad_ebind. now apply bad_perr.
Qed.

Lemma g_read_body h e fr fr2 p (k : bytes * lv -> prog lv) (Q : astate -> N -> Prop) : linv' (AIn h e) fr p ->
  (forall u b, linv' (AIn h e) fr (p + u) -> good Q fr2 (exec' (k (b, L (AIn h e) fr (p + u))) (p + u))) ->
  good Q fr2 (exec' (pbind (read_body (L (AIn h e) fr p)) k) p).
Proof.
  intros Hl Hk. rewrite exec_bind, (read_body_spec inp lenient ms h e fr p Hl). cbn [ebind]. apply Hk.
  destruct Hl as [Hf Ha]. cbn [ainv] in Ha. split; [now apply upto_fits|]. cbn [ainv].
  pose proof (upto_le inp fr p (e - p)). lia.
Qed.

Lemma bad_of_rgood2 {A B} (r : res A) q : rgood2 r -> (forall a, r <> Ok a) -> @bad B (match r with Ok _ => (OutOfFuel, q) | EParse e => (EParse e, q) | EIo e => (EIo e, q) | Panic n => (Panic n, q) | OutOfFuel => (OutOfFuel, q) end).
Proof.
  intros [Hr Hio] Hn. destruct r as [a|e|e|n|]; cbn [rgood] in Hr; try contradiction.
  - now destruct (Hn a).
  - apply bad_perr. eexists _, _. reflexivity.
  - unfold bad. destruct noio eqn:En; [now destruct (Hio eq_refl e) | right; eexists _, _; reflexivity].
Qed.

Lemma g_lift {A} (r : res A) (k : A -> prog lv) (Q : astate -> N -> Prop) (fr : list frame) p : rgood2 r ->
  (forall a, r = Ok a -> good Q fr (exec' (k a) p)) -> good Q fr (exec' (pbind (lift r) k) p).
Proof.
  intros Hr Hk. rewrite exec_bind, exec_lift. destruct r as [a|e|e|n|] eqn:Er; cbn [ebind].
  - now apply Hk.
  - left. apply bad_perr. eexists _, _. reflexivity.
  - left. pose proof (bad_of_rgood2 (B := lv) (EIo e) p Hr) as X. apply X. discriminate.
  - destruct Hr as [Hr _]. contradiction.
  - destruct Hr as [Hr _]. contradiction.
Qed.

Lemma length_iread'' n pos : length (iread inp pos n) = n.
Proof. apply length_iread'. Qed.

Lemma rgood2_ok {A} (a : A) : rgood2 (Ok a).
Proof. split; [exact I | intros _ e; discriminate]. Qed.
Lemma rgood2_parse {A} e : rgood2 (@EParse A e).
Proof. split; [exact I | intros _ e'; discriminate]. Qed.
Lemma rgood_parse_vp8l p : rgood2 (parse_vp8l (iread inp p 5)).
Proof.
  unfold parse_vp8l. rewrite length_iread''. change (Nat.ltb 5 5) with false. cbv iota.
  destruct (negb _); [apply rgood2_parse|]. destruct (negb _); [apply rgood2_parse | apply rgood2_ok].
Qed.

Lemma parse_vp8l_dims b v : parse_vp8l b = Ok v -> ldims (l_w v) (l_h v).
Proof.
  unfold parse_vp8l. destruct (Nat.ltb _ _); [discriminate|]. destruct (negb _); [discriminate|]. destruct (negb _); [discriminate|].
  intros H. injection H as <-. cbn [l_w l_h]. unfold ldims.
  assert (2 ^ 14 < 2 ^ 24) by (apply N.pow_lt_mono_r; lia).
  pose proof (N.mod_lt (le2n (firstn 4 (skipn 1 b))) (2 ^ 14) ltac:(lia)).
  pose proof (N.mod_lt (le2n (firstn 4 (skipn 1 b)) / 2 ^ 14) (2 ^ 14) ltac:(lia)). lia.
Qed.
Lemma le3_dims p q : ldims (le inp p 3 + 1) (le inp q 3 + 1).
Proof. unfold ldims. pose proof (le_lt inp p 3). pose proof (le_lt inp q 3). change (256 ^ 3) with (2 ^ 24) in *. lia. Qed.

(* ------------------------------------------------------------------ image data *)
Lemma g_do_vp8l dims h e fr p : linv' (AIn h e) fr p -> einv (AIn h e) ->
  good nopeek fr (exec' (do_vp8l lossless dims (L (AIn h e) fr p)) p).
Proof.
  intros Hl He. unfold do_vp8l. apply g_read_data; [lia | exact Hl|]. intros Hl1. change (N.to_nat 5) with 5%nat.
  apply g_lift; [apply rgood_parse_vp8l|]. intros v Ev. apply parse_vp8l_dims in Ev.
  assert (K : good nopeek fr (exec' ('(body, l2) <~ read_body (L (AIn h e) fr (p + 5)) ;;
                                     _ <~ lift (lossless (l_w v) (l_h v) body) ;; skip_data l2) (p + 5))).
  { apply g_read_body; [exact Hl1|]. intros u b Hl2.
    apply g_lift; [apply Hll2; exact Ev|]. intros _ _. apply g_skip_data; [exact Hl2 | exact He | discriminate]. }
  destruct dims as [[w hh]|]; [destruct ((l_w v =? w) && (l_h v =? hh))|]; cbn [pbind];
    first [exact K | apply good_ret_parse].
Qed.

Lemma g_do_alph w hh h e fr p : ldims w hh -> linv' (AIn h e) fr p -> einv (AIn h e) ->
  good nopeek fr (exec' (do_alph lossless w hh (L (AIn h e) fr p)) p).
Proof.
  intros Hd Hl He. unfold do_alph. apply g_read_data; [lia | exact Hl|]. intros Hl1. change (N.to_nat 1) with 1%nat.
  apply g_lift.
  { rewrite parse_alph_spec. destruct (_ =? 0); [apply rgood2_ok | apply rgood2_parse]. }
  intros f _. apply (good_bind (fun a _ => a = AIn h e) nopeek fr fr).
  - destruct (has f 1).
    + apply g_read_body; [exact Hl1|]. intros u b Hl2. apply g_lift; [apply Hll2; exact Hd|]. intros _ _.
      apply good_ret_ok; [exact Hl2 | exact He | reflexivity].
    + apply good_ret_ok; [exact Hl1 | exact He | reflexivity].
  - intros a' p' Hl' _ -> _. apply g_skip_data; [exact Hl' | exact He | discriminate].
Qed.

(* ------------------------------------------------------------------ productions whose result carries a value *)
Definition goodX {X} (P : X -> astate -> N -> Prop) (fr : list frame) (x : res (X * lv) * N) : Prop :=
  bad x \/ exists v a' p', x = (Ok (v, L a' fr p'), p') /\ linv' a' fr p' /\ einv a' /\ P v a' p'.

Lemma goodX_bind {X} (P : X -> astate -> N -> Prop) (Q : astate -> N -> Prop) fr fr2 (pr : prog (X * lv)) (f : X * lv -> prog lv) p :
  goodX P fr (exec' pr p) ->
  (forall v a' p', linv' a' fr p' -> einv a' -> P v a' p' -> p <= p' -> good Q fr2 (exec' (f (v, L a' fr p')) p')) ->
  good Q fr2 (exec' (pbind pr f) p).
Proof.
  intros [F | (v & a' & p' & E & Hl & He & HP)] Hf; rewrite exec_bind.
  - left. now apply bad_ebind.
  - rewrite E. cbn [ebind]. apply Hf; auto. eapply exec_mono; exact E.
Qed.

Lemma goodX_of_good {X} (v : X) (P : astate -> N -> Prop) fr (pr : prog lv) p :
  good P fr (exec' pr p) -> goodX (fun _ a q => P a q) fr (exec' (l <~ pr ;; Ret (Ok (v, l))) p).
Proof.
  intros [F | (a' & p' & E & Hl & He & HP)]; rewrite exec_bind.
  - left. now apply bad_ebind.
  - rewrite E. cbn [ebind]. right. exists v, a', p'. rewrite exec_ret. auto.
Qed.

Lemma nopeek_loff a p : (forall h, a <> APeek h) -> p <= loff a p.
Proof.
  intros H. destruct a as [n|h|h e]; cbn [loff npos]; [lia | now destruct (H h) |]. destruct (e <=? p); lia.
Qed.

(* has_remaining in continuation form *)
Lemma g_has_remaining a fr fr2 p (k : bool * lv -> prog lv) (Q : astate -> N -> Prop) : linv' a fr p -> einv a ->
  (linv' (nst a p) fr (npos a p) -> einv (nst a p) -> p <= npos a p ->
   forall b, (b = false -> exists n, nst a p = AIdle n) ->
   good Q fr2 (exec' (k (b, L (nst a p) fr (npos a p))) (npos a p))) ->
  good Q fr2 (exec' (pbind (has_remaining (L a fr p)) k) p).
Proof.
  intros Hl He Hk. rewrite exec_bind.
  destruct (has_remaining_spec inp lenient ms a fr p Hl) as [(Hp & E) | (_ & Hx)].
  - rewrite E. cbn [ebind]. destruct (linv_settle inp a fr p Hl Hp) as (Hl' & _ & Hle). apply Hk; auto.
    + now apply einv_nst.
    + intros Hb. destruct (nst a p) as [n| |]; [eexists; reflexivity | discriminate | discriminate].
  - left. apply bad_ebind. now apply bad_perr.
Qed.

Lemma g_skip_named name a fr p : linv' a fr p -> good nopeek fr (exec' (skip_named name (L a fr p)) p).
Proof.
  intros Hl. unfold skip_named. apply g_read_header; [exact Hl|]. intros o _ _ Hl1 He1.
  apply g_skip_data; [exact Hl1 | exact He1 | discriminate].
Qed.

(* ------------------------------------------------------------------ trailing chunks (file level and inside a frame) *)
Definition fuel_ok (f : nat) (q : N) : Prop := (N.to_nat ((ilen inp - q) / 8) < f)%nat.

Lemma fuel_ok_step f o q : fuel_ok (S f) o -> o + 8 <= ilen inp -> o + 8 <= q -> fuel_ok f q.
Proof.
  unfold fuel_ok. intros H H1 H2.
  assert ((ilen inp - q) / 8 <= (ilen inp - (o + 8)) / 8) by (apply N.div_le_mono; lia).
  assert ((ilen inp - (o + 8)) / 8 + 1 = (ilen inp - o) / 8).
  { replace (ilen inp - o) with ((ilen inp - (o + 8)) + 1 * 8) by lia. rewrite N.div_add by lia. lia. }
  lia.
Qed.
Lemma fuel_ok_any f q : (N.to_nat (ilen inp / 8) < f)%nat -> fuel_ok f q.
Proof. unfold fuel_ok. intros H. assert ((ilen inp - q) / 8 <= ilen inp / 8) by (apply N.div_le_mono; lia). lia. Qed.

(* read_any_header with the offset of the header it reads made explicit *)
Lemma g_read_any_header_at a fr fr2 p (k : chdr * lv -> prog lv) (Q : astate -> N -> Prop) : linv' a fr p ->
  (loff a p + 8 <= ilen inp -> linv' (in_hdr inp (loff a p)) fr (loff a p + 8) -> einv (in_hdr inp (loff a p)) ->
   good Q fr2 (exec' (k (hdr_at' (loff a p), L (in_hdr inp (loff a p)) fr (loff a p + 8))) (loff a p + 8))) ->
  good Q fr2 (exec' (pbind (read_any_header (L a fr p)) k) p).
Proof.
  intros Hl Hk. rewrite exec_bind.
  destruct (read_any_header_spec inp lenient ms a fr p Hl) as [(Hp & Hb & Hh & E) | (_ & Hx)].
  - rewrite E. cbn [ebind]. apply Hk; [apply Hh | apply linv_in_hdr; apply Hh | apply einv_in_hdr; apply Hh].
  - left. apply bad_ebind. now apply bad_perr.
Qed.

Lemma g_file_tail : forall fuel a fr p, linv' a fr p -> einv a -> fuel_ok fuel (loff a p) ->
  good isidle fr (exec' (file_tail allow fuel (L a fr p)) p).
Proof.
  induction fuel as [|fuel IH]; intros a fr p Hl He Hfu; [unfold fuel_ok in Hfu; lia|].
  cbn [file_tail]. apply g_has_remaining; [exact Hl | exact He|]. intros Hl1 He1 Hle b Hb.
  destruct b; cbn [negb].
  2:{ destruct (Hb eq_refl) as (n & En). apply good_ret_ok; [exact Hl1 | exact He1 | exists n; exact En]. }
  apply g_read_any_header_at; [exact Hl1|]. rewrite loff_nst. intros Ho Hl2 He2.
  destruct (known_after_image _ || teq _ ANMF); [apply good_ret_parse|].
  destruct (negb allow); [apply good_ret_parse|].
  apply (good_bind nopeek isidle fr fr).
  - apply g_skip_data; [exact Hl2 | exact He2 | discriminate].
  - intros a3 p3 Hl3 He3 Hn3 Hle3. apply IH; [exact Hl3 | exact He3|].
    apply (fuel_ok_step fuel (loff a p)); [exact Hfu | exact Ho |]. pose proof (nopeek_loff a3 p3 Hn3). lia.
Qed.

Lemma g_frame_tail fuel a fr p : linv' a fr p -> einv a -> fuel_ok fuel (loff a p) ->
  good isidle fr (exec' (frame_tail allow fuel (L a fr p)) p).
Proof.
  intros Hl He Hfu. rewrite (ContainerProofsSound.frame_tail_exec inp lenient ms allow). now apply g_file_tail.
Qed.

Lemma g_read_header_at name a fr fr2 p (k : chdr * lv -> prog lv) (Q : astate -> N -> Prop) : linv' a fr p ->
  (loff a p + 8 <= ilen inp -> linv' (in_hdr inp (loff a p)) fr (loff a p + 8) -> einv (in_hdr inp (loff a p)) ->
   good Q fr2 (exec' (k (hdr_at' (loff a p), L (in_hdr inp (loff a p)) fr (loff a p + 8))) (loff a p + 8))) ->
  good Q fr2 (exec' (pbind (read_header name (L a fr p)) k) p).
Proof.
  intros Hl Hk. rewrite exec_bind.
  destruct (read_header_spec inp lenient ms name a fr p Hl) as [(Hp & Hb & Hh & Hn & E) | (_ & Hx)].
  - rewrite E. cbn [ebind]. apply Hk; [apply Hh | apply linv_in_hdr; apply Hh | apply einv_in_hdr; apply Hh].
  - left. apply bad_ebind. now apply bad_perr.
Qed.


(* the (bool, level) result of an optional ALPH part: [read_header ALPH; do_alph; (true, level)] *)
Lemma g_alph_part w hh a fr p : ldims w hh -> linv' a fr p ->
  goodX (fun (_ : bool) _ _ => True) fr
        (exec' ('(_, l1) <~ read_header ALPH (L a fr p) ;; l2 <~ do_alph lossless w hh l1 ;; Ret (Ok (true, l2))) p).
Proof.
  intros Hd Hl. rewrite exec_bind.
  destruct (read_header_spec inp lenient ms ALPH a fr p Hl) as [(Hp & Hb & Hh & Hn & E) | (_ & Hx)];
    [|left; apply bad_ebind; now apply bad_perr].
  rewrite E. cbn [ebind].
  pose proof (g_do_alph w hh _ _ fr _ Hd (linv_in_hdr inp (loff a p) fr (proj1 Hh)) (einv_in_hdr _ (proj2 Hh))) as G.
  apply (goodX_of_good true) in G. destruct G as [F | (v & a' & p' & E' & Hl' & He' & _)]; [now left|].
  right. exists v, a', p'. auto.
Qed.

(* the image chunk: VP8 (skipped) or VP8L (validated; not after ALPH) *)
Lemma g_image (alph : bool) dims h e fr p : linv' (AIn h e) fr p -> einv (AIn h e) ->
  good nopeek fr (exec' (if teq (ch_name h) VP8 then skip_data (L (AIn h e) fr p)
                         else if teq (ch_name h) VP8L then
                           (if alph then Ret (EParse InvalidChunkLayout) else do_vp8l lossless dims (L (AIn h e) fr p))
                         else Ret (EParse InvalidChunkLayout)) p).
Proof.
  intros Hl He. destruct (teq _ VP8); [apply g_skip_data; [exact Hl | exact He | discriminate]|].
  destruct (teq _ VP8L); [|apply good_ret_parse].
  destruct alph; [apply good_ret_parse | apply g_do_vp8l; [exact Hl | exact He]].
Qed.

(* ------------------------------------------------------------------ still image after VP8X *)
Lemma g_sanitize_still x a fr p : ldims (x_w x) (x_h x) -> linv' a fr p -> einv a ->
  good nopeek fr (exec' (sanitize_still lossless x (L a fr p)) p).
Proof.
  intros Hd Hl He. unfold sanitize_still.
  apply (goodX_bind (fun (_ : bool) _ _ => True) nopeek fr fr).
  - destruct (has (x_flags x) F_ALPH); [now apply g_alph_part|].
    right. exists false, a, p. rewrite exec_ret. auto.
  - intros alph a1 p1 Hl1 He1 _ _.
    apply g_has_remaining; [exact Hl1 | exact He1|]. intros Hl2 He2 _ b _.
    destruct b; cbn [negb]; [|apply good_ret_parse].
    apply g_read_any_header; [exact Hl2|]. intros o _ _ Hl3 He3. apply g_image; [exact Hl3 | exact He3].
Qed.

(* ------------------------------------------------------------------ one ANMF frame *)
Lemma rgood_parse_anmf p : rgood2 (parse_anmf_dims (iread inp p 16)).
Proof. rewrite parse_anmf_spec. destruct (_ =? 0); [apply rgood2_ok | apply rgood2_parse]. Qed.

Lemma g_one_frame fuel x a fr p : linv' a fr p -> fuel_ok (S fuel) (loff a p) ->
  good nopeek fr (exec' (one_frame lossless allow fuel x (L a fr p)) p).
Proof.
  intros Hl Hfu. unfold one_frame.
  apply g_read_header_at; [exact Hl|]. intros Ho Hl1 He1.
  set (o := loff a p) in *. unfold in_hdr in *. set (h := hdr_at' o) in *. set (e := o + 8 + ch_len h) in *.
  apply g_read_data; [lia | exact Hl1|]. intros Hl2. change (N.to_nat 16) with 16%nat.
  apply g_lift; [apply rgood_parse_anmf|]. intros [fw fh] Efr. cbv zeta.
  assert (Hfd : ldims fw fh).
  { rewrite parse_anmf_spec in Efr. destruct (_ =? 0); [|discriminate]. injection Efr as <- <-. apply le3_dims. }
  rewrite child_L. set (fr' := (h, e) :: fr).
  assert (Hc : linv' (AIdle (ch_name h)) fr' (o + 8 + 16)).
  { split; [|exact I]. apply fits_cons. destruct Hl2 as [Hf2 Ha2]. cbn [ainv] in Ha2. cbn [snd]. split; assumption. }
  apply (goodX_bind (fun (_ : bool) _ _ => True) nopeek fr' fr).
  - (* the optional ALPH chunk of the frame *)
    destruct (has (x_flags x) F_ALPH); [|right; exists false, (AIdle (ch_name h)), (o + 8 + 16); rewrite exec_ret; repeat split; auto; apply Hc].
    rewrite exec_bind.
    destruct (peek_header_spec inp lenient ms _ fr' _ Hc) as [(Hp & Hb & Hh & E) | [(Hp & Hb & Hm & n & E) | (_ & Hx)]];
      cbn [loff npos] in *.
    + rewrite E. cbn [ebind].
      assert (Hlp : linv' (APeek (hdr_at' (o + 8 + 16))) fr' (o + 8 + 16 + 8)).
      { destruct Hh as [Hh1 Hh2]. split; [exact Hh1|]. cbn [ainv]. split; [lia|]. split; [exact Hh2|]. f_equal. lia. }
      destruct (teq _ ALPH); [now apply g_alph_part|].
      right. exists false, (APeek (hdr_at' (o + 8 + 16))), (o + 8 + 16 + 8). rewrite exec_ret.
      split; [reflexivity|]. split; [exact Hlp|]. split; exact I.
    + rewrite E. cbn [ebind]. right. exists false, (AIdle n), (o + 8 + 16). rewrite exec_ret.
      split; [reflexivity|]. split; [split; [apply Hc | exact I] |]. split; exact I.
    + left. apply bad_ebind. now apply bad_perr.
  - (* the image, the unknown chunks after it, and back to the parent level *)
    intros alph a1 p1 Hl1' _ _ Hp1.
    apply g_read_any_header; [exact Hl1'|]. intros o2 Ho2 _ Hl3 He3.
    apply (good_bind nopeek nopeek fr' fr).
    + apply g_image; [exact Hl3 | exact He3].
    + intros a3 p3 Hl3' He3' Hn3 Hle3.
      apply (good_bind isidle nopeek fr' fr).
      * apply g_frame_tail; [exact Hl3' | exact He3'|].
        apply (fuel_ok_step fuel o); [exact Hfu | exact Ho |]. pose proof (nopeek_loff a3 p3 Hn3). lia.
      * intros a4 p4 [Hf4 _] _ _ _. unfold fr'. rewrite parent_L. apply fits_cons in Hf4. cbn [snd] in Hf4.
        apply good_ret_ok; [split; [apply Hf4 | cbn [ainv]; apply Hf4] | exact He1 | intros h0; discriminate].
Qed.

(* ------------------------------------------------------------------ the frame loop, the animation, the extended format *)
Lemma g_frames x : forall fuel a fr p, linv' a fr p -> fuel_ok fuel (loff a p) ->
  good anyst fr (exec' (frames lossless allow fuel x (L a fr p)) p).
Proof.
  induction fuel as [|fuel IH]; intros a fr p Hl Hfu; [unfold fuel_ok in Hfu; lia|].
  cbn [frames]. rewrite exec_bind.
  destruct (peek_header_spec inp lenient ms a fr p Hl) as [(Hp & Hb & Hh & E) | [(Hp & Hb & Hm & n & E) | (_ & Hx)]].
  - rewrite E. cbn [ebind]. set (o := loff a p) in *.
    assert (Hlp : linv' (APeek (hdr_at' o)) fr (o + 8)).
    { destruct Hh as [Hh1 Hh2]. split; [exact Hh1|]. cbn [ainv]. split; [lia|]. split; [exact Hh2|]. f_equal. lia. }
    destruct (teq _ ANMF); [|apply good_ret_ok; [exact Hlp | exact I | exact I]].
    apply (good_bind nopeek anyst fr fr).
    + apply g_one_frame; [exact Hlp|]. cbn [loff]. replace (o + 8 - 8) with o by lia. exact Hfu.
    + intros a2 p2 Hl2 He2 Hn2 Hle2. apply IH; [exact Hl2|].
      apply (fuel_ok_step fuel o); [exact Hfu | apply Hh |]. pose proof (nopeek_loff a2 p2 Hn2). lia.
  - rewrite E. cbn [ebind]. apply good_ret_ok; [|exact I|exact I].
    destruct (linv_settle inp a fr p Hl Hp) as ([Hf' _] & _ & _).
    split; [|exact I]. assert (loff a p = npos a p \/ exists h0, a = APeek h0) as [-> | (h0 & ->)].
    { destruct a; cbn [loff]; eauto. }
    + exact Hf'.
    + cbn [loff npos] in *. eapply fits_le; [exact Hf' | lia].
  - left. apply bad_ebind. now apply bad_perr.
Qed.

Lemma g_animated fuel x a fr p : linv' a fr p -> (N.to_nat (ilen inp / 8) < fuel)%nat ->
  good anyst fr (exec' (sanitize_animated lossless allow fuel x (L a fr p)) p).
Proof.
  intros Hl Hfu. unfold sanitize_animated.
  apply g_read_header; [exact Hl|]. intros o _ _ Hl1 _. unfold in_hdr in *.
  apply g_read_data; [lia | exact Hl1|]. intros Hl2. change (N.to_nat 6) with 6%nat.
  apply g_lift.
  { destruct (parse_anim_ok inp (o + 8)) as (v & ->). apply rgood2_ok. }
  intros _ _. rewrite exec_bind.
  destruct (peek_header_spec inp lenient ms _ fr _ Hl2) as [(Hp & Hb & Hh & E) | [(Hp & Hb & Hm & n & E) | (_ & Hx)]].
  - rewrite E. cbn [ebind]. set (o' := loff _ _) in *.
    destruct (teq _ ANMF); [|apply good_ret_parse].
    apply g_frames; [|apply fuel_ok_any; exact Hfu].
    destruct Hh as [Hh1 Hh2]. split; [exact Hh1|]. cbn [ainv]. split; [lia|]. split; [exact Hh2|]. f_equal. lia.
  - rewrite E. cbn [ebind]. apply good_ret_parse.
  - left. apply bad_ebind. now apply bad_perr.
Qed.

Lemma g_opt_named (flag : bool) name a fr p : linv' a fr p -> einv a ->
  good anyst fr (exec' (if flag then skip_named name (L a fr p) else Ret (Ok (L a fr p))) p).
Proof.
  intros Hl He. destruct flag; [|apply good_ret_ok; [exact Hl | exact He | exact I]].
  eapply good_weaken; [|apply g_skip_named; exact Hl]. intros; exact I.
Qed.

Lemma g_extended fuel x a fr p : ldims (x_w x) (x_h x) -> linv' a fr p -> einv a -> (N.to_nat (ilen inp / 8) < fuel)%nat ->
  good anyst fr (exec' (sanitize_extended lossless allow fuel x (L a fr p)) p).
Proof.
  intros Hd Hl He Hfu. unfold sanitize_extended.
  apply (good_bind anyst anyst fr fr); [apply g_opt_named; assumption|]. intros a1 p1 Hl1 He1 _ _.
  apply (good_bind anyst anyst fr fr).
  { destruct (has (x_flags x) F_ANIM); [apply g_animated; assumption|].
    eapply good_weaken; [|apply g_sanitize_still; assumption]. intros; exact I. }
  intros a2 p2 Hl2 He2 _ _.
  apply (good_bind anyst anyst fr fr); [apply g_opt_named; assumption|]. intros a3 p3 Hl3 He3 _ _.
  apply g_opt_named; assumption.
Qed.

(* ------------------------------------------------------------------ the whole file *)
(* the same continuation lemmas for a continuation of any result type, with the goal closed under failure *)
Section Gen.
Context {B : Type} (G : res B * N -> Prop) (Gf : forall x, bad x -> G x).

Lemma gg_bind (P : astate -> N -> Prop) fr (pr : prog lv) (f : lv -> prog B) p :
  good P fr (exec' pr p) ->
  (forall a' p', linv' a' fr p' -> einv a' -> P a' p' -> p <= p' -> G (exec' (f (L a' fr p')) p')) ->
  G (exec' (pbind pr f) p).
Proof.
  intros [F | (a' & p' & E & Hl & He & HP)] Hf; rewrite exec_bind.
  - apply Gf. now apply bad_ebind.
  - rewrite E. cbn [ebind]. apply Hf; auto. eapply exec_mono; exact E.
Qed.

Lemma gg_read_header_at name a fr p (k : chdr * lv -> prog B) : linv' a fr p ->
  (loff a p + 8 <= ilen inp -> linv' (in_hdr inp (loff a p)) fr (loff a p + 8) -> einv (in_hdr inp (loff a p)) ->
   G (exec' (k (hdr_at' (loff a p), L (in_hdr inp (loff a p)) fr (loff a p + 8))) (loff a p + 8))) ->
  G (exec' (pbind (read_header name (L a fr p)) k) p).
Proof.
  intros Hl Hk. rewrite exec_bind.
  destruct (read_header_spec inp lenient ms name a fr p Hl) as [(Hp & Hb & Hh & Hn & E) | (_ & Hx)].
  - rewrite E. cbn [ebind]. apply Hk; [apply Hh | apply linv_in_hdr; apply Hh | apply einv_in_hdr; apply Hh].
  - apply Gf. apply bad_ebind. now apply bad_perr.
Qed.

Lemma gg_read_any_header a fr p (k : chdr * lv -> prog B) : linv' a fr p ->
  (forall o, p <= o + 8 -> o + 8 <= ilen inp -> linv' (in_hdr inp o) fr (o + 8) -> einv (in_hdr inp o) ->
             G (exec' (k (hdr_at' o, L (in_hdr inp o) fr (o + 8))) (o + 8))) ->
  G (exec' (pbind (read_any_header (L a fr p)) k) p).
Proof.
  intros Hl Hk. rewrite exec_bind.
  destruct (read_any_header_spec inp lenient ms a fr p Hl) as [(Hp & Hb & Hh & E) | (_ & Hx)].
  - pose proof (exec_mono inp lenient ms _ _ _ _ E) as Hm. rewrite E. cbn [ebind].
    apply Hk; [exact Hm | apply Hh | apply linv_in_hdr; apply Hh | apply einv_in_hdr; apply Hh].
  - apply Gf. apply bad_ebind. now apply bad_perr.
Qed.

Lemma gg_read_data n h e fr p (k : bytes * lv -> prog B) : 0 < n -> linv' (AIn h e) fr p ->
  (linv' (AIn h e) fr (p + n) -> G (exec' (k (iread inp p (N.to_nat n), L (AIn h e) fr (p + n))) (p + n))) ->
  G (exec' (pbind (read_data n (L (AIn h e) fr p)) k) p).
Proof.
  intros Hn Hl Hk. rewrite exec_bind.
  destruct (read_data_spec inp lenient ms n h e fr p Hn Hl) as [(H1 & H2 & H3 & E) | (_ & Hx)].
  - rewrite E. cbn [ebind]. apply Hk. split; [exact H2 | cbn [ainv]; exact H1].
  - apply Gf. apply bad_ebind. now apply bad_perr.
Qed.

Lemma gg_lift {A} (r : res A) (k : A -> prog B) p : rgood2 r ->
  (forall a, r = Ok a -> G (exec' (k a) p)) -> G (exec' (pbind (lift r) k) p).
Proof.
  intros Hr Hk. rewrite exec_bind, exec_lift. destruct r as [a|e|e|n|] eqn:Er; cbn [ebind].
  - now apply Hk.
  - apply Gf. apply bad_perr. eexists _, _. reflexivity.
  - apply Gf. pose proof (bad_of_rgood2 (B := B) (EIo e) p Hr) as X. apply X. discriminate.
  - destruct Hr as [Hr _]. contradiction.
  - destruct Hr as [Hr _]. contradiction.
Qed.

Lemma gg_has_remaining a fr p (k : bool * lv -> prog B) : linv' a fr p ->
  (linv' (nst a p) fr (npos a p) -> forall b, G (exec' (k (b, L (nst a p) fr (npos a p))) (npos a p))) ->
  G (exec' (pbind (has_remaining (L a fr p)) k) p).
Proof.
  intros Hl Hk. rewrite exec_bind.
  destruct (has_remaining_spec inp lenient ms a fr p Hl) as [(Hp & E) | (_ & Hx)].
  - rewrite E. cbn [ebind]. destruct (linv_settle inp a fr p Hl Hp) as (Hl' & _ & _). now apply Hk.
  - apply Gf. apply bad_ebind. now apply bad_perr.
Qed.
End Gen.

(* the run ended in Ok, a parse error or an I/O error *)
Definition ended (x : res unit * N) : Prop := bad x \/ exists q, x = (Ok tt, q).
Lemma ended_fails x : bad x -> ended x.
Proof. now left. Qed.

Theorem webp_prog_total fuel : (N.to_nat (ilen inp / 8) < fuel)%nat -> ended (exec' (webp_prog lossless allow fuel) 0).
Proof.
  intros Hfu. unfold webp_prog. cbv zeta. change (Idle RIFF, @nil cstate) with (L (AIdle RIFF) [] 0).
  assert (Hl0 : linv' (AIdle RIFF) [] 0) by (split; [apply fits_nil | exact I]).
  apply (gg_read_header_at ended ended_fails); [exact Hl0|]. cbn [loff npos]. intros Ho Hl1 He1. unfold in_hdr in *.
  set (h := hdr_at' 0) in *. set (e := 0 + 8 + ch_len h) in *.
  apply (gg_read_data ended ended_fails); [lia | exact Hl1|]. intros Hl2. change (N.to_nat 4) with 4%nat.
  apply (gg_lift ended ended_fails).
  { rewrite parse_webp_spec. destruct (geq _ _); [apply rgood2_ok | apply rgood2_parse]. }
  intros _ _.
  destruct (WEBP_MAX_FILE_LEN <? ch_len h + 8); [left; apply bad_ret_parse|].
  rewrite child_L. set (fr1 := [(h, e)]).
  assert (Hc : linv' (AIdle (ch_name h)) fr1 (0 + 8 + 4)).
  { split; [|exact I]. apply fits_cons. destruct Hl2 as [Hf2 Ha2]. cbn [ainv] in Ha2. cbn [snd]. split; assumption. }
  apply (gg_read_any_header ended ended_fails); [exact Hc|]. intros o1 _ _ Hl3 He3. unfold in_hdr in *.
  apply (gg_bind ended ended_fails anyst fr1).
  { destruct (teq _ VP8); [eapply good_weaken; [|apply g_skip_data; [exact Hl3 | exact He3 | discriminate]]; intros; exact I|].
    destruct (teq _ VP8L); [eapply good_weaken; [|apply g_do_vp8l; [exact Hl3 | exact He3]]; intros; exact I|].
    destruct (teq _ VP8X); [|apply good_ret_parse].
    apply g_read_data; [lia | exact Hl3|]. intros Hl4. change (N.to_nat 10) with 10%nat.
    apply g_lift.
    { rewrite parse_vp8x_spec. destruct (vp8x_cond _ _); [apply rgood2_ok | apply rgood2_parse]. }
    intros x Ex. apply g_extended; [| exact Hl4 | exact He3 | exact Hfu].
    rewrite parse_vp8x_spec in Ex. destruct (vp8x_cond _ _); [|discriminate]. injection Ex as <-. apply le3_dims. }
  intros a2 p2 Hl5 He5 _ _.
  apply (gg_bind ended ended_fails isidle fr1).
  { apply g_file_tail; [exact Hl5 | exact He5 | apply fuel_ok_any; exact Hfu]. }
  intros a3 p3 [Hf3 _] _ _ _. unfold fr1. rewrite parent_L. apply fits_cons in Hf3. cbn [snd] in Hf3.
  rewrite exec_bind, exec_lift. cbn [ebind].
  assert (Hl6 : linv' (AIn h e) [] p3) by (split; [apply fits_nil | cbn [ainv]; apply Hf3]).
  apply (gg_has_remaining ended ended_fails); [exact Hl6|]. intros _ b.
  destruct b; [left; apply bad_ret_parse|].
  rewrite exec_bind, exec_pos. cbn [ebind]. rewrite exec_bind, exec_len. cbn [ebind].
  destruct (ilen inp <? _); [left; apply bad_ret_parse | right; eexists; apply exec_ret].
Qed.
End T.

(* ------------------------------------------------------------------ statements on results *)
Lemma ended_rgood noio (x : res unit * N) : ended noio x -> rgood (fst x).
Proof.
  intros [F | (q & ->)]; [|exact I]. unfold bad in F.
  destruct noio; [destruct F as (e & q & ->); exact I | destruct F as [(e & q & ->) | (e & q & ->)]; exact I].
Qed.

Theorem webp_sanitize_total lossless allow lenient ms inp fuel :
  (forall w h b, ldims w h -> rgood (lossless w h b)) -> (N.to_nat (ilen inp / 8) < fuel)%nat ->
  rgood (webp_sanitize lossless allow lenient ms inp fuel).
Proof.
  intros Hll Hfu. unfold webp_sanitize.
  exact (ended_rgood false _ (webp_prog_total inp lenient ms lossless allow Hll false ltac:(discriminate) fuel Hfu)).
Qed.

Theorem webp_sanitize_terminates lossless allow lenient ms inp fuel :
  (forall w h b, ldims w h -> rgood (lossless w h b)) -> (N.to_nat (ilen inp / 8) < fuel)%nat ->
  webp_sanitize lossless allow lenient ms inp fuel <> OutOfFuel.
Proof.
  intros Hll Hfu E. pose proof (webp_sanitize_total lossless allow lenient ms inp fuel Hll Hfu) as H.
  rewrite E in H. exact H.
Qed.

(* no panic for ANY fuel: a run that does not run out of fuel is the run with enough fuel *)
Theorem webp_sanitize_no_panic lossless allow lenient ms inp fuel :
  (forall w h b, ldims w h -> rgood (lossless w h b)) -> forall n, webp_sanitize lossless allow lenient ms inp fuel <> Panic n.
Proof.
  intros Hll n E.
  set (f' := (fuel + S (N.to_nat (ilen inp / 8)))%nat).
  assert (Hne : webp_sanitize lossless allow lenient ms inp fuel <> OutOfFuel) by (rewrite E; discriminate).
  pose proof (webp_fuel_monotone lossless allow lenient ms inp fuel f' ltac:(unfold f'; lia) Hne) as Hm.
  pose proof (webp_sanitize_total lossless allow lenient ms inp f' Hll ltac:(unfold f'; lia)) as H.
  rewrite Hm, E in H. exact H.
Qed.

(* no I/O error on a fault-free cursor: a strict cursor never answers one that is not mapped to TruncatedChunk; a
   seek-style cursor only when a skip target exceeds its seek bound, which cannot happen when the bound is at least
   2^32 beyond the input (in memory: ilen < 2^63, bound 2^64-1); for ANY fuel *)
Theorem webp_sanitize_no_io lossless allow lenient ms inp fuel :
  (forall w h b, ldims w h -> rgood (lossless w h b)) -> (forall w h b e, ldims w h -> lossless w h b <> EIo e) ->
  (lenient = true -> ilen inp + 2 ^ 32 <= ms) ->
  forall e, webp_sanitize lossless allow lenient ms inp fuel <> EIo e.
Proof.
  intros Hll Hio Hms e E.
  set (f' := (fuel + S (N.to_nat (ilen inp / 8)))%nat).
  assert (Hne : webp_sanitize lossless allow lenient ms inp fuel <> OutOfFuel) by (rewrite E; discriminate).
  pose proof (webp_fuel_monotone lossless allow lenient ms inp fuel f' ltac:(unfold f'; lia) Hne) as Hm.
  pose proof (webp_prog_total inp lenient ms lossless allow Hll true (fun _ => conj Hms Hio) f' ltac:(unfold f'; lia)) as H.
  rewrite E in Hm. unfold webp_sanitize, exec in *.
  destruct H as [F | (q & F)].
  - unfold bad in F. destruct F as (pe & q & F). rewrite F in Hm. discriminate Hm.
  - rewrite F in Hm. discriminate Hm.
Qed.

Example webp_total_sat :
  let g := input_of_bytes (RIFF ++ [x0f; x00; x00; x00] ++ [x57; x45; x42; x50] ++ VP8 ++ [x02; x00; x00; x00; x01; x02]) in
  (forall (w h : N) (b : bytes), ldims w h -> rgood (A := unit) (Ok tt)) /\ (N.to_nat (ilen g / 8) < 10)%nat
  /\ ilen g + 2 ^ 32 <= 18446744073709551615
  /\ webp_sanitize (fun _ _ _ => Ok tt) false true 18446744073709551615 g 10 = EParse WInvalidInput.
Proof. cbv zeta. split; [intros; exact I|]. split; [vm_compute; lia|]. split; [vm_compute; discriminate | vm_compute; reflexivity]. Qed.
