(* Independent specification for C17, written from the property text and the WebP container specification
   ("RIFF container", "Extended file format": all multi-byte integers little-endian; uint24; canvas width/height and
   frame width/height stored minus one in 24 bits; the reserved bits of the VP8X, ANMF and ALPH flag bytes), not from
   the code.  Nothing here looks at Gen/WebpPrimGen.v. *)
From Coq Require Import List NArith ZArith Bool.
From Coq.Strings Require Import Byte.
From MS Require Import Base.Bytes Webp.Prim Webp.Chunks.
Import ListNotations.
Open Scope N_scope.

(* little-endian, positionally: byte i of a k-byte field is digit i of n in base 256 *)
Definition le_digits (k : nat) (n : N) : bytes := map (fun i => n2b (n / 256 ^ N.of_nat i)) (seq 0 k).
(* two's complement representative of a signed k-byte integer *)
Definition twos (k : nat) (z : Z) : N :=
  if (z <? 0)%Z then Z.to_N (2 ^ (8 * Z.of_nat k) + z) else Z.to_N z.

Definition spec_encode (p : prim) (v : pval) : bytes :=
  match p, v with
  | PU8, VN n => le_digits 1 n | PU16, VN n => le_digits 2 n | PU32, VN n => le_digits 4 n | PU64, VN n => le_digits 8 n
  | PI8, VZ z => le_digits 1 (twos 1 z) | PI16, VZ z => le_digits 2 (twos 2 z)
  | PI32, VZ z => le_digits 4 (twos 4 z) | PI64, VZ z => le_digits 8 (twos 8 z)
  | PFourCC, VB b => b
  | PU24, VN n => le_digits 3 n
  | POB24, VN n => le_digits 3 (n - 1)                 (* "Canvas Width Minus One: 24 bits" *)
  | PReserved k, VU => repeat x00 k                    (* "Reserved: MUST be 0" *)
  | (PVp8xFlags | PAnmfFlags | PAlphFlags), VN n => [n2b n]
  | PChunkHeader, VH name len => name ++ le_digits 4 len   (* "Chunk FourCC: uint32, Chunk Size: uint32" *)
  | _, _ => []
  end.

(* reserved bits of the flag bytes:
   VP8X  "Rsv(2) I L E X A R(1)"       -> bits 7,6 and 0
   ANMF  "Reserved(6) B D"             -> bits 7..2
   ALPH  "Rsv(2) P(2) F(2) C(2)"       -> bits 7,6 *)
Definition spec_reserved (p : prim) : N :=
  match p with PVp8xFlags => 193 | PAnmfFlags => 252 | PAlphFlags => 192 | _ => 0 end.

Definition byte_at (i : nat) (l : bytes) : N := b2n (nth i l x00).

(* a chunk payload of the encoded length violates a reserved-bits rule:
   VP8X: flag byte 0, then "Reserved: 24 bits, MUST be 0"; ANMF: flag byte at offset 15; ALPH: flag byte 0 *)
Definition reserved_violation (c : chunk) (l : bytes) : bool :=
  match c with
  | CVp8x => negb (N.land (byte_at 0 l) 193 =? 0)
             || negb ((byte_at 1 l =? 0) && (byte_at 2 l =? 0) && (byte_at 3 l =? 0))
  | CAnmf => negb (N.land (byte_at 15 l) 252 =? 0)
  | CAlph => negb (N.land (byte_at 0 l) 192 =? 0)
  | _ => false
  end.
