(* C14(c): an UnsupportedChunk rejection always names a chunk outside the known set.  Syntactic walk of the container
   programme: the only two sites that return UnsupportedChunk t are behind the test that t is neither one of the eight
   chunk names that may not follow the image nor ANMF; the chunk parsers never return it; the lossless validator is a
   parameter assumed not to. *)
From Coq Require Import List NArith Bool Lia.
From Coq.Strings Require Import Byte.
From MS Require Import Base.Bytes Base.Outcome Base.Prog Webp.Prim Webp.Chunks Webp.Container Webp.Grammar Webp.ContainerProofsTiles.
Import ListNotations.
Open Scope N_scope.

(* a result that, if it is an UnsupportedChunk rejection, names an unknown chunk *)
Definition uok {A} (r : res A) : Prop := forall t, r = EParse (UnsupportedChunk t) -> known t = false.
(* a pure computation that never returns UnsupportedChunk *)
Definition nu {A} (r : res A) : Prop := forall t, r <> EParse (UnsupportedChunk t).

Lemma nu_uok {A} (r : res A) : nu r -> uok r.
Proof. intros H t E. destruct (H t E). Qed.
Lemma nu_rbind {A B} (r : res A) (f : A -> res B) : nu r -> (forall a, nu (f a)) -> nu (rbind r f).
Proof.
  intros Hr Hf. destruct r as [a|e|e|n|]; cbn [rbind].
  - apply Hf.
  - intros t H. injection H as ->. now apply (Hr t).
  - intros t H; discriminate H.
  - intros t H; discriminate H.
  - intros t H; discriminate H.
Qed.

Ltac nu_walk :=
  repeat first
    [ match goal with
      | |- nu (Ok _) => intros ? ?; discriminate
      | |- nu (EParse WInvalidInput) => intros ? ?; discriminate
      | |- nu (EParse TruncatedChunk) => intros ? ?; discriminate
      | |- nu (EParse InvalidChunkLayout) => intros ? ?; discriminate
      | |- nu (EParse (UnsupportedVp8lVersion _)) => intros ? ?; discriminate
      | |- nu (Panic _) => intros ? ?; discriminate
      | |- nu (EIo _) => intros ? ?; discriminate
      | |- nu OutOfFuel => intros ? ?; discriminate
      | |- nu (rbind _ _) => apply nu_rbind; [|intros]
      | |- nu (if ?b then _ else _) => destruct b
      | |- nu (match ?x with _ => _ end) => destruct x
      | |- nu (let _ := _ in _) => cbv zeta
      end
    | assumption ].

Lemma nu_buf_get k le l : nu (buf_get k le l).
Proof. unfold buf_get. nu_walk. Qed.
Lemma nu_reserved : forall n l, nu (reserved_parse n l).
Proof. induction n as [|n IH]; intros l; cbn [reserved_parse]; [nu_walk|]. destruct l as [|b r]; [nu_walk|]. destruct (b2n b =? 0); [apply IH | nu_walk]. Qed.
Lemma nu_prim t p l : nu (prim_parse_t t p l).
Proof.
  pose proof nu_buf_get. pose proof nu_reserved.
  destruct p; unfold prim_parse_t, webm_int_parse, flags_parse, fourcc_parse_raw; nu_walk;
    try apply nu_buf_get; try apply nu_reserved; nu_walk.
Qed.
Lemma nu_fields t : forall ps l, nu (fields_parse t ps l).
Proof.
  induction ps as [|p ps IH]; intros l; cbn [fields_parse]; [nu_walk|].
  apply nu_rbind; [apply nu_prim|]. intros [v r]. apply nu_rbind; [apply IH|]. intros [vs r']. nu_walk.
Qed.
Lemma nu_chunk_parse c l : nu (chunk_parse c l).
Proof.
  unfold chunk_parse, chunk_parse_t. destruct c; try apply nu_fields.
  - apply nu_rbind; [apply nu_fields|]. intros [vs r]. nu_walk.
  - unfold fourcc_parse_raw. nu_walk.
Qed.
Lemma nu_parse_vp8x b : nu (parse_vp8x b).
Proof. unfold parse_vp8x. apply nu_rbind; [apply nu_chunk_parse|]. intros [vs r]. nu_walk. Qed.
Lemma nu_parse_anmf b : nu (parse_anmf_dims b).
Proof. unfold parse_anmf_dims. apply nu_rbind; [apply nu_chunk_parse|]. intros [vs r]. nu_walk. Qed.
Lemma nu_parse_alph b : nu (parse_alph_flags b).
Proof. unfold parse_alph_flags. apply nu_rbind; [apply nu_chunk_parse|]. intros [vs r]. nu_walk. Qed.
Lemma nu_parse_vp8l b : nu (parse_vp8l b).
Proof. unfold parse_vp8l. nu_walk. Qed.
Lemma nu_avail : forall outer, nu (avail outer).
Proof. induction outer as [|c r IH]; cbn [avail]; [nu_walk|]. destruct c; nu_walk. Qed.
Lemma nu_parent l : nu (parent l).
Proof. unfold parent. nu_walk. Qed.

(* programmes all of whose returns are uok *)
Inductive uu {A} : prog A -> Prop :=
  | uu_ret r : uok r -> uu (Ret r)
  | uu_do o k : (forall a, uu (k a)) -> uu (Do o k).

Lemma uu_sound {A} (p : prog A) : uu p -> forall (R : reader) (s : rst R), uok (fst (run R p s)).
Proof.
  induction 1 as [r Hr | o k Hk IH]; intros R s; cbn [run]; [exact Hr|].
  destruct (rstep R o s) as [a s']. apply IH.
Qed.
Lemma uu_pbind {A B} (p : prog A) (f : A -> prog B) : uu p -> (forall a, uu (f a)) -> uu (pbind p f).
Proof.
  intros Hp Hf. induction Hp as [r Hr | o k Hk IH]; cbn [pbind].
  - destruct r; try (constructor; intros t E; try discriminate E); [apply Hf|].
    apply Hr. injection E as ->. reflexivity.
  - constructor. exact IH.
Qed.
Lemma uu_lift {A} (r : res A) : nu r -> uu (lift r).
Proof. intros H. constructor. now apply nu_uok. Qed.
Lemma uu_ret_nu {A} (r : res A) : nu r -> uu (Ret r).
Proof. intros H. constructor. now apply nu_uok. Qed.
Lemma uu_io_err {A} eof e : (forall pe, eof = Some pe -> pe = TruncatedChunk) -> uu (@io_err A eof e).
Proof.
  intros H. unfold io_err. destruct e, eof as [pe|]; constructor; intros t E; try discriminate E.
  injection E as ->. specialize (H _ eq_refl). discriminate H.
Qed.
Ltac uu_leaf := constructor; intros [?|?| |?|?]; first [apply uu_ret_nu; nu_walk | apply uu_io_err; intros ? E; first [discriminate E | injection E as <-; reflexivity]].
Lemma uu_fill_empty : uu do_fill_empty.  Proof. unfold do_fill_empty. uu_leaf. Qed.
Lemma uu_read_exact n : uu (do_read_exact n TRUNC).  Proof. unfold do_read_exact, TRUNC. uu_leaf. Qed.
Lemma uu_read_upto n : uu (do_read_upto n).  Proof. unfold do_read_upto. uu_leaf. Qed.
Lemma uu_skip n : uu (do_skip n TRUNC).  Proof. unfold do_skip, TRUNC. uu_leaf. Qed.
Lemma uu_pos : uu do_pos.  Proof. unfold do_pos. uu_leaf. Qed.
Lemma uu_len : uu do_len.  Proof. unfold do_len. uu_leaf. Qed.
Lemma uu_alloc n : uu (do_alloc n).  Proof. unfold do_alloc. constructor. intros _. apply uu_ret_nu. nu_walk. Qed.

Ltac ustep :=
  first
    [ match goal with H : _ |- uu _ => solve [apply H] end
    | apply uu_fill_empty | apply uu_pos | apply uu_len | apply uu_alloc | apply uu_read_upto | apply uu_read_exact | apply uu_skip
    | apply uu_io_err; intros ? E; first [discriminate E | injection E as <-; reflexivity]
    | apply uu_lift; first [apply nu_avail | apply nu_parent | apply nu_chunk_parse | apply nu_parse_vp8x | apply nu_parse_anmf
                           | apply nu_parse_alph | apply nu_parse_vp8l | assumption]
    | apply uu_pbind; [|intros]
    | match goal with
      | |- uu (if ?b then _ else _) => destruct b eqn:?
      | |- uu (match ?x with _ => _ end) => destruct x
      | |- uu (let _ := _ in _) => cbv zeta
      end
    | apply uu_ret_nu; solve [nu_walk] ].

Section U.
Variable lossless : N -> N -> bytes -> res unit.
Variable allow : bool.
Hypothesis Hlu : forall w h b, nu (lossless w h b).

Lemma u_src_read_exact n outer : uu (src_read_exact n TRUNC outer).  Proof. unfold src_read_exact. repeat ustep. Qed.
Lemma u_src_skip n outer : uu (src_skip n TRUNC outer).  Proof. unfold src_skip. repeat ustep. Qed.
Lemma u_src_nonempty outer : uu (src_nonempty outer).  Proof. unfold src_nonempty. repeat ustep. Qed.
Lemma u_src_read_upto n outer : uu (src_read_upto n outer).  Proof. unfold src_read_upto. repeat ustep. Qed.
Lemma u_read_padding l : uu (read_padding l).
Proof. unfold read_padding. pose proof u_src_read_exact. repeat ustep. Qed.
Lemma u_has_remaining l : uu (has_remaining l).
Proof. unfold has_remaining. pose proof u_read_padding. pose proof u_src_nonempty. repeat ustep. Qed.
Lemma u_read_any_header l : uu (read_any_header l).
Proof. unfold read_any_header. pose proof u_read_padding. pose proof u_has_remaining. pose proof u_src_read_exact. repeat ustep. Qed.
Lemma u_read_header name l : uu (read_header name l).
Proof.
  unfold read_header. pose proof u_read_padding. pose proof u_has_remaining. pose proof u_read_any_header. repeat ustep.
  constructor. intros t E. discriminate E.
Qed.
Lemma u_peek_header l : uu (peek_header l).
Proof. unfold peek_header. pose proof u_read_padding. pose proof u_has_remaining. pose proof u_src_read_exact. repeat ustep. Qed.
Lemma u_read_data n l : uu (read_data n l).
Proof. unfold read_data. pose proof u_read_padding. pose proof u_src_read_exact. repeat ustep. Qed.
Lemma u_skip_data l : uu (skip_data l).
Proof. unfold skip_data. pose proof u_read_padding. pose proof u_src_skip. repeat ustep. Qed.
Lemma u_read_body l : uu (read_body l).
Proof. unfold read_body. pose proof u_src_read_upto. repeat ustep. Qed.

Ltac ctx :=
  pose proof u_read_padding; pose proof u_has_remaining; pose proof u_read_any_header; pose proof u_read_header;
  pose proof u_peek_header; pose proof u_read_data; pose proof u_skip_data; pose proof u_read_body.
Ltac lossy := apply uu_lift; apply Hlu.
Ltac uc := repeat first [ lossy | ustep ].

Lemma u_do_vp8l dims l : uu (do_vp8l lossless dims l).  Proof. unfold do_vp8l. ctx. uc. Qed.
Lemma u_do_alph w h l : uu (do_alph lossless w h l).  Proof. unfold do_alph. ctx. uc. Qed.
Lemma u_skip_named name l : uu (skip_named name l).  Proof. unfold skip_named. ctx. uc. Qed.
Lemma u_sanitize_still x l : uu (sanitize_still lossless x l).
Proof.
  unfold sanitize_still. ctx. pose proof u_do_alph. pose proof u_do_vp8l. uc.
  constructor. intros t E. discriminate E.
Qed.

(* the two sites: the name is outside the eight names tested by known_after_image and is not ANMF *)
Lemma unknown_name n : known_after_image n || teq n ANMF = false -> known n = false.
Proof. intros H. rewrite known_model. exact H. Qed.

Lemma u_file_tail : forall fuel l, uu (file_tail allow fuel l).
Proof.
  induction fuel as [|fuel IH]; intros l; cbn [file_tail]; [apply uu_ret_nu; nu_walk|]. ctx.
  apply uu_pbind; [apply u_has_remaining|]. intros [b l1]. destruct (negb b); [apply uu_ret_nu; nu_walk|].
  apply uu_pbind; [apply u_read_any_header|]. intros [h l2].
  destruct (known_after_image (ch_name h) || teq (ch_name h) ANMF) eqn:K; [apply uu_ret_nu; nu_walk|].
  destruct (negb allow).
  - constructor. intros t E. injection E as <-. now apply unknown_name.
  - apply uu_pbind; [apply u_skip_data | intros; apply IH].
Qed.
Lemma u_frame_tail : forall fuel l, uu (frame_tail allow fuel l).
Proof.
  induction fuel as [|fuel IH]; intros l; cbn [frame_tail]; [apply uu_ret_nu; nu_walk|]. ctx.
  apply uu_pbind; [apply u_has_remaining|]. intros [b l1]. destruct (negb b); [apply uu_ret_nu; nu_walk|].
  apply uu_pbind; [apply u_read_any_header|]. intros [h l2].
  destruct (known_after_image (ch_name h) || teq (ch_name h) ANMF) eqn:K; [apply uu_ret_nu; nu_walk|].
  destruct (negb allow).
  - constructor. intros t E. injection E as <-. now apply unknown_name.
  - apply uu_pbind; [apply u_skip_data | intros; apply IH].
Qed.
Lemma u_one_frame fuel x l : uu (one_frame lossless allow fuel x l).
Proof. unfold one_frame. ctx. pose proof u_do_alph. pose proof u_do_vp8l. pose proof u_frame_tail. uc. Qed.
Lemma u_frames x : forall fuel l, uu (frames lossless allow fuel x l).
Proof. induction fuel as [|fuel IH]; intros l; cbn [frames]; [apply uu_ret_nu; nu_walk|]. ctx. pose proof u_one_frame. uc. Qed.
Lemma u_animated fuel x l : uu (sanitize_animated lossless allow fuel x l).
Proof.
  unfold sanitize_animated. ctx. pose proof u_frames. uc.
  all: constructor; intros t E; discriminate E.
Qed.
Lemma u_extended fuel x l : uu (sanitize_extended lossless allow fuel x l).
Proof. unfold sanitize_extended. ctx. pose proof u_skip_named. pose proof u_animated. pose proof u_sanitize_still. uc. Qed.
Theorem uu_webp fuel : uu (webp_prog lossless allow fuel).
Proof. unfold webp_prog. ctx. pose proof u_do_vp8l. pose proof u_extended. pose proof u_file_tail. uc. Qed.
End U.

Theorem unsupported_chunk_is_unknown (R : reader) lossless allow fuel (s : rst R) t :
  (forall w h b t', lossless w h b <> EParse (UnsupportedChunk t')) ->
  fst (run R (webp_prog lossless allow fuel) s) = EParse (UnsupportedChunk t) -> known t = false.
Proof. intros Hl E. exact (uu_sound _ (uu_webp lossless allow Hl fuel) R s t E). Qed.
