(* C19 proofs, layer B: the refill machine of BitBufReader over bit lists.
   abs st = unread bits of the buffer ++ bits of the undelivered bytes.  fill_buf preserves abs whenever it is asked for
   at a moment when the buffer has room for one more byte (always the case when the request is for r bits with
   r + 7 <= 8 * capacity and fewer than r are buffered) or when nothing is left; the accessors return the first bits of
   abs; the buffer-only accessors do so within an announced read-ahead. *)
From Coq Require Import List PeanoNat NArith Bool Lia ZifyBool ZifyNat ZifyN.
From Coq.Strings Require Import Byte.
From MS Require Import Base.Bytes Base.Outcome Webp.BitBuf Webp.BitBufSpec Webp.BitBufRun Webp.BitBufProofsBits.
Import ListNotations.
Open Scope N_scope.
Arguments N.add : simpl never.
Arguments N.sub : simpl never.
Arguments N.mul : simpl never.
Arguments N.div : simpl never.
Arguments N.modulo : simpl never.
Arguments N.pow : simpl never.
Arguments N.eqb : simpl never.
Arguments N.ltb : simpl never.
Arguments N.leb : simpl never.
Arguments N.shiftr : simpl never.
Arguments N.shiftl : simpl never.
Arguments N.lor : simpl never.
Arguments N.land : simpl never.
Arguments N.min : simpl never.
Arguments N.max : simpl never.

Lemma reader_inv_wfr r : reader_inv r <-> wfr r.
Proof. reflexivity. Qed.

Lemma nlen_0_nil {A} (l : list A) : nlen l = 0 -> l = [].
Proof. destruct l; [reflexivity|]. rewrite nlen_cons. lia. Qed.

Lemma abs_mbits st : abs st = br_bits (rd st) ++ mbits (src_rest st).
Proof. unfold abs. now rewrite bits_of_bytes_mbits. Qed.

Lemma buf_bits_len st : inv st -> buf_bits st = nlen (br_bits (rd st)).
Proof.
  intros ((P1 & P2 & P3 & P4 & P5) & L & C). unfold buf_bits, buf_bit_pos, br_position_in_bits.
  rewrite nlen_br_bits by exact P1. lia.
Qed.

(* u64/usize subtractions in buf_bits and fill_buf never underflow *)
Lemma no_underflow st : inv st ->
  qb (rd st) <= rpos (rd st) * 8 /\ buf_bit_pos st <= buf_len st * 8 /\ buf_bit_pos st / 8 <= buf_len st.
Proof.
  intros ((P1 & P2 & P3 & P4 & P5) & L & C). unfold buf_bit_pos, br_position_in_bits. lia.
Qed.

Lemma inv_with_capacity src c : inv (with_capacity src c) /\ abs (with_capacity src c) = bits_of_bytes (sdata src).
Proof.
  split.
  - unfold inv, with_capacity; cbn [rd buf_len cap]. split; [apply (wfr_fresh [])|]. cbn [rbuf]. unfold nlen; cbn. lia.
  - reflexivity.
Qed.

(* ---------------------------------------------------------------- Take::read_to_end *)
Lemma ntake_split {A} n k (l : list A) : n <= k -> ntake n l ++ ntake (k - n) (ndrop n l) = ntake k l.
Proof.
  intros H. destruct (N.le_gt_cases (nlen l) n) as [C|C].
  - rewrite (ndrop_all n l C), (ntake_all n l C), (ntake_all k l) by lia.
    unfold ntake. rewrite firstn_nil. apply app_nil_r.
  - assert (E : ntake k l = ntake (n + (k - n)) (ntake n l ++ ndrop n l)).
    { rewrite ntake_ndrop. f_equal. lia. }
    rewrite E. rewrite ntake_app_exact; [reflexivity|]. rewrite nlen_ntake. lia.
Qed.

Lemma read_to_end_take_spec fuel : forall limit s buf,
  (N.to_nat limit < fuel)%nat ->
  exists s', read_to_end_take fuel limit s buf = Some (buf ++ ntake limit (sdata s), s') /\
             sdata s' = ndrop limit (sdata s) /\ sidx s <= sidx s'.
Proof.
  induction fuel as [|fuel IH]; intros limit s buf Hf; [lia|].
  cbn [read_to_end_take]. destruct (N.eqb_spec limit 0) as [C|C].
  - subst limit. exists s. rewrite ntake_0, app_nil_r, ndrop_0. repeat split; lia.
  - unfold src_read.
    set (n := N.min limit (N.min (N.max 1 (schunk s (sidx s))) (nlen (sdata s)))).
    destruct (ntake n (sdata s)) as [|c0 ct] eqn:Ec.
    + (* Ok(0): only at the end of the data *)
      assert (Z : nlen (ntake n (sdata s)) = 0) by now rewrite Ec.
      rewrite nlen_ntake in Z. assert (D : sdata s = []) by (apply nlen_0_nil; lia).
      exists (mksrc (ndrop n (sdata s)) (schunk s) (sidx s + 1)).
      split; [|cbn [sdata sidx]; rewrite D; unfold ndrop; rewrite !skipn_nil; split; [reflexivity|lia]].
      rewrite D. unfold ntake. rewrite firstn_nil, app_nil_r. reflexivity.
    + rewrite <- Ec.
      assert (Ln : nlen (ntake n (sdata s)) = n) by (rewrite nlen_ntake; lia).
      assert (n1 : 1 <= n).
      { assert (Z : nlen (ntake n (sdata s)) <> 0) by (rewrite Ec, nlen_cons; lia). lia. }
      destruct (IH (limit - nlen (ntake n (sdata s))) (mksrc (ndrop n (sdata s)) (schunk s) (sidx s + 1))
                   (buf ++ ntake n (sdata s))) as (s' & E & D & I); [lia|].
      exists s'. rewrite E. cbn [sdata sidx] in *. rewrite Ln in *.
      split; [|split].
      * rewrite <- app_assoc. rewrite ntake_split by lia. reflexivity.
      * rewrite D, ndrop_ndrop. f_equal. lia.
      * lia.
Qed.

(* ---------------------------------------------------------------- fill_buf *)
(* read_to_end(limit = capacity - len) leaves the vector short of its capacity exactly when the source ran out before
   the limit (read_to_end_take_spec: it appends min(limit, bytes left) bytes); so `input = None` loses nothing, at any
   refill position, full buffer included. *)
Lemma fill_buf_spec st :
  inv st ->
  exists st', fill_buf st = (Ok tt, st') /\ inv st' /\ cap st' = cap st /\
    abs st' = abs st /\ (8 * cap st - 7 <= buf_bits st' \/ src_empty st').
Proof.
  intros I. pose proof I as (W & L & C). pose proof W as (P1 & P2 & P3 & P4 & P5).
  unfold fill_buf. destruct (input st) as [src|] eqn:Ein.
  2:{ exists st. split; [reflexivity|]. split; [exact I|]. split; [reflexivity|]. split; [reflexivity|].
      right. unfold src_empty, src_rest. now rewrite Ein. }
  unfold buf_bit_pos. rewrite br_position_bitpos.
  set (bp := bitpos (rd st)). set (bytepos := bp / 8). set (k := bp mod 8).
  assert (Ebp : bp = rpos (rd st) * 8 - qb (rd st)) by reflexivity.
  assert (Dbp : bp = 8 * bytepos + k) by (subst bytepos k; apply N.div_mod; lia).
  assert (Hk : k < 8) by (subst k; apply N.mod_lt; lia).
  set (buf := rbuf (rd st)) in *.
  assert (Hbyte : bytepos <= nlen buf) by lia.
  destruct (N.ltb_spec (nlen buf) bytepos) as [X|_]; [lia|].
  set (buf1 := ndrop bytepos buf).
  assert (L1 : nlen buf1 = nlen buf - bytepos) by (subst buf1; apply nlen_ndrop).
  set (limit := cap st - nlen buf1).
  destruct (read_to_end_take_spec (S (N.to_nat limit)) limit src buf1 ltac:(lia)) as (src' & Er & Ed & Ei).
  rewrite Er.
  set (new := ntake limit (sdata src)).
  assert (Lnew : nlen new = N.min limit (nlen (sdata src))) by (subst new; apply nlen_ntake).
  set (buf2 := buf1 ++ new).
  assert (L2 : nlen buf2 = nlen buf1 + nlen new) by (subst buf2; apply nlen_app).
  assert (Hk1 : 0 < k -> 1 <= nlen buf2) by lia.
  destruct (br_skip_fresh buf2 k Hk Hk1) as (r1 & Es & Eb & Ebits & W1).
  rewrite Es.
  assert (B1 : br_bits r1 = br_bits (rd st) ++ mbits new).
  { rewrite Ebits. subst buf2. rewrite mbits_app.
    rewrite ndrop_app_le by (rewrite nlen_mbits; lia).
    subst buf1. rewrite <- mbits_ndrop, ndrop_ndrop, P5. fold buf. fold bp. rewrite <- Dbp. reflexivity. }
  eexists; split; [reflexivity|]. cbn [cap rd buf_len input].
  split; [|split; [reflexivity|]].
  - unfold inv; cbn [cap rd buf_len]. split; [exact W1|]. rewrite Eb. split; [reflexivity|]. lia.
  - assert (Erest : src_rest (mkbbr (if nlen buf2 <? cap st then None else Some src') r1 (cap st)
                                    (nlen buf2) (nreads st + (sidx src' - sidx src))) = ndrop limit (sdata src)).
    { unfold src_rest; cbn [input]. destruct (N.ltb_spec (nlen buf2) (cap st)) as [Q|Q].
      - (* short of the capacity: the source had fewer than `limit` bytes left, all of them are in the buffer now *)
        symmetry. apply ndrop_all. lia.
      - exact Ed. }
    split.
    + rewrite !abs_mbits. cbn [rd]. rewrite Erest, B1. unfold src_rest at 1. rewrite Ein.
      rewrite <- app_assoc, <- mbits_app. subst new. rewrite ntake_ndrop. reflexivity.
    + unfold src_empty. rewrite Erest.
      destruct (N.le_gt_cases (nlen (sdata src)) limit) as [Q|Q].
      * right. now apply ndrop_all.
      * left. unfold buf_bits, buf_bit_pos; cbn [rd buf_len]. rewrite br_position_bitpos.
        assert (NB : nlen (br_bits r1) = 8 * nlen buf2 - k).
        { rewrite Ebits, nlen_ndrop, nlen_mbits. reflexivity. }
        destruct W1 as (Q1 & Q2 & Q3 & Q4 & Q5). rewrite nlen_br_bits in NB by exact Q1. rewrite Eb in NB, Q1.
        unfold bitpos. lia.
Qed.

(* the property of the refill proper: at every refill position *)
Lemma refill_preserves_abs st :
  inv st ->
  exists st', fill_buf st = (Ok tt, st') /\ inv st' /\ cap st' = cap st /\ abs st' = abs st /\
              (8 * cap st - 7 <= buf_bits st' \/ src_rest st' = []).
Proof. exact (fill_buf_spec st). Qed.

(* `if buf_bits() < r { fill_buf()? }` *)
Lemma ensure_spec st r :
  inv st ->
  exists st', ensure r st = (Ok tt, st') /\ inv st' /\ cap st' = cap st /\ abs st' = abs st /\
    (r + 7 <= 8 * cap st -> (r <= buf_bits st' \/ src_empty st')).
Proof.
  intros I. unfold ensure. destruct (N.ltb_spec (buf_bits st) r) as [C|C].
  - destruct (fill_buf_spec st I) as (st' & E & I' & Cc & A & P). exists st'.
    split; [exact E|]. split; [exact I'|]. split; [exact Cc|]. split; [exact A|].
    intros R. destruct P as [P|P]; [left; lia|now right].
  - exists st. split; [reflexivity|]. split; [exact I|]. split; [reflexivity|]. split; [reflexivity|].
    intros _. now left.
Qed.

(* ---------------------------------------------------------------- the buffer-only accessors *)
Lemma is_ok_map_eof {A} (r : res A) : is_ok (map_eof r) = is_ok r.
Proof. destruct r as [a|e|e|s|]; try reflexivity. destruct e; reflexivity. Qed.

Lemma set_rd_facts st r' :
  rbuf r' = rbuf (rd st) -> wfr r' -> inv st ->
  inv (set_rd st r') /\ cap (set_rd st r') = cap st /\ src_rest (set_rd st r') = src_rest st.
Proof.
  intros E W (W0 & L & C). unfold inv, set_rd; cbn [rd buf_len cap]. rewrite E.
  split; [split; [exact W|split; [exact L|exact C]]|split; reflexivity].
Qed.

Lemma budget_after st st' b n :
  inv st -> inv st' -> src_rest st' = src_rest st -> br_bits (rd st') = ndrop n (br_bits (rd st)) ->
  (b <= buf_bits st \/ src_empty st) -> (b - n <= buf_bits st' \/ src_empty st').
Proof.
  intros I I' Es Eb [H|H].
  - left. rewrite (buf_bits_len st' I'), Eb, nlen_ndrop. rewrite (buf_bits_len st I) in H. lia.
  - right. unfold src_empty in *. congruence.
Qed.

Lemma buf_read_agrees st w n b :
  inv st -> (b <= buf_bits st \/ src_empty st) -> (n <= w -> n <= b) ->
  agrees (b - n) st (ideal_read w n (abs st)) (buf_read w n st).
Proof.
  intros I HB Hn. pose proof I as (W & L & C).
  unfold buf_read, ideal_read, agrees.
  destruct (N.ltb_spec w n) as [C1|C1].
  - rewrite br_read_invalid by exact C1. cbn [fst snd map_eof is_ok]. split; [reflexivity|discriminate].
  - specialize (Hn C1). rewrite abs_mbits, slen_nlen, nlen_app.
    destruct (N.le_gt_cases n (nlen (br_bits (rd st)))) as [C2|C2].
    + destruct (br_read_ok w n (rd st) W C1 C2) as (r' & E & Eb & Ebits & W').
      rewrite E. destruct (N.leb_spec n (nlen (br_bits (rd st)) + nlen (mbits (src_rest st)))) as [_|X]; [|lia].
      cbn [fst snd map_eof is_ok]. split.
      * f_equal. f_equal. fold (ntake n (br_bits (rd st) ++ mbits (src_rest st))). now rewrite ntake_app_le.
      * intros _. destruct (set_rd_facts st r' Eb W' I) as (I' & Cc & Sr).
        split; [exact I'|]. split; [|split; [exact Cc|]].
        -- rewrite abs_mbits, Sr. cbn [rd set_rd]. rewrite Ebits.
           fold (ndrop n (br_bits (rd st) ++ mbits (src_rest st))). now rewrite ndrop_app_le.
        -- apply (budget_after st _ b n I I' Sr Ebits HB).
    + (* the buffer is short: then the source is exhausted and so is the stream *)
      assert (E0 : src_rest st = []).
      { destruct HB as [H|H]; [rewrite (buf_bits_len st I) in H; lia|exact H]. }
      rewrite E0. change (nlen (mbits [])) with 0.
      destruct (N.leb_spec n (nlen (br_bits (rd st)) + 0)) as [X|_]; [lia|].
      destruct (br_read_eof w n (rd st) W C1 C2) as (r' & E & Eb). rewrite E.
      cbn [fst snd map_eof is_ok]. split; [reflexivity|discriminate].
Qed.

Lemma buf_read_bit_agrees st b :
  inv st -> (b <= buf_bits st \/ src_empty st) -> 1 <= b ->
  agrees (b - 1) st (ideal_read_bit (abs st)) (buf_read_bit st).
Proof.
  intros I HB Hn. pose proof I as (W & L & C).
  unfold buf_read_bit, ideal_read_bit, agrees. rewrite abs_mbits.
  destruct (br_bits (rd st)) as [|x t] eqn:Ebr.
  - assert (E0 : src_rest st = []).
    { destruct HB as [H|H]; [rewrite (buf_bits_len st I), Ebr in H; change (nlen (@nil bool)) with 0 in H; lia|exact H]. }
    rewrite E0. cbn [mbits flat_map app].
    destruct (br_read_bit_eof (rd st) W Ebr) as (r' & E & Eb). rewrite E.
    cbn [fst snd map_eof is_ok]. split; [reflexivity|discriminate].
  - cbn [app]. destruct (br_read_bit_ok (rd st) x t W Ebr) as (r' & E & Eb & Ebits & W'). rewrite E.
    cbn [fst snd map_eof is_ok]. split; [reflexivity|]. intros _.
    destruct (set_rd_facts st r' Eb W' I) as (I' & Cc & Sr).
    split; [exact I'|]. split; [|split; [exact Cc|]].
    + rewrite abs_mbits, Sr. cbn [rd set_rd]. now rewrite Ebits.
    + apply (budget_after st _ b 1 I I' Sr); [|exact HB]. cbn [rd set_rd]. now rewrite Ebits, Ebr.
Qed.

Lemma buf_read_huffman_agrees st d b :
  inv st -> (b <= buf_bits st \/ src_empty st) -> decoder_ok d -> dc_longest d <= b ->
  agrees (b - dc_longest d) st (ideal_read_code (dc_dec d) (abs st)) (buf_read_huffman (hdec_of d) st).
Proof.
  intros I HB (D1 & D2) Hn. pose proof I as (W & L & C).
  unfold buf_read_huffman, ideal_read_code, agrees. rewrite abs_mbits.
  destruct (dc_dec d (br_bits (rd st))) as [[s k]|] eqn:Ed.
  - destruct (D1 _ _ _ Ed) as (K1 & K2 & K3). rewrite slen_nlen in K1.
    rewrite (K3 (br_bits (rd st) ++ mbits (src_rest st))).
    2:{ fold (ntake k (br_bits (rd st) ++ mbits (src_rest st))). fold (ntake k (br_bits (rd st))).
        now apply ntake_app_le. }
    destruct (br_read_huffman_ok (hdec_of d) (rd st) s k W Ed K1) as (r' & E & Eb & Ebits & W'). rewrite E.
    cbn [fst snd map_eof is_ok]. split; [reflexivity|]. intros _.
    destruct (set_rd_facts st r' Eb W' I) as (I' & Cc & Sr).
    split; [exact I'|]. split; [|split; [exact Cc|]].
    + rewrite abs_mbits, Sr. cbn [rd set_rd]. rewrite Ebits.
      fold (ndrop k (br_bits (rd st) ++ mbits (src_rest st))). now rewrite ndrop_app_le.
    + pose proof (budget_after st _ b k I I' Sr Ebits HB) as [P|P]; [left; lia|now right].
  - assert (Short : nlen (br_bits (rd st)) < dc_longest d).
    { destruct (N.lt_ge_cases (nlen (br_bits (rd st))) (dc_longest d)) as [X|X]; [exact X|].
      exfalso. apply (D2 (br_bits (rd st))); [rewrite slen_nlen; exact X|exact Ed]. }
    assert (E0 : src_rest st = []).
    { destruct HB as [H|H]; [rewrite (buf_bits_len st I) in H; lia|exact H]. }
    rewrite E0. cbn [mbits flat_map]. rewrite app_nil_r, Ed.
    destruct (br_read_huffman_eof (hdec_of d) (rd st) Ed) as (r' & E & Eb). rewrite E.
    cbn [fst snd map_eof is_ok]. split; [reflexivity|discriminate].
Qed.

(* LZ77 extra bits *)
Lemma land_1 c : N.land c 1 = c mod 2.
Proof. change 1 with (N.ones 1) at 1. rewrite N.land_ones. reflexivity. Qed.

Lemma buf_read_lz77_agrees st code b :
  inv st -> (b <= buf_bits st \/ src_empty st) -> lz77_extra_bits code <= b ->
  agrees (b - lz77_extra_bits code) st (ideal_read_lz77 code (abs st)) (buf_read_lz77 code st).
Proof.
  intros I HB Hn. unfold buf_read_lz77, ideal_read_lz77, lz77_extra_bits in *.
  destruct (N.leb_spec code 3) as [C1|C1].
  - destruct (N.ltb_spec code 4) as [_|X]; [|lia].
    unfold agrees; cbn [fst snd is_ok]. split.
    + unfold nz_sat_add1. f_equal. assert (2 ^ 32 = 4294967296) by reflexivity. lia.
    + intros _. rewrite N.sub_0_r. split; [exact I|]. split; [reflexivity|]. split; [reflexivity|exact HB].
  - destruct (N.ltb_spec code 4) as [X|_]; [lia|]. unfold LZ77_MAX_SYMBOL.
    destruct (N.leb_spec code 39) as [C2|C2].
    + destruct (N.ltb_spec code 40) as [_|X]; [|lia].
      rewrite N.shiftr_div_pow2. change (2 ^ 1) with 2.
      set (extra := (code - 2) / 2) in *.
      assert (He : extra <= 18) by (subst extra; lia).
      pose proof (buf_read_agrees st 32 extra b I HB ltac:(lia)) as (A1 & A2).
      unfold ideal_read in A1, A2.
      destruct (N.ltb_spec 32 extra) as [X|_]; [lia|].
      destruct (N.leb_spec extra (slen (abs st))) as [C3|C3].
      * cbn [fst snd is_ok] in A1, A2. specialize (A2 eq_refl).
        destruct (buf_read 32 extra st) as [v st'] eqn:Eb. cbn [fst snd] in A1, A2. subst v.
        unfold agrees; cbn [fst snd is_ok]. split; [|intros _; exact A2].
        f_equal. unfold nz_sat_add1. rewrite N.shiftl_mul_pow2, land_1.
        set (v := num_of_bits (firstn (N.to_nat extra) (abs st))).
        assert (Hv : v < 2 ^ extra).
        { subst v. pose proof (num_lt (firstn (N.to_nat extra) (abs st))) as Q.
          unfold nlen in Q. rewrite firstn_length in Q. unfold slen in C3.
          replace (N.of_nat (Nat.min (N.to_nat extra) (length (abs st)))) with extra in Q by lia. exact Q. }
        pose proof (pow2_le extra 18 He) as P18. change (2 ^ 18) with 262144 in P18.
        assert (code mod 2 < 2) by (apply N.mod_lt; lia).
        assert (2 ^ 32 = 4294967296) by reflexivity.
        assert ((2 + code mod 2) * 2 ^ extra <= 4 * 262144) by nia.
        lia.
      * cbn [fst snd is_ok] in A1. destruct (buf_read 32 extra st) as [v st'] eqn:Eb. cbn [fst] in A1. subst v.
        unfold agrees; cbn [fst snd is_ok]. split; [reflexivity|discriminate].
    + destruct (N.ltb_spec code 40) as [X|_]; [lia|].
      unfold agrees; cbn [fst snd is_ok]. split; [reflexivity|discriminate].
Qed.

(* ---------------------------------------------------------------- the refilling accessors = ensure ;; buffer-only *)
Lemma after_ensure_agrees {A} st r (f : bbr -> res A * bbr) (ideal : list bool -> res A * list bool) b' :
  inv st -> r + 7 <= 8 * cap st ->
  (forall st', inv st' -> (r <= buf_bits st' \/ src_empty st') -> agrees b' st' (ideal (abs st')) (f st')) ->
  agrees b' st (ideal (abs st)) (after_ensure r f st).
Proof.
  intros I R H. unfold after_ensure.
  destruct (ensure_spec st r I) as (st' & E & I' & Cc & Ea & P). rewrite E. pose proof (P R) as Pb.
  specialize (H st' I' Pb). rewrite Ea in H. destruct H as (H1 & H2). split; [exact H1|].
  intros K. destruct (H2 K) as (Q1 & Q2 & Q3 & Q4).
  split; [exact Q1|]. split; [exact Q2|]. split; [congruence|exact Q4].
Qed.

Lemma read_agrees st w n :
  inv st -> w + 7 <= 8 * cap st -> agrees 0 st (ideal_read w n (abs st)) (read w n st).
Proof.
  intros I R. destruct (N.lt_ge_cases w n) as [C|C].
  - (* a width that does not fit the type: refused, whatever the refill did *)
    unfold read, after_ensure. destruct (ensure_spec st n I) as (st' & E & I' & Cc & Ea & P). rewrite E.
    unfold buf_read, ideal_read. rewrite br_read_invalid by exact C.
    destruct (N.ltb_spec w n) as [_|X]; [|lia]. unfold agrees; cbn [fst snd map_eof is_ok]. split; [reflexivity|discriminate].
  - unfold read. apply (after_ensure_agrees st n (buf_read w n) (ideal_read w n) 0 I ltac:(lia)).
    intros st' I' HB. pose proof (buf_read_agrees st' w n n I' HB ltac:(lia)) as H.
    now rewrite N.sub_diag in H.
Qed.

Lemma read_bit_agrees st :
  inv st -> 1 + 7 <= 8 * cap st -> agrees 0 st (ideal_read_bit (abs st)) (read_bit st).
Proof.
  intros I R. unfold read_bit. apply (after_ensure_agrees st 1 buf_read_bit ideal_read_bit 0 I R).
  intros st' I' HB. pose proof (buf_read_bit_agrees st' 1 I' HB ltac:(lia)) as H. now rewrite N.sub_diag in H.
Qed.

Lemma read_huffman_agrees st d :
  inv st -> decoder_ok d -> dc_longest d + 7 <= 8 * cap st ->
  agrees 0 st (ideal_read_code (dc_dec d) (abs st)) (read_huffman (hdec_of d) st).
Proof.
  intros I D R. unfold read_huffman. cbn [hd_longest hdec_of].
  apply (after_ensure_agrees st (dc_longest d) (buf_read_huffman (hdec_of d)) (ideal_read_code (dc_dec d)) 0 I R).
  intros st' I' HB. pose proof (buf_read_huffman_agrees st' d (dc_longest d) I' HB D ltac:(lia)) as H.
  now rewrite N.sub_diag in H.
Qed.
