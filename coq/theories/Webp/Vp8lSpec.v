(* C07 / C08, specification side: the HEADER PHASE of a WebP lossless stream (a VP8L chunk after its 5-byte header, or a
   losslessly compressed ALPH payload), as the WebP lossless bitstream specification and libwebp 1.3.1 define it:
     image-level transforms with their sub-images, colour-cache parameter, meta prefix image, all prefix-code groups
   (everything before the first pixel of the level-0 ARGB image).  Sources: the specification text; libwebp
   src/dec/vp8l_dec.c (DecodeImageStream, ReadTransform, ReadHuffmanCodes, ReadHuffmanCode, ReadHuffmanCodeLengths,
   DecodeImageData, PlaneCodeToDistance, kCodeToPlane, kCodeLengthCodeOrder), src/utils/huffman_utils.c
   (BuildHuffmanTable), src/utils/color_cache_utils.h, src/utils/bit_reader_utils.c.  Nothing is imported from the model
   (Webp/Vp8l.v, Webp/Huffman.v); what is shared is specification-side only: HuffmanSpec.v (Kraft sums, the RFC 1951
   canonical assignment, decoding by code table) and BitBufSpec.v (the byte string as bits, LSB first; the number a bit
   field denotes).

   Unlike webpsan's validator this is a DECODER: every sub-image is materialised (pixel list, colour-cache contents),
   back references copy pixels, colour-cache symbols look pixels up, the number of prefix-code groups is computed from
   the decoded meta prefix image.  Validity of a prefix code is the Kraft equality on its length vector (not a tree
   construction); symbols are decoded with the canonical code table.  Each rule is a named predicate ([rule_*]) and a
   failed rule is reported by name ([vp8l_spec_why]).

   The parameter [strict] selects the reading:
     strict = false   the reference reading (libwebp accepts exactly these header phases, see the note on
                      RSymbolOutsideAlphabet below);
     strict = true    additionally webpsan's two documented strictness choices:
                        RStrictPredictor     a pixel of a predictor sub-image whose green value is not in 0..13
                                             (libwebp uses green & 15 and also implements modes 14 and 15)
                        RStrictSingleSymbol  a prefix code given by code lengths in which exactly one symbol has a
                                             non-zero length and that length is not 1 (libwebp: zero-bit code)
   [strict_exception] = accepted by the reference reading, refused by the strict one: the stream uses one of the two.

   Divergences between libwebp and webpsan that do NOT change the verdict and are therefore expressed here the libwebp
   way: a duplicate transform is refused BEFORE its data are read (webpsan: after); codes of unused groups are read
   and validated; pixels are checked whether literal, copied or looked up.
   One construct libwebp 1.3.1 tolerates is NOT accepted here because the specification does not allow it: a simple
   code naming a symbol outside its alphabet (only possible for the 40-symbol distance alphabet).  libwebp writes
   code_lengths[symbol] = 1 into a scratch array larger than the alphabet and then looks only at the alphabet: a lone
   outside symbol leaves an empty code (refused), an outside symbol next to an inside one is silently dropped
   (accepted as a one-symbol code).  Rule RSymbolOutsideAlphabet refuses both. *)
From Coq Require Import List NArith Bool FMapPositive.
From Coq.Strings Require Import Byte.
From MS Require Import Webp.HuffmanSpec Webp.BitBufSpec.
Import ListNotations.
Open Scope N_scope.

(* ---------------------------------------------------------------- outcomes *)
Inductive rule :=
  | RTruncated               (* the data end before the header phase is complete *)
  | RDuplicateTransform      (* a transform type occurs twice *)
  | RCacheBits               (* colour cache size bits not in 1..11 *)
  | RSymbolCount             (* max_symbol larger than the alphabet *)
  | RRepeatOverrun           (* a repeat run (codes 16, 17, 18) passes the end of the alphabet *)
  | RCodeEmpty               (* a prefix code without any symbol *)
  | RCodeIncomplete          (* Kraft sum < 1 with more than one symbol *)
  | RCodeOverSubscribed      (* Kraft sum > 1 *)
  | RSymbolOutsideAlphabet   (* simple code naming a symbol >= alphabet size *)
  | RBackrefBeforeStart      (* distance larger than the number of pixels decoded so far *)
  | RBackrefPastEnd          (* length larger than the number of pixels left *)
  | RStrictPredictor         (* strict reading only *)
  | RStrictSingleSymbol.     (* strict reading only *)

Inductive sres (A : Type) := SOk (a : A) (rest : list bool) | SFail (r : rule).
Arguments SOk {A} a rest.
Arguments SFail {A} r.

Definition SM (A : Type) : Type := list bool -> sres A.
Definition sret {A} (a : A) : SM A := fun bits => SOk a bits.
Definition sfail {A} (r : rule) : SM A := fun _ => SFail r.
Definition sbind {A B} (m : SM A) (f : A -> SM B) : SM B :=
  fun bits => match m bits with SOk a rest => f a rest | SFail r => SFail r end.
(* a rule: continue when it holds, otherwise report it *)
Definition require (ok : bool) (r : rule) : SM unit := if ok then sret tt else sfail r.

Local Notation "x <- e ;; k" := (sbind e (fun x => k)) (at level 61, e at next level, right associativity).

(* ReadBits(n): the next n bits as a number, first bit least significant; the data must not end before *)
Fixpoint take_bits (n : nat) (bits : list bool) : option (N * list bool) :=
  match n with
  | O => Some (0, bits)
  | S k =>
    match bits with
    | [] => None
    | b :: r => match take_bits k r with
                | Some (v, rest) => Some ((if b then 1 else 0) + 2 * v, rest)
                | None => None
                end
    end
  end.
Definition read_bits (n : N) : SM N :=
  fun bits => match take_bits (N.to_nat n) bits with
              | Some (v, rest) => SOk v rest
              | None => SFail RTruncated
              end.
Definition read_flag : SM bool := x <- read_bits 1 ;; sret (x =? 1).

(* ---------------------------------------------------------------- the rules, one by one *)
Definition rule_transform_new (ty : N) (seen : list N) : bool := negb (existsb (N.eqb ty) seen).
Definition rule_cache_bits (b : N) : bool := (1 <=? b) && (b <=? 11).
Definition rule_symbol_count (max_symbol alphabet : N) : bool := max_symbol <=? alphabet.
Definition rule_repeat_fits (position repeat alphabet : N) : bool := position + repeat <=? alphabet.
Definition rule_symbol_in_alphabet (symbol alphabet : N) : bool := symbol <? alphabet.
Definition rule_backref_start (distance decoded : N) : bool := distance <=? decoded.
Definition rule_backref_end (length remaining : N) : bool := length <=? remaining.
Definition rule_predictor (strict : bool) (green : N) : bool := negb strict || (green <=? 13).

(* a prefix code given by its length vector (symbol i at position i, 0 = unused) *)
Definition used_count (cl : list N) : nat := length (filter nonzero cl).
Definition single_used (cl : list N) : bool := Nat.eqb (used_count cl) 1.

(* BuildHuffmanTable: no symbol => refused; one symbol (any length) => a zero-bit code; otherwise the lengths must
   satisfy the Kraft equality.  Strict reading: the single symbol must have length 1. *)
Definition code_verdict (strict : bool) (cl : list N) : option rule :=
  let L := max_len cl in
  if Nat.eqb (used_count cl) 0 then Some RCodeEmpty
  else if single_used cl then
    (if strict && negb (single_len1 cl) then Some RStrictSingleSymbol else None)
  else if kraft_at L cl <? 2 ^ L then Some RCodeIncomplete
  else if 2 ^ L <? kraft_at L cl then Some RCodeOverSubscribed
  else None.
Definition rule_code (strict : bool) (cl : list N) : SM unit :=
  match code_verdict strict cl with Some r => sfail r | None => sret tt end.

(* ---------------------------------------------------------------- decoding a symbol *)
Fixpoint first_used (i : N) (cl : list N) : N :=
  match cl with
  | [] => 0
  | l :: r => if nonzero l then i else first_used (i + 1) r
  end.

(* the code table: canonical (RFC 1951) assignment; a code with a single symbol is read with zero bits *)
Definition code_table (cl : list N) : list (N * list bool) :=
  if single_used cl then [(first_used 0 cl, [])] else rfc_table cl.

Definition read_symbol (tbl : list (N * list bool)) : SM N :=
  fun bits => match table_decode tbl bits with
              | Some (s, rest) => SOk s rest
              | None => SFail RTruncated                (* for a complete code: the bits ran out inside a symbol *)
              end.

(* ---------------------------------------------------------------- reading a prefix code (ReadHuffmanCode) *)
Definition code_length_code_order : list N := [17; 18; 0; 1; 2; 3; 4; 5; 16; 6; 7; 8; 9; 10; 11; 12; 13; 14; 15].

Fixpoint put_at (i : nat) (v : N) (l : list N) : list N :=
  match l, i with
  | [], _ => []
  | _ :: r, O => v :: r
  | x :: r, S j => x :: put_at j v r
  end.

(* the first [k] entries of the order receive a 3-bit length each, the others stay 0 *)
Fixpoint read_clc (order : list N) (k : nat) (cl : list N) : SM (list N) :=
  match k, order with
  | S k', idx :: rest => v <- read_bits 3 ;; read_clc rest k' (put_at (N.to_nat idx) v cl)
  | _, _ => sret cl
  end.

Definition nlen (cl : list N) : N := N.of_nat (length cl).

(* ReadHuffmanCodeLengths: literal lengths 0..15; 16 repeats the previous non-zero length (initially 8) 3..6 times;
   17 / 18 write 3..10 / 11..138 zeros; at most [budget] = max_symbol tokens, and never past the alphabet *)
Fixpoint read_lengths (budget : nat) (alphabet : N) (tbl : list (N * list bool)) (cl : list N) (prev : N) : SM (list N) :=
  match budget with
  | O => sret cl
  | S b =>
    if alphabet <=? nlen cl then sret cl
    else
      t <- read_symbol tbl ;;
      if t <? 16 then read_lengths b alphabet tbl (cl ++ [t]) (if t =? 0 then prev else t)
      else
        let extra := if t =? 16 then 2 else if t =? 17 then 3 else 7 in
        let offset := if t =? 18 then 11 else 3 in
        e <- read_bits extra ;;
        let repeat_count := e + offset in
        _ <- require (rule_repeat_fits (nlen cl) repeat_count alphabet) RRepeatOverrun ;;
        read_lengths b alphabet tbl (cl ++ repeat (if t =? 16 then prev else 0) (N.to_nat repeat_count)) prev
  end.

(* "simple" code: one or two symbols given directly (1 or 8 bits, then 8 bits): code_lengths[symbol] = 1 *)
Fixpoint simple_lengths_from (i : N) (k : nat) (syms : list N) : list N :=
  match k with O => [] | S k' => (if existsb (N.eqb i) syms then 1 else 0) :: simple_lengths_from (i + 1) k' syms end.
Definition simple_lengths (alphabet : N) (syms : list N) : list N := simple_lengths_from 0 (N.to_nat alphabet) syms.

Section Reading.
Variable strict : bool.

(* ReadHuffmanCode: the length vector of a validated code over [alphabet] symbols *)
Definition read_code (alphabet : N) : SM (list N) :=
  simple <- read_flag ;;
  if simple then
    two <- read_flag ;;
    first8 <- read_flag ;;
    s0 <- read_bits (if first8 then 8 else 1) ;;
    syms <- (if two then s1 <- read_bits 8 ;; sret [s0; s1] else sret [s0]) ;;
    _ <- require (forallb (fun s => rule_symbol_in_alphabet s alphabet) syms) RSymbolOutsideAlphabet ;;
    let cl := simple_lengths alphabet syms in
    _ <- rule_code strict cl ;;
    sret cl
  else
    k <- read_bits 4 ;;
    clc <- read_clc code_length_code_order (N.to_nat (k + 4)) (repeat 0 19) ;;
    _ <- rule_code strict clc ;;
    use_max <- read_flag ;;
    max_symbol <- (if use_max then
                     nb <- read_bits 3 ;;
                     v <- read_bits (2 + 2 * nb) ;;
                     sret (2 + v)
                   else sret alphabet) ;;
    _ <- require (rule_symbol_count max_symbol alphabet) RSymbolCount ;;
    (* symbols after the last one read have length 0 *)
    cl <- read_lengths (N.to_nat max_symbol) alphabet (code_table clc) [] 8 ;;
    _ <- rule_code strict cl ;;
    sret cl.

(* one group = five codes: green + length prefixes + cache symbols; red; blue; alpha; distance prefixes *)
Record codes := mkcodes { c_green : list (N * list bool); c_red : list (N * list bool); c_blue : list (N * list bool);
                          c_alpha : list (N * list bool); c_dist : list (N * list bool) }.

Definition read_codes (cache_size : N) : SM codes :=
  g <- read_code (256 + 24 + cache_size) ;;
  r <- read_code 256 ;;
  b <- read_code 256 ;;
  a <- read_code 256 ;;
  d <- read_code 40 ;;
  sret (mkcodes (code_table g) (code_table r) (code_table b) (code_table a) (code_table d)).

(* colour cache parameter: 0 = no cache, else the number of bits of the index *)
Definition read_cache_bits : SM N :=
  has <- read_flag ;;
  if has then
    b <- read_bits 4 ;;
    _ <- require (rule_cache_bits b) RCacheBits ;;
    sret b
  else sret 0.
Definition cache_size (cache_bits : N) : N := if cache_bits =? 0 then 0 else 2 ^ cache_bits.

(* ---------------------------------------------------------------- LZ77 *)
(* prefix coding of lengths and distances (specification section 5.2.2; GetCopyDistance) *)
Definition read_lz77 (prefix : N) : SM N :=
  if prefix <? 4 then sret (prefix + 1)
  else
    let extra := (prefix - 2) / 2 in
    let offset := (2 + prefix mod 2) * 2 ^ extra in
    e <- read_bits extra ;;
    sret (offset + e + 1).

(* kCodeToPlane: high nibble = y offset, low nibble = 8 - x offset *)
Definition code_to_plane : list N := [
  0x18; 0x07; 0x17; 0x19; 0x28; 0x06; 0x27; 0x29; 0x16; 0x1a;
  0x26; 0x2a; 0x38; 0x05; 0x37; 0x39; 0x15; 0x1b; 0x36; 0x3a;
  0x25; 0x2b; 0x48; 0x04; 0x47; 0x49; 0x14; 0x1c; 0x35; 0x3b;
  0x46; 0x4a; 0x24; 0x2c; 0x58; 0x45; 0x4b; 0x34; 0x3c; 0x03;
  0x57; 0x59; 0x13; 0x1d; 0x56; 0x5a; 0x23; 0x2d; 0x44; 0x4c;
  0x55; 0x5b; 0x33; 0x3d; 0x68; 0x02; 0x67; 0x69; 0x12; 0x1e;
  0x66; 0x6a; 0x22; 0x2e; 0x54; 0x5c; 0x43; 0x4d; 0x65; 0x6b;
  0x32; 0x3e; 0x78; 0x01; 0x77; 0x79; 0x53; 0x5d; 0x11; 0x1f;
  0x64; 0x6c; 0x42; 0x4e; 0x76; 0x7a; 0x21; 0x2f; 0x75; 0x7b;
  0x31; 0x3f; 0x63; 0x6d; 0x52; 0x5e; 0x00; 0x74; 0x7c; 0x41;
  0x4f; 0x10; 0x20; 0x62; 0x6e; 0x30; 0x73; 0x7d; 0x51; 0x5f;
  0x40; 0x72; 0x7e; 0x61; 0x6f; 0x50; 0x71; 0x7f; 0x60; 0x70].

(* PlaneCodeToDistance: codes 1..120 name a neighbour (xoffset, yoffset), larger codes a linear distance *)
Definition plane_code_to_distance (xsize plane_code : N) : N :=
  if 120 <? plane_code then plane_code - 120
  else
    let c := nth (N.to_nat (plane_code - 1)) code_to_plane 0 in
    let yoffset := c / 16 in
    let xoff8 := c mod 16 in                                    (* xoffset = 8 - xoff8, possibly negative *)
    let d8 := yoffset * xsize + 8 in                            (* dist + xoff8 *)
    if d8 <=? xoff8 then 1 else d8 - xoff8.                     (* dist >= 1 ? dist : 1 *)

(* ---------------------------------------------------------------- pixels *)
Definition argb (a r g b : N) : N := a * 2 ^ 24 + r * 2 ^ 16 + g * 2 ^ 8 + b.
Definition green_of (p : N) : N := (p / 2 ^ 8) mod 2 ^ 8.
(* meta prefix image: the group index of a block is (red << 8) | green = bits 8..23 *)
Definition group_of (p : N) : N := (p / 2 ^ 8) mod 2 ^ 16.

(* arrays of pixels indexed from 0 (finite maps; an index never written reads as 0) *)
Definition parray := PositiveMap.t N.
Definition pget (m : parray) (i : N) : N :=
  match PositiveMap.find (N.succ_pos i) m with Some v => v | None => 0 end.
Definition pset (m : parray) (i : N) (v : N) : parray := PositiveMap.add (N.succ_pos i) v m.
Definition pempty : parray := PositiveMap.empty N.
(* the first n entries as a list *)
Fixpoint plist_from (m : parray) (i : N) (k : nat) : list N :=
  match k with O => [] | S k' => pget m i :: plist_from m (i + 1) k' end.
Definition plist (m : parray) (n : N) : list N := plist_from m 0 (N.to_nat n).

(* colour cache: 2^bits entries, initially zero; every decoded pixel is inserted at its hash *)
Definition cache_key (cache_bits p : N) : N := ((p * 0x1e35a7bd) mod 2 ^ 32) / 2 ^ (32 - cache_bits).
Definition cache_insert (cache_bits : N) (c : parray) (p : N) : parray :=
  if cache_bits =? 0 then c else pset c (cache_key cache_bits p) p.

(* what a sub-image is for *)
Inductive purpose := PPredictor | PData | PMeta.
Definition pixel_ok (pu : purpose) (p : N) : bool :=
  match pu with PPredictor => rule_predictor strict (green_of p) | _ => true end.

(* decoder state inside one sub-image: the pixels decoded so far (d_n of them), the cache, and the back reference
   being copied (distance, pixels still to copy) *)
Record dstate := mkd { d_px : parray; d_n : N; d_cache : parray; d_dist : N; d_copy : N }.

Definition emit (cache_bits : N) (st : dstate) (p : N) (dist copy : N) : dstate :=
  mkd (pset (d_px st) (d_n st) p) (d_n st + 1) (cache_insert cache_bits (d_cache st) p) dist copy.

(* DecodeImageData, one pixel per step: [todo] pixels are still to be produced, [total] = xsize * ysize *)
Fixpoint decode_pixels (todo : nat) (pu : purpose) (cs : codes) (cache_bits xsize total : N) (st : dstate) : SM (list N) :=
  match todo with
  | O => sret (plist (d_px st) (d_n st))
  | S todo' =>
    if 0 <? d_copy st then
      (* inside a back reference: copy the pixel [d_dist] positions back *)
      let p := pget (d_px st) (d_n st - d_dist st) in
      _ <- require (pixel_ok pu p) RStrictPredictor ;;
      decode_pixels todo' pu cs cache_bits xsize total (emit cache_bits st p (d_dist st) (d_copy st - 1))
    else
      g <- read_symbol (c_green cs) ;;
      if g <? 256 then
        r <- read_symbol (c_red cs) ;;
        b <- read_symbol (c_blue cs) ;;
        a <- read_symbol (c_alpha cs) ;;
        let p := argb a r g b in
        _ <- require (pixel_ok pu p) RStrictPredictor ;;
        decode_pixels todo' pu cs cache_bits xsize total (emit cache_bits st p 0 0)
      else if g <? 256 + 24 then
        len <- read_lz77 (g - 256) ;;
        dsym <- read_symbol (c_dist cs) ;;
        dcode <- read_lz77 dsym ;;
        let dist := plane_code_to_distance xsize dcode in
        _ <- require (rule_backref_start dist (d_n st)) RBackrefBeforeStart ;;
        _ <- require (rule_backref_end len (total - d_n st)) RBackrefPastEnd ;;
        let p := pget (d_px st) (d_n st - dist) in
        _ <- require (pixel_ok pu p) RStrictPredictor ;;
        decode_pixels todo' pu cs cache_bits xsize total (emit cache_bits st p dist (len - 1))
      else
        let p := pget (d_cache st) (g - (256 + 24)) in
        _ <- require (pixel_ok pu p) RStrictPredictor ;;
        decode_pixels todo' pu cs cache_bits xsize total (emit cache_bits st p 0 0)
  end.

(* DecodeImageStream(xsize, ysize, is_level0 = 0): a sub-image, materialised *)
Definition decode_subimage (pu : purpose) (xsize ysize : N) : SM (list N) :=
  cache_bits <- read_cache_bits ;;
  cs <- read_codes (cache_size cache_bits) ;;
  decode_pixels (N.to_nat (xsize * ysize)) pu cs cache_bits xsize (xsize * ysize) (mkd pempty 0 pempty 0 0).

(* VP8LSubSampleSize *)
Definition subsample (size bits : N) : N := (size + 2 ^ bits - 1) / 2 ^ bits.

(* ---------------------------------------------------------------- level 0 *)
(* ReadTransform, as often as a 1 bit announces one; at most four because types may not repeat.
   Returns the width of the image after colour indexing. *)
Fixpoint read_transforms (left : nat) (xsize ysize : N) (seen : list N) : SM N :=
  more <- read_flag ;;
  if negb more then sret xsize
  else
    match left with
    | O => sfail RDuplicateTransform                         (* all four types are used already *)
    | S left' =>
      ty <- read_bits 2 ;;
      _ <- require (rule_transform_new ty seen) RDuplicateTransform ;;
      if ty <? 2 then                                        (* 0 predictor, 1 cross-colour *)
        b <- read_bits 3 ;;
        let bits := b + 2 in
        _ <- decode_subimage (if ty =? 0 then PPredictor else PData) (subsample xsize bits) (subsample ysize bits) ;;
        read_transforms left' xsize ysize (ty :: seen)
      else if ty =? 2 then                                   (* subtract green *)
        read_transforms left' xsize ysize (ty :: seen)
      else                                                   (* colour indexing *)
        n <- read_bits 8 ;;
        let num_colors := n + 1 in
        let bits := if 16 <? num_colors then 0 else if 4 <? num_colors then 1 else if 2 <? num_colors then 2 else 3 in
        _ <- decode_subimage PData num_colors 1 ;;
        read_transforms left' (subsample xsize bits) ysize (ty :: seen)
    end.

(* ReadHuffmanCodes at level 0: optional meta prefix image; the number of groups is its largest index + 1;
   every group's five codes are read and validated *)
Fixpoint read_groups (n : nat) (cache_sz : N) : SM unit :=
  match n with
  | O => sret tt
  | S n' => _ <- read_codes cache_sz ;; read_groups n' cache_sz
  end.

Definition max_group (img : list N) : N := fold_right (fun p m => N.max (group_of p) m) 0 img.

(* the header phase of a lossless image of [w] x [h] pixels *)
Definition decode_header (w h : N) : SM unit :=
  xsize <- read_transforms 4 w h [] ;;
  cache_bits <- read_cache_bits ;;
  meta <- read_flag ;;
  groups <- (if meta then
               b <- read_bits 3 ;;
               let bits := b + 2 in
               img <- decode_subimage PMeta (subsample xsize bits) (subsample h bits) ;;
               sret (max_group img + 1)
             else sret 1) ;;
  read_groups (N.to_nat groups) (cache_size cache_bits).

End Reading.

(* ---------------------------------------------------------------- what the theorems and the oracles use *)
(* None = the header phase decodes; Some r = the first rule that fails *)
Definition vp8l_spec_why (strict : bool) (w h : N) (body : list byte) : option rule :=
  match decode_header strict w h (bits_of_bytes body) with
  | SOk _ _ => None
  | SFail r => Some r
  end.

(* the reference reading *)
Definition vp8l_spec (w h : N) (body : list byte) : bool :=
  match vp8l_spec_why false w h body with None => true | Some _ => false end.
(* the reference reading plus webpsan's two documented strictness choices *)
Definition vp8l_spec_strict (w h : N) (body : list byte) : bool :=
  match vp8l_spec_why true w h body with None => true | Some _ => false end.
(* the stream decodes but uses one of the two documented strictness cases *)
Definition strict_exception (w h : N) (body : list byte) : bool :=
  vp8l_spec w h body && negb (vp8l_spec_strict w h body).
