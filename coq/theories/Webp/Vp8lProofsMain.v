(* C07 / C08 proofs, part 4: sub-images, transforms, the meta prefix image, the groups, LosslessImage::read as a whole:
   the model run simulates the strict reading of the specification. *)
From Coq Require Import List NArith ZArith PeanoNat Bool Lia ZifyBool ZifyNat ZifyN FMapPositive.
From Coq.Strings Require Import Byte.
From MS Require Import Base.Bytes Base.Outcome Webp.Huffman Webp.HuffmanSpec Webp.HuffmanProofs
  Webp.BitBufSpec Webp.Vp8l Webp.Vp8lSpec Webp.Vp8lProofs Webp.Vp8lProofsCodes Webp.Vp8lProofsPixels.
Import ListNotations.
Open Scope N_scope.
Arguments N.add : simpl never.
Arguments N.sub : simpl never.
Arguments N.mul : simpl never.
Arguments N.div : simpl never.
Arguments N.modulo : simpl never.
Arguments N.pow : simpl never.
Arguments N.eqb : simpl never.
Arguments N.ltb : simpl never.
Arguments N.leb : simpl never.

Definition role_purpose (ro : role) (pu : purpose) : Prop :=
  match ro, pu with
  | RPredictor, PPredictor | RPlain, PData | RMeta, PMeta => True
  | _, _ => False
  end.

(* ---------------------------------------------------------------- one sub-image *)
Lemma sim_entropy_image ro pu w h bits : role_purpose ro pu -> w < 2 ^ 29 -> w * h < 2 ^ 32 ->
  sim (FinalR pu) (read_entropy_image ro w h bits) (decode_subimage true pu w h bits).
Proof.
  intros Hrole Hw Hwh. unfold read_entropy_image, decode_subimage.
  eapply sim_bind; [apply sim_read_color_cache|]. intros cache_len cb b1 (Hcl & Hc2048 & Hcb).
  eapply sim_bind; [rewrite <- Hcl; apply sim_read_group; exact Hc2048|]. intros g cs b2 HG.
  unfold sat_mul_u32. rewrite N.min_l by lia.
  apply (sim_pixel_loop pu ro Hrole g cs cb cache_len w (w * h) HG Hcl Hw).
  - lia.
  - lia.
  - reflexivity.
  - reflexivity.
  - split; intros i; cbn [d_px d_cache]; rewrite pget_empty; apply (good_0 pu ro Hrole cb cache_len w Hcl Hw).
  - unfold Att. destruct pu; auto.
Qed.

(* ---------------------------------------------------------------- block arithmetic *)
Lemma len_in_blocks_subsample len b : 0 < len -> len_in_blocks len (2 ^ b) = Ok (subsample len b).
Proof.
  intros Hl. unfold len_in_blocks, subsample. set (bs := 2 ^ b).
  assert (Hbs : 0 < bs) by (unfold bs; apply N.neq_0_lt_0, N.pow_nonzero; lia).
  pose proof (N.div_mod len bs ltac:(lia)) as DM. pose proof (N.mod_lt len bs ltac:(lia)) as ML.
  set (q := len / bs) in *. set (r := len mod bs) in *.
  assert (E : (len + bs - 1) / bs = if r =? 0 then q else q + 1).
  { destruct (N.eqb_spec r 0) as [R0|R0].
    - symmetry. apply (N.div_unique _ _ _ (bs - 1)); [lia|]. nia.
    - symmetry. apply (N.div_unique _ _ _ (r - 1)); [lia|]. nia. }
  rewrite E. destruct (N.eqb_spec r 0) as [R0|R0].
  - destruct (N.eqb_spec q 0) as [Q0|Q0]; [exfalso; nia|reflexivity].
  - replace (q + 1 =? 0) with false by (symmetry; apply N.eqb_neq; lia). reflexivity.
Qed.

Lemma subsample_bounds len b : 0 < len -> 0 < subsample len b <= len.
Proof.
  intros Hl. unfold subsample. set (bs := 2 ^ b).
  assert (Hbs : 0 < bs) by (unfold bs; apply N.neq_0_lt_0, N.pow_nonzero; lia).
  split.
  - apply N.div_str_pos. lia.
  - apply N.div_le_upper_bound; [lia|]. nia.
Qed.

(* ---------------------------------------------------------------- one transform *)
Definition spec_transform (ty xs ys : N) : SM N :=
  if ty <? 2 then
    sbind (read_bits 3) (fun b =>
    sbind (decode_subimage true (if ty =? 0 then PPredictor else PData) (subsample xs (b + 2)) (subsample ys (b + 2))) (fun _ =>
    sret xs))
  else if ty =? 2 then sret xs
  else
    sbind (read_bits 8) (fun n =>
    sbind (decode_subimage true PData (n + 1) 1) (fun _ =>
    sret (subsample xs (if 16 <? n + 1 then 0 else if 4 <? n + 1 then 1 else if 2 <? n + 1 then 2 else 3)))).

Definition dims_ok (w h : N) : Prop := 0 < w <= 2 ^ 24 /\ 0 < h <= 2 ^ 24 /\ w * h < 2 ^ 32.

Lemma sim_read_transform ty tw h bits : ty < 4 -> dims_ok tw h ->
  sim (fun a b => a = b /\ 0 < a <= tw) (read_transform ty tw h bits) (spec_transform ty tw h bits).
Proof.
  intros Hty (Hw & Hh & Hwh). unfold read_transform, spec_transform.
  assert (P24 : 2 ^ 24 < 2 ^ 29) by (apply N.pow_lt_mono_r; lia).
  destruct (N.ltb_spec ty 2) as [T01|T23].
  - replace ((ty =? 0) || (ty =? 1)) with true by (destruct (N.eqb_spec ty 0); destruct (N.eqb_spec ty 1); cbn; lia).
    eapply sim_bind; [apply sim_rd; lia|]. intros order ? b1 [<- Ho].
    replace (2 + order) with (order + 2) by lia.
    pose proof (subsample_bounds tw (order + 2) ltac:(lia)) as Bw. pose proof (subsample_bounds h (order + 2) ltac:(lia)) as Bh.
    unfold mbind at 1. unfold mlift at 1. rewrite (len_in_blocks_subsample tw (order + 2)) by lia. cbv beta match.
    unfold mbind at 1. unfold mlift at 1. rewrite (len_in_blocks_subsample h (order + 2)) by lia. cbv beta match.
    eapply sim_bind.
    { apply sim_entropy_image with (pu := if ty =? 0 then PPredictor else PData).
      - destruct (ty =? 0); exact I.
      - lia.
      - assert (subsample tw (order + 2) * subsample h (order + 2) <= tw * h) by (apply N.mul_le_mono; lia). lia. }
    intros ? ? b2 _. apply sim_ret. split; [reflexivity|lia].
  - replace ((ty =? 0) || (ty =? 1)) with false by (destruct (N.eqb_spec ty 0); destruct (N.eqb_spec ty 1); cbn; lia).
    destruct (N.eqb_spec ty 2) as [T2|T3].
    + apply sim_ret. split; [reflexivity|lia].
    + replace (ty =? 3) with true by (symmetry; apply N.eqb_eq; lia).
      eapply sim_bind; [apply sim_rd; lia|]. intros n ? b1 [<- Hn]. change (2 ^ 8) with 256 in Hn.
      replace (N.min (1 + n) (2 ^ 32 - 1)) with (n + 1) by (change (2 ^ 32) with 4294967296; lia).
      eapply sim_bind.
      { apply sim_entropy_image with (pu := PData); [exact I| |].
        - assert (2 ^ 8 < 2 ^ 29) by (apply N.pow_lt_mono_r; lia). change (2 ^ 8) with 256 in H. lia.
        - change (2 ^ 32) with 4294967296. lia. }
      intros ? ? b2 _.
      set (nc := n + 1). unfold color_index_block.
      assert (E : (if nc <=? 2 then 8 else if nc <=? 4 then 4 else if nc <=? 16 then 2 else 1) =
                  2 ^ (if 16 <? nc then 0 else if 4 <? nc then 1 else if 2 <? nc then 2 else 3)).
      { destruct (N.leb_spec nc 2); destruct (N.ltb_spec 16 nc); destruct (N.ltb_spec 4 nc); destruct (N.ltb_spec 2 nc);
          destruct (N.leb_spec nc 4); destruct (N.leb_spec nc 16); try lia; reflexivity. }
      rewrite E. unfold mlift. rewrite len_in_blocks_subsample by lia. cbn. eexists. split; [reflexivity|].
      split; [reflexivity|]. apply subsample_bounds. lia.
Qed.

Lemma sbind_ext {A B} (m : SM A) (f g : A -> SM B) bits :
  (forall a rest, f a rest = g a rest) -> sbind m f bits = sbind m g bits.
Proof. intros H. unfold sbind. destruct (m bits) as [a rest|r]; [apply H|reflexivity]. Qed.

(* the specification's transform loop, one round spelled out with [spec_transform] *)
Lemma read_transforms_unfold left xs ys seen bits :
  read_transforms true (S left) xs ys seen bits =
  sbind read_flag (fun more =>
    if negb more then sret xs
    else sbind (read_bits 2) (fun ty =>
         sbind (require (rule_transform_new ty seen) RDuplicateTransform) (fun _ =>
         sbind (spec_transform ty xs ys) (fun xs' => read_transforms true left xs' ys (ty :: seen))))) bits.
Proof.
  cbn [read_transforms]. apply sbind_ext. intros more b1. destruct more; cbn [negb]; [|reflexivity].
  apply sbind_ext. intros ty b2. apply sbind_ext. intros [] b3.
  unfold spec_transform. destruct (ty <? 2).
  - rewrite !sbind_assoc. apply sbind_ext. intros b b4. rewrite !sbind_assoc. apply sbind_ext. intros img b5. reflexivity.
  - destruct (ty =? 2); [reflexivity|].
    rewrite !sbind_assoc. apply sbind_ext. intros n b4. rewrite !sbind_assoc. apply sbind_ext. intros img b5. reflexivity.
Qed.

Lemma read_transforms_0 xs ys seen bits :
  read_transforms true 0 xs ys seen bits =
  sbind read_flag (fun more => if negb more then sret xs else sfail RDuplicateTransform) bits.
Proof. reflexivity. Qed.

(* ---------------------------------------------------------------- the transform loop *)
Definition seen_rel (sn : seen) (l : list N) : Prop := forall ty, ty < 4 -> seen_get sn ty = existsb (N.eqb ty) l.

Lemma seen_rel_set sn l ty : ty < 4 -> seen_rel sn l -> seen_rel (seen_set sn ty) (ty :: l).
Proof.
  intros Hty H t Ht. specialize (H t Ht). destruct sn as [[[a b] c] d]. cbn [existsb].
  unfold seen_get, seen_set in *.
  assert (C : ty = 0 \/ ty = 1 \/ ty = 2 \/ ty = 3) by lia. assert (C' : t = 0 \/ t = 1 \/ t = 2 \/ t = 3) by lia.
  destruct C as [-> | [-> | [-> | ->]]]; destruct C' as [-> | [-> | [-> | ->]]]; cbn in *; try rewrite <- H; reflexivity.
Qed.

Lemma all_seen (l : list N) : NoDup l -> (forall x, In x l -> x < 4) -> length l = 4%nat -> forall ty, ty < 4 -> existsb (N.eqb ty) l = true.
Proof.
  intros ND Hlt Hlen ty Hty. apply existsb_exists. exists ty. split; [|apply N.eqb_refl].
  assert (I : incl [0; 1; 2; 3] l).
  { apply NoDup_length_incl; [exact ND|cbn; lia|]. intros x Hx. specialize (Hlt x Hx). cbn. lia. }
  apply I. cbn. lia.
Qed.

Lemma sim_transform_loop h : forall fuel left tw sn seen bits,
  dims_ok tw h -> seen_rel sn seen -> NoDup seen -> (forall x, In x seen -> x < 4) -> (length seen + left = 4)%nat ->
  sim (fun a b => a = b /\ 0 < a <= tw) (transform_loop fuel tw h sn bits) (read_transforms true left tw h seen bits).
Proof.
  induction fuel as [|fuel IH]; intros left tw sn seen bits HD HS ND Hlt Hlen; cbn [transform_loop]; [exact I|].
  destruct left as [|left].
  - rewrite read_transforms_0.
    eapply sim_bind; [apply sim_rd_bit|]. intros more ? b1 <-. destruct more; cbn [negb].
    + (* a fifth transform: whatever it is, it is a duplicate; the model reads it first *)
      destruct (rd_cases 8 2 b1 ltac:(lia)) as [(ty & b2 & Em & _ & Hty & _)|[Em _]]; unfold mbind at 1; rewrite Em; [|cbn; eexists; reflexivity].
      change (2 ^ 2) with 4 in Hty.
      pose proof (sim_clean _ _ _ (sim_read_transform ty tw h b2 Hty HD)) as CL.
      unfold mbind. destruct (read_transform ty tw h b2) as [[tw' b3]|e|e|p|]; cbn in CL; try contradiction; cbn; try (eexists; reflexivity); try exact I.
      rewrite (HS ty Hty), (all_seen seen ND Hlt ltac:(lia) ty Hty). cbn. eexists. reflexivity.
    + apply sim_ret. split; [reflexivity|]. destruct HD as (? & _). lia.
  - rewrite read_transforms_unfold.
    eapply sim_bind; [apply sim_rd_bit|]. intros more ? b1 <-. destruct more; cbn [negb].
    + destruct (rd_cases 8 2 b1 ltac:(lia)) as [(ty & b2 & Em & Es & Hty & _)|[Em Es]];
        unfold mbind at 1; unfold sbind at 1; rewrite Em, Es; [|cbn; eexists; reflexivity].
      change (2 ^ 2) with 4 in Hty. cbv beta match.
      unfold require, rule_transform_new. rewrite <- (HS ty Hty).
      destruct (seen_get sn ty) eqn:Seen; cbn [negb].
      * (* duplicate: the specification refuses at once, the model after reading the transform *)
        pose proof (sim_clean _ _ _ (sim_read_transform ty tw h b2 Hty HD)) as CL.
        unfold mbind. destruct (read_transform ty tw h b2) as [[tw' b3]|e|e|p|]; cbn in CL; try contradiction; cbn; try (eexists; reflexivity); exact I.
      * rewrite sbind_ret.
        eapply sim_bind; [apply sim_read_transform; assumption|]. intros tw' ? b3 [<- Htw'].
        eapply sim_weaken; [|apply IH].
        -- intros a b [-> Ha]. split; [reflexivity|lia].
        -- destruct HD as (Hw & Hh & Hwh). split; [lia|]. split; [lia|]. assert (tw' * h <= tw * h) by (apply N.mul_le_mono_r; lia). lia.
        -- apply seen_rel_set; assumption.
        -- constructor; [|exact ND]. intros Hin. rewrite (HS ty Hty) in Seen.
           assert (existsb (N.eqb ty) seen = true) by (apply existsb_exists; exists ty; split; [exact Hin|apply N.eqb_refl]). congruence.
        -- intros x [<-|Hx]; [exact Hty|apply Hlt; exact Hx].
        -- cbn [length]. lia.
    + apply sim_ret. split; [reflexivity|]. destruct HD as (? & _). lia.
Qed.

(* ---------------------------------------------------------------- groups, meta prefix image, the whole header phase *)
Lemma sim_read_groups cache_len : cache_len <= 2048 -> forall n bits,
  sim (fun _ _ => True) (Vp8l.read_groups n cache_len bits) (Vp8lSpec.read_groups true n cache_len bits).
Proof.
  intros Hc. induction n as [|n IH]; intros bits; cbn [Vp8l.read_groups Vp8lSpec.read_groups].
  - apply sim_ret. exact I.
  - eapply sim_bind; [apply sim_read_group; exact Hc|]. intros g cs b1 _. apply IH.
Qed.

Lemma sim_lossless_image w h bits : dims_ok w h ->
  sim (fun _ _ => True) (lossless_image w h bits) (decode_header true w h bits).
Proof.
  intros HD. unfold lossless_image, decode_header, transform_fuel.
  eapply sim_bind.
  { apply sim_transform_loop; [exact HD| |constructor| |reflexivity].
    - intros ty Hty. assert (C : ty = 0 \/ ty = 1 \/ ty = 2 \/ ty = 3) by lia. destruct C as [-> | [-> | [-> | ->]]]; reflexivity.
    - intros x []. }
  intros tw ? b1 [<- Htw]. destruct HD as (Hw & Hh & Hwh).
  assert (P24 : 2 ^ 24 < 2 ^ 29) by (apply N.pow_lt_mono_r; lia).
  unfold read_spatial.
  eapply sim_bind; [apply sim_read_color_cache|]. intros cache_len cb b2 (Hcl & Hc2048 & Hcb).
  unfold read_meta. rewrite mbind_assoc.
  eapply sim_bind; [apply sim_rd_bit|]. intros meta ? b3 <-. destruct meta.
  - rewrite !mbind_assoc. rewrite !sbind_assoc.
    eapply sim_bind; [apply sim_rd; lia|]. intros order ? b4 [<- Ho].
    replace (2 + order) with (order + 2) by lia.
    pose proof (subsample_bounds tw (order + 2) ltac:(lia)) as Bw. pose proof (subsample_bounds h (order + 2) ltac:(lia)) as Bh.
    rewrite !mbind_assoc.
    unfold mbind at 1. unfold mlift at 1. rewrite (len_in_blocks_subsample tw (order + 2)) by lia. cbv beta match.
    rewrite !mbind_assoc.
    unfold mbind at 1. unfold mlift at 1. rewrite (len_in_blocks_subsample h (order + 2)) by lia. cbv beta match.
    rewrite !sbind_assoc.
    eapply sim_bind.
    { apply sim_entropy_image with (pu := PMeta); [exact I|lia|].
      assert (subsample tw (order + 2) * subsample h (order + 2) <= tw * h) by (apply N.mul_le_mono; lia).
      assert (tw * h <= w * h) by (apply N.mul_le_mono_r; lia). lia. }
    intros mg img b5 HF. unfold FinalR in HF. rewrite sbind_ret.
    replace (N.to_nat (max_group img + 1)) with (S (N.to_nat mg)) by lia.
    rewrite <- Hcl. apply sim_read_groups. exact Hc2048.
  - rewrite mbind_ret, sbind_ret. change (N.to_nat 1) with 1%nat. change (S (N.to_nat 0)) with 1%nat.
    rewrite <- Hcl. apply sim_read_groups. exact Hc2048.
Qed.
