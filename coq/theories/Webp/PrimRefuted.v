(* Finding D3, kept as a machine-checked record: with the accessor table of the snapshot -- `u16 => (get_u16, put_u16_le)`,
   i.e. big-endian getter, little-endian putter -- the u16 primitive and the ANIM chunk do not round-trip.
   [d3_tbl] is that table written out; it does not depend on Gen/WebpPrimGen.v, so this file compiles before and after
   the repair.  (When Gen/WebpPrimGen.v says u16_get_le = false, [cur] equals [d3_tbl] on these fields and
   Props/C17.v does not compile: the full statement is false of the code.) *)
From Coq Require Import List NArith ZArith Bool.
From Coq.Strings Require Import Byte.
From MS Require Import Base.Bytes Base.Outcome Webp.Prim Webp.Chunks.
Import ListNotations.
Open Scope N_scope.

Definition d3_tbl : tbl := {|
  g16 := false; p16 := true; g32 := true; p32 := true; g64 := true; p64 := true;
  gi16 := true; pi16 := true; gi32 := true; pi32 := true; gi64 := true; pi64 := true;
  m_vp8x := 62; m_anmf := 3; m_alph := 29 |}.

(* value direction: put 1 writes 01 00, which reads back as 256 *)
Lemma u16_be_get_put_parse_refuted :
  exists v : N, prim_wf_t d3_tbl PU16 (VN v) = true /\
    prim_parse_t d3_tbl PU16 (prim_put_t d3_tbl PU16 (VN v)) <> Ok (VN v, []).
Proof. exists 1. split; [reflexivity|]. vm_compute. discriminate. Qed.

(* byte direction, through ANIM: 01 02 03 04 05 06 parses (loop_count = 0x0506) and re-serialises as 01 02 03 04 06 05 *)
Lemma u16_be_get_roundtrip_refuted :
  exists bs : bytes, length bs = chunk_len CAnim /\
    match chunk_parse_t d3_tbl CAnim bs with
    | Ok (vs, _) => chunk_put_t d3_tbl CAnim vs <> bs
    | _ => False
    end.
Proof. exists [x01; x02; x03; x04; x05; x06]. split; [reflexivity|]. vm_compute. discriminate. Qed.

Example d3_witness_bytes :
  match chunk_parse_t d3_tbl CAnim [x01; x02; x03; x04; x05; x06] with
  | Ok (vs, _) => chunk_put_t d3_tbl CAnim vs = [x01; x02; x03; x04; x06; x05]
  | _ => False
  end.
Proof. vm_compute. reflexivity. Qed.
