(* C13, WebP half: every I/O site of the webpsan container programme propagates a failure of the underlying reader:
   Io e, or TruncatedChunk when e = UnexpectedEof (every read_exact / skip of the chunk reader is a map_eof site;
   fill_buf, stream_position, stream_len and the plain reads of the bit buffer are `?` sites). *)
From Coq Require Import List NArith Bool Lia.
From Coq.Strings Require Import Byte.
From MS Require Import Base.Bytes Base.Outcome Base.Prog Base.ProgSpec Base.ProgProofs Webp.Prim Webp.Chunks Webp.Container.
Import ListNotations.
Open Scope N_scope.

Definition TC : perr -> Prop := eq TruncatedChunk.

Section F.
Variable lossless : N -> N -> bytes -> res unit.
Variable allow : bool.

Lemma p_io_err {A} eof e : propagating TC (@io_err A eof e).
Proof. apply propagating_io_err. Qed.

Lemma p_src_read_exact n outer : propagating TC (src_read_exact n TRUNC outer).
Proof. unfold src_read_exact, TRUNC. propagating_walk; apply p_io_err. Qed.
Lemma p_src_skip n outer : propagating TC (src_skip n TRUNC outer).
Proof. unfold src_skip, TRUNC. propagating_walk; apply p_io_err. Qed.
Lemma p_src_nonempty outer : propagating TC (src_nonempty outer).
Proof. unfold src_nonempty. propagating_walk. Qed.
Lemma p_src_read_upto n outer : propagating TC (src_read_upto n outer).
Proof. unfold src_read_upto. propagating_walk. Qed.

(* like [propagating_walk], but lemmas about named sub-programmes (in the context or below) are tried BEFORE the bind
   rule, so that [apply propagating_pbind] never unfolds a named sub-programme by conversion *)
Ltac pstep :=
  first
    [ apply P_ret
    | apply propagating_lift
    | apply p_src_read_exact | apply p_src_skip | apply p_src_nonempty | apply p_src_read_upto | apply p_io_err
    | match goal with H : _ |- propagating _ _ => solve [apply H] end
    | apply propagating_fill_empty
    | apply propagating_pos
    | apply propagating_len
    | apply propagating_alloc
    | apply propagating_read_upto
    | apply propagating_read_exact; eof_site
    | apply propagating_skip; eof_site
    | apply propagating_pbind; [|intros]
    | match goal with
      | |- propagating _ (if ?b then _ else _) => destruct b
      | |- propagating _ (match ?x with _ => _ end) => destruct x
      | |- propagating _ (let _ := _ in _) => cbv zeta
      end ].
Ltac pw := repeat pstep.

Lemma p_read_padding l : propagating TC (read_padding l).
Proof. unfold read_padding. pw. Qed.
Lemma p_has_remaining l : propagating TC (has_remaining l).
Proof. unfold has_remaining. pose proof p_read_padding. pw. Qed.
Lemma p_read_any_header l : propagating TC (read_any_header l).
Proof. unfold read_any_header. pose proof p_read_padding. pose proof p_has_remaining. pw. Qed.
Lemma p_read_header name l : propagating TC (read_header name l).
Proof. unfold read_header. pose proof p_read_padding. pose proof p_has_remaining. pose proof p_read_any_header. pw. Qed.
Lemma p_peek_header l : propagating TC (peek_header l).
Proof. unfold peek_header. pose proof p_read_padding. pose proof p_has_remaining. pw. Qed.
Lemma p_read_data n l : propagating TC (read_data n l).
Proof. unfold read_data. pose proof p_read_padding. pw. Qed.
Lemma p_skip_data l : propagating TC (skip_data l).
Proof. unfold skip_data. pose proof p_read_padding. pw. Qed.
Lemma p_read_body l : propagating TC (read_body l).
Proof. unfold read_body. pw. Qed.

Ltac pc :=
  repeat first
    [ apply p_read_padding | apply p_has_remaining | apply p_read_any_header | apply p_read_header | apply p_peek_header
    | apply p_read_data | apply p_skip_data | apply p_read_body
    | pstep ].

Lemma p_do_vp8l dims l : propagating TC (do_vp8l lossless dims l).
Proof. unfold do_vp8l. pc. Qed.
Lemma p_do_alph w h l : propagating TC (do_alph lossless w h l).
Proof. unfold do_alph. pc. Qed.
Lemma p_skip_named name l : propagating TC (skip_named name l).
Proof. unfold skip_named. pc. Qed.
Lemma p_sanitize_still x l : propagating TC (sanitize_still lossless x l).
Proof. unfold sanitize_still. pose proof p_do_alph. pose proof p_do_vp8l. pc. Qed.
Lemma p_frame_tail : forall fuel l, propagating TC (frame_tail allow fuel l).
Proof. induction fuel as [|fuel IH]; intros l; cbn [frame_tail]; [constructor|]. pc. Qed.
Lemma p_file_tail : forall fuel l, propagating TC (file_tail allow fuel l).
Proof. induction fuel as [|fuel IH]; intros l; cbn [file_tail]; [constructor|]. pc. Qed.
Lemma p_one_frame fuel x l : propagating TC (one_frame lossless allow fuel x l).
Proof. unfold one_frame. pose proof p_do_alph. pose proof p_do_vp8l. pose proof p_frame_tail. pc. Qed.
Lemma p_frames x : forall fuel l, propagating TC (frames lossless allow fuel x l).
Proof. induction fuel as [|fuel IH]; intros l; cbn [frames]; [constructor|]. pose proof p_one_frame. pc. Qed.
Lemma p_animated fuel x l : propagating TC (sanitize_animated lossless allow fuel x l).
Proof. unfold sanitize_animated. pose proof p_frames. pc. Qed.
Lemma p_extended fuel x l : propagating TC (sanitize_extended lossless allow fuel x l).
Proof. unfold sanitize_extended. pose proof p_skip_named. pose proof p_animated. pose proof p_sanitize_still. pc. Qed.

Theorem propagating_webp fuel : propagating TC (webp_prog lossless allow fuel).
Proof.
  unfold webp_prog. pose proof p_do_vp8l. pose proof p_extended. pose proof p_file_tail. pc.
Qed.
End F.

Theorem fault_propagates_webp :
  forall (lossless : N -> N -> bytes -> res unit) (allow : bool) (fuel : nat) (R : reader) (s : rst R) (k : nat) (e : ioerr),
  let p := webp_prog lossless allow fuel in
  ((op_count R p s <= k)%nat /\ run_fault R p s k e = run R p s)
  \/ ((k < op_count R p s)%nat /\
      (fst (run_fault R p s k e) = EIo e \/
       (e = EUnexpectedEof /\ fst (run_fault R p s k e) = EParse TruncatedChunk))).
Proof.
  intros lossless allow fuel R s k e p.
  destruct (run_fault_spec TC p (propagating_webp lossless allow fuel) R s k e) as [H | (Hk & [H | (He & pe & <- & H)])]; auto.
Qed.

Theorem reader_error_propagates_webp :
  forall (lossless : N -> N -> bytes -> res unit) (allow : bool) (fuel : nat) (R : reader) (s : rst R) (o : op) (e : ioerr),
  let p := webp_prog lossless allow fuel in
  first_err R p s = Some (o, e) ->
  fst (run R p s) = EIo e \/ (e = EUnexpectedEof /\ fst (run R p s) = EParse TruncatedChunk).
Proof.
  intros lossless allow fuel R s o e p H.
  destruct (run_err_spec TC p (propagating_webp lossless allow fuel) R s o e H) as [H' | (He & pe & <- & H')]; auto.
Qed.
