(* C06: bridges between the model's byte-level parsers (Container.v, Chunks.v, Prim.v) and the quantities the
   grammar (Grammar.v) is written with, and the fuel-free reading of Grammar.chunks as an inductive tiling. *)
From Coq Require Import List NArith Bool Lia ZifyBool ZifyNat ZifyN.
From Coq.Strings Require Import Byte.
From MS Require Import Base.Bytes Base.Outcome Base.Prog Webp.Prim Webp.Chunks Webp.PrimProofs Webp.Container
  Webp.Grammar Webp.ContainerProofs.
Import ListNotations.
Open Scope N_scope.
Arguments N.add : simpl never.
Arguments N.sub : simpl never.
Arguments N.mul : simpl never.
Arguments N.div : simpl never.
Arguments N.modulo : simpl never.
Arguments N.pow : simpl never.
Arguments N.eqb : simpl never.
Arguments N.ltb : simpl never.
Arguments N.leb : simpl never.
Arguments N.min : simpl never.
Arguments N.max : simpl never.
Arguments N.odd : simpl never.
Arguments N.land : simpl never.
Arguments N.testbit : simpl never.

Lemma teq_true a b : teq a b = true <-> a = b.
Proof. unfold teq. destruct (list_eq_dec Byte.byte_eq_dec a b); split; congruence. Qed.
Lemma teq_false a b : teq a b = false <-> a <> b.
Proof. unfold teq. destruct (list_eq_dec Byte.byte_eq_dec a b); split; congruence. Qed.
Lemma geq_teq a b : geq a b = teq a b.
Proof. reflexivity. Qed.

Lemma known_model n : known n = known_after_image n || teq n ANMF.
Proof.
  unfold known, known_after_image. change geq with teq.
  change gALPH with ALPH. change gANIM with ANIM. change gANMF with ANMF. change gEXIF with EXIF.
  change gICCP with ICCP. change gVP8 with VP8. change gVP8L with VP8L. change gVP8X with VP8X. change gXMP with XMP.
  destruct (teq n ALPH), (teq n ANIM), (teq n ANMF), (teq n EXIF), (teq n ICCP), (teq n VP8), (teq n VP8L),
    (teq n VP8X), (teq n XMP); reflexivity.
Qed.

(* flag bits *)
Lemma has_testbit f k : has f (2 ^ k) = N.testbit f k.
Proof.
  unfold has. destruct (N.testbit f k) eqn:E.
  - destruct (N.land f (2 ^ k) =? 0) eqn:Z; [|reflexivity]. exfalso.
    apply N.eqb_eq in Z. assert (H : N.testbit (N.land f (2 ^ k)) k = false) by (rewrite Z; apply N.bits_0).
    rewrite N.land_spec, E, N.pow2_bits_true in H. discriminate.
  - replace (N.land f (2 ^ k)) with 0; [reflexivity|]. symmetry. apply N.bits_inj_0. intros m.
    rewrite N.land_spec, N.pow2_bits_eqb. destruct (N.eqb_spec k m) as [->|]; [rewrite E|]; [reflexivity|].
    apply andb_false_r.
Qed.
Lemma has_odd f : has f 1 = N.odd f.
Proof. change 1 with (2 ^ 0). rewrite has_testbit. apply N.bit0_odd. Qed.

Section T.
Variable inp : input.

(* ------------------------------------------------------------------ pieces of the input *)
Lemma iread_app p : forall a b, iread inp p (a + b) = iread inp p a ++ iread inp (p + N.of_nat a) b.
Proof.
  intros a. revert p. induction a as [|a IH]; intros p b.
  - cbn [Nat.add iread app]. f_equal. lia.
  - cbn [Nat.add iread app]. f_equal. rewrite IH. do 2 f_equal. lia.
Qed.
Lemma iread_firstn p n k : (k <= n)%nat -> firstn k (iread inp p n) = iread inp p k.
Proof.
  intros H. replace n with (k + (n - k))%nat by lia. rewrite iread_app.
  apply firstn_app_len. apply length_iread'.
Qed.
Lemma iread_skipn p n k : (k <= n)%nat -> skipn k (iread inp p n) = iread inp (p + N.of_nat k) (n - k).
Proof.
  intros H. replace n with (k + (n - k))%nat at 1 by lia. rewrite iread_app.
  apply skipn_app_len. apply length_iread'.
Qed.
Lemma get_iread off n : get inp off n = iread inp off (N.to_nat n).
Proof. reflexivity. Qed.
Lemma le1 p : le inp p 1 = b2n (iget inp p).
Proof. unfold le, get. change (N.to_nat 1) with 1%nat. cbn [iread le2n]. lia. Qed.

Lemma hdr_name o : ch_name (hdr_at inp o) = get inp o 4.
Proof. unfold hdr_at, parse_chdr. cbn [ch_name]. rewrite iread_firstn by lia. reflexivity. Qed.
Lemma hdr_len o : ch_len (hdr_at inp o) = le inp (o + 4) 4.
Proof.
  unfold hdr_at, parse_chdr. cbn [ch_len]. rewrite iread_skipn by lia. rewrite iread_firstn by lia. reflexivity.
Qed.
Lemma le_lt p k : le inp p k < 256 ^ k.
Proof.
  unfold le, get. pose proof (le2n_lt (iread inp p (N.to_nat k))) as H. rewrite length_iread', N2Nat.id in H. exact H.
Qed.

(* ------------------------------------------------------------------ tilings *)
Definition wpad (len : N) : N := if N.odd len then 1 else 0.
Definition chunk_at (off : N) : wchunk :=
  {| w_name := get inp off 4; w_off := off + 8; w_len := le inp (off + 4) 4 |}.
Definition cend (c : wchunk) : N := w_off c + w_len c.

Inductive tiles : N -> N -> list wchunk -> Prop :=
  | tiles_nil off : tiles off off []
  | tiles_cons off stop cs :
      let c := chunk_at off in
      cend c + wpad (w_len c) <= stop ->
      (N.odd (w_len c) = true -> iget inp (cend c) = x00) ->
      tiles (cend c + wpad (w_len c)) stop cs ->
      tiles off stop (c :: cs).

Lemma tiles_le off stop cs : tiles off stop cs -> off <= stop.
Proof. induction 1; [lia|]. subst c. unfold cend, chunk_at in *. cbn [w_off w_len] in *. lia. Qed.

Lemma tiles_length off stop cs : tiles off stop cs -> off + 8 * N.of_nat (length cs) <= stop.
Proof. induction 1; cbn [length]; [lia|]. subst c. unfold cend, chunk_at in *. cbn [w_off w_len] in *. lia. Qed.

Lemma tiles_chunks off stop cs : tiles off stop cs ->
  forall fuel, (length cs < fuel)%nat -> chunks fuel inp off stop = Some (Some cs).
Proof.
  induction 1 as [off | off stop cs c Hle Hpad Ht IH]; intros fuel Hf.
  - destruct fuel; [cbn [length] in Hf; lia|]. cbn [chunks].
    replace (off <=? off) with true by lia. replace (off =? off) with true by lia. reflexivity.
  - destruct fuel as [|fuel]; [lia|]. cbn [length] in Hf. cbn [chunks].
    subst c. unfold cend, chunk_at, wpad in *. cbn [w_off w_len] in *.
    set (len := le inp (off + 4) 4) in *.
    replace (stop <=? off) with false by (destruct (N.odd len); lia).
    replace (stop <? off + 8) with false by (destruct (N.odd len); lia).
    replace (stop <? off + 8 + len + (if N.odd len then 1 else 0)) with false by lia.
    assert (Hz : ((if N.odd len then 1 else 0) =? 1) && negb (le inp (off + 8 + len) 1 =? 0) = false).
    { destruct (N.odd len); [|reflexivity]. rewrite le1, (Hpad eq_refl). reflexivity. }
    rewrite Hz. rewrite IH by lia. reflexivity.
Qed.

Lemma chunks_tiles fuel : forall off stop cs, chunks fuel inp off stop = Some (Some cs) -> tiles off stop cs.
Proof.
  induction fuel as [|fuel IH]; intros off stop cs.
  - cbn [chunks]. destruct (stop <=? off) eqn:E; [|discriminate].
    destruct (off =? stop) eqn:E2; [|discriminate]. intros H. injection H as <-.
    replace stop with off by lia. constructor.
  - cbn [chunks]. destruct (stop <=? off) eqn:E.
    + destruct (off =? stop) eqn:E2; [|discriminate]. intros H. injection H as <-.
      replace stop with off by lia. constructor.
    + destruct (stop <? off + 8) eqn:E2; [discriminate|].
      set (len := le inp (off + 4) 4).
      destruct (stop <? off + 8 + len + (if N.odd len then 1 else 0)) eqn:E3; [discriminate|].
      destruct (((if N.odd len then 1 else 0) =? 1) && negb (le inp (off + 8 + len) 1 =? 0)) eqn:E4; [discriminate|].
      destruct (chunks fuel inp (off + 8 + len + (if N.odd len then 1 else 0)) stop) as [[r|]|] eqn:E5; try discriminate.
      intros H. injection H as <-. apply IH in E5.
      apply (tiles_cons off stop r); unfold cend, chunk_at, wpad; cbn [w_off w_len]; fold len.
      * lia.
      * intros O. rewrite O in E4. rewrite le1 in E4. apply b2n_zero. cbn [N.eqb andb] in E4.
        destruct (b2n (iget inp (off + 8 + len)) =? 0) eqn:Z; [lia | discriminate].
      * exact E5.
Qed.

Lemma region_chunks_tiles off stop cs : region_chunks inp off stop = Some cs <-> tiles off stop cs.
Proof.
  unfold region_chunks. split.
  - destruct (chunks _ inp off stop) as [r|] eqn:E; [|discriminate]. intros ->. eapply chunks_tiles, E.
  - intros H. rewrite (tiles_chunks off stop cs H); [reflexivity|].
    pose proof (tiles_length off stop cs H) as HL.
    assert (N.of_nat (length cs) <= (stop - off) / 8).
    { apply N.div_le_lower_bound; lia. }
    lia.
Qed.

Lemma tiles_fun off stop cs cs' : tiles off stop cs -> tiles off stop cs' -> cs = cs'.
Proof.
  intros H H'. apply region_chunks_tiles in H, H'. congruence.
Qed.


(* ------------------------------------------------------------------ payload parsers on pieces of the input *)
Lemma len1 {A} (l : list A) : length l = 1%nat -> exists a, l = [a].
Proof. destruct l as [|a [|]]; try discriminate. now exists a. Qed.
Lemma len3 {A} (l : list A) : length l = 3%nat -> exists a b c, l = [a; b; c].
Proof. destruct l as [|a [|b [|c [|]]]]; try discriminate. now exists a, b, c. Qed.
Lemma len4 {A} (l : list A) : length l = 4%nat -> exists a b c d, l = [a; b; c; d].
Proof. destruct l as [|a [|b [|c [|d [|]]]]]; try discriminate. now exists a, b, c, d. Qed.

Lemma le2n3_lt a b c : le2n [a; b; c] < 2 ^ 24.
Proof. pose proof (le2n_lt [a; b; c]) as H. exact H. Qed.

Lemma vp8x_mask_byte b : (N.land (b2n b) (m_vp8x cur) =? b2n b) = (N.land (b2n b) 193 =? 0).
Proof. destruct b; reflexivity. Qed.
Lemma anmf_mask_byte b : (N.land (b2n b) (m_anmf cur) =? b2n b) = (N.land (b2n b) 252 =? 0).
Proof. destruct b; reflexivity. Qed.
Lemma alph_mask_byte b : (N.land (b2n b) (m_alph cur) =? b2n b) = (N.land (b2n b) 226 =? 0).
Proof. destruct b; reflexivity. Qed.

Definition vp8x_cond (p : N) : bool :=
  (N.land (le inp p 1) 193 =? 0) && (le inp (p + 1) 3 =? 0)
  && ((le inp (p + 4) 3 + 1) * (le inp (p + 7) 3 + 1) <? 2 ^ 32).
Definition vp8x_at (p : N) : vp8x :=
  {| x_flags := le inp p 1; x_w := le inp (p + 4) 3 + 1; x_h := le inp (p + 7) 3 + 1 |}.

Lemma parse_vp8x_spec p :
  parse_vp8x (iread inp p 10) = if vp8x_cond p then Ok (vp8x_at p) else EParse WInvalidInput.
Proof.
  assert (E : iread inp p 10 = iread inp p 1 ++ iread inp (p + 1) 3 ++ iread inp (p + 4) 3 ++ iread inp (p + 7) 3).
  { change 10%nat with (1 + (3 + (3 + 3)))%nat. rewrite !iread_app. repeat (apply f_equal2; [f_equal; lia|]). f_equal; lia. }
  rewrite E. unfold vp8x_cond, vp8x_at, le, get.
  change (N.to_nat 1) with 1%nat. change (N.to_nat 3) with 3%nat.
  destruct (len1 _ (length_iread' inp 1 p)) as (f & ->).
  destruct (len3 _ (length_iread' inp 3 (p + 1))) as (r0 & r1 & r2 & ->).
  destruct (len3 _ (length_iread' inp 3 (p + 4))) as (w0 & w1 & w2 & ->).
  destruct (len3 _ (length_iread' inp 3 (p + 7))) as (h0 & h1 & h2 & ->).
  cbn [app]. unfold parse_vp8x, chunk_parse, chunk_parse_t, chunk_fields.
  cbn [fields_parse prim_parse_t flag_mask]. rewrite flags_cons, vp8x_mask_byte.
  replace (le2n [f]) with (b2n f) by (cbn [le2n]; lia).
  destruct (N.land (b2n f) 193 =? 0); cbn [rbind andb]; [|reflexivity].
  cbn [reserved_parse].
  pose proof (b2n_lt r0). pose proof (b2n_lt r1). pose proof (b2n_lt r2).
  replace (le2n [r0; r1; r2] =? 0) with ((b2n r0 =? 0) && (b2n r1 =? 0) && (b2n r2 =? 0)) by (cbn [le2n]; lia).
  destruct (b2n r0 =? 0); cbn [rbind andb]; [|reflexivity].
  destruct (b2n r1 =? 0); cbn [rbind andb]; [|reflexivity].
  destruct (b2n r2 =? 0); cbn [rbind andb]; [|reflexivity].
  unfold buf_get. cbn [length PeanoNat.Nat.ltb PeanoNat.Nat.leb firstn skipn rbind canvas_ok].
  pose proof (le2n3_lt w0 w1 w2). pose proof (le2n3_lt h0 h1 h2).
  rewrite !N.mod_small by lia. unfold sat_add_u32, U32MAX.
  replace (N.min (1 + le2n [w0; w1; w2]) 4294967295) with (le2n [w0; w1; w2] + 1) by lia.
  replace (N.min (1 + le2n [h0; h1; h2]) 4294967295) with (le2n [h0; h1; h2] + 1) by lia.
  replace ((le2n [h0; h1; h2] + 1) * (le2n [w0; w1; w2] + 1) <=? 4294967295)
    with ((le2n [w0; w1; w2] + 1) * (le2n [h0; h1; h2] + 1) <? 2 ^ 32) by (change (2 ^ 32) with 4294967296; lia).
  destruct ((le2n [w0; w1; w2] + 1) * (le2n [h0; h1; h2] + 1) <? 2 ^ 32); reflexivity.
Qed.

Lemma parse_anmf_spec p :
  parse_anmf_dims (iread inp p 16) =
  if N.land (le inp (p + 15) 1) 252 =? 0 then Ok (le inp (p + 6) 3 + 1, le inp (p + 9) 3 + 1) else EParse WInvalidInput.
Proof.
  assert (E : iread inp p 16 = iread inp p 3 ++ iread inp (p + 3) 3 ++ iread inp (p + 6) 3 ++ iread inp (p + 9) 3
                               ++ iread inp (p + 12) 3 ++ iread inp (p + 15) 1).
  { change 16%nat with (3 + (3 + (3 + (3 + (3 + 1)))))%nat. rewrite !iread_app. repeat (apply f_equal2; [f_equal; lia|]). f_equal; lia. }
  rewrite E. unfold le, get. change (N.to_nat 1) with 1%nat. change (N.to_nat 3) with 3%nat.
  destruct (len3 _ (length_iread' inp 3 p)) as (x0 & x1 & x2 & ->).
  destruct (len3 _ (length_iread' inp 3 (p + 3))) as (y0 & y1 & y2 & ->).
  destruct (len3 _ (length_iread' inp 3 (p + 6))) as (w0 & w1 & w2 & ->).
  destruct (len3 _ (length_iread' inp 3 (p + 9))) as (h0 & h1 & h2 & ->).
  destruct (len3 _ (length_iread' inp 3 (p + 12))) as (d0 & d1 & d2 & ->).
  destruct (len1 _ (length_iread' inp 1 (p + 15))) as (f & ->).
  cbn [app]. unfold parse_anmf_dims, chunk_parse, chunk_parse_t, chunk_fields. cbn [fields_parse].
  repeat (first [rewrite u24_cons | rewrite ob24_cons]; cbn [rbind]).
  cbn [prim_parse_t flag_mask]. rewrite flags_cons, anmf_mask_byte.
  replace (le2n [f]) with (b2n f) by (cbn [le2n]; lia).
  destruct (N.land (b2n f) 252 =? 0); cbn [rbind]; [|reflexivity].
  pose proof (le2n3_lt w0 w1 w2). pose proof (le2n3_lt h0 h1 h2).
  rewrite !N.mod_small by lia. unfold sat_add_u32, U32MAX. do 2 f_equal; lia.
Qed.

Lemma parse_alph_spec p :
  parse_alph_flags (iread inp p 1) =
  if N.land (le inp p 1) 226 =? 0 then Ok (le inp p 1) else EParse WInvalidInput.
Proof.
  rewrite le1. cbn [iread]. unfold parse_alph_flags, chunk_parse, chunk_parse_t, chunk_fields.
  cbn [fields_parse prim_parse_t flag_mask]. rewrite flags_cons, alph_mask_byte.
  destruct (N.land (b2n (iget inp p)) 226 =? 0); reflexivity.
Qed.

Lemma parse_webp_spec p :
  chunk_parse CWebp (iread inp p 4) = if geq (get inp p 4) gWEBP then Ok ([], []) else EParse WInvalidInput.
Proof.
  unfold get. change (N.to_nat 4) with 4%nat.
  destruct (len4 _ (length_iread' inp 4 p)) as (a & b & c & d & ->). reflexivity.
Qed.

Lemma parse_anim_ok p : exists v, chunk_parse CAnim (iread inp p 6) = Ok v.
Proof.
  assert (E : iread inp p 6 = iread inp p 4 ++ iread inp (p + 4) 2).
  { change 6%nat with (4 + 2)%nat. rewrite iread_app. f_equal. }
  rewrite E. destruct (len4 _ (length_iread' inp 4 p)) as (a & b & c & d & ->).
  cbn [iread app]. eexists. reflexivity.
Qed.

Lemma parse_vp8l_spec p :
  parse_vp8l (iread inp p 5) =
  if negb (le inp p 1 =? 47) then EParse WInvalidInput else
  let v := le inp (p + 1) 4 in
  if negb ((v / 2 ^ 29) mod 8 =? 0) then EParse (UnsupportedVp8lVersion ((v / 2 ^ 29) mod 8)) else
  Ok {| l_w := v mod 2 ^ 14 + 1; l_h := (v / 2 ^ 14) mod 2 ^ 14 + 1 |}.
Proof.
  assert (E : iread inp p 5 = iread inp p 1 ++ iread inp (p + 1) 4).
  { change 5%nat with (1 + 4)%nat. rewrite iread_app. f_equal. }
  rewrite E, le1. unfold le, get. change (N.to_nat 4) with 4%nat.
  destruct (len4 _ (length_iread' inp 4 (p + 1))) as (a & b & c & d & ->).
  cbn [iread app]. unfold parse_vp8l. cbn [length Nat.ltb Nat.leb hd skipn firstn]. reflexivity.
Qed.

End T.
