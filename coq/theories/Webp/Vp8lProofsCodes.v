(* C07 / C08 proofs, part 2: prefix codes.  The model builds a trie (Huffman.v, theorems of Props/C18.v); the
   specification judges the length vector by the Kraft equality and decodes with the canonical table.  Here: the two
   agree on acceptance (strict reading), on every decoded symbol, on "zero-bit code", and symbols stay inside the
   alphabet; then the lock-step of read_prefix_code with the specification's read_code. *)
From Coq Require Import List NArith ZArith PeanoNat Bool Lia ZifyBool ZifyNat ZifyN.
From Coq.Strings Require Import Byte.
From MS Require Import Base.Bytes Base.Outcome Webp.Huffman Webp.HuffmanSpec Webp.HuffmanProofsSort Webp.HuffmanProofs
  Webp.BitBufSpec Webp.Vp8l Webp.Vp8lSpec Webp.Vp8lProofs.
Import ListNotations.
Open Scope N_scope.
Arguments N.add : simpl never.
Arguments N.sub : simpl never.
Arguments N.mul : simpl never.
Arguments N.div : simpl never.
Arguments N.modulo : simpl never.
Arguments N.pow : simpl never.
Arguments N.eqb : simpl never.
Arguments N.ltb : simpl never.
Arguments N.leb : simpl never.

(* ---------------------------------------------------------------- length vectors with no / one used symbol *)
Lemma no_used cl : filter nonzero cl = [] -> forall L, kraft_at L cl = 0 /\ max_len cl = 0.
Proof.
  induction cl as [|x cl IH]; intros H L; cbn [filter kraft_at max_len fold_right] in *; [split; reflexivity|].
  destruct (nonzero x) eqn:E; [discriminate|]. destruct (IH H L) as [K M]. fold (max_len cl). rewrite K, M.
  unfold nonzero in E. apply negb_false_iff, N.eqb_eq in E. subst x. split; reflexivity.
Qed.

Lemma one_used cl l0 : filter nonzero cl = [l0] -> forall L, kraft_at L cl = 2 ^ (L - l0) /\ max_len cl = l0 /\ l0 <> 0.
Proof.
  induction cl as [|x cl IH]; intros H L; cbn [filter kraft_at max_len fold_right] in *; [discriminate|].
  fold (max_len cl). destruct (nonzero x) eqn:E.
  - inversion H; subst. destruct (no_used cl H2 L) as [K M]. rewrite K, M.
    unfold nonzero in E. apply negb_true_iff, N.eqb_neq in E. split; [lia|split; [lia|exact E]].
  - destruct (IH H L) as (K & M & Z). rewrite K, M.
    unfold nonzero in E. apply negb_false_iff, N.eqb_eq in E. subst x. split; [lia|split; [lia|exact Z]].
Qed.

Lemma used_count_0 cl : used_count cl = 0%nat -> filter nonzero cl = [].
Proof. unfold used_count. destruct (filter nonzero cl); [reflexivity|discriminate]. Qed.
Lemma used_count_1 cl : used_count cl = 1%nat -> exists l0, filter nonzero cl = [l0].
Proof. unfold used_count. destruct (filter nonzero cl) as [|a [|b r]]; try discriminate. intros _. now exists a. Qed.

(* the acceptance rule of C18 is the strict reading's verdict *)
Lemma spec_accepts_is_verdict cl : spec_accepts cl = true <-> code_verdict true cl = None.
Proof.
  unfold spec_accepts, code_verdict, single_used, kraft_is_one.
  destruct (Nat.eqb_spec (used_count cl) 0) as [E0|E0].
  - apply used_count_0 in E0. destruct (no_used cl E0 (max_len cl)) as [K M]. rewrite K, M.
    unfold single_len1. rewrite E0. cbn. split; discriminate.
  - destruct (Nat.eqb_spec (used_count cl) 1) as [E1|E1].
    + destruct (used_count_1 cl E1) as [l0 F]. destruct (one_used cl l0 F (max_len cl)) as (K & M & Z). rewrite K, M.
      rewrite N.sub_diag. cbn [andb]. destruct (single_len1 cl) eqn:S1; cbn [negb]; [rewrite orb_true_r; split; reflexivity|].
      rewrite orb_false_r. split; [|discriminate]. intros H. apply N.eqb_eq in H. exfalso.
      assert (2 ^ 1 <= 2 ^ l0) by (apply N.pow_le_mono_r; lia). cbn in H0. lia.
    + assert (S1 : single_len1 cl = false).
      { unfold single_len1. unfold used_count in *. destruct (filter nonzero cl) as [|a [|b r]]; cbn [length] in *; try reflexivity; try lia.
        destruct a as [|[p|p|]]; reflexivity. }
      rewrite S1, orb_false_r.
      destruct (N.ltb_spec (kraft_at (max_len cl) cl) (2 ^ max_len cl)).
      * split; [intros H1; apply N.eqb_eq in H1; lia|discriminate].
      * destruct (N.ltb_spec (2 ^ max_len cl) (kraft_at (max_len cl) cl)).
        -- split; [intros H1; apply N.eqb_eq in H1; lia|discriminate].
        -- split; [reflexivity|]. intros _. apply N.eqb_eq. lia.
Qed.

(* the reference reading accepts at least what the strict one accepts *)
Lemma verdict_strict_implies_reference cl : code_verdict true cl = None -> code_verdict false cl = None.
Proof.
  unfold code_verdict. destruct (Nat.eqb (used_count cl) 0); [discriminate|]. destruct (single_used cl); [reflexivity|auto].
Qed.

(* ---------------------------------------------------------------- the table of an accepted vector is the canonical one *)
Lemma first_used_single cl : forall i s x y,
  filter nonzero cl = [x] -> nth_error cl s = Some y -> nonzero y = true -> first_used i cl = i + N.of_nat s.
Proof.
  induction cl as [|a cl IH]; intros i s x y F Hn Hy; [destruct s; discriminate|].
  cbn [filter] in F. cbn [first_used]. destruct s as [|s]; cbn [nth_error] in Hn.
  - inversion Hn; subst. rewrite Hy. lia.
  - destruct (nonzero a) eqn:Ea.
    + inversion F; subst. exfalso. apply nth_error_In in Hn.
      assert (In y (filter nonzero cl)) by (apply filter_In; auto). rewrite H1 in H. contradiction.
    + rewrite (IH (i + 1) s x y F Hn Hy). lia.
Qed.

Lemma single_len1_used cl : single_len1 cl = true -> single_used cl = true.
Proof.
  unfold single_len1, single_used, used_count. destruct (filter nonzero cl) as [|a [|b r]]; try discriminate; try reflexivity.
  destruct a as [|[p|p|]]; discriminate.
Qed.

Lemma table_is_canonical cl : code_verdict true cl = None -> code_table cl = canonical cl.
Proof.
  intros V. unfold code_table, canonical. destruct (single_len1 cl) eqn:S1.
  - rewrite (single_len1_used cl S1).
    destruct (single_symbol_zero_bits cl S1) as (s & Hn & Hc & _). unfold canonical in Hc. rewrite S1 in Hc. rewrite Hc.
    apply single_len1_prop in S1.
    rewrite (first_used_single cl 0 (N.to_nat s) 1 1 S1 Hn eq_refl). f_equal. f_equal. lia.
  - destruct (single_used cl) eqn:SU; [|reflexivity]. exfalso.
    unfold code_verdict in V. rewrite SU, S1 in V. unfold single_used in SU. apply Nat.eqb_eq in SU. rewrite SU in V. cbn in V. discriminate.
Qed.

(* symbols of the table are positions of the vector *)
Lemma rfc_table_bound cl s c : In (s, c) (rfc_table cl) -> s < nlen cl /\ c <> [].
Proof.
  unfold rfc_table. intros H. apply rfc_in in H. destruct H as (l & Hin & Hnz & ->).
  apply in_index_from in Hin. destruct Hin as [_ Hn]. rewrite N.sub_0_r in Hn.
  assert (N.to_nat s < length cl)%nat by (apply nth_error_Some; congruence). unfold nlen. split; [lia|].
  unfold nonzero in Hnz. apply negb_true_iff, N.eqb_neq in Hnz.
  destruct (N.to_nat l) eqn:E; [lia|]. cbn [bits_msb]. discriminate.
Qed.

Lemma first_used_bound cl : forall i, filter nonzero cl <> [] -> first_used i cl < i + nlen cl.
Proof.
  unfold nlen. induction cl as [|a cl IH]; intros i H; cbn [filter first_used length] in *; [contradiction|].
  destruct (nonzero a); [lia|]. specialize (IH (i + 1) H). lia.
Qed.

Lemma code_table_bound cl s c : In (s, c) (code_table cl) -> s < nlen cl.
Proof.
  unfold code_table. destruct (single_used cl) eqn:SU.
  - intros [H|[]]. inversion H; subst. unfold single_used in SU. apply Nat.eqb_eq in SU.
    destruct (used_count_1 cl SU) as [l0 F]. pose proof (first_used_bound cl 0) as B. rewrite F in B. specialize (B ltac:(discriminate)). lia.
  - intros H. exact (proj1 (rfc_table_bound cl s c H)).
Qed.

(* ---------------------------------------------------------------- the relation between a model tree and a code table *)
Definition R_tbl (bound : N) (t : htree) (tbl : list (N * list bool)) : Prop :=
  (forall bits, decode (ht_tree t) bits = table_decode tbl bits) /\
  (ht_longest t = 0 <-> exists s, ht_tree t = FLeaf s) /\
  (forall s c, In (s, c) tbl -> s < bound).

Lemma R_tbl_weaken b b' t tbl : b <= b' -> R_tbl b t tbl -> R_tbl b' t tbl.
Proof. intros H (D & L & B). split; [exact D|split; [exact L|]]. intros s c Hin. specialize (B s c Hin). lia. Qed.

Lemma R_tbl_symbol bound t tbl bits s rest : R_tbl bound t tbl -> decode (ht_tree t) bits = Some (s, rest) -> s < bound.
Proof.
  intros (D & _ & B) H. rewrite D in H. apply table_decode_some in H. destruct H as (c & Hin & _). exact (B s c Hin).
Qed.

Lemma decode_shorter f : forall bits s rest, decode f bits = Some (s, rest) -> (length rest <= length bits)%nat.
Proof.
  induction f as [s0|z IHz o IHo]; intros bits s rest H; cbn [decode] in H.
  - inversion H; subst. lia.
  - destruct bits as [|b r]; [discriminate|]. destruct b; [apply IHo in H|apply IHz in H]; cbn [length]; lia.
Qed.

Lemma decode_node_consumes z o bits s rest : decode (FNode z o) bits = Some (s, rest) -> (length rest < length bits)%nat.
Proof.
  cbn [decode]. destruct bits as [|b r]; [discriminate|]. intros H. apply decode_shorter in H. cbn [length]. lia.
Qed.

(* the model's tree for an accepted length vector *)
Lemma new_vec_vs_verdict cl : Forall (fun l => l < 2 ^ 32) cl ->
  match new_vec cl with
  | Ok t => code_verdict true cl = None /\ R_tbl (nlen cl) t (code_table cl)
  | EParse e => e = InvalidVp8lPrefixCode /\ code_verdict true cl <> None
  | _ => False
  end.
Proof.
  intros HF. pose proof (accept_iff_kraft cl) as A. pose proof (reject_kind cl) as RK.
  destruct (new_vec cl) as [t|e|e|p|] eqn:E; cbn [is_ok] in A; try (specialize (RK eq_refl); discriminate).
  - symmetry in A. apply spec_accepts_is_verdict in A. split; [exact A|].
    rewrite (table_is_canonical cl A).
    destruct (longest_bounds_consumption cl t HF E) as (L & C1 & C2).
    split; [exact (decode_is_table_decode cl t E)|split].
    + rewrite L. unfold spec_longest. split.
      * intros H0. destruct (single_len1 cl) eqn:S1.
        -- destruct (single_symbol_zero_bits cl S1) as (s & _ & _ & Hv & _). rewrite E in Hv. inversion Hv. exists s. reflexivity.
        -- exfalso. apply spec_accepts_is_verdict in A. unfold spec_accepts in A. rewrite S1, orb_false_r in A.
           unfold kraft_is_one in A. rewrite H0 in A. apply N.eqb_eq in A. cbn in A.
           (* max_len = 0: every length is 0, the Kraft sum is 0, not 1 *)
           assert (Z : filter nonzero cl = []).
           { clear -H0. induction cl as [|x cl IH]; [reflexivity|]. cbn [max_len fold_right] in H0. fold (max_len cl) in H0.
             cbn [filter]. assert (x = 0) by lia. subst x. cbn. apply IH. lia. }
           destruct (no_used cl Z 0) as [K _]. rewrite K in A. discriminate.
      * intros [s Hs]. destruct (single_len1 cl) eqn:S1; [reflexivity|]. exfalso.
        assert (D : decode (ht_tree t) [] = Some (s, [])) by (rewrite Hs; reflexivity).
        apply (decode_is_canonical cl t E) in D. destruct D as (c & Hin & Hc).
        unfold canonical in Hin. rewrite S1 in Hin. apply rfc_table_bound in Hin. destruct c; [now apply (proj2 Hin)|discriminate].
    + intros s c Hin. rewrite <- (table_is_canonical cl A) in Hin. exact (code_table_bound cl s c Hin).
  - specialize (RK eq_refl). inversion RK; subst. split; [reflexivity|]. intros V. apply spec_accepts_is_verdict in V. congruence.
Qed.

(* ---------------------------------------------------------------- simple codes: code_lengths[symbol] = 1 *)
Lemma simple_lengths_from_app syms : forall a b i,
  simple_lengths_from i (a + b) syms = simple_lengths_from i a syms ++ simple_lengths_from (i + N.of_nat a) b syms.
Proof.
  induction a as [|a IH]; intros b i; cbn [Nat.add simple_lengths_from app].
  - f_equal. lia.
  - rewrite IH. do 3 f_equal. lia.
Qed.

Lemma simple_lengths_from_zero syms : forall k i,
  (forall j, i <= j < i + N.of_nat k -> existsb (N.eqb j) syms = false) -> simple_lengths_from i k syms = repeat 0 k.
Proof.
  induction k as [|k IH]; intros i H; cbn [simple_lengths_from repeat]; [reflexivity|].
  rewrite (H i) by lia. f_equal. apply IH. intros j Hj. apply H. lia.
Qed.

Lemma existsb_eqb_false j syms : existsb (N.eqb j) syms = false <-> ~ In j syms.
Proof.
  split.
  - intros H Hin. assert (existsb (N.eqb j) syms = true) by (apply existsb_exists; exists j; split; [exact Hin|apply N.eqb_refl]). congruence.
  - intros H. destruct (existsb (N.eqb j) syms) eqn:E; [|reflexivity]. apply existsb_exists in E. destruct E as (x & Hx & Ex).
    apply N.eqb_eq in Ex. subst. contradiction.
Qed.

(* one symbol (possibly named twice) *)
Lemma simple_lengths_one a s syms : s < a -> syms <> [] -> (forall x, In x syms -> x = s) ->
  simple_lengths a syms = repeat 0 (N.to_nat s) ++ 1 :: repeat 0 (N.to_nat a - N.to_nat s - 1).
Proof.
  intros Hs Hne Hall. unfold simple_lengths.
  remember (N.to_nat a - N.to_nat s - 1)%nat as r eqn:Er.
  replace (N.to_nat a) with (N.to_nat s + (1 + r))%nat by lia.
  rewrite simple_lengths_from_app. cbn [Nat.add]. f_equal.
  - apply simple_lengths_from_zero. intros j Hj. apply existsb_eqb_false. intros Hin. apply Hall in Hin. lia.
  - cbn [simple_lengths_from]. f_equal.
    + replace (0 + N.of_nat (N.to_nat s)) with s by lia.
      assert (In s syms). { destruct syms as [|x r']; [contradiction|]. left. apply Hall. now left. }
      replace (existsb (N.eqb s) syms) with true; [reflexivity|]. symmetry. apply existsb_exists. exists s. split; [assumption|apply N.eqb_refl].
    + apply simple_lengths_from_zero. intros j Hj. apply existsb_eqb_false. intros Hin. apply Hall in Hin. lia.
Qed.

(* two different symbols lo < hi, in either order *)
Lemma simple_lengths_two a lo hi syms : lo < hi -> hi < a -> (forall x, In x syms <-> x = lo \/ x = hi) ->
  simple_lengths a syms =
  repeat 0 (N.to_nat lo) ++ 1 :: repeat 0 (N.to_nat hi - N.to_nat lo - 1) ++ 1 :: repeat 0 (N.to_nat a - N.to_nat hi - 1).
Proof.
  intros Hlh Hha Hall. unfold simple_lengths.
  remember (N.to_nat a - N.to_nat hi - 1)%nat as r eqn:Er.
  replace (N.to_nat a) with (N.to_nat lo + (1 + ((N.to_nat hi - N.to_nat lo - 1) + (1 + r))))%nat by lia.
  assert (T : forall x, In x syms -> existsb (N.eqb x) syms = true).
  { intros x Hx. apply existsb_exists. exists x. split; [assumption|apply N.eqb_refl]. }
  rewrite simple_lengths_from_app. f_equal.
  - apply simple_lengths_from_zero. intros j Hj. apply existsb_eqb_false. intros Hin. apply Hall in Hin. lia.
  - cbn [Nat.add simple_lengths_from]. f_equal.
    + replace (0 + N.of_nat (N.to_nat lo)) with lo by lia. rewrite T; [reflexivity|]. apply Hall. now left.
    + rewrite simple_lengths_from_app. f_equal.
      * apply simple_lengths_from_zero. intros j Hj. apply existsb_eqb_false. intros Hin. apply Hall in Hin. lia.
      * cbn [simple_lengths_from]. f_equal.
        -- replace (0 + N.of_nat (N.to_nat lo) + 1 + N.of_nat (N.to_nat hi - N.to_nat lo - 1)) with hi by lia.
           rewrite T; [reflexivity|]. apply Hall. now right.
        -- apply simple_lengths_from_zero. intros j Hj. apply existsb_eqb_false. intros Hin. apply Hall in Hin. lia.
Qed.

Lemma filter_nonzero_zeros k l : filter nonzero (repeat 0 k ++ l) = filter nonzero l.
Proof. induction k as [|k IH]; cbn [repeat app filter]; [reflexivity|]. exact IH. Qed.
Lemma filter_nonzero_zeros' k : filter nonzero (repeat 0 k) = [].
Proof. rewrite <- (app_nil_r (repeat 0 k)). now rewrite filter_nonzero_zeros. Qed.

Lemma first_used_zeros k l : forall i, first_used i (repeat 0 k ++ l) = first_used (i + N.of_nat k) l.
Proof.
  induction k as [|k IH]; intros i; cbn [repeat app first_used].
  - f_equal. lia.
  - change (nonzero 0) with false. cbv iota. rewrite IH. f_equal. lia.
Qed.

Lemma rfc_from_app all : forall a b n, rfc_from all n (a ++ b) = rfc_from all n a ++ rfc_from all (n + nlen a) b.
Proof.
  unfold nlen. induction a as [|x a IH]; intros b n; cbn [app rfc_from length].
  - f_equal. lia.
  - rewrite IH, <- app_assoc. do 3 f_equal. lia.
Qed.

Lemma rfc_from_zeros all k : forall n, rfc_from all n (repeat 0 k) = [].
Proof. induction k as [|k IH]; intros n; cbn [repeat rfc_from]; [reflexivity|]. cbn [nonzero N.eqb negb app]. apply IH. Qed.

Lemma count_occ_zeros k l : l <> 0 -> count_occ N.eq_dec (repeat 0 k) l = 0%nat.
Proof. intros H. induction k as [|k IH]; cbn [repeat count_occ]; [reflexivity|]. destruct (N.eq_dec 0 l); [congruence|exact IH]. Qed.

Lemma firstn_zeros_app k (l : list N) : firstn k (repeat 0 k ++ l) = repeat 0 k.
Proof. induction k as [|k IH]; cbn [repeat app firstn]; [reflexivity|]. now rewrite IH. Qed.

Lemma nlen_repeat (x : N) k : nlen (repeat x k) = N.of_nat k.
Proof. unfold nlen. now rewrite repeat_length. Qed.

(* the canonical table of a two-symbol simple code: the smaller symbol has code 0 *)
Lemma rfc_table_two lo hi r : (lo < hi)%nat ->
  rfc_table (repeat 0 lo ++ 1 :: repeat 0 (hi - lo - 1) ++ 1 :: repeat 0 r) = [(N.of_nat lo, [false]); (N.of_nat hi, [true])].
Proof.
  intros H. set (cl := repeat 0 lo ++ 1 :: repeat 0 (hi - lo - 1) ++ 1 :: repeat 0 r). unfold rfc_table.
  assert (NC : next_code cl 1 = 0).
  { cbn [next_code]. unfold bl_count. cbn. reflexivity. }
  assert (C1 : count 1 (firstn lo cl) = 0).
  { unfold cl. rewrite firstn_zeros_app. unfold count. rewrite count_occ_zeros by lia. reflexivity. }
  assert (C2 : count 1 (firstn hi cl) = 1).
  { unfold cl. replace (firstn hi) with (@firstn N (length (repeat 0 lo) + (1 + (hi - lo - 1))))
      by (rewrite repeat_length; f_equal; lia).
    rewrite firstn_app_2. cbn [Nat.add firstn].
    rewrite firstn_zeros_app. unfold count. rewrite count_occ_app. cbn [count_occ].
    rewrite !count_occ_zeros by lia. destruct (N.eq_dec 1 1); [reflexivity|congruence]. }
  unfold cl at 2. rewrite rfc_from_app, rfc_from_zeros. cbn [app rfc_from]. cbn [nonzero N.eqb negb].
  rewrite rfc_from_app, rfc_from_zeros. cbn [app rfc_from]. cbn [nonzero N.eqb negb]. rewrite rfc_from_zeros.
  rewrite !nlen_repeat. cbn [app].
  replace (0 + N.of_nat lo) with (N.of_nat lo) by lia.
  replace (N.of_nat lo + 1 + N.of_nat (hi - lo - 1)) with (N.of_nat hi) by lia.
  unfold canon_value. change (N.to_nat 1) with 1%nat. rewrite !Nat2N.id, NC, C1, C2. reflexivity.
Qed.

Lemma kraft_at_zeros L k l : kraft_at L (repeat 0 k ++ l) = kraft_at L l.
Proof. induction k as [|k IH]; cbn [repeat app kraft_at]; [reflexivity|]. change (nonzero 0) with false. cbv iota. rewrite IH. lia. Qed.
Lemma max_len_zeros k l : max_len (repeat 0 k ++ l) = max_len l.
Proof. induction k as [|k IH]; cbn [repeat app max_len fold_right]; [reflexivity|]. fold (max_len (repeat 0 k ++ l)). rewrite IH. lia. Qed.
Lemma kraft_at_zeros' L k : kraft_at L (repeat 0 k) = 0.
Proof. rewrite <- (app_nil_r (repeat 0 k)), kraft_at_zeros. reflexivity. Qed.
Lemma max_len_zeros' k : max_len (repeat 0 k) = 0.
Proof. rewrite <- (app_nil_r (repeat 0 k)), max_len_zeros. reflexivity. Qed.

(* the tree webpsan builds for a one-symbol simple code and the table of code_lengths[s] = 1 *)
Lemma simple_one_tbl a s syms : s < a -> syms <> [] -> (forall x, In x syms -> x = s) ->
  code_verdict true (simple_lengths a syms) = None /\
  R_tbl a {| ht_tree := FLeaf s; ht_longest := 0 |} (code_table (simple_lengths a syms)).
Proof.
  intros Hs Hne Hall. rewrite (simple_lengths_one a s syms Hs Hne Hall).
  set (cl := repeat 0 (N.to_nat s) ++ 1 :: repeat 0 (N.to_nat a - N.to_nat s - 1)).
  assert (F : filter nonzero cl = [1]).
  { unfold cl. rewrite filter_nonzero_zeros. cbn [filter]. change (nonzero 1) with true. cbv iota. now rewrite filter_nonzero_zeros'. }
  assert (S1 : single_len1 cl = true) by (unfold single_len1; now rewrite F).
  split.
  - apply spec_accepts_is_verdict. unfold spec_accepts. now rewrite S1, orb_true_r.
  - unfold code_table. rewrite (single_len1_used cl S1).
    assert (FU : first_used 0 cl = s).
    { unfold cl. rewrite first_used_zeros. cbn [first_used]. change (nonzero 1) with true. cbv iota. lia. }
    rewrite FU. split; [|split].
    + intros bits. reflexivity.
    + cbn [ht_longest ht_tree]. split; [intros _; now exists s|reflexivity].
    + intros s' c [H|[]]. injection H as E1 E2. rewrite <- E1. exact Hs.
Qed.

Lemma simple_two_tbl a lo hi syms : lo < hi -> hi < a -> (forall x, In x syms <-> x = lo \/ x = hi) ->
  code_verdict true (simple_lengths a syms) = None /\
  R_tbl a {| ht_tree := FNode (FLeaf lo) (FLeaf hi); ht_longest := 1 |} (code_table (simple_lengths a syms)).
Proof.
  intros Hlh Hha Hall. rewrite (simple_lengths_two a lo hi syms Hlh Hha Hall).
  set (r := (N.to_nat a - N.to_nat hi - 1)%nat).
  set (cl := repeat 0 (N.to_nat lo) ++ 1 :: repeat 0 (N.to_nat hi - N.to_nat lo - 1) ++ 1 :: repeat 0 r).
  assert (F : filter nonzero cl = [1; 1]).
  { unfold cl. rewrite filter_nonzero_zeros. cbn [filter]. change (nonzero 1) with true. cbv iota.
    rewrite filter_nonzero_zeros. cbn [filter]. change (nonzero 1) with true. cbv iota. now rewrite filter_nonzero_zeros'. }
  assert (ML : max_len cl = 1).
  { unfold cl. rewrite max_len_zeros. cbn [max_len fold_right]. fold (max_len (repeat 0 (N.to_nat hi - N.to_nat lo - 1) ++ 1 :: repeat 0 r)).
    rewrite max_len_zeros. cbn [max_len fold_right]. fold (max_len (repeat 0 r)). rewrite max_len_zeros'. reflexivity. }
  assert (K : kraft_at 1 cl = 2).
  { unfold cl. rewrite kraft_at_zeros. cbn [kraft_at]. change (nonzero 1) with true. cbv iota.
    rewrite kraft_at_zeros. cbn [kraft_at]. change (nonzero 1) with true. cbv iota. rewrite kraft_at_zeros'. reflexivity. }
  assert (SU : single_used cl = false) by (unfold single_used, used_count; now rewrite F).
  split.
  - unfold code_verdict. rewrite SU. unfold used_count. rewrite F, ML, K. reflexivity.
  - unfold code_table. rewrite SU. unfold cl. rewrite rfc_table_two by lia. rewrite !N2Nat.id. split; [|split].
    + intros bits. destruct bits as [|[|] bits]; reflexivity.
    + cbn [ht_longest ht_tree]. split; [discriminate|intros [s H]; discriminate].
    + intros s c [H|[H|[]]]; injection H as E1 E2; rewrite <- E1; lia.
Qed.

(* ---------------------------------------------------------------- stepping both runs at once *)
Lemma rd_cases w n bits : n <= w ->
  (exists v rest, rd w n bits = Ok (v, rest) /\ read_bits n bits = SOk v rest /\ v < 2 ^ n /\ (length rest <= length bits)%nat) \/
  (rd w n bits = EParse TruncatedChunk /\ read_bits n bits = SFail RTruncated).
Proof.
  intros H. pose proof (read_bits_is_rd w n bits H) as K.
  destruct (rd w n bits) as [[v rest]|e|e|p|] eqn:E; try contradiction.
  - left. exists v, rest. destruct (rd_value _ _ _ _ _ E). auto.
  - right. destruct K as [-> K]. auto.
Qed.

Lemma rd_bit_cases bits :
  (exists b rest, rd_bit bits = Ok (b, rest) /\ read_flag bits = SOk b rest /\ (length rest < length bits)%nat) \/
  (rd_bit bits = EParse TruncatedChunk /\ read_flag bits = SFail RTruncated).
Proof.
  destruct bits as [|b r].
  - right. split; reflexivity.
  - left. exists b, r. split; [reflexivity|]. split; [destruct b; reflexivity|cbn [length]; lia].
Qed.

Lemma huff_cases bound t tbl bits : R_tbl bound t tbl ->
  (exists s rest, rd_huff t bits = Ok (s, rest) /\ read_symbol tbl bits = SOk s rest /\ s < bound /\ (length rest <= length bits)%nat) \/
  (rd_huff t bits = EParse TruncatedChunk /\ read_symbol tbl bits = SFail RTruncated).
Proof.
  intros HR. pose proof HR as (D & _ & _). unfold rd_huff, read_huffman, read_symbol. rewrite <- D.
  destruct (decode (ht_tree t) bits) as [[s rest]|] eqn:E.
  - left. exists s, rest. split; [reflexivity|split; [reflexivity|]]. split; [exact (R_tbl_symbol _ _ _ _ _ _ HR E)|exact (decode_shorter _ _ _ _ E)].
  - right. split; reflexivity.
Qed.

Lemma set_nth_put_at i v l : set_nth i v l = put_at i v l.
Proof. reflexivity. Qed.

Lemma set_nth_length i v l : length (set_nth i v l) = length l.
Proof. revert i; induction l as [|x l IH]; intros i; destruct i; cbn [set_nth length]; try reflexivity. now rewrite IH. Qed.

Lemma set_nth_Forall (P : N -> Prop) i v l : P v -> Forall P l -> Forall P (set_nth i v l).
Proof.
  intros Hv. revert i; induction l as [|x l IH]; intros i H; destruct i; cbn [set_nth]; try exact H.
  - inversion H; subst. constructor; assumption.
  - inversion H; subst. constructor; [assumption|apply IH; assumption].
Qed.

(* the code-length code's length vector *)
Lemma sim_read_clc order : forall count cl bits, Forall (fun l => l < 8) cl ->
  sim (fun a b => a = b /\ length a = length cl /\ Forall (fun l => l < 8) a)
      (read_clc_lengths order count cl bits) (read_clc order count cl bits).
Proof.
  induction order as [|idx order IH]; intros count cl bits HF.
  - cbn [read_clc_lengths read_clc]. destruct count; cbn; exists cl; auto.
  - destruct count as [|count]; [cbn; exists cl; auto|]. cbn [read_clc_lengths read_clc].
    destruct (rd_cases 8 3 bits ltac:(lia)) as [(v & rest & Em & Es & Hv & _)|[Em Es]];
      unfold mbind, sbind; rewrite Em, Es; [|cbn; now exists RTruncated].
    change (put_at (N.to_nat idx) v cl) with (set_nth (N.to_nat idx) v cl).
    eapply sim_weaken; [|apply IH; apply set_nth_Forall; [cbn in Hv; lia|exact HF]].
    intros a b (-> & Hl & Hf). rewrite set_nth_length in Hl. auto.
Qed.

(* ---------------------------------------------------------------- monad plumbing *)
Lemma mbind_assoc {A B C} (m : M A) (f : A -> M B) (g : B -> M C) bits :
  mbind (mbind m f) g bits = mbind m (fun x => mbind (f x) g) bits.
Proof. unfold mbind. destruct (m bits) as [[a rest]|e|e|p|]; reflexivity. Qed.

Lemma sbind_assoc {A B C} (m : SM A) (f : A -> SM B) (g : B -> SM C) bits :
  sbind (sbind m f) g bits = sbind m (fun x => sbind (f x) g) bits.
Proof. unfold sbind. destruct (m bits) as [a rest|r]; reflexivity. Qed.

Lemma mbind_ret {A B} (a : A) (f : A -> M B) bits : mbind (mret a) f bits = f a bits.
Proof. reflexivity. Qed.
Lemma sbind_ret {A B} (a : A) (f : A -> SM B) bits : sbind (sret a) f bits = f a bits.
Proof. reflexivity. Qed.

Lemma mbind_ret_r {A} (m : M A) bits : mbind m (fun a => mret a) bits = m bits.
Proof. unfold mbind, mret. destruct (m bits) as [[a rest]|e|e|p|]; reflexivity. Qed.

Lemma sim_huff bound t tbl bits : R_tbl bound t tbl ->
  sim (fun a b => a = b /\ a < bound) (rd_huff t bits) (read_symbol tbl bits).
Proof.
  intros HR. destruct (huff_cases bound t tbl bits HR) as [(s & rest & Em & Es & Hs & _)|[Em Es]]; rewrite Em, Es; cbn.
  - exists s. auto.
  - exists RTruncated. reflexivity.
Qed.

(* building the tree = judging the length vector (strict reading) *)
Lemma sim_new_vec cl bits : Forall (fun l => l < 2 ^ 32) cl ->
  sim (fun t (_ : unit) => R_tbl (nlen cl) t (code_table cl)) (mlift (new_vec cl) bits) (rule_code true cl bits).
Proof.
  intros HF. pose proof (new_vec_vs_verdict cl HF) as H. unfold mlift, rule_code.
  destruct (new_vec cl) as [t|e|e|p|]; try contradiction.
  - destruct H as [V HR]. rewrite V. cbn. exists tt. auto.
  - destruct H as [_ V]. destruct (code_verdict true cl); [|congruence]. cbn. eexists. reflexivity.
Qed.

Lemma Forall_lt_weaken (b b' : N) l : b <= b' -> Forall (fun x => x < b) l -> Forall (fun x => x < b') l.
Proof. intros H. apply Forall_impl. intros a Ha. lia. Qed.
Lemma Forall_le_lt (b b' : N) l : b < b' -> Forall (fun x => x <= b) l -> Forall (fun x => x < b') l.
Proof. intros H. apply Forall_impl. intros a Ha. lia. Qed.

(* ---------------------------------------------------------------- the code-length loop *)
Lemma sim_read_code_lengths clc tbl max : R_tbl 19 clc tbl ->
  forall reads acc prev bits, nlen acc <= max -> Forall (fun l => l <= 15) acc -> prev <= 15 ->
  sim (fun a b => a = b /\ Forall (fun l => l <= 15) a /\ nlen a <= max)
      (read_code_lengths reads max clc acc prev bits) (read_lengths reads max tbl acc prev bits).
Proof.
  intros HR. induction reads as [|reads IH]; intros acc prev bits Hlen Hacc Hprev; cbn [read_code_lengths read_lengths].
  - cbn. exists acc. auto.
  - fold (nlen acc). destruct (N.eqb_spec (nlen acc) max) as [E|E].
    + replace (max <=? nlen acc) with true by (symmetry; apply N.leb_le; lia). cbn. exists acc. auto.
    + replace (max <=? nlen acc) with false by (symmetry; apply N.leb_gt; lia).
      unfold read_length_token. rewrite mbind_assoc.
      destruct (huff_cases 19 clc tbl bits HR) as [(s & rest & Em & Es & Hs & _)|[Em Es]];
        unfold mbind at 1; unfold sbind at 1; rewrite Em, Es; [|cbn; now exists RTruncated].
      assert (AppLen : forall x k, nlen (acc ++ repeat x k) = nlen acc + N.of_nat k).
      { intros x k. unfold nlen. rewrite app_length, repeat_length. lia. }
      destruct (N.leb_spec s 15) as [C15|C15].
      * replace (s <? 16) with true by (symmetry; apply N.ltb_lt; lia).
        rewrite mbind_ret. cbv beta iota.
        replace (nlen acc + 1 <=? max) with true by (symmetry; apply N.leb_le; lia). cbn [negb].
        change (N.to_nat 1) with 1%nat. cbn [repeat].
        apply IH.
        -- unfold nlen in *. rewrite app_length. cbn [length]. lia.
        -- apply Forall_app. split; [exact Hacc|]. constructor; [lia|constructor].
        -- destruct (s =? 0); lia.
      * replace (s <? 16) with false by (symmetry; apply N.ltb_ge; lia).
        assert (Hs' : s = 16 \/ s = 17 \/ s = 18) by lia.
        destruct Hs' as [ -> | [ -> | -> ] ]; cbv beta iota.
        -- (* 16: repeat the previous non-zero length *)
           change (16 =? 16) with true. change (16 =? 18) with false. cbv iota. rewrite mbind_assoc.
           destruct (rd_cases 8 2 rest ltac:(lia)) as [(e & rest2 & Em2 & Es2 & He & _)|[Em2 Es2]];
             unfold mbind at 1; unfold sbind at 1; rewrite Em2, Es2; [|cbn; now exists RTruncated].
           rewrite mbind_ret. cbv beta iota. unfold require, rule_repeat_fits.
           replace (e + 3) with (3 + e) by lia.
           destruct (N.leb_spec (nlen acc + (3 + e)) max) as [Fit|Fit]; cbn [negb].
           ++ rewrite sbind_ret. replace (if prev =? 0 then prev else prev) with prev by (destruct (prev =? 0); reflexivity).
              apply IH.
              ** rewrite AppLen. lia.
              ** apply Forall_app. split; [exact Hacc|]. apply Forall_forall. intros x Hx. apply repeat_spec in Hx. lia.
              ** exact Hprev.
           ++ cbn. eexists. reflexivity.
        -- (* 17: 3..10 zeros *)
           change (17 =? 16) with false. change (17 =? 17) with true. change (17 =? 18) with false. cbv iota. rewrite mbind_assoc.
           destruct (rd_cases 8 3 rest ltac:(lia)) as [(e & rest2 & Em2 & Es2 & He & _)|[Em2 Es2]];
             unfold mbind at 1; unfold sbind at 1; rewrite Em2, Es2; [|cbn; now exists RTruncated].
           rewrite mbind_ret. cbv beta iota. unfold require, rule_repeat_fits.
           replace (e + 3) with (3 + e) by lia.
           destruct (N.leb_spec (nlen acc + (3 + e)) max) as [Fit|Fit]; cbn [negb].
           ++ rewrite sbind_ret. change (0 =? 0) with true. cbv iota.
              apply IH.
              ** rewrite AppLen. lia.
              ** apply Forall_app. split; [exact Hacc|]. apply Forall_forall. intros x Hx. apply repeat_spec in Hx. lia.
              ** exact Hprev.
           ++ cbn. eexists. reflexivity.
        -- (* 18: 11..138 zeros *)
           change (18 =? 16) with false. change (18 =? 17) with false. change (18 =? 18) with true. cbv iota. rewrite mbind_assoc.
           destruct (rd_cases 8 7 rest ltac:(lia)) as [(e & rest2 & Em2 & Es2 & He & _)|[Em2 Es2]];
             unfold mbind at 1; unfold sbind at 1; rewrite Em2, Es2; [|cbn; now exists RTruncated].
           rewrite mbind_ret. cbv beta iota. unfold require, rule_repeat_fits.
           replace (e + 11) with (11 + e) by lia.
           destruct (N.leb_spec (nlen acc + (11 + e)) max) as [Fit|Fit]; cbn [negb].
           ++ rewrite sbind_ret. change (0 =? 0) with true. cbv iota.
              apply IH.
              ** rewrite AppLen. lia.
              ** apply Forall_app. split; [exact Hacc|]. apply Forall_forall. intros x Hx. apply repeat_spec in Hx. lia.
              ** exact Hprev.
           ++ cbn. eexists. reflexivity.
Qed.

(* ---------------------------------------------------------------- read_prefix_code = read_code (strict reading) *)
Lemma alphabet_size_bound k cache_len : cache_len <= 2048 -> alphabet_size k cache_len <= 2328.
Proof. destruct k; cbn [alphabet_size]; lia. Qed.

Lemma sym_width_ge8 k : 8 <= sym_width k.
Proof. destruct k; cbn; lia. Qed.

Lemma sim_one_bit_symbol bits :
  sim (fun a b => a = b /\ a < 256) (mbind rd_bit (fun b => mret (N.b2n b)) bits) (read_bits 1 bits).
Proof.
  destruct bits as [|b r].
  - cbn. exists RTruncated. reflexivity.
  - cbn. exists (N.b2n b). split; [destruct b; reflexivity|]. split; [reflexivity|destruct b; cbn; lia].
Qed.

Lemma sim_read_prefix_code k cache_len bits : cache_len <= 2048 ->
  sim (fun t cl => R_tbl (alphabet_size k cache_len) t (code_table cl))
      (read_prefix_code k cache_len bits) (read_code true (alphabet_size k cache_len) bits).
Proof.
  intros Hc. pose proof (alphabet_size_bound k cache_len Hc) as HA.
  set (A := alphabet_size k cache_len) in *.
  unfold read_prefix_code, read_code. fold A.
  eapply sim_bind; [apply sim_rd_bit|]. intros simple ? bits1 <-. destruct simple.
  - (* simple code *)
    eapply sim_bind; [apply sim_rd_bit|]. intros two ? bits2 <-.
    eapply sim_bind; [apply sim_rd_bit|]. intros is8 ? bits3 <-.
    eapply sim_bind with (R := fun a b => a = b /\ a < 256).
    { destruct is8; [|apply sim_one_bit_symbol].
      eapply sim_weaken; [|apply sim_rd; apply sym_width_ge8]. cbn. intros a b [-> H]. auto. }
    intros first ? bits4 [<- Hf].
    eapply sim_bind with (R := fun a b => match a with
                                         | Some s => two = true /\ s < 256 /\ b = [first; s]
                                         | None => two = false /\ b = [first] end).
    { destruct two.
      - eapply sim_bind; [apply sim_rd; apply sym_width_ge8|]. intros s ? bits5 [<- Hs]. apply sim_ret. cbn in Hs. auto.
      - apply sim_ret. auto. }
    intros second syms bits5 Hsec.
    rewrite N.mod_small by lia.
    destruct second as [s|].
    + destruct Hsec as (-> & Hs & ->). rewrite N.mod_small by lia.
      unfold require. cbn [forallb]. unfold rule_symbol_in_alphabet. rewrite andb_true_r.
      destruct (N.ltb_spec first A) as [F1|F1]; cbn [negb andb]; [|apply sim_fail_fail].
      destruct (N.ltb_spec s A) as [F2|F2]; cbn [negb]; [|apply sim_fail_fail].
      rewrite sbind_ret.
      destruct (N.eqb_spec s first) as [->|Ne]; cbn [negb].
      * destruct (simple_one_tbl A first [first; first] F1 ltac:(discriminate)) as [V HR].
        { intros x [<-|[<-|[]]]; reflexivity. }
        unfold rule_code. rewrite V. rewrite sbind_ret. destruct (simple_codes first first) as [-> _].
        cbn. eexists. split; [reflexivity|exact HR].
      * destruct (simple_two_tbl A (N.min first s) (N.max first s) [first; s]) as [V HR]; [lia|lia| |].
        { intros x. cbn [In]. lia. }
        unfold rule_code. rewrite V. rewrite sbind_ret. destruct (simple_codes (N.min first s) (N.max first s)) as [_ ->].
        cbn. eexists. split; [reflexivity|exact HR].
    + destruct Hsec as (-> & ->).
      unfold require. cbn [forallb]. unfold rule_symbol_in_alphabet. rewrite andb_true_r.
      destruct (N.ltb_spec first A) as [F1|F1]; cbn [negb]; [|apply sim_fail_fail].
      rewrite sbind_ret.
      destruct (simple_one_tbl A first [first] F1 ltac:(discriminate)) as [V HR].
      { intros x [<-|[]]; reflexivity. }
      unfold rule_code. rewrite V. rewrite sbind_ret. destruct (simple_codes first first) as [-> _].
      cbn. eexists. split; [reflexivity|exact HR].
  - (* normal code *)
    unfold read_code_length_code. rewrite !mbind_assoc.
    eapply sim_bind; [apply sim_rd; lia|]. intros n ? bits2 [<- Hn].
    replace (N.to_nat (n + 4)) with (N.to_nat (4 + n)) by lia.
    rewrite mbind_assoc.
    eapply sim_bind.
    { change code_length_code_order with CODE_ORDER. apply sim_read_clc. apply Forall_forall. intros x Hx. apply repeat_spec in Hx. lia. }
    intros cl ? bits3 (<- & Hlen & HF8).
    eapply sim_bind.
    { apply sim_new_vec. eapply Forall_lt_weaken; [|exact HF8]. lia. }
    intros clc [] bits4 HRclc.
    assert (HR19 : R_tbl 19 clc (code_table cl)).
    { unfold nlen in HRclc. rewrite Hlen, repeat_length in HRclc. exact HRclc. }
    eapply sim_bind; [apply sim_rd_bit|]. intros use_max ? bits5 <-.
    eapply sim_bind with (R := fun reads ms => (reads <=? A) = (ms <=? A) /\ (reads <= A -> reads = ms)).
    { destruct use_max.
      - eapply sim_bind; [apply sim_rd; lia|]. intros n3 ? bits6 [<- Hn3].
        eapply sim_bind; [apply sim_rd; cbn in Hn3; lia|]. intros v ? bits7 [<- Hv].
        apply sim_ret. destruct (N.leb_spec (2 + v) 65535).
        + rewrite N.min_l by lia. auto.
        + rewrite N.min_r by lia. split; [|lia].
          replace (65535 <=? A) with false by (symmetry; apply N.leb_gt; lia).
          symmetry; apply N.leb_gt; lia.
      - apply sim_ret. auto. }
    intros reads ms bits6 [Hle Heq].
    unfold require, rule_symbol_count. rewrite <- Hle.
    destruct (N.leb_spec reads A) as [Fit|Fit]; cbn [negb]; [|apply sim_fail_fail].
    rewrite sbind_ret. rewrite <- (Heq Fit).
    eapply sim_bind.
    { apply sim_read_code_lengths; [exact HR19|cbn; lia|constructor|lia]. }
    intros lens ? bits7 (<- & HF15 & HlenA).
    rewrite <- (mbind_ret_r (mlift (new_vec lens)) bits7).
    eapply sim_bind.
    { apply sim_new_vec. eapply Forall_le_lt; [|exact HF15]. lia. }
    intros t [] bits8 HRt. apply sim_ret. eapply R_tbl_weaken; [exact HlenA|exact HRt].
Qed.

(* ---------------------------------------------------------------- groups and the colour-cache parameter *)
Definition R_group (cache_len : N) (g : group) (cs : codes) : Prop :=
  R_tbl (256 + 24 + cache_len) (g_green g) (c_green cs) /\ R_tbl 256 (g_red g) (c_red cs) /\
  R_tbl 256 (g_blue g) (c_blue cs) /\ R_tbl 256 (g_alpha g) (c_alpha cs) /\ R_tbl 40 (g_dist g) (c_dist cs).

Lemma sim_read_group cache_len bits : cache_len <= 2048 ->
  sim (R_group cache_len) (read_group cache_len bits) (read_codes true cache_len bits).
Proof.
  intros Hc. unfold read_group, read_codes.
  eapply sim_bind; [exact (sim_read_prefix_code KGreen cache_len bits Hc)|]. intros t1 c1 b1 H1.
  eapply sim_bind; [exact (sim_read_prefix_code KArb cache_len b1 Hc)|]. intros t2 c2 b2 H2.
  eapply sim_bind; [exact (sim_read_prefix_code KArb cache_len b2 Hc)|]. intros t3 c3 b3 H3.
  eapply sim_bind; [exact (sim_read_prefix_code KArb cache_len b3 Hc)|]. intros t4 c4 b4 H4.
  eapply sim_bind; [exact (sim_read_prefix_code KDist cache_len b4 Hc)|]. intros t5 c5 b5 H5.
  apply sim_ret. unfold R_group. cbn [g_green g_red g_blue g_alpha g_dist c_green c_red c_blue c_alpha c_dist].
  split; [exact H1|split; [exact H2|split; [exact H3|split; [exact H4|exact H5]]]].
Qed.

Lemma sim_read_color_cache bits :
  sim (fun len cb => len = cache_size cb /\ len <= 2048 /\ cb <= 11) (read_color_cache bits) (read_cache_bits bits).
Proof.
  unfold read_color_cache, read_cache_bits.
  eapply sim_bind; [apply sim_rd_bit|]. intros has ? b1 <-. destruct has.
  - eapply sim_bind; [apply sim_rd; lia|]. intros order ? b2 [<- Ho].
    unfold require, rule_cache_bits.
    destruct (N.leb_spec order 11) as [H11|H11]; cbn [negb].
    + destruct (N.eqb_spec order 0) as [->|H0].
      * cbn. eexists. reflexivity.
      * replace (1 <=? order) with true by (symmetry; apply N.leb_le; lia). cbn [andb]. rewrite sbind_ret.
        apply sim_ret. unfold cache_size. replace (order =? 0) with false by (symmetry; apply N.eqb_neq; exact H0).
        split; [reflexivity|]. split; [|exact H11].
        change 2048 with (2 ^ 11). apply N.pow_le_mono_r; lia.
    + rewrite andb_false_r. apply sim_fail_fail.
  - apply sim_ret. cbn. repeat split; lia.
Qed.
