(* Model of webpsan/src/parse/bitstream.rs `CanonicalHuffmanTree::{new, from_symbols, symbols, longest_code_len}`,
   `BitBufReader::buf_read_huffman` (on an ideal bit list; the refill machine is C19's business), and of
   bitstream-io 1.10.0 `huffman::compile_read_tree` (FinalHuffmanTree::new = WipHuffmanTree::add* + into_read_tree)
   and `BitReader::read_huffman` (the byte-indexed state table is a compilation of the bit-by-bit descent of the
   final tree; a root leaf consumes nothing).

   Symbols and code lengths are N (Rust: S = u8/u16, code_length: u8); a code is a `list bool`, first element =
   first bit read (Rust: Vec<u8> of 0/1, index 0 first).  Definitions only; the one lemma below is the totality
   fact the stdlib merge-sort functor asks for. *)
From Coq Require Import List NArith Bool Orders Mergesort.
From MS Require Import Base.Outcome.
Import ListNotations.
Open Scope N_scope.

Definition code := list bool.

(* ------------------------------------------------------------------------------------------------------------
   code_lengths.sort_unstable_by_key(|&(symbol, code_length)| (code_length, symbol))
   The key is the whole element (swapped), so elements with equal keys are equal and every correct sorting
   algorithm returns the same list; modelled by the stdlib merge sort (sortedness + permutation are theorems
   of the functor, re-exported in HuffmanProofs.v). *)
Module KeyOrder <: TotalLeBool.
  Definition t := (N * N)%type.                      (* (symbol, code_length) *)
  Definition leb (a b : t) : bool :=
    let '(s1, l1) := a in let '(s2, l2) := b in
    (l1 <? l2) || ((l1 =? l2) && (s1 <=? s2)).       (* (l1, s1) <= (l2, s2) lexicographically *)
  Theorem leb_total : forall a b, leb a b = true \/ leb b a = true.
  Proof.
    intros [s1 l1] [s2 l2]; unfold leb.
    destruct (N.ltb_spec l1 l2); [now left|].
    destruct (N.ltb_spec l2 l1); [now right|].
    assert (l1 = l2) by (apply N.le_antisymm; assumption). subst.
    rewrite N.eqb_refl; cbn [orb andb].
    destruct (N.leb_spec s1 s2); [now left|right].
    apply N.leb_le, N.lt_le_incl; assumption.
  Qed.
End KeyOrder.
Module KeySort := Sort KeyOrder.

Definition sort_by_key (cl : list (N * N)) : list (N * N) := KeySort.sort cl.

(* code_lengths.partition_point(|&(_, l)| l == 0) on the sorted slice, then &code_lengths[zero_count..]:
   the zero lengths are a prefix of the sorted slice, so this drops exactly that prefix *)
Fixpoint drop_zeros (l : list (N * N)) : list (N * N) :=
  match l with
  | (_, 0) :: r => drop_zeros r
  | _ => l
  end.

(* Vec::resize(n, 0): truncate or extend with zeros *)
Definition resize (n : nat) (c : code) : code := firstn n c ++ repeat false (n - length c).

(* for code_bit in code.iter_mut().rev() { *code_bit ^= 1; if *code_bit == 1 { break; } }
   on the reversed list: flip ones to zero until the first zero, which becomes one; all ones => all zeros (wrap) *)
Fixpoint inc_rev (r : list bool) : list bool :=
  match r with
  | [] => []
  | true :: r' => false :: inc_rev r'
  | false :: r' => true :: r'
  end.
Definition incr (c : code) : code := rev (inc_rev (rev c)).

(* the `for &(symbol, code_length) in rest_code_lengths` loop; `c` is the mutable `code` vector *)
Fixpoint assign (c : code) (rest : list (N * N)) : list (N * code) :=
  match rest with
  | [] => []
  | (s, l) :: r => let c' := resize (N.to_nat l) (incr c) in (s, c') :: assign c' r
  end.

Definition symbols (cl : list (N * N)) : list (N * code) :=
  match drop_zeros (sort_by_key cl) with
  | [(s, 1)] => [(s, [])]
  | (s, l) :: rest => let c := resize (N.to_nat l) [] in (s, c) :: assign c rest
  | [] => []
  end.

(* ------------------------------------------------------------------------------------------------------------
   bitstream-io huffman.rs *)
Inductive hterr := InvalidBit | MissingLeaf | DuplicateLeaf | OrphanedLeaf.

Inductive wip := WEmpty | WLeaf (s : N) | WTree (z o : wip).
Inductive ftree := FLeaf (s : N) | FNode (z o : ftree).

(* WipHuffmanTree::add.  (InvalidBit cannot arise: codes are lists of booleans.) *)
Fixpoint add (t : wip) (c : code) (s : N) {struct c} : wip + hterr :=
  match t with
  | WEmpty =>
      match c with
      | [] => inl (WLeaf s)
      | b :: c' =>                                   (* *self = new_tree(); self.add(code, symbol) *)
          match add WEmpty c' s with
          | inl t' => inl (if b then WTree WEmpty t' else WTree t' WEmpty)
          | inr e => inr e
          end
      end
  | WLeaf _ => inr (match c with [] => DuplicateLeaf | _ :: _ => OrphanedLeaf end)
  | WTree z o =>
      match c with
      | [] => inr DuplicateLeaf
      | false :: c' => match add z c' s with inl z' => inl (WTree z' o) | inr e => inr e end
      | true :: c' => match add o c' s with inl o' => inl (WTree z o') | inr e => inr e end
      end
  end.

Fixpoint add_all (t : wip) (syms : list (N * code)) : wip + hterr :=
  match syms with
  | [] => inl t
  | (s, c) :: r => match add t c s with inl t' => add_all t' r | inr e => inr e end
  end.

(* WipHuffmanTree::into_read_tree *)
Fixpoint finalize (t : wip) : ftree + hterr :=
  match t with
  | WEmpty => inr MissingLeaf
  | WLeaf s => inl (FLeaf s)
  | WTree z o =>
      match finalize z with
      | inr e => inr e
      | inl fz => match finalize o with inr e => inr e | inl fo => inl (FNode fz fo) end
      end
  end.

(* FinalHuffmanTree::new; compile_read_tree then tabulates it *)
Definition compile (syms : list (N * code)) : ftree + hterr :=
  match add_all WEmpty syms with
  | inl t => finalize t
  | inr e => inr e
  end.

(* BitReader::read_huffman: bit-by-bit descent; None = the bits ran out inside a symbol *)
Fixpoint decode (f : ftree) (bits : list bool) : option (N * list bool) :=
  match f with
  | FLeaf s => Some (s, bits)
  | FNode z o =>
      match bits with
      | [] => None
      | b :: r => decode (if b then o else z) r
      end
  end.

(* ------------------------------------------------------------------------------------------------------------
   webpsan CanonicalHuffmanTree *)
Record htree := { ht_tree : ftree; ht_longest : N }.

Definition max_code_len (syms : list (N * code)) : N :=
  fold_right (fun sc acc => N.max (N.of_nat (length (snd sc))) acc) 0 syms.

(* `... .max().unwrap_or_default() as u32` : usize -> u32 truncates *)
Definition longest_of (syms : list (N * code)) : N :=
  match syms with
  | [_] => 0
  | _ => max_code_len syms mod 2 ^ 32
  end.

Definition from_symbols (syms : list (N * code)) : res htree :=
  let longest := longest_of syms in
  match compile syms with
  | inl f => Ok {| ht_tree := f; ht_longest := longest |}
  | inr _ => EParse InvalidVp8lPrefixCode
  end.

Definition new (cl : list (N * N)) : res htree := from_symbols (symbols cl).

(* bitstream-io compile_read_tree / compile_queue: the read tree is tabulated per reader state.  The top level is one table
   of 256 states (0..7 queued bits and their values); compiling a state walks the tree along the queued bits, and wherever
   the queue runs empty at an internal node a 256-entry continuation table (indexed by the next byte) is allocated, each
   entry compiled in the same way with the 8 bits of that byte.  [cont_tables f j]: continuation tables allocated below
   [f] over all values of a queue of j bits (j = 0: the queue is empty here); [total_tables]: all tables of a tree *)
Fixpoint cont_tables (f : ftree) (j : nat) : nat :=
  match f with
  | FLeaf _ => 0
  | FNode z o =>
      match j with
      | O => S (cont_tables z 7 + cont_tables o 7)
      | S j' => cont_tables z j' + cont_tables o j'
      end
  end%nat.
Definition total_tables (f : ftree) : nat :=
  S (fold_right (fun k a => cont_tables f k + a) 0 (seq 0 8))%nat.

(* the callers in lossless.rs pass [(0, l0), (1, l1), ...] *)
Fixpoint index_from (i : N) (cl : list N) : list (N * N) :=
  match cl with
  | [] => []
  | l :: r => (i, l) :: index_from (i + 1) r
  end.
Definition new_vec (cl : list N) : res htree := new (index_from 0 cl).

(* buf_read_huffman on an ideal bit list: eof => TruncatedChunk *)
Definition read_huffman (t : htree) (bits : list bool) : res (N * list bool) :=
  match decode (ht_tree t) bits with
  | Some r => Ok r
  | None => EParse TruncatedChunk
  end.

(* read up to n symbols, stopping at the first TruncatedChunk; returns the symbols and the unread bits *)
Fixpoint decode_many (n : nat) (f : ftree) (bits : list bool) : list N * list bool :=
  match n with
  | O => ([], bits)
  | S k =>
      match decode f bits with
      | None => ([], bits)
      | Some (s, rest) => let '(ss, r) := decode_many k f rest in (s :: ss, r)
      end
  end.

(* what both runners print for one case: longest_code_len, the symbols read, the number of bits consumed *)
Definition observe (r : res htree) (n : nat) (bits : list bool) : option (N * list N * N) :=
  match r with
  | Ok t =>
      let '(ss, rest) := decode_many n (ht_tree t) bits in
      Some (ht_longest t, ss, N.of_nat (length bits - length rest))
  | _ => None
  end.
