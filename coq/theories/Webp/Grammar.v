(* INDEPENDENT SPECIFICATION for C06 / C14(c): RIFF framing and the WebP chunk grammar, written from the property
   text and the WebP container specification, not from the reader machinery.  Two stages:
   (1) [chunks]: eager tiling of a byte region into chunks (fourcc, payload) with zero pad after odd sizes,
       every chunk inside the region;
   (2) the sequence grammar  VP8 | VP8L | VP8X [ICCP] (ANIM ANMF+ | [ALPH] VP8|VP8L) [EXIF] [XMP]  unknown*
   with the VP8X flag rules.  Literal numbers of the documents are used; nothing is imported from the model files
   (Container.v, Prim.v, Chunks.v) or from Gen/Consts.v.  Validity of a lossless payload is the parameter
   [lossless_ok w h payload]. *)
From Coq Require Import List NArith Bool Lia.
From Coq.Strings Require Import Byte.
From MS Require Import Base.Bytes Base.Prog.
Import ListNotations.
Open Scope N_scope.

Definition cc (a b c d : byte) : bytes := [a; b; c; d].
Definition gRIFF := cc x52 x49 x46 x46.  Definition gWEBP := cc x57 x45 x42 x50.
Definition gVP8 := cc x56 x50 x38 x20.   Definition gVP8L := cc x56 x50 x38 x4c.  Definition gVP8X := cc x56 x50 x38 x58.
Definition gALPH := cc x41 x4c x50 x48.  Definition gANIM := cc x41 x4e x49 x4d.  Definition gANMF := cc x41 x4e x4d x46.
Definition gEXIF := cc x45 x58 x49 x46.  Definition gICCP := cc x49 x43 x43 x50.  Definition gXMP := cc x58 x4d x50 x20.
Definition geq (a b : bytes) : bool := if list_eq_dec Byte.byte_eq_dec a b then true else false.

Definition get (inp : input) (off len : N) : bytes := iread inp off (N.to_nat len).
Definition le (inp : input) (off len : N) : N := le2n (get inp off len).

Record wchunk := { w_name : bytes; w_off : N (* payload offset *); w_len : N (* payload length *) }.

(* chunks of the region [off, stop): header 8 bytes, payload, one zero pad byte after an odd-sized payload.
   Result: None = fuel exhausted; Some None = the region is not tiled by chunks; Some (Some cs). *)
Fixpoint chunks (fuel : nat) (inp : input) (off stop : N) : option (option (list wchunk)) :=
  if stop <=? off then Some (if off =? stop then Some [] else None) else
  match fuel with
  | O => None
  | S fuel' =>
      if stop <? off + 8 then Some None else
      let name := get inp off 4 in
      let len := le inp (off + 4) 4 in
      let pad := if N.odd len then 1 else 0 in
      if stop <? off + 8 + len + pad then Some None else
      if (pad =? 1) && negb (le inp (off + 8 + len) 1 =? 0) then Some None else
      match chunks fuel' inp (off + 8 + len + pad) stop with
      | None => None
      | Some None => Some None
      | Some (Some r) => Some (Some ({| w_name := name; w_off := off + 8; w_len := len |} :: r))
      end
  end.
(* every chunk takes at least 8 bytes, so this fuel always suffices *)
Definition region_chunks (inp : input) (off stop : N) : option (list wchunk) :=
  match chunks (S (N.to_nat ((stop - off) / 8))) inp off stop with Some r => r | None => None end.

Definition known (n : bytes) : bool :=
  geq n gALPH || geq n gANIM || geq n gANMF || geq n gEXIF || geq n gICCP || geq n gVP8 || geq n gVP8L || geq n gVP8X || geq n gXMP.

Section Spec.
Variable lossless_ok : N -> N -> bytes -> bool.
Variable allow_unknown : bool.
Variable inp : input.

Definition payload (c : wchunk) : bytes := get inp (w_off c) (w_len c).

(* only unknown chunks, and only when allowed *)
Definition tail_ok (cs : list wchunk) : bool :=
  match cs with [] => true | _ => allow_unknown && forallb (fun c => negb (known (w_name c))) cs end.

(* VP8L payload: 0x2f, 14-bit width-1, 14-bit height-1, alpha bit, 3-bit version = 0, then the lossless stream *)
Definition vp8l_dims (c : wchunk) : option (N * N) :=
  if w_len c <? 5 then None else
  if negb (le inp (w_off c) 1 =? 47) then None else
  let v := le inp (w_off c + 1) 4 in
  if negb ((v / 2 ^ 29) mod 8 =? 0) then None else
  Some (v mod 2 ^ 14 + 1, (v / 2 ^ 14) mod 2 ^ 14 + 1).
Definition vp8l_ok (dims : option (N * N)) (c : wchunk) : bool :=
  match vp8l_dims c with
  | None => false
  | Some (w, h) =>
      (match dims with Some (w', h') => (w =? w') && (h =? h') | None => true end)
      && lossless_ok w h (get inp (w_off c + 5) (w_len c - 5))
  end.

(* ALPH payload: one byte: bits 0 (lossless compression), 2-3 (filter), 4 (pre-processing) may be set *)
Definition alph_ok (w h : N) (c : wchunk) : bool :=
  (1 <=? w_len c) &&
  let f := le inp (w_off c) 1 in
  (N.land f 226 =? 0) &&                      (* 0xE2: reserved bits and the undefined compression bit *)
  (if N.odd f then lossless_ok w h (get inp (w_off c + 1) (w_len c - 1)) else true).

(* image data: [ALPH] (VP8 | VP8L); alpha_required: a still image with the alpha flag needs ALPH,
   alpha_allowed: ALPH may appear.  ALPH is never combined with VP8L. Returns the rest. *)
Definition image_ok (alpha_allowed alpha_required : bool) (w h : N) (cs : list wchunk) : option (list wchunk) :=
  match cs with
  | a :: r =>
      if geq (w_name a) gALPH then
        if alpha_allowed && alph_ok w h a then
          match r with
          | i :: r' => if geq (w_name i) gVP8 then Some r' else None
          | [] => None
          end
        else None
      else if alpha_required then None
      else if geq (w_name a) gVP8 then Some r
      else if geq (w_name a) gVP8L then (if vp8l_ok (Some (w, h)) a then Some r else None)
      else None
  | [] => None
  end.

(* one ANMF frame: 16-byte frame header (x, y, width-1, height-1 as 24-bit values, duration, flags with 6 reserved
   bits), then chunks: [ALPH] VP8|VP8L, then unknown chunks *)
Definition frame_ok (alpha_flag : bool) (c : wchunk) : bool :=
  (16 <=? w_len c) &&
  (N.land (le inp (w_off c + 15) 1) 252 =? 0) &&
  let fw := le inp (w_off c + 6) 3 + 1 in
  let fh := le inp (w_off c + 9) 3 + 1 in
  match region_chunks inp (w_off c + 16) (w_off c + w_len c) with
  | None => false
  | Some cs => match image_ok alpha_flag false fw fh cs with Some r => tail_ok r | None => false end
  end.

Fixpoint take_frames (alpha_flag : bool) (cs : list wchunk) : option (list wchunk) :=
  match cs with
  | c :: r => if geq (w_name c) gANMF then (if frame_ok alpha_flag c then take_frames alpha_flag r else None) else Some cs
  | [] => Some []
  end.

Definition opt_chunk (flag : bool) (name : bytes) (cs : list wchunk) : option (list wchunk) :=
  if flag then match cs with c :: r => if geq (w_name c) name then Some r else None | [] => None end
  else Some cs.

(* after VP8X *)
Definition extended_ok (x : wchunk) (cs : list wchunk) : bool :=
  (w_len x =? 10) &&
  let f := le inp (w_off x) 1 in
  (N.land f 193 =? 0) &&                       (* 0xC1: reserved bits of the VP8X flags *)
  (le inp (w_off x + 1) 3 =? 0) &&             (* reserved 24 bits *)
  let cw := le inp (w_off x + 4) 3 + 1 in
  let ch := le inp (w_off x + 7) 3 + 1 in
  (cw * ch <? 2 ^ 32) &&
  let iccp := N.testbit f 5 in let alpha := N.testbit f 4 in let exif := N.testbit f 3 in
  let xmp := N.testbit f 2 in let anim := N.testbit f 1 in
  match opt_chunk iccp gICCP cs with None => false | Some cs1 =>
  match (if anim then
           match cs1 with
           | a :: r => if geq (w_name a) gANIM && (w_len a =? 6) then
                         match r with
                         | fr :: _ => if geq (w_name fr) gANMF then take_frames alpha r else None   (* at least one frame *)
                         | [] => None
                         end
                       else None
           | [] => None
           end
         else image_ok alpha alpha cw ch cs1) with
  | None => false
  | Some cs2 =>
  match opt_chunk exif gEXIF cs2 with None => false | Some cs3 =>
  match opt_chunk xmp gXMP cs3 with None => false | Some cs4 => tail_ok cs4 end end end end.

Definition sequence_ok (cs : list wchunk) : bool :=
  match cs with
  | c :: r =>
      if geq (w_name c) gVP8 then tail_ok r
      else if geq (w_name c) gVP8L then vp8l_ok None c && tail_ok r
      else if geq (w_name c) gVP8X then extended_ok c r
      else false
  | [] => false
  end.

(* the whole file: one RIFF/WEBP container whose declared size accounts for every input byte.
   [webp_spec_with fuel]: the file-level tiling runs with the given fuel (None = fuel exhausted);
   [webp_spec] uses a fuel that always suffices (every chunk takes at least 8 bytes). *)
Definition framing_ok : bool :=
  (12 <=? ilen inp) &&
  geq (get inp 0 4) gRIFF &&
  let size := le inp 4 4 in
  (4 <=? size) &&
  geq (get inp 8 4) gWEBP &&
  (size + 8 <=? 2 ^ 32 - 2) &&                                     (* the format's size limit *)
  (ilen inp =? 8 + size + (if N.odd size then 1 else 0)) &&        (* not truncated, nothing trailing *)
  (if N.odd size then le inp (8 + size) 1 =? 0 else true).

Definition webp_spec_with (fuel : nat) : option bool :=
  if negb framing_ok then Some false else
  match chunks fuel inp 12 (8 + le inp 4 4) with
  | None => None
  | Some None => Some false
  | Some (Some cs) => Some (sequence_ok cs)
  end.

Definition webp_spec : bool :=
  framing_ok &&
  match region_chunks inp 12 (8 + le inp 4 4) with
  | None => false
  | Some cs => sequence_ok cs
  end.
End Spec.
