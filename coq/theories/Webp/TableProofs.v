(* The literal tables and constants of the lossless model (Webp/Vp8l.v) against the ones the source has now
   (Gen/WebpTables.v, regenerated from webpsan/src/parse/{lossless,bitstream,vp8l}.rs on every run).
   DISTANCE_MAP and CODE_ORDER are taken from the generated file directly (Vp8l.v: Eval vm_compute in ..._SRC); the
   remaining ones are written in the model as literals inside its definitions and are pinned here. *)
From Coq Require Import List NArith ZArith Bool Lia.
From MS Require Import Base.Bytes Base.Outcome Webp.Huffman Webp.Vp8l Gen.WebpTables.
Import ListNotations.
Open Scope N_scope.

(* a `match x { 0..=a => v1, a+1..=b => v2, ..., c.. => d }` as a table of (last value of the range, result) *)
Fixpoint lookup_range (t : list (N * N)) (dflt x : N) : N :=
  match t with
  | [] => dflt
  | (hi, v) :: r => if x <=? hi then v else lookup_range r dflt x
  end.

(* Transform::transformed_width *)
Theorem color_index_block_is_src : forall len,
  color_index_block len = lookup_range COLOR_INDEX_BLOCKS_SRC COLOR_INDEX_BLOCK_DEFAULT_SRC len.
Proof. intros len. reflexivity. Qed.

(* PrefixCode::alphabet_size for the three kinds *)
Theorem alphabet_size_is_src : forall k cache_len,
  alphabet_size k cache_len =
  match k with
  | KGreen => ALPHABET_GREEN_BASE_SRC + ALPHABET_GREEN_LEN_SRC + cache_len
  | KArb => ALPHABET_ARB_SRC
  | KDist => ALPHABET_DIST_SRC
  end.
Proof. intros [| |] c; reflexivity. Qed.

(* the tables the model takes over as they are *)
Theorem tables_taken_from_source :
  DISTANCE_MAP_Z = DISTANCE_MAP_SRC /\ DISTANCE_MAP_LEN = DISTANCE_MAP_LEN_SRC /\ CODE_ORDER = CODE_ORDER_SRC /\
  N.of_nat (length DISTANCE_MAP_SRC) = DISTANCE_MAP_LEN_SRC /\ length CODE_ORDER_SRC = 19%nat.
Proof. repeat split; reflexivity. Qed.

(* the literals inside the model's definitions: TransformType discriminants (read_transform: 0 predictor, 1 colour, 2 subtract
   green, 3 colour indexing), the largest colour-cache order (read_color_cache: 11), the repeat tokens (read_length_token:
   16 -> 3 + 2 bits, 17 -> 3 + 3 bits, 18 -> 11 + 7 bits), the back-reference symbols (pixel_loop: 256..279, colour cache from
   280 = base + length symbols), the VP8L signature byte (Container.v: 47), the largest LZ77 symbol (39) *)
Theorem literals_match_source :
  TRANSFORM_CODES_SRC = [0; 1; 2; 3] /\ COLOR_CACHE_MAX_ORDER_SRC = 11 /\
  REPEAT_CODES_SRC = [(16, (3, 2)); (17, (3, 3)); (18, (11, 7))] /\
  BACKREF_SYMBOLS_SRC = (256, 279) /\ ALPHABET_GREEN_BASE_SRC + ALPHABET_GREEN_LEN_SRC = 280 /\
  VP8L_SIGNATURE_SRC = 47 /\ LZ77_MAX_SYMBOL_SRC = 39 /\ LZ77_MAX_LEN_SRC = 18.
Proof. repeat split; reflexivity. Qed.
