(* C14(c): what [allow_unknown_chunks] changes.  The two programmes [webp_prog lossless false fuel] and
   [webp_prog lossless true fuel] are compared directly (a simulation between the two runs, for EVERY reader, not only
   the ideal cursor): the run with allow=false is the run with allow=true up to the first unknown trailing chunk, where
   it stops with UnsupportedChunk; otherwise the two runs are identical (same result, same final reader state). *)
From Coq Require Import List NArith Bool Lia.
From Coq.Strings Require Import Byte.
From MS Require Import Base.Bytes Base.Outcome Base.Prog Webp.Prim Webp.Chunks Webp.Container Webp.ContainerProofs.
Import ListNotations.
Open Scope N_scope.

Section Sim.
Variable R : reader.

(* p stops with UnsupportedChunk, or p and q run identically *)
Definition usim {A} (p q : prog A) : Prop :=
  forall s, run R p s = run R q s \/ exists t s', run R p s = (EParse (UnsupportedChunk t), s').

Lemma usim_refl {A} (p : prog A) : usim p p.
Proof. intros s. now left. Qed.

Lemma usim_bind {A B} (p q : prog A) (f g : A -> prog B) :
  usim p q -> (forall a, usim (f a) (g a)) -> usim (pbind p f) (pbind q g).
Proof.
  intros Hp Hf s. rewrite !run_pbind. destruct (Hp s) as [E | (t & s' & E)]; rewrite E.
  - destruct (run R q s) as [[a| | | |] s']; cbn [ebind]; try (now left). apply Hf.
  - right. exists t, s'. reflexivity.
Qed.

Lemma usim_unsupported {A} t (q : prog A) : usim (Ret (EParse (UnsupportedChunk t))) q.
Proof. intros s. right. exists t, s. reflexivity. Qed.

Variable lossless : N -> N -> bytes -> res unit.

Ltac usim_walk :=
  cbv zeta;
  repeat match goal with
    | |- usim ?p ?p => apply usim_refl
    | |- usim (Ret (EParse (UnsupportedChunk _))) _ => apply usim_unsupported
    | |- usim (pbind _ _) (pbind _ _) => apply usim_bind; [|intros ?]
    | |- usim (if ?b then _ else _) (if ?b then _ else _) => destruct b
    | |- usim (match ?x with _ => _ end) (match ?x with _ => _ end) => destruct x
    | H : forall _, usim _ _ |- usim (?f _ _ _ _) _ => apply H
    | H : forall _, usim _ _ |- usim (?f _ _ _ _ _) _ => apply H
    | H : forall _, usim _ _ |- usim (?f _ _ _) _ => apply H
    | H : forall _ _, usim _ _ |- usim (?f _ _ _ _ _) _ => apply H
    end.

Lemma usim_file_tail fuel : forall l, usim (file_tail false fuel l) (file_tail true fuel l).
Proof.
  induction fuel as [|fuel IH]; intros l; [apply usim_refl|].
  cbn [file_tail negb]. usim_walk.
Qed.
Lemma usim_frame_tail fuel : forall l, usim (frame_tail false fuel l) (frame_tail true fuel l).
Proof.
  induction fuel as [|fuel IH]; intros l; [apply usim_refl|].
  cbn [frame_tail negb]. usim_walk.
Qed.
Lemma usim_one_frame fuel x l : usim (one_frame lossless false fuel x l) (one_frame lossless true fuel x l).
Proof. unfold one_frame. pose proof (usim_frame_tail fuel). usim_walk. Qed.
Lemma usim_frames fuel x : forall l, usim (frames lossless false fuel x l) (frames lossless true fuel x l).
Proof.
  induction fuel as [|fuel IH]; intros l; [apply usim_refl|].
  cbn [frames]. pose proof (usim_one_frame fuel x). usim_walk.
Qed.
Lemma usim_animated fuel x l :
  usim (sanitize_animated lossless false fuel x l) (sanitize_animated lossless true fuel x l).
Proof. unfold sanitize_animated. pose proof (usim_frames fuel x). usim_walk. Qed.
Lemma usim_extended fuel x l :
  usim (sanitize_extended lossless false fuel x l) (sanitize_extended lossless true fuel x l).
Proof. unfold sanitize_extended. pose proof (usim_animated fuel x). usim_walk. Qed.
Lemma usim_webp_prog fuel : usim (webp_prog lossless false fuel) (webp_prog lossless true fuel).
Proof.
  unfold webp_prog. pose proof (usim_extended fuel). pose proof (usim_file_tail fuel). usim_walk.
Qed.
End Sim.

(* the statement on results *)
Theorem webp_allow_simulation lossless lenient ms inp fuel :
  webp_sanitize lossless false lenient ms inp fuel = webp_sanitize lossless true lenient ms inp fuel
  \/ exists t, webp_sanitize lossless false lenient ms inp fuel = EParse (UnsupportedChunk t).
Proof.
  unfold webp_sanitize.
  destruct (usim_webp_prog (cursor inp lenient ms) lossless fuel 0) as [E | (t & s' & E)]; rewrite E; [now left|].
  right. exists t. reflexivity.
Qed.

(* for every reader: identical runs (result and final reader state), or allow=false stops with UnsupportedChunk *)
Theorem webp_allow_simulation_any_reader (R : reader) lossless fuel (s : rst R) :
  run R (webp_prog lossless false fuel) s = run R (webp_prog lossless true fuel) s
  \/ exists t s', run R (webp_prog lossless false fuel) s = (EParse (UnsupportedChunk t), s').
Proof. apply usim_webp_prog. Qed.

Definition is_unsupported_chunk {A} (r : res A) : bool :=
  match r with EParse (UnsupportedChunk _) => true | _ => false end.

Theorem webp_allow_unknown_only lossless lenient ms inp fuel :
  let off := webp_sanitize lossless false lenient ms inp fuel in
  let on := webp_sanitize lossless true lenient ms inp fuel in
  (off = Ok tt -> on = Ok tt)
  /\ (is_unsupported_chunk off = false -> on = off)
  /\ (on = Ok tt -> off = Ok tt \/ exists t, off = EParse (UnsupportedChunk t)).
Proof.
  cbn zeta. destruct (webp_allow_simulation lossless lenient ms inp fuel) as [E | (t & E)]; rewrite E.
  - repeat split; auto.
  - repeat split; try discriminate. intros _. right. now exists t.
Qed.

Example webp_allow_unknown_only_sat :
  let f := input_of_bytes (RIFF ++ [x16; x00; x00; x00] ++ WEBP ++ VP8 ++ [x02; x00; x00; x00; x01; x02]
                           ++ [x55; x4e; x4b; x4e; x00; x00; x00; x00]) in
  webp_sanitize (fun _ _ _ => Ok tt) true true U64MAX' f 10 = Ok tt
  /\ webp_sanitize (fun _ _ _ => Ok tt) false true U64MAX' f 10 = EParse (UnsupportedChunk [x55; x4e; x4b; x4e]).
Proof. vm_compute. split; reflexivity. Qed.
