(* The consumer programmes of BitBufSpec.v interpreted over the MODEL of BitBufReader (BitBuf.v). Definitions only. *)
From Coq Require Import List NArith Bool.
From MS Require Import Base.Bytes Base.Outcome Webp.BitBuf Webp.BitBufSpec.
Import ListNotations.
Open Scope N_scope.

Definition hdec_of (d : decoder) : hdec := mkhdec (dc_dec d) (dc_longest d).

Definition buf_op (o : cop) (st : bbr) : res cval * bbr :=
  match o with
  | CRead w n => lift VN (read w n st)
  | CReadBit => lift VB (read_bit st)
  | CHuff d => lift VN (read_huffman (hdec_of d) st)
  | CAhead r => lift (fun _ : unit => VU) (ensure r st)
  | CBRead w n => lift VN (buf_read w n st)
  | CBReadBit => lift VB (buf_read_bit st)
  | CBHuff d => lift VN (buf_read_huffman (hdec_of d) st)
  | CBLz77 c => lift VN (buf_read_lz77 c st)
  end.

Fixpoint run_buf {A} (p : cprog A) (st : bbr) : res A :=
  match p with
  | CRet a => Ok a
  | CFail e => EParse e
  | CDo o k =>
    match buf_op o st with
    | (Ok v, st') => run_buf (k v) st'
    | (EParse e, _) => EParse e | (EIo e, _) => EIo e | (Panic s, _) => Panic s | (OutOfFuel, _) => OutOfFuel
    end
  end.

(* ------------------------------------------------------------------------------------------------------------------ *)
(* The abstraction: what the buffered reader still has to deliver = unread bits of the buffer ++ bits of the bytes the
   underlying reader has not delivered yet.  Once `input` is None the model (like the code) has forgotten the source, so
   nothing is added: that `input = None` is set only when nothing was left is part of what the theorems establish
   (abs is preserved by the refill that sets it). *)
Definition src_rest (st : bbr) : bytes := match input st with Some s => sdata s | None => [] end.
Definition abs (st : bbr) : list bool := br_bits (rd st) ++ bits_of_bytes (src_rest st).
Definition src_empty (st : bbr) : Prop := src_rest st = [].

(* BitReader: cursor within the vector, at most 7 queued bits, the queue holds a value of that many bits, and the queue is
   the tail of the byte before the cursor (bit position 8*rpos - qb of the buffer) *)
Definition reader_inv (r : breader) : Prop :=
  rpos r <= nlen (rbuf r) /\ qb r < 8 /\ qv r < 2 ^ qb r /\ qb r <= 8 * rpos r /\
  br_bits r = ndrop (rpos r * 8 - qb r) (mbits (rbuf r)).
Definition inv (st : bbr) : Prop :=
  reader_inv (rd st) /\ buf_len st = nlen (rbuf (rd st)) /\ nlen (rbuf (rd st)) <= cap st.

(* [agrees b st ideal model]: the model's access returned what the ideal reader returns on abs st, and if that is a
   value, the new state is again consistent, stands for the rest of the bits, has the same capacity, and still has b
   announced bits in its buffer (or the source is exhausted, so the buffer is all there is) *)
Definition agrees {A} (b : N) (st : bbr) (ideal : res A * list bool) (model : res A * bbr) : Prop :=
  fst model = fst ideal /\
  (is_ok (fst ideal) = true ->
   inv (snd model) /\ abs (snd model) = snd ideal /\ cap (snd model) = cap st /\
   (b <= buf_bits (snd model) \/ src_empty (snd model))).

(* One iteration of the pixel loop of EntropyCodedImage::read (lossless.rs) as a consumer programme:
   loop-head check with the read-ahead computed as the code computes it, then buffer-only accesses. *)
Definition readahead_bits (green red blue alpha dist : N) : N :=
  let arb := alpha + red + blue in
  let backref := green + (2 * LZ77_MAX_LEN + dist) in
  green + N.max arb backref.

Definition entropy_iteration {A} (g r b a d : decoder) (k : cval -> cval -> cval -> cval -> cprog A) : cprog A :=
  CDo (CAhead (readahead_bits (dc_longest g) (dc_longest r) (dc_longest b) (dc_longest a) (dc_longest d)))
  (fun _ => CDo (CBHuff g) (fun vg =>
    match vg with
    | VN sym =>
      if sym <? 256 then
        CDo (CBHuff r) (fun vr => CDo (CBHuff b) (fun vb => CDo (CBHuff a) (fun va => k vg vr vb va)))
      else if sym <? 280 then
        CDo (CBLz77 (sym - 256)) (fun vl => CDo (CBHuff d) (fun vd =>
          match vd with
          | VN ds => CDo (CBLz77 ds) (fun vdist => k vg vl vd vdist)
          | _ => CFail WInvalidInput
          end))
      else k vg VU VU VU
    | _ => CFail WInvalidInput
    end)).

(* ------------------------------------------------------------------------------------------------------------------ *)
(* Field sequences of the correspondence check (harness/src/bits.rs `seq`), executed on the model. *)
Inductive sop :=
  | SRead (w n : N) | SReadBit | SHuff (i : nat) | SFill | SBits | SEnsure (r : N)
  | SBRead (w n : N) | SBReadBit | SBHuff (i : nat) | SLz77 (c : N).
Inductive sobs :=
  | ONum (n : N) | OBit (b : bool) | OUnit | OQ (n : N) | OErrParse (e : perr) | OErrIo (e : ioerr) | OPanic | OFuel.

Definition obs_of {A} (f : A -> sobs) (r : res A) : sobs :=
  match r with Ok a => f a | EParse e => OErrParse e | EIo e => OErrIo e | Panic _ => OPanic | OutOfFuel => OFuel end.
Definition is_err (o : sobs) : bool :=
  match o with OErrParse _ | OErrIo _ | OPanic | OFuel => true | _ => false end.

Definition no_tree : hdec := mkhdec (fun _ => None) 0.

Definition run_sop (trees : list hdec) (o : sop) (st : bbr) : sobs * bbr :=
  match o with
  | SRead w n => let '(r, st') := read w n st in (obs_of ONum r, st')
  | SReadBit => let '(r, st') := read_bit st in (obs_of OBit r, st')
  | SHuff i => let '(r, st') := read_huffman (nth i trees no_tree) st in (obs_of ONum r, st')
  | SFill => let '(r, st') := fill_buf st in (obs_of (fun _ => OUnit) r, st')
  | SBits => (OQ (buf_bits st), st)
  | SEnsure r => let '(x, st') := ensure r st in (obs_of (fun _ => OUnit) x, st')
  | SBRead w n => let '(r, st') := buf_read w n st in (obs_of ONum r, st')
  | SBReadBit => let '(r, st') := buf_read_bit st in (obs_of OBit r, st')
  | SBHuff i => let '(r, st') := buf_read_huffman (nth i trees no_tree) st in (obs_of ONum r, st')
  | SLz77 c => let '(r, st') := buf_read_lz77 c st in (obs_of ONum r, st')
  end.

(* cont = false: stop after the first error (a consumer aborts there) *)
Fixpoint run_sops (cont : bool) (trees : list hdec) (ops : list sop) (st : bbr) : list sobs * bbr :=
  match ops with
  | [] => ([], st)
  | o :: t =>
    let '(x, st') := run_sop trees o st in
    if is_err x && negb cont then ([x], st')
    else let '(xs, st'') := run_sops cont trees t st' in (x :: xs, st'')
  end.

Definition cyclic_chunks (sizes : list N) (i : N) : N :=
  nth (N.to_nat (i mod nlen sizes)) sizes 1.

Definition run_seq (capacity : N) (sizes : list N) (data : bytes) (cont : bool)
                   (treelens : list (list (N * N))) (ops : list sop) : list sobs * N :=
  let trees := map (fun l => codes_hdec (canon_codes l)) treelens in
  let '(xs, st) := run_sops cont trees ops (with_capacity (mksrc data (cyclic_chunks sizes) 0) capacity) in
  (xs, nreads st).
