(* Model of webpsan/src/parse/lossless.rs: LosslessImage::read and everything below it
     (Transform::read / transform_type / transformed_width, TransformType::read, EntropyCodedImage::read,
      SpatiallyCodedImage::read, BackReference::buf_read + DISTANCE_MAP, Color::buf_read, ColorCache::read / len,
      MetaPrefixCodes::read / max_code_group, PrefixCodeGroup::read / read_prefix_code / *_readahead_bits,
      CodeLengthPrefixCode::read, the three PrefixCode::alphabet_size, len_in_blocks)
   over the IDEAL bit source: the bits of the byte string, least significant bit of each byte first
   (BitBufSpec.bits_of_bytes).  Definitions only.

   What stands below this file:
     * the prefix-code trees are Webp/Huffman.v (CanonicalHuffmanTree::{new, from_symbols, longest_code_len},
       bitstream-io compile_read_tree / read_huffman), whose theorems are Props/C18.v;
     * the fixed-width reads, read_bit and the LZ77 prefix reads are the ideal accessors of Webp/BitBufSpec.v
       (ideal_read, ideal_read_bit, ideal_read_lz77).  The real code goes through BitBufReader (a 4096-byte refill
       buffer): `read`, `read_bit`, `read_huffman` refill when fewer than the requested bits are buffered; the pixel
       loop announces `readahead_bits` once per iteration (`if buf_bits() < readahead { fill_buf()? }`) and then uses
       the buffer-only `buf_read_*` accessors.  That this is the same as reading from the whole bit string is C19:
       Props/C19.v  C19_read_is_ideal (plain accessors), C19_entropy_iteration_within_readahead +
       C19_readahead_sufficient (one pixel-loop iteration stays within its announcement, so its buffer-only reads are
       ideal), C19_verdict_capacity_independent (any consumer decision tree gives the result of the ideal reader for
       every capacity >= 16, in particular 4096).  The structure below is kept so that this transport applies: every
       read is one of the consumer operations of BitBufSpec.cop, one iteration of [pixel_loop] is exactly
       BitBufRun.entropy_iteration (announcement = no-op for the ideal source, then green, then red/blue/alpha or
       length-extra/distance/distance-extra).

   Numbers are N.  Rust types: dimensions NonZeroU32, pixel_idx u32, block sizes u16, symbols u8/u16, code lengths u8.
   Where Rust would panic the model says [Panic site]:
     1 TransformType::read `0b100.. => unreachable!()`       2 len_in_blocks: NonZeroU32::new(0) => unreachable!()
     3 code-length symbol `19.. => unreachable!()`           4 BackReference: dist_code 0 => unreachable!()
     5 u32::from(dy) * u32::from(width) overflows (overflow-checks)
   Fuel: only the transform loop and the pixel loop are `while` loops; they take fuel (OutOfFuel when it runs out);
   [lossless_read] supplies fuel that provably suffices (Vp8lProofs.v: lossless_read_fuel_enough): 5 for the transform
   loop (a fifth transform is a duplicate), and the number of unread bits + 1 for a pixel loop (an iteration that
   consumes no bit either finishes the image or fails).  The `for` loops are structural. *)
From Coq Require Import List NArith ZArith Bool.
From Coq.Strings Require Import Byte.
From MS Require Import Base.Bytes Base.Outcome Webp.Huffman Webp.BitBufSpec Gen.WebpTables.
Import ListNotations.
Open Scope N_scope.

(* ---------------------------------------------------------------- reader monad over the ideal bit source *)
Definition M (A : Type) : Type := list bool -> res (A * list bool).

Definition mret {A} (a : A) : M A := fun s => Ok (a, s).
Definition mbind {A B} (m : M A) (f : A -> M B) : M B :=
  fun s => match m s with
           | Ok (a, s') => f a s'
           | EParse e => EParse e | EIo e => EIo e | Panic p => Panic p | OutOfFuel => OutOfFuel
           end.
Definition mfail {A} (e : perr) : M A := fun _ => EParse e.
Definition mpanic {A} (site : N) : M A := fun _ => Panic site.
Definition mfuel {A} : M A := fun _ => OutOfFuel.
(* a pure step that may fail (`?` on a Result that does not touch the reader) *)
Definition mlift {A} (r : res A) : M A :=
  fun s => match r with
           | Ok a => Ok (a, s)
           | EParse e => EParse e | EIo e => EIo e | Panic p => Panic p | OutOfFuel => OutOfFuel
           end.
(* an accessor of BitBufSpec.v (result, rest) as a step *)
Definition of_ideal {A} (r : res A * list bool) : res (A * list bool) :=
  match r with
  | (Ok a, s) => Ok (a, s)
  | (EParse e, _) => EParse e | (EIo e, _) => EIo e | (Panic p, _) => Panic p | (OutOfFuel, _) => OutOfFuel
  end.

Local Notation "x <~ e ;; k" := (mbind e (fun x => k)) (at level 61, e at next level, right associativity).
Local Notation "' p <~ e ;; k" := (mbind e (fun p => k)) (at level 61, p pattern, e at next level, right associativity).

(* the next n bits as a number (first bit least significant) and the rest; None when fewer than n bits are left *)
Fixpoint take_num (n : nat) (bits : list bool) : option (N * list bool) :=
  match n with
  | O => Some (0, bits)
  | S k =>
    match bits with
    | [] => None
    | b :: r => match take_num k r with
                | Some (v, rest) => Some (N.b2n b + 2 * v, rest)
                | None => None
                end
    end
  end.

(* reader.read::<uW>(n) / buf_read  = BitBufSpec.ideal_read w n   (Vp8lProofs.rd_is_ideal) *)
Definition rd (w n : N) : M N :=
  fun s => if w <? n then EIo EInvalidInput
           else match take_num (N.to_nat n) s with
                | Some (v, rest) => Ok (v, rest)
                | None => EParse TruncatedChunk
                end.
(* reader.read_bit() / buf_read_bit *)
Definition rd_bit : M bool := fun s => of_ideal (ideal_read_bit s).
(* reader.read_huffman(&tree) / buf_read_huffman *)
Definition rd_huff (t : htree) : M N := fun s => read_huffman t s.
(* reader.buf_read_lz77(prefix_code)  = BitBufSpec.ideal_read_lz77   (Vp8lProofs.rd_lz77_is_ideal):
     0..=3 => 1 + prefix_code
     4..=39 => extra_bits = (prefix_code - 2) >> 1; offset = (2 + (prefix_code & 1)) << extra_bits;
               1 + offset + buf_read::<u32>(extra_bits)
     _ => InvalidInput *)
Definition rd_lz77 (c : N) : M N :=
  if c <? 4 then mret (c + 1)
  else if c <? 40 then
    let extra_bits := (c - 2) / 2 in
    let offset := (2 + c mod 2) * 2 ^ extra_bits in
    fun s => match rd 32 extra_bits s with
             | Ok (e, rest) => Ok (offset + e + 1, rest)
             | EParse e => EParse e | EIo e => EIo e | Panic p => Panic p | OutOfFuel => OutOfFuel
             end
  else mfail WInvalidInput.

(* ---------------------------------------------------------------- small pieces *)
(* Transform::transformed_width: pixels packed per colour-indexed pixel, by palette size
     match image.width.get() { 0..=2 => 8, 3..=4 => 4, 5..=16 => 2, 17.. => 1 }
   (compared with the table regenerated from the source in Webp/TableProofs.v) *)
Definition color_index_block (len : N) : N := if len <=? 2 then 8 else if len <=? 4 then 4 else if len <=? 16 then 2 else 1.

(* fn len_in_blocks(len: NonZeroU32, block_size: u16) = NonZeroU32::new(div_ceil(len, block_size)).unwrap_or_else(unreachable) *)
Definition len_in_blocks (len bs : N) : res N :=
  let q := len / bs in
  let d := if len mod bs =? 0 then q else q + 1 in
  if d =? 0 then Panic 2 else Ok d.

(* NonZeroU32::saturating_mul *)
Definition sat_mul_u32 (a b : N) : N := N.min (a * b) (2 ^ 32 - 1).

(* ColorCache::read: Some(order) / None, returned as ColorCache::len(): 2^order or 0 *)
Definition read_color_cache : M N :=
  has <~ rd_bit ;;
  if has then
    order <~ rd 8 4 ;;
    if negb (order <=? 11) then mfail WInvalidInput
    else if order =? 0 then mfail WInvalidInput            (* NonZeroU8::new(order) = None *)
    else mret (2 ^ order)
  else mret 0.

(* ---------------------------------------------------------------- prefix codes *)
Inductive pkind := KGreen | KArb | KDist.

(* PrefixCode::alphabet_size(color_cache_len) *)
Definition alphabet_size (k : pkind) (cache_len : N) : N :=
  match k with KGreen => 256 + 24 + cache_len | KArb => 256 | KDist => 40 end.
(* T::Symbol: u16 for the green code, u8 for the others *)
Definition sym_width (k : pkind) : N := match k with KGreen => 16 | _ => 8 end.

Definition CODE_ORDER : list N := Eval vm_compute in CODE_ORDER_SRC.   (* regenerated from the source: Gen/WebpTables.v *)

Fixpoint set_nth (i : nat) (v : N) (l : list N) : list N :=
  match l, i with
  | [], _ => []
  | _ :: r, O => v :: r
  | x :: r, S j => x :: set_nth j v r
  end.

(* for &idx in CODE_ORDER.iter().take(count) { code_lengths[idx] = (idx, reader.read(3)?) }  (the rest stays 0) *)
Fixpoint read_clc_lengths (order : list N) (count : nat) (cl : list N) : M (list N) :=
  match order, count with
  | idx :: rest, S c => v <~ rd 8 3 ;; read_clc_lengths rest c (set_nth (N.to_nat idx) v cl)
  | _, _ => mret cl
  end.

(* CodeLengthPrefixCode::read *)
Definition read_code_length_code : M htree :=
  n <~ rd 8 4 ;;
  cl <~ read_clc_lengths CODE_ORDER (N.to_nat (4 + n)) (repeat 0 19) ;;
  mlift (new_vec cl).

(* one iteration body of `for _ in 0..max_symbol_reads`: (code_length, repeat_times) *)
Definition read_length_token (clc : htree) (prev : N) : M (N * N) :=
  sym <~ rd_huff clc ;;
  if sym <=? 15 then mret (sym, 1)
  else if sym =? 16 then e <~ rd 8 2 ;; mret (prev, 3 + e)
  else if sym =? 17 then e <~ rd 8 3 ;; mret (0, 3 + e)
  else if sym =? 18 then e <~ rd 8 7 ;; mret (0, 11 + e)
  else mpanic 3.

(* the loop; [reads] = iterations left, [acc] = code_lengths so far (symbol i at position i), [prev] = last non-zero length *)
Fixpoint read_code_lengths (reads : nat) (max : N) (clc : htree) (acc : list N) (prev : N) : M (list N) :=
  match reads with
  | O => mret acc
  | S r =>
    if N.of_nat (length acc) =? max then mret acc                      (* break *)
    else
      '(cl, rep) <~ read_length_token clc prev ;;
      let prev' := if cl =? 0 then prev else cl in
      let new_len := N.of_nat (length acc) + rep in
      if negb (new_len <=? max) then mfail InvalidVp8lPrefixCode
      else read_code_lengths r max clc (acc ++ repeat cl (N.to_nat rep)) prev'
  end.

(* PrefixCodeGroup::read_prefix_code::<T> *)
Definition read_prefix_code (k : pkind) (cache_len : N) : M htree :=
  simple <~ rd_bit ;;
  if simple then
    has_second <~ rd_bit ;;
    is8 <~ rd_bit ;;
    first <~ (if is8 then rd (sym_width k) 8 else b <~ rd_bit ;; mret (N.b2n b)) ;;
    second <~ (if has_second then s <~ rd (sym_width k) 8 ;; mret (Some s) else mret None) ;;
    let max := alphabet_size k cache_len in
    (* for symbol in [Some(first), second].flatten(): u16::from(to_u8(symbol)) < max_symbol_count *)
    if negb (first mod 256 <? max) then mfail InvalidVp8lPrefixCode
    else if match second with Some s => negb (s mod 256 <? max) | None => false end then mfail InvalidVp8lPrefixCode
    else
      let syms := match second with
                  | Some s => if negb (s =? first) then [(N.min first s, [false]); (N.max first s, [true])]
                              else [(first, [])]
                  | None => [(first, [])]
                  end in
      mlift (from_symbols syms)
  else
    clc <~ read_code_length_code ;;
    let max := alphabet_size k cache_len in
    use_max <~ rd_bit ;;
    reads <~ (if use_max then
                n3 <~ rd 32 3 ;;
                v <~ rd 16 (2 + 2 * n3) ;;
                mret (N.min (2 + v) 65535)                             (* 2u16.saturating_add(v) *)
              else mret max) ;;
    if negb (reads <=? max) then mfail WInvalidInput
    else
      lens <~ read_code_lengths (N.to_nat reads) max clc [] 8 ;;
      (* symbols are `index.as_()`: usize -> u8/u16, lossless because the vector is no longer than the alphabet *)
      mlift (new_vec lens).

Record group := mkgroup { g_green : htree; g_red : htree; g_blue : htree; g_alpha : htree; g_dist : htree }.

(* PrefixCodeGroup::read *)
Definition read_group (cache_len : N) : M group :=
  green <~ read_prefix_code KGreen cache_len ;;
  red <~ read_prefix_code KArb cache_len ;;
  blue <~ read_prefix_code KArb cache_len ;;
  alpha <~ read_prefix_code KArb cache_len ;;
  dist <~ read_prefix_code KDist cache_len ;;
  mret (mkgroup green red blue alpha dist).

Definition green_readahead (g : group) : N := ht_longest (g_green g).
Definition arb_readahead (g : group) : N := ht_longest (g_alpha g) + ht_longest (g_red g) + ht_longest (g_blue g).

(* ---------------------------------------------------------------- back references *)
(* (i8, u8) pairs; written as integers, dy converted below *)
(* the table itself is regenerated from webpsan/src/parse/lossless.rs on every run: Gen/WebpTables.v *)
Definition DISTANCE_MAP_Z : list (Z * Z) := Eval vm_compute in DISTANCE_MAP_SRC.
Definition DISTANCE_MAP : list (Z * N) := map (fun p => (fst p, Z.to_N (snd p))) DISTANCE_MAP_Z.
Definition DISTANCE_MAP_LEN : N := Eval vm_compute in DISTANCE_MAP_LEN_SRC.

(* the `match dist_code.get()` of BackReference::buf_read *)
Definition distance_of (dist_code width : N) : res N :=
  if dist_code =? 0 then Panic 4
  else if dist_code <=? DISTANCE_MAP_LEN then
    let '(dx, dy) := nth (N.to_nat (dist_code - 1)) DISTANCE_MAP (0%Z, 0) in
    let m := dy * width in
    if 2 ^ 32 <=? m then Panic 5
    else
      (* checked_add_signed(dx).and_then(NonZeroU32::new).unwrap_or(NonZeroU32::MIN) *)
      let s := (Z.of_N m + dx)%Z in
      if (s <? 1)%Z || (2 ^ 32 <=? s)%Z then Ok 1 else Ok (Z.to_N s)
  else Ok (dist_code - DISTANCE_MAP_LEN).

(* BackReference::buf_read: (dist, len) *)
Definition read_backref (len_symbol : N) (g : group) (width : N) : M (N * N) :=
  len <~ rd_lz77 len_symbol ;;
  dist_symbol <~ rd_huff (g_dist g) ;;
  dist_code <~ rd_lz77 dist_symbol ;;
  dist <~ mlift (distance_of dist_code width) ;;
  mret (dist, len).

(* ---------------------------------------------------------------- entropy-coded images *)
(* the closure passed to EntropyCodedImage::read *)
Inductive role := RPredictor | RPlain | RMeta.

(* fun(color): RPredictor: green in 0..=13 else InvalidInput; RMeta: max_code_group = max(.., red << 8 | green) *)
Definition on_pixel (r : role) (acc green red : N) : res N :=
  match r with
  | RPredictor => if green <=? 13 then Ok acc else EParse WInvalidInput
  | RPlain => Ok acc
  | RMeta => Ok (N.max acc (N.lor (N.shiftl red 8) green))
  end.

(* `while pixel_idx < len.get()`.  One iteration = BitBufRun.entropy_iteration: the announcement
   `if reader.buf_bits() < readahead_bits { reader.fill_buf()? }` changes nothing for the ideal source. *)
Fixpoint pixel_loop (fuel : nat) (r : role) (g : group) (cache_len width len idx acc : N) : M N :=
  if negb (idx <? len) then mret acc
  else
    match fuel with
    | O => mfuel
    | S f =>
      sym <~ rd_huff (g_green g) ;;
      if sym <=? 255 then
        red <~ rd_huff (g_red g) ;;
        _blue <~ rd_huff (g_blue g) ;;
        _alpha <~ rd_huff (g_alpha g) ;;
        acc' <~ mlift (on_pixel r acc sym red) ;;
        let idx' := if green_readahead g + arb_readahead g =? 0 then len else idx + 1 in
        pixel_loop f r g cache_len width len idx' acc'
      else if sym <=? 279 then
        '(dist, blen) <~ read_backref (sym - 256) g width ;;
        if negb (dist <=? idx) then mfail WInvalidInput                 (* pixel_idx.checked_sub(dist) = None *)
        else if negb (blen <=? len - idx) then mfail WInvalidInput
        else pixel_loop f r g cache_len width len (idx + blen) acc
      else
        let color_cache_index := sym - 280 in
        if negb (color_cache_index <? cache_len) then mfail WInvalidInput
        else
          let idx' := if green_readahead g =? 0 then len else idx + 1 in
          pixel_loop f r g cache_len width len idx' acc
    end.

(* EntropyCodedImage::read(reader, width, height, fun); returns the closure's accumulator (max_code_group for RMeta) *)
Definition read_entropy_image (r : role) (width height : N) : M N :=
  cache_len <~ read_color_cache ;;
  g <~ read_group cache_len ;;
  let len := sat_mul_u32 width height in
  fun s => pixel_loop (S (length s)) r g cache_len width len 0 0 s.

(* ---------------------------------------------------------------- transforms *)
(* Transform::read followed by transformed_width: returns the new transformed width *)
Definition read_transform (ty width height : N) : M N :=
  if (ty =? 0) || (ty =? 1) then                                       (* Predictor | Color *)
    order <~ rd 32 3 ;;
    let bs := 2 ^ (2 + order) in
    wb <~ mlift (len_in_blocks width bs) ;;
    hb <~ mlift (len_in_blocks height bs) ;;
    _ <~ read_entropy_image (if ty =? 0 then RPredictor else RPlain) wb hb ;;
    mret width
  else if ty =? 2 then mret width                                      (* SubtractGreen *)
  else if ty =? 3 then                                                 (* ColorIndexing *)
    len_minus_one <~ rd 32 8 ;;
    let len := N.min (1 + len_minus_one) (2 ^ 32 - 1) in               (* NonZeroU32::MIN.saturating_add *)
    _ <~ read_entropy_image RPlain len 1 ;;
    let bs := color_index_block len in
    mlift (len_in_blocks width bs)
  else mpanic 1.

Definition seen := (bool * bool * bool * bool)%type.
Definition seen_get (s : seen) (ty : N) : bool :=
  let '(a, b, c, d) := s in if ty =? 0 then a else if ty =? 1 then b else if ty =? 2 then c else d.
Definition seen_set (s : seen) (ty : N) : seen :=
  let '(a, b, c, d) := s in
  if ty =? 0 then (true, b, c, d) else if ty =? 1 then (a, true, c, d) else if ty =? 2 then (a, b, true, d) else (a, b, c, true).

(* `while reader.read_bit()? { ... }` of LosslessImage::read; returns transformed_width *)
Fixpoint transform_loop (fuel : nat) (tw height : N) (sn : seen) : M N :=
  match fuel with
  | O => mfuel
  | S f =>
    more <~ rd_bit ;;
    if negb more then mret tw
    else
      ty <~ rd 8 2 ;;
      tw' <~ read_transform ty tw height ;;
      if seen_get sn ty then mfail WInvalidInput                       (* InvalidDuplicateTransform, AFTER the read *)
      else transform_loop f tw' height (seen_set sn ty)
  end.

(* ---------------------------------------------------------------- the spatially coded (level 0) image header *)
(* MetaPrefixCodes::read followed by max_code_group() *)
Definition read_meta (width height : N) : M N :=
  has_meta <~ rd_bit ;;
  if has_meta then
    order <~ rd 32 3 ;;
    let bs := 2 ^ (2 + order) in
    wb <~ mlift (len_in_blocks width bs) ;;
    hb <~ mlift (len_in_blocks height bs) ;;
    read_entropy_image RMeta wb hb
  else mret 0.

(* for _ in 0..=meta.max_code_group() { PrefixCodeGroup::read(..)? } *)
Fixpoint read_groups (n : nat) (cache_len : N) : M unit :=
  match n with
  | O => mret tt
  | S k => _ <~ read_group cache_len ;; read_groups k cache_len
  end.

(* SpatiallyCodedImage::read *)
Definition read_spatial (width height : N) : M unit :=
  cache_len <~ read_color_cache ;;
  max_group <~ read_meta width height ;;
  read_groups (S (N.to_nat max_group)) cache_len.

(* LosslessImage::read *)
Definition transform_fuel : nat := 5.
Definition lossless_image (width height : N) : M unit :=
  tw <~ transform_loop transform_fuel width height (false, false, false, false) ;;
  read_spatial tw height.

(* LosslessImage::read(&mut BitBufReader::with_capacity(body, 4096), w, h), verdict only *)
Definition lossless_read (w h : N) (body : bytes) : res unit :=
  match lossless_image w h (bits_of_bytes body) with
  | Ok _ => Ok tt
  | EParse e => EParse e | EIo e => EIo e | Panic p => Panic p | OutOfFuel => OutOfFuel
  end.
