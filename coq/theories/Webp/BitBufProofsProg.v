(* C19 proofs, layer C: consumers of the bit stream (decision trees over the values read) give the same result over the
   buffered reader of any capacity c with m + 7 <= 8 c as over the ideal reader; the read-ahead of the pixel loop is
   sufficient; a refill is transparent at every position. *)
From Coq Require Import List PeanoNat NArith Bool Lia ZifyBool ZifyNat ZifyN.
From Coq.Strings Require Import Byte.
From MS Require Import Base.Bytes Base.Outcome Webp.BitBuf Webp.BitBufSpec Webp.BitBufRun
  Webp.BitBufProofsBits Webp.BitBufProofs.
Import ListNotations.
Open Scope N_scope.
Arguments N.add : simpl never.
Arguments N.sub : simpl never.
Arguments N.mul : simpl never.
Arguments N.div : simpl never.
Arguments N.modulo : simpl never.
Arguments N.pow : simpl never.
Arguments N.eqb : simpl never.
Arguments N.ltb : simpl never.
Arguments N.leb : simpl never.
Arguments N.min : simpl never.
Arguments N.max : simpl never.

Lemma agrees_lift {A} (f : A -> cval) b st (ideal : res A * list bool) (model : res A * bbr) :
  agrees b st ideal model -> agrees b st (lift f ideal) (lift f model).
Proof.
  destruct ideal as [ri li], model as [rm sm]. unfold agrees; cbn [fst snd]. intros (E & H). subst rm.
  destruct ri; cbn [lift fst snd is_ok] in *; (split; [reflexivity|exact H]).
Qed.

Lemma agrees_weaken {A} b b' st (ideal : res A * list bool) model :
  b' <= b -> agrees b st ideal model -> agrees b' st ideal model.
Proof.
  intros L (E & H). split; [exact E|]. intros K. destruct (H K) as (Q1 & Q2 & Q3 & [Q4|Q4]).
  - split; [exact Q1|]. split; [exact Q2|]. split; [exact Q3|left; lia].
  - split; [exact Q1|]. split; [exact Q2|]. split; [exact Q3|now right].
Qed.

Lemma op_agrees st m b o :
  inv st -> m + 7 <= 8 * cap st -> op_ok m b o -> (b <= buf_bits st \/ src_empty st) ->
  agrees (op_budget b o) st (ideal_op o (abs st)) (buf_op o st).
Proof.
  intros I M K HB. destruct o as [w n| |d|r|w n| |d|c]; cbn [op_ok op_budget ideal_op buf_op] in *.
  - apply agrees_lift, read_agrees; [exact I|lia].
  - apply agrees_lift, read_bit_agrees; [exact I|lia].
  - destruct K as (D & L). apply agrees_lift, read_huffman_agrees; [exact I|exact D|lia].
  - destruct (ensure_spec st r I) as (st' & E & I' & Cc & Ea & P). rewrite E. pose proof (P ltac:(lia)) as Pb.
    unfold agrees; cbn [lift fst snd is_ok]. split; [reflexivity|]. intros _.
    split; [exact I'|]. split; [exact Ea|]. split; [exact Cc|exact Pb].
  - apply agrees_lift, buf_read_agrees; assumption.
  - apply agrees_lift, buf_read_bit_agrees; assumption.
  - destruct K as (D & L). apply agrees_lift, buf_read_huffman_agrees; assumption.
  - apply agrees_lift, buf_read_lz77_agrees; assumption.
Qed.

Theorem run_buf_ideal {A} (p : cprog A) : forall st m b,
  inv st -> m + 7 <= 8 * cap st -> cwf m b p -> (b <= buf_bits st \/ src_empty st) ->
  run_buf p st = run_ideal p (abs st).
Proof.
  induction p as [a|e|o k IH]; intros st m b I M W HB; [reflexivity|reflexivity|].
  cbn [cwf] in W. destruct W as (K & Wk).
  pose proof (op_agrees st m b o I M K HB) as (E & H).
  cbn [run_buf run_ideal].
  destruct (buf_op o st) as [rm st'], (ideal_op o (abs st)) as [ri rest]. cbn [fst snd] in E, H. subst rm.
  destruct ri as [v|e|e|s|]; try reflexivity.
  destruct (H eq_refl) as (I' & Ea & Cc & Pb). rewrite <- Ea.
  apply (IH v st' m (op_budget b o)); try assumption; [now rewrite Cc|apply Wk].
Qed.

Lemma cap_16 c m : 16 <= c -> m <= 121 -> m + 7 <= 8 * c.
Proof. lia. Qed.

Theorem verdict_capacity_independent {A} (p : cprog A) data c1 c2 o1 o2 i1 i2 :
  16 <= c1 -> 16 <= c2 -> cwf 121 0 p ->
  run_buf p (with_capacity (mksrc data o1 i1) c1) = run_ideal p (bits_of_bytes data) /\
  run_buf p (with_capacity (mksrc data o1 i1) c1) = run_buf p (with_capacity (mksrc data o2 i2) c2).
Proof.
  intros C1 C2 W.
  assert (G : forall c o i, 16 <= c -> run_buf p (with_capacity (mksrc data o i) c) = run_ideal p (bits_of_bytes data)).
  { intros c o i C. destruct (inv_with_capacity (mksrc data o i) c) as (I & Ea).
    rewrite (run_buf_ideal p _ 121 0 I); [now rewrite Ea| |exact W|left; lia].
    cbn [cap with_capacity]. lia. }
  split; [now apply G|]. rewrite !G by assumption. reflexivity.
Qed.

(* ---------------------------------------------------------------- the read-ahead of the pixel loop *)
Lemma LZ77_MAX_LEN_18 : LZ77_MAX_LEN = 18. Proof. reflexivity. Qed.

Lemma lz77_extra_le c : lz77_extra_bits c <= 18.
Proof.
  unfold lz77_extra_bits. destruct (N.ltb_spec c 4); [lia|]. destruct (N.ltb_spec c 40); lia.
Qed.
Lemma lz77_extra_len c : c < 24 -> lz77_extra_bits c <= 10.
Proof.
  intros H. unfold lz77_extra_bits. destruct (N.ltb_spec c 4); [lia|]. destruct (N.ltb_spec c 40); lia.
Qed.

Lemma readahead_le_81 g r b a d :
  g <= 15 -> r <= 15 -> b <= 15 -> a <= 15 -> d <= 15 -> readahead_bits g r b a d <= 81.
Proof. intros. unfold readahead_bits. rewrite LZ77_MAX_LEN_18. lia. Qed.

Lemma entropy_iteration_cwf {A} (g r b a d : decoder) (k : cval -> cval -> cval -> cval -> cprog A) m b0 :
  decoder_ok g -> decoder_ok r -> decoder_ok b -> decoder_ok a -> decoder_ok d ->
  readahead_bits (dc_longest g) (dc_longest r) (dc_longest b) (dc_longest a) (dc_longest d) <= m ->
  (forall b' v1 v2 v3 v4, cwf m b' (k v1 v2 v3 v4)) ->
  cwf m b0 (entropy_iteration g r b a d k).
Proof.
  intros Dg Dr Db Da Dd M K. unfold entropy_iteration.
  set (R := readahead_bits (dc_longest g) (dc_longest r) (dc_longest b) (dc_longest a) (dc_longest d)) in *.
  assert (ER : R = dc_longest g + N.max (dc_longest a + dc_longest r + dc_longest b)
                                        (dc_longest g + (2 * 18 + dc_longest d))) by reflexivity.
  cbn [cwf op_ok op_budget]. split; [exact M|]. intros _.
  split; [split; [exact Dg|lia]|]. intros vg. destruct vg as [sym| |]; try exact I.
  destruct (N.ltb_spec sym 256) as [C1|C1].
  - cbn [cwf op_ok op_budget]. split; [split; [exact Dr|lia]|]. intros vr.
    split; [split; [exact Db|lia]|]. intros vb. split; [split; [exact Da|lia]|]. intros va. apply K.
  - destruct (N.ltb_spec sym 280) as [C2|C2]; [|apply K].
    pose proof (lz77_extra_len (sym - 256) ltac:(lia)) as E1.
    cbn [cwf op_ok op_budget]. split; [lia|]. intros vl.
    split; [split; [exact Dd|lia]|]. intros vd. destruct vd as [ds| |]; try exact I.
    pose proof (lz77_extra_le ds) as E2.
    cbn [cwf op_ok op_budget]. split; [lia|]. intros vdist. apply K.
Qed.

(* ---------------------------------------------------------------- end of data exactly at exhaustion *)
Lemma eof_iff_read st w n :
  inv st -> w + 7 <= 8 * cap st -> n <= w ->
  (fst (read w n st) = EParse TruncatedChunk <-> slen (abs st) < n).
Proof.
  intros I M Hn. destruct (read_agrees st w n I M) as (E & _). rewrite E. unfold ideal_read.
  destruct (N.ltb_spec w n) as [X|_]; [lia|].
  destruct (N.leb_spec n (slen (abs st))) as [C|C]; cbn [fst]; split; intros H; try lia; try discriminate; reflexivity.
Qed.
Lemma eof_iff_read_bit st :
  inv st -> 1 + 7 <= 8 * cap st -> (fst (read_bit st) = EParse TruncatedChunk <-> abs st = []).
Proof.
  intros I M. destruct (read_bit_agrees st I M) as (E & _). rewrite E. unfold ideal_read_bit.
  destruct (abs st); cbn [fst]; split; intros H; try discriminate; reflexivity.
Qed.
Lemma eof_iff_read_huffman st d :
  inv st -> decoder_ok d -> dc_longest d + 7 <= 8 * cap st ->
  (fst (read_huffman (hdec_of d) st) = EParse TruncatedChunk <-> dc_dec d (abs st) = None).
Proof.
  intros I D M. destruct (read_huffman_agrees st d I D M) as (E & _). rewrite E. unfold ideal_read_code.
  destruct (dc_dec d (abs st)) as [[s k]|]; cbn [fst]; split; intros H; try discriminate; reflexivity.
Qed.

(* sample input for the Examples *)
Definition sample_source : source :=
  mksrc [x01;x02;x03;x04;x05;x06;x07;x08;x09;x0a;x0b;x0c;x0d;x0e;x0f;x10;x11] (fun _ => 100) 0.

(* regression of the repaired defect (fill_buf on a full buffer used to declare the source exhausted): capacity 16,
   17 bytes, two refills in a row, then the 17th byte is still delivered *)
Example double_fill_keeps_the_source :
  let st2 := snd (fill_buf (snd (fill_buf (with_capacity sample_source 16)))) in
  length (abs st2) = 136%nat /\ fst (read 64 8 (snd (read 64 64 (snd (read 64 64 st2))))) = Ok 17.
Proof. vm_compute. split; reflexivity. Qed.

(* ---------------------------------------------------------------- non-vacuity *)
Definition fixed_decoder (k : N) : decoder :=
  mkdecoder (fun l => if k <=? slen l then Some (num_of_bits (firstn (N.to_nat k) l), k) else None) k.

Example fixed_decoder_ok k : decoder_ok (fixed_decoder k).
Proof.
  unfold decoder_ok, fixed_decoder; cbn [dc_dec dc_longest]. split.
  - intros l s j H. destruct (N.leb_spec k (slen l)) as [C|C]; [|discriminate]. injection H as Es Ej. subst j s.
    split; [exact C|]. split; [lia|]. intros l' E.
    assert (L : k <= slen l').
    { unfold slen in *. apply (f_equal (@length bool)) in E. rewrite !firstn_length in E. lia. }
    destruct (N.leb_spec k (slen l')) as [_|X]; [|lia]. now rewrite E.
  - intros l C. destruct (N.leb_spec k (slen l)) as [_|X]; [discriminate|lia].
Qed.

Example inv_satisfiable : exists st, inv st /\ 16 <= cap st /\ abs st <> [].
Proof.
  exists (with_capacity sample_source 16). destruct (inv_with_capacity sample_source 16) as (I & E).
  split; [exact I|]. split; [cbn; lia|]. rewrite E. discriminate.
Qed.

Definition sample_prog : cprog N :=
  CDo (CRead 64 14) (fun _ => CDo CReadBit (fun _ =>
  entropy_iteration (fixed_decoder 8) (fixed_decoder 8) (fixed_decoder 8) (fixed_decoder 8) (fixed_decoder 5)
    (fun vg _ _ _ => match vg with VN s => CRet s | _ => CFail WInvalidInput end))).

Example sample_prog_cwf : cwf 121 0 sample_prog.
Proof.
  unfold sample_prog. cbn [cwf op_ok op_budget]. split; [lia|]. intros _. split; [lia|]. intros _.
  apply entropy_iteration_cwf; try apply fixed_decoder_ok.
  - vm_compute. discriminate.
  - intros b' v1 v2 v3 v4. destruct v1; exact I.
Qed.

Example sample_prog_runs :
  run_buf sample_prog (with_capacity sample_source 16) = Ok 6 /\
  run_ideal sample_prog (bits_of_bytes (sdata sample_source)) = Ok 6.
Proof. split; vm_compute; reflexivity. Qed.

(* ---------------------------------------------------------------- the statements of Props/C19.v *)
Lemma refill_on_request st r :
  inv st -> 16 <= cap st -> r <= 121 ->
  exists st', ensure r st = (Ok tt, st') /\ inv st' /\ cap st' = cap st /\ abs st' = abs st /\
              (r <= buf_bits st' \/ src_rest st' = []).
Proof.
  intros I C R. destruct (ensure_spec st r I) as (st' & E & I' & Cc & Ea & P).
  pose proof (P (cap_16 _ _ C R)) as Pb. exists st'. auto.
Qed.

Lemma read_is_ideal st :
  inv st -> 16 <= cap st ->
  (forall w n, w <= 64 -> agrees 0 st (ideal_read w n (abs st)) (read w n st)) /\
  agrees 0 st (ideal_read_bit (abs st)) (read_bit st) /\
  (forall d, decoder_ok d -> dc_longest d <= 121 ->
     agrees 0 st (ideal_read_code (dc_dec d) (abs st)) (read_huffman (hdec_of d) st)).
Proof.
  intros I C. split; [|split].
  - intros w n W. apply read_agrees; [exact I|lia].
  - apply read_bit_agrees; [exact I|lia].
  - intros d D L. apply read_huffman_agrees; [exact I|exact D|lia].
Qed.

Lemma eof_only_when_exhausted st :
  inv st -> 16 <= cap st ->
  (forall w n, w <= 64 -> n <= w -> (fst (read w n st) = EParse TruncatedChunk <-> slen (abs st) < n)) /\
  (fst (read_bit st) = EParse TruncatedChunk <-> abs st = []) /\
  (forall d, decoder_ok d -> dc_longest d <= 121 ->
     (fst (read_huffman (hdec_of d) st) = EParse TruncatedChunk <-> dc_dec d (abs st) = None)).
Proof.
  intros I C. split; [|split].
  - intros w n W Hn. apply eof_iff_read; [exact I|lia|exact Hn].
  - apply eof_iff_read_bit; [exact I|lia].
  - intros d D L. apply eof_iff_read_huffman; [exact I|exact D|lia].
Qed.

Lemma readahead_sufficient {A} (p : cprog A) st m r :
  inv st -> m + 7 <= 8 * cap st -> (r <= buf_bits st \/ src_rest st = []) -> cwf m r p ->
  run_buf p st = run_ideal p (abs st).
Proof. intros I M HB W. exact (run_buf_ideal p st m r I M W HB). Qed.

Lemma entropy_iteration_within_readahead {A} (g r b a d : decoder) (k : cval -> cval -> cval -> cval -> cprog A) b0 :
  decoder_ok g -> decoder_ok r -> decoder_ok b -> decoder_ok a -> decoder_ok d ->
  dc_longest g <= 15 -> dc_longest r <= 15 -> dc_longest b <= 15 -> dc_longest a <= 15 -> dc_longest d <= 15 ->
  (forall b' v1 v2 v3 v4, cwf 81 b' (k v1 v2 v3 v4)) ->
  81 + 7 <= 8 * 16 /\ cwf 81 b0 (entropy_iteration g r b a d k).
Proof.
  intros Dg Dr Db Da Dd Lg Lr Lb La Ld K. split; [lia|].
  apply entropy_iteration_cwf; try assumption. now apply readahead_le_81.
Qed.

Example entropy_hypotheses_satisfiable :
  81 + 7 <= 8 * 16 /\
  cwf 81 0 (entropy_iteration (fixed_decoder 15) (fixed_decoder 15) (fixed_decoder 15) (fixed_decoder 15) (fixed_decoder 15)
              (fun vg _ _ _ => match vg with VN s => CRet s | _ => CFail WInvalidInput end)).
Proof.
  apply entropy_iteration_within_readahead; try apply fixed_decoder_ok; cbn [dc_longest fixed_decoder]; try lia.
  intros b' v1 v2 v3 v4. destruct v1; exact I.
Qed.

(* the bound m + 7 <= 8 * capacity is tight: capacity 8 (64 + 7 > 64), one bit consumed, a 64-bit read is refused
   although 255 bits remain (the refill finds the buffer full, reads nothing and declares the source exhausted) *)
Definition small_capacity_state : bbr :=
  snd (read_bit (with_capacity (mksrc (map n2b [1;2;3;4;5;6;7;8;9;10;11;12;13;14;15;16;17;18;19;20;21;22;23;24;25;26;27;28;29;30;31;32])
                                      (fun _ => 100) 0) 8)).
Example capacity_8_is_not_enough :
  cap small_capacity_state = 8 /\ length (abs small_capacity_state) = 255%nat /\
  fst (read 64 64 small_capacity_state) = EParse TruncatedChunk.
Proof. vm_compute. repeat split. Qed.
