(* C07 / C08 proofs, part 6: the theorems.
     model_is_strict_spec     the model accepts exactly the strict reading of the specification
     strict_implies_reference the strict reading accepts only what the reference reading accepts
     model_sound (C07), model_complete (C08), model_total (Ok or a parse error: no panic, no I/O error, fuel suffices) *)
From Coq Require Import List NArith ZArith PeanoNat Bool Lia ZifyBool ZifyNat ZifyN.
From Coq.Strings Require Import Byte.
From MS Require Import Base.Bytes Base.Outcome Webp.Huffman Webp.HuffmanSpec Webp.HuffmanProofs
  Webp.BitBufSpec Webp.Vp8l Webp.Vp8lSpec Webp.Vp8lProofs Webp.Vp8lProofsCodes Webp.Vp8lProofsPixels Webp.Vp8lProofsMain
  Webp.Vp8lProofsFuel.
Import ListNotations.
Open Scope N_scope.
Arguments N.add : simpl never.
Arguments N.sub : simpl never.
Arguments N.mul : simpl never.
Arguments N.div : simpl never.
Arguments N.modulo : simpl never.
Arguments N.pow : simpl never.
Arguments N.eqb : simpl never.
Arguments N.ltb : simpl never.
Arguments N.leb : simpl never.

(* the dimensions a chunk can carry: 24-bit one-based canvas / frame sizes whose product fits u32 (VP8X), or 14-bit + 1 (VP8L) *)
Definition dims (w h : N) : Prop := 0 < w <= 2 ^ 24 /\ 0 < h <= 2 ^ 24 /\ w * h < 2 ^ 32.

Lemma model_total w h body : dims w h ->
  lossless_read w h body = Ok tt \/ exists e, lossless_read w h body = EParse e.
Proof.
  intros HD. unfold lossless_read.
  pose proof (sim_lossless_image w h (bits_of_bytes body) HD) as S.
  pose proof (lossless_image_nofuel w h (bits_of_bytes body) HD) as NFu.
  destruct (lossless_image w h (bits_of_bytes body)) as [[[] rest]|e|e|p|]; cbn in S; try contradiction.
  - now left.
  - right. now exists e.
Qed.

Lemma model_is_strict_spec w h body : dims w h ->
  is_ok (lossless_read w h body) = vp8l_spec_strict w h body.
Proof.
  intros HD. unfold lossless_read, vp8l_spec_strict, vp8l_spec_why.
  pose proof (sim_lossless_image w h (bits_of_bytes body) HD) as S.
  pose proof (lossless_image_nofuel w h (bits_of_bytes body) HD) as NFu.
  destruct (lossless_image w h (bits_of_bytes body)) as [[[] rest]|e|e|p|]; cbn in S; try contradiction.
  - destruct S as (b & -> & _). reflexivity.
  - destruct S as (r & ->). reflexivity.
Qed.

(* ---------------------------------------------------------------- strict reading => reference reading *)
(* the strict run either succeeds - then the reference run succeeds with the same value - or fails with one of the two
   strict-only rules, or fails with a rule on which the reference run fails too *)
Definition strict_only (r : rule) : Prop := r = RStrictPredictor \/ r = RStrictSingleSymbol.
Definition mono {A} (s1 s2 : sres A) : Prop :=
  match s1 with
  | SOk a rest => s2 = SOk a rest
  | SFail r => strict_only r \/ s2 = SFail r
  end.

Lemma mono_refl {A} (s : sres A) : mono s s.
Proof. destruct s; cbn; auto. Qed.

Lemma mono_bind {A B} (m1 m2 : SM A) (f1 f2 : A -> SM B) bits :
  mono (m1 bits) (m2 bits) -> (forall a rest, mono (f1 a rest) (f2 a rest)) -> mono (sbind m1 f1 bits) (sbind m2 f2 bits).
Proof.
  intros Hm Hf. unfold sbind. destruct (m1 bits) as [a r1|r] eqn:E; cbn in Hm.
  - rewrite Hm. apply Hf.
  - destruct Hm as [Hm|Hm]; [cbn; now left|]. rewrite Hm. cbn. now right.
Qed.

Lemma mono_rule_code cl bits : mono (rule_code true cl bits) (rule_code false cl bits).
Proof.
  unfold rule_code, code_verdict. destruct (Nat.eqb (used_count cl) 0); [cbn; now right|].
  destruct (single_used cl).
  - cbn [andb]. destruct (negb (single_len1 cl)); cbn; [left; now right|reflexivity].
  - destruct (_ <? _); [cbn; now right|]. destruct (_ <? _); [cbn; now right|]. reflexivity.
Qed.

Lemma mono_read_code alphabet bits : mono (read_code true alphabet bits) (read_code false alphabet bits).
Proof.
  unfold read_code. apply mono_bind; [apply mono_refl|]. intros simple b1. destruct simple.
  - apply mono_bind; [apply mono_refl|]. intros two b2. apply mono_bind; [apply mono_refl|]. intros f8 b3.
    apply mono_bind; [apply mono_refl|]. intros s0 b4. apply mono_bind; [apply mono_refl|]. intros syms b5.
    apply mono_bind; [apply mono_refl|]. intros [] b6. apply mono_bind; [apply mono_rule_code|]. intros [] b7. apply mono_refl.
  - apply mono_bind; [apply mono_refl|]. intros k b2. apply mono_bind; [apply mono_refl|]. intros clc b3.
    apply mono_bind; [apply mono_rule_code|]. intros [] b4. apply mono_bind; [apply mono_refl|]. intros um b5.
    apply mono_bind; [apply mono_refl|]. intros ms b6. apply mono_bind; [apply mono_refl|]. intros [] b7.
    apply mono_bind; [apply mono_refl|]. intros cl b8. apply mono_bind; [apply mono_rule_code|]. intros [] b9. apply mono_refl.
Qed.

Lemma mono_read_codes cache_sz bits : mono (read_codes true cache_sz bits) (read_codes false cache_sz bits).
Proof.
  unfold read_codes. repeat (apply mono_bind; [apply mono_read_code|intros ? ?]). apply mono_refl.
Qed.

Lemma mono_pixel_ok pu p bits :
  mono (require (pixel_ok true pu p) RStrictPredictor bits) (require (pixel_ok false pu p) RStrictPredictor bits).
Proof.
  unfold require. assert (E : pixel_ok false pu p = true) by (destruct pu; reflexivity). rewrite E.
  destruct (pixel_ok true pu p); cbn; [reflexivity|left; now left].
Qed.

Lemma mono_decode_pixels pu cs cb xs total : forall todo st bits,
  mono (decode_pixels true todo pu cs cb xs total st bits) (decode_pixels false todo pu cs cb xs total st bits).
Proof.
  induction todo as [|todo IH]; intros st bits; cbn [decode_pixels]; [apply mono_refl|].
  destruct (0 <? d_copy st).
  - apply mono_bind; [apply mono_pixel_ok|]. intros [] b1. apply IH.
  - apply mono_bind; [apply mono_refl|]. intros g b1. destruct (g <? 256).
    + apply mono_bind; [apply mono_refl|]. intros r b2. apply mono_bind; [apply mono_refl|]. intros b b3.
      apply mono_bind; [apply mono_refl|]. intros a b4. apply mono_bind; [apply mono_pixel_ok|]. intros [] b5. apply IH.
    + destruct (g <? 256 + 24).
      * apply mono_bind; [apply mono_refl|]. intros len b2. apply mono_bind; [apply mono_refl|]. intros ds b3.
        apply mono_bind; [apply mono_refl|]. intros dc b4. apply mono_bind; [apply mono_refl|]. intros [] b5.
        apply mono_bind; [apply mono_refl|]. intros [] b6. apply mono_bind; [apply mono_pixel_ok|]. intros [] b7. apply IH.
      * apply mono_bind; [apply mono_pixel_ok|]. intros [] b2. apply IH.
Qed.

Lemma mono_decode_subimage pu xs ys bits : mono (decode_subimage true pu xs ys bits) (decode_subimage false pu xs ys bits).
Proof.
  unfold decode_subimage. apply mono_bind; [apply mono_refl|]. intros cb b1.
  apply mono_bind; [apply mono_read_codes|]. intros cs b2. apply mono_decode_pixels.
Qed.

Lemma mono_read_transforms ys : forall left xs seen bits,
  mono (read_transforms true left xs ys seen bits) (read_transforms false left xs ys seen bits).
Proof.
  induction left as [|left IH]; intros xs seen bits; cbn [read_transforms].
  - apply mono_refl.
  - apply mono_bind; [apply mono_refl|]. intros more b1. destruct (negb more); [apply mono_refl|].
    apply mono_bind; [apply mono_refl|]. intros ty b2. apply mono_bind; [apply mono_refl|]. intros [] b3.
    destruct (ty <? 2).
    + apply mono_bind; [apply mono_refl|]. intros b b4. apply mono_bind; [apply mono_decode_subimage|]. intros img b5. apply IH.
    + destruct (ty =? 2); [apply IH|].
      apply mono_bind; [apply mono_refl|]. intros n b4. apply mono_bind; [apply mono_decode_subimage|]. intros img b5. apply IH.
Qed.

Lemma mono_read_groups cache_sz : forall n bits,
  mono (Vp8lSpec.read_groups true n cache_sz bits) (Vp8lSpec.read_groups false n cache_sz bits).
Proof.
  induction n as [|n IH]; intros bits; cbn [Vp8lSpec.read_groups]; [apply mono_refl|].
  apply mono_bind; [apply mono_read_codes|]. intros cs b1. apply IH.
Qed.

Lemma mono_decode_header w h bits : mono (decode_header true w h bits) (decode_header false w h bits).
Proof.
  unfold decode_header. apply mono_bind; [apply mono_read_transforms|]. intros xs b1.
  apply mono_bind; [apply mono_refl|]. intros cb b2. apply mono_bind; [apply mono_refl|]. intros meta b3.
  apply mono_bind.
  - destruct meta; [|apply mono_refl]. apply mono_bind; [apply mono_refl|]. intros b b4.
    apply mono_bind; [apply mono_decode_subimage|]. intros img b5. apply mono_refl.
  - intros groups b4. apply mono_read_groups.
Qed.

Lemma strict_implies_reference w h body : vp8l_spec_strict w h body = true -> vp8l_spec w h body = true.
Proof.
  unfold vp8l_spec_strict, vp8l_spec, vp8l_spec_why. pose proof (mono_decode_header w h (bits_of_bytes body)) as M.
  destruct (decode_header true w h (bits_of_bytes body)) as [[] rest|r]; [|discriminate].
  cbn in M. rewrite M. reflexivity.
Qed.

(* strict_exception is exactly "one of the two documented strictness rules fires in an otherwise decodable stream" *)
Lemma strict_exception_is_documented w h body : strict_exception w h body = true ->
  vp8l_spec_why false w h body = None /\
  (vp8l_spec_why true w h body = Some RStrictPredictor \/ vp8l_spec_why true w h body = Some RStrictSingleSymbol).
Proof.
  unfold strict_exception, vp8l_spec, vp8l_spec_strict, vp8l_spec_why. pose proof (mono_decode_header w h (bits_of_bytes body)) as M.
  destruct (decode_header false w h (bits_of_bytes body)) as [[] rest|r]; [|discriminate].
  destruct (decode_header true w h (bits_of_bytes body)) as [[] rest'|r]; [discriminate|].
  intros _. split; [reflexivity|]. cbn in M. destruct M as [[->| ->]|M]; [now left|now right|discriminate].
Qed.

(* ---------------------------------------------------------------- C07, C08 *)
Lemma model_sound w h body : dims w h -> lossless_read w h body = Ok tt -> vp8l_spec w h body = true.
Proof.
  intros HD H. apply strict_implies_reference. rewrite <- (model_is_strict_spec w h body HD), H. reflexivity.
Qed.

Lemma model_complete w h body : dims w h ->
  vp8l_spec w h body = true -> strict_exception w h body = false -> lossless_read w h body = Ok tt.
Proof.
  intros HD Hs He. unfold strict_exception in He. rewrite Hs in He. cbn [andb] in He. apply negb_false_iff in He.
  rewrite <- (model_is_strict_spec w h body HD) in He.
  destruct (model_total w h body HD) as [H|[e H]]; [exact H|]. rewrite H in He. discriminate.
Qed.

(* non-vacuity *)
Example dims_example : dims 4 4 /\ dims 16384 16384 /\ dims (2 ^ 24) 255.
Proof. unfold dims. repeat split; cbn; lia. Qed.

(* what the reference reading refuses, the model refuses (contrapositive of soundness), rule by rule *)
Lemma model_rejects_reference_failures w h body r : dims w h ->
  vp8l_spec_why false w h body = Some r -> lossless_read w h body <> Ok tt.
Proof.
  intros HD Hr Hok. pose proof (model_sound w h body HD Hok) as S. unfold vp8l_spec in S. rewrite Hr in S. discriminate.
Qed.

Lemma model_rejects_strict_failures w h body r : dims w h ->
  vp8l_spec_why true w h body = Some r -> lossless_read w h body <> Ok tt.
Proof.
  intros HD Hr Hok. pose proof (model_is_strict_spec w h body HD) as S. rewrite Hok in S. unfold vp8l_spec_strict in S.
  rewrite Hr in S. discriminate.
Qed.

(* the model's accessors are the ideal accessors of BitBufSpec.v: C19 transports them to the buffered reader *)
Lemma accessors_are_ideal :
  (forall w n s, rd w n s = of_ideal (ideal_read w n s)) /\
  (forall s, rd_bit s = of_ideal (ideal_read_bit s)) /\
  (forall c s, rd_lz77 c s = of_ideal (ideal_read_lz77 c s)).
Proof. split; [exact rd_is_ideal|split; [reflexivity|exact rd_lz77_is_ideal]]. Qed.

(* ---------------------------------------------------------------- non-vacuity: concrete streams *)
(* no transform, no cache, no meta image, five one-symbol simple codes: accepted *)
Example accepted_stream : lossless_read 3 3 [x88; x88; x08] = Ok tt /\ vp8l_spec 3 3 [x88; x88; x08] = true /\
                          strict_exception 3 3 [x88; x88; x08] = false.
Proof. vm_compute. repeat split. Qed.
(* a predictor sub-image whose only pixel has green 14: decodable, a documented strictness case, refused by the model *)
Example strictness_stream :
  vp8l_spec 4 4 [x81; x3a; x44; x44; x20; x22; x22; x00] = true /\
  strict_exception 4 4 [x81; x3a; x44; x44; x20; x22; x22; x00] = true /\
  vp8l_spec_why true 4 4 [x81; x3a; x44; x44; x20; x22; x22; x00] = Some RStrictPredictor /\
  lossless_read 4 4 [x81; x3a; x44; x44; x20; x22; x22; x00] = EParse WInvalidInput.
Proof. vm_compute. repeat split. Qed.
Example duplicate_transform_stream :
  vp8l_spec_why false 4 4 [x2d; x22; x22; x02] = Some RDuplicateTransform /\ lossless_read 4 4 [x2d; x22; x22; x02] = EParse WInvalidInput.
Proof. vm_compute. repeat split. Qed.
Example cache_bits_stream :
  vp8l_spec_why false 4 4 [x32] = Some RCacheBits /\ lossless_read 4 4 [x32] = EParse WInvalidInput.
Proof. vm_compute. repeat split. Qed.
