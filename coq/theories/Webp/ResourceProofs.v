(* C10, WebP half: what the webpsan model requests and builds is bounded by constants that do not depend on declared
   image dimensions or chunk sizes.
   1. every allocation event of the container programme [webp_prog] (read_data: the bodies of RIFF/WEBP tag, VP8X, ANIM,
      ANMF header, VP8L header, ALPH flags) is at most 16 bytes, for every reader, validator, configuration and fuel;
   2. a prefix-code tree accepted by CanonicalHuffmanTree::new has exactly as many leaves as the code has symbols, at most
      the alphabet size, and one internal node fewer (bitstream-io tabulates the tree: the number of tables it builds
      is bounded through the number of internal nodes). *)
From Coq Require Import List NArith PeanoNat Bool Lia ZifyBool ZifyNat ZifyN Permutation.
From Coq.Strings Require Import Byte.
From MS Require Import Base.Bytes Base.Outcome Base.Prog Base.ProgSpec Webp.Prim Webp.Chunks Webp.Container
  Webp.Huffman Webp.HuffmanProofsSort.
Import ListNotations.
Open Scope N_scope.

(* ================================================================================================ *)
(* 1. allocation events *)
Definition alloc_ok (B : N) (o : op) : Prop := match o with OAlloc n => n <= B | _ => True end.

Inductive alloc_le {A} (B : N) : prog A -> Prop :=
  | AL_ret r : alloc_le B (Ret r)
  | AL_do o k : alloc_ok B o -> (forall a, alloc_le B (k a)) -> alloc_le B (Do o k).

(* the monitor that refuses an allocation above B and allows everything else *)
Definition amon (B : N) (m : unit) (o : op) (a : resp) : option unit :=
  match o with OAlloc n => if n <=? B then Some tt else None | _ => Some tt end.

Theorem alloc_le_sound {A} B (p : prog A) : alloc_le B p ->
  forall (R : reader) (s : rst R), all_steps (amon B) R (fun _ _ o _ => alloc_ok B o) p s tt.
Proof.
  induction 1 as [r | o k Ho Hk IH]; intros R s; [exact I|].
  cbn [all_steps]. destruct (rstep R o s) as [a s']. split; [exact Ho|].
  assert (E : amon B tt o a = Some tt).
  { unfold amon. destruct o; try reflexivity. cbn [alloc_ok] in Ho. destruct (N.leb_spec n B); [reflexivity | lia]. }
  rewrite E. apply IH.
Qed.

Section AL.
Variable B : N.
Lemma al_pbind {A C} (p : prog A) (f : A -> prog C) :
  alloc_le B p -> (forall a, alloc_le B (f a)) -> alloc_le B (pbind p f).
Proof.
  intros Hp Hf. induction Hp as [r | o k Ho Hk IH]; cbn [pbind].
  - destruct r; try constructor. apply Hf.
  - constructor; [exact Ho | exact IH].
Qed.
Lemma al_io_err {A} eof e : alloc_le B (@io_err A eof e).
Proof. unfold io_err. destruct e, eof; constructor. Qed.
Ltac al_leaf := constructor; [exact I | intros [?|?| |?|?]; first [constructor | apply al_io_err]].
Lemma al_fill_empty : alloc_le B do_fill_empty.  Proof. unfold do_fill_empty. al_leaf. Qed.
Lemma al_read_exact n eof : alloc_le B (do_read_exact n eof).  Proof. unfold do_read_exact. al_leaf. Qed.
Lemma al_read_upto n : alloc_le B (do_read_upto n).  Proof. unfold do_read_upto. al_leaf. Qed.
Lemma al_skip n eof : alloc_le B (do_skip n eof).  Proof. unfold do_skip. al_leaf. Qed.
Lemma al_pos : alloc_le B do_pos.  Proof. unfold do_pos. al_leaf. Qed.
Lemma al_len : alloc_le B do_len.  Proof. unfold do_len. al_leaf. Qed.
Lemma al_alloc n : n <= B -> alloc_le B (do_alloc n).
Proof. intros H. unfold do_alloc. constructor; [exact H | intros; constructor]. Qed.
Lemma al_lift {A} (r : res A) : alloc_le B (lift r).  Proof. constructor. Qed.
End AL.

Ltac astep :=
  first
    [ apply AL_ret
    | apply al_lift
    | apply al_io_err
    | match goal with H : _ |- alloc_le _ _ => solve [apply H] end
    | apply al_fill_empty | apply al_pos | apply al_len | apply al_read_upto | apply al_read_exact | apply al_skip
    | apply al_pbind; [|intros]
    | match goal with
      | |- alloc_le _ (if ?b then _ else _) => destruct b
      | |- alloc_le _ (match ?x with _ => _ end) => destruct x
      | |- alloc_le _ (let _ := _ in _) => cbv zeta
      end ].

Section W.
Variable lossless : N -> N -> bytes -> res unit.
Variable allow : bool.
Notation AL := (alloc_le 16).

Lemma a_src_read_exact n eof outer : AL (src_read_exact n eof outer).  Proof. unfold src_read_exact. repeat astep. Qed.
Lemma a_src_skip n eof outer : AL (src_skip n eof outer).  Proof. unfold src_skip. repeat astep. Qed.
Lemma a_src_nonempty outer : AL (src_nonempty outer).  Proof. unfold src_nonempty. repeat astep. Qed.
Lemma a_src_read_upto n outer : AL (src_read_upto n outer).  Proof. unfold src_read_upto. repeat astep. Qed.
Lemma a_read_padding l : AL (read_padding l).
Proof. unfold read_padding. pose proof a_src_read_exact. repeat astep. Qed.
Lemma a_has_remaining l : AL (has_remaining l).
Proof. unfold has_remaining. pose proof a_read_padding. pose proof a_src_nonempty. repeat astep. Qed.
Lemma a_read_any_header l : AL (read_any_header l).
Proof. unfold read_any_header. pose proof a_read_padding. pose proof a_has_remaining. pose proof a_src_read_exact. repeat astep. Qed.
Lemma a_read_header name l : AL (read_header name l).
Proof. unfold read_header. pose proof a_read_padding. pose proof a_has_remaining. pose proof a_read_any_header. repeat astep. Qed.
Lemma a_peek_header l : AL (peek_header l).
Proof. unfold peek_header. pose proof a_read_padding. pose proof a_has_remaining. pose proof a_src_read_exact. repeat astep. Qed.
(* the only allocation site: read_data len, called with the literal lengths 4, 10, 6, 16, 5, 1 *)
Lemma a_read_data n l : n <= 16 -> AL (read_data n l).
Proof.
  intros Hn. unfold read_data. pose proof a_read_padding. pose proof a_src_read_exact.
  repeat first [ apply al_alloc; exact Hn | astep ].
Qed.
Lemma a_skip_data l : AL (skip_data l).
Proof. unfold skip_data. pose proof a_read_padding. pose proof a_src_skip. repeat astep. Qed.
Lemma a_read_body l : AL (read_body l).
Proof. unfold read_body. pose proof a_src_read_upto. repeat astep. Qed.

Ltac ctx :=
  pose proof a_read_padding; pose proof a_has_remaining; pose proof a_read_any_header; pose proof a_read_header;
  pose proof a_peek_header; pose proof a_skip_data; pose proof a_read_body.
Ltac ac := repeat first [ apply a_read_data; lia | astep ].

Lemma a_do_vp8l dims l : AL (do_vp8l lossless dims l).  Proof. unfold do_vp8l. ctx. ac. Qed.
Lemma a_do_alph w h l : AL (do_alph lossless w h l).  Proof. unfold do_alph. ctx. ac. Qed.
Lemma a_skip_named name l : AL (skip_named name l).  Proof. unfold skip_named. ctx. ac. Qed.
Lemma a_sanitize_still x l : AL (sanitize_still lossless x l).
Proof. unfold sanitize_still. ctx. pose proof a_do_alph. pose proof a_do_vp8l. ac. Qed.
Lemma a_frame_tail : forall fuel l, AL (frame_tail allow fuel l).
Proof. induction fuel as [|fuel IH]; intros l; cbn [frame_tail]; [constructor|]. ctx. ac. Qed.
Lemma a_file_tail : forall fuel l, AL (file_tail allow fuel l).
Proof. induction fuel as [|fuel IH]; intros l; cbn [file_tail]; [constructor|]. ctx. ac. Qed.
Lemma a_one_frame fuel x l : AL (one_frame lossless allow fuel x l).
Proof. unfold one_frame. ctx. pose proof a_do_alph. pose proof a_do_vp8l. pose proof a_frame_tail. ac. Qed.
Lemma a_frames x : forall fuel l, AL (frames lossless allow fuel x l).
Proof. induction fuel as [|fuel IH]; intros l; cbn [frames]; [constructor|]. ctx. pose proof a_one_frame. ac. Qed.
Lemma a_animated fuel x l : AL (sanitize_animated lossless allow fuel x l).
Proof. unfold sanitize_animated. ctx. pose proof a_frames. ac. Qed.
Lemma a_extended fuel x l : AL (sanitize_extended lossless allow fuel x l).
Proof. unfold sanitize_extended. ctx. pose proof a_skip_named. pose proof a_animated. pose proof a_sanitize_still. ac. Qed.
Theorem alloc_le_webp fuel : AL (webp_prog lossless allow fuel).
Proof. unfold webp_prog. ctx. pose proof a_do_vp8l. pose proof a_extended. pose proof a_file_tail. ac. Qed.
End W.

Theorem webp_container_alloc_bounded :
  forall (lossless : N -> N -> bytes -> res unit) (allow : bool) (fuel : nat) (R : reader) (s : rst R),
  all_steps (amon 16) R (fun _ _ o _ => alloc_ok 16 o) (webp_prog lossless allow fuel) s tt.
Proof. intros. apply alloc_le_sound, alloc_le_webp. Qed.

(* ================================================================================================ *)
(* 2. size of an accepted prefix-code tree *)
Fixpoint wleaves (t : wip) : nat :=
  match t with WEmpty => 0 | WLeaf _ => 1 | WTree z o => wleaves z + wleaves o end%nat.
Fixpoint fleaves (f : ftree) : nat := match f with FLeaf _ => 1 | FNode z o => fleaves z + fleaves o end%nat.
Fixpoint fnodes (f : ftree) : nat := match f with FLeaf _ => 0 | FNode z o => S (fnodes z + fnodes o) end%nat.
Fixpoint fdepth (f : ftree) : nat := match f with FLeaf _ => 0 | FNode z o => S (Nat.max (fdepth z) (fdepth o)) end%nat.

Lemma fnodes_leaves f : S (fnodes f) = fleaves f.
Proof. induction f as [s | z IHz o IHo]; cbn [fnodes fleaves]; lia. Qed.

Lemma add_leaves : forall c t s t', add t c s = inl t' -> wleaves t' = S (wleaves t).
Proof.
  induction c as [|b c IH]; intros t s t' H.
  - destruct t; cbn [add] in H; try discriminate. injection H as <-. reflexivity.
  - destruct t as [| s0 | z o]; cbn [add] in H.
    + destruct (add WEmpty c s) as [t1|e] eqn:E; [|discriminate]. injection H as <-.
      apply IH in E. cbn [wleaves] in E. destruct b; cbn [wleaves]; lia.
    + discriminate.
    + destruct b.
      * destruct (add o c s) as [o'|e] eqn:E; [|discriminate]. injection H as <-. apply IH in E. cbn [wleaves]. lia.
      * destruct (add z c s) as [z'|e] eqn:E; [|discriminate]. injection H as <-. apply IH in E. cbn [wleaves]. lia.
Qed.

Lemma add_all_leaves : forall syms t t', add_all t syms = inl t' -> wleaves t' = (wleaves t + length syms)%nat.
Proof.
  induction syms as [|[s c] r IH]; intros t t' H; cbn [add_all] in H.
  - injection H as <-. cbn [length]. lia.
  - destruct (add t c s) as [t1|e] eqn:E; [|discriminate]. apply IH in H. apply add_leaves in E. cbn [length]. lia.
Qed.

Lemma finalize_leaves : forall t f, finalize t = inl f -> fleaves f = wleaves t.
Proof.
  induction t as [| s | z IHz o IHo]; intros f H; cbn [finalize] in H; try discriminate.
  - injection H as <-. reflexivity.
  - destruct (finalize z) as [fz|e] eqn:Ez; [|discriminate]. destruct (finalize o) as [fo|e] eqn:Eo; [|discriminate].
    injection H as <-. cbn [fleaves wleaves]. rewrite (IHz fz eq_refl), (IHo fo eq_refl). reflexivity.
Qed.

Lemma compile_leaves syms f : compile syms = inl f -> fleaves f = length syms.
Proof.
  unfold compile. destruct (add_all WEmpty syms) as [t|e] eqn:E; [|discriminate]. intros H.
  apply finalize_leaves in H. apply add_all_leaves in E. cbn [wleaves] in E. lia.
Qed.

Lemma drop_zeros_length l : (length (drop_zeros l) <= length l)%nat.
Proof. induction l as [|[s n] r IH]; cbn [drop_zeros length]; [lia|]. destruct n; cbn [length]; lia. Qed.
Lemma assign_length : forall rest c, length (assign c rest) = length rest.
Proof. induction rest as [|[s l] r IH]; intros c; cbn [assign length]; [reflexivity|]. now rewrite IH. Qed.
Lemma symbols_length cl : (length (symbols cl) <= length cl)%nat.
Proof.
  unfold symbols. pose proof (drop_zeros_length (sort_by_key cl)) as H.
  rewrite <- (Permutation_length (sort_perm cl)) in H.
  destruct (drop_zeros (sort_by_key cl)) as [|[s l] rest]; [cbn; lia|].
  assert (G : (length ((s, resize (N.to_nat l) []) :: assign (resize (N.to_nat l) []) rest) <= length cl)%nat).
  { cbn [length] in *. rewrite assign_length. exact H. }
  destruct l as [|p]; [exact G|]. destruct p; try exact G. destruct rest; [cbn [length] in *; lia | exact G].
Qed.
Lemma index_from_length : forall cl i, length (index_from i cl) = length cl.
Proof. induction cl as [|l r IH]; intros i; cbn [index_from length]; [reflexivity|]. now rewrite IH. Qed.

(* an accepted code over an alphabet of [length cl] symbols: the tree has one leaf per used symbol, at most the
   alphabet size, and exactly one internal node fewer than leaves *)
Theorem accepted_tree_size (cl : list N) (t : htree) : new_vec cl = Ok t ->
  fleaves (ht_tree t) = length (symbols (index_from 0 cl))
  /\ (fleaves (ht_tree t) <= length cl)%nat
  /\ S (fnodes (ht_tree t)) = fleaves (ht_tree t).
Proof.
  unfold new_vec, new, from_symbols. destruct (compile (symbols (index_from 0 cl))) as [f|e] eqn:E; [|discriminate].
  intros H. injection H as <-. cbn [ht_tree]. apply compile_leaves in E.
  split; [exact E|]. split; [|apply fnodes_leaves].
  rewrite E. pose proof (symbols_length (index_from 0 cl)) as H. now rewrite index_from_length in H.
Qed.

(* the tabulation of bitstream-io allocates exactly one continuation table per internal node (every internal node is
   reached with an empty bit queue from exactly one reader state: the one holding the first depth mod 8 bits of its path),
   plus the top-level table: as many 256-entry tables as the tree has leaves *)
Lemma cont_tables_sum f :
  (cont_tables f 0 + cont_tables f 1 + cont_tables f 2 + cont_tables f 3
   + cont_tables f 4 + cont_tables f 5 + cont_tables f 6 + cont_tables f 7 = fnodes f)%nat.
Proof. induction f as [s | z IHz o IHo]; cbn [cont_tables fnodes]; lia. Qed.

Theorem total_tables_leaves f : total_tables f = fleaves f.
Proof.
  unfold total_tables. cbn [seq fold_right]. rewrite <- fnodes_leaves, <- (cont_tables_sum f). lia.
Qed.

Theorem accepted_tree_tables (cl : list N) (t : htree) : new_vec cl = Ok t ->
  total_tables (ht_tree t) = length (symbols (index_from 0 cl)) /\ (total_tables (ht_tree t) <= length cl)%nat.
Proof.
  intros H. destruct (accepted_tree_size cl t H) as (H1 & H2 & _). rewrite total_tables_leaves. auto.
Qed.

Example accepted_tree_size_sat :
  exists t, new_vec [2; 1; 3; 3] = Ok t /\ fleaves (ht_tree t) = 4%nat /\ fnodes (ht_tree t) = 3%nat.
Proof. eexists. vm_compute. repeat split. Qed.
Example webp_alloc_event_sat :
  exists tr, snd (run_trace (cursor (input_of_bytes (RIFF ++ [x0e; x00; x00; x00] ++ [x57; x45; x42; x50] ++ VP8 ++
                                      [x02; x00; x00; x00; x01; x02])) true 18446744073709551615) (fun s => s)
                    (webp_prog (fun _ _ _ => Ok tt) false 10) 0 []) = tr /\ In (OAlloc 4, 8) tr.
Proof. eexists. split; [reflexivity|]. vm_compute. tauto. Qed.
