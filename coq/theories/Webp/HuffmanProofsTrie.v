(* C18 proofs, part 2: the trie of bitstream-io's compile_read_tree.
   - insertion succeeds when the new code is prefix-incomparable with every leaf already present;
   - a successful insertion adds exactly that leaf, and adds 2^(n - len) to the leaf weight at scale n;
   - finalisation succeeds iff the leaf weight is 2^n (no empty node);
   - decoding the final tree = finding the leaf whose path is a prefix of the input. *)
From Coq Require Import List NArith PeanoNat Bool Lia ZifyBool ZifyNat ZifyN.
From MS Require Import Webp.Huffman Webp.HuffmanSpec Webp.HuffmanProofsBits.
Import ListNotations.
Open Scope N_scope.
Arguments N.add : simpl never.
Arguments N.sub : simpl never.
Arguments N.mul : simpl never.
Arguments N.div : simpl never.
Arguments N.modulo : simpl never.
Arguments N.pow : simpl never.

Fixpoint leaves (t : wip) : list (code * N) :=
  match t with
  | WEmpty => []
  | WLeaf s => [([], s)]
  | WTree z o => map (fun p => (false :: fst p, snd p)) (leaves z) ++ map (fun p => (true :: fst p, snd p)) (leaves o)
  end.

Fixpoint fleaves (f : ftree) : list (code * N) :=
  match f with
  | FLeaf s => [([], s)]
  | FNode z o => map (fun p => (false :: fst p, snd p)) (fleaves z) ++ map (fun p => (true :: fst p, snd p)) (fleaves o)
  end.

(* every Tree node has a leaf below it (compile_read_tree never leaves Tree(Empty, Empty) behind) *)
Fixpoint wf (t : wip) : Prop :=
  match t with
  | WTree z o => (leaves z <> [] \/ leaves o <> []) /\ wf z /\ wf o
  | _ => True
  end.

Fixpoint height (t : wip) : nat :=
  match t with
  | WTree z o => S (Nat.max (height z) (height o))
  | _ => O
  end.

(* leaf weight at scale n: sum over the leaves of 2^(n - depth) *)
Fixpoint tsum (n : nat) (t : wip) : N :=
  match t with
  | WEmpty => 0
  | WLeaf _ => p2 n
  | WTree z o => tsum (pred n) z + tsum (pred n) o
  end.

Lemma in_leaves_tree z o c s :
  In (c, s) (leaves (WTree z o)) <->
  (exists c', c = false :: c' /\ In (c', s) (leaves z)) \/ (exists c', c = true :: c' /\ In (c', s) (leaves o)).
Proof.
  cbn [leaves]. rewrite in_app_iff, !in_map_iff. split.
  - intros [[[c' s'] [E H]]|[[c' s'] [E H]]]; cbn [fst snd] in E; inversion E; subst; [left|right]; eauto.
  - intros [[c' [-> H]]|[c' [-> H]]]; [left|right]; exists (c', s); auto.
Qed.

Lemma prefix_cons b a c : prefix (b :: a) (b :: c) <-> prefix a c.
Proof. split; intros [r H]; exists r; [now inversion H|now rewrite H]. Qed.

Lemma incomparable_cons b a c : incomparable (b :: a) (b :: c) -> incomparable a c.
Proof. unfold incomparable. rewrite !prefix_cons. auto. Qed.

Lemma prefix_nil c : prefix [] c.
Proof. now exists c. Qed.

(* ---- insertion -------------------------------------------------------------------------------------------- *)
Lemma add_ok c : forall t s, wf t -> (forall p s', In (p, s') (leaves t) -> incomparable p c) ->
  exists t', add t c s = inl t'.
Proof.
  induction c as [|b c IH]; intros t s Hwf Hinc.
  - destruct t as [|s0|z o]; cbn [add].
    + eauto.
    + exfalso. destruct (Hinc [] s0) as [H _]; [now left|]. apply H, prefix_nil.
    + exfalso. destruct Hwf as [[Hz|Ho] _].
      * destruct (leaves z) as [|[p s'] l] eqn:E; [congruence|].
        destruct (Hinc (false :: p) s') as [_ H]; [|apply H, prefix_nil].
        apply in_leaves_tree. left. exists p. rewrite E. split; [reflexivity|now left].
      * destruct (leaves o) as [|[p s'] l] eqn:E; [congruence|].
        destruct (Hinc (true :: p) s') as [_ H]; [|apply H, prefix_nil].
        apply in_leaves_tree. right. exists p. rewrite E. split; [reflexivity|now left].
  - destruct t as [|s0|z o]; cbn [add].
    + destruct (IH WEmpty s) as [t' ->]; [exact I|intros ? ? []|]. eauto.
    + exfalso. destruct (Hinc [] s0) as [H _]; [now left|]. apply H, prefix_nil.
    + destruct Hwf as [_ [Hz Ho]]. destruct b.
      * destruct (IH o s Ho) as [t' ->]; [|eauto].
        intros p s' Hin. apply incomparable_cons with true. apply (Hinc _ s').
        apply in_leaves_tree. right. eauto.
      * destruct (IH z s Hz) as [t' ->]; [|eauto].
        intros p s' Hin. apply incomparable_cons with false. apply (Hinc _ s').
        apply in_leaves_tree. left. eauto.
Qed.

Lemma add_leaves c : forall t s t', add t c s = inl t' ->
  forall p s', In (p, s') (leaves t') <-> (p, s') = (c, s) \/ In (p, s') (leaves t).
Proof.
  induction c as [|b c IH]; intros t s t' H p s'.
  - destruct t as [|s0|z o]; cbn [add] in H; inversion H; subst. cbn [leaves In]. intuition.
  - destruct t as [|s0|z o]; cbn [add] in H.
    + destruct (add WEmpty c s) as [t1|e] eqn:E; [|discriminate]. inversion H; subst; clear H.
      specialize (IH _ _ _ E). cbn [leaves In] in IH.
      destruct b; rewrite in_leaves_tree; cbn [leaves In]; split.
      * intros [[c' [_ []]]|[c' [-> Hin]]]. apply IH in Hin. destruct Hin as [Hin|[]]. inversion Hin; subst. now left.
      * intros [Heq|[]]. inversion Heq; subst. right. exists c. split; [reflexivity|]. apply IH. now left.
      * intros [[c' [-> Hin]]|[c' [_ []]]]. apply IH in Hin. destruct Hin as [Hin|[]]. inversion Hin; subst. now left.
      * intros [Heq|[]]. inversion Heq; subst. left. exists c. split; [reflexivity|]. apply IH. now left.
    + discriminate.
    + destruct b.
      * destruct (add o c s) as [t1|e] eqn:E; [|discriminate]. inversion H; subst; clear H.
        specialize (IH _ _ _ E). rewrite !in_leaves_tree. split.
        -- intros [Hl|[c' [-> Hin]]]; [right; now left|]. apply IH in Hin. destruct Hin as [Hin|Hin].
           ++ inversion Hin; subst. now left.
           ++ right. right. eauto.
        -- intros [Heq|[Hl|[c' [-> Hin]]]].
           ++ inversion Heq; subst. right. exists c. split; [reflexivity|]. apply IH. now left.
           ++ now left.
           ++ right. exists c'. split; [reflexivity|]. apply IH. now right.
      * destruct (add z c s) as [t1|e] eqn:E; [|discriminate]. inversion H; subst; clear H.
        specialize (IH _ _ _ E). rewrite !in_leaves_tree. split.
        -- intros [[c' [-> Hin]]|Hr]; [|right; now right]. apply IH in Hin. destruct Hin as [Hin|Hin].
           ++ inversion Hin; subst. now left.
           ++ right. left. eauto.
        -- intros [Heq|[[c' [-> Hin]]|Hr]].
           ++ inversion Heq; subst. left. exists c. split; [reflexivity|]. apply IH. now left.
           ++ left. exists c'. split; [reflexivity|]. apply IH. now right.
           ++ now right.
Qed.

Lemma add_nonempty c t s t' : add t c s = inl t' -> leaves t' <> [].
Proof.
  intros H E. pose proof (proj2 (add_leaves _ _ _ _ H c s) (or_introl eq_refl)) as Hin. now rewrite E in Hin.
Qed.

Lemma add_wf c : forall t s t', add t c s = inl t' -> wf t -> wf t'.
Proof.
  induction c as [|b c IH]; intros t s t' H Hwf.
  - destruct t; cbn [add] in H; inversion H; subst; exact I.
  - destruct t as [|s0|z o]; cbn [add] in H.
    + destruct (add WEmpty c s) as [t1|e] eqn:E; [|discriminate]. inversion H; subst; clear H.
      pose proof (add_nonempty _ _ _ _ E). pose proof (IH _ _ _ E I).
      destruct b; cbn [wf leaves]; intuition.
    + discriminate.
    + destruct Hwf as [_ [Hz Ho]]. destruct b.
      * destruct (add o c s) as [t1|e] eqn:E; [|discriminate]. inversion H; subst; clear H.
        pose proof (add_nonempty _ _ _ _ E). pose proof (IH _ _ _ E Ho). cbn [wf]. intuition.
      * destruct (add z c s) as [t1|e] eqn:E; [|discriminate]. inversion H; subst; clear H.
        pose proof (add_nonempty _ _ _ _ E). pose proof (IH _ _ _ E Hz). cbn [wf]. intuition.
Qed.

Lemma p2_pred_sub n k : (S k <= n)%nat -> p2 (pred n - k) = p2 (n - S k).
Proof. intros. f_equal. lia. Qed.

Lemma add_tsum c : forall t s t' n, add t c s = inl t' -> (height t <= n)%nat -> (length c <= n)%nat ->
  tsum n t' = tsum n t + p2 (n - length c) /\ (height t' <= n)%nat.
Proof.
  induction c as [|b c IH]; intros t s t' n H Hh Hl.
  - destruct t; cbn [add] in H; inversion H; subst. cbn [tsum height length]. rewrite Nat.sub_0_r. split; lia.
  - cbn [length] in Hl. destruct t as [|s0|z o]; cbn [add] in H.
    + destruct (add WEmpty c s) as [t1|e] eqn:E; [|discriminate]. inversion H; subst; clear H.
      destruct (IH _ _ _ (pred n) E) as [Hs Hh']; [cbn; lia|lia|].
      cbn [tsum] in Hs. cbn [length]. rewrite <- p2_pred_sub by lia.
      destruct b; cbn [tsum height]; split; lia.
    + discriminate.
    + cbn [height] in Hh. destruct b.
      * destruct (add o c s) as [t1|e] eqn:E; [|discriminate]. inversion H; subst; clear H.
        destruct (IH _ _ _ (pred n) E) as [Hs Hh']; [lia|lia|].
        cbn [length]. rewrite <- p2_pred_sub by lia. cbn [tsum height]; split; lia.
      * destruct (add z c s) as [t1|e] eqn:E; [|discriminate]. inversion H; subst; clear H.
        destruct (IH _ _ _ (pred n) E) as [Hs Hh']; [lia|lia|].
        cbn [length]. rewrite <- p2_pred_sub by lia. cbn [tsum height]; split; lia.
Qed.

(* ---- many insertions -------------------------------------------------------------------------------------- *)
Definition codes_weight (n : nat) (syms : list (N * code)) : N :=
  fold_right (fun sc acc => p2 (n - length (snd sc)) + acc) 0 syms.

Lemma add_all_props syms : forall t t' n, add_all t syms = inl t' -> wf t -> (height t <= n)%nat ->
  (forall s c, In (s, c) syms -> (length c <= n)%nat) ->
  wf t' /\ (height t' <= n)%nat /\ tsum n t' = tsum n t + codes_weight n syms /\
  (forall p s', In (p, s') (leaves t') <-> In (s', p) syms \/ In (p, s') (leaves t)).
Proof.
  induction syms as [|[s c] syms IH]; intros t t' n H Hwf Hh Hl.
  - cbn [add_all] in H. inversion H; subst. cbn [codes_weight fold_right In]. repeat split; try assumption; try lia; intuition.
  - cbn [add_all] in H. destruct (add t c s) as [t1|e] eqn:E; [|discriminate].
    destruct (add_tsum _ _ _ _ n E Hh) as [Hs1 Hh1]; [apply (Hl s); now left|].
    pose proof (add_wf _ _ _ _ E Hwf) as Hwf1.
    destruct (IH _ _ n H Hwf1 Hh1) as [Hw [Hh2 [Hs2 Hlv]]]; [intros; eapply Hl; right; eassumption|].
    repeat split; try assumption.
    + rewrite Hs2, Hs1. unfold codes_weight. cbn [fold_right snd]. lia.
    + intros Hin. apply Hlv in Hin. destruct Hin as [Hin|Hin]; [left; now right|].
      apply (add_leaves _ _ _ _ E) in Hin. destruct Hin as [Heq|Hin]; [|now right]. inversion Heq; subst. left. now left.
    + intros [[Heq|Hin]|Hin]; apply Hlv.
      * inversion Heq; subst. right. apply (add_leaves _ _ _ _ E). now left.
      * now left.
      * right. apply (add_leaves _ _ _ _ E). now right.
Qed.

Lemma add_all_leaves syms : forall t t', add_all t syms = inl t' -> wf t ->
  wf t' /\ (forall p s', In (p, s') (leaves t') <-> In (s', p) syms \/ In (p, s') (leaves t)).
Proof.
  induction syms as [|[s c] syms IH]; intros t t' H Hwf.
  - cbn [add_all] in H. inversion H; subst. cbn [In]. split; [assumption|intuition].
  - cbn [add_all] in H. destruct (add t c s) as [t1|e] eqn:E; [|discriminate].
    pose proof (add_wf _ _ _ _ E Hwf) as Hwf1.
    destruct (IH _ _ H Hwf1) as [Hw Hlv]. split; [assumption|]. intros p s'. split.
    + intros Hin. apply Hlv in Hin. destruct Hin as [Hin|Hin]; [left; now right|].
      apply (add_leaves _ _ _ _ E) in Hin. destruct Hin as [Heq|Hin]; [|now right]. inversion Heq; subst. left. now left.
    + intros [[Heq|Hin]|Hin]; apply Hlv.
      * inversion Heq; subst. right. apply (add_leaves _ _ _ _ E). now left.
      * now left.
      * right. apply (add_leaves _ _ _ _ E). now right.
Qed.

Lemma add_all_ok syms : forall t, wf t ->
  ForallOrdPairs (fun a b => incomparable (snd a) (snd b)) syms ->
  (forall p s' s c, In (p, s') (leaves t) -> In (s, c) syms -> incomparable p c) ->
  exists t', add_all t syms = inl t'.
Proof.
  induction syms as [|[s c] syms IH]; intros t Hwf Hpw Hinc; cbn [add_all]; [eauto|].
  inversion Hpw as [|? ? Hhd Htl]; subst.
  destruct (add_ok c t s Hwf) as [t1 E]; [intros p s' Hin; eapply Hinc; [eassumption|now left]|].
  rewrite E. apply IH; [eapply add_wf; eassumption|assumption|].
  intros p s' s2 c2 Hin Hin2. apply (add_leaves _ _ _ _ E) in Hin. destruct Hin as [Heq|Hin].
  - inversion Heq; subst. rewrite Forall_forall in Hhd. apply (Hhd (s2, c2) Hin2).
  - eapply Hinc; [eassumption|right; eassumption].
Qed.

(* ---- finalisation ----------------------------------------------------------------------------------------- *)
Lemma tsum_le t : forall n, (height t <= n)%nat -> tsum n t <= p2 n.
Proof.
  induction t as [|s|z IHz o IHo]; intros n Hh; cbn [tsum].
  - pose proof (p2_pos n). lia.
  - lia.
  - cbn [height] in Hh. destruct n as [|n]; [lia|]. cbn [pred]. rewrite p2_S.
    specialize (IHz n). specialize (IHo n). lia.
Qed.

Lemma finalize_iff t : forall n, (height t <= n)%nat -> ((exists f, finalize t = inl f) <-> tsum n t = p2 n).
Proof.
  induction t as [|s|z IHz o IHo]; intros n Hh; cbn [tsum finalize].
  - pose proof (p2_pos n). split; [intros [f Hf]; discriminate|lia].
  - split; eauto.
  - cbn [height] in Hh. destruct n as [|n]; [lia|]. cbn [pred]. rewrite p2_S.
    pose proof (tsum_le z n). pose proof (tsum_le o n).
    specialize (IHz n). specialize (IHo n). split.
    + intros [f H1]. destruct (finalize z) as [fz|]; [|discriminate]. destruct (finalize o) as [fo|]; [|discriminate].
      assert (tsum n z = p2 n) by (apply IHz; [lia|eauto]).
      assert (tsum n o = p2 n) by (apply IHo; [lia|eauto]). lia.
    + intros Hs. assert (Hz : tsum n z = p2 n) by lia. assert (Ho : tsum n o = p2 n) by lia.
      apply IHz in Hz; [|lia]. apply IHo in Ho; [|lia]. destruct Hz as [fz ->]. destruct Ho as [fo ->]. eauto.
Qed.

Lemma finalize_leaves t : forall f, finalize t = inl f -> fleaves f = leaves t.
Proof.
  induction t as [|s|z IHz o IHo]; intros f H; cbn [finalize] in H.
  - discriminate.
  - inversion H; subst. reflexivity.
  - destruct (finalize z) as [fz|]; [|discriminate]. destruct (finalize o) as [fo|]; [|discriminate].
    inversion H; subst. cbn [fleaves leaves]. now rewrite (IHz fz), (IHo fo).
Qed.

(* ---- decoding --------------------------------------------------------------------------------------------- *)
Lemma in_fleaves_node z o c s :
  In (c, s) (fleaves (FNode z o)) <->
  (exists c', c = false :: c' /\ In (c', s) (fleaves z)) \/ (exists c', c = true :: c' /\ In (c', s) (fleaves o)).
Proof.
  cbn [fleaves]. rewrite in_app_iff, !in_map_iff. split.
  - intros [[[c' s'] [E H]]|[[c' s'] [E H]]]; cbn [fst snd] in E; inversion E; subst; [left|right]; eauto.
  - intros [[c' [-> H]]|[c' [-> H]]]; [left|right]; exists (c', s); auto.
Qed.

Lemma decode_leaves f : forall bits s rest,
  decode f bits = Some (s, rest) <-> exists c, In (c, s) (fleaves f) /\ bits = c ++ rest.
Proof.
  induction f as [s0|z IHz o IHo]; intros bits s rest.
  - cbn [decode fleaves In]. split.
    + intros H. inversion H; subst. exists []. split; [now left|reflexivity].
    + intros [c [[Heq|[]] ->]]. inversion Heq; subst. reflexivity.
  - cbn [decode]. destruct bits as [|b bits].
    + split; [discriminate|]. intros [c [Hin Hb]]. apply in_fleaves_node in Hin.
      destruct Hin as [[c' [-> _]]|[c' [-> _]]]; discriminate.
    + destruct b.
      * rewrite IHo. split.
        -- intros [c' [Hin ->]]. exists (true :: c'). split; [apply in_fleaves_node; right; eauto|reflexivity].
        -- intros [c [Hin Hb]]. apply in_fleaves_node in Hin.
           destruct Hin as [[c' [-> Hin]]|[c' [-> Hin]]]; cbn [app] in Hb; inversion Hb; subst. eauto.
      * rewrite IHz. split.
        -- intros [c' [Hin ->]]. exists (false :: c'). split; [apply in_fleaves_node; left; eauto|reflexivity].
        -- intros [c [Hin Hb]]. apply in_fleaves_node in Hin.
           destruct Hin as [[c' [-> Hin]]|[c' [-> Hin]]]; cbn [app] in Hb; inversion Hb; subst. eauto.
Qed.

(* enough bits => a symbol is read; the bits consumed are a leaf path *)
Lemma decode_enough f : forall n bits, (forall c s, In (c, s) (fleaves f) -> (length c <= n)%nat) ->
  (n <= length bits)%nat -> decode f bits <> None.
Proof.
  induction f as [s0|z IHz o IHo]; intros n bits Hl Hn; cbn [decode]; [discriminate|].
  assert (Hpos : (1 <= n)%nat).
  { assert (Hex : exists c s, In (c, s) (fleaves z)).
    { clear. induction z as [s|z1 IH1 z2 IH2]; [exists [], s; now left|].
      destruct IH1 as [c [s H]]. exists (false :: c), s. apply in_fleaves_node. left. eauto. }
    destruct Hex as [c [s H]]. specialize (Hl (false :: c) s). cbn [length] in Hl.
    assert (S (length c) <= n)%nat; [|lia]. apply Hl. apply in_fleaves_node. left. eauto. }
  destruct bits as [|b bits]; [cbn [length] in Hn; lia|]. cbn [length] in Hn.
  destruct b.
  - apply (IHo (pred n)); [|lia]. intros c s H. specialize (Hl (true :: c) s). cbn [length] in Hl.
    assert (S (length c) <= n)%nat; [|lia]. apply Hl. apply in_fleaves_node. right. eauto.
  - apply (IHz (pred n)); [|lia]. intros c s H. specialize (Hl (false :: c) s). cbn [length] in Hl.
    assert (S (length c) <= n)%nat; [|lia]. apply Hl. apply in_fleaves_node. left. eauto.
Qed.

(* ---- which error, where ------------------------------------------------------------------------------------ *)
Lemma add_err c : forall t s e, add t c s = inr e -> e = DuplicateLeaf \/ e = OrphanedLeaf.
Proof.
  induction c as [|b c IH]; intros t s e H; destruct t as [|s0|z o]; cbn [add] in H; try discriminate.
  - inversion H; auto.
  - inversion H; auto.
  - destruct (add WEmpty c s) as [t1|e1] eqn:E; [discriminate|]. inversion H; subst. eapply IH; eassumption.
  - inversion H; auto.
  - destruct b.
    + destruct (add o c s) as [t1|e1] eqn:E; [discriminate|]. inversion H; subst. eapply IH; eassumption.
    + destruct (add z c s) as [t1|e1] eqn:E; [discriminate|]. inversion H; subst. eapply IH; eassumption.
Qed.

Lemma add_all_err syms : forall t e, add_all t syms = inr e -> e = DuplicateLeaf \/ e = OrphanedLeaf.
Proof.
  induction syms as [|[s c] syms IH]; intros t e H; cbn [add_all] in H; [discriminate|].
  destruct (add t c s) as [t1|e1] eqn:E; [eapply IH; eassumption|]. inversion H; subst. eapply add_err; eassumption.
Qed.

Lemma finalize_err t e : finalize t = inr e -> e = MissingLeaf.
Proof.
  induction t as [|s|z IHz o IHo]; cbn [finalize]; intros H; try discriminate.
  - now inversion H.
  - destruct (finalize z) as [fz|ez]; [|inversion H; subst; auto].
    destruct (finalize o) as [fo|eo]; [discriminate|]. inversion H; subst; auto.
Qed.
