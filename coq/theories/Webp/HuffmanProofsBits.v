(* C18 proofs, part 1: bit vectors as numbers.  [lval r] reads a list least-significant bit first; a code
   (most significant bit first) [c] has value [lval (rev c)].  The Rust increment-with-wrap is +1 modulo 2^len,
   resize-with-zeros is a shift, and [bits_msb n v] is the unique n-bit code of value v mod 2^n. *)
From Coq Require Import List NArith PeanoNat Bool Lia ZifyBool ZifyNat ZifyN.
From MS Require Import Webp.Huffman Webp.HuffmanSpec.
Import ListNotations.
Open Scope N_scope.
Arguments N.add : simpl never.
Arguments N.sub : simpl never.
Arguments N.mul : simpl never.
Arguments N.div : simpl never.
Arguments N.modulo : simpl never.
Arguments N.pow : simpl never.
Arguments N.eqb : simpl never.
Arguments N.ltb : simpl never.
Arguments N.leb : simpl never.

Definition p2 (n : nat) : N := 2 ^ N.of_nat n.

Lemma p2_0 : p2 0 = 1.
Proof. reflexivity. Qed.

Lemma p2_S n : p2 (S n) = 2 * p2 n.
Proof. unfold p2. rewrite Nat2N.inj_succ, N.pow_succ_r'. reflexivity. Qed.

Lemma p2_pos n : 0 < p2 n.
Proof. unfold p2. apply N.neq_0_lt_0, N.pow_nonzero. discriminate. Qed.

Lemma p2_add a b : p2 (a + b) = p2 a * p2 b.
Proof. unfold p2. rewrite Nat2N.inj_add, N.pow_add_r. reflexivity. Qed.

Lemma p2_le a b : (a <= b)%nat -> p2 a <= p2 b.
Proof. intros H. unfold p2. apply N.pow_le_mono_r; lia. Qed.

Lemma p2_N l : p2 (N.to_nat l) = 2 ^ l.
Proof. unfold p2. rewrite N2Nat.id. reflexivity. Qed.

(* ---- little-endian value ---------------------------------------------------------------------------------- *)
Fixpoint lval (r : list bool) : N :=
  match r with
  | [] => 0
  | b :: r' => 2 * lval r' + N.b2n b
  end.

Lemma lval_lt r : lval r < p2 (length r).
Proof.
  induction r as [|b r IH]; cbn [lval length].
  - rewrite p2_0. lia.
  - rewrite p2_S. destruct b; cbn [N.b2n]; lia.
Qed.

Lemma lval_app a b : lval (a ++ b) = lval a + p2 (length a) * lval b.
Proof.
  induction a as [|x a IH]; cbn [lval length app].
  - rewrite p2_0. lia.
  - rewrite IH, p2_S. lia.
Qed.

Lemma lval_repeat_false n : lval (repeat false n) = 0.
Proof. induction n; cbn [repeat lval N.b2n]; lia. Qed.

Lemma inc_rev_length r : length (inc_rev r) = length r.
Proof. induction r as [|[] r IH]; cbn [inc_rev length]; congruence. Qed.

Lemma lval_inc_rev r : lval (inc_rev r) = (lval r + 1) mod p2 (length r).
Proof.
  induction r as [|b r IH]; cbn [inc_rev lval length].
  - rewrite p2_0. now rewrite N.mod_1_r.
  - rewrite p2_S. pose proof (lval_lt r) as Hlt. pose proof (p2_pos (length r)) as Hp.
    destruct b; cbn [lval N.b2n].
    + rewrite IH.
      replace (2 * lval r + 1 + 1) with (2 * (lval r + 1)) by lia.
      rewrite N.mul_mod_distr_l by lia. lia.
    + rewrite N.mod_small by lia. lia.
Qed.

Lemma testbit_lval r i : N.testbit (lval r) (N.of_nat i) = nth i r false.
Proof.
  revert i. induction r as [|b r IH]; intros i; cbn [lval].
  - rewrite N.bits_0. now destruct i.
  - destruct i as [|i].
    + cbn [nth N.of_nat]. apply N.testbit_0_r.
    + rewrite Nat2N.inj_succ, N.testbit_succ_r. cbn [nth]. apply IH.
Qed.

(* ---- bits_msb --------------------------------------------------------------------------------------------- *)
Lemma bits_msb_length n v : length (bits_msb n v) = n.
Proof. induction n; cbn [bits_msb length]; congruence. Qed.

Lemma rev_bits_msb n v : rev (bits_msb n v) = map (fun i => N.testbit v (N.of_nat i)) (seq 0 n).
Proof.
  induction n as [|n IH]; [reflexivity|].
  cbn [bits_msb rev]. rewrite IH, seq_S, map_app. reflexivity.
Qed.

Lemma list_as_testbits r : r = map (fun i => N.testbit (lval r) (N.of_nat i)) (seq 0 (length r)).
Proof.
  induction r as [|b r IH]; [reflexivity|].
  cbn [length seq map]. f_equal.
  - cbn [lval N.of_nat]. symmetry. apply N.testbit_0_r.
  - rewrite <- seq_shift, map_map. rewrite IH at 1. apply map_ext. intros i.
    cbn [lval]. now rewrite Nat2N.inj_succ, N.testbit_succ_r.
Qed.

Lemma testbit_mod_eq a b n i : a mod p2 n = b mod p2 n -> (i < n)%nat -> N.testbit a (N.of_nat i) = N.testbit b (N.of_nat i).
Proof.
  intros H Hi. unfold p2 in H.
  rewrite <- (N.mod_pow2_bits_low a (N.of_nat n)) by lia.
  rewrite <- (N.mod_pow2_bits_low b (N.of_nat n)) by lia.
  now rewrite H.
Qed.

(* the unique n-bit little-endian list of a value *)
Lemma lbits_unique r n v : length r = n -> lval r mod p2 n = v mod p2 n -> r = rev (bits_msb n v).
Proof.
  intros Hl Hv. rewrite rev_bits_msb, (list_as_testbits r), Hl.
  apply map_ext_in. intros i Hi. apply in_seq in Hi. apply testbit_mod_eq with n; [assumption|lia].
Qed.

Lemma lval_rev_bits_msb n v : lval (rev (bits_msb n v)) = v mod p2 n.
Proof.
  induction n as [|n IH].
  - cbn [bits_msb rev lval]. rewrite p2_0. now rewrite N.mod_1_r.
  - cbn [bits_msb rev]. rewrite lval_app, rev_length, bits_msb_length, IH. cbn [lval].
    rewrite p2_S, (N.mul_comm 2 (p2 n)). pose proof (p2_pos n).
    rewrite N.mod_mul_r by lia. rewrite N.testbit_spec'. unfold p2. lia.
Qed.

Lemma bits_msb_inj n a b : bits_msb n a = bits_msb n b -> a mod p2 n = b mod p2 n.
Proof. intros H. rewrite <- !lval_rev_bits_msb, H. reflexivity. Qed.

Lemma bits_msb_mod n v : bits_msb n (v mod p2 n) = bits_msb n v.
Proof.
  rewrite <- (rev_involutive (bits_msb n (v mod p2 n))), <- (rev_involutive (bits_msb n v)). f_equal.
  symmetry. apply lbits_unique.
  - now rewrite rev_length, bits_msb_length.
  - rewrite lval_rev_bits_msb. pose proof (p2_pos n). now rewrite !N.mod_mod by lia.
Qed.

Lemma code_unique c n v : length c = n -> lval (rev c) mod p2 n = v mod p2 n -> c = bits_msb n v.
Proof.
  intros Hl Hv. rewrite <- (rev_involutive c). rewrite <- (rev_involutive (bits_msb n v)). f_equal.
  apply lbits_unique; [now rewrite rev_length|assumption].
Qed.

Lemma bits_msb_zero n : bits_msb n 0 = repeat false n.
Proof. induction n as [|n IH]; cbn [bits_msb repeat]; [reflexivity|]. now rewrite N.bits_0, IH. Qed.

(* firstn of a code = the code of the quotient *)
Lemma firstn_bits_msb n d v : firstn n (bits_msb (n + d) v) = bits_msb n (v / p2 d).
Proof.
  induction n as [|n IH]; [reflexivity|].
  cbn [Nat.add bits_msb firstn]. rewrite IH. f_equal.
  unfold p2. rewrite N.div_pow2_bits. f_equal. lia.
Qed.

(* ---- the Rust operations on codes ------------------------------------------------------------------------- *)
Lemma incr_length c : length (incr c) = length c.
Proof. unfold incr. now rewrite rev_length, inc_rev_length, rev_length. Qed.

Lemma resize_length n c : length (resize n c) = n.
Proof. unfold resize. rewrite app_length, firstn_length, repeat_length. lia. Qed.

Lemma resize_nil n : resize n [] = bits_msb n 0.
Proof. unfold resize. rewrite firstn_nil, bits_msb_zero. cbn [length app]. now rewrite Nat.sub_0_r. Qed.

(* one iteration of the loop in `symbols`: increment (with wrap-around), then extend with zeros *)
Lemma step_code n m v :
  (n <= m)%nat -> resize m (incr (bits_msb n v)) = bits_msb m ((v + 1) * p2 (m - n)).
Proof.
  intros Hnm. apply code_unique; [apply resize_length|].
  unfold resize. rewrite firstn_all2 by (rewrite incr_length, bits_msb_length; lia).
  rewrite incr_length, bits_msb_length.
  rewrite rev_app_distr, lval_app. unfold incr at 1. rewrite rev_involutive.
  rewrite lval_inc_rev, !rev_length, bits_msb_length, lval_rev_bits_msb.
  assert (Hr : rev (repeat false (m - n)) = repeat false (m - n)).
  { generalize (m - n)%nat as k. induction k as [|k IH]; [reflexivity|].
    cbn [repeat rev]. rewrite IH. clear. induction k; cbn [repeat app]; congruence. }
  rewrite Hr, lval_repeat_false, repeat_length.
  pose proof (p2_pos n) as Hp. pose proof (p2_pos (m - n)) as Hq.
  rewrite N.add_mod_idemp_l by lia.
  assert (Hm : p2 m = p2 (m - n) * p2 n) by (rewrite <- p2_add; f_equal; lia).
  rewrite Hm, N.add_0_l, (N.mul_comm (v + 1)).
  rewrite !N.mul_mod_distr_l by lia. now rewrite N.mod_mod by lia.
Qed.

(* the wrap-around: when the code is all ones (value 2^n - 1) the increment gives all zeros, at any new length *)
Lemma wrap_code n m v : (n <= m)%nat -> v + 1 = p2 n -> resize m (incr (bits_msb n v)) = repeat false m.
Proof.
  intros Hnm Hv. rewrite step_code by assumption. rewrite Hv, <- p2_add.
  replace (n + (m - n))%nat with m by lia. rewrite <- bits_msb_mod, N.mod_same, bits_msb_zero; [reflexivity|].
  pose proof (p2_pos m). lia.
Qed.

(* ---- prefix order on codes ---------------------------------------------------------------------------------*)
Definition prefix (a b : code) : Prop := exists r, b = a ++ r.
Definition incomparable (a b : code) : Prop := ~ prefix a b /\ ~ prefix b a.

Lemma prefix_length a b : prefix a b -> (length a <= length b)%nat.
Proof. intros [r ->]. rewrite app_length. lia. Qed.

Lemma prefix_firstn a b : prefix a b -> firstn (length a) b = a.
Proof. intros [r ->]. rewrite firstn_app, Nat.sub_diag, firstn_all, firstn_O. apply app_nil_r. Qed.

(* two codes whose value intervals are disjoint are incomparable *)
Lemma disjoint_incomparable n m a b :
  (n <= m)%nat -> a < p2 n -> b < p2 m -> (a + 1) * p2 (m - n) <= b ->
  incomparable (bits_msb n a) (bits_msb m b).
Proof.
  intros Hnm Ha Hb Hab.
  assert (Hpre : ~ prefix (bits_msb n a) (bits_msb m b)).
  { intros Hp. apply prefix_firstn in Hp. rewrite bits_msb_length in Hp.
    replace m with (n + (m - n))%nat in Hp at 1 by lia.
    rewrite firstn_bits_msb in Hp. apply bits_msb_inj in Hp.
    pose proof (p2_pos (m - n)) as Hq.
    assert (Hdiv : b / p2 (m - n) < p2 n).
    { apply N.div_lt_upper_bound; [lia|]. rewrite <- p2_add. now replace (m - n + n)%nat with m by lia. }
    rewrite (N.mod_small a), (N.mod_small (b / _)) in Hp by assumption.
    assert (a + 1 <= b / p2 (m - n)) by (apply N.div_le_lower_bound; lia).
    lia. }
  split; [exact Hpre|].
  intros Hp. pose proof (prefix_length _ _ Hp) as Hl. rewrite !bits_msb_length in Hl.
  assert (n = m) by lia. subst m.
  destruct Hp as [r Hr].
  assert (r = []).
  { apply (f_equal (@length bool)) in Hr. rewrite app_length, !bits_msb_length in Hr. destruct r; [reflexivity|cbn in Hr; lia]. }
  subst r. rewrite app_nil_r in Hr.
  apply Hpre. exists []. now rewrite app_nil_r.
Qed.
