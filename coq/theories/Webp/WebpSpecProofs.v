(* C06 and C07 composed, at the level of whole files: if the modelled webpsan (container + lossless validator Webp/Vp8l.v)
   accepts an input, the input satisfies the container grammar in which every lossless payload the grammar looks at
   (every VP8L chunk, every losslessly compressed ALPH chunk; still images and animation frames) is one the REFERENCE
   reading of the lossless specification decodes (Vp8lSpec.vp8l_spec), for the dimensions the grammar attaches to it.
   Ingredients: C06_sound (the grammar with the model's own verdicts), C07_model_sound (model => reference specification,
   dimensions below 2^32 pixels), and monotonicity of the grammar in its lossless predicate (it occurs only positively). *)
From Coq Require Import List NArith Bool Lia.
From Coq.Strings Require Import Byte.
From MS Require Import Base.Bytes Base.Outcome Base.Prog Webp.Container Webp.Grammar Webp.Vp8l Webp.Vp8lSpec
  Webp.ContainerProofsSound Webp.ContainerProofsTop Webp.Vp8lProofsTop.
Import ListNotations.
Open Scope N_scope.

Section Mono.
Variables (lok1 lok2 : N -> N -> bytes -> bool) (allow : bool) (inp : input).
Hypothesis Hle : forall w h b, lok1 w h b = true -> lok2 w h b = true.

Lemma vp8l_ok_mono d c : vp8l_ok lok1 inp d c = true -> vp8l_ok lok2 inp d c = true.
Proof.
  unfold vp8l_ok. destruct (vp8l_dims inp c) as [[w h]|]; [|auto]. intros H. apply andb_prop in H. destruct H as [H1 H2].
  rewrite H1. cbn [andb]. now apply Hle.
Qed.
Lemma alph_ok_mono w h c : alph_ok lok1 inp w h c = true -> alph_ok lok2 inp w h c = true.
Proof.
  unfold alph_ok. intros H. apply andb_prop in H. destruct H as [H1 H]. rewrite H1. cbn [andb]. cbv zeta in *.
  apply andb_prop in H. destruct H as [H2 H3]. rewrite H2. cbn [andb]. destruct (N.odd _); [now apply Hle | reflexivity].
Qed.
Lemma image_ok_mono a r w h cs rest : image_ok lok1 inp a r w h cs = Some rest -> image_ok lok2 inp a r w h cs = Some rest.
Proof.
  unfold image_ok. destruct cs as [|c cs]; [auto|]. destruct (geq (w_name c) gALPH).
  - destruct (a && alph_ok lok1 inp w h c) eqn:E; [|discriminate]. apply andb_prop in E. destruct E as [-> E].
    rewrite (alph_ok_mono _ _ _ E). cbn [andb]. auto.
  - destruct r; [auto|]. destruct (geq (w_name c) gVP8); [auto|]. destruct (geq (w_name c) gVP8L); [|auto].
    destruct (vp8l_ok lok1 inp (Some (w, h)) c) eqn:E; [|discriminate]. rewrite (vp8l_ok_mono _ _ E). auto.
Qed.
Lemma frame_ok_mono af c : frame_ok lok1 allow inp af c = true -> frame_ok lok2 allow inp af c = true.
Proof.
  unfold frame_ok. intros H. apply andb_prop in H. destruct H as [H1 H]. rewrite H1. cbn [andb]. cbv zeta in *.
  destruct (region_chunks inp _ _) as [cs|]; [|discriminate].
  destruct (image_ok lok1 inp af false _ _ cs) as [r|] eqn:E; [|discriminate]. rewrite (image_ok_mono _ _ _ _ _ _ E). exact H.
Qed.
Lemma take_frames_mono af : forall cs rest, take_frames lok1 allow inp af cs = Some rest -> take_frames lok2 allow inp af cs = Some rest.
Proof.
  induction cs as [|c cs IH]; intros rest H; cbn [take_frames] in *; [exact H|].
  destruct (geq (w_name c) gANMF); [|exact H].
  destruct (frame_ok lok1 allow inp af c) eqn:E; [|discriminate]. rewrite (frame_ok_mono _ _ E). now apply IH.
Qed.
Lemma extended_ok_mono x cs : extended_ok lok1 allow inp x cs = true -> extended_ok lok2 allow inp x cs = true.
Proof.
  unfold extended_ok. intros H.
  repeat (apply andb_prop in H; destruct H as [?H H]; match goal with X : _ = true |- _ => rewrite X; clear X end; cbn [andb]; cbv zeta in H |- *).
  destruct (opt_chunk _ gICCP cs) as [cs1|]; [|discriminate].
  destruct (N.testbit _ 1).
  - destruct cs1 as [|a r]; [discriminate|]. destruct (geq (w_name a) gANIM && (w_len a =? 6)); [|discriminate].
    destruct r as [|fr r']; [discriminate|]. destruct (geq (w_name fr) gANMF); [|discriminate].
    destruct (take_frames lok1 allow inp _ (fr :: r')) as [cs2|] eqn:E; [|discriminate]. rewrite (take_frames_mono _ _ _ E). exact H.
  - destruct (image_ok lok1 inp _ _ _ _ cs1) as [cs2|] eqn:E; [|discriminate]. rewrite (image_ok_mono _ _ _ _ _ _ E). exact H.
Qed.
Lemma sequence_ok_mono cs : sequence_ok lok1 allow inp cs = true -> sequence_ok lok2 allow inp cs = true.
Proof.
  unfold sequence_ok. destruct cs as [|c r]; [auto|]. destruct (geq (w_name c) gVP8); [auto|].
  destruct (geq (w_name c) gVP8L).
  - intros H. apply andb_prop in H. destruct H as [H1 H2]. rewrite (vp8l_ok_mono _ _ H1), H2. reflexivity.
  - destruct (geq (w_name c) gVP8X); [apply extended_ok_mono | auto].
Qed.
Theorem webp_spec_mono : webp_spec lok1 allow inp = true -> webp_spec lok2 allow inp = true.
Proof.
  unfold webp_spec. intros H. apply andb_prop in H. destruct H as [H1 H]. rewrite H1. cbn [andb].
  destruct (region_chunks inp _ _) as [cs|]; [|discriminate]. now apply sequence_ok_mono.
Qed.
End Mono.

(* the reference reading, for the dimensions C07 covers; beyond them (frames of 2^32 pixels or more) nothing is claimed *)
Definition reference_ok (w h : N) (b : bytes) : bool :=
  if (0 <? w) && (w <=? 2 ^ 24) && (0 <? h) && (h <=? 2 ^ 24) && (w * h <? 2 ^ 32) then vp8l_spec w h b else true.

Lemma model_implies_reference w h b : is_ok (lossless_read w h b) = true -> reference_ok w h b = true.
Proof.
  intros H. unfold reference_ok. destruct ((0 <? w) && (w <=? 2 ^ 24) && (0 <? h) && (h <=? 2 ^ 24) && (w * h <? 2 ^ 32)) eqn:E; [|reflexivity].
  assert (D : dims w h) by (unfold dims; lia).
  destruct (lossless_read w h b) as [[]| | | |] eqn:R; try discriminate. exact (model_sound w h b D R).
Qed.

Theorem webpsan_accepts_only_reference_decodable allow lenient ms inp fuel :
  webp_sanitize lossless_read allow lenient ms inp fuel = Ok tt -> webp_spec reference_ok allow inp = true.
Proof.
  intros H. apply webp_sanitize_sound in H.
  eapply webp_spec_mono; [|exact H]. intros w h b. apply model_implies_reference.
Qed.

(* ------------------------------------------------------------------ completeness at file level (C06 + C08) *)
(* a lossless payload the reference reading decodes for dimensions below 2^32 pixels, and that is not one of the two
   documented strictness cases *)
Definition decodable_ok (w h : N) (b : bytes) : bool :=
  (0 <? w) && (w <=? 2 ^ 24) && (0 <? h) && (h <=? 2 ^ 24) && (w * h <? 2 ^ 32)
  && vp8l_spec w h b && negb (strict_exception w h b).

Lemma decodable_implies_model w h b : decodable_ok w h b = true -> is_ok (lossless_read w h b) = true.
Proof.
  unfold decodable_ok. intros H.
  repeat (apply andb_prop in H; destruct H as [H ?]).
  assert (D : dims w h) by (unfold dims; lia).
  rewrite (model_complete w h b D); [reflexivity | assumption |].
  destruct (strict_exception w h b); [discriminate | reflexivity].
Qed.

Theorem webpsan_accepts_decodable_files allow lenient ms inp fuel :
  ilen inp <= ms -> (N.to_nat (ilen inp / 8) < fuel)%nat ->
  webp_spec decodable_ok allow inp = true ->
  webp_sanitize lossless_read allow lenient ms inp fuel = Ok tt.
Proof.
  intros Hms Hf H. apply webp_sanitize_complete; [exact Hms | exact Hf |].
  eapply webp_spec_mono; [|exact H]. intros w h b. apply decodable_implies_model.
Qed.
