(* webpsan/src/reader.rs (ChunkReader, ChunkDataReader) and webpsan/src/lib.rs (sanitize_with_config,
   sanitize_extended / still / animated) as a programme over the abstract reader of Base/Prog.v.

   Reader levels.  A ChunkReader wraps its source in a std BufReader of capacity 8; a child reader's source is the
   parent's ChunkDataReader, i.e. the parent's chunk body clipped to its remaining length.  The model keeps, per
   level, the ChunkReader state machine (Idle / PeekingHeader / ReadingBody / ReadingPadding) and accounts bytes
   "as if unbuffered": an inner level can obtain at most min(remaining of every enclosing body) bytes, and every
   byte it consumes is subtracted from every enclosing body.  (Read-ahead of the 8-byte buffers only matters on
   paths that end in an error anyway; the correspondence check compares the model with the real reader stack.)

   The lossless bitstream validator is a parameter [lossless w h body]: it is given the bytes of the rest of the
   current chunk body that are actually present (BitBufReader pulls them through ChunkDataReader::read). *)
From Coq Require Import List NArith Bool Lia.
From Coq.Strings Require Import Byte.
From MS Require Import Base.Bytes Base.Outcome Base.Prog Webp.Prim Webp.Chunks Gen.Consts.
Import ListNotations.
Open Scope N_scope.

Record chdr := { ch_name : bytes; ch_len : N }.
Inductive cstate := Idle (last : bytes) | Peeking (h : chdr) | Body (h : chdr) (rem : N) | Padding (h : chdr).
Definition stack := list cstate.      (* enclosing levels, innermost first *)

Definition T (a b c d : byte) : bytes := [a; b; c; d].
Definition RIFF := T x52 x49 x46 x46.  Definition VP8 := T x56 x50 x38 x20.  Definition VP8L := T x56 x50 x38 x4c.
Definition VP8X := T x56 x50 x38 x58.  Definition ALPH := T x41 x4c x50 x48.  Definition ANIM := T x41 x4e x49 x4d.
Definition ANMF := T x41 x4e x4d x46.  Definition EXIF := T x45 x58 x49 x46.  Definition ICCP := T x49 x43 x43 x50.
Definition XMP := T x58 x4d x50 x20.
Definition teq (a b : bytes) : bool := if list_eq_dec Byte.byte_eq_dec a b then true else false.

(* ---------------------------------------------------------------- the source of a level = its enclosing levels *)
(* how many bytes the enclosing bodies can still deliver: None = unbounded (root) *)
Fixpoint avail (outer : stack) : res (option N) :=
  match outer with
  | [] => Ok None
  | Body _ rem :: rest => a <- avail rest ;; Ok (Some (match a with Some k => N.min rem k | None => rem end))
  | Peeking _ :: _ => Panic 20            (* ChunkDataReader::read/skip in PeekingHeader: panic! *)
  | _ :: _ => Ok (Some 0)
  end.

Fixpoint consume (n : N) (outer : stack) : stack :=
  match outer with
  | Body h rem :: rest => (if rem - n =? 0 then Padding h else Body h (rem - n)) :: consume n rest
  | other => other
  end.

Definition src_read_exact (n : N) (eof : option perr) (outer : stack) : prog (bytes * stack) :=
  a <~ lift (avail outer) ;;
  match a with
  | None => l <~ do_read_exact n eof ;; Ret (Ok (l, outer))
  | Some k =>
      if n <=? k then l <~ do_read_exact n eof ;; Ret (Ok (l, consume n outer))
      else _ <~ (if k =? 0 then Ret (Ok []) else do_read_exact k eof) ;; io_err eof EUnexpectedEof
  end.

Definition src_skip (n : N) (eof : option perr) (outer : stack) : prog stack :=
  a <~ lift (avail outer) ;;
  match a with
  | None => _ <~ do_skip n eof ;; Ret (Ok outer)
  | Some k =>
      if n <=? k then _ <~ do_skip n eof ;; Ret (Ok (consume n outer))
      else io_err eof EUnexpectedEof
  end.

(* BufReader::fill_buf non-empty? *)
Definition src_nonempty (outer : stack) : prog bool :=
  a <~ lift (avail outer) ;;
  match a with
  | Some 0 => Ret (Ok false)
  | _ => e <~ do_fill_empty ;; Ret (Ok (negb e))
  end.

Definition src_read_upto (n : N) (outer : stack) : prog (bytes * stack) :=
  a <~ lift (avail outer) ;;
  let k := match a with Some k => N.min n k | None => n end in
  if k =? 0 then Ret (Ok ([], outer)) else
  l <~ do_read_upto k ;; Ret (Ok (l, consume (N.of_nat (length l)) outer)).

(* ---------------------------------------------------------------- ChunkReader operations on a level *)
Definition lv := (cstate * stack)%type.
Definition TRUNC := Some TruncatedChunk.

Definition read_padding (l : lv) : prog lv :=
  let '(st, outer) := l in
  match st with
  | Padding h =>
      if N.odd (ch_len h) then
        '(pad, outer') <~ src_read_exact 1 TRUNC outer ;;
        if be2n pad =? 0 then Ret (Ok (Idle (ch_name h), outer')) else Ret (EParse WInvalidInput)
      else Ret (Ok (Idle (ch_name h), outer))
  | _ => Ret (Ok l)
  end.

Definition has_remaining (l : lv) : prog (bool * lv) :=
  l' <~ read_padding l ;;
  match fst l' with
  | Idle _ => b <~ src_nonempty (snd l') ;; Ret (Ok (b, l'))
  | Padding _ => Ret (Panic 21)         (* token: uninhabited *)
  | _ => Ret (Ok (true, l'))
  end.

Definition parse_chdr (b : bytes) : chdr := {| ch_name := firstn 4 b; ch_len := le2n (firstn 4 (skipn 4 b)) |}.
Definition after_header (h : chdr) : cstate := if ch_len h =? 0 then Padding h else Body h (ch_len h).

(* read_any_header: returns the chunk name and its length field *)
Definition read_any_header (l : lv) : prog (chdr * lv) :=
  l1 <~ read_padding l ;;
  '(h, outer) <~
    match fst l1 with
    | Peeking h => Ret (Ok (h, snd l1))
    | Idle _ =>
        '(b, l2) <~ has_remaining l1 ;;
        if negb b then Ret (EParse InvalidChunkLayout) else
        '(hb, outer) <~ src_read_exact 8 TRUNC (snd l2) ;;
        Ret (Ok (parse_chdr hb, outer))
    | Body _ _ => Ret (EParse WInvalidInput)
    | Padding _ => Ret (Panic 21)
    end ;;
  pos <~ do_pos ;;
  if pos <? 8 then Ret (Panic 22) else          (* stream_position()? - ENCODED_LEN *)
  Ret (Ok (h, (after_header h, outer))).

Definition read_header (name : bytes) (l : lv) : prog (chdr * lv) :=
  l1 <~ read_padding l ;;
  l2 <~ match fst l1 with
        | Idle _ => '(b, l2) <~ has_remaining l1 ;;
                    if b then Ret (Ok l2) else Ret (EParse (MissingRequiredChunk name))
        | Padding _ => Ret (Panic 21)
        | _ => Ret (Ok l1)
        end ;;
  '(h, l3) <~ read_any_header l2 ;;
  if teq (ch_name h) name then Ret (Ok (h, l3)) else Ret (EParse InvalidChunkLayout).

Definition peek_header (l : lv) : prog (option bytes * lv) :=
  l1 <~ read_padding l ;;
  match fst l1 with
  | Peeking h => Ret (Ok (Some (ch_name h), l1))
  | Idle _ =>
      '(b, l2) <~ has_remaining l1 ;;
      if negb b then Ret (Ok (None, l2)) else
      '(hb, outer) <~ src_read_exact 8 TRUNC (snd l2) ;;
      let h := parse_chdr hb in
      Ret (Ok (Some (ch_name h), (Peeking h, outer)))
  | Body _ _ => Ret (EParse WInvalidInput)
  | Padding _ => Ret (Panic 21)
  end.

Definition read_data (len : N) (l : lv) : prog (bytes * lv) :=
  l1 <~ read_padding l ;;
  match fst l1 with
  | Idle _ => Ret (EParse TruncatedChunk)
  | Peeking _ => Ret (Panic 23)
  | Padding _ => Ret (Panic 21)
  | Body h rem =>
      if rem <? len then Ret (EParse TruncatedChunk) else
      _ <~ do_alloc len ;;
      '(b, outer) <~ src_read_exact len TRUNC (snd l1) ;;
      Ret (Ok (b, ((if rem - len =? 0 then Padding h else Body h (rem - len)), outer)))
  end.

Definition skip_data (l : lv) : prog lv :=
  l1 <~ read_padding l ;;
  match fst l1 with
  | Idle _ => Ret (Ok l1)
  | Peeking _ => Ret (Panic 23)
  | Padding _ => Ret (Panic 21)
  | Body h rem =>
      outer <~ src_skip rem TRUNC (snd l1) ;;
      Ret (Ok (Padding h, outer))
  end.

(* data_reader(): everything BitBufReader can pull from the rest of this chunk's body *)
Definition read_body (l : lv) : prog (bytes * lv) :=
  match fst l with
  | Body h rem =>
      '(b, outer) <~ src_read_upto rem (snd l) ;;
      let n := N.of_nat (length b) in
      Ret (Ok (b, ((if rem - n =? 0 then Padding h else Body h (rem - n)), outer)))
  | Peeking _ => Ret (Panic 20)
  | _ => Ret (Ok ([], l))
  end.

Definition current_name (st : cstate) : bytes :=
  match st with Idle n => n | Peeking h => ch_name h | Body h _ => ch_name h | Padding h => ch_name h end.
(* child_reader(): a new level whose source is this level *)
Definition child (l : lv) : lv := (Idle (current_name (fst l)), fst l :: snd l).
(* leaving a child level: the parent is the head of the child's enclosing stack *)
Definition parent (l : lv) : res lv :=
  match snd l with p :: rest => Ok (p, rest) | [] => Panic 24 end.

(* ---------------------------------------------------------------- chunk payloads *)
Record vp8x := { x_flags : N; x_w : N; x_h : N }.
Definition F_ICCP := 32.  Definition F_ALPH := 16.  Definition F_EXIF := 8.  Definition F_XMP := 4.  Definition F_ANIM := 2.
Definition has (flags bit : N) : bool := negb (N.land flags bit =? 0).

Definition parse_vp8x (b : bytes) : res vp8x :=
  '(vs, _) <- chunk_parse CVp8x b ;;
  match vs with
  | [VN f; _; VN w; VN h] => Ok {| x_flags := f; x_w := w; x_h := h |}
  | _ => Panic 25
  end.
Definition parse_anmf_dims (b : bytes) : res (N * N) :=
  '(vs, _) <- chunk_parse CAnmf b ;;
  match vs with
  | [_; _; VN w; VN h; _; _] => Ok (w, h)
  | _ => Panic 25
  end.
Definition parse_alph_flags (b : bytes) : res N :=
  '(vs, _) <- chunk_parse CAlph b ;;
  match vs with [VN f] => Ok f | _ => Panic 25 end.

(* Vp8lChunk::parse on the 5 header bytes *)
Record vp8l := { l_w : N; l_h : N }.
Definition parse_vp8l (b : bytes) : res vp8l :=
  if Nat.ltb (length b) 5 then Panic 26 else
  if negb (b2n (hd x00 b) =? 47) then EParse WInvalidInput else
  let v := le2n (firstn 4 (skipn 1 b)) in
  let version := (v / 2 ^ 29) mod 8 in
  if negb (version =? 0) then EParse (UnsupportedVp8lVersion version) else
  Ok {| l_w := v mod 2 ^ 14 + 1; l_h := (v / 2 ^ 14) mod 2 ^ 14 + 1 |}.

Section WithLossless.
Variable lossless : N -> N -> bytes -> res unit.     (* LosslessImage::read over the chunk's data reader *)
Variable allow_unknown : bool.

Definition known_after_image (n : bytes) : bool :=
  teq n ALPH || teq n ANIM || teq n EXIF || teq n ICCP || teq n VP8 || teq n VP8L || teq n VP8X || teq n XMP.

(* VP8L image data: parse the 5-byte header, optional dimension check, validate, skip the rest *)
Definition do_vp8l (dims : option (N * N)) (l : lv) : prog lv :=
  '(b, l1) <~ read_data 5 l ;;
  v <~ lift (parse_vp8l b) ;;
  _ <~ (match dims with
        | Some (w, h) => if (l_w v =? w) && (l_h v =? h) then Ret (Ok tt) else Ret (EParse WInvalidInput)
        | None => Ret (Ok tt)
        end) ;;
  '(body, l2) <~ read_body l1 ;;
  _ <~ lift (lossless (l_w v) (l_h v) body) ;;
  skip_data l2.

(* AlphChunk::sanitize_image_data(_with_dimensions): w, h = canvas (still) or frame (animated) dimensions *)
Definition do_alph (w h : N) (l : lv) : prog lv :=
  '(b, l1) <~ read_data 1 l ;;
  f <~ lift (parse_alph_flags b) ;;
  l2 <~ (if has f 1 then
           '(body, l2) <~ read_body l1 ;;
           _ <~ lift (lossless w h body) ;;
           Ret (Ok l2)
         else Ret (Ok l1)) ;;
  skip_data l2.

Definition skip_named (name : bytes) (l : lv) : prog lv :=
  '(_, l1) <~ read_header name l ;; skip_data l1.

Definition sanitize_still (x : vp8x) (l : lv) : prog lv :=
  '(alph, l1) <~ (if has (x_flags x) F_ALPH then
                    '(_, l1) <~ read_header ALPH l ;; l2 <~ do_alph (x_w x) (x_h x) l1 ;; Ret (Ok (true, l2))
                  else Ret (Ok (false, l))) ;;
  '(b, l2) <~ has_remaining l1 ;;
  if negb b then Ret (EParse (MissingRequiredChunk VP8)) else
  '(h, l3) <~ read_any_header l2 ;;
  if teq (ch_name h) VP8 then skip_data l3
  else if teq (ch_name h) VP8L then
    (if alph then Ret (EParse InvalidChunkLayout) else do_vp8l (Some (x_w x, x_h x)) l3)
  else Ret (EParse InvalidChunkLayout).

(* unknown chunks after the image inside an ANMF frame *)
Fixpoint frame_tail (fuel : nat) (l : lv) : prog lv :=
  match fuel with
  | O => Ret OutOfFuel
  | S fuel' =>
      '(b, l1) <~ has_remaining l ;;
      if negb b then Ret (Ok l1) else
      '(h, l2) <~ read_any_header l1 ;;
      if known_after_image (ch_name h) || teq (ch_name h) ANMF then Ret (EParse InvalidChunkLayout)
      else if negb allow_unknown then Ret (EParse (UnsupportedChunk (ch_name h)))
      else l3 <~ skip_data l2 ;; frame_tail fuel' l3
  end.

Definition one_frame (fuel : nat) (x : vp8x) (l : lv) : prog lv :=
  '(_, l1) <~ read_header ANMF l ;;
  '(b, l2) <~ read_data 16 l1 ;;
  '(fw, fh) <~ lift (parse_anmf_dims b) ;;
  let c := child l2 in
  '(alph, c1) <~ (if has (x_flags x) F_ALPH then
                    '(p, c1) <~ peek_header c ;;
                    match p with
                    | Some n => if teq n ALPH then
                                  '(_, c2) <~ read_header ALPH c1 ;; c3 <~ do_alph fw fh c2 ;; Ret (Ok (true, c3))
                                else Ret (Ok (false, c1))
                    | None => Ret (Ok (false, c1))
                    end
                  else Ret (Ok (false, c))) ;;
  '(h, c2) <~ read_any_header c1 ;;
  c3 <~ (if teq (ch_name h) VP8 then skip_data c2
         else if teq (ch_name h) VP8L then
           (if alph then Ret (EParse InvalidChunkLayout) else do_vp8l (Some (fw, fh)) c2)
         else Ret (EParse InvalidChunkLayout)) ;;
  c4 <~ frame_tail fuel c3 ;;
  lift (parent c4).

Fixpoint frames (fuel : nat) (x : vp8x) (l : lv) : prog lv :=
  match fuel with
  | O => Ret OutOfFuel
  | S fuel' =>
      '(p, l1) <~ peek_header l ;;
      match p with
      | Some n => if teq n ANMF then l2 <~ one_frame fuel' x l1 ;; frames fuel' x l2 else Ret (Ok l1)
      | None => Ret (Ok l1)
      end
  end.

Definition sanitize_animated (fuel : nat) (x : vp8x) (l : lv) : prog lv :=
  '(_, l1) <~ read_header ANIM l ;;
  '(b, l2) <~ read_data 6 l1 ;;
  _ <~ lift (chunk_parse CAnim b) ;;
  '(p, l3) <~ peek_header l2 ;;
  match p with
  | Some n => if teq n ANMF then frames fuel x l3 else Ret (EParse (MissingRequiredChunk ANMF))
  | None => Ret (EParse (MissingRequiredChunk ANMF))
  end.

Definition sanitize_extended (fuel : nat) (x : vp8x) (l : lv) : prog lv :=
  l1 <~ (if has (x_flags x) F_ICCP then skip_named ICCP l else Ret (Ok l)) ;;
  l2 <~ (if has (x_flags x) F_ANIM then sanitize_animated fuel x l1 else sanitize_still x l1) ;;
  l3 <~ (if has (x_flags x) F_EXIF then skip_named EXIF l2 else Ret (Ok l2)) ;;
  if has (x_flags x) F_XMP then skip_named XMP l3 else Ret (Ok l3).

(* trailing chunks at file level *)
Fixpoint file_tail (fuel : nat) (l : lv) : prog lv :=
  match fuel with
  | O => Ret OutOfFuel
  | S fuel' =>
      '(b, l1) <~ has_remaining l ;;
      if negb b then Ret (Ok l1) else
      '(h, l2) <~ read_any_header l1 ;;
      if known_after_image (ch_name h) || teq (ch_name h) ANMF then Ret (EParse InvalidChunkLayout)
      else if negb allow_unknown then Ret (EParse (UnsupportedChunk (ch_name h)))
      else l3 <~ skip_data l2 ;; file_tail fuel' l3
  end.

Definition webp_prog (fuel : nat) : prog unit :=
  let file := (Idle RIFF, []) in
  '(h, f1) <~ read_header RIFF file ;;
  '(b, f2) <~ read_data 4 f1 ;;
  _ <~ lift (chunk_parse CWebp b) ;;
  if WEBP_MAX_FILE_LEN <? ch_len h + 8 then Ret (EParse WInvalidInput) else
  let r := child f2 in
  '(h1, r1) <~ read_any_header r ;;
  r2 <~ (if teq (ch_name h1) VP8 then skip_data r1
         else if teq (ch_name h1) VP8L then do_vp8l None r1
         else if teq (ch_name h1) VP8X then
           '(b, r2) <~ read_data 10 r1 ;;
           x <~ lift (parse_vp8x b) ;;
           sanitize_extended fuel x r2
         else Ret (EParse InvalidChunkLayout)) ;;
  r3 <~ file_tail fuel r2 ;;
  f3 <~ lift (parent r3) ;;
  '(more, _) <~ has_remaining f3 ;;
  if more then Ret (EParse WInvalidInput) else
  (* a skip past the end succeeded on a seek-style input => a chunk was truncated *)
  pos <~ do_pos ;; len <~ do_len ;;
  if len <? pos then Ret (EParse TruncatedChunk) else Ret (Ok tt).

End WithLossless.

Definition webp_sanitize (lossless : N -> N -> bytes -> res unit) (allow_unknown : bool)
           (lenient : bool) (max_seek : N) (inp : input) (fuel : nat) : res unit :=
  fst (run (cursor inp lenient max_seek) (webp_prog lossless allow_unknown fuel) 0).
