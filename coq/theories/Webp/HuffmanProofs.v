(* C18 proofs, part 4: the theorems.  Everything is for ALL code-length vectors `cl : list N` (any number of symbols,
   any lengths) and ALL bit strings; only the statement about `longest_code_len` assumes lengths < 2^32 (`as u32`). *)
From Coq Require Import List NArith PeanoNat Bool Lia ZifyBool ZifyNat ZifyN Sorted Permutation.
From MS Require Import Base.Outcome Webp.Huffman Webp.HuffmanSpec Webp.HuffmanProofsBits Webp.HuffmanProofsTrie Webp.HuffmanProofsSort.
Import ListNotations.
Open Scope N_scope.
Arguments N.add : simpl never.
Arguments N.sub : simpl never.
Arguments N.mul : simpl never.
Arguments N.div : simpl never.
Arguments N.modulo : simpl never.
Arguments N.pow : simpl never.
Arguments N.eqb : simpl never.
Arguments N.ltb : simpl never.
Arguments N.leb : simpl never.

(* ---- the two shapes of `symbols` -----------------------------------------------------------------------------*)
Definition gsyms (cl : list N) : list (N * code) := map code_of (expected [] (used cl)).

Lemma symbols_single cl s : used cl = [(s, 1)] -> symbols (index_from 0 cl) = [(s, [])].
Proof. intros H. unfold symbols. fold (used cl). now rewrite H. Qed.

Lemma symbols_general cl : (forall s, used cl <> [(s, 1)]) -> symbols (index_from 0 cl) = gsyms cl.
Proof.
  intros Hns. unfold symbols, gsyms. fold (used cl).
  pose proof (len_sorted_of_sorted _ (used_sorted cl)) as Hs.
  destruct (used cl) as [|[s l] rest] eqn:E; [reflexivity|].
  rewrite <- (general_symbols s l rest Hs).
  destruct rest as [|y rest]; [|destruct l as [|[p|p|]]; reflexivity].
  destruct l as [|[p|p|]]; try reflexivity. exfalso. now apply (Hns s).
Qed.

Lemma filter_nz_index cl : forall i, map snd (filter nzp (index_from i cl)) = filter nonzero cl.
Proof.
  induction cl as [|x cl IH]; intros i; cbn [index_from filter]; [reflexivity|].
  unfold nzp at 1. cbn [snd]. destruct (nonzero x); cbn [map snd]; now rewrite IH.
Qed.

Lemma single_iff cl : single_len1 cl = true <-> exists s, used cl = [(s, 1)].
Proof.
  unfold single_len1. rewrite <- (filter_nz_index cl 0). pose proof (used_perm cl) as Hp. split.
  - intros H. destruct (filter nzp (index_from 0 cl)) as [|[s x] [|y r]] eqn:E; cbn [map snd] in H; try discriminate.
    + destruct x as [|[p|p|]]; try discriminate. exists s. now apply Permutation_length_1_inv in Hp.
    + destruct x as [|[p|p|]]; discriminate.
  - intros [s H]. rewrite H in Hp. apply Permutation_sym, Permutation_length_1_inv in Hp. now rewrite Hp.
Qed.

Lemma not_single cl : single_len1 cl = false -> forall s, used cl <> [(s, 1)].
Proof. intros H s E. assert (single_len1 cl = true) by (apply single_iff; eauto). congruence. Qed.

(* ---- Kraft sum = weighted count of the used entries ---------------------------------------------------------*)
Lemma kraft_wsum L cl : kraft_at L cl = wsum L (used cl).
Proof.
  rewrite <- (wsum_perm L _ _ (used_perm cl)). generalize 0 as i.
  induction cl as [|x cl IH]; intros i; cbn [kraft_at index_from filter]; [reflexivity|].
  unfold nzp at 1. cbn [snd]. destruct (nonzero x).
  - rewrite wsum_cons. cbn [snd]. now rewrite (IH (i + 1)).
  - rewrite (IH (i + 1)). lia.
Qed.

Lemma gsyms_in cl s c : In (s, c) (gsyms cl) <->
  exists l a b, used cl = a ++ (s, l) :: b /\ c = bits_msb (N.to_nat l) (wsum l a).
Proof.
  unfold gsyms. rewrite in_map_iff. split.
  - intros [[[s' l] v] [Heq Hin]]. unfold code_of in Heq. cbn [fst snd] in Heq. inversion Heq; subst.
    apply expected_in in Hin. destruct Hin as [a [b [H ->]]]. exists l, a, b. cbn [snd app]. auto.
  - intros [l [a [b [H ->]]]]. exists ((s, l), wsum l a). split; [reflexivity|].
    apply expected_in. exists a, b. cbn [snd app]. auto.
Qed.

Lemma gsyms_len cl s c : In (s, c) (gsyms cl) -> (length c <= N.to_nat (max_len cl))%nat.
Proof.
  intros H. apply gsyms_in in H. destruct H as [l [a [b [H ->]]]]. rewrite bits_msb_length.
  assert (l <= max_len cl); [|lia]. apply (used_len_le cl s). rewrite H. apply in_or_app. right. now left.
Qed.

Lemma gsyms_weight cl : codes_weight (N.to_nat (max_len cl)) (gsyms cl) = wsum (max_len cl) (used cl).
Proof.
  unfold gsyms. generalize (@nil (N * N)) as pre. generalize (used cl) as ps. generalize (max_len cl) as L.
  intros L ps. induction ps as [|x ps IH]; intros pre; [reflexivity|].
  cbn [expected map]. unfold codes_weight. cbn [fold_right]. fold (codes_weight (N.to_nat L) (map code_of (expected (pre ++ [x]) ps))).
  rewrite IH, wsum_cons. unfold code_of. cbn [fst snd]. rewrite bits_msb_length. f_equal. unfold p2. f_equal. lia.
Qed.

(* ---- compile on the general shape ----------------------------------------------------------------------------*)
Lemma compile_leaves syms f : compile syms = inl f -> forall c s, In (c, s) (fleaves f) <-> In (s, c) syms.
Proof.
  unfold compile. intros H c s. destruct (add_all WEmpty syms) as [t|e] eqn:E; [|discriminate].
  destruct (add_all_leaves _ _ _ E I) as [_ Hlv]. rewrite (finalize_leaves _ _ H), Hlv. cbn [leaves In]. intuition.
Qed.

Lemma compile_general cl : (exists f, compile (gsyms cl) = inl f) <-> kraft_is_one cl = true.
Proof.
  unfold kraft_is_one. rewrite N.eqb_eq, kraft_wsum. set (L := max_len cl). set (n := N.to_nat L).
  assert (Hlen : forall s c, In (s, c) (gsyms cl) -> (length c <= n)%nat) by (intros s c; apply gsyms_len).
  assert (Hp2 : p2 n = 2 ^ L) by apply p2_N.
  assert (Hw : codes_weight n (gsyms cl) = wsum L (used cl)) by apply gsyms_weight.
  unfold compile. split.
  - intros [f H]. destruct (add_all WEmpty (gsyms cl)) as [t|e] eqn:E; [|discriminate].
    destruct (add_all_props _ _ _ n E I) as [_ [Hh [Hs _]]]; [cbn; lia|exact Hlen|].
    cbn [tsum] in Hs. rewrite Hw in Hs.
    assert (Hf : tsum n t = p2 n) by (apply finalize_iff; eauto). lia.
  - intros Hk.
    destruct (add_all_ok (gsyms cl) WEmpty I) as [t E].
    + apply (expected_incomparable L (used cl) []); cbn [app].
      * apply len_sorted_of_sorted, used_sorted.
      * intros [s l] Hin. cbn [snd]. apply (used_len_le cl s l Hin).
      * lia.
    + intros p s' s c [].
    + rewrite E. destruct (add_all_props _ _ _ n E I) as [_ [Hh [Hs _]]]; [cbn; lia|exact Hlen|].
      cbn [tsum] in Hs. rewrite Hw in Hs.
      apply (finalize_iff t n Hh). lia.
Qed.

Lemma is_ok_from_symbols syms : is_ok (from_symbols syms) = true <-> exists f, compile syms = inl f.
Proof.
  unfold from_symbols. destruct (compile syms) as [f|e]; cbn [is_ok]; split; eauto; try discriminate.
  intros [f H]. discriminate.
Qed.

(* ============================================================================================================
   C18_accept_iff_kraft *)
Theorem accept_iff_kraft : forall cl : list N, is_ok (new_vec cl) = spec_accepts cl.
Proof.
  intros cl. unfold new_vec, new, spec_accepts. destruct (single_len1 cl) eqn:Es.
  - rewrite orb_true_r. apply single_iff in Es. destruct Es as [s Es]. now rewrite (symbols_single cl s Es).
  - rewrite orb_false_r, (symbols_general cl (not_single cl Es)).
    apply eq_true_iff_eq. rewrite is_ok_from_symbols. apply compile_general.
Qed.

Theorem reject_kind : forall cl : list N, is_ok (new_vec cl) = false -> new_vec cl = EParse InvalidVp8lPrefixCode.
Proof.
  intros cl. unfold new_vec, new, from_symbols. destruct (compile _); cbn [is_ok]; [discriminate|reflexivity].
Qed.

(* ============================================================================================================
   C18_codes_are_canonical *)
Lemma rfc_in all rest : forall n s c,
  In (s, c) (rfc_from all n rest) <->
  exists l, In (s, l) (index_from n rest) /\ nonzero l = true /\ c = bits_msb (N.to_nat l) (canon_value all s l).
Proof.
  induction rest as [|x rest IH]; intros n s c; cbn [rfc_from index_from In].
  - split; [contradiction|]. intros [l [[] _]].
  - rewrite in_app_iff, IH. split.
    + intros [H|[l [H1 H2]]].
      * destruct (nonzero x) eqn:Ex; [|contradiction]. destruct H as [H|[]]. inversion H; subst. exists x. auto.
      * exists l. auto.
    + intros [l [[H|H] [Hnz ->]]].
      * inversion H; subst. left. rewrite Hnz. now left.
      * right. exists l. auto.
Qed.

Theorem codes_are_canonical : forall (cl : list N) s c,
  In (s, c) (symbols (index_from 0 cl)) <-> In (s, c) (canonical cl).
Proof.
  intros cl s c. unfold canonical. destruct (single_len1 cl) eqn:Es.
  - apply single_iff in Es. destruct Es as [s0 Es]. rewrite (symbols_single cl s0 Es). cbn [In].
    rewrite in_map_iff. split.
    + intros [H|[]]. inversion H; subst. exists (s, bits_msb (N.to_nat 1) (canon_value cl s 1)). split; [reflexivity|].
      apply rfc_in. exists 1. split; [|auto]. apply (used_in cl s 1). rewrite Es. now left.
    + intros [[s' c'] [Heq Hin]]. cbn [fst] in Heq. inversion Heq; subst. left.
      apply rfc_in in Hin. destruct Hin as [l [Hin [Hnz _]]].
      assert (H : In (s, l) (used cl)) by (apply used_in; auto). rewrite Es in H. destruct H as [H|[]]. now inversion H.
  - rewrite (symbols_general cl (not_single cl Es)), gsyms_in. unfold rfc_table. rewrite rfc_in. split.
    + intros [l [a [b [H ->]]]]. exists l.
      assert (Hin : In (s, l) (used cl)) by (rewrite H; apply in_or_app; right; now left).
      apply used_in in Hin. destruct Hin as [Hin Hnz]. repeat split; try assumption.
      now rewrite (used_split_value cl a s l b H).
    + intros [l [Hin [Hnz ->]]]. assert (H : In (s, l) (used cl)) by (apply used_in; auto).
      apply in_split in H. destruct H as [a [b H]]. exists l, a, b. split; [assumption|].
      now rewrite (used_split_value cl a s l b H).
Qed.

(* each symbol has at most one code, and the two tables are permutations of each other *)
Lemma symbols_nodup cl : NoDup (map fst (symbols (index_from 0 cl))).
Proof.
  destruct (single_len1 cl) eqn:Es.
  - apply single_iff in Es. destruct Es as [s0 Es]. rewrite (symbols_single cl s0 Es). repeat constructor. intros [].
  - rewrite (symbols_general cl (not_single cl Es)). unfold gsyms. rewrite map_map.
    assert (H : map (fun x => fst (code_of x)) (expected [] (used cl)) = map fst (used cl)).
    { rewrite <- (expected_fst (used cl) []) at 2. rewrite map_map. reflexivity. }
    rewrite H. clear H Es.
    assert (Hnd : NoDup (map fst (index_from 0 cl))).
    { generalize 0 as i. induction cl as [|x cl IH]; intros i; cbn [index_from map fst]; constructor; [|apply IH].
      intros H. apply in_map_iff in H. destruct H as [[s l] [Heq H]]. cbn [fst] in Heq. subst s.
      apply in_index_from in H. lia. }
    eapply Permutation_NoDup; [apply Permutation_map, used_perm|].
    induction (index_from 0 cl) as [|x l IH]; cbn [filter map]; [constructor|].
    inversion Hnd as [|? ? Hx Hl]; subst. destruct (nzp x); cbn [map]; [|auto]. constructor; [|auto].
    intros H. apply Hx. apply in_map_iff in H. destruct H as [y [Hy H]]. apply filter_In in H. apply in_map_iff. exists y. tauto.
Qed.

(* ============================================================================================================
   C18_decode_is_canonical *)
Lemma new_vec_ok cl t : new_vec cl = Ok t ->
  compile (symbols (index_from 0 cl)) = inl (ht_tree t) /\ ht_longest t = longest_of (symbols (index_from 0 cl)).
Proof.
  unfold new_vec, new, from_symbols. destruct (compile _) as [f|e]; [|discriminate]. intros H. inversion H; subst. auto.
Qed.

Theorem decode_is_canonical : forall (cl : list N) t, new_vec cl = Ok t ->
  forall bits s rest,
    decode (ht_tree t) bits = Some (s, rest) <-> exists c, In (s, c) (canonical cl) /\ bits = c ++ rest.
Proof.
  intros cl t H bits s rest. apply new_vec_ok in H. destruct H as [H _].
  rewrite decode_leaves. split; intros [c [Hin Hb]]; exists c; split; try assumption.
  - apply codes_are_canonical. now apply (compile_leaves _ _ H).
  - apply (compile_leaves _ _ H). now apply codes_are_canonical.
Qed.

Lemma strip_prefix_spec c : forall bits rest, strip_prefix c bits = Some rest <-> bits = c ++ rest.
Proof.
  induction c as [|a c IH]; intros bits rest; cbn [strip_prefix app].
  - split; [intros H; now inversion H|intros ->; reflexivity].
  - destruct bits as [|b bits]; [split; discriminate|].
    destruct (Bool.eqb a b) eqn:E.
    + apply eqb_prop in E. subst b. rewrite IH. split; [intros ->; reflexivity|intros H; now inversion H].
    + split; [discriminate|]. intros H. inversion H; subst. now rewrite eqb_reflx in E.
Qed.

Lemma table_decode_some tbl : forall bits s rest, table_decode tbl bits = Some (s, rest) ->
  exists c, In (s, c) tbl /\ bits = c ++ rest.
Proof.
  induction tbl as [|[s' c'] tbl IH]; intros bits s rest H; cbn [table_decode] in H; [discriminate|].
  destruct (strip_prefix c' bits) as [r|] eqn:E.
  - inversion H; subst. apply strip_prefix_spec in E. exists c'. split; [now left|assumption].
  - destruct (IH _ _ _ H) as [c [Hin Hb]]. exists c. split; [now right|assumption].
Qed.

Lemma table_decode_none tbl : forall bits, table_decode tbl bits = None ->
  forall s c rest, In (s, c) tbl -> bits <> c ++ rest.
Proof.
  induction tbl as [|[s' c'] tbl IH]; intros bits H s c rest Hin; [contradiction|]. cbn [table_decode] in H.
  destruct (strip_prefix c' bits) as [r|] eqn:E; [discriminate|].
  destruct Hin as [Heq|Hin]; [|eapply IH; eassumption].
  inversion Heq; subst. intros Hb. apply strip_prefix_spec in Hb. congruence.
Qed.

Theorem decode_is_table_decode : forall (cl : list N) t, new_vec cl = Ok t ->
  forall bits, decode (ht_tree t) bits = table_decode (canonical cl) bits.
Proof.
  intros cl t H bits. pose proof (decode_is_canonical cl t H bits) as Hd.
  destruct (table_decode (canonical cl) bits) as [[s rest]|] eqn:E.
  - apply Hd. now apply table_decode_some.
  - destruct (decode (ht_tree t) bits) as [[s rest]|] eqn:E2; [|reflexivity].
    exfalso. destruct (proj1 (Hd s rest) eq_refl) as [c [Hin Hb]]. exact (table_decode_none _ _ E s c rest Hin Hb).
Qed.

Theorem decode_many_is_canonical : forall (cl : list N) t, new_vec cl = Ok t ->
  forall n bits, decode_many n (ht_tree t) bits = table_decode_many n (canonical cl) bits.
Proof.
  intros cl t H n. induction n as [|n IH]; intros bits; cbn [decode_many table_decode_many]; [reflexivity|].
  rewrite (decode_is_table_decode cl t H). destruct (table_decode (canonical cl) bits) as [[s rest]|]; [|reflexivity].
  now rewrite IH.
Qed.

Lemma rfc_none all rest : forall i, filter nzp (index_from i rest) = [] -> rfc_from all i rest = [].
Proof.
  induction rest as [|y rest IH]; intros i H; [reflexivity|].
  cbn [index_from filter] in H. unfold nzp at 1 in H. cbn [snd] in H. cbn [rfc_from].
  destruct (nonzero y); [discriminate|]. cbn [app]. now apply IH.
Qed.

Lemma rfc_single all rest : forall i s, filter nzp (index_from i rest) = [(s, 1)] ->
  map (fun sc : N * list bool => (fst sc, @nil bool)) (rfc_from all i rest) = [(s, [])].
Proof.
  induction rest as [|x rest IH]; intros i s Hf; cbn [index_from filter] in Hf; [discriminate|].
  cbn [rfc_from]. unfold nzp at 1 in Hf. cbn [snd] in Hf. destruct (nonzero x) eqn:Ex.
  - inversion Hf as [[Hi Hx Hr]]. subst. cbn [map app fst]. f_equal. now rewrite (rfc_none all rest _ Hr).
  - cbn [app]. now apply IH.
Qed.

(* ============================================================================================================
   C18_single_symbol_zero_bits *)
Theorem single_symbol_zero_bits : forall cl : list N, single_len1 cl = true ->
  exists s, nth_error cl (N.to_nat s) = Some 1 /\ canonical cl = [(s, [])] /\
            new_vec cl = Ok {| ht_tree := FLeaf s; ht_longest := 0 |} /\
            forall bits, read_huffman {| ht_tree := FLeaf s; ht_longest := 0 |} bits = Ok (s, bits).
Proof.
  intros cl Es. destruct (proj1 (single_iff cl) Es) as [s Hu]. exists s. repeat split.
  - assert (H : In (s, 1) (used cl)) by (rewrite Hu; now left). apply used_in in H. destruct H as [H _].
    apply in_index_from in H. now rewrite N.sub_0_r in H.
  - (* the table has exactly one entry *)
    unfold canonical. rewrite Es.
    assert (Hf : filter nzp (index_from 0 cl) = [(s, 1)]).
    { pose proof (used_perm cl) as Hp. rewrite Hu in Hp. now apply Permutation_sym, Permutation_length_1_inv in Hp. }
    unfold rfc_table. now apply rfc_single.
  - unfold new_vec, new. now rewrite (symbols_single cl s Hu).
Qed.

(* ============================================================================================================
   C18_longest_bounds_consumption *)
Lemma max_code_len_ge syms s c : In (s, c) syms -> N.of_nat (length c) <= max_code_len syms.
Proof.
  induction syms as [|[s' c'] syms IH]; [contradiction|]. cbn [max_code_len fold_right snd]. fold (max_code_len syms).
  intros [H|H]; [inversion H; subst; lia|]. specialize (IH H). lia.
Qed.

Lemma max_code_len_le syms M : (forall s c, In (s, c) syms -> N.of_nat (length c) <= M) -> max_code_len syms <= M.
Proof.
  induction syms as [|[s' c'] syms IH]; intros H; cbn [max_code_len fold_right snd]; [lia|]. fold (max_code_len syms).
  assert (N.of_nat (length c') <= M) by (apply (H s'); now left).
  assert (max_code_len syms <= M) by (apply IH; intros; eapply H; right; eassumption). lia.
Qed.

Lemma max_len_attained cl : max_len cl = 0 \/ In (max_len cl) cl.
Proof.
  induction cl as [|x cl IH]; [now left|]. cbn [max_len fold_right]. fold (max_len cl).
  destruct (N.max_spec x (max_len cl)) as [[Hlt ->]|[Hle ->]].
  - destruct IH as [IH|IH]; [lia|]. right. now right.
  - right. now left.
Qed.

Lemma in_index_exists cl l : In l cl -> forall i, exists s, In (s, l) (index_from i cl).
Proof.
  induction cl as [|x cl IH]; [contradiction|]. intros [->|H] i; cbn [index_from].
  - exists i. now left.
  - destruct (IH H (i + 1)) as [s Hs]. exists s. now right.
Qed.

Lemma gsyms_max_code_len cl : max_code_len (gsyms cl) = max_len cl.
Proof.
  apply N.le_antisymm.
  - apply max_code_len_le. intros s c H. apply gsyms_len in H. lia.
  - destruct (max_len_attained cl) as [H|H]; [lia|].
    destruct (N.eq_dec (max_len cl) 0) as [Hz|Hz]; [lia|].
    destruct (in_index_exists cl _ H 0) as [s Hs].
    assert (Hu : In (s, max_len cl) (used cl)) by (apply used_in; split; [assumption|unfold nonzero; lia]).
    apply in_split in Hu. destruct Hu as [a [b Hu]].
    assert (Hg : In (s, bits_msb (N.to_nat (max_len cl)) (wsum (max_len cl) a)) (gsyms cl)) by (apply gsyms_in; eauto).
    apply max_code_len_ge in Hg. rewrite bits_msb_length in Hg. lia.
Qed.

Lemma accepted_general_not_singleton cl : single_len1 cl = false -> kraft_is_one cl = true ->
  forall x, gsyms cl <> [x].
Proof.
  intros Es Hk x Hx. unfold gsyms in Hx.
  assert (Hlen : length (used cl) = 1%nat).
  { rewrite <- (expected_fst (used cl) []). rewrite map_length. rewrite <- (map_length code_of), Hx. reflexivity. }
  destruct (used cl) as [|[s l] [|y r]] eqn:Eu; try discriminate.
  unfold kraft_is_one in Hk. rewrite N.eqb_eq, kraft_wsum, Eu, wsum_cons, wsum_nil in Hk. cbn [snd] in Hk.
  assert (Hl : l <= max_len cl) by (apply (used_len_le cl s); rewrite Eu; now left).
  assert (Hnz : nonzero l = true) by (apply (used_in cl s l); rewrite Eu; now left).
  rewrite N.add_0_r in Hk. apply N.pow_inj_r in Hk; [|lia]. unfold nonzero in Hnz. lia.
Qed.

Theorem longest_is_spec : forall (cl : list N) t, Forall (fun l => l < 2 ^ 32) cl -> new_vec cl = Ok t ->
  ht_longest t = spec_longest cl.
Proof.
  intros cl t Hb H. pose proof (accept_iff_kraft cl) as Ha. rewrite H in Ha. cbn [is_ok] in Ha.
  apply new_vec_ok in H. destruct H as [_ ->]. unfold spec_longest, spec_accepts in *.
  destruct (single_len1 cl) eqn:Es.
  - apply single_iff in Es. destruct Es as [s Es]. now rewrite (symbols_single cl s Es).
  - rewrite orb_false_r in Ha. rewrite (symbols_general cl (not_single cl Es)).
    pose proof (accepted_general_not_singleton cl Es (eq_sym Ha)) as Hns.
    assert (Hl : longest_of (gsyms cl) = max_code_len (gsyms cl) mod 2 ^ 32).
    { unfold longest_of. destruct (gsyms cl) as [|x [|y r]]; try reflexivity. exfalso. now apply (Hns x). }
    rewrite Hl, gsyms_max_code_len. apply N.mod_small.
    destruct (max_len_attained cl) as [->|Hin]; [reflexivity|]. rewrite Forall_forall in Hb. now apply Hb.
Qed.

Theorem longest_bounds_consumption : forall (cl : list N) t, Forall (fun l => l < 2 ^ 32) cl -> new_vec cl = Ok t ->
  ht_longest t = spec_longest cl /\
  (forall bits s rest, decode (ht_tree t) bits = Some (s, rest) ->
     exists c, bits = c ++ rest /\ N.of_nat (length c) <= ht_longest t) /\
  (forall bits, ht_longest t <= N.of_nat (length bits) -> decode (ht_tree t) bits <> None).
Proof.
  intros cl t Hb H. pose proof (longest_is_spec cl t Hb H) as Hl. split; [assumption|].
  assert (Hlv : forall c s, In (c, s) (fleaves (ht_tree t)) -> N.of_nat (length c) <= ht_longest t).
  { intros c s Hin. rewrite Hl. destruct (new_vec_ok _ _ H) as [Hc _].
    apply (compile_leaves _ _ Hc) in Hin. unfold spec_longest. destruct (single_len1 cl) eqn:Es.
    - apply single_iff in Es. destruct Es as [s0 Es]. rewrite (symbols_single cl s0 Es) in Hin.
      destruct Hin as [Hin|[]]. inversion Hin; subst. cbn. lia.
    - rewrite (symbols_general cl (not_single cl Es)) in Hin. apply gsyms_len in Hin. lia. }
  split.
  - intros bits s rest Hd. apply decode_leaves in Hd. destruct Hd as [c [Hin ->]]. exists c. split; [reflexivity|]. eapply Hlv; eassumption.
  - intros bits Hn. apply (decode_enough (ht_tree t) (N.to_nat (ht_longest t))); [|lia].
    intros c s Hin. specialize (Hlv c s Hin). lia.
Qed.

(* ============================================================================================================
   everything the runners print, in one statement *)
Theorem observation_is_spec : forall (cl : list N) n bits, Forall (fun l => l < 2 ^ 32) cl ->
  observe (new_vec cl) n bits = spec_observation cl n bits.
Proof.
  intros cl n bits Hb. unfold observe, spec_observation. rewrite <- accept_iff_kraft.
  destruct (new_vec cl) as [t| | | |] eqn:E; cbn [is_ok]; try reflexivity.
  rewrite (decode_many_is_canonical cl t E), (longest_is_spec cl t Hb E). reflexivity.
Qed.

(* Prop form of the acceptance rule *)
Lemma single_len1_prop cl : single_len1 cl = true <-> filter nonzero cl = [1].
Proof.
  unfold single_len1. split.
  - destruct (filter nonzero cl) as [|x [|y r]]; try discriminate; destruct x as [|[p|p|]]; try discriminate. reflexivity.
  - intros ->. reflexivity.
Qed.

Theorem accept_iff_kraft_prop : forall cl : list N,
  is_ok (new_vec cl) = true <-> (kraft_at (max_len cl) cl = 2 ^ max_len cl \/ filter nonzero cl = [1]).
Proof.
  intros cl. rewrite accept_iff_kraft. unfold spec_accepts, kraft_is_one.
  rewrite orb_true_iff, N.eqb_eq, single_len1_prop. reflexivity.
Qed.

(* where a rejected vector fails: over-subscribed (this includes every vector on which the increment wraps around to
   all zeros) => an insertion fails with DuplicateLeaf / OrphanedLeaf; under-subscribed => every insertion succeeds
   and the final tree has an empty node (MissingLeaf) *)
Theorem over_subscribed_fails_at_insertion : forall cl : list N,
  single_len1 cl = false -> 2 ^ max_len cl < kraft_at (max_len cl) cl ->
  exists e, add_all WEmpty (symbols (index_from 0 cl)) = inr e /\ (e = DuplicateLeaf \/ e = OrphanedLeaf).
Proof.
  intros cl Es Hk. rewrite (symbols_general cl (not_single cl Es)).
  destruct (add_all WEmpty (gsyms cl)) as [t|e] eqn:E; [exfalso|exists e; split; [reflexivity|eapply add_all_err; eassumption]].
  destruct (add_all_props _ _ _ (N.to_nat (max_len cl)) E I) as [_ [Hh [Hs _]]]; [cbn; lia|intros s c; apply gsyms_len|].
  cbn [tsum] in Hs. rewrite gsyms_weight, <- kraft_wsum in Hs.
  pose proof (tsum_le t _ Hh) as Hle. rewrite p2_N in Hle. lia.
Qed.

Theorem under_subscribed_fails_at_finalize : forall cl : list N,
  single_len1 cl = false -> kraft_at (max_len cl) cl < 2 ^ max_len cl ->
  exists t, add_all WEmpty (symbols (index_from 0 cl)) = inl t /\ finalize t = inr MissingLeaf.
Proof.
  intros cl Es Hk. rewrite (symbols_general cl (not_single cl Es)). rewrite kraft_wsum in Hk.
  destruct (add_all_ok (gsyms cl) WEmpty I) as [t E].
  - apply (expected_incomparable (max_len cl) (used cl) []); cbn [app].
    + apply len_sorted_of_sorted, used_sorted.
    + intros [s l] Hin. cbn [snd]. apply (used_len_le cl s l Hin).
    + lia.
  - intros p s' s c [].
  - exists t. split; [assumption|].
    destruct (add_all_props _ _ _ (N.to_nat (max_len cl)) E I) as [_ [Hh [Hs _]]]; [cbn; lia|intros s c; apply gsyms_len|].
    cbn [tsum] in Hs. rewrite gsyms_weight in Hs.
    destruct (finalize t) as [f|e] eqn:Ef.
    + exfalso. assert (tsum (N.to_nat (max_len cl)) t = p2 (N.to_nat (max_len cl))) by (apply finalize_iff; eauto).
      rewrite p2_N in *. lia.
    + now rewrite (finalize_err _ _ Ef).
Qed.

(* the two tables are permutations of each other *)
Lemma canonical_nodup cl : NoDup (map fst (canonical cl)).
Proof.
  assert (H : forall all rest i, NoDup (map fst (rfc_from all i rest)) /\ forall s, In s (map fst (rfc_from all i rest)) -> i <= s).
  { intros all rest. induction rest as [|x rest IH]; intros i; cbn [rfc_from map]; [split; [constructor|intros s []]|].
    destruct (IH (i + 1)) as [Hn Hge]. destruct (nonzero x); cbn [app map fst].
    - split.
      + constructor; [|assumption]. intros Hin. apply Hge in Hin. lia.
      + intros s [<-|Hin]; [lia|]. apply Hge in Hin. lia.
    - split; [assumption|]. intros s Hin. apply Hge in Hin. lia. }
  unfold canonical. destruct (single_len1 cl); [rewrite map_map; cbn [fst]|]; apply (H cl cl 0).
Qed.

Theorem codes_are_canonical_perm : forall cl : list N, Permutation (symbols (index_from 0 cl)) (canonical cl).
Proof.
  intros cl. apply NoDup_Permutation.
  - eapply NoDup_map_inv, symbols_nodup.
  - eapply NoDup_map_inv, canonical_nodup.
  - intros [s c]. apply codes_are_canonical.
Qed.

(* the simple-code shapes of lossless.rs (read_prefix_code, simple_code_length_code) *)
Theorem simple_codes : forall a b : N,
  from_symbols [(a, [])] = Ok {| ht_tree := FLeaf a; ht_longest := 0 |} /\
  from_symbols [(a, [false]); (b, [true])] = Ok {| ht_tree := FNode (FLeaf a) (FLeaf b); ht_longest := 1 |}.
Proof. intros a b. split; reflexivity. Qed.

(* ---- the hypotheses are satisfiable / the statements are not vacuous ---------------------------------------*)
Example ex_accept : is_ok (new_vec [2; 1; 3; 3]) = true /\ spec_accepts [2; 1; 3; 3] = true.
Proof. vm_compute. auto. Qed.
Example ex_reject_over : is_ok (new_vec [1; 1; 1; 2]) = false /\ spec_accepts [1; 1; 1; 2] = false.
Proof. vm_compute. auto. Qed.
Example ex_reject_single2 : is_ok (new_vec [0; 2]) = false /\ spec_accepts [0; 2] = false.
Proof. vm_compute. auto. Qed.
Example ex_single : single_len1 [0; 1; 0] = true /\ new_vec [0; 1; 0] = Ok {| ht_tree := FLeaf 1; ht_longest := 0 |}.
Proof. vm_compute. auto. Qed.
Example ex_decode : exists t, new_vec [2; 1; 3; 3] = Ok t /\ Forall (fun l => l < 2 ^ 32) [2; 1; 3; 3] /\
  decode (ht_tree t) [true; true; false; true] = Some (2, [true]) /\ In (2, [true; true; false]) (canonical [2; 1; 3; 3]).
Proof. eexists. split; [vm_compute; reflexivity|]. split; [repeat constructor|]. vm_compute. auto. Qed.
Example ex_over : 2 ^ max_len [1; 1; 1; 2] < kraft_at (max_len [1; 1; 1; 2]) [1; 1; 1; 2] /\ single_len1 [1; 1; 1; 2] = false.
Proof. vm_compute. auto. Qed.
Example ex_under : kraft_at (max_len [0; 2]) [0; 2] < 2 ^ max_len [0; 2] /\ single_len1 [0; 2] = false.
Proof. vm_compute. auto. Qed.
