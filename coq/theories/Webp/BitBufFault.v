(* BitBufReader over a source whose inner read number k (counted over the whole run, from 0) FAILS with an I/O error of kind e
   (C13, the streaming part of webpsan: the lossless validator pulls its input through this reader while it validates).
   Inner reads are issued by fill_buf only (`input.take(..).read_to_end(&mut buf)?`), and every accessor that refills
   (`read`, `read_bit`, `read_huffman`, the loop-head check of the pixel loop, fill_buf itself) returns the error at once:
   an operation fails with Io(e) exactly when the refill it would have done without the fault issues inner read number k
   (the reads before it are the same reads, the source being deterministic).  The ghost counter [nreads] of Webp/BitBuf.v
   tells which inner reads an operation issues.  Definitions only; compared with the real BitBufReader over a failing reader
   by the `seqf` cases of the bits area. *)
From Coq Require Import List NArith Bool.
From MS Require Import Base.Bytes Base.Outcome Webp.BitBuf Webp.BitBufSpec Webp.BitBufRun.
Import ListNotations.
Open Scope N_scope.

Definition faulty {A} (k : N) (e : ioerr) (f : bbr -> res A * bbr) (st : bbr) : res A * bbr :=
  let '(r, st') := f st in
  if (nreads st <=? k) && (k <? nreads st') then (EIo e, st') else (r, st').

(* consumer programmes *)
Definition buf_op_f (k : N) (e : ioerr) (o : cop) : bbr -> res cval * bbr := faulty k e (buf_op o).

Fixpoint run_buf_f {A} (k : N) (e : ioerr) (p : cprog A) (st : bbr) : res A :=
  match p with
  | CRet a => Ok a
  | CFail pe => EParse pe
  | CDo o c =>
    match buf_op_f k e o st with
    | (Ok v, st') => run_buf_f k e (c v) st'
    | (EParse pe, _) => EParse pe | (EIo x, _) => EIo x | (Panic s, _) => Panic s | (OutOfFuel, _) => OutOfFuel
    end
  end.

(* the number of inner reads the fault-free run of a programme issues before it ends *)
Fixpoint reads_of {A} (p : cprog A) (st : bbr) : N :=
  match p with
  | CRet _ | CFail _ => nreads st
  | CDo o c =>
    match buf_op o st with
    | (Ok v, st') => reads_of (c v) st'
    | (_, st') => nreads st'
    end
  end.

(* field sequences of the correspondence check (harness/src/bits.rs `seqf`): stop at the first error *)
Definition run_sop_f (k : N) (e : ioerr) (trees : list hdec) (o : sop) (st : bbr) : sobs * bbr :=
  let '(x, st') := run_sop trees o st in
  if (nreads st <=? k) && (k <? nreads st') then (OErrIo e, st') else (x, st').

Fixpoint run_sops_f (k : N) (e : ioerr) (trees : list hdec) (ops : list sop) (st : bbr) : list sobs * bbr :=
  match ops with
  | [] => ([], st)
  | o :: t =>
    let '(x, st') := run_sop_f k e trees o st in
    if is_err x then ([x], st')
    else let '(xs, st'') := run_sops_f k e trees t st' in (x :: xs, st'')
  end.

Definition run_seq_f (k : N) (e : ioerr) (capacity : N) (sizes : list N) (data : bytes)
                     (treelens : list (list (N * N))) (ops : list sop) : list sobs :=
  let trees := map (fun l => codes_hdec (canon_codes l)) treelens in
  fst (run_sops_f k e trees ops (with_capacity (mksrc data (cyclic_chunks sizes) 0) capacity)).
