(* C06_sound: a run of [webp_prog] on the ideal cursor (strict or lenient) that ends in Ok implies the grammar.
   One lemma per production; each says where the production leaves the level and, for every continuation that tiles
   the rest of the region, that the chunks it consumed followed by the rest tile the region from where it started
   ([steps]).  The only hypothesis about the end of the run is that the final position is inside the input, which the
   last check of [webp_prog] establishes for strict and lenient readers alike. *)
From Coq Require Import List NArith Bool Lia ZifyBool ZifyNat ZifyN.
From Coq.Strings Require Import Byte.
From MS Require Import Base.Bytes Base.Outcome Base.Prog Webp.Prim Webp.Chunks Webp.Container Webp.Grammar
  Webp.ContainerProofs Webp.ContainerProofsTiles Gen.Consts.
Import ListNotations.
Open Scope N_scope.
Arguments N.add : simpl never.
Arguments N.sub : simpl never.
Arguments N.mul : simpl never.
Arguments N.div : simpl never.
Arguments N.modulo : simpl never.
Arguments N.pow : simpl never.
Arguments N.eqb : simpl never.
Arguments N.ltb : simpl never.
Arguments N.leb : simpl never.
Arguments N.min : simpl never.
Arguments N.max : simpl never.
Arguments N.odd : simpl never.
Arguments N.land : simpl never.
Arguments N.testbit : simpl never.

Lemma ebind_ext {A B} (x : res A * N) (f g : A -> N -> res B * N) :
  (forall a s, f a s = g a s) -> ebind x f = ebind x g.
Proof. intros H. destruct x as [[a| | | |] s]; cbn [ebind]; auto. Qed.

Section S.
Variables (inp : input) (lenient : bool) (ms : N).
Variable lossless : N -> N -> bytes -> res unit.
Variable allow : bool.
Notation exec' := (exec inp lenient ms).
Notation padreq' := (padreq inp).
Notation linv' := (linv inp).
Notation hdr_at' := (hdr_at inp).
Notation tiles' := (tiles inp).
Notation chunk_at' := (chunk_at inp).
Definition lok (w h : N) (b : bytes) : bool := is_ok (lossless w h b).

Lemma frame_tail_exec fuel : forall l p, exec' (frame_tail allow fuel l) p = exec' (file_tail allow fuel l) p.
Proof.
  induction fuel as [|fuel IH]; intros l p; [reflexivity|].
  cbn [frame_tail file_tail]. rewrite !exec_bind. apply ebind_ext. intros [b l1] s.
  destruct (negb b); [reflexivity|]. rewrite !exec_bind. apply ebind_ext. intros [h l2] s'.
  destruct (known_after_image (ch_name h) || teq (ch_name h) ANMF); [reflexivity|].
  destruct (negb allow); [reflexivity|]. rewrite !exec_bind. apply ebind_ext. intros l3 s''. apply IH.
Qed.

(* ------------------------------------------------------------------ composing tilings backwards *)
Definition steps (fr : list frame) (a : astate) (p : N) (a' : astate) (p' : N) (pre : list wchunk)
           (G : list wchunk -> Prop) : Prop :=
  forall stop cs, p' <= stop -> fits fr stop -> stop <= ilen inp -> atb a' p' -> padreq' a' fr p' ->
    tiles' (loff a' p') stop cs ->
    atb a p /\ padreq' a fr p /\ tiles' (loff a p) stop (pre ++ cs) /\ G cs.

Definition gtrue : list wchunk -> Prop := fun _ => True.

Lemma steps_refl fr a p : steps fr a p a p [] gtrue.
Proof. intros stop cs _ _ _ Hb Hp Ht. unfold gtrue. auto. Qed.

Lemma steps_same fr a p a' : loff a' p = loff a p -> (atb a' p -> atb a p) -> (padreq' a' fr p -> padreq' a fr p) ->
  steps fr a p a' p [] gtrue.
Proof. intros E Hb Hp stop cs _ _ _ Hb' Hp' Ht. rewrite E in Ht. unfold gtrue. auto. Qed.

Lemma pad_of_wpad h : pad_of h = wpad (ch_len h).
Proof. reflexivity. Qed.

Lemma done_next h e a' p' fr : done_he inp h e a' p' -> padreq' a' fr p' ->
  loff a' p' = e + pad_of h /\ (N.odd (ch_len h) = true -> iget inp e = x00).
Proof.
  intros [(-> & ->) | (n & -> & -> & Hz)] Hp.
  - cbn [loff npos]. replace (e <=? e) with true by lia. split; [reflexivity|]. intros O.
    apply Hp. cbn [npos]. replace (e <=? e) with true by lia. unfold pad_of. rewrite O. reflexivity.
  - cbn [loff npos]. auto.
Qed.

Lemma done_atb h e a' p' : done_he inp h e a' p' -> atb a' p'.
Proof. intros [(-> & ->) | (n & -> & _)]; cbn [atb]; [lia | exact I]. Qed.

Lemma cend_chunk_at o : cend (chunk_at' o) = o + 8 + ch_len (hdr_at' o).
Proof. unfold cend, chunk_at. cbn [w_off w_len]. rewrite hdr_len. reflexivity. Qed.
Lemma wlen_chunk_at o : w_len (chunk_at' o) = ch_len (hdr_at' o).
Proof. unfold chunk_at. cbn [w_len]. rewrite hdr_len. reflexivity. Qed.
Lemma wname_chunk_at o : w_name (chunk_at' o) = ch_name (hdr_at' o).
Proof. unfold chunk_at. cbn [w_name]. rewrite hdr_name. reflexivity. Qed.

Lemma steps_chunk fr a p a' p' :
  let o := loff a p in
  padreq' a fr p -> atb a p -> done_he inp (hdr_at' o) (o + 8 + ch_len (hdr_at' o)) a' p' ->
  steps fr a p a' p' [chunk_at' o] gtrue.
Proof.
  intros o Hp Hb Hd stop cs _ _ _ _ Hp' Ht.
  destruct (done_next _ _ _ _ fr Hd Hp') as [E Z]. rewrite E in Ht.
  split; [exact Hb|]. split; [exact Hp|]. split; [|exact I].
  cbn [app]. fold o. pose proof (tiles_le _ _ _ _ Ht) as Hle.
  apply tiles_cons; rewrite ?cend_chunk_at, ?wlen_chunk_at; rewrite <- ?pad_of_wpad; auto.
Qed.

Lemma loff_ge a fr p : linv' a fr p -> p <= loff a p + 8 /\ loff a p <= p + 1.
Proof.
  intros [_ Ha]. destruct a as [n|h|h e]; cbn [loff npos ainv] in *; try lia.
  destruct (e <=? p); unfold pad_of; destruct (N.odd (ch_len h)); lia.
Qed.

Lemma fits_loff a fr p : linv' a fr p -> padreq' a fr p -> fits fr (loff a p).
Proof.
  intros Hl Hp. destruct (linv_settle inp a fr p Hl Hp) as ([Hf _] & _ & _).
  destruct a as [n|h|h e]; cbn [loff] in *; auto. cbn [npos] in Hf. eapply fits_le; [exact Hf | lia].
Qed.

(* ------------------------------------------------------------------ a chunk that is only skipped *)
Lemma skip_named_sound name a fr p l' p' : linv' a fr p ->
  exec' (skip_named name (L a fr p)) p = (Ok l', p') ->
  exists a', l' = L a' fr p' /\ linv' a' fr p' /\ p <= p'
    /\ steps fr a p a' p' [chunk_at' (loff a p)] gtrue /\ w_name (chunk_at' (loff a p)) = name.
Proof.
  intros Hl H. unfold skip_named in H.
  apply exec_bind_ok in H. destruct H as ([h l1] & p1 & H1 & H).
  apply (read_header_ok inp) in H1; [|exact Hl]. destruct H1 as (Hp & Hb & [Hh1 Hh2] & Hn & E & ->).
  injection E as -> ->. set (o := loff a p) in *.
  apply (skip_data_ok inp) in H; [|apply linv_in_hdr; exact Hh1].
  destruct H as (a' & -> & Hl' & Hfe & Hle & Hd).
  exists a'. split; [reflexivity|]. split; [exact Hl'|].
  pose proof (loff_ge a fr p Hl). split; [fold o in H; lia|].
  split; [apply steps_chunk; assumption|]. rewrite wname_chunk_at. exact Hn.
Qed.

(* ------------------------------------------------------------------ trailing chunks *)
Lemma file_tail_sound fuel : forall a fr p l' p', linv' a fr p -> p' <= ilen inp ->
  exec' (file_tail allow fuel (L a fr p)) p = (Ok l', p') ->
  exists n cs, l' = L (AIdle n) fr p' /\ fits fr p' /\ p <= p' /\ more inp fr p' = false
    /\ atb a p /\ padreq' a fr p /\ tiles' (loff a p) p' cs /\ tail_ok allow cs = true.
Proof.
  induction fuel as [|fuel IH]; intros a fr p l' p' Hl Hend H; [discriminate|].
  cbn [file_tail] in H.
  apply exec_bind_ok in H. destruct H as ([b l1] & p1 & H1 & H).
  apply (has_remaining_ok inp) in H1; [|exact Hl]. destruct H1 as (Hp & -> & E). injection E as -> ->.
  destruct (linv_settle inp a fr p Hl Hp) as (Hl1 & Hs1 & Hle1).
  destruct (match nst a p with AIdle _ => more inp fr (npos a p) | _ => true end) eqn:Hb; cbn [negb] in H.
  - (* another chunk *)
    apply exec_bind_ok in H. destruct H as ([h l2] & p2 & H2 & H).
    apply (read_any_header_ok inp) in H2; [|exact Hl1]. rewrite loff_nst in H2.
    destruct H2 as (_ & Hb1 & [Hh1 Hh2] & E & ->). injection E as -> ->. apply (proj1 (atb_nst a p)) in Hb1.
    set (o := loff a p) in *.
    destruct (known_after_image (ch_name (hdr_at' o)) || teq (ch_name (hdr_at' o)) ANMF) eqn:K; [discriminate|].
    destruct allow eqn:Eallow; cbn [negb] in H; [|discriminate].
    apply exec_bind_ok in H. destruct H as (l3 & p3 & H3 & H).
    apply (skip_data_ok inp) in H3; [|apply linv_in_hdr; exact Hh1].
    destruct H3 as (a3 & -> & Hl3 & Hfe & Hle3 & Hd).
    apply IH in H; [|exact Hl3 | exact Hend].
    destruct H as (n & cs & -> & Hf' & Hle' & Hm & Hb3 & Hp3 & Ht3 & Hok).
    exists n, (chunk_at' o :: cs). split; [reflexivity|]. split; [exact Hf'|].
    pose proof (loff_ge a fr p Hl). fold o in H. split; [lia|]. split; [exact Hm|].
    destruct (steps_chunk fr a p a3 p3 Hp Hb1 Hd p' cs Hle' Hf' Hend Hb3 Hp3 Ht3) as (_ & _ & Ht & _).
    split; [exact Hb1|]. split; [exact Hp|]. split; [exact Ht|].
    cbn [tail_ok forallb]. rewrite wname_chunk_at, known_model, K. cbn [negb andb].
    destruct cs; [reflexivity | exact Hok].
  - (* nothing left *)
    rewrite exec_ret in H. injection H as <- <-.
    destruct (nst a p) as [n| |] eqn:En; try discriminate.
    assert (Hb' : atb a p /\ loff a p = npos a p).
    { destruct a as [n0|h0|h0 e0]; cbn [nst atb loff] in *; try discriminate; auto.
      destruct (e0 <=? p) eqn:E0; [split; [lia | reflexivity] | discriminate]. }
    destruct Hb' as [Hb' Eo]. exists n, []. split; [reflexivity|]. split; [apply Hl1|]. split; [exact Hle1|].
    split; [exact Hb|]. split; [exact Hb'|]. split; [exact Hp|]. rewrite Eo. split; [constructor | reflexivity].
Qed.


(* ------------------------------------------------------------------ lossless payloads *)
Lemma exec_lift_ok {A} (r : res A) p v q : exec' (lift r) p = (Ok v, q) -> r = Ok v /\ q = p.
Proof. rewrite exec_lift. intros H. injection H as -> ->. auto. Qed.

Lemma do_vp8l_sound dims h e fr p l' p' : linv' (AIn h e) fr p -> p' <= ilen inp ->
  exec' (do_vp8l lossless dims (L (AIn h e) fr p)) p = (Ok l', p') ->
  exists a', l' = L a' fr p' /\ linv' a' fr p' /\ e <= p' /\ done_he inp h e a' p'
    /\ forall c, w_off c = p -> w_len c = e - p -> vp8l_ok lok inp dims c = true.
Proof.
  intros Hl Hend H. unfold do_vp8l in H.
  apply exec_bind_ok in H. destruct H as ([b l1] & p1 & H1 & H).
  apply (read_data_ok inp) in H1; [|lia | exact Hl]. destruct H1 as (He5 & Hf5 & Hi5 & E & ->). injection E as -> ->.
  apply exec_bind_ok in H. destruct H as (v & p2 & H2 & H).
  apply exec_lift_ok in H2. destruct H2 as [Hv ->]. change (parse_vp8l (iread inp p 5) = Ok v) in Hv.
  rewrite parse_vp8l_spec in Hv.
  destruct (negb (le inp p 1 =? 47)) eqn:Esig; [discriminate|]. cbn zeta in Hv.
  destruct (negb ((le inp (p + 1) 4 / 2 ^ 29) mod 8 =? 0)) eqn:Ever; [discriminate|]. injection Hv as <-.
  cbn [l_w l_h] in H.
  apply exec_bind_ok in H. destruct H as ([] & p3 & H3 & H).
  assert (Hdims : match dims with
                  | Some (w, hh) => (le inp (p + 1) 4 mod 2 ^ 14 + 1 =? w)
                                    && ((le inp (p + 1) 4 / 2 ^ 14) mod 2 ^ 14 + 1 =? hh) = true
                  | None => True end /\ p3 = p + 5).
  { destruct dims as [[w hh]|].
    - destruct ((le inp (p + 1) 4 mod 2 ^ 14 + 1 =? w) && ((le inp (p + 1) 4 / 2 ^ 14) mod 2 ^ 14 + 1 =? hh));
        rewrite exec_ret in H3; [injection H3 as <-; auto | discriminate].
    - rewrite exec_ret in H3. injection H3 as <-. auto. }
  destruct Hdims as [Hdims ->]. clear H3.
  assert (Hl5 : linv' (AIn h e) fr (p + 5)) by (split; [exact Hf5 | cbn [ainv]; lia]).
  apply exec_bind_ok in H. destruct H as ([body l2] & p4 & H4 & H).
  rewrite (read_body_spec inp lenient ms h e fr (p + 5) Hl5) in H4. injection H4 as <- <- <-.
  set (u := upto inp fr (p + 5) (e - (p + 5))) in *.
  apply exec_bind_ok in H. destruct H as ([] & p5 & H5 & H).
  apply exec_lift_ok in H5. destruct H5 as [Hll ->].
  assert (Hlu : linv' (AIn h e) fr (p + 5 + u)).
  { split; [apply upto_fits; exact Hf5|]. cbn [ainv]. pose proof (upto_le inp fr (p + 5) (e - (p + 5))). fold u in H0. lia. }
  apply (skip_data_ok inp) in H; [|exact Hlu]. destruct H as (a' & -> & Hl' & Hfe & Hle & Hd).
  exists a'. split; [reflexivity|]. split; [exact Hl'|]. split; [exact Hle|]. split; [exact Hd|].
  intros c Ho Hlen. unfold vp8l_ok, vp8l_dims. rewrite Ho, Hlen.
  replace (e - p <? 5) with false by lia. rewrite Esig, Ever.
  assert (Eu : u = e - (p + 5)).
  { apply upto_full; [replace (p + 5 + (e - (p + 5))) with e by lia; exact Hfe | lia]. }
  apply andb_true_intro. split.
  - destruct dims as [[w hh]|]; [exact Hdims | reflexivity].
  - unfold lok, get. replace (e - p - 5) with u by lia. rewrite Hll. reflexivity.
Qed.

Lemma do_alph_sound w hh h e fr p l' p' : linv' (AIn h e) fr p -> p' <= ilen inp ->
  exec' (do_alph lossless w hh (L (AIn h e) fr p)) p = (Ok l', p') ->
  exists a', l' = L a' fr p' /\ linv' a' fr p' /\ e <= p' /\ done_he inp h e a' p'
    /\ forall c, w_off c = p -> w_len c = e - p -> alph_ok lok inp w hh c = true.
Proof.
  intros Hl Hend H. unfold do_alph in H.
  apply exec_bind_ok in H. destruct H as ([b l1] & p1 & H1 & H).
  apply (read_data_ok inp) in H1; [|lia | exact Hl]. destruct H1 as (He1 & Hf1 & Hi1 & E & ->). injection E as -> ->.
  apply exec_bind_ok in H. destruct H as (f & p2 & H2 & H).
  apply exec_lift_ok in H2. destruct H2 as [Hv ->]. change (parse_alph_flags (iread inp p 1) = Ok f) in Hv.
  rewrite parse_alph_spec in Hv.
  destruct (N.land (le inp p 1) 226 =? 0) eqn:Eres; [|discriminate]. injection Hv as <-.
  assert (Hl1 : linv' (AIn h e) fr (p + 1)) by (split; [exact Hf1 | cbn [ainv]; lia]).
  apply exec_bind_ok in H. destruct H as (l2 & p3 & H3 & H).
  rewrite has_odd in H3.
  assert (K : exists q, l2 = L (AIn h e) fr q /\ p3 = q /\ linv' (AIn h e) fr q /\
              (N.odd (le inp p 1) = true ->
               lossless w hh (iread inp (p + 1) (N.to_nat (upto inp fr (p + 1) (e - (p + 1))))) = Ok tt
               /\ q = p + 1 + upto inp fr (p + 1) (e - (p + 1)))).
  { destruct (N.odd (le inp p 1)).
    - apply exec_bind_ok in H3. destruct H3 as ([body l3] & p4 & H4 & H3).
      rewrite (read_body_spec inp lenient ms h e fr (p + 1) Hl1) in H4. injection H4 as <- <- <-.
      set (u := upto inp fr (p + 1) (e - (p + 1))) in *.
      apply exec_bind_ok in H3. destruct H3 as ([] & p5 & H5 & H3).
      apply exec_lift_ok in H5. destruct H5 as [Hll ->]. rewrite exec_ret in H3. injection H3 as <- <-.
      exists (p + 1 + u). split; [reflexivity|]. split; [reflexivity|]. split; [|auto].
      split; [apply upto_fits; exact Hf1|]. cbn [ainv].
      pose proof (upto_le inp fr (p + 1) (e - (p + 1))). fold u in H0. lia.
    - rewrite exec_ret in H3. injection H3 as <- <-. exists (p + 1).
      split; [reflexivity|]. split; [reflexivity|]. split; [exact Hl1 | discriminate]. }
  destruct K as (q & -> & -> & Hlq & Hodd).
  apply (skip_data_ok inp) in H; [|exact Hlq]. destruct H as (a' & -> & Hl' & Hfe & Hle & Hd).
  exists a'. split; [reflexivity|]. split; [exact Hl'|]. split; [exact Hle|]. split; [exact Hd|].
  intros c Ho Hlen. unfold alph_ok. rewrite Ho, Hlen. replace (1 <=? e - p) with true by lia. rewrite Eres.
  cbn [andb]. destruct (N.odd (le inp p 1)); [|reflexivity].
  destruct (Hodd eq_refl) as [Hll Eq].
  assert (Eu : upto inp fr (p + 1) (e - (p + 1)) = e - (p + 1)).
  { apply upto_full; [replace (p + 1 + (e - (p + 1))) with e by lia; exact Hfe | lia]. }
  unfold lok, get. replace (e - p - 1) with (e - (p + 1)) by lia. rewrite <- Eu, Hll. reflexivity.
Qed.

(* ------------------------------------------------------------------ image data *)
Definition image_part (alph : bool) (dims : N * N) (h : chdr) (l : lv) : prog lv :=
  if teq (ch_name h) VP8 then skip_data l
  else if teq (ch_name h) VP8L then
    (if alph then Ret (EParse InvalidChunkLayout) else do_vp8l lossless (Some dims) l)
  else Ret (EParse InvalidChunkLayout).

Lemma image_part_sound alph dims o fr l' p' : fits fr (o + 8) -> p' <= ilen inp ->
  exec' (image_part alph dims (hdr_at' o) (L (in_hdr inp o) fr (o + 8))) (o + 8) = (Ok l', p') ->
  exists a', l' = L a' fr p' /\ linv' a' fr p' /\ o + 8 <= p'
    /\ done_he inp (hdr_at' o) (o + 8 + ch_len (hdr_at' o)) a' p'
    /\ (w_name (chunk_at' o) = VP8
        \/ (w_name (chunk_at' o) = VP8L /\ alph = false /\ vp8l_ok lok inp (Some dims) (chunk_at' o) = true)).
Proof.
  intros Hf Hend H. unfold image_part in H. pose proof (linv_in_hdr inp o fr Hf) as Hl.
  rewrite wname_chunk_at.
  destruct (teq (ch_name (hdr_at' o)) VP8) eqn:E1.
  - apply (skip_data_ok inp) in H; [|exact Hl]. destruct H as (a' & -> & Hl' & Hfe & Hle & Hd).
    exists a'. split; [reflexivity|]. split; [exact Hl'|]. split; [lia|]. split; [exact Hd|].
    left. now apply teq_true.
  - destruct (teq (ch_name (hdr_at' o)) VP8L) eqn:E2; [|rewrite exec_ret in H; discriminate].
    destruct alph; [rewrite exec_ret in H; discriminate|].
    apply do_vp8l_sound in H; [|exact Hl | exact Hend]. destruct H as (a' & -> & Hl' & Hle & Hd & Hok).
    exists a'. split; [reflexivity|]. split; [exact Hl'|]. split; [lia|]. split; [exact Hd|].
    right. split; [now apply teq_true|]. split; [reflexivity|]. apply Hok.
    + reflexivity.
    + rewrite wlen_chunk_at. lia.
Qed.

Lemma names_distinct :
  teq VP8 ALPH = false /\ teq VP8L ALPH = false /\ teq VP8L VP8 = false.
Proof. repeat split; reflexivity. Qed.

Lemma sanitize_still_unfold x l :
  sanitize_still lossless x l =
  ('(alph, l1) <~ (if has (x_flags x) F_ALPH then
                    '(_, l1) <~ read_header ALPH l ;; l2 <~ do_alph lossless (x_w x) (x_h x) l1 ;; Ret (Ok (true, l2))
                  else Ret (Ok (false, l))) ;;
   '(b, l2) <~ has_remaining l1 ;;
   if negb b then Ret (EParse (MissingRequiredChunk VP8)) else
   '(h, l3) <~ read_any_header l2 ;; image_part alph (x_w x, x_h x) h l3).
Proof. reflexivity. Qed.

(* has_remaining followed by read_any_header: the next chunk's header *)
Lemma next_header_sound a fr p b l1 p1 h l2 p2 : linv' a fr p ->
  exec' (has_remaining (L a fr p)) p = (Ok (b, l1), p1) ->
  exec' (read_any_header l1) p1 = (Ok (h, l2), p2) ->
  let o := loff a p in
  padreq' a fr p /\ atb a p /\ hdr_ok inp fr o /\ h = hdr_at' o /\ l2 = L (in_hdr inp o) fr (o + 8) /\ p2 = o + 8.
Proof.
  intros Hl H1 H2 o. apply (has_remaining_ok inp) in H1; [|exact Hl]. destruct H1 as (Hp & -> & E). injection E as _ ->.
  destruct (linv_settle inp a fr p Hl Hp) as (Hl1 & _ & _).
  apply (read_any_header_ok inp) in H2; [|exact Hl1]. rewrite loff_nst in H2.
  destruct H2 as (_ & Hb & Hh & E & ->). injection E as -> ->. apply (proj1 (atb_nst a p)) in Hb. auto 6.
Qed.

Lemma still_sound x a fr p l' p' : linv' a fr p -> p' <= ilen inp ->
  exec' (sanitize_still lossless x (L a fr p)) p = (Ok l', p') ->
  exists a' pre, l' = L a' fr p' /\ linv' a' fr p' /\ p <= p'
    /\ steps fr a p a' p' pre
         (fun cs => image_ok lok inp (has (x_flags x) F_ALPH) (has (x_flags x) F_ALPH) (x_w x) (x_h x) (pre ++ cs) = Some cs).
Proof.
  intros Hl Hend H. rewrite sanitize_still_unfold in H.
  apply exec_bind_ok in H. destruct H as ([alph l1] & p1 & H1 & H).
  destruct (has (x_flags x) F_ALPH) eqn:Fa.
  - (* ALPH first *)
    apply exec_bind_ok in H1. destruct H1 as ([h0 l0] & p0 & H0 & H1).
    apply (read_header_ok inp) in H0; [|exact Hl]. destruct H0 as (Hp & Hb & [Hh1 Hh2] & Hn & E & ->).
    injection E as -> ->. set (o := loff a p) in *.
    apply exec_bind_ok in H1. destruct H1 as (l2 & p2 & H2 & H1).
    rewrite exec_ret in H1. injection H1 as <- <- <-.
    apply exec_bind_ok in H. destruct H as ([b l3] & p3 & H3 & H).
    assert (Hle1 : p2 <= p').
    { apply (exec_mono inp lenient ms) in H3. apply (exec_mono inp lenient ms) in H. lia. }
    apply do_alph_sound in H2; [|apply linv_in_hdr; exact Hh1 | lia].
    destruct H2 as (a1 & -> & Hl1 & Hle & Hd1 & Hok1).
    destruct b; cbn [negb] in H; [|rewrite exec_ret in H; discriminate].
    apply exec_bind_ok in H. destruct H as ([h4 l4] & p4 & H4 & H).
    destruct (next_header_sound a1 fr p2 _ _ _ _ _ _ Hl1 H3 H4) as (Hp1 & Hb1 & [Hh3 Hh4] & -> & -> & ->).
    set (o1 := loff a1 p2) in *.
    apply image_part_sound in H; [|exact Hh3 | exact Hend]. destruct H as (a' & -> & Hl' & Hle' & Hd & Himg).
    exists a', [chunk_at' o; chunk_at' o1]. split; [reflexivity|]. split; [exact Hl'|].
    pose proof (loff_ge a fr p Hl). fold o in H. pose proof (loff_ge a1 fr p2 Hl1). fold o1 in H0.
    split; [lia|].
    intros stop cs Hs1 Hs2 Hs3 Hb' Hp' Ht.
    destruct (steps_chunk fr a1 p2 a' p' Hp1 Hb1 Hd stop cs Hs1 Hs2 Hs3 Hb' Hp' Ht) as (_ & _ & Ht1 & _).
    destruct (steps_chunk fr a p a1 p2 Hp Hb Hd1 stop _ ltac:(lia) Hs2 Hs3 Hb1 Hp1 Ht1) as (_ & _ & Ht0 & _).
    split; [exact Hb|]. split; [exact Hp|]. split; [exact Ht0|].
    cbn [app image_ok]. rewrite wname_chunk_at, Hn. change (geq ALPH gALPH) with true. cbn [andb].
    rewrite Hok1; [|reflexivity | rewrite wlen_chunk_at; lia].
    destruct Himg as [Hv | (Hv & Hc & _)]; [|discriminate]. rewrite Hv. reflexivity.
  - rewrite exec_ret in H1. injection H1 as <- <- <-.
    apply exec_bind_ok in H. destruct H as ([b l3] & p3 & H3 & H).
    destruct b; cbn [negb] in H; [|rewrite exec_ret in H; discriminate].
    apply exec_bind_ok in H. destruct H as ([h4 l4] & p4 & H4 & H).
    destruct (next_header_sound a fr p _ _ _ _ _ _ Hl H3 H4) as (Hp & Hb & [Hh1 Hh2] & -> & -> & ->).
    set (o := loff a p) in *.
    apply image_part_sound in H; [|exact Hh1 | exact Hend]. destruct H as (a' & -> & Hl' & Hle' & Hd & Himg).
    exists a', [chunk_at' o]. split; [reflexivity|]. split; [exact Hl'|].
    pose proof (loff_ge a fr p Hl). fold o in H. split; [lia|].
    intros stop cs Hs1 Hs2 Hs3 Hb' Hp' Ht.
    destruct (steps_chunk fr a p a' p' Hp Hb Hd stop cs Hs1 Hs2 Hs3 Hb' Hp' Ht) as (_ & _ & Ht0 & _).
    split; [exact Hb|]. split; [exact Hp|]. split; [exact Ht0|].
    cbn [app image_ok]. destruct names_distinct as (N1 & N2 & N3).
    destruct Himg as [Hv | (Hv & _ & Hok)]; rewrite Hv.
    + change (geq VP8 gALPH) with (teq VP8 ALPH). rewrite N1. reflexivity.
    + change (geq VP8L gALPH) with (teq VP8L ALPH). change (geq VP8L gVP8) with (teq VP8L VP8). rewrite N2, N3.
      change (geq VP8L gVP8L) with true. cbn iota. rewrite Hok. reflexivity.
Qed.


(* ------------------------------------------------------------------ facts about tilings used below *)
Lemma tiles_inv_cons off stop c cs : tiles' off stop (c :: cs) -> c = chunk_at' off /\ off + 8 <= stop.
Proof.
  intros H. inversion H; subst. split; [reflexivity|].
  subst c0. unfold cend, chunk_at in *. cbn [w_off w_len] in *. lia.
Qed.
Lemma tiles_head off stop cs : tiles' off stop cs -> off < stop -> exists r, cs = chunk_at' off :: r.
Proof. intros H Hlt. destruct cs as [|c r]; [inversion H; lia|]. apply tiles_inv_cons in H. destruct H as [-> _]. now exists r. Qed.
Lemma more_of_fits fr stop q : fits fr stop -> stop <= ilen inp -> q + 1 <= stop -> more inp fr q = true.
Proof.
  intros Hf Hs Hq. unfold more. apply andb_true_intro. split; [|lia].
  apply fitsb_spec. eapply fits_le; [exact Hf | lia].
Qed.

(* ------------------------------------------------------------------ one ANMF frame *)
Definition alpha_part (x : vp8x) (fw fh : N) (c : lv) : prog (bool * lv) :=
  if has (x_flags x) F_ALPH then
    '(p, c1) <~ peek_header c ;;
    match p with
    | Some n => if teq n ALPH then
                  '(_, c2) <~ read_header ALPH c1 ;; c3 <~ do_alph lossless fw fh c2 ;; Ret (Ok (true, c3))
                else Ret (Ok (false, c1))
    | None => Ret (Ok (false, c1))
    end
  else Ret (Ok (false, c)).

Lemma one_frame_unfold fuel x l :
  one_frame lossless allow fuel x l =
  ('(_, l1) <~ read_header ANMF l ;;
   '(b, l2) <~ read_data 16 l1 ;;
   '(fw, fh) <~ lift (parse_anmf_dims b) ;;
   '(alph, c1) <~ alpha_part x fw fh (child l2) ;;
   '(h, c2) <~ read_any_header c1 ;;
   c3 <~ image_part alph (fw, fh) h c2 ;;
   c4 <~ frame_tail allow fuel c3 ;;
   lift (parent c4)).
Proof. reflexivity. Qed.

Lemma linv_peek o fr : hdr_ok inp fr o -> linv' (APeek (hdr_at' o)) fr (o + 8).
Proof.
  intros [H1 H2]. split; [exact H1|]. cbn [ainv]. replace (o + 8 - 8) with o by lia. repeat split; lia.
Qed.
Lemma loff_peek h o : loff (APeek h) (o + 8) = o.
Proof. cbn [loff]. lia. Qed.

Lemma alpha_part_sound x fw fh n fr p alph l1 p1 : fits fr p -> p1 <= ilen inp ->
  exec' (alpha_part x fw fh (L (AIdle n) fr p)) p = (Ok (alph, l1), p1) ->
  exists a1 pre, l1 = L a1 fr p1 /\ linv' a1 fr p1 /\ p <= p1 /\ steps fr (AIdle n) p a1 p1 pre gtrue
    /\ ((alph = true /\ has (x_flags x) F_ALPH = true
         /\ exists c, pre = [c] /\ w_name c = ALPH /\ alph_ok lok inp fw fh c = true)
        \/ (alph = false /\ pre = [])).
Proof.
  intros Hf Hend H. unfold alpha_part in H. assert (Hl : linv' (AIdle n) fr p) by (split; [exact Hf | exact I]).
  destruct (has (x_flags x) F_ALPH) eqn:Fa.
  2:{ rewrite exec_ret in H. injection H as <- <- <-. exists (AIdle n), []. split; [reflexivity|]. split; [exact Hl|].
      split; [lia|]. split; [apply steps_refl | right; auto]. }
  apply exec_bind_ok in H. destruct H as ([pk c1] & q & H1 & H).
  apply (peek_header_ok inp) in H1; [|exact Hl]. cbn [loff npos] in H1.
  destruct H1 as (_ & _ & [(Hh & E & ->) | (Hm & -> & n' & E)]); apply pair_equal_spec in E; destruct E as [-> ->].
  - destruct (teq (ch_name (hdr_at' p)) ALPH) eqn:En.
    + apply exec_bind_ok in H. destruct H as ([h2 c2] & q2 & H2 & H).
      apply (read_header_ok inp) in H2; [|apply linv_peek; exact Hh]. rewrite loff_peek in H2.
      destruct H2 as (_ & _ & _ & Hn & E & ->). apply pair_equal_spec in E; destruct E as [-> ->].
      apply exec_bind_ok in H. destruct H as (c3 & q3 & H3 & H). rewrite exec_ret in H. injection H as <- <- <-.
      apply do_alph_sound in H3; [|apply linv_in_hdr; apply Hh | exact Hend].
      destruct H3 as (a1 & -> & Hl1 & Hle & Hd & Hok).
      exists a1, [chunk_at' p]. split; [reflexivity|]. split; [exact Hl1|]. split; [lia|]. split.
      * apply (steps_chunk fr (AIdle n) p a1 q3); [apply settled_padreq; exact I | exact I | exact Hd].
      * left. split; [reflexivity|]. split; [reflexivity|]. exists (chunk_at' p). split; [reflexivity|].
        split; [rewrite wname_chunk_at; exact Hn|]. apply Hok; [reflexivity | rewrite wlen_chunk_at; lia].
    + rewrite exec_ret in H. injection H as <- <- <-.
      exists (APeek (hdr_at' p)), []. split; [reflexivity|]. split; [apply linv_peek; exact Hh|]. split; [lia|].
      split; [|right; auto]. intros stop cs _ _ _ _ _ Ht. rewrite loff_peek in Ht.
      split; [exact I|]. split; [apply settled_padreq; exact I|]. split; [exact Ht | exact I].
  - rewrite exec_ret in H. injection H as <- <- <-.
    exists (AIdle n'), []. split; [reflexivity|]. split; [exact Hl|]. split; [lia|]. split; [|right; auto].
    apply steps_same; auto.
Qed.

Lemma one_frame_sound fuel x a fr p l' p' : linv' a fr p -> p' <= ilen inp ->
  exec' (one_frame lossless allow fuel x (L a fr p)) p = (Ok l', p') ->
  let o := loff a p in let h := hdr_at' o in let e := o + 8 + ch_len h in
  l' = L (AIn h e) fr p' /\ p' <= e /\ fits fr p' /\ p <= p' /\ padreq' a fr p /\ atb a p /\ ch_name h = ANMF
  /\ (e <= p' -> frame_ok lok allow inp (has (x_flags x) F_ALPH) (chunk_at' o) = true).
Proof.
  intros Hl Hend H o h e. rewrite one_frame_unfold in H.
  apply exec_bind_ok in H. destruct H as ([h0 l1] & q1 & H1 & H).
  apply (read_header_ok inp) in H1; [|exact Hl]. destruct H1 as (Hp & Hb & [Hh1 Hh2] & Hn & E & ->).
  apply pair_equal_spec in E; destruct E as [-> ->]. fold o h in Hh1, Hh2, Hn, H.
  apply exec_bind_ok in H. destruct H as ([b l2] & q2 & H2 & H).
  apply (read_data_ok inp) in H2; [|lia | apply linv_in_hdr; exact Hh1]. fold o h e in H2.
  destruct H2 as (He16 & Hf16 & Hi16 & E & ->). apply pair_equal_spec in E; destruct E as [-> ->].
  apply exec_bind_ok in H. destruct H as ([fw fh] & q3 & H3 & H).
  apply exec_lift_ok in H3. destruct H3 as [Hv ->].
  change (parse_anmf_dims (iread inp (o + 8) 16) = Ok (fw, fh)) in Hv. rewrite parse_anmf_spec in Hv.
  destruct (N.land (le inp (o + 8 + 15) 1) 252 =? 0) eqn:Eflags; [|discriminate]. injection Hv as <- <-.
  rewrite child_L in H. set (fr' := (h, e) :: fr) in *.
  assert (Hf' : fits fr' (o + 8 + 16)) by (apply fits_cons; split; [cbn [snd]; lia | exact Hf16]).
  apply exec_bind_ok in H. destruct H as ([alph c1] & q4 & H4 & H).
  assert (Hq4 : q4 <= p') by (apply (exec_mono inp lenient ms) in H; exact H).
  apply alpha_part_sound in H4; [|exact Hf' | lia].
  destruct H4 as (a1 & pre1 & -> & Hl1 & Hle1 & Hst1 & Halph).
  apply exec_bind_ok in H. destruct H as ([h5 c2] & q5 & H5 & H).
  apply (read_any_header_ok inp) in H5; [|exact Hl1]. destruct H5 as (Hp1 & Hb1 & [Hh3 Hh4] & E & ->).
  apply pair_equal_spec in E; destruct E as [-> ->]. set (o1 := loff a1 q4) in *.
  apply exec_bind_ok in H. destruct H as (c3 & q6 & H6 & H).
  assert (Hq6 : q6 <= p') by (apply (exec_mono inp lenient ms) in H; exact H).
  apply image_part_sound in H6; [|exact Hh3 | lia]. destruct H6 as (a3 & -> & Hl3 & Hle3 & Hd3 & Himg).
  apply exec_bind_ok in H. destruct H as (c4 & q7 & H7 & H).
  apply exec_lift_ok in H. destruct H as [Hpar Eq7]. subst q7.
  rewrite frame_tail_exec in H7. apply file_tail_sound in H7; [|exact Hl3 | exact Hend].
  destruct H7 as (n & cst & -> & Hf7 & Hle7 & Hm7 & Hb3 & Hp3 & Ht3 & Hok3).
  unfold fr' in Hpar. rewrite parent_L in Hpar. injection Hpar as <-.
  apply fits_cons in Hf7. destruct Hf7 as [Hpe Hf7]. cbn [snd] in Hpe.
  split; [reflexivity|]. split; [exact Hpe|]. split; [exact Hf7|].
  pose proof (loff_ge a fr p Hl) as Hge. fold o in Hge. split; [lia|].
  split; [exact Hp|]. split; [exact Hb|]. split; [exact Hn|].
  intros Hep. assert (p' = e) by lia. subst p'.
  assert (Hf7' : fits fr' e) by (apply fits_cons; split; [cbn [snd]; lia | exact Hf7]).
  destruct (steps_chunk fr' a1 q4 a3 q6 Hp1 Hb1 Hd3 e cst Hle7 Hf7' Hend Hb3 Hp3 Ht3) as (_ & _ & Ht1 & _).
  fold o1 in Ht1. cbn [app] in Ht1.
  destruct (Hst1 e _ ltac:(lia) Hf7' Hend Hb1 Hp1 Ht1) as (_ & _ & Ht0 & _). cbn [loff npos] in Ht0.
  unfold frame_ok. rewrite wlen_chunk_at. fold h. cbn [w_off chunk_at].
  replace (16 <=? ch_len h) with true by lia. rewrite Eflags. cbn [andb].
  replace (o + 8 + ch_len h) with e by reflexivity.
  apply region_chunks_tiles in Ht0. rewrite Ht0.
  assert (Hio : image_ok lok inp (has (x_flags x) F_ALPH) false (le inp (o + 8 + 6) 3 + 1) (le inp (o + 8 + 9) 3 + 1)
                  (pre1 ++ chunk_at' o1 :: cst) = Some cst).
  { destruct names_distinct as (N1 & N2 & N3).
    destruct Halph as [(-> & Fa & c & -> & Hnc & Hokc) | (-> & ->)]; cbn [app image_ok].
    - rewrite Hnc, Fa, Hokc. change (geq ALPH gALPH) with true. cbn [andb].
      destruct Himg as [Hv | (_ & Hc & _)]; [|discriminate]. rewrite Hv. reflexivity.
    - destruct Himg as [Hv | (Hv & _ & Hokv)]; rewrite Hv.
      + change (geq VP8 gALPH) with (teq VP8 ALPH). rewrite N1. reflexivity.
      + change (geq VP8L gALPH) with (teq VP8L ALPH). change (geq VP8L gVP8) with (teq VP8L VP8). rewrite N2, N3.
        change (geq VP8L gVP8L) with true. cbn iota. rewrite Hokv. reflexivity. }
  rewrite Hio. exact Hok3.
Qed.

(* ------------------------------------------------------------------ the frame loop *)
Lemma frames_sound fuel x : forall a fr p l' p', linv' a fr p -> p' <= ilen inp ->
  exec' (frames lossless allow fuel x (L a fr p)) p = (Ok l', p') ->
  exists a' pre, l' = L a' fr p' /\ linv' a' fr p' /\ p <= p' /\ atb a p /\ padreq' a fr p
    /\ steps fr a p a' p' pre
         (fun cs => take_frames lok allow inp (has (x_flags x) F_ALPH) (pre ++ cs) = Some cs).
Proof.
  induction fuel as [|fuel IH]; intros a fr p l' p' Hl Hend H; [discriminate|].
  cbn [frames] in H.
  apply exec_bind_ok in H. destruct H as ([pk l1] & q1 & H1 & H).
  apply (peek_header_ok inp) in H1; [|exact Hl]. set (o := loff a p) in *.
  pose proof (loff_ge a fr p Hl) as Hge. fold o in Hge.
  destruct H1 as (Hp & Hb & [(Hh & E & ->) | (Hm & -> & n' & E)]); apply pair_equal_spec in E; destruct E as [-> ->].
  - destruct (teq (ch_name (hdr_at' o)) ANMF) eqn:En.
    + apply exec_bind_ok in H. destruct H as (l2 & q2 & H2 & H).
      assert (Hq2 : q2 <= p') by (apply (exec_mono inp lenient ms) in H; exact H).
      apply one_frame_sound in H2; [|apply linv_peek; exact Hh | lia]. rewrite loff_peek in H2.
      set (h := hdr_at' o) in *. set (e := o + 8 + ch_len h) in *.
      destruct H2 as (-> & Hqe & Hfq & Hle2 & _ & _ & Hn & Hfok).
      apply IH in H; [|split; [exact Hfq | exact Hqe] | exact Hend].
      destruct H as (a' & pre' & -> & Hl' & Hle' & Hb2 & Hp2 & Hst).
      cbn [atb] in Hb2. assert (q2 = e) by lia. subst q2.
      exists a', (chunk_at' o :: pre'). split; [reflexivity|]. split; [exact Hl'|]. split; [lia|].
      split; [exact Hb|]. split; [exact Hp|].
      intros stop cs Hs1 Hs2 Hs3 Hb' Hp' Ht.
      destruct (Hst stop cs Hs1 Hs2 Hs3 Hb' Hp' Ht) as (_ & _ & Ht2 & Htk).
      assert (Hd : done_he inp h e (AIn h e) e) by (left; auto).
      destruct (steps_chunk fr a p (AIn h e) e Hp Hb Hd stop _ ltac:(lia) Hs2 Hs3 Hb2 Hp2 Ht2) as (_ & _ & Ht0 & _).
      split; [exact Hb|]. split; [exact Hp|]. split; [exact Ht0|].
      cbn [app take_frames]. rewrite wname_chunk_at. fold o h. apply teq_true in En. rewrite En.
      change (geq ANMF gANMF) with true. cbn iota. rewrite (Hfok ltac:(lia)). exact Htk.
    + rewrite exec_ret in H. injection H as <- <-.
      exists (APeek (hdr_at' o)), []. split; [reflexivity|]. split; [apply linv_peek; exact Hh|]. split; [lia|].
      split; [exact Hb|]. split; [exact Hp|].
      intros stop cs Hs1 _ _ _ _ Ht. rewrite loff_peek in Ht.
      split; [exact Hb|]. split; [exact Hp|]. split; [exact Ht|]. cbn [app].
      destruct (tiles_head o stop cs Ht ltac:(lia)) as (r & ->). cbn [take_frames].
      rewrite wname_chunk_at. change (geq (ch_name (hdr_at' o)) gANMF) with (teq (ch_name (hdr_at' o)) ANMF).
      rewrite En. reflexivity.
  - rewrite exec_ret in H. injection H as <- <-.
    exists (AIdle n'), []. split; [reflexivity|]. split; [split; [apply fits_loff; assumption | exact I]|].
    assert (Hpo : p <= o).
    { destruct a as [n0|h0|h0 e0]; cbn [loff npos] in *; subst o; try lia.
      - destruct Hl as [Hf (H8 & Hlen & _)]. unfold more in Hm.
        assert (fitsb fr (p - 8 + 1) = true) by (apply fitsb_spec; eapply fits_le; [exact Hf | lia]). rewrite H in Hm.
        cbn [andb] in Hm. lia.
      - destruct (e0 <=? p); lia. }
    split; [exact Hpo|]. split; [exact Hb|]. split; [exact Hp|].
   
    intros stop cs Hs1 Hs2 Hs3 _ _ Ht. cbn [loff npos] in Ht.
    split; [exact Hb|]. split; [exact Hp|]. split; [exact Ht|]. cbn [app].
    destruct cs as [|c r]; [reflexivity|]. apply tiles_inv_cons in Ht. destruct Ht as [_ Ht].
    rewrite (more_of_fits fr stop o Hs2 Hs3) in Hm by lia. discriminate.
Qed.


(* ------------------------------------------------------------------ ANIM ANMF+ *)
Definition anim_part (alpha : bool) (cs1 : list wchunk) : option (list wchunk) :=
  match cs1 with
  | a :: r => if geq (w_name a) gANIM && (w_len a =? 6) then
                match r with
                | fr :: _ => if geq (w_name fr) gANMF then take_frames lok allow inp alpha r else None
                | [] => None
                end
              else None
  | [] => None
  end.

Lemma animated_sound fuel x a fr p l' p' : linv' a fr p -> p' <= ilen inp ->
  exec' (sanitize_animated lossless allow fuel x (L a fr p)) p = (Ok l', p') ->
  exists a' pre, l' = L a' fr p' /\ linv' a' fr p' /\ p <= p'
    /\ steps fr a p a' p' pre (fun cs => anim_part (has (x_flags x) F_ALPH) (pre ++ cs) = Some cs).
Proof.
  intros Hl Hend H. unfold sanitize_animated in H.
  apply exec_bind_ok in H. destruct H as ([h0 l1] & q1 & H1 & H).
  apply (read_header_ok inp) in H1; [|exact Hl]. destruct H1 as (Hp & Hb & [Hh1 Hh2] & Hn & E & ->).
  apply pair_equal_spec in E; destruct E as [-> ->]. set (o := loff a p) in *. set (h := hdr_at' o) in *.
  pose proof (loff_ge a fr p Hl) as Hge. fold o in Hge.
  apply exec_bind_ok in H. destruct H as ([b l2] & q2 & H2 & H).
  apply (read_data_ok inp) in H2; [|lia | apply linv_in_hdr; exact Hh1]. fold h in H2.
  set (e := o + 8 + ch_len h) in *.
  destruct H2 as (He6 & Hf6 & Hi6 & E & ->). apply pair_equal_spec in E; destruct E as [-> ->].
  apply exec_bind_ok in H. destruct H as (v & q3 & H3 & H). apply exec_lift_ok in H3. destruct H3 as [_ ->].
  apply exec_bind_ok in H. destruct H as ([pk l3] & q4 & H4 & H).
  assert (Hl2 : linv' (AIn h e) fr (o + 8 + 6)) by (split; [exact Hf6 | exact He6]).
  apply (peek_header_ok inp) in H4; [|exact Hl2]. set (o2 := loff (AIn h e) (o + 8 + 6)) in *.
  destruct H4 as (Hp2 & Hb2 & [(Hh & E & ->) | (Hm & -> & n' & E)]); apply pair_equal_spec in E; destruct E as [-> ->];
    [|rewrite exec_ret in H; discriminate].
  destruct (teq (ch_name (hdr_at' o2)) ANMF) eqn:En; [|rewrite exec_ret in H; discriminate].
  apply frames_sound in H; [|apply linv_peek; exact Hh | exact Hend].
  destruct H as (a' & pre' & -> & Hl' & Hle' & _ & _ & Hst).
  cbn [atb] in Hb2. assert (Ee : e = o + 8 + 6) by lia.
  assert (Ho2 : o + 8 + 6 <= o2).
  { subst o2. cbn [loff npos]. destruct (e <=? o + 8 + 6); lia. }
  exists a', (chunk_at' o :: pre'). split; [reflexivity|]. split; [exact Hl'|]. split; [lia|].
  intros stop cs Hs1 Hs2 Hs3 Hb' Hp' Ht.
  destruct (Hst stop cs Hs1 Hs2 Hs3 Hb' Hp' Ht) as (_ & _ & Ht2 & Htk). rewrite loff_peek in Ht2.
  assert (Hd : done_he inp h e (AIn h e) (o + 8 + 6)) by (left; auto).
  destruct (steps_chunk fr a p (AIn h e) (o + 8 + 6) Hp Hb Hd stop _ ltac:(lia) Hs2 Hs3 Hb2 Hp2 Ht2) as (_ & _ & Ht0 & _).
  split; [exact Hb|]. split; [exact Hp|]. split; [exact Ht0|].
  cbn [app anim_part]. rewrite wname_chunk_at, wlen_chunk_at. fold o h. rewrite Hn.
  change (geq ANIM gANIM) with true. replace (ch_len h =? 6) with true by lia. cbn [andb].
  destruct (tiles_head o2 stop _ Ht2 ltac:(lia)) as (r & Er). rewrite Er.
  rewrite wname_chunk_at. apply teq_true in En. rewrite En. change (geq ANMF gANMF) with true. cbn iota.
  rewrite <- Er. exact Htk.
Qed.

(* ------------------------------------------------------------------ an optional named chunk *)
Lemma opt_named_sound (flag : bool) name a fr p l' p' : linv' a fr p ->
  exec' (if flag then skip_named name (L a fr p) else Ret (Ok (L a fr p))) p = (Ok l', p') ->
  exists a' pre, l' = L a' fr p' /\ linv' a' fr p' /\ p <= p'
    /\ steps fr a p a' p' pre (fun cs => opt_chunk flag name (pre ++ cs) = Some cs).
Proof.
  intros Hl H. destruct flag.
  - apply skip_named_sound in H; [|exact Hl]. destruct H as (a' & -> & Hl' & Hle & Hst & Hn).
    exists a', [chunk_at' (loff a p)]. split; [reflexivity|]. split; [exact Hl'|]. split; [exact Hle|].
    intros stop cs Hs1 Hs2 Hs3 Hb' Hp' Ht. destruct (Hst stop cs Hs1 Hs2 Hs3 Hb' Hp' Ht) as (Hb & Hp & Ht0 & _).
    split; [exact Hb|]. split; [exact Hp|]. split; [exact Ht0|]. cbn [app opt_chunk]. rewrite Hn.
    unfold geq. destruct (list_eq_dec Byte.byte_eq_dec name name); [reflexivity | contradiction].
  - rewrite exec_ret in H. injection H as <- <-. exists a, []. split; [reflexivity|]. split; [exact Hl|]. split; [lia|].
    intros stop cs _ _ _ Hb' Hp' Ht. auto.
Qed.

(* ------------------------------------------------------------------ after VP8X *)
Definition ext_seq (iccp alpha exif xmp anim : bool) (cw ch : N) (cs : list wchunk) : option (list wchunk) :=
  match opt_chunk iccp gICCP cs with None => None | Some cs1 =>
  match (if anim then anim_part alpha cs1 else image_ok lok inp alpha alpha cw ch cs1) with None => None | Some cs2 =>
  match opt_chunk exif gEXIF cs2 with None => None | Some cs3 => opt_chunk xmp gXMP cs3 end end end.

Lemma extended_ok_alt x cs :
  extended_ok lok allow inp x cs =
  (w_len x =? 10) && vp8x_cond inp (w_off x) &&
  let f := le inp (w_off x) 1 in
  match ext_seq (N.testbit f 5) (N.testbit f 4) (N.testbit f 3) (N.testbit f 2) (N.testbit f 1)
                (le inp (w_off x + 4) 3 + 1) (le inp (w_off x + 7) 3 + 1) cs with
  | Some cs4 => tail_ok allow cs4
  | None => false
  end.
Proof.
  unfold extended_ok, vp8x_cond, ext_seq, anim_part. cbv zeta.
  destruct (w_len x =? 10); [|reflexivity].
  destruct (N.land (le inp (w_off x) 1) 193 =? 0); [|reflexivity].
  destruct (le inp (w_off x + 1) 3 =? 0); [|reflexivity].
  destruct ((le inp (w_off x + 4) 3 + 1) * (le inp (w_off x + 7) 3 + 1) <? 2 ^ 32); [|reflexivity].
  cbn [andb].
  destruct (opt_chunk (N.testbit (le inp (w_off x) 1) 5) gICCP cs) as [cs1|]; [|reflexivity].
  match goal with |- match ?X with _ => _ end = match match ?Y with _ => _ end with _ => _ end =>
    change X with Y; destruct Y as [cs2|]; [|reflexivity] end.
  destruct (opt_chunk (N.testbit (le inp (w_off x) 1) 3) gEXIF cs2) as [cs3|]; [|reflexivity].
  destruct (opt_chunk (N.testbit (le inp (w_off x) 1) 2) gXMP cs3) as [cs4|]; reflexivity.
Qed.

Lemma extended_sound fuel x a fr p l' p' : linv' a fr p -> p' <= ilen inp ->
  exec' (sanitize_extended lossless allow fuel x (L a fr p)) p = (Ok l', p') ->
  exists a' pre, l' = L a' fr p' /\ linv' a' fr p' /\ p <= p'
    /\ steps fr a p a' p' pre
         (fun cs => ext_seq (has (x_flags x) F_ICCP) (has (x_flags x) F_ALPH) (has (x_flags x) F_EXIF)
                            (has (x_flags x) F_XMP) (has (x_flags x) F_ANIM) (x_w x) (x_h x) (pre ++ cs) = Some cs).
Proof.
  intros Hl Hend H. unfold sanitize_extended in H.
  apply exec_bind_ok in H. destruct H as (l1 & p1 & H1 & H).
  apply opt_named_sound in H1; [|exact Hl]. destruct H1 as (a1 & pre1 & -> & Hl1 & Hle1 & Hst1).
  apply exec_bind_ok in H. destruct H as (l2 & p2 & H2 & H).
  assert (Hp2' : p2 <= p') by (apply (exec_mono inp lenient ms) in H; exact H).
  assert (K2 : exists a2 pre2, l2 = L a2 fr p2 /\ linv' a2 fr p2 /\ p1 <= p2 /\
     steps fr a1 p1 a2 p2 pre2 (fun cs =>
       (if has (x_flags x) F_ANIM then anim_part (has (x_flags x) F_ALPH) (pre2 ++ cs)
        else image_ok lok inp (has (x_flags x) F_ALPH) (has (x_flags x) F_ALPH) (x_w x) (x_h x) (pre2 ++ cs)) = Some cs)).
  { destruct (has (x_flags x) F_ANIM).
    - apply animated_sound in H2; [exact H2 | exact Hl1 | lia].
    - apply still_sound in H2; [exact H2 | exact Hl1 | lia]. }
  destruct K2 as (a2 & pre2 & -> & Hl2 & Hle2 & Hst2). clear H2.
  apply exec_bind_ok in H. destruct H as (l3 & p3 & H3 & H).
  apply opt_named_sound in H3; [|exact Hl2]. destruct H3 as (a3 & pre3 & -> & Hl3 & Hle3 & Hst3).
  apply opt_named_sound in H; [|exact Hl3]. destruct H as (a4 & pre4 & -> & Hl4 & Hle4 & Hst4).
  exists a4, (pre1 ++ pre2 ++ pre3 ++ pre4). split; [reflexivity|]. split; [exact Hl4|]. split; [lia|].
  intros stop cs Hs1 Hs2 Hs3 Hb' Hp' Ht.
  destruct (Hst4 stop cs Hs1 Hs2 Hs3 Hb' Hp' Ht) as (Hb3 & Hq3 & Ht3 & G4).
  destruct (Hst3 stop _ ltac:(lia) Hs2 Hs3 Hb3 Hq3 Ht3) as (Hb2 & Hq2 & Ht2 & G3).
  destruct (Hst2 stop _ ltac:(lia) Hs2 Hs3 Hb2 Hq2 Ht2) as (Hb1 & Hq1 & Ht1 & G2).
  destruct (Hst1 stop _ ltac:(lia) Hs2 Hs3 Hb1 Hq1 Ht1) as (Hb0 & Hq0 & Ht0 & G1).
  rewrite <- !app_assoc. split; [exact Hb0|]. split; [exact Hq0|]. split; [exact Ht0|].
  unfold ext_seq. change gICCP with ICCP. change gEXIF with EXIF. change gXMP with XMP.
  rewrite G1, G2, G3, G4. reflexivity.
Qed.


(* ------------------------------------------------------------------ the whole file *)
Lemma has_flags_testbit f :
  has f F_ICCP = N.testbit f 5 /\ has f F_ALPH = N.testbit f 4 /\ has f F_EXIF = N.testbit f 3
  /\ has f F_XMP = N.testbit f 2 /\ has f F_ANIM = N.testbit f 1.
Proof.
  change F_ICCP with (2 ^ 5). change F_ALPH with (2 ^ 4). change F_EXIF with (2 ^ 3). change F_XMP with (2 ^ 2).
  change F_ANIM with (2 ^ 1). rewrite !has_testbit. auto.
Qed.

Lemma webp_prog_sound fuel p' :
  exec' (webp_prog lossless allow fuel) 0 = (Ok tt, p') -> webp_spec lok allow inp = true.
Proof.
  intros H. unfold webp_prog in H. cbv zeta in H.
  change (Idle RIFF, @nil cstate) with (L (AIdle RIFF) [] 0) in H.
  assert (Hl0 : linv' (AIdle RIFF) [] 0) by (split; [apply fits_nil | exact I]).
  apply exec_bind_ok in H. destruct H as ([h0 f1] & q1 & H1 & H).
  apply (read_header_ok inp) in H1; [|exact Hl0]. cbn [loff npos] in H1.
  destruct H1 as (_ & _ & [Hh1 Hh2] & Hn & E & ->). apply pair_equal_spec in E; destruct E as [-> ->].
  set (h := hdr_at' 0) in *. set (e := 0 + 8 + ch_len h) in *.
  apply exec_bind_ok in H. destruct H as ([b f2] & q2 & H2 & H).
  apply (read_data_ok inp) in H2; [|lia | apply linv_in_hdr; exact Hh1]. fold h e in H2.
  destruct H2 as (He4 & Hf4 & Hi4 & E & ->). apply pair_equal_spec in E; destruct E as [-> ->].
  apply exec_bind_ok in H. destruct H as (v & q3 & H3 & H). apply exec_lift_ok in H3. destruct H3 as [Hw ->].
  change (chunk_parse CWebp (iread inp (0 + 8) 4) = Ok v) in Hw. rewrite parse_webp_spec in Hw.
  destruct (geq (get inp (0 + 8) 4) gWEBP) eqn:Ewebp; [|discriminate]. clear Hw v.
  destruct (WEBP_MAX_FILE_LEN <? ch_len h + 8) eqn:Emax; [rewrite exec_ret in H; discriminate|].
  rewrite child_L in H. set (fr1 := [(h, e)]) in *.
  assert (Hf1 : fits fr1 (0 + 8 + 4)) by (apply fits_cons; split; [cbn [snd]; lia | apply fits_nil]).
  apply exec_bind_ok in H. destruct H as ([h1 r1] & q4 & H4 & H).
  apply (read_any_header_ok inp) in H4; [|split; [exact Hf1 | exact I]]. cbn [loff npos] in H4.
  destruct H4 as (_ & _ & [Hh3 Hh4] & E & ->). apply pair_equal_spec in E; destruct E as [-> ->].
  set (o1 := 0 + 8 + 4) in *. set (h1 := hdr_at' o1) in *. set (e1 := o1 + 8 + ch_len h1) in *.
  apply exec_bind_ok in H. destruct H as (r2 & q5 & H5 & H).
  apply exec_bind_ok in H. destruct H as (r3 & q6 & H6 & H).
  apply exec_bind_ok in H. destruct H as (f3 & q7 & H7 & H). apply exec_lift_ok in H7. destruct H7 as [Hpar ->].
  apply exec_bind_ok in H. destruct H as ([more' f4] & q8 & H8 & H).
  destruct more'; [rewrite exec_ret in H; discriminate|].
  apply exec_bind_ok in H. destruct H as (pos & q9 & H9 & H). rewrite exec_pos in H9. injection H9 as <- <-.
  apply exec_bind_ok in H. destruct H as (len & q10 & H10 & H). rewrite exec_len in H10. injection H10 as <- <-.
  destruct (ilen inp <? q8) eqn:Elen; rewrite exec_ret in H; [discriminate|]. clear H.
  assert (Hq8 : q8 <= ilen inp) by lia.
  assert (Hq6 : q6 <= q8) by (apply (exec_mono inp lenient ms) in H8; exact H8).
  assert (Hq5 : q5 <= q6) by (apply (exec_mono inp lenient ms) in H6; exact H6).
  (* the first chunk and what follows it, up to the trailing chunks *)
  assert (K : exists a2 pre, r2 = L a2 fr1 q5 /\ linv' a2 fr1 q5 /\
     steps fr1 (AIdle (ch_name h)) o1 a2 q5 pre
       (fun cs => tail_ok allow cs = true -> sequence_ok lok allow inp (pre ++ cs) = true)).
  { pose proof (linv_in_hdr inp o1 fr1 Hh3) as Hl1. fold h1 e1 in Hl1.
    assert (Hsp : padreq' (AIdle (ch_name h)) fr1 o1) by (apply settled_padreq; exact I).
    destruct names_distinct as (N1 & N2 & N3).
    destruct (teq (ch_name h1) VP8) eqn:E1; [|destruct (teq (ch_name h1) VP8L) eqn:E2;
      [|destruct (teq (ch_name h1) VP8X) eqn:E3; [|rewrite exec_ret in H5; discriminate]]].
    - apply (skip_data_ok inp) in H5; [|exact Hl1]. destruct H5 as (a2 & -> & Hl2 & _ & _ & Hd).
      exists a2, [chunk_at' o1]. split; [reflexivity|]. split; [exact Hl2|].
      intros stop cs Hs1 Hs2 Hs3 Hb' Hp' Ht.
      destruct (steps_chunk fr1 (AIdle (ch_name h)) o1 a2 q5 Hsp I Hd stop cs Hs1 Hs2 Hs3 Hb' Hp' Ht) as (_ & _ & Ht0 & _).
      split; [exact I|]. split; [exact Hsp|]. split; [exact Ht0|]. intros Hok.
      cbn [app sequence_ok]. rewrite wname_chunk_at. fold h1. apply teq_true in E1. rewrite E1.
      change (geq VP8 gVP8) with true. exact Hok.
    - apply do_vp8l_sound in H5; [|exact Hl1 | lia]. destruct H5 as (a2 & -> & Hl2 & _ & Hd & Hokv).
      exists a2, [chunk_at' o1]. split; [reflexivity|]. split; [exact Hl2|].
      intros stop cs Hs1 Hs2 Hs3 Hb' Hp' Ht.
      destruct (steps_chunk fr1 (AIdle (ch_name h)) o1 a2 q5 Hsp I Hd stop cs Hs1 Hs2 Hs3 Hb' Hp' Ht) as (_ & _ & Ht0 & _).
      split; [exact I|]. split; [exact Hsp|]. split; [exact Ht0|]. intros Hok.
      cbn [app sequence_ok]. rewrite wname_chunk_at. fold h1. apply teq_true in E2. rewrite E2.
      change (geq VP8L gVP8) with (teq VP8L VP8). rewrite N3. change (geq VP8L gVP8L) with true. cbn iota.
      rewrite Hokv, Hok; [reflexivity | reflexivity | rewrite wlen_chunk_at; fold h1; lia].
    - apply exec_bind_ok in H5. destruct H5 as ([bx rx] & qx & Hx & H5).
      apply (read_data_ok inp) in Hx; [|lia | exact Hl1].
      destruct Hx as (He10 & Hf10 & Hi10 & E & ->). apply pair_equal_spec in E; destruct E as [-> ->].
      apply exec_bind_ok in H5. destruct H5 as (x & qy & Hy & H5). apply exec_lift_ok in Hy. destruct Hy as [Hx ->].
      change (parse_vp8x (iread inp (o1 + 8) 10) = Ok x) in Hx. rewrite parse_vp8x_spec in Hx.
      destruct (vp8x_cond inp (o1 + 8)) eqn:Econd; [|discriminate]. injection Hx as <-.
      apply extended_sound in H5; [|split; [exact Hf10 | exact He10] | lia].
      destruct H5 as (a2 & pre & -> & Hl2 & Hle2 & Hst).
      exists a2, (chunk_at' o1 :: pre). split; [reflexivity|]. split; [exact Hl2|].
      intros stop cs Hs1 Hs2 Hs3 Hb' Hp' Ht.
      destruct (Hst stop cs Hs1 Hs2 Hs3 Hb' Hp' Ht) as (Hbx & Hpx & Htx & G).
      fold h1 in Hbx, Hpx, Htx, He10. fold e1 in Hbx, Hpx, Htx, He10.
      cbn [atb] in Hbx. assert (Ee1 : e1 = o1 + 8 + 10) by lia.
      assert (Hd : done_he inp h1 e1 (AIn h1 e1) (o1 + 8 + 10)) by (left; auto).
      destruct (steps_chunk fr1 (AIdle (ch_name h)) o1 (AIn h1 e1) (o1 + 8 + 10) Hsp I Hd stop _ ltac:(lia) Hs2 Hs3
                  Hbx Hpx Htx) as (_ & _ & Ht0 & _).
      split; [exact I|]. split; [exact Hsp|]. split; [exact Ht0|]. intros Hok.
      cbn [app sequence_ok]. rewrite wname_chunk_at. fold h1. apply teq_true in E3. rewrite E3.
      change (geq VP8X gVP8) with false. change (geq VP8X gVP8L) with false. change (geq VP8X gVP8X) with true. cbn iota.
      rewrite extended_ok_alt. rewrite wlen_chunk_at. fold h1. cbn [w_off chunk_at].
      replace (ch_len h1 =? 10) with true by lia. rewrite Econd. cbn [andb]. cbv zeta.
      destruct (has_flags_testbit (le inp (o1 + 8) 1)) as (T5 & T4 & T3 & T2 & T1).
      rewrite <- T5, <- T4, <- T3, <- T2, <- T1. cbn [x_flags x_w x_h vp8x_at] in G. rewrite G. exact Hok. }
  destruct K as (a2 & pre & -> & Hl2 & Hst).
  apply file_tail_sound in H6; [|exact Hl2 | lia].
  destruct H6 as (n & cst & -> & Hf6 & _ & Hm6 & Hb2 & Hp2 & Ht2 & Hok).
  unfold fr1 in Hpar. rewrite parent_L in Hpar. injection Hpar as <-.
  apply fits_cons in Hf6. destruct Hf6 as [Hq6e _]. cbn [snd] in Hq6e.
  assert (Hl3 : linv' (AIn h e) [] q6) by (split; [apply fits_nil | exact Hq6e]).
  apply (has_remaining_ok inp) in H8; [|exact Hl3]. destruct H8 as (Hp3 & -> & E).
  apply pair_equal_spec in E; destruct E as [Emore _]. cbn [nst npos] in *.
  destruct (e <=? q6) eqn:Ee; [|discriminate]. assert (q6 = e) by lia. subst q6.
  unfold more in Emore. cbn [fitsb forallb andb] in Emore.
  assert (Hilen : ilen inp = e + pad_of h) by lia.
  assert (Hfe : fits fr1 e) by (apply fits_cons; split; [cbn [snd]; lia | apply fits_nil]).
  destruct (Hst e cst ltac:(lia) Hfe ltac:(lia) Hb2 Hp2 Ht2) as (_ & _ & Ht0 & G). cbn [loff npos] in Ht0.
  (* assemble the specification *)
  unfold webp_spec, framing_ok.
  assert (Esize : le inp 4 4 = ch_len h) by (unfold h; rewrite hdr_len; reflexivity).
  rewrite Esize.
  assert (Ename : get inp 0 4 = RIFF) by (rewrite <- Hn; unfold h; rewrite hdr_name; reflexivity).
  rewrite Ename. change (geq RIFF gRIFF) with true.
  change (0 + 8) with 8 in Ewebp. rewrite Ewebp.
  replace (12 <=? ilen inp) with true by lia. replace (4 <=? ch_len h) with true by lia.
  replace (ch_len h + 8 <=? 2 ^ 32 - 2) with true
    by (unfold WEBP_MAX_FILE_LEN in Emax; change (2 ^ 32 - 2) with 4294967294; lia).
  replace (ilen inp =? 8 + ch_len h + (if N.odd (ch_len h) then 1 else 0)) with true
    by (unfold pad_of in Hilen; lia).
  assert (Hpadz : (if N.odd (ch_len h) then le inp (8 + ch_len h) 1 =? 0 else true) = true).
  { destruct (N.odd (ch_len h)) eqn:O; [|reflexivity]. rewrite le1.
    assert (Hz : iget inp e = x00).
    { apply Hp3. cbn [npos]. replace (e <=? e) with true by lia. unfold pad_of. rewrite O. reflexivity. }
    replace (8 + ch_len h) with e by lia. rewrite Hz. reflexivity. }
  rewrite Hpadz. cbn [andb].
  replace (8 + ch_len h) with e by lia. change 12 with o1.
  apply region_chunks_tiles in Ht0. rewrite Ht0. apply G; exact Hok.
Qed.

End S.

Theorem webp_sanitize_sound lossless allow lenient ms inp fuel :
  webp_sanitize lossless allow lenient ms inp fuel = Ok tt ->
  webp_spec (fun w h b => is_ok (lossless w h b)) allow inp = true.
Proof.
  unfold webp_sanitize. intros H.
  destruct (run (cursor inp lenient ms) (webp_prog lossless allow fuel) 0) as [r p'] eqn:E. cbn [fst] in H. subst r.
  exact (webp_prog_sound inp lenient ms lossless allow fuel p' E).
Qed.
