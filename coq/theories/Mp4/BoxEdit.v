(* Serialisation of the lazily parsed box tree AFTER A CALLER EDIT that changes a payload length (C16: "serializing writes
   exactly encoded_len bytes" also then).  Mp4Box::calculated_header keeps the parsed header while the payload length is the
   one it declares and otherwise builds a fresh one (BoxHeader::with_data_size: the 64-bit form only when needed; the
   `.expect` on u64 overflow is a panic); put_buf writes that header, encoded_len counts it, and a parent's payload length is
   the sum of its children's encoded_len - so one edit can change the header form of every ancestor.
   Mp4/Box.v's put_node / BoxLazy.v's node_encoded_len are the special case "no length changed".  Definitions only. *)
From Coq Require Import List NArith Bool.
From Coq.Strings Require Import Byte.
From MS Require Import Base.Bytes Base.Outcome Mp4.Header Mp4.Box Mp4.BoxLazy Mp4.BoxOps.
Import ListNotations.
Open Scope N_scope.

(* Mp4Box::calculated_header *)
Definition calc_header (h : header) (data_len : N) : res header :=
  match box_data_size h with
  | Ok (Some n) => if n =? data_len then Ok h
                   else match with_data_size (htype h) data_len with
                        | Ok h' => Ok h'
                        | _ => Panic 20            (* .expect("parsed box data length cannot overflow a u64") *)
                        end
  | _ => Ok h                                      (* until-end box, or a size below the header length *)
  end.

Fixpoint sum_res (l : list (res N)) : res N :=
  match l with
  | [] => Ok 0
  | a :: r => x <- a ;; y <- sum_res r ;; Ok (x + y)
  end.
Fixpoint cat_res (l : list (res bytes)) : res bytes :=
  match l with
  | [] => Ok []
  | a :: r => x <- a ;; y <- cat_res r ;; Ok (x ++ y)
  end.

(* Mp4Box::encoded_len with the calculated header *)
Fixpoint len_calc (n : node) : res N :=
  match n with
  | Raw h d => h' <- calc_header h (N.of_nat (length d)) ;; Ok (encoded_len h' + N.of_nat (length d))
  | Cont h ks => p <- sum_res (map len_calc ks) ;; h' <- calc_header h p ;; Ok (encoded_len h' + p)
  | Tab h w c e => let p := 4 + (4 + N.of_nat (length e)) in h' <- calc_header h p ;; Ok (encoded_len h' + p)
  end.
Definition lens_calc (ns : list node) : res N := sum_res (map len_calc ns).

(* Mp4Box::put_buf with the calculated header *)
Fixpoint put_calc (n : node) : res bytes :=
  match n with
  | Raw h d => h' <- calc_header h (N.of_nat (length d)) ;; Ok (hdr_put h' ++ d)
  | Cont h ks => p <- cat_res (map put_calc ks) ;;
                 pl <- sum_res (map len_calc ks) ;;          (* the header is computed from encoded_len, not from the bytes *)
                 h' <- calc_header h pl ;; Ok (hdr_put h' ++ p)
  | Tab h w c e => let p := [x00; x00; x00; x00] ++ n2be 4 c ++ e in
                   h' <- calc_header h (4 + (4 + N.of_nat (length e))) ;; Ok (hdr_put h' ++ p)
  end.
Definition puts_calc (ns : list node) : res bytes := cat_res (map put_calc ns).

(* the edit of the correspondence batch: `*stco = (1..=m).collect()` / `*co64 = ...` on a parsed table *)
Fixpoint seq_entries (w : nat) (k : nat) (from : N) : bytes :=
  match k with
  | O => []
  | S k' => n2be w from ++ seq_entries w k' (from + 1)
  end.
Definition set_table (m : nat) (n : node) : res (node * unit) :=
  match n with
  | Tab h w _ _ => Ok (Tab h w (N.of_nat m) (seq_entries (N.to_nat w) m 1), tt)
  | _ => Panic 11
  end.

(* the edit as the harness drives it: traks() up to the i-th trak, co_mut() on it, replace the table by m entries 1..m *)
Definition edit_trak (i m : nat) (kids : list node) : res (list node) :=
  nth_trak i kids (fun tk => trak_co tk (set_table m)).
