(* The partial accessor chains of Mp4/BoxOps.v only perform forcings, so C16_lazy_roundtrip / C16_encoded_len_agrees
   apply to every tree they produce. *)
From Coq Require Import List NArith Bool Lia.
From Coq.Strings Require Import Byte.
From MS Require Import Base.Bytes Base.Outcome Mp4.Header Mp4.Box Mp4.BoxOps Mp4.BoxProofsLazy.
Import ListNotations.
Open Scope N_scope.

Lemma F2_forces_refl ks : Forall2 forces ks ks.
Proof. induction ks; constructor; [apply forces_refl | assumption]. Qed.

Lemma keep_forces ks ks' u : keep ks = Ok (ks', u) -> Forall2 forces ks ks'.
Proof. unfold keep. intros H. injection H as <- _. apply F2_forces_refl. Qed.

Lemma in_child_forces {A} t (f : list node -> res (list node * A)) :
  (forall ks ks' a, f ks = Ok (ks', a) -> Forall2 forces ks ks') ->
  forall ns ns' a, in_child t ns f = Ok (ns', a) -> Forall2 forces ns ns'.
Proof.
  intros Hf ns ns' a H.
  eapply (in_child_rel forces); try eassumption.
  - apply forces_refl. - apply forces_trans. - apply forces_cont. - apply forces_kids.
Qed.

Lemma count_unit_forces n n' u : count_unit n = Ok (n', u) -> forces n n'.
Proof.
  unfold count_unit. destruct (tab_count n) as [[m c]| | | |] eqn:E; cbn [rbind]; try discriminate.
  intros H. injection H as <- _. eapply tab_count_forces. exact E.
Qed.

Lemma chain_prefix_forces k ks ks' u : chain_prefix k ks = Ok (ks', u) -> Forall2 forces ks ks'.
Proof.
  destruct k as [|[|[|[|k]]]]; cbn [chain_prefix]; intros H.
  - eapply keep_forces. exact H.
  - eapply in_child_forces; [|exact H]. intros a b c. apply keep_forces.
  - eapply in_child_forces; [|exact H]. intros a b c Hc.
    eapply in_child_forces; [|exact Hc]. intros a' b' c'. apply keep_forces.
  - eapply in_child_forces; [|exact H]. intros a b c Hc.
    eapply in_child_forces; [|exact Hc]. intros a' b' c' Hc'.
    eapply in_child_forces; [|exact Hc']. intros a'' b'' c''. apply keep_forces.
  - eapply trak_co_forces; [|exact H]. intros n n' a. apply count_unit_forces.
Qed.

Lemma set_kids_forces n' ks' : Forall2 forces (kids_of n') ks' -> forces n' (set_kids n' ks').
Proof.
  destruct n' as [h d|h ks|h w c e]; cbn [kids_of set_kids]; intros H;
    [apply forces_refl | apply forces_kids; exact H | apply forces_refl].
Qed.

Lemma nth_trak_forces f : (forall ks ks' u, f ks = Ok (ks', u) -> Forall2 forces ks ks') ->
  forall kids i kids', nth_trak i kids f = Ok kids' -> Forall2 forces kids kids'.
Proof.
  intros Hf. induction kids as [|k r IH]; intros i kids' H; cbn [nth_trak] in H.
  - injection H as <-. constructor.
  - destruct (node_is t_trak k).
    + destruct (force_cont k) as [k'| | | |] eqn:E; cbn [rbind] in H; try discriminate.
      destruct i as [|i].
      * destruct (f (kids_of k')) as [[tk u]| | | |] eqn:E2; cbn [rbind] in H; try discriminate.
        injection H as <-. constructor; [|apply F2_forces_refl].
        eapply forces_trans; [apply forces_cont; exact E|]. apply set_kids_forces. eapply Hf. exact E2.
      * destruct (nth_trak i r f) as [r'| | | |] eqn:E2; cbn [rbind] in H; try discriminate.
        injection H as <-. constructor; [apply forces_cont; exact E | eapply IH; exact E2].
    + destruct (nth_trak i r f) as [r'| | | |] eqn:E2; cbn [rbind] in H; try discriminate.
      injection H as <-. constructor; [apply forces_refl | eapply IH; exact E2].
Qed.

Lemma F2_forces_trans a b c : Forall2 forces a b -> Forall2 forces b c -> Forall2 forces a c.
Proof.
  intros H. revert c. induction H as [|x y l l' Hxy _ IH]; intros c Hc; inversion Hc; subst; constructor.
  - eapply forces_trans; eassumption.
  - apply IH. assumption.
Qed.

(* every tree the harness-driven call sequences reach is related to the parsed one by forcings *)
Lemma run_ops_forces : forall ops step kids, Forall2 forces kids (fst (run_ops ops step kids)).
Proof.
  induction ops as [|[i k] rest IH]; intros step kids; cbn [run_ops fst]; [apply F2_forces_refl|].
  destruct (nth_trak i kids (chain_prefix k)) as [kids'| | | |] eqn:E; cbn [fst]; try apply F2_forces_refl.
  eapply F2_forces_trans; [|apply IH].
  eapply nth_trak_forces; [|exact E]. intros ks ks' u. apply chain_prefix_forces.
Qed.

Lemma run_ops_roundtrip : forall (p : bytes) (kids : list node) ops,
  parse_moov p = Ok kids ->
  put_nodes (fst (run_ops ops 0 kids)) = p /\
  N.of_nat (length (put_nodes (fst (run_ops ops 0 kids)))) = nodes_encoded_len (fst (run_ops ops 0 kids)).
Proof.
  intros p kids ops H. unfold parse_moov in H.
  destruct (parse_boxes (boxes_fuel p) p) as [ks| | | |] eqn:E; cbn [rbind] in H; try discriminate.
  destruct (existsb (node_is t_trak) ks); [|discriminate]. injection H as <-.
  pose proof (run_ops_forces ops 0%nat ks) as F.
  destruct (lazy_roundtrip _ _ _ _ E F) as [_ R]. destruct (encoded_len_agrees _ _ _ _ E F) as [L _].
  split; assumption.
Qed.
