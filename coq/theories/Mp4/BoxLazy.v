(* Definitions for C16 part (c), no proofs:
   - the model of Mp4Box::encoded_len / Boxes::encoded_len on the lazily parsed tree of Mp4/Box.v;
   - the vocabulary in which "any sequence of successful lazy parses" is stated: the relation [forces]. *)
From Coq Require Import List NArith Bool.
From Coq.Strings Require Import Byte.
From MS Require Import Base.Bytes Base.Outcome Mp4.Header Mp4.Box.
Import ListNotations.
Open Scope N_scope.

(* Mp4Box::encoded_len = header.encoded_len() + data.encoded_len(); BoxData::Bytes: the byte count; parsed
   containers: the sum over the children; parsed tables: FullBoxHeader (4) + count (4) + the entries *)
Fixpoint node_encoded_len (n : node) : N :=
  match n with
  | Raw h d => encoded_len h + N.of_nat (length d)
  | Cont h ks => encoded_len h + fold_right N.add 0 (map node_encoded_len ks)
  | Tab h w c e => encoded_len h + (4 + (4 + N.of_nat (length e)))
  end.
Definition nodes_encoded_len (ns : list node) : N := fold_right N.add 0 (map node_encoded_len ns).

(* every header in the tree has a well-formed type (4-byte name other than `uuid`, or a 16-byte uuid) *)
Fixpoint node_wf (n : node) : bool :=
  type_wf (htype (node_hdr n)) &&
  match n with Cont _ ks => forallb node_wf ks | _ => true end.


(* n' is obtained from n by successful forcings: reflexive-transitive closure of "parse the children of a raw
   container" (BoxData::parse_as for trak/mdia/minf/stbl) and "parse a raw stco/co64 payload", at any depth *)
Inductive forces : node -> node -> Prop :=
  | forces_refl n : forces n n
  | forces_trans a b c : forces a b -> forces b c -> forces a c
  | forces_cont n n' : force_cont n = Ok n' -> forces n n'                (* children parsed *)
  | forces_table w n n' : force_table w n = Ok n' -> forces n n'          (* stco / co64 parsed *)
  | forces_kid h a k k' b : forces k k' -> forces (Cont h (a ++ k :: b)) (Cont h (a ++ k' :: b)).
