(* Closed form of the top-level loop of the MP4 sanitizer (Mp4/San.v) on the ideal cursor:
   - [runo]: runs with the final state dropped on errors; monad-morphism lemmas; the cursor's wrappers;
   - [read_header] on the cursor = [hdr_read] on the 32-byte window = the specification's [shdr_of];
   - [step_pure]: the loop body as a pure function of (input, state, position);
   - on an input tiled by complete boxes the loop is a fold of [box_step] over the tiling (strict and lenient);
   - on an input that is not tiled the sanitizer does not return Ok (strict: the failing skip/read;
     lenient: the end-of-loop check);
   - no [Panic] site of the top level is reachable; a sufficient fuel. *)
From Coq Require Import List NArith ZArith Bool Lia Arith.
From Coq.Strings Require Import Byte.
From MS Require Import Base.Bytes Base.Outcome Base.Prog Gen.Consts Mp4.Header Mp4.Box Mp4.San Mp4.Spec Mp4.HeaderProofs.
Import ListNotations.
Open Scope N_scope.
Arguments N.add : simpl never.
Arguments N.sub : simpl never.
Arguments N.mul : simpl never.
Arguments N.div : simpl never.
Arguments N.modulo : simpl never.
Arguments N.pow : simpl never.
Arguments N.eqb : simpl never.
Arguments N.ltb : simpl never.
Arguments N.leb : simpl never.
Arguments N.min : simpl never.
Arguments N.max : simpl never.

(* ================================================================== runs without the error state *)
Definition runo {A} (R : reader) (p : prog A) (s : rst R) : res (A * rst R) :=
  match run R p s with
  | (Ok a, s') => Ok (a, s')
  | (EParse e, _) => EParse e
  | (EIo e, _) => EIo e
  | (Panic n, _) => Panic n
  | (OutOfFuel, _) => OutOfFuel
  end.

Lemma fst_run {A} R (p : prog A) s : fst (run R p s) = rmap fst (runo R p s).
Proof. unfold runo. destruct (run R p s) as [[a| | | |] s']; reflexivity. Qed.

Lemma runo_ret {A} R (r : res A) s : runo R (Ret r) s = rmap (fun a => (a, s)) r.
Proof. destruct r; reflexivity. Qed.

Lemma runo_lift {A} R (r : res A) s : runo R (lift r) s = rmap (fun a => (a, s)) r.
Proof. apply runo_ret. Qed.

Lemma runo_pbind {A B} R (p : prog A) (f : A -> prog B) s :
  runo R (pbind p f) s = rbind (runo R p s) (fun x => runo R (f (fst x)) (snd x)).
Proof.
  revert s. induction p as [r | o k IH]; intros s.
  - destruct r; reflexivity.
  - cbn [pbind]. unfold runo in *. cbn [run]. destruct (rstep R o s) as [a s']. apply IH.
Qed.

Lemma rbind_rmap {A B C} (r : res A) (g : A -> B) (f : B -> res C) :
  rbind (rmap g r) f = rbind r (fun a => f (g a)).
Proof. destruct r; reflexivity. Qed.

Lemma rmap_rbind {A B C} (r : res A) (f : A -> res B) (g : B -> C) :
  rmap g (rbind r f) = rbind r (fun a => rmap g (f a)).
Proof. destruct r; reflexivity. Qed.

Lemma rbind_assoc {A B C} (r : res A) (f : A -> res B) (g : B -> res C) :
  rbind (rbind r f) g = rbind r (fun a => rbind (f a) g).
Proof. destruct r; reflexivity. Qed.

Lemma rbind_ext {A B} (r : res A) (f g : A -> res B) : (forall a, f a = g a) -> rbind r f = rbind r g.
Proof. intros H. destruct r; cbn; auto. Qed.

Lemma rmap_id {A} (r : res A) : rmap (fun a => a) r = r.
Proof. destruct r; reflexivity. Qed.

(* pbind with a pure computation: the position does not move *)
Lemma runo_pbind_lift {A B} R (r : res A) (f : A -> prog B) s :
  runo R (pbind (lift r) f) s = rbind r (fun a => runo R (f a) s).
Proof. rewrite runo_pbind, runo_lift, rbind_rmap. reflexivity. Qed.

(* ================================================================== inputs *)
Lemma length_iread inp p n : length (iread inp p n) = n.
Proof. revert p; induction n as [|n IH]; intros p; cbn [iread length]; [reflexivity | now rewrite IH]. Qed.

Lemma iread_app inp p a b : iread inp p (a + b) = iread inp p a ++ iread inp (p + N.of_nat a) b.
Proof.
  revert p; induction a as [|a IH]; intros p.
  - cbn [Nat.add iread app]. f_equal. lia.
  - cbn [Nat.add iread app]. rewrite IH. do 3 f_equal. lia.
Qed.

Lemma firstn_iread inp p a k : (a <= k)%nat -> firstn a (iread inp p k) = iread inp p a.
Proof.
  intros H. replace k with (a + (k - a))%nat by lia. rewrite iread_app.
  apply firstn_app_len. apply length_iread.
Qed.

Lemma skipn_iread inp p a k : (a <= k)%nat -> skipn a (iread inp p k) = iread inp (p + N.of_nat a) (k - a).
Proof.
  intros H. replace k with (a + (k - a))%nat at 1 by lia. rewrite iread_app.
  apply skipn_app_len. apply length_iread.
Qed.

Lemma firstn_skipn_iread inp p a b k : (a + b <= k)%nat ->
  firstn b (skipn a (iread inp p k)) = iread inp (p + N.of_nat a) b.
Proof. intros H. rewrite skipn_iread by lia. apply firstn_iread. lia. Qed.

Lemma iread_ext inp p q n : p = q -> iread inp p n = iread inp q n.
Proof. intros ->. reflexivity. Qed.

Lemma length_window inp p : length (window inp p) = N.to_nat (N.min 32 (ilen inp - p)).
Proof. apply length_iread. Qed.

(* ================================================================== the cursor's operations *)
Section Cursor.
Variable inp : input.
Variable lenient : bool.
Variable ms : N.
Let C := cursor inp lenient ms.

Lemma runo_pos p : runo C do_pos p = Ok (p, p).
Proof. reflexivity. Qed.
Lemma runo_len p : runo C do_len p = Ok (ilen inp, p).
Proof. reflexivity. Qed.
Lemma runo_fill_empty p : runo C do_fill_empty p = Ok (ilen inp <=? p, p).
Proof. reflexivity. Qed.
Lemma runo_alloc n p : runo C (do_alloc n) p = Ok (tt, p).
Proof. reflexivity. Qed.

Definition read_p (n p : N) (e : perr) : res (bytes * N) :=
  if (n =? 0) || (p + n <=? ilen inp) then Ok (iread inp p (N.to_nat n), p + n) else EParse e.

Lemma runo_read_exact n e p : runo C (do_read_exact n (Some e)) p = read_p n p e.
Proof.
  unfold runo, do_read_exact, read_p. cbn [run C cursor rstep cursor_step].
  destruct ((n =? 0) || (p + n <=? ilen inp)); reflexivity.
Qed.

(* read_exact of an empty buffer never fails, wherever the cursor stands; the sanitizer only reads non-empty
   headers, and payloads at positions inside the input, where this makes no difference *)
Lemma read_p_nz n p e : n <> 0 ->
  read_p n p e = if p + n <=? ilen inp then Ok (iread inp p (N.to_nat n), p + n) else EParse e.
Proof. intros H. unfold read_p. destruct (N.eqb_spec n 0); [contradiction | reflexivity]. Qed.

Lemma read_p_in n p e : p <= ilen inp ->
  read_p n p e = if p + n <=? ilen inp then Ok (iread inp p (N.to_nat n), p + n) else EParse e.
Proof.
  intros H. unfold read_p. destruct (N.eqb_spec n 0) as [->|]; [|reflexivity]. cbn [orb].
  destruct (N.leb_spec (p + 0) (ilen inp)); [reflexivity | lia].
Qed.

Definition skip_p (n p : N) (e : perr) : res N :=
  if lenient then
    if p + n <=? ms then Ok (p + n)
    else if (I64MAX' <? n) && (U64MAX' <? p + n) then EIo EInvalidData else EIo EInvalidInput
  else if p + n <=? ilen inp then Ok (p + n) else EParse e.

Lemma runo_skip n e p : runo C (do_skip n (Some e)) p = rmap (fun q => (tt, q)) (skip_p n p e).
Proof.
  unfold runo, do_skip, skip_p. cbn [run C cursor rstep cursor_step].
  destruct lenient.
  - destruct (p + n <=? ms); [reflexivity|]. destruct ((I64MAX' <? n) && (U64MAX' <? p + n)); reflexivity.
  - destruct (p + n <=? ilen inp); reflexivity.
Qed.

(* ---------------------------------------------------------------- read_header = hdr_read on the window *)
Definition hdr_at (p : N) : res (header * N) :=
  match hdr_read (window inp p) with
  | None => EParse TruncatedBox
  | Some (h, _) => Ok (h, p + encoded_len h)
  end.

Lemma window_piece p a b : N.of_nat (a + b) <= N.min 32 (ilen inp - p) ->
  firstn b (skipn a (window inp p)) = iread inp (p + N.of_nat a) b.
Proof. intros H. unfold window. apply firstn_skipn_iread. lia. Qed.

Lemma ltb_skipn_window p a k : (a + k <= 32)%nat -> (0 < k)%nat ->
  Nat.ltb (length (skipn a (window inp p))) k = negb (p + N.of_nat (a + k) <=? ilen inp).
Proof.
  intros Hk Hk0. rewrite skipn_length, length_window.
  destruct (Nat.ltb_spec (N.to_nat (N.min 32 (ilen inp - p)) - a) k);
  destruct (N.leb_spec (p + N.of_nat (a + k)) (ilen inp)); cbn [negb]; try reflexivity; exfalso; lia.
Qed.

Lemma read_header_run p : runo C read_header p = hdr_at p.
Proof.
  unfold read_header, hdr_at, hdr_read.
  rewrite runo_pbind, runo_read_exact. rewrite read_p_nz by discriminate.
  rewrite <- (skipn_O (window inp p)) at 1. rewrite ltb_skipn_window by lia.
  destruct (N.leb_spec (p + 4) (ilen inp)) as [H4|H4]; cbn [rbind fst snd].
  2:{ replace (p + N.of_nat (0 + 8) <=? ilen inp) with false by (symmetry; apply N.leb_gt; lia). reflexivity. }
  rewrite runo_pbind, runo_read_exact. rewrite read_p_nz by discriminate.
  replace (p + 4 + 4) with (p + 8) by lia. change (N.of_nat (0 + 8)) with 8.
  destruct (N.leb_spec (p + 8) (ilen inp)) as [H8|H8]; cbn [rbind fst snd negb]; [|reflexivity].
  change (firstn 4 (window inp p)) with (firstn 4 (skipn 0 (window inp p))).
  rewrite (window_piece p 0 4) by (cbn; lia). rewrite (window_piece p 4 4) by (cbn; lia).
  replace (p + N.of_nat 0) with p by lia. change (N.of_nat 4) with 4. change (N.to_nat 4) with 4%nat.
  set (sz := be2n (iread inp p 4)). set (name := iread inp (p + 4) 4).
  rewrite runo_pbind.
  (* the type part, for a size read up to offset a (a = 8 or 16) *)
  assert (Htype : forall size a, (a = 8 \/ a = 16)%nat -> p + N.of_nat a <= ilen inp ->
            (match size with Ext _ => a = 16%nat | _ => a = 8%nat end) ->
    runo C (if bytes_eqb name UUID4
            then pbind (do_read_exact 16 (Some TruncatedBox)) (fun u => Ret (Ok {| htype := Uuid u; hsize := size |}))
            else Ret (Ok {| htype := FourCC name; hsize := size |})) (p + N.of_nat a)
    = match (if bytes_eqb name UUID4
             then (if Nat.ltb (length (skipn a (window inp p))) 16 then None
                   else Some ({| htype := Uuid (firstn 16 (skipn a (window inp p))); hsize := size |},
                              skipn 16 (skipn a (window inp p))))
             else Some ({| htype := FourCC name; hsize := size |}, skipn a (window inp p))) with
      | None => EParse TruncatedBox
      | Some (h, _) => Ok (h, p + encoded_len h)
      end).
  { intros size a Ha Hle Hsz. destruct (bytes_eqb name UUID4).
    - rewrite runo_pbind, runo_read_exact. rewrite read_p_nz by discriminate.
      rewrite ltb_skipn_window by lia.
      replace (p + N.of_nat a + 16) with (p + N.of_nat (a + 16)) by lia.
      destruct (N.leb_spec (p + N.of_nat (a + 16)) (ilen inp)) as [Hu|Hu]; cbn [rbind fst snd negb]; [|reflexivity].
      rewrite (window_piece p a 16) by lia. change (N.to_nat 16) with 16%nat.
      rewrite runo_ret. cbn [rmap rbind]. do 2 f_equal. unfold encoded_len. cbn [htype hsize].
      destruct size; lia.
    - rewrite runo_ret. cbn [rmap rbind]. do 2 f_equal. unfold encoded_len. cbn [htype hsize].
      destruct size; lia. }
  destruct (sz =? 0).
  - rewrite runo_ret. cbn [rmap rbind fst snd].
    apply (Htype UntilEof 8%nat); [lia | cbn; lia | reflexivity].
  - destruct (sz =? 1).
    + rewrite runo_pbind, runo_read_exact. rewrite read_p_nz by discriminate.
      rewrite ltb_skipn_window by lia.
      replace (p + 8 + 8) with (p + N.of_nat (8 + 8)) by lia.
      destruct (N.leb_spec (p + N.of_nat (8 + 8)) (ilen inp)) as [He|He]; cbn [rbind fst snd negb]; [|reflexivity].
      rewrite runo_ret. cbn [rmap rbind fst snd].
      rewrite (window_piece p 8 8) by lia. rewrite skipn_add. change (N.to_nat 8) with 8%nat.
      change (N.of_nat 8) with 8.
      apply (Htype (Ext (be2n (iread inp (p + 8) 8))) 16%nat); [lia | exact He | reflexivity].
    + rewrite runo_ret. cbn [rmap rbind fst snd].
      apply (Htype (Size sz) 8%nat); [lia | cbn; lia | reflexivity].
Qed.

End Cursor.
(* ================================================================== Header.hdr_read = Spec.shdr_of *)
Definition sh_type_of (t : box_type) : bytes := match t with FourCC n => n | Uuid u => UUID ++ u end.
Definition sh_of_hdr (h : header) : shdr :=
  {| sh_type := sh_type_of (htype h); sh_size := box_size_of h; sh_len := encoded_len h |}.

Lemma blen_ltb (l : bytes) k : (blen l <? N.of_nat k) = Nat.ltb (length l) k.
Proof.
  unfold blen. destruct (N.ltb_spec (N.of_nat (length l)) (N.of_nat k)); destruct (Nat.ltb_spec (length l) k);
    try reflexivity; exfalso; lia.
Qed.

Lemma shdr_of_hdr_read l :
  shdr_of l = match hdr_read l with Some (h, _) => Some (sh_of_hdr h) | None => None end.
Proof.
  unfold shdr_of, hdr_read, slice.
  change 8 with (N.of_nat 8) at 1. rewrite blen_ltb.
  destruct (Nat.ltb (length l) 8) eqn:E8; [reflexivity|]. apply Nat.ltb_ge in E8.
  change (N.to_nat 0) with 0%nat. change (N.to_nat 4) with 4%nat. change (N.to_nat 8) with 8%nat.
  change (N.to_nat 16) with 16%nat. change (skipn 0 l) with l.
  set (sz := be2n (firstn 4 l)). set (name := firstn 4 (skipn 4 l)).
  change (beq name UUID) with (bytes_eqb name UUID4).
  assert (Htype : forall size a after, after = N.of_nat a -> (a <= length l)%nat ->
     after = (match size with Ext _ => 16 | _ => 8 end) ->
     (if bytes_eqb name UUID4
      then if blen l <? after + 16 then None
           else Some {| sh_type := name ++ firstn 16 (skipn a l);
                        sh_size := match size with UntilEof => None | Size n => Some n | Ext n => Some n end;
                        sh_len := after + 16 |}
      else Some {| sh_type := name;
                   sh_size := match size with UntilEof => None | Size n => Some n | Ext n => Some n end;
                   sh_len := after |})
     = match (if bytes_eqb name UUID4
              then (if Nat.ltb (length (skipn a l)) 16 then None
                    else Some ({| htype := Uuid (firstn 16 (skipn a l)); hsize := size |}, skipn 16 (skipn a l)))
              else Some ({| htype := FourCC name; hsize := size |}, skipn a l)) with
       | Some (h, _) => Some (sh_of_hdr h)
       | None => None
       end).
  { intros size a after Ha Hal Hafter. destruct (bytes_eqb name UUID4) eqn:Eu.
    - replace (blen l <? after + 16) with (Nat.ltb (length (skipn a l)) 16).
      2:{ rewrite skipn_length. subst after. unfold blen.
          destruct (Nat.ltb_spec (length l - a) 16); destruct (N.ltb_spec (N.of_nat (length l)) (N.of_nat a + 16));
            try reflexivity; exfalso; lia. }
      destruct (Nat.ltb (length (skipn a l)) 16); [reflexivity|].
      apply bytes_eqb_eq in Eu. rewrite Eu. f_equal. unfold sh_of_hdr, box_size_of, encoded_len. cbn [htype hsize sh_type_of].
      f_equal. rewrite Hafter. destruct size; reflexivity.
    - f_equal. unfold sh_of_hdr, box_size_of, encoded_len. cbn [htype hsize sh_type_of].
      f_equal. rewrite Hafter. destruct size; reflexivity. }
  destruct (N.eqb_spec sz 0) as [E0|E0].
  - rewrite E0. change (0 =? 1) with false. cbv iota.
    change (N.of_nat 8) with 8. rewrite (proj2 (N.ltb_ge _ _)) by (unfold blen; lia).
    apply (Htype UntilEof 8%nat 8); [reflexivity | exact E8 | reflexivity].
  - destruct (N.eqb_spec sz 1) as [E1|E1].
    + change 16 with (N.of_nat 16) at 1. rewrite blen_ltb.
      replace (Nat.ltb (length (skipn 8 l)) 8) with (Nat.ltb (length l) 16).
      2:{ rewrite skipn_length. destruct (Nat.ltb_spec (length l) 16); destruct (Nat.ltb_spec (length l - 8) 8);
            try reflexivity; exfalso; lia. }
      destruct (Nat.ltb (length l) 16) eqn:E16; [reflexivity|]. apply Nat.ltb_ge in E16.
      rewrite skipn_add. cbn [Nat.add].
      apply (Htype (Ext (be2n (firstn 8 (skipn 8 l)))) 16%nat 16); [reflexivity | exact E16 | reflexivity].
    + change (N.of_nat 8) with 8. rewrite (proj2 (N.ltb_ge _ _)) by (unfold blen; lia).
      apply (Htype (Size sz) 8%nat 8); [reflexivity | exact E8 | reflexivity].
Qed.

(* ================================================================== the loop body as a pure function *)
Section Step.
Variable inp : input.
Variable lenient : bool.
Variable ms : N.
Let C := cursor inp lenient ms.

Definition data_size_p (h : header) (q : N) : res N :=
  ods <- box_data_size h ;;
  match ods with
  | Some n => Ok n
  | None => if ilen inp <? q then Panic 2 else Ok (ilen inp - q)
  end.

Lemma runo_data_size h q : runo C (data_size h) q = rmap (fun n => (n, q)) (data_size_p h q).
Proof.
  unfold data_size, data_size_p. rewrite runo_pbind_lift.
  destruct (box_data_size h) as [[n|]| | | |]; cbn [rbind rmap]; try reflexivity.
  rewrite runo_pbind. unfold C. rewrite runo_len. cbn [rbind fst snd].
  rewrite runo_pbind, runo_pos. cbn [rbind fst snd].
  destruct (ilen inp <? q); reflexivity.
Qed.

Definition skip_box_p (h : header) (q : N) : res (N * N) :=
  n <- data_size_p h q ;; q' <- skip_p inp lenient ms n q TruncatedBox ;; Ok (n, q').

Lemma runo_skip_box h q : runo C (skip_box h) q = skip_box_p h q.
Proof.
  unfold skip_box, skip_box_p. rewrite runo_pbind, runo_data_size, rbind_rmap. cbn [fst snd].
  apply rbind_ext. intros n. rewrite runo_pbind. unfold C. rewrite runo_skip, rbind_rmap. cbn [fst snd].
  apply rbind_ext. intros q'. reflexivity.
Qed.

Definition read_data_p (h : header) (max q : N) : res (bytes * N) :=
  n <- data_size_p h q ;;
  if max <? n then EParse InvalidInput else read_p inp n q TruncatedBox.

Lemma runo_read_data h max q : runo C (read_data h max) q = read_data_p h max q.
Proof.
  unfold read_data, read_data_p. rewrite runo_pbind, runo_data_size, rbind_rmap. cbn [fst snd].
  apply rbind_ext. intros n. destruct (max <? n); [reflexivity|].
  rewrite runo_pbind. unfold C. rewrite runo_alloc. cbn [rbind fst snd]. apply runo_read_exact.
Qed.

Definition filler_p (s : st) (start : N) (h : header) (q : N) : res (st * N) :=
  x <- skip_box_p h q ;;
  bs <- add_u64 3 (fst x) (encoded_len h) ;;
  d <- extend_if_adjacent (st_data s) start bs ;;
  Ok ({| st_ftyp := st_ftyp s; st_moov := st_moov s; st_data := d |}, snd x).

Lemma runo_filler s start h q :
  runo C (n <~ skip_box h ;;
          bs <~ lift (add_u64 3 n (encoded_len h)) ;;
          d <~ lift (extend_if_adjacent (st_data s) start bs) ;;
          Ret (Ok {| st_ftyp := st_ftyp s; st_moov := st_moov s; st_data := d |})) q
  = filler_p s start h q.
Proof.
  unfold filler_p. rewrite runo_pbind, runo_skip_box. apply rbind_ext. intros [n q']. cbn [fst snd].
  rewrite runo_pbind_lift. apply rbind_ext. intros bs.
  rewrite runo_pbind_lift. apply rbind_ext. intros d. reflexivity.
Qed.

Definition mdat_hdr (cfg : config) (h : header) : res header :=
  match box_data_size h, cumulative_mdat_box_size cfg with
  | Ok None, Some t => overwrite_size h t
  | _, _ => Ok h
  end.

Definition step_pure (cfg : config) (s : st) (p : N) : res (st * N) :=
  hq <- hdr_at inp p ;;
  let h := fst hq in let q := snd hq in
  if is_type h t_free || is_type h t_skip then filler_p s p h q
  else if is_type h t_ftyp then
    match st_ftyp s with
    | Some _ => EParse InvalidBoxLayout
    | None =>
        x <- read_data_p h MAX_FTYP_SIZE q ;;
        mb <- parse_ftyp (fst x) ;;
        if existsb (bytes_eqb COMPATIBLE_BRAND) (snd mb)
        then Ok ({| st_ftyp := Some (fst x); st_moov := st_moov s; st_data := st_data s |}, snd x)
        else EParse (UnsupportedFormat (fst mb))
    end
  else match st_ftyp s with
  | None => EParse InvalidBoxLayout
  | Some _ =>
    if is_type h t_mdat then
      h' <- mdat_hdr cfg h ;;
      x <- skip_box_p h' q ;;
      bs <- add_u64 3 (fst x) (encoded_len h') ;;
      match st_data s with
      | Some sp =>
          e <- add_u64 4 (s_off sp) (s_len sp) ;;
          if e =? p then
            l <- add_u64 5 (s_len sp) bs ;;
            Ok ({| st_ftyp := st_ftyp s; st_moov := st_moov s; st_data := Some {| s_off := s_off sp; s_len := l |} |}, snd x)
          else EParse UnsupportedBoxLayout
      | None => Ok ({| st_ftyp := st_ftyp s; st_moov := st_moov s; st_data := Some {| s_off := p; s_len := bs |} |}, snd x)
      end
    else if is_type h t_moov then
      x <- read_data_p h (max_metadata_size cfg) q ;;
      kids <- moov_check (fst x) ;;
      Ok ({| st_ftyp := st_ftyp s; st_moov := Some (kids, p); st_data := st_data s |}, snd x)
    else if is_type h t_meta || is_type h t_meco then filler_p s p h q
    else
      x <- skip_box_p h q ;;
      _ <- add_u64 3 (fst x) (encoded_len h) ;;
      EParse (UnsupportedBox (match htype h with FourCC t => t | Uuid u => u end))
  end.

Lemma step_run cfg s p : runo C (step cfg s) p = step_pure cfg s p.
Proof.
  unfold step, step_pure. rewrite runo_pbind. unfold C. rewrite runo_pos. cbn [rbind fst snd].
  rewrite runo_pbind, read_header_run. apply rbind_ext. intros [h q]. cbn [fst snd]. fold C.
  destruct (is_type h t_free || is_type h t_skip); [apply runo_filler|].
  destruct (is_type h t_ftyp).
  { destruct (st_ftyp s); [reflexivity|].
    rewrite runo_pbind, runo_read_data. apply rbind_ext. intros [payload q']. cbn [fst snd].
    rewrite runo_pbind_lift. apply rbind_ext. intros [major brands]. cbn [fst snd].
    destruct (existsb (bytes_eqb COMPATIBLE_BRAND) brands); reflexivity. }
  destruct (st_ftyp s) eqn:Ef; [|reflexivity]. rewrite <- Ef.
  destruct (is_type h t_mdat).
  { fold (mdat_hdr cfg h). rewrite runo_pbind_lift. apply rbind_ext. intros h'.
    rewrite runo_pbind, runo_skip_box. apply rbind_ext. intros [n q']. cbn [fst snd].
    rewrite runo_pbind_lift. apply rbind_ext. intros bs.
    destruct (st_data s) as [sp|]; [|reflexivity].
    rewrite runo_pbind_lift. apply rbind_ext. intros e.
    destruct (e =? p); [|reflexivity].
    rewrite runo_pbind_lift. apply rbind_ext. intros l. reflexivity. }
  destruct (is_type h t_moov).
  { rewrite runo_pbind, runo_read_data. apply rbind_ext. intros [payload q']. cbn [fst snd].
    rewrite runo_pbind_lift. apply rbind_ext. intros kids. reflexivity. }
  destruct (is_type h t_meta || is_type h t_meco); [apply runo_filler|].
  rewrite runo_pbind, runo_skip_box. apply rbind_ext. intros [n q']. cbn [fst snd].
  rewrite runo_pbind_lift. apply rbind_ext. intros bs. reflexivity.
Qed.

(* the loop, the end check and the whole sanitizer in terms of step_pure *)
Fixpoint loop_pure (fuel : nat) (cfg : config) (s : st) (p : N) : res (st * N) :=
  match fuel with
  | O => OutOfFuel
  | S fuel' =>
      if ilen inp <=? p then Ok (s, p)
      else x <- step_pure cfg s p ;; loop_pure fuel' cfg (fst x) (snd x)
  end.

Lemma loop_run fuel cfg s p : runo C (loop fuel cfg s) p = loop_pure fuel cfg s p.
Proof.
  revert s p. induction fuel as [|fuel IH]; intros s p; [reflexivity|].
  cbn [loop loop_pure]. rewrite runo_pbind. unfold C. rewrite runo_fill_empty. cbn [rbind fst snd]. fold C.
  destruct (ilen inp <=? p); [reflexivity|].
  rewrite runo_pbind, step_run. apply rbind_ext. intros [s' q]. apply IH.
Qed.

Definition check_end_p (p : N) : res unit := if ilen inp <? p then EParse TruncatedBox else Ok tt.

Lemma check_end_run p : runo C check_end p = rmap (fun u => (u, p)) (check_end_p p).
Proof.
  unfold check_end, check_end_p. rewrite runo_pbind. unfold C. rewrite runo_pos. cbn [rbind fst snd].
  rewrite runo_pbind, runo_len. cbn [rbind fst snd]. destruct (ilen inp <? p); reflexivity.
Qed.

End Step.

(* ================================================================== tiling: one box at a time *)
Definition resolve (cum : option N) (inp : input) (off : N) (h : shdr) : N :=
  match sh_size h with
  | Some s => s
  | None => match cum with
            | Some c => if beq (sh_type h) MDAT then c else ilen inp - off
            | None => ilen inp - off
            end
  end.

(* the box whose header stands at [off]: header readable, declared size not smaller than the header *)
Definition next_box (cum : option N) (inp : input) (off : N) : option tbox :=
  match shdr_of (window inp off) with
  | None => None
  | Some h =>
      let size := resolve cum inp off h in
      if size <? sh_len h then None
      else Some {| tb_off := off; tb_type := sh_type h; tb_hlen := sh_len h; tb_size := size |}
  end.

Lemma tile_S fuel cum inp off :
  tile (S fuel) cum inp off =
  if ilen inp <=? off then (if off =? ilen inp then Some [] else None) else
  match next_box cum inp off with
  | None => None
  | Some b =>
      if ilen inp <? tb_end b then None
      else match tile fuel cum inp (tb_end b) with None => None | Some r => Some (b :: r) end
  end.
Proof.
  cbn [tile]. unfold next_box, resolve. destruct (ilen inp <=? off); [reflexivity|].
  destruct (shdr_of (window inp off)) as [h|]; [|reflexivity].
  match goal with |- context [if ?c <? sh_len h then _ else _] => destruct (c <? sh_len h) end; reflexivity.
Qed.

Lemma shdr_len_ge8 l h : shdr_of l = Some h -> 8 <= sh_len h.
Proof.
  unfold shdr_of. destruct (blen l <? 8); [discriminate|].
  destruct (blen l <? _); [discriminate|].
  destruct (beq _ UUID).
  - destruct (blen l <? _); [discriminate|]. intros H. injection H as <-. cbn [sh_len].
    destruct (be2n (slice l 0 4) =? 1); lia.
  - intros H. injection H as <-. cbn [sh_len]. destruct (be2n (slice l 0 4) =? 1); lia.
Qed.

Lemma next_box_facts cum inp off b : next_box cum inp off = Some b ->
  tb_off b = off /\ 8 <= tb_hlen b /\ tb_hlen b <= tb_size b.
Proof.
  unfold next_box. destruct (shdr_of (window inp off)) as [h|] eqn:E; [|discriminate].
  destruct (N.ltb_spec (resolve cum inp off h) (sh_len h)); [discriminate|].
  intros H0. injection H0 as <-. cbn [tb_off tb_hlen tb_size]. apply shdr_len_ge8 in E. lia.
Qed.

(* tiling does not depend on the fuel once there is enough of it: every box has at least 8 bytes *)
Lemma tile_fuel cum inp : forall f f' off,
  (ilen inp - off) / 8 < N.of_nat f -> (ilen inp - off) / 8 < N.of_nat f' ->
  tile f cum inp off = tile f' cum inp off.
Proof.
  induction f as [|f IH]; intros f' off H H'; [exfalso; exact (N.nlt_0_r _ H)|].
  destruct f' as [|f']; [exfalso; exact (N.nlt_0_r _ H')|].
  rewrite !tile_S. destruct (N.leb_spec (ilen inp) off) as [Hl|Hl]; [reflexivity|].
  destruct (next_box cum inp off) as [b|] eqn:Eb; [|reflexivity].
  destruct (next_box_facts _ _ _ _ Eb) as (Ho & H8 & Hs).
  destruct (N.ltb_spec (ilen inp) (tb_end b)) as [He|He]; [reflexivity|].
  unfold tb_end in *. rewrite Ho in *.
  assert (D : (ilen inp - (off + tb_size b)) / 8 + 1 <= (ilen inp - off) / 8).
  { replace (ilen inp - off) with ((ilen inp - (off + tb_size b)) + (tb_size b - 8) + 1 * 8) by lia.
    rewrite N.div_add by lia.
    pose proof (N.div_le_mono (ilen inp - (off + tb_size b)) (ilen inp - (off + tb_size b) + (tb_size b - 8)) 8).
    lia. }
  rewrite (IH f' (off + tb_size b)) by lia. reflexivity.
Qed.

Definition tile_all (cum : option N) (inp : input) (off : N) : option (list tbox) :=
  tile (S (N.to_nat ((ilen inp - off) / 8))) cum inp off.

Lemma tile_all_eq cum inp off f : (ilen inp - off) / 8 < N.of_nat f -> tile f cum inp off = tile_all cum inp off.
Proof. intros H. apply tile_fuel; [exact H | lia]. Qed.

Lemma tiling_tile_all cum inp : tiling cum inp = tile_all cum inp 0.
Proof. unfold tiling, tile_all. rewrite N.sub_0_r. reflexivity. Qed.

Lemma tile_all_unfold cum inp off :
  tile_all cum inp off =
  if ilen inp <=? off then (if off =? ilen inp then Some [] else None) else
  match next_box cum inp off with
  | None => None
  | Some b =>
      if ilen inp <? tb_end b then None
      else match tile_all cum inp (tb_end b) with None => None | Some r => Some (b :: r) end
  end.
Proof.
  unfold tile_all at 1. rewrite tile_S.
  destruct (N.leb_spec (ilen inp) off) as [Hl|Hl]; [reflexivity|].
  destruct (next_box cum inp off) as [b|] eqn:Eb; [|reflexivity].
  destruct (next_box_facts _ _ _ _ Eb) as (Ho & H8 & Hs).
  destruct (N.ltb_spec (ilen inp) (tb_end b)) as [He|He]; [reflexivity|].
  rewrite (tile_all_eq cum inp (tb_end b)); [reflexivity|].
  unfold tb_end in *. rewrite Ho in *.
  replace (ilen inp - off) with ((ilen inp - (off + tb_size b)) + (tb_size b - 8) + 1 * 8) by lia.
  rewrite N.div_add by lia.
  pose proof (N.div_le_mono (ilen inp - (off + tb_size b)) (ilen inp - (off + tb_size b) + (tb_size b - 8)) 8).
  lia.
Qed.

(* a successful tiling does not depend on the fuel at all *)
Lemma tile_some_mono cum inp : forall f f' off bs, tile f cum inp off = Some bs -> (f <= f')%nat -> tile f' cum inp off = Some bs.
Proof.
  induction f as [|f IH]; intros f' off bs H Hf.
  - cbn [tile] in H. destruct f'; cbn [tile]; destruct (ilen inp <=? off); try exact H; discriminate.
  - destruct f' as [|f']; [lia|]. rewrite tile_S in *.
    destruct (ilen inp <=? off); [exact H|].
    destruct (next_box cum inp off) as [b|]; [|discriminate].
    destruct (ilen inp <? tb_end b); [discriminate|].
    destruct (tile f cum inp (tb_end b)) as [r|] eqn:Er; [|discriminate].
    rewrite (IH f' _ _ Er) by lia. exact H.
Qed.

(* ================================================================== the per-box transition *)
Definition extend (d : option span) (start size : N) : option span :=
  match d with
  | None => None
  | Some sp => if s_off sp + s_len sp =? start then Some {| s_off := s_off sp; s_len := s_len sp + size |} else d
  end.
Definition set_data (s : st) (d : option span) : st :=
  {| st_ftyp := st_ftyp s; st_moov := st_moov s; st_data := d |}.
Definition unsup_name (ty : bytes) : bytes := if Nat.eqb (length ty) 4 then ty else skipn 4 ty.

(* [skipr], [readr]: what skipping / reading the payload of the box answers (the new position) *)
Definition box_step_io (cfg : config) (inp : input) (s : st) (b : tbox) (skipr readr : res N) : res (st * N) :=
  let n := tb_size b - tb_hlen b in
  if is FREE b || is SKIP b then
    q <- skipr ;; Ok (set_data s (extend (st_data s) (tb_off b) (tb_size b)), q)
  else if is FTYP b then
    match st_ftyp s with
    | Some _ => EParse InvalidBoxLayout
    | None =>
        if MAX_FTYP_SIZE <? n then EParse InvalidInput else
        q <- readr ;;
        mb <- parse_ftyp (tb_payload inp b) ;;
        if existsb (bytes_eqb COMPATIBLE_BRAND) (snd mb)
        then Ok ({| st_ftyp := Some (tb_payload inp b); st_moov := st_moov s; st_data := st_data s |}, q)
        else EParse (UnsupportedFormat (fst mb))
    end
  else match st_ftyp s with
  | None => EParse InvalidBoxLayout
  | Some _ =>
    if is MDAT b then
      q <- skipr ;;
      match st_data s with
      | Some sp =>
          if s_off sp + s_len sp =? tb_off b
          then Ok (set_data s (Some {| s_off := s_off sp; s_len := s_len sp + tb_size b |}), q)
          else EParse UnsupportedBoxLayout
      | None => Ok (set_data s (Some {| s_off := tb_off b; s_len := tb_size b |}), q)
      end
    else if is MOOV b then
      if max_metadata_size cfg <? n then EParse InvalidInput else
      q <- readr ;;
      kids <- moov_check (tb_payload inp b) ;;
      Ok ({| st_ftyp := st_ftyp s; st_moov := Some (kids, tb_off b); st_data := st_data s |}, q)
    else if is META b || is MECO b then
      q <- skipr ;; Ok (set_data s (extend (st_data s) (tb_off b) (tb_size b)), q)
    else
      _ <- skipr ;; EParse (UnsupportedBox (unsup_name (tb_type b)))
  end.

(* the transition for a complete box *)
Definition box_step (cfg : config) (inp : input) (s : st) (b : tbox) : res st :=
  let n := tb_size b - tb_hlen b in
  if is FREE b || is SKIP b then Ok (set_data s (extend (st_data s) (tb_off b) (tb_size b)))
  else if is FTYP b then
    match st_ftyp s with
    | Some _ => EParse InvalidBoxLayout
    | None =>
        if MAX_FTYP_SIZE <? n then EParse InvalidInput else
        mb <- parse_ftyp (tb_payload inp b) ;;
        if existsb (bytes_eqb COMPATIBLE_BRAND) (snd mb)
        then Ok {| st_ftyp := Some (tb_payload inp b); st_moov := st_moov s; st_data := st_data s |}
        else EParse (UnsupportedFormat (fst mb))
    end
  else match st_ftyp s with
  | None => EParse InvalidBoxLayout
  | Some _ =>
    if is MDAT b then
      match st_data s with
      | Some sp =>
          if s_off sp + s_len sp =? tb_off b
          then Ok (set_data s (Some {| s_off := s_off sp; s_len := s_len sp + tb_size b |}))
          else EParse UnsupportedBoxLayout
      | None => Ok (set_data s (Some {| s_off := tb_off b; s_len := tb_size b |}))
      end
    else if is MOOV b then
      if max_metadata_size cfg <? n then EParse InvalidInput else
      kids <- moov_check (tb_payload inp b) ;;
      Ok {| st_ftyp := st_ftyp s; st_moov := Some (kids, tb_off b); st_data := st_data s |}
    else if is META b || is MECO b then Ok (set_data s (extend (st_data s) (tb_off b) (tb_size b)))
    else EParse (UnsupportedBox (unsup_name (tb_type b)))
  end.

Lemma box_step_io_ok cfg inp s b q :
  box_step_io cfg inp s b (Ok q) (Ok q) = rmap (fun s' => (s', q)) (box_step cfg inp s b).
Proof.
  unfold box_step_io, box_step.
  destruct (is FREE b || is SKIP b); [reflexivity|].
  destruct (is FTYP b).
  { destruct (st_ftyp s); [reflexivity|]. destruct (MAX_FTYP_SIZE <? _); [reflexivity|].
    cbn [rbind]. destruct (parse_ftyp (tb_payload inp b)) as [mb| | | |]; try reflexivity.
    cbn [rbind]. destruct (existsb _ _); reflexivity. }
  destruct (st_ftyp s); [|reflexivity].
  destruct (is MDAT b).
  { cbn [rbind]. destruct (st_data s) as [sp|]; [|reflexivity]. destruct (_ =? _); reflexivity. }
  destruct (is MOOV b).
  { destruct (max_metadata_size cfg <? _); [reflexivity|]. cbn [rbind].
    destruct (moov_check (tb_payload inp b)); reflexivity. }
  destruct (is META b || is MECO b); reflexivity.
Qed.

Definition data_inv (s : st) (p : N) : Prop :=
  match st_data s with Some sp => s_off sp + s_len sp <= p | None => True end.

Lemma rbind_ext_ok {A B} (r : res A) (f g : A -> res B) : (forall a, r = Ok a -> f a = g a) -> rbind r f = rbind r g.
Proof. intros H. destruct r; cbn; auto. Qed.

Lemma beq_eq a b : beq a b = true <-> a = b.
Proof. unfold beq. destruct (list_eq_dec Byte.byte_eq_dec a b); split; congruence. Qed.
Lemma beq_neq a b : beq a b = false <-> a <> b.
Proof. unfold beq. destruct (list_eq_dec Byte.byte_eq_dec a b); split; congruence. Qed.

Lemma is_type_sh h t : hdr_wf h = true -> length t = 4%nat -> is_type h t = beq (sh_type_of (htype h)) t.
Proof.
  intros Hwf Ht. unfold is_type, box_type_eqb, hdr_wf in *. destruct (htype h) as [n|u]; cbn [sh_type_of].
  - reflexivity.
  - symmetry. apply beq_neq. intros E. apply (f_equal (@length _)) in E. rewrite app_length, Ht in E.
    cbn [length UUID fourcc] in E. apply andb_prop in Hwf. destruct Hwf as [Hwf _]. cbn [type_wf] in Hwf.
    apply Nat.eqb_eq in Hwf. lia.
Qed.

Lemma add_u64_ok site a b : a + b <= U64MAX -> add_u64 site a b = Ok (a + b).
Proof. intros H. unfold add_u64. destruct (N.ltb_spec U64MAX (a + b)); [lia | reflexivity]. Qed.

Section Boxes.
Variable inp : input.
Variable lenient : bool.
Variable ms : N.
Variable cfg : config.
Hypothesis Hms : ilen inp <= ms.
Hypothesis Hms64 : ms <= U64MAX.
Hypothesis Hcum : forall t, cumulative_mdat_box_size cfg = Some t -> t <= U32MAX.
Let cum := cumulative_mdat_box_size cfg.

Lemma skip_p_ok n q e : q + n <= ilen inp -> skip_p inp lenient ms n q e = Ok (q + n).
Proof.
  intros H. unfold skip_p. destruct lenient.
  - destruct (N.leb_spec (q + n) ms); [reflexivity | lia].
  - destruct (N.leb_spec (q + n) (ilen inp)); [reflexivity | lia].
Qed.

Lemma skip_p_inv n q e q' : skip_p inp lenient ms n q e = Ok q' ->
  q' = q + n /\ q' <= ms /\ (lenient = false -> q' <= ilen inp).
Proof.
  unfold skip_p. destruct lenient.
  - destruct (N.leb_spec (q + n) ms); [|destruct (_ && _); discriminate].
    intros H0. injection H0 as <-. repeat split; [assumption | discriminate].
  - destruct (N.leb_spec (q + n) (ilen inp)); [|discriminate].
    intros H0. injection H0 as <-. repeat split; [lia | intros _; assumption].
Qed.

(* facts about the header found at p *)
Lemma hdr_at_inv p h q : hdr_at inp p = Ok (h, q) ->
  shdr_of (window inp p) = Some (sh_of_hdr h) /\ hdr_wf h = true /\ q = p + encoded_len h /\
  (p < ilen inp -> p + encoded_len h <= ilen inp).
Proof.
  unfold hdr_at. rewrite shdr_of_hdr_read.
  destruct (hdr_read (window inp p)) as [[h0 r]|] eqn:E; [|discriminate].
  intros H0. injection H0 as <- <-. split; [reflexivity|].
  destruct (hdr_read_inv _ _ _ E) as [Hwf Hl]. split; [exact Hwf|]. split; [reflexivity|].
  intros Hp. apply (f_equal (@length _)) in Hl. rewrite app_length, length_window in Hl.
  assert (Ht : type_wf (htype h0) = true) by (unfold hdr_wf in Hwf; apply andb_prop in Hwf; tauto).
  pose proof (hdr_put_length h0 Ht). lia.
Qed.

Lemma hdr_at_none p : shdr_of (window inp p) = None -> hdr_at inp p = EParse TruncatedBox.
Proof.
  unfold hdr_at. rewrite shdr_of_hdr_read. destruct (hdr_read (window inp p)) as [[h0 r]|]; [discriminate | reflexivity].
Qed.

Lemma size_wf_le h : hdr_wf h = true -> match box_size_of h with Some n => n <= U64MAX | None => True end.
Proof.
  unfold hdr_wf, box_size_of. intros H. apply andb_prop in H. destruct H as [_ H].
  destruct (hsize h); cbn [size_wf] in *; [exact I| |apply N.leb_le; exact H].
  apply andb_prop in H. destruct H as [_ H]. apply N.leb_le in H. unfold U32MAX, U64MAX in *. lia.
Qed.

Lemma resolve_le p h : hdr_wf h = true -> ilen inp <= U64MAX -> resolve cum inp p (sh_of_hdr h) <= U64MAX.
Proof.
  intros Hwf Hl. pose proof (size_wf_le h Hwf) as Hs. unfold resolve, sh_of_hdr. cbn [sh_size sh_type].
  destruct (box_size_of h); [exact Hs|].
  destruct cum as [t|] eqn:Ec; [|lia]. destruct (beq _ MDAT); [|lia].
  apply Hcum in Ec. unfold U32MAX, U64MAX in *. lia.
Qed.

Lemma resolve_plain p h :
  beq (sh_type_of (htype h)) MDAT = false \/ box_size_of h <> None \/ cum = None ->
  resolve cum inp p (sh_of_hdr h) = resolve None inp p (sh_of_hdr h).
Proof.
  unfold resolve, sh_of_hdr. cbn [sh_size sh_type]. intros H.
  destruct (box_size_of h); [reflexivity|]. destruct cum; [|reflexivity].
  destruct (beq _ MDAT); [|reflexivity]. destruct H as [H|[H|H]]; congruence.
Qed.

Lemma data_size_plain p h : p + encoded_len h <= ilen inp ->
  data_size_p inp h (p + encoded_len h) =
  (if resolve None inp p (sh_of_hdr h) <? encoded_len h then EParse InvalidInput
   else Ok (resolve None inp p (sh_of_hdr h) - encoded_len h)).
Proof.
  intros Hp. unfold data_size_p, box_data_size, resolve, sh_of_hdr. cbn [sh_size sh_type].
  destruct (box_size_of h) as [sz|].
  - destruct (sz <? encoded_len h); reflexivity.
  - cbn [rbind]. destruct (N.ltb_spec (ilen inp) (p + encoded_len h)); [lia|].
    destruct (N.ltb_spec (ilen inp - p) (encoded_len h)); [lia|]. f_equal. lia.
Qed.

Lemma filler_box s p h : p + encoded_len h <= ilen inp -> hdr_wf h = true -> data_inv s p -> p <= ilen inp ->
  let rsz := resolve None inp p (sh_of_hdr h) in
  encoded_len h <= rsz -> rsz <= U64MAX ->
  filler_p inp lenient ms s p h (p + encoded_len h) =
  (q <- skip_p inp lenient ms (rsz - encoded_len h) (p + encoded_len h) TruncatedBox ;;
   Ok (set_data s (extend (st_data s) p rsz), q)).
Proof.
  intros Hp Hwf Hinv Hpl rsz Hle H64. unfold filler_p, skip_box_p. rewrite data_size_plain by exact Hp.
  fold rsz. destruct (N.ltb_spec rsz (encoded_len h)); [lia|]. cbn [rbind]. rewrite rbind_assoc.
  apply rbind_ext_ok. intros q Hq. cbn [rbind fst snd].
  apply skip_p_inv in Hq. destruct Hq as (Hq & Hqm & _).
  rewrite add_u64_ok by lia. cbn [rbind]. replace (rsz - encoded_len h + encoded_len h) with rsz by lia.
  unfold extend_if_adjacent, extend, data_inv, set_data in *.
  destruct (st_data s) as [sp|]; [|reflexivity].
  rewrite add_u64_ok by lia. cbn [rbind].
  destruct (N.eqb_spec (s_off sp + s_len sp) p); [|reflexivity].
  rewrite add_u64_ok by lia. reflexivity.
Qed.

Lemma mdat_hdr_box p h : p + encoded_len h <= ilen inp -> hdr_wf h = true ->
  let rsz := resolve cum inp p (sh_of_hdr h) in
  beq (sh_type_of (htype h)) MDAT = true ->
  exists h', mdat_hdr cfg h = Ok h' /\ encoded_len h' = encoded_len h /\
    data_size_p inp h' (p + encoded_len h) =
      (if rsz <? encoded_len h then EParse InvalidInput else Ok (rsz - encoded_len h)).
Proof.
  intros Hp Hwf rsz Hm. unfold mdat_hdr. fold cum.
  destruct (box_size_of h) as [sz|] eqn:Es.
  - exists h. assert (R : rsz = resolve None inp p (sh_of_hdr h)) by (apply resolve_plain; right; left; congruence).
    rewrite R. split.
    + unfold box_data_size. rewrite Es. destruct (sz <? encoded_len h); [reflexivity|]. destruct cum; reflexivity.
    + split; [reflexivity | apply data_size_plain; exact Hp].
  - assert (Hu : hsize h = UntilEof) by (unfold box_size_of in Es; destruct (hsize h); [reflexivity | discriminate | discriminate]).
    unfold box_data_size. rewrite Es.
    destruct cum as [t|] eqn:Ec.
    + unfold overwrite_size. rewrite Hu. eexists. split; [reflexivity|].
      assert (EL : encoded_len {| htype := htype h; hsize := Size t |} = encoded_len h)
        by (unfold encoded_len; cbn [htype hsize]; rewrite Hu; reflexivity).
      split; [exact EL|].
      assert (R : rsz = t).
      { unfold rsz, resolve, sh_of_hdr. cbn [sh_size sh_type]. rewrite Es. try fold cum. rewrite ?Ec. rewrite Hm. reflexivity. }
      rewrite R. unfold data_size_p, box_data_size, box_size_of. cbn [hsize]. rewrite EL.
      destruct (t <? encoded_len h); reflexivity.
    + exists h. split; [reflexivity|]. split; [reflexivity|].
      assert (R : rsz = resolve None inp p (sh_of_hdr h)) by reflexivity.
      rewrite R. apply data_size_plain; exact Hp.
Qed.

Lemma t_free_FREE : t_free = FREE. Proof. reflexivity. Qed.

(* no box at p: the step fails with a parse error *)
Lemma step_next_none s p : p < ilen inp -> next_box cum inp p = None ->
  exists e, step_pure inp lenient ms cfg s p = EParse e.
Proof.
  intros Hp Hn. unfold next_box in Hn. unfold step_pure.
  destruct (shdr_of (window inp p)) as [sh|] eqn:Esh.
  2:{ rewrite hdr_at_none by exact Esh. eexists; reflexivity. }
  destruct (hdr_at inp p) as [[h q]| | | |] eqn:Eh; try (unfold hdr_at in Eh; destruct (hdr_read (window inp p)) as [[? ?]|]; discriminate).
  2:{ eexists; reflexivity. }
  destruct (hdr_at_inv _ _ _ Eh) as (Esh' & Hwf & Hq & Hle). specialize (Hle Hp).
  rewrite Esh in Esh'. injection Esh' as ->. subst q. cbn [rbind fst snd].
  cbn [sh_of_hdr sh_len] in Hn.
  destruct (N.ltb_spec (resolve cum inp p (sh_of_hdr h)) (encoded_len h)) as [Hlt|]; [clear Hn|discriminate].
  assert (Hskip : beq (sh_type_of (htype h)) MDAT = false ->
            exists e, skip_box_p inp lenient ms h (p + encoded_len h) = EParse e).
  { intros Hm. unfold skip_box_p. rewrite data_size_plain by exact Hle.
    rewrite <- resolve_plain by (left; exact Hm).
    destruct (N.ltb_spec (resolve cum inp p (sh_of_hdr h)) (encoded_len h)); [|lia]. eexists; reflexivity. }
  assert (Hread : forall max, beq (sh_type_of (htype h)) MDAT = false ->
            exists e, read_data_p inp h max (p + encoded_len h) = EParse e).
  { intros max Hm. unfold read_data_p. rewrite data_size_plain by exact Hle.
    rewrite <- resolve_plain by (left; exact Hm).
    destruct (N.ltb_spec (resolve cum inp p (sh_of_hdr h)) (encoded_len h)); [|lia]. eexists; reflexivity. }
  rewrite !(is_type_sh h) by (exact Hwf || reflexivity).
  change t_free with FREE. change t_skip with SKIP. change t_ftyp with FTYP. change t_mdat with MDAT.
  change t_moov with MOOV. change t_meta with META. change t_meco with MECO.
  destruct (beq (sh_type_of (htype h)) MDAT) eqn:Em.
  - apply beq_eq in Em. rewrite Em.
    change (beq MDAT FREE) with false. change (beq MDAT SKIP) with false. change (beq MDAT FTYP) with false.
    change (beq MDAT MDAT) with true. cbn [orb]. cbv iota.
    destruct (st_ftyp s); [|eexists; reflexivity].
    destruct (mdat_hdr_box p h Hle Hwf) as (h' & E1 & E2 & E3); [rewrite Em; reflexivity|].
    rewrite E1. cbn [rbind]. unfold skip_box_p. rewrite E3.
    destruct (N.ltb_spec (resolve cum inp p (sh_of_hdr h)) (encoded_len h)); [|lia]. eexists; reflexivity.
  - destruct (Hskip eq_refl) as [e1 He1].
    destruct (beq _ FREE || beq _ SKIP).
    { unfold filler_p. rewrite He1. eexists; reflexivity. }
    destruct (beq _ FTYP).
    { destruct (st_ftyp s); [eexists; reflexivity|]. destruct (Hread MAX_FTYP_SIZE eq_refl) as [e2 He2].
      rewrite He2. eexists; reflexivity. }
    destruct (st_ftyp s); [|eexists; reflexivity].
    destruct (beq _ MOOV).
    { destruct (Hread (max_metadata_size cfg) eq_refl) as [e2 He2]. rewrite He2. eexists; reflexivity. }
    destruct (beq _ META || beq _ MECO).
    { unfold filler_p. rewrite He1. eexists; reflexivity. }
    rewrite He1. eexists; reflexivity.
Qed.


Definition skipr (b : tbox) : res N :=
  skip_p inp lenient ms (tb_size b - tb_hlen b) (tb_off b + tb_hlen b) TruncatedBox.
Definition readr (b : tbox) : res N :=
  if tb_end b <=? ilen inp then Ok (tb_end b) else EParse TruncatedBox.

(* a box stands at p (complete or not): the step is the box transition with the cursor's skip / read *)
Lemma step_next_some s p b : p < ilen inp -> data_inv s p -> next_box cum inp p = Some b ->
  step_pure inp lenient ms cfg s p = box_step_io cfg inp s b (skipr b) (readr b).
Proof.
  intros Hp Hinv Hn. unfold next_box in Hn. unfold step_pure.
  destruct (shdr_of (window inp p)) as [sh|] eqn:Esh; [|discriminate].
  destruct (hdr_at inp p) as [[h q]| | | |] eqn:Eh;
    try (unfold hdr_at in Eh; rewrite shdr_of_hdr_read in Esh; destruct (hdr_read (window inp p)) as [[? ?]|]; discriminate).
  destruct (hdr_at_inv _ _ _ Eh) as (Esh' & Hwf & Hq & Hle). specialize (Hle Hp).
  rewrite Esh in Esh'. injection Esh' as ->. subst q. cbn [rbind fst snd].
  cbn [sh_of_hdr sh_len sh_type] in Hn.
  set (rsz := resolve cum inp p (sh_of_hdr h)) in *.
  destruct (N.ltb_spec rsz (encoded_len h)) as [|Hge]; [discriminate|].
  injection Hn as <-.
  assert (H64 : rsz <= U64MAX) by (apply resolve_le; [exact Hwf | lia]).
  unfold box_step_io, skipr, readr, is, tb_end, tb_payload. cbn [tb_off tb_type tb_hlen tb_size].
  rewrite !(is_type_sh h) by (exact Hwf || reflexivity).
  change t_free with FREE. change t_skip with SKIP. change t_ftyp with FTYP. change t_mdat with MDAT.
  change t_moov with MOOV. change t_meta with META. change t_meco with MECO.
  set (ty := sh_type_of (htype h)) in *.
  assert (Hread : forall max, beq ty MDAT = false ->
     read_data_p inp h max (p + encoded_len h) =
     (if max <? rsz - encoded_len h then EParse InvalidInput
      else q <- (if p + rsz <=? ilen inp then Ok (p + rsz) else EParse TruncatedBox) ;;
           Ok (iread inp (p + encoded_len h) (N.to_nat (rsz - encoded_len h)), q))).
  { intros max Hm. unfold read_data_p. rewrite data_size_plain by exact Hle.
    rewrite <- resolve_plain by (left; exact Hm). fold rsz.
    destruct (N.ltb_spec rsz (encoded_len h)); [lia|]. cbn [rbind].
    destruct (max <? rsz - encoded_len h); [reflexivity|]. rewrite read_p_in by exact Hle.
    replace (p + encoded_len h + (rsz - encoded_len h)) with (p + rsz) by lia.
    destruct (p + rsz <=? ilen inp); reflexivity. }
  assert (Hfill : beq ty MDAT = false ->
     filler_p inp lenient ms s p h (p + encoded_len h) =
     (q <- skip_p inp lenient ms (rsz - encoded_len h) (p + encoded_len h) TruncatedBox ;;
      Ok (set_data s (extend (st_data s) p rsz), q))).
  { intros Hm. assert (R : rsz = resolve None inp p (sh_of_hdr h)) by (apply resolve_plain; left; exact Hm).
    rewrite R in *. apply filler_box; try assumption; lia. }
  unfold set_data in *.
  destruct (beq ty MDAT) eqn:Em.
  - assert (Em' := Em). apply beq_eq in Em'. rewrite Em'.
    change (beq MDAT FREE) with false. change (beq MDAT SKIP) with false. change (beq MDAT FTYP) with false.
    cbn [orb]. cbv iota.
    destruct (st_ftyp s); [|reflexivity].
    destruct (mdat_hdr_box p h Hle Hwf Em) as (h' & E1 & E2 & E3).
    rewrite E1. cbn [rbind]. unfold skip_box_p. rewrite E3, E2. fold rsz.
    destruct (N.ltb_spec rsz (encoded_len h)); [lia|]. cbn [rbind]. rewrite rbind_assoc.
    apply rbind_ext_ok. intros q Hq. cbn [rbind fst snd].
    apply skip_p_inv in Hq. destruct Hq as (Hq & Hqm & _).
    rewrite add_u64_ok by lia. cbn [rbind]. replace (rsz - encoded_len h + encoded_len h) with rsz by lia.
    unfold data_inv in *. destruct (st_data s) as [sp|]; [|reflexivity].
    rewrite add_u64_ok by lia. cbn [rbind].
    destruct (N.eqb_spec (s_off sp + s_len sp) p); [|reflexivity].
    rewrite add_u64_ok by lia. reflexivity.
  - specialize (Hfill eq_refl).
    destruct (beq ty FREE || beq ty SKIP); [exact Hfill|].
    destruct (beq ty FTYP).
    { destruct (st_ftyp s); [reflexivity|]. rewrite (Hread _ eq_refl).
      destruct (MAX_FTYP_SIZE <? rsz - encoded_len h); [reflexivity|].
      rewrite rbind_assoc. apply rbind_ext. intros q. reflexivity. }
    destruct (st_ftyp s) eqn:Ef; [|reflexivity].
    destruct (beq ty MOOV).
    { rewrite (Hread _ eq_refl). destruct (max_metadata_size cfg <? rsz - encoded_len h); [reflexivity|].
      rewrite rbind_assoc. apply rbind_ext. intros q. reflexivity. }
    destruct (beq ty META || beq ty MECO); [exact Hfill|].
    unfold skip_box_p. rewrite data_size_plain by exact Hle.
    rewrite <- resolve_plain by (left; exact Em). fold rsz.
    destruct (N.ltb_spec rsz (encoded_len h)); [lia|]. cbn [rbind]. rewrite !rbind_assoc.
    apply rbind_ext_ok. intros q Hq. cbn [rbind fst snd].
    rewrite add_u64_ok by lia. cbn [rbind]. do 2 f_equal.
    unfold ty, unsup_name, sh_type_of. unfold hdr_wf in Hwf. apply andb_prop in Hwf. destruct Hwf as [Ht _].
    destruct (htype h) as [nm|u]; cbn [type_wf] in Ht.
    + apply andb_prop in Ht. destruct Ht as [Ht _]. rewrite Ht. reflexivity.
    + apply Nat.eqb_eq in Ht. rewrite app_length, Ht. reflexivity.
Qed.

End Boxes.

(* ================================================================== after the loop *)
Definition finish_p (s : st) : res out :=
  match st_ftyp s with
  | None => EParse (MissingRequiredBox t_ftyp)
  | Some fp =>
  match st_moov s with
  | None => EParse (MissingRequiredBox t_moov)
  | Some (kids, moov_off) =>
  match st_data s with
  | None => EParse (MissingRequiredBox t_mdat)
  | Some data =>
    if moov_off <? s_off data then Ok {| o_metadata := None; o_data := data |} else
    fh <- with_data_size (FourCC t_ftyp) (N.of_nat (length fp)) ;;
    let mp_len := N.of_nat (length (put_nodes kids)) in
    mh <- with_data_size (FourCC t_moov) mp_len ;;
    flen <- add_u64 6 (encoded_len fh) (N.of_nat (length fp)) ;;
    mlen <- add_u64 6 (encoded_len mh) mp_len ;;
    metadata_len <- add_u64 6 flen mlen ;;
    let gap := s_off data - metadata_len in
    if (metadata_len <=? s_off data) && (gap =? 0) then
      Ok {| o_metadata := Some (hdr_put fh ++ fp ++ hdr_put mh ++ put_nodes kids, 0); o_data := data |}
    else if (metadata_len <=? s_off data) && (PAD_HEADER_SIZE <=? gap) && (gap <=? MAX_PAD_SIZE) && (gap <=? metadata_len) then
      Ok {| o_metadata := Some (hdr_put fh ++ fp ++ hdr_put mh ++ put_nodes kids
                                  ++ hdr_put (with_u32_data_size (FourCC t_free) (gap - PAD_HEADER_SIZE)),
                                gap - PAD_HEADER_SIZE);
            o_data := data |}
    else
      match displacement (s_off data) metadata_len with
      | None => EParse UnsupportedBoxLayout
      | Some d =>
          kl <- each_trak kids (shift_table (shift_entry 32 d) (shift_entry 64 d)) ;;
          Ok {| o_metadata := Some (hdr_put fh ++ fp ++ hdr_put mh ++ put_nodes (fst kl), 0); o_data := data |}
      end
  end end end.

Lemma finish_run inp lenient ms s p :
  runo (cursor inp lenient ms) (finish s) p = rmap (fun o => (o, p)) (finish_p s).
Proof.
  unfold finish, finish_p.
  destruct (st_ftyp s) as [fp|]; [|reflexivity].
  destruct (st_moov s) as [[kids moov_off]|]; [|reflexivity].
  destruct (st_data s) as [data|]; [|reflexivity].
  destruct (moov_off <? s_off data); [reflexivity|].
  rewrite runo_pbind_lift, rmap_rbind. apply rbind_ext. intros fh.
  rewrite runo_pbind_lift, rmap_rbind. apply rbind_ext. intros mh.
  rewrite runo_pbind_lift, rmap_rbind. apply rbind_ext. intros flen.
  rewrite runo_pbind_lift, rmap_rbind. apply rbind_ext. intros mlen.
  rewrite runo_pbind_lift, rmap_rbind. apply rbind_ext. intros ml.
  destruct ((ml <=? s_off data) && (s_off data - ml =? 0)).
  { reflexivity. }
  destruct ((ml <=? s_off data) && (PAD_HEADER_SIZE <=? s_off data - ml) && (s_off data - ml <=? MAX_PAD_SIZE) && (s_off data - ml <=? ml)).
  { reflexivity. }
  destruct (displacement (s_off data) ml) as [d|]; [|reflexivity].
  rewrite runo_pbind_lift, rmap_rbind. apply rbind_ext. intros [kids' l].
  reflexivity.
Qed.

(* ================================================================== the loop over a tiled / untiled input *)
Fixpoint fold_boxes (cfg : config) (inp : input) (s : st) (bs : list tbox) : res st :=
  match bs with
  | [] => Ok s
  | b :: r => s' <- box_step cfg inp s b ;; fold_boxes cfg inp s' r
  end.

Lemma box_step_inv cfg inp s b s' :
  box_step cfg inp s b = Ok s' -> data_inv s (tb_off b) -> data_inv s' (tb_end b).
Proof.
  unfold box_step, data_inv, tb_end, set_data, extend. intros H Hinv.
  assert (Hext : match (match st_data s with
                        | Some sp => if s_off sp + s_len sp =? tb_off b
                                     then Some {| s_off := s_off sp; s_len := s_len sp + tb_size b |} else st_data s
                        | None => None end) with
                 | Some sp => s_off sp + s_len sp <= tb_off b + tb_size b | None => True end).
  { destruct (st_data s) as [sp|] eqn:Ed; [|exact I].
    destruct (N.eqb_spec (s_off sp + s_len sp) (tb_off b)); [cbn [s_off s_len]; lia|]. lia. }
  destruct (is FREE b || is SKIP b). { injection H as <-. exact Hext. }
  destruct (is FTYP b).
  { destruct (st_ftyp s); [discriminate|]. destruct (MAX_FTYP_SIZE <? _); [discriminate|].
    destruct (parse_ftyp _) as [mb| | | |]; try discriminate. cbn [rbind] in H.
    destruct (existsb _ _); [|discriminate]. injection H as <-. cbn [st_data].
    destruct (st_data s); [lia | exact I]. }
  destruct (st_ftyp s); [|discriminate].
  destruct (is MDAT b).
  { destruct (st_data s) as [sp|].
    - destruct (N.eqb_spec (s_off sp + s_len sp) (tb_off b)); [|discriminate].
      injection H as <-. cbn [st_data s_off s_len]. lia.
    - injection H as <-. cbn [st_data s_off s_len]. lia. }
  destruct (is MOOV b).
  { destruct (max_metadata_size cfg <? _); [discriminate|].
    destruct (moov_check _); try discriminate. injection H as <-. cbn [st_data].
    destruct (st_data s); [lia | exact I]. }
  destruct (is META b || is MECO b); [|discriminate]. injection H as <-. exact Hext.
Qed.

Lemma box_step_io_inv cfg inp s b sk rd s' q :
  box_step_io cfg inp s b sk rd = Ok (s', q) -> sk = Ok q \/ rd = Ok q.
Proof.
  unfold box_step_io.
  assert (Hf : forall (r : res N) (f : N -> st), rbind r (fun q0 => Ok (f q0, q0)) = Ok (s', q) -> r = Ok q).
  { intros r f H. destruct r; try discriminate. cbn in H. congruence. }
  destruct (is FREE b || is SKIP b). { intros H. left. exact (Hf _ _ H). }
  destruct (is FTYP b).
  { destruct (st_ftyp s); [discriminate|]. destruct (MAX_FTYP_SIZE <? _); [discriminate|].
    destruct rd as [q0| | | |]; try discriminate. cbn [rbind].
    destruct (parse_ftyp _) as [mb| | | |]; try discriminate. cbn [rbind].
    destruct (existsb _ _); [|discriminate]. intros H. right. congruence. }
  destruct (st_ftyp s); [|discriminate].
  destruct (is MDAT b).
  { destruct sk as [q0| | | |]; try discriminate. cbn [rbind].
    destruct (st_data s) as [sp|]; [destruct (_ =? _); [|discriminate]|]; intros H; left; congruence. }
  destruct (is MOOV b).
  { destruct (max_metadata_size cfg <? _); [discriminate|].
    destruct rd as [q0| | | |]; try discriminate. cbn [rbind].
    destruct (moov_check _); try discriminate. cbn [rbind]. intros H. right. congruence. }
  destruct (is META b || is MECO b). { intros H. left. exact (Hf _ _ H). }
  destruct sk; discriminate.
Qed.

Section Loop.
Variable inp : input.
Variable lenient : bool.
Variable ms : N.
Variable cfg : config.
Hypothesis Hms : ilen inp <= ms.
Hypothesis Hms64 : ms <= U64MAX.
Hypothesis Hcum : forall t, cumulative_mdat_box_size cfg = Some t -> t <= U32MAX.
Let cum := cumulative_mdat_box_size cfg.

Lemma complete_io b p : next_box cum inp p = Some b -> tb_end b <= ilen inp ->
  skipr inp lenient ms b = Ok (tb_end b) /\ readr inp b = Ok (tb_end b).
Proof.
  intros Hn He. destruct (next_box_facts _ _ _ _ Hn) as (Ho & H8 & Hs). unfold skipr, readr, tb_end in *. split.
  - rewrite skip_p_ok by (try exact Hms; lia). f_equal. lia.
  - destruct (N.leb_spec (tb_off b + tb_size b) (ilen inp)); [reflexivity | lia].
Qed.

(* the loop over a tiled input is the fold of box_step over the tiling, and ends exactly at the end *)
Lemma loop_tiled : forall lf s p bs, tile_all cum inp p = Some bs -> data_inv s p ->
  let r := loop_pure inp lenient ms lf cfg s p in
  r = rmap (fun s' => (s', ilen inp)) (fold_boxes cfg inp s bs) \/ (r = OutOfFuel /\ (lf <= length bs)%nat).
Proof.
  induction lf as [|lf IH]; intros s p bs Ht Hinv r; subst r.
  { right. split; [reflexivity | lia]. }
  rewrite tile_all_unfold in Ht. cbn [loop_pure].
  destruct (N.leb_spec (ilen inp) p) as [Hl|Hl].
  { destruct (N.eqb_spec p (ilen inp)) as [->|]; [|discriminate]. injection Ht as <-. left. reflexivity. }
  destruct (next_box cum inp p) as [b|] eqn:Eb; [|discriminate].
  destruct (N.ltb_spec (ilen inp) (tb_end b)) as [|He]; [discriminate|].
  destruct (tile_all cum inp (tb_end b)) as [r'|] eqn:Er; [|discriminate]. injection Ht as <-.
  rewrite (step_next_some inp lenient ms cfg Hms Hms64 Hcum s p b Hl Hinv Eb).
  destruct (complete_io b p Eb He) as [-> ->]. rewrite box_step_io_ok. cbn [fold_boxes].
  destruct (next_box_facts _ _ _ _ Eb) as (Ho & _).
  destruct (box_step cfg inp s b) as [s'| | | |] eqn:Es; cbn [rmap rbind fst snd]; try (left; reflexivity).
  assert (Hinv' : data_inv s' (tb_end b)) by (apply (box_step_inv _ _ _ _ _ Es); rewrite Ho; exact Hinv).
  destruct (IH s' (tb_end b) r' Er Hinv') as [E|[E L]].
  - left. exact E.
  - right. split; [exact E | cbn [length]; lia].
Qed.

Lemma loop_past_end lf s q : ilen inp < q ->
  loop_pure inp lenient ms lf cfg s q = OutOfFuel \/ loop_pure inp lenient ms lf cfg s q = Ok (s, q).
Proof.
  intros H. destruct lf; [left; reflexivity|]. right. cbn [loop_pure].
  destruct (N.leb_spec (ilen inp) q); [reflexivity | lia].
Qed.

(* the loop over an input that is not tiled: an error, or (lenient only) it stops beyond the end *)
Lemma loop_untiled : forall lf s p, p <= ilen inp -> data_inv s p -> tile_all cum inp p = None ->
  match loop_pure inp lenient ms lf cfg s p with
  | Ok (s', q) => ilen inp < q /\ lenient = true
  | _ => True
  end.
Proof.
  induction lf as [|lf IH]; intros s p Hp Hinv Ht; [exact I|].
  rewrite tile_all_unfold in Ht. cbn [loop_pure].
  destruct (N.leb_spec (ilen inp) p) as [Hl|Hl].
  { destruct (N.eqb_spec p (ilen inp)); [discriminate | lia]. }
  destruct (next_box cum inp p) as [b|] eqn:Eb.
  2:{ destruct (step_next_none inp lenient ms cfg Hms Hms64 s p Hl Eb) as [e ->]. exact I. }
  rewrite (step_next_some inp lenient ms cfg Hms Hms64 Hcum s p b Hl Hinv Eb).
  destruct (next_box_facts _ _ _ _ Eb) as (Ho & H8 & Hs).
  destruct (N.ltb_spec (ilen inp) (tb_end b)) as [He|He].
  - destruct (box_step_io cfg inp s b (skipr inp lenient ms b) (readr inp b)) as [[s' q]| | | |] eqn:Es; try exact I.
    cbn [rbind fst snd].
    apply box_step_io_inv in Es. destruct Es as [Es|Es].
    + unfold skipr in Es. apply skip_p_inv in Es; try assumption. destruct Es as (Hq & _ & Hstrict).
      assert (Hq' : q = tb_end b) by (unfold tb_end; lia).
      assert (Hlen : lenient = true) by (destruct lenient; [reflexivity | specialize (Hstrict eq_refl); lia]).
      destruct (loop_past_end lf s' q ltac:(lia)) as [E | E]; rewrite E; [exact I | split; [lia | exact Hlen]].
    + unfold readr in Es. destruct (N.leb_spec (tb_end b) (ilen inp)); [lia | discriminate].
  - destruct (tile_all cum inp (tb_end b)) as [r'|] eqn:Er; [discriminate|].
    destruct (complete_io b p Eb He) as [-> ->]. rewrite box_step_io_ok.
    destruct (box_step cfg inp s b) as [s'| | | |] eqn:Es; cbn [rmap rbind fst snd]; try exact I.
    apply IH; [exact He | | exact Er].
    apply (box_step_inv _ _ _ _ _ Es). rewrite Ho. exact Hinv.
Qed.

(* ---------------------------------------------------------------- the whole sanitizer *)
Definition san_pure (fuel : nat) : res out :=
  x <- loop_pure inp lenient ms fuel cfg st0 0 ;;
  _ <- check_end_p inp (snd x) ;;
  finish_p (fst x).

Lemma sanitize_run fuel : mp4_sanitize cfg lenient ms inp fuel = san_pure fuel.
Proof.
  unfold mp4_sanitize, sanitize_prog, san_pure. rewrite fst_run, runo_pbind, loop_run, rmap_rbind.
  apply rbind_ext. intros [s q]. cbn [fst snd].
  rewrite runo_pbind, check_end_run, rbind_rmap, rmap_rbind. apply rbind_ext. intros []. cbn [fst snd].
  rewrite finish_run. destruct (finish_p s); reflexivity.
Qed.

Lemma data_inv_st0 p : data_inv st0 p.
Proof. exact I. Qed.

Theorem sanitize_tiled fuel bs : tiling cum inp = Some bs ->
  let r := mp4_sanitize cfg lenient ms inp fuel in
  r = (s <- fold_boxes cfg inp st0 bs ;; finish_p s) \/ (r = OutOfFuel /\ (fuel <= length bs)%nat).
Proof.
  intros Ht r. subst r. rewrite tiling_tile_all in Ht. rewrite sanitize_run. unfold san_pure.
  destruct (loop_tiled fuel st0 0 bs Ht (data_inv_st0 0)) as [E|[E L]]; rewrite E.
  - left. rewrite rbind_rmap. apply rbind_ext. intros s. cbn [fst snd]. unfold check_end_p.
    rewrite N.ltb_irrefl. reflexivity.
  - right. split; [reflexivity | exact L].
Qed.

Theorem sanitize_untiled fuel : tiling cum inp = None -> is_ok (mp4_sanitize cfg lenient ms inp fuel) = false.
Proof.
  intros Ht. rewrite tiling_tile_all in Ht. rewrite sanitize_run. unfold san_pure.
  pose proof (loop_untiled fuel st0 0 (N.le_0_l _) (data_inv_st0 0) Ht) as H.
  destruct (loop_pure inp lenient ms fuel cfg st0 0) as [[s q]| | | |]; try reflexivity.
  cbn [rbind fst snd]. unfold check_end_p. destruct H as [H _].
  destruct (N.ltb_spec (ilen inp) q); [reflexivity | lia].
Qed.

(* on the strict cursor the loop itself already fails *)
Theorem loop_untiled_strict fuel : lenient = false -> tiling cum inp = None ->
  is_ok (loop_pure inp lenient ms fuel cfg st0 0) = false.
Proof.
  intros Hs Ht. rewrite tiling_tile_all in Ht.
  pose proof (loop_untiled fuel st0 0 (N.le_0_l _) (data_inv_st0 0) Ht) as H.
  destruct (loop_pure inp lenient ms fuel cfg st0 0) as [[s q]| | | |]; try reflexivity.
  destruct H as [_ H]. congruence.
Qed.

(* a sufficient fuel: one unit per box, every box has at least 8 bytes *)
Lemma tile_all_length : forall n p bs, (ilen inp - p) / 8 < N.of_nat n -> tile_all cum inp p = Some bs ->
  (length bs <= N.to_nat ((ilen inp - p) / 8))%nat.
Proof.
  induction n as [|n IH]; intros p bs Hn Ht; [exfalso; exact (N.nlt_0_r _ Hn)|].
  rewrite tile_all_unfold in Ht.
  destruct (N.leb_spec (ilen inp) p) as [Hl|Hl].
  { destruct (p =? ilen inp); [|discriminate]. injection Ht as <-. cbn [length]. apply Nat.le_0_l. }
  destruct (next_box cum inp p) as [b|] eqn:Eb; [|discriminate].
  destruct (N.ltb_spec (ilen inp) (tb_end b)) as [|He]; [discriminate|].
  destruct (tile_all cum inp (tb_end b)) as [r'|] eqn:Er; [|discriminate]. injection Ht as <-.
  destruct (next_box_facts _ _ _ _ Eb) as (Ho & H8 & Hs). unfold tb_end in *. rewrite Ho in *.
  assert (D : (ilen inp - (p + tb_size b)) / 8 + 1 <= (ilen inp - p) / 8).
  { replace (ilen inp - p) with ((ilen inp - (p + tb_size b)) + (tb_size b - 8) + 1 * 8) by lia.
    rewrite N.div_add by lia.
    pose proof (N.div_le_mono (ilen inp - (p + tb_size b)) (ilen inp - (p + tb_size b) + (tb_size b - 8)) 8).
    lia. }
  specialize (IH (p + tb_size b) r' ltac:(lia) Er). cbn [length]. lia.
Qed.

Theorem loop_fuel_enough fuel bs : tiling cum inp = Some bs -> (N.to_nat (ilen inp / 8) < fuel)%nat ->
  mp4_sanitize cfg lenient ms inp fuel = (s <- fold_boxes cfg inp st0 bs ;; finish_p s).
Proof.
  intros Ht Hf. destruct (sanitize_tiled fuel bs Ht) as [E|[_ L]]; [exact E|].
  rewrite tiling_tile_all in Ht.
  pose proof (tile_all_length (S (N.to_nat (ilen inp / 8))) 0 bs) as H. rewrite N.sub_0_r in H.
  specialize (H ltac:(lia) Ht). lia.
Qed.

End Loop.
