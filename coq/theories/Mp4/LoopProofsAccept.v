(* Acceptance (C05): the fold of the per-box transition followed by [finish_p] succeeds exactly when the
   specification's structural rules hold and the rewrite does not overflow; the rewrite plan.
   The moov-internal checks enter through three interface statements (Section hypotheses), which are
   proved in Mp4/BoxProofs.v and instantiated in Props/C05.v. *)
From Coq Require Import List NArith ZArith Bool Lia Arith.
From Coq.Strings Require Import Byte.
From MS Require Import Base.Bytes Base.Outcome Base.Prog Gen.Consts Gen.Kernels Mp4.Header Mp4.Box Mp4.San Mp4.Spec
  Mp4.HeaderProofs Mp4.LoopProofs Mp4.LoopProofsSpec.
Import ListNotations.
Open Scope N_scope.
Arguments N.add : simpl never.
Arguments N.sub : simpl never.
Arguments N.mul : simpl never.
Arguments N.div : simpl never.
Arguments N.modulo : simpl never.
Arguments N.pow : simpl never.
Arguments N.eqb : simpl never.
Arguments N.ltb : simpl never.
Arguments N.leb : simpl never.

(* ================================================================== list facts used by the specification *)
Lemma hd_filter_drop {A} (f : A -> bool) l : hd_error (filter f l) = hd_error (drop_until f l).
Proof. induction l as [|x r IH]; [reflexivity|]. cbn [filter drop_until]. destruct (f x); [reflexivity | exact IH]. Qed.

Lemma existsb_hd_filter {A} (f : A -> bool) l :
  existsb f l = match hd_error (filter f l) with Some _ => true | None => false end.
Proof. induction l as [|x r IH]; [reflexivity|]. cbn [existsb filter]. destruct (f x); [reflexivity | exact IH]. Qed.

Lemma hd_error_app1 {A} (l : list A) x : hd_error (l ++ [x]) = match hd_error l with Some y => Some y | None => Some x end.
Proof. destruct l; reflexivity. Qed.

Lemma last_moov_cons b r :
  last_moov (b :: r) = match last_moov r with Some m => Some m | None => if is MOOV b then Some b else None end.
Proof.
  unfold last_moov. cbn [filter]. destruct (is MOOV b).
  - cbn [rev]. apply hd_error_app1.
  - destruct (hd_error (rev (filter (is MOOV) r))); reflexivity.
Qed.

Lemma existsb_last_moov bs : existsb (is MOOV) bs = match last_moov bs with Some _ => true | None => false end.
Proof.
  induction bs as [|b r IH]; [reflexivity|]. rewrite last_moov_cons. cbn [existsb]. rewrite IH.
  destruct (last_moov r); [apply orb_true_r|]. destruct (is MOOV b); reflexivity.
Qed.

Lemma last_moov_in bs m : last_moov bs = Some m -> In m bs /\ is MOOV m = true.
Proof.
  induction bs as [|b r IH]; [discriminate|]. rewrite last_moov_cons.
  destruct (last_moov r) as [m'|].
  - intros H. injection H as <-. destruct (IH eq_refl) as [H1 H2]. split; [right; exact H1 | exact H2].
  - destruct (is MOOV b) eqn:E; [|discriminate]. intros H. injection H as <-. split; [left; reflexivity | exact E].
Qed.

Lemma hd_filter_in {A} (f : A -> bool) l x : hd_error (filter f l) = Some x -> In x l /\ f x = true.
Proof.
  intros H. assert (I : In x (filter f l)) by (destruct (filter f l); [discriminate | injection H as ->; left; reflexivity]).
  apply filter_In in I. exact I.
Qed.

(* media_run and the first mdat *)
Lemma media_run_first_mdat bs :
  match first_mdat bs with
  | Some d => exists l, media_run bs = Some (tb_off d, l)
  | None => media_run bs = None
  end.
Proof.
  unfold first_mdat, media_run, media_boxes. rewrite hd_filter_drop.
  induction bs as [|b r IH]; [reflexivity|]. cbn [drop_until]. destruct (is MDAT b) eqn:E; [|exact IH].
  cbn [hd_error take_while]. rewrite (is_mdat_filler b E). eexists. reflexivity.
Qed.

(* ================================================================== layout without the final "ftyp seen" *)
Fixpoint layout' (seen_ftyp : bool) (bs : list tbox) : bool :=
  match bs with
  | [] => true
  | b :: r =>
      if is FTYP b then negb seen_ftyp && layout' true r
      else if is_pad b then layout' seen_ftyp r
      else seen_ftyp && (is MOOV b || is MDAT b || is META b || is MECO b) && layout' seen_ftyp r
  end.

Lemma layout_ok_split bs : forall seen, layout_ok seen bs = layout' seen bs && (seen || existsb (is FTYP) bs).
Proof.
  induction bs as [|b r IH]; intros seen; cbn [layout_ok layout' existsb].
  - rewrite orb_false_r. reflexivity.
  - destruct (is FTYP b).
    + rewrite IH. cbn [orb]. rewrite orb_true_r. destruct seen; reflexivity.
    + cbn [orb]. destruct (is_pad b); [apply IH|]. rewrite IH.
      destruct seen; cbn [andb orb]; [|reflexivity].
      destruct (is MOOV b || is MDAT b || is META b || is MECO b); reflexivity.
Qed.

(* ================================================================== the contiguity bookkeeping *)
Definition Dfun (d : option span) (p : N) (bs : list tbox) : bool :=
  match d with
  | None => mdat_contiguous bs
  | Some sp =>
      if s_off sp + s_len sp =? p
      then negb (existsb (is MDAT) (skipn (length (take_while is_filler bs)) bs))
      else negb (existsb (is MDAT) bs)
  end.

Definition dinv (d : option span) (p : N) : Prop :=
  match d with Some sp => s_off sp + s_len sp <= p | None => True end.

Lemma D_filler d p b r : is_filler b = true -> is MDAT b = false -> 0 < tb_size b ->
  dinv d p -> Dfun d p (b :: r) = Dfun (extend d p (tb_size b)) (p + tb_size b) r.
Proof.
  intros Hf Hm Hs Hd. unfold Dfun, extend, dinv in *. destruct d as [sp|].
  - destruct (N.eqb_spec (s_off sp + s_len sp) p) as [E|E].
    + cbn [s_off s_len]. replace (s_off sp + (s_len sp + tb_size b) =? p + tb_size b) with true
        by (symmetry; apply N.eqb_eq; lia).
      cbn [take_while]. rewrite Hf. reflexivity.
    + replace (s_off sp + s_len sp =? p + tb_size b) with false by (symmetry; apply N.eqb_neq; lia).
      cbn [existsb]. rewrite Hm. reflexivity.
  - apply mdat_contiguous_skip. exact Hm.
Qed.

Lemma D_other d p b r : is_filler b = false -> 0 < tb_size b ->
  dinv d p -> Dfun d p (b :: r) = Dfun d (p + tb_size b) r.
Proof.
  intros Hf Hs Hd. unfold Dfun, dinv in *.
  assert (Hm : is MDAT b = false).
  { destruct (is MDAT b) eqn:E; [|reflexivity]. rewrite (is_mdat_filler b E) in Hf. discriminate. }
  destruct d as [sp|].
  - replace (s_off sp + s_len sp =? p + tb_size b) with false by (symmetry; apply N.eqb_neq; lia).
    cbn [take_while]. rewrite Hf. cbn [length skipn existsb]. rewrite Hm. cbn [orb].
    destruct (s_off sp + s_len sp =? p); reflexivity.
  - apply mdat_contiguous_skip. exact Hm.
Qed.

Lemma D_mdat_none p b r : is MDAT b = true ->
  Dfun None p (b :: r) = Dfun (Some {| s_off := p; s_len := tb_size b |}) (p + tb_size b) r.
Proof.
  intros Hm. unfold Dfun. cbn [s_off s_len]. rewrite N.eqb_refl. apply mdat_contiguous_first. exact Hm.
Qed.

Lemma D_mdat_some sp p b r : is MDAT b = true -> 0 < tb_size b -> s_off sp + s_len sp <= p ->
  Dfun (Some sp) p (b :: r) =
  if s_off sp + s_len sp =? p
  then Dfun (Some {| s_off := s_off sp; s_len := s_len sp + tb_size b |}) (p + tb_size b) r
  else false.
Proof.
  intros Hm Hs Hd. unfold Dfun. cbn [s_off s_len].
  destruct (N.eqb_spec (s_off sp + s_len sp) p) as [E|E].
  - replace (s_off sp + (s_len sp + tb_size b) =? p + tb_size b) with true by (symmetry; apply N.eqb_eq; lia).
    cbn [take_while]. rewrite (is_mdat_filler b Hm). reflexivity.
  - cbn [existsb]. rewrite Hm. reflexivity.
Qed.

(* ================================================================== ftyp *)
Lemma groups4_chunks4 : forall f l, groups4 f l = chunks4 f l.
Proof.
  induction f as [|f IH]; intros l; [reflexivity|]. cbn [groups4 chunks4].
  change 4 with (N.of_nat 4) at 1. rewrite blen_ltb. destruct (Nat.ltb (length l) 4); [reflexivity|].
  rewrite IH. reflexivity.
Qed.

Lemma ftyp_step_ok (payload : bytes) {A} (x : A) :
  is_ok (if MAX_FTYP_SIZE <? blen payload then EParse InvalidInput else
         mb <- parse_ftyp payload ;;
         if existsb (bytes_eqb COMPATIBLE_BRAND) (snd mb) then Ok x else EParse (UnsupportedFormat (fst mb)))
  = ftyp_ok payload.
Proof.
  unfold ftyp_ok, parse_ftyp, MAX_FTYP_SIZE. rewrite groups4_chunks4.
  change (existsb (beq ISOM)) with (existsb (bytes_eqb COMPATIBLE_BRAND)).
  destruct (N.ltb_spec 1024 (blen payload)) as [H|H].
  - replace (blen payload <=? 1024) with false by (symmetry; apply N.leb_gt; exact H).
    rewrite andb_false_r. reflexivity.
  - replace (blen payload <=? 1024) with true by (symmetry; apply N.leb_le; exact H). rewrite andb_true_r.
    change 8 with (N.of_nat 8). unfold blen in *.
    destruct (Nat.ltb_spec (length payload) 4) as [H4|H4].
    { replace (N.of_nat 8 <=? N.of_nat (length payload)) with false by (symmetry; apply N.leb_gt; lia). reflexivity. }
    destruct (Nat.ltb_spec (length payload) 8) as [H8|H8].
    { replace (N.of_nat 8 <=? N.of_nat (length payload)) with false by (symmetry; apply N.leb_gt; lia). reflexivity. }
    replace (N.of_nat 8 <=? N.of_nat (length payload)) with true by (symmetry; apply N.leb_le; lia).
    cbn [rbind snd andb]. destruct (existsb _ _); reflexivity.
Qed.

Lemma blen_payload inp b : blen (tb_payload inp b) = tb_size b - tb_hlen b.
Proof. unfold blen, tb_payload. rewrite length_iread. apply N2Nat.id. Qed.

(* ================================================================== the fold succeeds iff the rules hold *)
Section Accept.
Variable cfg : config.
Variable inp : input.
Hypothesis Hmax : max_metadata_size cfg < 4294967296.
Hypothesis H_moov : forall p, blen p < 4294967296 ->
  is_ok (moov_check p) = match co_regions p with Some _ => true | None => false end.
Hypothesis H_put : forall p kids, moov_check p = Ok kids -> put_nodes kids = p.
Hypothesis H_shift : forall p kids ts d, moov_check p = Ok kids -> co_tables p = Some ts -> (- 2 ^ 31 <= d < 2 ^ 31)%Z ->
  is_ok (each_trak kids (shift_table (shift_entry 32 d) (shift_entry 64 d))) =
  negb (existsb (fun t : N * list N => existsb (fun e => match shift (fst t) d e with None => true | Some _ => false end) (snd t)) ts).

Definition Ft (bs : list tbox) : bool := forallb (fun b => if is FTYP b then ftyp_ok (tb_payload inp b) else true) bs.
Definition Mv (bs : list tbox) : bool :=
  forallb (fun b => if is MOOV b then moov_ok (max_metadata_size cfg) (tb_payload inp b) else true) bs.
Definition seen (s : st) : bool := match st_ftyp s with Some _ => true | None => false end.

Lemma moov_step_ok (payload : bytes) {A} (f : list node -> A) :
  is_ok (if max_metadata_size cfg <? blen payload then EParse InvalidInput else
         kids <- moov_check payload ;; Ok (f kids))
  = moov_ok (max_metadata_size cfg) payload.
Proof.
  unfold moov_ok. destruct (N.ltb_spec (max_metadata_size cfg) (blen payload)) as [H|H].
  - replace (blen payload <=? max_metadata_size cfg) with false by (symmetry; apply N.leb_gt; exact H). reflexivity.
  - replace (blen payload <=? max_metadata_size cfg) with true by (symmetry; apply N.leb_le; exact H).
    cbn [andb]. rewrite <- H_moov by lia. destruct (moov_check payload); reflexivity.
Qed.

Lemma fold_ok : forall bs s p e, chain p bs e -> data_inv s p ->
  is_ok (fold_boxes cfg inp s bs) = layout' (seen s) bs && Ft bs && Mv bs && Dfun (st_data s) p bs.
Proof.
  induction bs as [|b r IH]; intros s p e Hc Hinv.
  - cbn [fold_boxes is_ok layout' Ft Mv forallb andb]. unfold Dfun. destruct (st_data s) as [sp|]; [|reflexivity].
    cbn. destruct (_ =? _); reflexivity.
  - cbn [chain] in Hc. destruct Hc as (Ho & H8 & Hs & Hc). rewrite fold_cons.
    assert (Hpos : 0 < tb_size b) by lia.
    assert (Hd : dinv (st_data s) p) by exact Hinv.
    unfold tb_end in Hc. rewrite Ho in Hc.
    (* the recursive call, for the state s1 reached at p + size *)
    assert (Hrec : forall s1, data_inv s1 (p + tb_size b) ->
              is_ok (fold_boxes cfg inp s1 r) = layout' (seen s1) r && Ft r && Mv r && Dfun (st_data s1) (p + tb_size b) r)
      by (intros s1 Hi; exact (IH s1 _ e Hc Hi)).
    assert (Hinv_ext : data_inv (set_data s (extend (st_data s) p (tb_size b))) (p + tb_size b)).
    { unfold data_inv, set_data, extend, dinv in *. cbn [st_data]. destruct (st_data s) as [sp|]; [|exact I].
      destruct (N.eqb_spec (s_off sp + s_len sp) p); cbn [s_off s_len]; lia. }
    rewrite box_step_kind. cbv zeta. cbn [layout' Ft Mv forallb]. fold (Ft r). fold (Mv r).
    rewrite is_body_kind, is_pad_kind, is_ftyp_kind, is_moov_kind.
    pose proof (is_filler_kind b) as Hfk. pose proof (is_mdat_kind b) as Hmk.
    unfold seen. rewrite Ho.
    destruct (kind_of b) eqn:Ek.
    + (* free / skip *)
      cbn [rbind]. rewrite Hrec by exact Hinv_ext.
      rewrite (D_filler _ p b r Hfk Hmk Hpos Hd). cbn [andb]. reflexivity.
    + (* ftyp *)
      destruct (st_ftyp s) as [fp|] eqn:Ef.
      { cbn [is_ok negb andb]. reflexivity. }
      cbn [negb andb]. rewrite <- (blen_payload inp b).
      rewrite <- (ftyp_step_ok (tb_payload inp b)
                    {| st_ftyp := Some (tb_payload inp b); st_moov := st_moov s; st_data := st_data s |}).
      destruct (MAX_FTYP_SIZE <? blen (tb_payload inp b)); [cbn; rewrite andb_false_r; reflexivity|].
      destruct (parse_ftyp (tb_payload inp b)) as [mb| | | |]; try (cbn; rewrite andb_false_r; reflexivity).
      cbn [rbind]. destruct (existsb (bytes_eqb COMPATIBLE_BRAND) (snd mb)); [|cbn; rewrite andb_false_r; reflexivity].
      cbn [rbind is_ok andb].
      rewrite Hrec.
      2:{ unfold data_inv, dinv in *. cbn [st_data]. destruct (st_data s); [lia | exact I]. }
      cbn [st_data seen st_ftyp]. rewrite (D_other _ p b r Hfk Hpos Hd). reflexivity.
    + (* mdat *)
      destruct (st_ftyp s) as [fp|] eqn:Ef; [|reflexivity]. cbn [andb].
      destruct (st_data s) as [sp|] eqn:Ed.
      * rewrite (D_mdat_some sp p b r Hmk Hpos Hd).
        destruct (N.eqb_spec (s_off sp + s_len sp) p) as [E|E].
        -- cbn [rbind]. rewrite Hrec.
           2:{ unfold data_inv, set_data. cbn [st_data s_off s_len]. lia. }
           unfold set_data, seen. cbn [st_ftyp st_data]. rewrite Ef. reflexivity.
        -- cbn [rbind is_ok]. rewrite andb_false_r. reflexivity.
      * cbn [rbind]. rewrite Hrec.
        2:{ unfold data_inv, set_data. cbn [st_data s_off s_len]. lia. }
        unfold set_data, seen. cbn [st_ftyp st_data]. rewrite Ef. rewrite (D_mdat_none p b r Hmk). reflexivity.
    + (* moov *)
      destruct (st_ftyp s) as [fp|] eqn:Ef; [|reflexivity]. cbn [andb].
      rewrite <- (blen_payload inp b).
      rewrite <- (moov_step_ok (tb_payload inp b)
                    (fun kids => {| st_ftyp := Some fp; st_moov := Some (kids, p); st_data := st_data s |})).
      destruct (max_metadata_size cfg <? blen (tb_payload inp b)); [cbn; rewrite andb_false_r; reflexivity|].
      destruct (moov_check (tb_payload inp b)) as [kids| | | |]; try (cbn; rewrite andb_false_r; reflexivity).
      cbn [rbind is_ok andb]. rewrite Hrec.
      2:{ unfold data_inv, dinv in *. cbn [st_data]. destruct (st_data s); [lia | exact I]. }
      cbn [st_data seen st_ftyp]. rewrite (D_other _ p b r Hfk Hpos Hd). reflexivity.
    + (* meta / meco *)
      destruct (st_ftyp s) as [fp|] eqn:Ef; [|reflexivity]. cbn [andb rbind].
      rewrite Hrec by exact Hinv_ext. unfold set_data, seen. cbn [st_ftyp st_data]. rewrite Ef.
      rewrite (D_filler _ p b r Hfk Hmk Hpos Hd). reflexivity.
    + (* anything else *)
      destruct (st_ftyp s); cbn; rewrite ?andb_false_r; reflexivity.
Qed.

End Accept.

(* ================================================================== the final state *)
Section Final.
Variable cfg : config.
Variable inp : input.

Lemma fold_ftyp : forall bs s s', fold_boxes cfg inp s bs = Ok s' ->
  st_ftyp s' = match st_ftyp s with
               | Some x => Some x
               | None => match the_ftyp bs with Some f => Some (tb_payload inp f) | None => None end
               end.
Proof.
  induction bs as [|b r IH]; intros s s' H.
  - cbn in H. injection H as <-. destruct (st_ftyp s); reflexivity.
  - rewrite fold_cons in H. destruct (box_step cfg inp s b) as [s1| | | |] eqn:E1; try discriminate. cbn [rbind] in H.
    rewrite (IH s1 s' H). unfold the_ftyp. cbn [filter]. rewrite is_ftyp_kind.
    rewrite box_step_kind in E1. cbv zeta in E1.
    destruct (kind_of b); destruct (st_ftyp s) as [fp|] eqn:Ef; try discriminate;
      try (injection E1 as <-; cbn [set_data st_ftyp]; rewrite ?Ef; reflexivity).
    + destruct (MAX_FTYP_SIZE <? _); [discriminate|]. destruct (parse_ftyp _); try discriminate. cbn [rbind] in E1.
      destruct (existsb (bytes_eqb COMPATIBLE_BRAND) _); [|discriminate]. injection E1 as <-. reflexivity.
    + destruct (st_data s) as [sp|]; [destruct (_ =? _); [|discriminate]|]; injection E1 as <-; cbn [set_data st_ftyp]; rewrite ?Ef; reflexivity.
    + destruct (max_metadata_size cfg <? _); [discriminate|]. destruct (moov_check _); try discriminate.
      injection E1 as <-. cbn [st_ftyp]. rewrite ?Ef. reflexivity.
Qed.

Lemma fold_moov : forall bs s s', fold_boxes cfg inp s bs = Ok s' ->
  match last_moov bs with
  | Some m => exists kids, moov_check (tb_payload inp m) = Ok kids /\ st_moov s' = Some (kids, tb_off m)
  | None => st_moov s' = st_moov s
  end.
Proof.
  induction bs as [|b r IH]; intros s s' H.
  - cbn in H. injection H as <-. reflexivity.
  - rewrite fold_cons in H. destruct (box_step cfg inp s b) as [s1| | | |] eqn:E1; try discriminate. cbn [rbind] in H.
    specialize (IH s1 s' H). rewrite last_moov_cons. destruct (last_moov r) as [m|]; [exact IH|].
    rewrite IH. rewrite is_moov_kind.
    rewrite box_step_kind in E1. cbv zeta in E1.
    destruct (kind_of b); destruct (st_ftyp s) as [fp|] eqn:Ef; try discriminate;
      try (injection E1 as <-; reflexivity).
    + destruct (MAX_FTYP_SIZE <? _); [discriminate|]. destruct (parse_ftyp _); try discriminate. cbn [rbind] in E1.
      destruct (existsb (bytes_eqb COMPATIBLE_BRAND) _); [|discriminate]. injection E1 as <-. reflexivity.
    + destruct (st_data s) as [sp|]; [destruct (_ =? _); [|discriminate]|]; injection E1 as <-; reflexivity.
    + destruct (max_metadata_size cfg <? _); [discriminate|].
      destruct (moov_check (tb_payload inp b)) as [kids| | | |] eqn:Em; try discriminate.
      injection E1 as <-. exists kids. split; reflexivity.
Qed.

End Final.

(* ================================================================== the rewrite plan *)
Definition plan_calc (fp mp : bytes) (m_off d_off : N) : plan :=
  if m_off <? d_off then NoRewrite else
  let ml := metadata_len fp mp in
  if d_off =? ml then Pad 0
  else if (ml + 8 <=? d_off) && (d_off - ml <=? 4294967295 - 8) && (d_off - ml <=? ml) then Pad (d_off - ml)
  else let delta := (Z.of_N ml - Z.of_N d_off)%Z in
       if (- 2 ^ 31 <=? delta)%Z && (delta <? 2 ^ 31)%Z then Shift delta else Refuse.

Lemma plan_of_calc inp bs f m d : the_ftyp bs = Some f -> last_moov bs = Some m -> first_mdat bs = Some d ->
  plan_of inp bs = Some (plan_calc (tb_payload inp f) (tb_payload inp m) (tb_off m) (tb_off d)).
Proof.
  intros Hf Hm Hd. unfold plan_of, plan_calc. rewrite Hf, Hm, Hd.
  destruct (tb_off m <? tb_off d); [reflexivity|]. cbv zeta.
  destruct (tb_off d =? _); [reflexivity|]. destruct (_ && _ && _); [reflexivity|]. destruct (_ && _); reflexivity.
Qed.

Definition table_overflow (d : Z) (ts : list (N * list N)) : bool :=
  existsb (fun t : N * list N => existsb (fun e => match shift (fst t) d e with None => true | Some _ => false end) (snd t)) ts.

Section Finish.
Hypothesis H_put : forall p kids, moov_check p = Ok kids -> put_nodes kids = p.
Hypothesis H_shift : forall p kids ts d, moov_check p = Ok kids -> co_tables p = Some ts -> (- 2 ^ 31 <= d < 2 ^ 31)%Z ->
  is_ok (each_trak kids (shift_table (shift_entry 32 d) (shift_entry 64 d))) = negb (table_overflow d ts).

Lemma with_data_size_small t n : n <= U32MAX ->
  with_data_size t n = Ok (with_u32_data_size t n).
Proof. intros H. unfold with_data_size. destruct (N.leb_spec n U32MAX); [reflexivity | lia]. Qed.

Lemma encoded_len_u32 (t : bytes) n : n <= U32MAX ->
  encoded_len (with_u32_data_size (FourCC t) n) = new_hlen n.
Proof.
  intros H. unfold with_u32_data_size, new_hlen, encoded_len. cbn [htype hsize]. unfold U32MAX in *.
  replace (8 + 0 + 0) with 8 by reflexivity.
  destruct (N.leb_spec (n + 8) 4294967295); cbn [htype hsize]; reflexivity.
Qed.

Lemma finish_plan fp kids mp m_off d_off l ts :
  blen fp <= 1024 -> moov_check mp = Ok kids -> blen mp < 4294967296 -> co_tables mp = Some ts ->
  let s' := {| st_ftyp := Some fp; st_moov := Some (kids, m_off); st_data := Some {| s_off := d_off; s_len := l |} |} in
  let plan := plan_calc fp mp m_off d_off in
  is_ok (finish_p s') = match plan with
                        | NoRewrite | Pad _ => true
                        | Shift d => negb (table_overflow d ts)
                        | Refuse => false
                        end /\
  (forall o, finish_p s' = Ok o -> (o_metadata o = None <-> plan = NoRewrite)).
Proof.
  intros Hfp Hk Hmp Hts s' plan. subst s' plan. unfold finish_p, plan_calc. cbn [st_ftyp st_moov st_data s_off].
  destruct (m_off <? d_off).
  { split; [reflexivity|]. intros o H. injection H as <-. cbn [o_metadata]. split; reflexivity. }
  rewrite (H_put _ _ Hk). fold (blen fp). fold (blen mp).
  rewrite !with_data_size_small by (unfold U32MAX; lia). cbn [rbind].
  rewrite !encoded_len_u32 by (unfold U32MAX; lia).
  assert (Hh1 : new_hlen (blen fp) = 8).
  { unfold new_hlen. destruct (N.leb_spec (blen fp + 8) 4294967295); [reflexivity | lia]. }
  assert (Hh2 : new_hlen (blen mp) <= 16) by (unfold new_hlen; destruct (_ <=? _); lia).
  rewrite !add_u64_ok by (unfold U64MAX; lia). cbn [rbind].
  rewrite add_u64_ok by (unfold U64MAX; lia). cbn [rbind].
  assert (Hml : new_hlen (blen fp) + blen fp + (new_hlen (blen mp) + blen mp) = metadata_len fp mp)
    by (unfold metadata_len; lia).
  rewrite Hml. set (ml := metadata_len fp mp) in *.
  assert (Hmlb : ml < 2 ^ 33) by (change (2 ^ 33) with 8589934592; lia).
  clearbody ml. change (2 ^ 33) with 8589934592 in Hmlb.
  unfold PAD_HEADER_SIZE, MAX_PAD_SIZE.
  destruct (N.eqb_spec d_off ml) as [E0|E0].
  { replace ((ml <=? d_off) && (d_off - ml =? 0)) with true
      by (symmetry; apply andb_true_intro; split; [apply N.leb_le | apply N.eqb_eq]; lia).
    split; [reflexivity|]. intros o H. injection H as <-. cbn [o_metadata]. split; discriminate. }
  replace ((ml <=? d_off) && (d_off - ml =? 0)) with false.
  2:{ symmetry. apply andb_false_iff. destruct (N.leb_spec ml d_off); [right; apply N.eqb_neq; lia | left; reflexivity]. }
  replace ((ml <=? d_off) && (8 <=? d_off - ml) && (d_off - ml <=? 4294967287) && (d_off - ml <=? ml))
    with ((ml + 8 <=? d_off) && (d_off - ml <=? 4294967295 - 8) && (d_off - ml <=? ml)).
  2:{ change (4294967295 - 8) with 4294967287.
      destruct (N.leb_spec (ml + 8) d_off); destruct (N.leb_spec ml d_off); destruct (N.leb_spec 8 (d_off - ml));
        cbn [andb]; try reflexivity; lia. }
  destruct ((ml + 8 <=? d_off) && (d_off - ml <=? 4294967295 - 8) && (d_off - ml <=? ml)) eqn:Epad.
  { split; [reflexivity|]. intros o H. injection H as <-. cbn [o_metadata]. split; discriminate. }
  (* displacement *)
  assert (Hdisp : displacement d_off ml =
            (if (- 2 ^ 31 <=? Z.of_N ml - Z.of_N d_off)%Z && (Z.of_N ml - Z.of_N d_off <? 2 ^ 31)%Z
             then Some (Z.of_N ml - Z.of_N d_off)%Z else None)).
  { unfold displacement, I32MAX. change (2 ^ 31)%Z with 2147483648%Z. change (2147483647 + 1) with 2147483648.
    destruct (Z.leb_spec (Z.opp 2147483648) (Z.of_N ml - Z.of_N d_off)) as [Z1|Z1];
    destruct (Z.ltb_spec (Z.of_N ml - Z.of_N d_off) 2147483648) as [Z2|Z2]; cbn [andb];
    (destruct (N.leb_spec ml d_off) as [Hle|Hgt];
     [destruct (N.leb_spec (d_off - ml) 2147483648) | destruct (N.leb_spec (ml - d_off) 2147483647)]);
    try (apply f_equal; lia); try reflexivity; exfalso; lia. }
  rewrite Hdisp.
  destruct ((- 2 ^ 31 <=? Z.of_N ml - Z.of_N d_off)%Z && (Z.of_N ml - Z.of_N d_off <? 2 ^ 31)%Z) eqn:Er.
  2:{ split; [reflexivity | discriminate]. }
  set (dl := (Z.of_N ml - Z.of_N d_off)%Z) in *.
  assert (Hrange : (- 2 ^ 31 <= dl < 2 ^ 31)%Z).
  { apply andb_prop in Er. destruct Er as [E1 E2]. apply Z.leb_le in E1. apply Z.ltb_lt in E2. split; assumption. }
  rewrite <- (H_shift mp kids ts dl Hk Hts Hrange).
  destruct (each_trak kids _) as [kl| | | |]; cbn [rbind is_ok]; split; try reflexivity; try discriminate.
  intros o H. injection H as <-. cbn [o_metadata]. split; discriminate.
Qed.

End Finish.

(* ================================================================== C05 *)
Definition scfg (cfg : config) : sconfig :=
  {| c_max := max_metadata_size cfg; c_cum := cumulative_mdat_box_size cfg |}.
Definition overflow_spec (cfg : config) (inp : input) : bool :=
  match tiling (cumulative_mdat_box_size cfg) inp with Some bs => overflow_case inp bs | None => false end.

Lemma forallb_In {A} (f : A -> bool) l x : forallb f l = true -> In x l -> f x = true.
Proof. intros H I. rewrite forallb_forall in H. exact (H x I). Qed.

Section C05.
Variable cfg : config.
Variable inp : input.
Variable lenient : bool.
Hypothesis Hmax : max_metadata_size cfg < 4294967296.
Hypothesis Hlen : ilen inp <= U64MAX.
Hypothesis Hcum : forall t, cumulative_mdat_box_size cfg = Some t -> t <= U32MAX.
Hypothesis H_moov : forall p, blen p < 4294967296 ->
  is_ok (moov_check p) = match co_regions p with Some _ => true | None => false end.
Hypothesis H_put : forall p kids, moov_check p = Ok kids -> put_nodes kids = p.
Hypothesis H_shift : forall p kids ts d, moov_check p = Ok kids -> co_tables p = Some ts -> (- 2 ^ 31 <= d < 2 ^ 31)%Z ->
  is_ok (each_trak kids (shift_table (shift_entry 32 d) (shift_entry 64 d))) =
  negb (existsb (fun t : N * list N => existsb (fun e => match shift (fst t) d e with None => true | Some _ => false end) (snd t)) ts).

Lemma accept_boxes_split bs :
  accept_boxes (scfg cfg) inp bs =
  (layout' false bs && Ft inp bs && Mv cfg inp bs && mdat_contiguous bs)
  && (existsb (is FTYP) bs && existsb (is MOOV) bs && existsb (is MDAT) bs).
Proof.
  unfold accept_boxes. rewrite layout_ok_split. cbn [orb c_max scfg]. fold (Ft inp bs). fold (Mv cfg inp bs).
  destruct (layout' false bs), (Ft inp bs), (Mv cfg inp bs), (mdat_contiguous bs),
    (existsb (is FTYP) bs), (existsb (is MOOV) bs), (existsb (is MDAT) bs); reflexivity.
Qed.

(* the closed form on a tiled input, for this configuration *)
Lemma tiled_result bs : tiling (cumulative_mdat_box_size cfg) inp = Some bs ->
  (is_ok (s <- fold_boxes cfg inp st0 bs ;; finish_p s) = accept_boxes (scfg cfg) inp bs && negb (overflow_case inp bs)) /\
  (forall o, (s <- fold_boxes cfg inp st0 bs ;; finish_p s) = Ok o ->
     (o_metadata o = None <-> plan_of inp bs = Some NoRewrite)).
Proof.
  intros Et. pose proof (tile_chain _ _ _ _ _ Et) as Hc.
  pose proof (fold_ok cfg inp Hmax H_moov bs st0 0 (ilen inp) Hc I) as Hok.
  cbn [st0 seen st_ftyp st_data Dfun] in Hok.
  rewrite accept_boxes_split.
  destruct (fold_boxes cfg inp st0 bs) as [s'| | | |] eqn:Ef; cbn [rbind].
  2-5: (split; [cbn [is_ok] in *; rewrite <- Hok; reflexivity | discriminate]).
  cbn [is_ok] in Hok. rewrite <- Hok. cbn [andb].
  assert (Hcore : layout' false bs = true /\ Ft inp bs = true /\ Mv cfg inp bs = true /\ mdat_contiguous bs = true).
  { symmetry in Hok. apply andb_prop in Hok. destruct Hok as [Hok H4]. apply andb_prop in Hok. destruct Hok as [Hok H3].
    apply andb_prop in Hok. tauto. }
  destruct Hcore as (HL & HF & HM & HD).
  pose proof (fold_ftyp cfg inp bs st0 s' Ef) as Sf. cbn [st0 st_ftyp] in Sf.
  pose proof (fold_moov cfg inp bs st0 s' Ef) as Sm.
  destruct (fold_data_none cfg inp bs st0 0 (ilen inp) s' Hc eq_refl Ef) as (Sd & _ & _).
  pose proof (media_run_first_mdat bs) as Hfm.
  rewrite (existsb_hd_filter (is FTYP)), existsb_last_moov, (existsb_hd_filter (is MDAT)).
  fold (the_ftyp bs). fold (first_mdat bs).
  unfold overflow_case.
  destruct (the_ftyp bs) as [f|] eqn:Etf.
  2:{ unfold finish_p. rewrite Sf. split; [reflexivity | discriminate]. }
  destruct (last_moov bs) as [m|] eqn:Elm.
  2:{ unfold finish_p. rewrite Sf, Sm. cbn [st0 st_moov]. split; [reflexivity | discriminate]. }
  destruct (first_mdat bs) as [d|] eqn:Efd.
  2:{ unfold finish_p. rewrite Hfm in Sd. destruct Sm as (kids & _ & Sm). rewrite Sf, Sm, Sd. split; [reflexivity | discriminate]. }
  destruct Hfm as [l Hfm]. rewrite Hfm in Sd. destruct Sm as (kids & Hk & Sm).
  rewrite (plan_of_calc inp bs f m d Etf Elm Efd).
  (* the facts about the ftyp and the moov box *)
  destruct (hd_filter_in _ _ _ Etf) as [Hfin Hfis].
  destruct (last_moov_in _ _ Elm) as [Hmin Hmis].
  pose proof (forallb_In _ _ _ HF Hfin) as Hfok. cbn beta in Hfok. rewrite Hfis in Hfok.
  pose proof (forallb_In _ _ _ HM Hmin) as Hmok. cbn beta in Hmok. rewrite Hmis in Hmok.
  assert (Hfp : blen (tb_payload inp f) <= 1024).
  { unfold ftyp_ok in Hfok. apply andb_prop in Hfok. destruct Hfok as [Hfok _]. apply andb_prop in Hfok.
    destruct Hfok as [_ Hfok]. apply N.leb_le in Hfok. exact Hfok. }
  unfold moov_ok in Hmok. apply andb_prop in Hmok. destruct Hmok as [Hm1 Hm2]. apply N.leb_le in Hm1.
  assert (Hts : exists ts, co_tables (tb_payload inp m) = Some ts).
  { unfold co_tables. destruct (co_regions (tb_payload inp m)); [eexists; reflexivity | discriminate]. }
  destruct Hts as [ts Hts]. rewrite Hts.
  assert (Hs' : s' = {| st_ftyp := Some (tb_payload inp f); st_moov := Some (kids, tb_off m);
                        st_data := Some {| s_off := tb_off d; s_len := l |} |}).
  { destruct s' as [a b c]. cbn [st_ftyp st_moov st_data] in *. congruence. }
  rewrite Hs'.
  destruct (finish_plan H_put H_shift (tb_payload inp f) kids (tb_payload inp m) (tb_off m) (tb_off d) l ts
              Hfp Hk ltac:(lia) Hts) as [P1 P2].
  split.
  - rewrite P1. unfold table_overflow. destruct (plan_calc _ _ _ _); reflexivity.
  - intros o Ho. rewrite (P2 o Ho). split; congruence.
Qed.

Theorem accept_iff_rules fuel :
  let r := mp4_sanitize cfg lenient U64MAX' inp fuel in
  r <> OutOfFuel ->
  is_ok r = accept_spec (scfg cfg) inp && negb (overflow_spec cfg inp).
Proof.
  intros r Hr. subst r. unfold accept_spec, overflow_spec. cbn [c_cum scfg].
  assert (Hms : ilen inp <= U64MAX') by (rewrite U64MAX'_eq; exact Hlen).
  assert (Hms64 : U64MAX' <= U64MAX) by (rewrite U64MAX'_eq; lia).
  destruct (tiling (cumulative_mdat_box_size cfg) inp) as [bs|] eqn:Et.
  - destruct (sanitize_tiled inp lenient U64MAX' cfg Hms Hms64 Hcum fuel bs Et) as [E|[E _]]; [|contradiction].
    rewrite E. apply (tiled_result bs Et).
  - apply sanitize_untiled; assumption.
Qed.

Theorem none_iff_moov_first fuel o :
  mp4_sanitize cfg lenient U64MAX' inp fuel = Ok o ->
  exists bs, tiling (cumulative_mdat_box_size cfg) inp = Some bs /\
    (o_metadata o = None <-> plan_of inp bs = Some NoRewrite).
Proof.
  intros H.
  assert (Hms : ilen inp <= U64MAX') by (rewrite U64MAX'_eq; exact Hlen).
  assert (Hms64 : U64MAX' <= U64MAX) by (rewrite U64MAX'_eq; lia).
  destruct (tiling (cumulative_mdat_box_size cfg) inp) as [bs|] eqn:Et.
  2:{ pose proof (sanitize_untiled inp lenient U64MAX' cfg Hms Hms64 Hcum fuel Et) as Hn. rewrite H in Hn. discriminate. }
  exists bs. split; [reflexivity|].
  destruct (sanitize_tiled inp lenient U64MAX' cfg Hms Hms64 Hcum fuel bs Et) as [E|[E _]]; [|congruence].
  rewrite H in E. symmetry in E. exact (proj2 (tiled_result bs Et) o E).
Qed.

End C05.

(* "NoRewrite" says: the last moov starts before the first mdat *)
Lemma plan_norewrite_iff inp bs : plan_of inp bs = Some NoRewrite <->
  exists f m d, the_ftyp bs = Some f /\ last_moov bs = Some m /\ first_mdat bs = Some d /\ tb_off m < tb_off d.
Proof.
  unfold plan_of. destruct (the_ftyp bs) as [f|]; [|split; [discriminate | intros (f & m & d & H & _); discriminate]].
  destruct (last_moov bs) as [m|]; [|split; [discriminate | intros (f' & m & d & _ & H & _); discriminate]].
  destruct (first_mdat bs) as [d|]; [|split; [discriminate | intros (f' & m' & d & _ & _ & H & _); discriminate]].
  destruct (N.ltb_spec (tb_off m) (tb_off d)) as [L|L].
  - split; [intros _; exists f, m, d; repeat split; assumption | reflexivity].
  - split.
    + cbv zeta. destruct (_ =? _); [discriminate|]. destruct (_ && _); [discriminate|]. destruct (_ && _); discriminate.
    + intros (f' & m' & d' & _ & Hm & Hd & Hlt). injection Hm as <-. injection Hd as <-. lia.
Qed.

