(* The typed boxes of the moov tree, tied to the source by regeneration: Gen/Mp4BoxTypes.v (tools/gen_consts.py --box-types) carries the
   #[box_type = ".."] of TrakBox (the item type of MoovBox::traks), of the boxes the accessor chain
   trak.mdia_mut()?.minf_mut()?.stbl_mut()? asks for (read from the accessors' return types, in chain order), and of
   StcoBox / Co64Box / MoovBox / FtypBox.  Here: the model's accessor chain [trak_co] IS the descent along the regenerated chain, and
   the model's type constants are the regenerated ones. *)
From Coq Require Import List NArith Bool.
From Coq.Strings Require Import Byte.
From MS Require Import Base.Bytes Base.Outcome Mp4.Header Mp4.Box Gen.Mp4BoxTypes.
Import ListNotations.

(* descend through one container child per name, then run g on the innermost children *)
Fixpoint chain_by {A} (names : list bytes) (kids : list node) (g : list node -> res (list node * A)) : res (list node * A) :=
  match names with
  | [] => g kids
  | t :: r => in_child t kids (fun ks => chain_by r ks g)
  end.

Lemma trak_co_is_src {A} (kids : list node) (g : node -> res (node * A)) :
  trak_co kids g = chain_by ACCESSOR_CHAIN_SRC kids (fun sk => stbl_co sk g).
Proof. reflexivity. Qed.

Lemma box_types_are_src :
  t_trak = TRAKS_ITEM_TYPE_SRC /\ [t_mdia; t_minf; t_stbl] = ACCESSOR_CHAIN_SRC /\
  t_stco = BOXTYPE_StcoBox_SRC /\ t_co64 = BOXTYPE_Co64Box_SRC /\ t_moov = BOXTYPE_MoovBox_SRC /\ t_ftyp = BOXTYPE_FtypBox_SRC.
Proof. repeat split; reflexivity. Qed.
