(* The MP4 sanitizer over the Level-B reader (futures BufReader of capacity BoxHeader::MAX_SIZE over the input):
   result, number of inner operations, inner trace; and the allocation events of the abstract run.  Definitions only. *)
From Coq Require Import List NArith Bool.
From MS Require Import Base.Bytes Base.Outcome Base.Prog Base.BufLevel Mp4.San Gen.Consts.
Import ListNotations.
Open Scope N_scope.

Definition mp4_sanitize_b (cfg : config) (lenient : bool) (max_seek : N) (inp : input) (fuel : nat)
           (fault : option (N * ioerr)) : res out * N * list ievent :=
  run_b inp lenient max_seek BOXHEADER_MAX_SIZE fault (sanitize_prog cfg fuel).

(* allocation events (sizes, in order) of the run on the ideal cursor *)
Definition mp4_allocs (cfg : config) (lenient : bool) (max_seek : N) (inp : input) (fuel : nat) : list N :=
  allocs_of (snd (run_trace (cursor inp lenient max_seek) (fun s => s) (sanitize_prog cfg fuel) 0 [])).
