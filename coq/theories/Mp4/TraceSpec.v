(* SPECIFICATION (for C10 / C13) of the operation sequences the MP4 sanitizer may issue on its reader, written from the
   property text, not from the code:

     "reads no more than the ftyp and moov boxes plus a 32-byte look-ahead per top-level box ... declared sizes above
      the limit are rejected before anything is allocated"

   as a MONITOR: a state machine over (operation, answer) pairs.  [mp4_mstep B m o a = None] means: operation o is
   not allowed in monitor state m.  B is the bound max(max_metadata_size, 1024) of a payload allocation, F the bound
   2 * (max_metadata_size + 1024 + 64) of the allocation of the returned metadata.

   Per top-level box:   fill_buf?  stream_position  <header: reads of 4, 4, [8], [16] bytes>
                        then [stream_len stream_position]            (a box that extends to the end of the file)
                        then EITHER skip n                           (the payload is passed over, never read)
                             OR     alloc n (n <= B)  read_exact n   (the payload is read into memory: ftyp, moov)
   After the last box:  stream_position  stream_len  [alloc m]       (m <= F: the returned metadata)
   An operation that answers an error ends the run.  Definitions only. *)
From Coq Require Import List NArith Bool.
From MS Require Import Base.Bytes Base.Outcome Base.Prog.
Open Scope N_scope.

Inductive mstate :=
  | MHead                          (* between two top-level boxes: only fill_buf *)
  | MIter                          (* fill_buf answered "not empty": stream_position is next *)
  | MHdr (start got : N)           (* in the header of the box that starts at [start]; [got] header bytes read so far *)
  | MLenQ                          (* stream_len asked for an until-EOF box: stream_position is next *)
  | MBody                          (* the payload size is known: skip or alloc *)
  | MAlloc (n : N)                 (* n bytes have been allocated: read_exact n is next *)
  | MEnd (k : N)                   (* after the loop; k operations of the epilogue done *)
  | MErr (o : op) (e : ioerr)      (* operation o answered the error e: nothing may follow *)
  | MDone.                         (* nothing may follow *)

(* the header is read as 4 + 4 bytes, then 8 more if the size field says so, then 16 more for a uuid type: <= 32 bytes *)
Definition hdr_read_ok (got n : N) : bool :=
  ((got =? 0) && (n =? 4)) || ((got =? 4) && (n =? 4)) || ((got =? 8) && ((n =? 8) || (n =? 16)))
  || ((got =? 16) && (n =? 16)).

(* the answer decides how the run goes on: the expected kind of answer continues, an error answer ends the run, any
   other answer is a reader that breaks the protocol (the programme stops) *)
Definition on_bool (o : op) (a : resp) (ok : bool -> mstate) : option mstate :=
  match a with RBool b => Some (ok b) | RErr e => Some (MErr o e) | _ => Some MDone end.
Definition on_bytes (o : op) (a : resp) (ok : mstate) : option mstate :=
  match a with RBytes _ => Some ok | RErr e => Some (MErr o e) | _ => Some MDone end.
Definition on_unit (o : op) (a : resp) (ok : mstate) : option mstate :=
  match a with RUnit => Some ok | RErr e => Some (MErr o e) | _ => Some MDone end.
Definition on_num (o : op) (a : resp) (ok : N -> mstate) : option mstate :=
  match a with RNum n => Some (ok n) | RErr e => Some (MErr o e) | _ => Some MDone end.

(* what may follow a complete header *)
Definition body_step (B : N) (after_len : bool) (o : op) (a : resp) : option mstate :=
  match o with
  | OLen => if after_len then None else on_num o a (fun _ => MLenQ)
  | OSkip _ => on_unit o a MHead
  | OAlloc n => if n <=? B then Some (MAlloc n) else None
  | _ => None
  end.

Definition mp4_mstep (B F : N) (m : mstate) (o : op) (a : resp) : option mstate :=
  match m with
  | MHead => match o with OFillEmpty => on_bool o a (fun b => if b then MEnd 0 else MIter) | _ => None end
  | MIter => match o with OPos => on_num o a (fun start => MHdr start 0) | _ => None end
  | MHdr start got =>
      match o with
      | OReadExact n => if hdr_read_ok got n then on_bytes o a (MHdr start (got + n)) else None
      | _ => if 8 <=? got then body_step B false o a else None
      end
  | MLenQ => match o with OPos => on_num o a (fun _ => MBody) | _ => None end
  | MBody => body_step B true o a
  | MAlloc n => match o with OReadExact n' => if n' =? n then on_bytes o a MHead else None | _ => None end
  | MEnd k =>
      match o with
      | OPos => if k =? 0 then on_num o a (fun _ => MEnd 1) else None
      | OLen => if k =? 1 then on_num o a (fun _ => MEnd 2) else None
      | OAlloc n => if (k =? 2) && (n <=? F) then Some MDone else None
      | _ => None
      end
  | MErr _ _ | MDone => None
  end.

(* the `?` sites without map_eof *)
Definition plain_site (o : op) : Prop := o = OFillEmpty \/ o = OPos \/ o = OLen.

(* what the monitor lets a run return: an Io error only as the answer of the failed operation, and an UnexpectedEof
   only from a site that is not a read or a skip *)
Definition io_only_from_reader {A} (m : mstate) (r : res A) : Prop :=
  match r with
  | EIo e => exists o, m = MErr o e /\ (e = EUnexpectedEof -> plain_site o)
  | _ => True
  end.

(* the answers of a reader that returns exactly the bytes asked for (the ideal cursor) *)
Definition exact_reads (o : op) (a : resp) : Prop :=
  match o, a with
  | OReadExact n, RBytes l => N.of_nat (length l) = n
  | _, _ => True
  end.

(* ---- what C10 demands of every step of a run on the ideal cursor; m: monitor state before the step, pos: the
   cursor position before the step *)
(* one of the <= 4 header reads: contiguous from the position [start] that stream_position reported at the start of
   this loop iteration, inside the 32-byte window [start, start + 32) *)
Definition header_read (m : mstate) (pos n : N) : Prop :=
  exists start got, m = MHdr start got /\ pos = start + got /\ got + n <= 32.
(* a payload read: exactly the n bytes allocated by the preceding allocation event, n <= B *)
Definition payload_read (B : N) (m : mstate) (n : N) : Prop := m = MAlloc n /\ n <= B.

Definition read_confined (B : N) (m : mstate) (pos : N) (o : op) (a : resp) : Prop :=
  match o with OReadExact n => header_read m pos n \/ payload_read B m n | OReadUpTo _ => False | _ => True end.
(* every allocation is bounded by B, except the one for the returned metadata (monitor state MEnd 2), bounded by F *)
Definition alloc_bounded (B F : N) (m : mstate) (pos : N) (o : op) (a : resp) : Prop :=
  match o with OAlloc n => n <= B \/ (m = MEnd 2 /\ n <= F) | _ => True end.
