(* Totality of the MP4 sanitizer's top level (C09, mp4 part): no [Panic] site of Mp4/San.v is reachable and
   ilen/8 + 1 units of fuel always suffice -- given that the moov-internal functions do not panic / run out of
   fuel on payloads below 4 GiB (Mp4/BoxProofs.v; Section hypotheses here, instantiated in Props). *)
From Coq Require Import List NArith ZArith Bool Lia Arith.
From Coq.Strings Require Import Byte.
From MS Require Import Base.Bytes Base.Outcome Base.Prog Gen.Consts Gen.Kernels Mp4.Header Mp4.Box Mp4.San Mp4.Spec
  Mp4.HeaderProofs Mp4.LoopProofs.
Import ListNotations.
Open Scope N_scope.
Arguments N.add : simpl never.
Arguments N.sub : simpl never.
Arguments N.mul : simpl never.
Arguments N.div : simpl never.
Arguments N.modulo : simpl never.
Arguments N.pow : simpl never.
Arguments N.eqb : simpl never.
Arguments N.ltb : simpl never.
Arguments N.leb : simpl never.

Definition quiet {A} (r : res A) : Prop := match r with Panic _ | OutOfFuel => False | _ => True end.

Lemma quiet_rbind {A B} (r : res A) (f : A -> res B) :
  quiet r -> (forall a, r = Ok a -> quiet (f a)) -> quiet (rbind r f).
Proof. intros H1 H2. destruct r; cbn in *; auto. Qed.

Lemma encoded_len_le h : encoded_len h <= 32.
Proof. unfold encoded_len. destruct (hsize h), (htype h); lia. Qed.

Section Total.
Variable inp : input.
Variable lenient : bool.
Variable ms : N.
Variable cfg : config.
Hypothesis Hms : ilen inp <= ms.
Hypothesis Hms64 : ms <= U64MAX.
Hypothesis Hcum : forall t, cumulative_mdat_box_size cfg = Some t -> t <= U32MAX.
Hypothesis Hmax : max_metadata_size cfg < 4294967296.
Hypothesis H_quiet : forall p, blen p < 4294967296 -> quiet (moov_check p).
Hypothesis H_put : forall p kids, moov_check p = Ok kids -> put_nodes kids = p.
Hypothesis H_squiet : forall p kids d, moov_check p = Ok kids ->
  quiet (each_trak kids (shift_table (shift_entry 32 d) (shift_entry 64 d))).
Let cum := cumulative_mdat_box_size cfg.

Definition st_ok (s : st) : Prop :=
  (forall fp, st_ftyp s = Some fp -> N.of_nat (length fp) <= MAX_FTYP_SIZE) /\
  (forall kids off, st_moov s = Some (kids, off) ->
     exists p, moov_check p = Ok kids /\ N.of_nat (length p) <= max_metadata_size cfg).

Lemma st_ok_st0 : st_ok st0.
Proof. split; intros; discriminate. Qed.

Lemma length_payload b : N.of_nat (length (tb_payload inp b)) = tb_size b - tb_hlen b.
Proof. unfold tb_payload. rewrite length_iread. apply N2Nat.id. Qed.

Lemma skipr_quiet b : quiet (skipr inp lenient ms b).
Proof.
  unfold skipr, skip_p. destruct lenient.
  - destruct (_ <=? ms); [exact I|]. destruct (_ && _); exact I.
  - destruct (_ <=? ilen inp); exact I.
Qed.
Lemma readr_quiet b : quiet (readr inp b).
Proof. unfold readr. destruct (_ <=? _); exact I. Qed.

Lemma box_step_io_quiet s b sk rd : quiet sk -> quiet rd -> st_ok s ->
  match box_step_io cfg inp s b sk rd with
  | Ok (s', _) => st_ok s'
  | Panic _ | OutOfFuel => False
  | _ => True
  end.
Proof.
  intros Hsk Hrd [Hf Hm]. unfold box_step_io.
  assert (Hset : forall d, st_ok (set_data s d)) by (intros d; split; [exact Hf | exact Hm]).
  assert (Hfill : forall (f : N -> st), (forall q, st_ok (f q)) ->
            match rbind sk (fun q => Ok (f q, q)) with Ok (s', _) => st_ok s' | Panic _ | OutOfFuel => False | _ => True end).
  { intros f Hfq. destruct sk; cbn in *; auto. }
  destruct (is FREE b || is SKIP b). { apply Hfill. intros q. apply Hset. }
  destruct (is FTYP b).
  { destruct (st_ftyp s) eqn:Ef; [exact I|]. destruct (N.ltb_spec MAX_FTYP_SIZE (tb_size b - tb_hlen b)); [exact I|].
    destruct rd; cbn in *; auto. unfold parse_ftyp.
    destruct (Nat.ltb _ 4); [exact I|]. destruct (Nat.ltb _ 8); [exact I|]. cbn [rbind snd fst].
    destruct (existsb _ _); [|exact I]. split; cbn [st_ftyp st_moov].
    - intros fp E. injection E as <-. rewrite length_payload. assumption.
    - exact Hm. }
  destruct (st_ftyp s) eqn:Ef; [|exact I].
  destruct (is MDAT b).
  { destruct sk; cbn in *; auto. destruct (st_data s) as [sp|]; [destruct (_ =? _); [|exact I]|]; apply Hset. }
  destruct (is MOOV b).
  { destruct (N.ltb_spec (max_metadata_size cfg) (tb_size b - tb_hlen b)); [exact I|].
    destruct rd; cbn in *; auto.
    pose proof (H_quiet (tb_payload inp b)) as Hq. unfold blen in Hq. rewrite length_payload in Hq.
    specialize (Hq ltac:(lia)).
    destruct (moov_check (tb_payload inp b)) as [kids| | | |] eqn:Ek; cbn in *; auto.
    split; cbn [st_ftyp st_moov].
    - exact Hf.
    - intros kids' off E. injection E as <- <-. exists (tb_payload inp b). split; [exact Ek|].
      rewrite length_payload. assumption. }
  destruct (is META b || is MECO b). { apply Hfill. intros q. apply Hset. }
  destruct sk; cbn in *; auto.
Qed.

Lemma next_box_hdr_fits p b : p < ilen inp -> next_box cum inp p = Some b -> p + tb_hlen b <= ilen inp.
Proof.
  intros Hp Hn. unfold next_box in Hn. rewrite shdr_of_hdr_read in Hn.
  destruct (hdr_read (window inp p)) as [[h r]|] eqn:E; [|discriminate].
  assert (Ha : hdr_at inp p = Ok (h, p + encoded_len h)) by (unfold hdr_at; rewrite E; reflexivity).
  destruct (hdr_at_inv inp ms Hms Hms64 _ _ _ Ha) as (_ & _ & _ & Hfit). specialize (Hfit Hp).
  destruct (_ <? _); [discriminate|]. injection Hn as <-. cbn [tb_hlen sh_of_hdr sh_len]. exact Hfit.
Qed.

(* the loop: never a panic; out of fuel only below (ilen - p)/8 + 1; the state stays well formed *)
Lemma loop_total : forall lf s p, p <= ilen inp -> data_inv s p -> st_ok s ->
  match loop_pure inp lenient ms lf cfg s p with
  | Ok (s', _) => st_ok s'
  | Panic _ => False
  | OutOfFuel => (lf <= N.to_nat ((ilen inp - p) / 8))%nat
  | _ => True
  end.
Proof.
  induction lf as [|lf IH]; intros s p Hp Hinv Hok; [cbn [loop_pure]; apply Nat.le_0_l|].
  cbn [loop_pure]. destruct (N.leb_spec (ilen inp) p) as [Hl|Hl]; [exact Hok|].
  destruct (next_box cum inp p) as [b|] eqn:Eb.
  2:{ destruct (step_next_none inp lenient ms cfg Hms Hms64 s p Hl Eb) as [e ->]. exact I. }
  rewrite (step_next_some inp lenient ms cfg Hms Hms64 Hcum s p b Hl Hinv Eb).
  destruct (next_box_facts _ _ _ _ Eb) as (Ho & H8 & Hs).
  pose proof (next_box_hdr_fits p b Hl Eb) as Hfit.
  pose proof (box_step_io_quiet s b _ _ (skipr_quiet b) (readr_quiet b) Hok) as Hq.
  assert (Hdiv : 1 <= (ilen inp - p) / 8).
  { replace (ilen inp - p) with ((ilen inp - p - 8) + 1 * 8) by lia. rewrite N.div_add by lia.
    generalize ((ilen inp - p - 8) / 8). intros; lia. }
  destruct (N.ltb_spec (ilen inp) (tb_end b)) as [He|He].
  - destruct (box_step_io cfg inp s b (skipr inp lenient ms b) (readr inp b)) as [[s' q]| | | |] eqn:Es;
      cbn [rbind fst snd]; try exact I; try contradiction.
    apply box_step_io_inv in Es. destruct Es as [Es|Es].
    + unfold skipr in Es. apply skip_p_inv in Es; try assumption. destruct Es as (Hq' & _ & _).
      assert (Hgt : ilen inp < q) by (unfold tb_end in He; lia).
      destruct (loop_past_end inp lenient ms cfg Hms Hms64 lf s' q Hgt) as [E|E]; rewrite E; [|exact Hq].
      destruct lf; [revert Hdiv; generalize ((ilen inp - p) / 8); intros; lia
                  | cbn [loop_pure] in E; destruct (N.leb_spec (ilen inp) q); [discriminate | lia]].
    + unfold readr in Es. destruct (N.leb_spec (tb_end b) (ilen inp)); [lia | discriminate].
  - destruct (complete_io inp lenient ms cfg Hms Hms64 b p Eb He) as [E1 E2]. rewrite E1, E2 in *.
    rewrite box_step_io_ok in *.
    destruct (box_step cfg inp s b) as [s'| | | |] eqn:Es; cbn [rmap rbind fst snd] in *; try exact I; try contradiction.
    assert (Hinv' : data_inv s' (tb_end b)) by (apply (box_step_inv _ _ _ _ _ Es); rewrite Ho; exact Hinv).
    specialize (IH s' (tb_end b) He Hinv' Hq).
    destruct (loop_pure inp lenient ms lf cfg s' (tb_end b)) as [[s2 q2]| | | |]; try exact IH.
    unfold tb_end in *. rewrite Ho in *.
    assert (D : (ilen inp - (p + tb_size b)) / 8 + 1 <= (ilen inp - p) / 8).
    { replace (ilen inp - p) with ((ilen inp - (p + tb_size b)) + (tb_size b - 8) + 1 * 8) by lia.
      rewrite N.div_add by lia.
      pose proof (N.div_le_mono (ilen inp - (p + tb_size b)) (ilen inp - (p + tb_size b) + (tb_size b - 8)) 8).
      lia. }
    revert D IH. generalize ((ilen inp - (p + tb_size b)) / 8). generalize ((ilen inp - p) / 8). intros; lia.
Qed.

Lemma with_data_size_quiet t n : quiet (with_data_size t n).
Proof. unfold with_data_size. destruct (_ <=? _); [exact I|]. destruct (_ <=? _); exact I. Qed.

Lemma with_data_size_len t n h : with_data_size t n = Ok h -> n <= U32MAX -> True.
Proof. trivial. Qed.

Lemma finish_quiet s : st_ok s -> quiet (finish_p s).
Proof.
  intros [Hf Hm]. unfold finish_p.
  destruct (st_ftyp s) as [fp|] eqn:Ef; [|exact I].
  destruct (st_moov s) as [[kids mo]|] eqn:Em; [|exact I].
  destruct (st_data s) as [d|]; [|exact I].
  destruct (mo <? s_off d); [exact I|].
  specialize (Hf fp eq_refl). destruct (Hm kids mo eq_refl) as (p & Hk & Hp).
  rewrite (H_put _ _ Hk).
  apply quiet_rbind; [apply with_data_size_quiet|]. intros fh _.
  apply quiet_rbind; [apply with_data_size_quiet|]. intros mh _.
  pose proof (encoded_len_le fh). pose proof (encoded_len_le mh). unfold MAX_FTYP_SIZE in Hf.
  rewrite !add_u64_ok by (unfold U64MAX; lia). cbn [rbind].
  rewrite add_u64_ok by (unfold U64MAX; lia). cbn [rbind].
  destruct (_ && _); [exact I|]. destruct (_ && _); [exact I|].
  destruct (displacement _ _) as [dl|]; [|exact I].
  apply quiet_rbind; [apply (H_squiet p kids dl Hk)|]. intros kl _. exact I.
Qed.

Theorem sanitize_total fuel :
  match mp4_sanitize cfg lenient ms inp fuel with
  | Panic _ => False
  | OutOfFuel => (fuel <= N.to_nat (ilen inp / 8))%nat
  | _ => True
  end.
Proof.
  rewrite (sanitize_run inp lenient ms cfg). unfold san_pure.
  pose proof (loop_total fuel st0 0 (N.le_0_l _) I st_ok_st0) as H. rewrite N.sub_0_r in H.
  destruct (loop_pure inp lenient ms fuel cfg st0 0) as [[s q]| | | |]; cbn [rbind fst snd]; try exact I; try exact H.
  unfold check_end_p. destruct (ilen inp <? q); [exact I|]. cbn [rbind].
  pose proof (finish_quiet s H) as Hq. destruct (finish_p s); try exact I; contradiction.
Qed.

End Total.

Lemma quiet_of {A} (r : res A) : (forall n, r <> Panic n) -> r <> OutOfFuel -> quiet r.
Proof. intros H1 H2. destruct r; cbn; try exact I; [exact (H1 site eq_refl) | exact (H2 eq_refl)]. Qed.
